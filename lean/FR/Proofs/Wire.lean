import FR.Proofs.BufIndep
import FR.Proofs.History
import FR.Proofs.AsyncLife
import FR.Proofs.Ttl
import FR.Proofs.HashSetAlg
import FR.Proofs.StrKeys
import FR.Props.C01k
import FR.Props.C02h
import FR.Props.C05
import FR.Props.C10
import FR.Props.C17
/-!
# Wire level: one encoded request written to the socket = one `processCommand`

Infrastructure for the end-to-end round-trip theorems of `FR/Props/C17s.lean`.
-/
namespace FR.Wire
open FR FR.M
set_option linter.unusedSimpArgs false
set_option linter.unusedVariables false

/-! ## 1. an encoded request on an idle connection is parsed to exactly its fields -/

theorem drain_emptybuf (mode : Mode) (c : Nat) (f : Nat) (s : Sys) (h : (connOf s c).buf = []) :
    (drain mode c f).run s = ((), s) := by
  cases f with
  | zero => rfl
  | succ f =>
    rw [drain_succ]
    split
    · rfl
    · rw [h]; rfl

theorem connOf_eq_conn (s : Sys) (c : Nat) : connOf s c = s.conn c := rfl

theorem findConn_of_hasConn {s : Sys} {c : Nat} (h : s.HasConn c) : findConn s c = some (s.conn c) := by
  rw [Sys.hasConn_iff] at h
  unfold findConn
  rw [Sys.conn_def]
  cases h' : s.srv.conns.find? (·.id == c) with
  | none => simp [h'] at h
  | some x => rfl

/-- **one request on the wire.**  On a registered, alive, un-paused connection whose input buffer is empty, while
the server is connected, writing the RESP encoding of `fields` runs `processCommand` on exactly `fields` (whatever
bytes they contain) and leaves the buffer empty. -/
theorem sendallGuarded_encode (mode : Mode) (c : Nat) (fields : List Bytes) (s : Sys)
    (hc : s.HasConn c) (hbuf : (s.conn c).buf = []) (hdead : (s.conn c).dead = false)
    (hpaused : (s.conn c).paused = false) (hup : s.srv.connected = true) :
    (sendallGuarded mode c (encodeRequest fields)).run s =
      ((), setBuf c [] ((processCommand mode c fields).run s).2) := by
  have hf := findConn_of_hasConn hc
  have e1 : (sendallGuarded mode c (encodeRequest fields)).run s = (sendall mode c (encodeRequest fields)).run s := by
    unfold sendallGuarded
    simp only [StateT.run, bind, StateT.bind, get, getThe, MonadStateOf.get, StateT.get, pure, StateT.pure, hup,
      Bool.not_true, Bool.false_eq_true, if_false]
  rw [e1, sendall_run, connOf_eq_conn, hdead]
  simp only [Bool.false_eq_true, if_false, hbuf, List.length_nil, Nat.zero_add]
  rw [drain_succ, connOf_appendBuf_some hf]
  simp only [hpaused, hdead, Bool.or_self, Bool.false_eq_true, if_false, hbuf, List.nil_append]
  have hp : tryParse (encodeRequest fields) = some (fields, []) := by
    have := tryParse_encode' fields []
    rwa [List.append_nil] at this
  rw [hp]
  simp only
  rw [setBuf_appendBuf, FR.BufIndep.bufIndependent mode c fields [] s]
  apply drain_emptybuf
  have := buf_setBuf_le c [] ((processCommand mode c fields).run s).2
  exact List.eq_nil_of_length_eq_zero (by simpa using this)

/-! ## 2. the prologue of `_process_command` -/

/-- the state in which the body of the next known command runs: closed sockets cleaned up, clock refreshed -/
def pre (s : Sys) : Sys := (cleanupClosed s).2.refresh

/-- the clock reading the next command will see -/
def now (s : Sys) : Int := (pre s).srv.time

theorem foldl_forget_shape (l : List Nat) (s : Sys) :
    ∃ subs psubs conns, l.foldl Sys.forget s =
      { s with srv := { s.srv with subs := subs, psubs := psubs, conns := conns } } := by
  induction l generalizing s with
  | nil => exact ⟨_, _, _, rfl⟩
  | cons a as ih =>
    obtain ⟨x, y, z, h⟩ := ih (s.forget a)
    exact ⟨x, y, z, by rw [List.foldl_cons, h]; rfl⟩

theorem cleanupClosed_shape (s : Sys) :
    ∃ subs psubs conns, (cleanupClosed s).2 =
      { s with srv := { s.srv with subs := subs, psubs := psubs, conns := conns, closedSockets := [] } } := by
  obtain ⟨x, y, z, h⟩ := foldl_forget_shape s.srv.closedSockets s
  exact ⟨x, y, z, by rw [cleanupClosed_run, h]; rfl⟩

theorem pre_shape (s : Sys) :
    ∃ subs psubs conns clocks fault, pre s =
      { s with srv := { s.srv with subs := subs, psubs := psubs, conns := conns, closedSockets := [], time := now s },
               clocks := clocks, fault := fault } := by
  obtain ⟨x, y, z, h⟩ := cleanupClosed_shape s
  have hn : now s = (pre s).srv.time := rfl
  unfold pre Sys.refresh at *
  rw [hn]
  rw [h, nextClock_run]
  split
  · exact ⟨x, y, z, _, _, rfl⟩
  · simp only
    split
    · exact ⟨x, y, z, _, _, rfl⟩
    · exact ⟨x, y, z, _, _, rfl⟩

theorem pre_dbs (s : Sys) : (pre s).srv.dbs = s.srv.dbs := by
  obtain ⟨_, _, _, _, _, h⟩ := pre_shape s; rw [h]
theorem pre_out (s : Sys) : (pre s).out = s.out := by
  obtain ⟨_, _, _, _, _, h⟩ := pre_shape s; rw [h]
theorem pre_crashed (s : Sys) : (pre s).crashed = s.crashed := by
  obtain ⟨_, _, _, _, _, h⟩ := pre_shape s; rw [h]
theorem pre_connected (s : Sys) : (pre s).srv.connected = s.srv.connected := by
  obtain ⟨_, _, _, _, _, h⟩ := pre_shape s; rw [h]
theorem pre_version (s : Sys) : (pre s).srv.version = s.srv.version := by
  obtain ⟨_, _, _, _, _, h⟩ := pre_shape s; rw [h]
theorem pre_time (s : Sys) : (pre s).srv.time = now s := rfl
theorem pre_picks (s : Sys) : (pre s).picks = s.picks := by
  obtain ⟨_, _, _, _, _, h⟩ := pre_shape s; rw [h]

theorem now_of_clocks {s : Sys} {t : Int} {rest : List Int} (h : s.clocks = t :: rest) : now s = t := by
  obtain ⟨x, y, z, hc⟩ := cleanupClosed_shape s
  unfold now pre Sys.refresh
  rw [hc, nextClock_run]
  simp only [h]

theorem pre_clocks {s : Sys} {t : Int} {rest : List Int} (h : s.clocks = t :: rest) : (pre s).clocks = rest := by
  obtain ⟨x, y, z, hc⟩ := cleanupClosed_shape s
  unfold pre Sys.refresh
  rw [hc, nextClock_run]
  simp only [h]

theorem pre_hasConn (s : Sys) (c : Nat) : (pre s).HasConn c ↔ s.HasConn c := by
  unfold pre
  rw [Sys.refresh_hasConn, cleanupClosed_hasConn]

/-- the prologue touches at most the watch list of a connection record -/
theorem pre_conn_proj {β} (s : Sys) (c : Nat) (p : Conn → β) (hp : ∀ x : Conn, p x.cleared = p x) :
    p ((pre s).conn c) = p (s.conn c) := by
  unfold pre
  rw [Sys.refresh_conn]
  rcases cleanupClosed_conn_any s c with e | e <;> rw [e]
  exact hp _

/-! ## 3. one REGULAR command (`Cmd.regular`) through `_process_command` -/

theorem faultS_crashed (s : Sys) (f : Option String) : (s.faultS f).crashed = s.crashed := by
  unfold Sys.faultS; split
  · split <;> rfl
  · rfl

theorem faultS_out (s : Sys) (f : Option String) : (s.faultS f).out = s.out := by
  unfold Sys.faultS; split
  · split <;> rfl
  · rfl

theorem afterRegular_crashed (s : Sys) (d : Nat) (o : RunOut) : (s.afterRegular d o).crashed = s.crashed := by
  unfold Sys.afterRegular
  rw [forM_notifyWatch_frame (fun s => s.crashed) (fun _ _ => rfl), faultS_crashed]

theorem afterRegular_out (s : Sys) (d : Nat) (o : RunOut) : (s.afterRegular d o).out = s.out := by
  unfold Sys.afterRegular
  rw [forM_notifyWatch_frame (fun s => s.out) (fun _ _ => rfl), faultS_out]

theorem afterRegular_srvframe {β} (p : Server → β) (hp : ∀ (srv : Server) dbs conns, p { srv with dbs := dbs, conns := conns } = p srv)
    (s : Sys) (d : Nat) (o : RunOut) : p (s.afterRegular d o).srv = p s.srv := by
  unfold Sys.afterRegular
  rw [forM_notifyWatch_frame (fun s => p s.srv) (fun s g => hp s.srv s.srv.dbs _), Sys.faultS_srv]
  exact hp s.srv _ s.srv.conns

/-- the subscriber-mode check of `_run_command` is made on the connection record as the request found it -/
theorem pre_refuses (s : Sys) (c : Nat) (sig : Sig) : (pre s).refuses c sig = s.refuses c sig := by
  unfold Sys.refuses
  rw [pre_conn_proj s c Conn.pubsub (fun _ => rfl)]

/-- what `_process_command` does with a known, arity-correct command — regular, special or script command — on a
subscribed connection outside MULTI when the command is not on the allow-list, and no exception is pending: prologue,
the context error; `_run_command` looks neither at the arguments nor at the database. -/
theorem processCommand_refused (mode : Mode) (c : Nat) (name : Bytes) (args : List Bytes) (s : Sys)
    {sig : Sig} (hsig : lookupSig name = some sig) (har : sig.checkArity args.length = true)
    (htx : (s.conn c).tx = none) (hcr : s.crashed = none) (hrf : s.refuses c sig = true) :
    (processCommand mode c (name :: args)).run s = ((), (pre s).emitS c refusalReply) := by
  rw [processCommand_cons]
  simp only [StateT.run, bind, StateT.bind, getConn_run, hsig]
  rw [dispatch_eq]
  show dispatchBody mode c (s.conn c) sig args (pre s) = _
  unfold dispatchBody
  simp only [har, htx, Bool.not_true, Bool.false_eq_true, if_false, Option.isSome_none, Bool.false_and]
  simp only [bind, StateT.bind, runCommand_refused mode c sig args false ((pre_refuses s c sig).trans hrf), emit_run,
    get, getThe, MonadStateOf.get, StateT.get, pure, StateT.pure]
  have hc : ((pre s).emitS c refusalReply).crashed = none := by
    have : ∀ (t : Sys) r, (t.emitS c r).crashed = t.crashed := by
      intro t r; unfold Sys.emitS; split <;> rfl
    rw [this, pre_crashed, hcr]
  simp only [hc, Option.isSome_none, Bool.false_eq_true, if_false]
  rfl

/-- what `_process_command` does with a known, arity-correct regular command on a connection outside MULTI that is not
refused by the subscriber-mode check (`hps`; the complementary case is `processCommand_refused`), when no
exception is pending: prologue, the pure runner on the selected database, write-back, watcher notification, reply. -/
theorem processCommand_regular (mode : Mode) (c : Nat) (name : Bytes) (args : List Bytes) (s : Sys)
    {sig : Sig} {body : Body} (hsig : lookupSig name = some sig) (hb : Cmd.regular sig.name = some body)
    (har : sig.checkArity args.length = true) (hns : scriptNames.contains sig.name = false)
    (htx : (s.conn c).tx = none) (hcr : s.crashed = none)
    (hps : (s.conn c).pubsub = 0 ∨ SigTable.pubsubAllowed.contains sig.name = true) :
    (processCommand mode c (name :: args)).run s =
      ((), ((pre s).afterRegular ((pre s).conn c).db ((pre s).regularOut c sig body args false)).emitS c
        ((pre s).regularOut c sig body args false).reply) := by
  rw [processCommand_cons]
  simp only [StateT.run, bind, StateT.bind, getConn_run, hsig]
  rw [dispatch_eq]
  show dispatchBody mode c (s.conn c) sig args (pre s) = _
  unfold dispatchBody
  simp only [har, htx, Bool.not_true, Bool.false_eq_true, if_false, Option.isSome_none, Bool.false_and]
  unfold runCommand
  simp only [hns, Bool.false_eq_true, if_false]
  have hrf : (pre s).refuses c sig = false := (pre_refuses s c sig).trans (Sys.refuses_eq_false.2 hps)
  simp only [bind, StateT.bind, runWith_regular_run _ mode c sig args false hb (pre s) hrf, emit_run, get, getThe,
    MonadStateOf.get, StateT.get, pure, StateT.pure]
  have hc : ((((pre s).afterRegular ((pre s).conn c).db ((pre s).regularOut c sig body args false)).emitS c
      ((pre s).regularOut c sig body args false).reply)).crashed = none := by
    have : ∀ (t : Sys) r, (t.emitS c r).crashed = t.crashed := by
      intro t r; unfold Sys.emitS; split <;> rfl
    rw [this, afterRegular_crashed, pre_crashed, hcr]
  simp only [hc, Option.isSome_none, Bool.false_eq_true, if_false]
  rfl

/-! ## 4. sessions: requests written one after the other -/

/-- the state after connection `r.1` has written the RESP encoding of the request `r.2` to its socket
(`FakeSocket.sendall`, outage check included) -/
def after (mode : Mode) (s : Sys) (r : Nat × List Bytes) : Sys :=
  ((sendallGuarded mode r.1 (encodeRequest r.2)).run s).2

/-- the state after a sequence of requests `(connection, fields)`, each written by its own `sendall` -/
def run (mode : Mode) (s : Sys) (reqs : List (Nat × List Bytes)) : Sys := reqs.foldl (after mode) s

@[simp] theorem run_nil (mode : Mode) (s : Sys) : run mode s [] = s := rfl
@[simp] theorem run_cons (mode : Mode) (s : Sys) (r) (rs) : run mode s (r :: rs) = run mode (after mode s r) rs := rfl

/-- connection `c` is an ordinary idle client connection (registered, open, alive, parser running, input buffer
empty, not in MULTI, not subscribed, a valid database selected) of a server that is up, and no exception is pending -/
structure Ready (s : Sys) (c : Nat) : Prop where
  has : s.HasConn c
  buf : (s.conn c).buf = []
  dead : (s.conn c).dead = false
  paused : (s.conn c).paused = false
  closed : (s.conn c).closed = false
  tx : (s.conn c).tx = none
  pubsub : (s.conn c).pubsub = 0
  dbIdx : (s.conn c).db < s.srv.dbs.length
  connected : s.srv.connected = true
  crashed : s.crashed = none

/-- the dictionary of the database selected by connection `c` -/
def dictOf (s : Sys) (c : Nat) : Dict := s.srv.dbs.getD (s.conn c).db []

/-- the database selected by `c` as the NEXT command will see it (clock already refreshed) -/
def view (s : Sys) (c : Nat) : Db := ⟨dictOf s c, now s⟩

/-- the context the next command on `c` runs in -/
def ctxFor (s : Sys) (c : Nat) : Ctx := FR.Ttl.ctxOf (pre s) c

theorem ctxFor_time (s : Sys) (c : Nat) : (ctxFor s c).time = (view s c).time := rfl
theorem ctxFor_version (s : Sys) (c : Nat) : (ctxFor s c).version = s.srv.version := pre_version s

theorem setBuf_eq_updConn (c : Nat) (X : Bytes) (s : Sys) : setBuf c X s = s.updConn c fun x => { x with buf := X } := rfl

theorem emitS_crashed (t : Sys) (c : Nat) (r : Reply) : (t.emitS c r).crashed = t.crashed := by
  unfold Sys.emitS; split <;> rfl

theorem afterRegular_core (s : Sys) (d : Nat) (o : RunOut) (c : Nat) :
    ((s.afterRegular d o).conn c).core = (s.conn c).core :=
  Sys.afterRegular_pred s d o c (fun y => y.core = (s.conn c).core)
    (fun d key x hx => (notifyFn_core d key x).trans hx) rfl

theorem forM_notifyWatch_hasConn (d : Nat) (c : Nat) (ks : List Bytes) (t : Sys) :
    (ks.forM (notifyWatch d) t).2.HasConn c ↔ t.HasConn c := by
  induction ks generalizing t with
  | nil => exact Iff.rfl
  | cons k ks ih =>
    rw [forM_cons_eq]
    simp only [bind, StateT.bind, notifyWatch_run]
    rw [ih]
    exact Sys.mapConns_hasConn _ _ (notifyFn_id d k) c

theorem afterRegular_hasConn (s : Sys) (d : Nat) (o : RunOut) (c : Nat) :
    (s.afterRegular d o).HasConn c ↔ s.HasConn c := by
  unfold Sys.afterRegular
  rw [forM_notifyWatch_hasConn]
  unfold Sys.HasConn
  rw [Sys.faultS_srv]

/-- the state a regular command leaves (see `processCommand_regular`), buffer emptied -/
def regState (s : Sys) (c : Nat) (sig : Sig) (body : Body) (args : List Bytes) : Sys :=
  setBuf c [] (((pre s).afterRegular ((pre s).conn c).db ((pre s).regularOut c sig body args false)).emitS c
    ((pre s).regularOut c sig body args false).reply)

/-- every field of every connection record other than the input buffer, the watch list and the notification flags
is left alone by a regular command -/
theorem regState_conn_proj {β} (s : Sys) (c : Nat) (sig : Sig) (body : Body) (args : List Bytes) (c' : Nat)
    (p : Conn → β) (hp1 : ∀ x : Conn, p x.cleared = p x) (hp2 : ∀ x : Conn, p x.core = p x)
    (hp3 : ∀ (x : Conn) B, p { x with buf := B } = p x) :
    p ((regState s c sig body args).conn c') = p (s.conn c') := by
  unfold regState
  rw [setBuf_eq_updConn, Sys.conn_updConn_proj _ c c' (fun x => { x with buf := [] }) p (fun _ => rfl)
    (fun x => hp3 x []), Sys.emitS_conn, ← hp2, afterRegular_core, hp2]
  exact pre_conn_proj s c' p hp1

theorem regState_hasConn (s : Sys) (c : Nat) (sig : Sig) (body : Body) (args : List Bytes) (c' : Nat) :
    (regState s c sig body args).HasConn c' ↔ s.HasConn c' := by
  unfold regState
  rw [setBuf_eq_updConn, Sys.hasConn_updConn (fun x => { x with buf := [] }) (fun _ => rfl), Sys.emitS_hasConn,
    afterRegular_hasConn, pre_hasConn]

theorem regState_buf (s : Sys) (c : Nat) (sig : Sig) (body : Body) (args : List Bytes) (hc : s.HasConn c) :
    ((regState s c sig body args).conn c).buf = [] := by
  unfold regState
  rw [setBuf_eq_updConn, Sys.conn_updConn_same (fun x => { x with buf := [] }) _ (fun _ => rfl)]
  rw [Sys.emitS_hasConn, afterRegular_hasConn, pre_hasConn]
  exact hc

theorem regularOut_eq (s : Sys) (c : Nat) (sig : Sig) (body : Body) (args : List Bytes)
    (hps : (s.conn c).pubsub = 0) :
    (pre s).regularOut c sig body args false = runRegular sig body (ctxFor s c) none args (view s c) := by
  have h1 : ((pre s).conn c).pubsub = 0 := (pre_conn_proj s c Conn.pubsub (fun _ => rfl)).trans hps
  have h2 : ((pre s).conn c).db = (s.conn c).db := pre_conn_proj s c Conn.db (fun _ => rfl)
  unfold Sys.regularOut ctxFor view dictOf FR.Ttl.ctxOf
  rw [h1, FR.Ttl.runGate_none, pre_dbs, h2]
  rfl

theorem regState_out (s : Sys) (c : Nat) (sig : Sig) (body : Body) (args : List Bytes)
    (hcl : (s.conn c).closed = false) :
    (regState s c sig body args).out = (c, ((pre s).regularOut c sig body args false).reply) :: s.out := by
  have hcl' : (((pre s).afterRegular ((pre s).conn c).db ((pre s).regularOut c sig body args false)).conn c).closed
      = false := by
    have h := afterRegular_core (pre s) ((pre s).conn c).db ((pre s).regularOut c sig body args false) c
    have h2 := congrArg Conn.closed h
    have h3 : ((pre s).conn c).closed = (s.conn c).closed := pre_conn_proj s c Conn.closed (fun _ => rfl)
    exact h2.trans (h3.trans hcl)
  unfold regState
  rw [setBuf_eq_updConn, Sys.updConn_out, Sys.emitS_out, hcl', afterRegular_out, pre_out]
  rfl

theorem regState_dbs (s : Sys) (c : Nat) (sig : Sig) (body : Body) (args : List Bytes) :
    (regState s c sig body args).srv.dbs =
      s.srv.dbs.set (s.conn c).db ((pre s).regularOut c sig body args false).db.dict := by
  have h2 : ((pre s).conn c).db = (s.conn c).db := pre_conn_proj s c Conn.db (fun _ => rfl)
  unfold regState
  rw [setBuf_eq_updConn, Sys.updConn_dbs, Sys.emitS_srv, Sys.afterRegular_dbs, pre_dbs, h2]

theorem regState_crashed (s : Sys) (c : Nat) (sig : Sig) (body : Body) (args : List Bytes) :
    (regState s c sig body args).crashed = s.crashed := by
  unfold regState
  rw [setBuf_eq_updConn]
  show (Sys.emitS _ _ _).crashed = _
  rw [emitS_crashed, afterRegular_crashed, pre_crashed]

theorem regState_srvframe {β} (p : Server → β)
    (hp : ∀ (srv : Server) dbs conns, p { srv with dbs := dbs, conns := conns } = p srv)
    (s : Sys) (c : Nat) (sig : Sig) (body : Body) (args : List Bytes) :
    p (regState s c sig body args).srv = p (pre s).srv := by
  unfold regState
  rw [setBuf_eq_updConn]
  show p { (Sys.emitS _ _ _).srv with conns := _ } = _
  have := hp (Sys.emitS ((pre s).afterRegular ((pre s).conn c).db ((pre s).regularOut c sig body args false)) c
    ((pre s).regularOut c sig body args false).reply).srv
  rw [Sys.emitS_srv] at this ⊢
  have h2 := this ((pre s).afterRegular ((pre s).conn c).db ((pre s).regularOut c sig body args false)).srv.dbs
  rw [← afterRegular_srvframe p hp (pre s) ((pre s).conn c).db ((pre s).regularOut c sig body args false)]
  exact h2 _

/-- **one regular command on the wire**: the state afterwards -/
theorem after_regular (mode : Mode) {s : Sys} {c : Nat} (hr : Ready s c) (name : Bytes) (args : List Bytes)
    {sig : Sig} {body : Body} (hsig : lookupSig name = some sig) (hb : Cmd.regular sig.name = some body)
    (har : sig.checkArity args.length = true) (hns : scriptNames.contains sig.name = false) :
    after mode s (c, name :: args) = regState s c sig body args := by
  unfold after
  simp only
  rw [sendallGuarded_encode mode c _ s hr.has hr.buf hr.dead hr.paused hr.connected,
    processCommand_regular mode c name args s hsig hb har hns hr.tx hr.crashed (.inl hr.pubsub)]
  rfl

theorem regState_clocks (s : Sys) (c : Nat) (sig : Sig) (body : Body) (args : List Bytes) :
    (regState s c sig body args).clocks = (pre s).clocks := by
  unfold regState
  rw [setBuf_eq_updConn]
  show (Sys.emitS _ _ _).clocks = _
  have h1 : ∀ (t : Sys) r, (t.emitS c r).clocks = t.clocks := by
    intro t r; unfold Sys.emitS; split <;> rfl
  have h2 : ∀ (t : Sys) f, (t.faultS f).clocks = t.clocks := by
    intro t f; unfold Sys.faultS; split
    · split <;> rfl
    · rfl
  rw [h1]
  unfold Sys.afterRegular
  rw [forM_notifyWatch_frame (fun s => s.clocks) (fun _ _ => rfl), h2]

/-- what one regular command does, as seen from the wire: `s'` is the state after the request, `o` the outcome of
the pure runner on the selected database -/
structure Stepped (s s' : Sys) (c : Nat) (o : RunOut) : Prop where
  /-- exactly one reply, to the sender -/
  out : s'.out = (c, o.reply) :: s.out
  /-- the selected database is the runner's -/
  dict : dictOf s' c = o.db.dict
  /-- the connection is idle again -/
  ready : Ready s' c
  sel : (s'.conn c).db = (s.conn c).db
  version : s'.srv.version = s.srv.version
  /-- one clock reading was consumed -/
  clocks : ∀ t rest, s.clocks = t :: rest → s'.clocks = rest
  inv : s.DataInv → s'.DataInv

theorem step_regular (mode : Mode) {s : Sys} {c : Nat} (hr : Ready s c) (name : Bytes) (args : List Bytes)
    {sig : Sig} {body : Body} (hsig : lookupSig name = some sig) (hb : Cmd.regular sig.name = some body)
    (har : sig.checkArity args.length = true) (hns : scriptNames.contains sig.name = false) :
    Stepped s (after mode s (c, name :: args)) c (runRegular sig body (ctxFor s c) none args (view s c)) := by
  have hinv : s.DataInv → (after mode s (c, name :: args)).DataInv :=
    fun h => sendallGuarded_preserves mode c _ s h
  rw [after_regular mode hr name args hsig hb har hns] at hinv ⊢
  rw [← regularOut_eq s c sig body args hr.pubsub]
  have hdb : ((regState s c sig body args).conn c).db = (s.conn c).db :=
    regState_conn_proj s c sig body args c Conn.db (fun _ => rfl) (fun _ => rfl) (fun _ _ => rfl)
  refine ⟨regState_out s c sig body args hr.closed, ?_, ?_, hdb, ?_, ?_, hinv⟩
  · unfold dictOf
    rw [hdb, regState_dbs]
    exact getD_set_self _ _ _ _ hr.dbIdx
  · refine ⟨(regState_hasConn s c sig body args c).2 hr.has, regState_buf s c sig body args hr.has, ?_, ?_, ?_, ?_, ?_,
      ?_, ?_, ?_⟩
    · exact (regState_conn_proj s c sig body args c Conn.dead (fun _ => rfl) (fun _ => rfl) (fun _ _ => rfl)).trans hr.dead
    · exact (regState_conn_proj s c sig body args c Conn.paused (fun _ => rfl) (fun _ => rfl) (fun _ _ => rfl)).trans
        hr.paused
    · exact (regState_conn_proj s c sig body args c Conn.closed (fun _ => rfl) (fun _ => rfl) (fun _ _ => rfl)).trans
        hr.closed
    · exact (regState_conn_proj s c sig body args c Conn.tx (fun _ => rfl) (fun _ => rfl) (fun _ _ => rfl)).trans hr.tx
    · exact (regState_conn_proj s c sig body args c Conn.pubsub (fun _ => rfl) (fun _ => rfl) (fun _ _ => rfl)).trans
        hr.pubsub
    · rw [hdb, regState_dbs, List.length_set]; exact hr.dbIdx
    · rw [regState_srvframe (fun srv => srv.connected) (fun _ _ _ => rfl), pre_connected]; exact hr.connected
    · rw [regState_crashed]; exact hr.crashed
  · rw [regState_srvframe (fun srv => srv.version) (fun _ _ _ => rfl), pre_version]
  · intro t rest h
    rw [regState_clocks, pre_clocks h]

/-! ## 5. command names -/

/-- `name` spells the command `cmd` up to ASCII letter case (`SET`, `set`, `sEt` all spell `"set"`) -/
def Spells (name : Bytes) (cmd : String) : Prop := name.map lowerByte = (strBytes cmd).map lowerByte

instance (name : Bytes) (cmd : String) : Decidable (Spells name cmd) := by unfold Spells; infer_instance

theorem Spells.lookup {name : Bytes} {cmd : String} (h : Spells name cmd) : lookupSig name = lookupSig (strBytes cmd) :=
  FR.C17.lookupSig_case_insensitive _ _ h

theorem spells_self (cmd : String) : Spells (strBytes cmd) cmd := rfl

/-- `cmd` is a registered regular (non-script) command with signature `sig` and body `body` -/
structure Reg (cmd : String) (sig : Sig) (body : Body) : Prop where
  look : lookupSig (strBytes cmd) = some sig
  body : Cmd.regular sig.name = some body
  noscript : scriptNames.contains sig.name = false

theorem step_cmd (mode : Mode) {s : Sys} {c : Nat} (hr : Ready s c) {cmd : String} {sig : Sig} {body : Body}
    (hreg : Reg cmd sig body) {name : Bytes} (hn : Spells name cmd) (args : List Bytes)
    (har : sig.checkArity args.length = true) :
    Stepped s (after mode s (c, name :: args)) c (runRegular sig body (ctxFor s c) none args (view s c)) :=
  step_regular mode hr name args (hn.lookup.trans hreg.look) hreg.body har hreg.noscript

/-! ## 6. the key space between two commands -/

open FR.StrKeys in
theorem live_lookup {d : Dict} (nd : NodupKeys d) (t : Int) (k : Bytes) :
    Db.live ⟨d, t⟩ k =
      match d.lookup k with
      | none => none
      | some it => if expiredAt t it.expireat then none else some it := by
  unfold Db.live
  rw [Db.purge_dict, Db.lookup_filter _ k nd]
  cases d.lookup k with
  | none => rfl
  | some it =>
    simp only [expired_eq]
    by_cases hx : expiredAt t it.expireat = true <;> simp [hx]

/-- an entry without deadline is seen at every clock reading -/
theorem live_persist {d : Dict} (nd : NodupKeys d) {t t' : Int} {k : Bytes} {it : Item}
    (h : Db.live ⟨d, t⟩ k = some it) (he : it.expireat = none) : Db.live ⟨d, t'⟩ k = some it := by
  rw [live_lookup nd] at h ⊢
  cases hl : d.lookup k with
  | none => rw [hl] at h; cases h
  | some it' =>
    rw [hl] at h
    simp only at h ⊢
    split at h
    · cases h
    · cases h
      simp [FR.StrKeys.expiredAt, he]

/-- with a clock that does not run backwards a key that is not live stays not live -/
theorem live_none_mono {d : Dict} (nd : NodupKeys d) {t t' : Int} (htt : t ≤ t') {k : Bytes}
    (h : Db.live ⟨d, t⟩ k = none) : Db.live ⟨d, t'⟩ k = none := by
  rw [live_lookup nd] at h ⊢
  cases hl : d.lookup k with
  | none => rfl
  | some it =>
    rw [hl] at h
    simp only at h ⊢
    split at h
    · rename_i he
      have : FR.StrKeys.expiredAt t' it.expireat = true := by
        unfold FR.StrKeys.expiredAt at he ⊢
        cases hx : it.expireat with
        | none => rw [hx] at he; cases he
        | some e =>
          rw [hx] at he
          simp only [decide_eq_true_eq] at he ⊢
          omega
      simp [this]
    · cases h

theorem good_view {s : Sys} (hi : s.DataInv) (c : Nat) : NodupKeys (view s c).dict ∧ NoEmpty (view s c).dict :=
  hi.dbAt (s.conn c).db

theorem Stepped.view_eq {s s' : Sys} {c : Nat} {o : RunOut} (st : Stepped s s' c o) :
    view s' c = ⟨o.db.dict, now s'⟩ := by
  unfold view; rw [st.dict]

/-- an entry without deadline written (or left) by a command is what the next command sees, whatever the clock does -/
theorem Stepped.live_persist {s s' : Sys} {c : Nat} {o : RunOut} (st : Stepped s s' c o)
    (nd : NodupKeys o.db.dict) {k : Bytes} {it : Item} (h : o.db.live k = some it) (he : it.expireat = none) :
    (view s' c).live k = some it := by
  rw [st.view_eq]
  exact Wire.live_persist nd (t := o.db.time) h he

/-- key `k` of the database selected by `c` holds the value `v` WITHOUT deadline: it is seen at every clock reading -/
def Holds (s : Sys) (c : Nat) (k : Bytes) (v : Value) : Prop :=
  ∀ t, Db.live ⟨dictOf s c, t⟩ k = some ⟨v, none⟩

theorem Holds.view {s : Sys} {c : Nat} {k : Bytes} {v : Value} (h : Holds s c k v) :
    (view s c).live k = some ⟨v, none⟩ := h (now s)

theorem Stepped.holds {s s' : Sys} {c : Nat} {o : RunOut} (st : Stepped s s' c o)
    (nd : NodupKeys o.db.dict) {k : Bytes} {v : Value} (h : o.db.live k = some ⟨v, none⟩) : Holds s' c k v := by
  intro t
  rw [st.dict]
  exact Wire.live_persist nd (t := o.db.time) h rfl

/-- a command that answers `r` and leaves the key space alone -/
theorem Stepped.read {s s' : Sys} {c : Nat} {o : RunOut} (st : Stepped s s' c o) (hi : s.DataInv)
    (nd1 : NodupKeys o.db.dict) {r : Reply} (h : (o.reply, o.db.live) = (r, (view s c).live)) :
    s'.out = (c, r) :: s.out ∧ Ready s' c ∧ s'.DataInv ∧ (∀ k v, Holds s c k v → Holds s' c k v) := by
  have h1 := congrArg Prod.fst h
  have h2 := congrArg Prod.snd h
  simp only at h1 h2
  refine ⟨by rw [st.out, h1], st.ready, st.inv hi, fun k v hk => st.holds nd1 ?_⟩
  rw [h2]; exact hk.view

/-! ## 7. strings -/
section strings
open FR.StrKeys FR.Props

theorem reg_set : Reg "set" sigSet Cmd.set := ⟨by decide +kernel, rfl, by decide⟩
theorem reg_get : Reg "get" sigGet Cmd.get := ⟨by decide +kernel, rfl, by decide⟩

/-- the step `SET k v` on the wire -/
theorem set_step (mode : Mode) {s : Sys} {c : Nat} (hr : Ready s c) (hi : s.DataInv) {name : Bytes}
    (hn : Spells name "set") (k v : Bytes) :
    (after mode s (c, [name, k, v])).out = (c, .ok) :: s.out ∧
    Ready (after mode s (c, [name, k, v])) c ∧ (after mode s (c, [name, k, v])).DataInv ∧
    Holds (after mode s (c, [name, k, v])) c k (.str v) := by
  have st := step_cmd mode hr reg_set hn [k, v] (show sigSet.checkArity 2 = true by decide)
  obtain ⟨nd, ne⟩ := good_view hi c
  have sp := C01k.set_plain (ctxFor s c) (view s c) nd ne (ctxFor_time s c) k v
  simp only at sp
  have hrep := congrArg Prod.fst sp
  have hlive := congrArg Prod.snd sp
  simp only at hrep hlive
  have nd1 := runRegular_nodup sigSet Cmd.set (ctxFor s c) none [k, v] nd
  refine ⟨by rw [st.out, hrep], st.ready, st.inv hi, st.holds nd1 ?_⟩
  rw [hlive, upd_self]

/-- the step `GET k` on the wire: the stored string, nil for a key that is not live -/
theorem get_step (mode : Mode) {s : Sys} {c : Nat} (hr : Ready s c) (hi : s.DataInv) {name : Bytes}
    (hn : Spells name "get") (k : Bytes) :
    (after mode s (c, [name, k])).out =
      (c, match (view s c).live k with
          | none => Reply.nil
          | some ⟨.str b, _⟩ => .bulk b
          | some _ => wrongtype) :: s.out ∧
    Ready (after mode s (c, [name, k])) c ∧ (after mode s (c, [name, k])).DataInv ∧
    (∀ k' v', Holds s c k' v' → Holds (after mode s (c, [name, k])) c k' v') := by
  have st := step_cmd mode hr reg_get hn [k] (show sigGet.checkArity 1 = true by decide)
  obtain ⟨nd, ne⟩ := good_view hi c
  have sp := C01k.get_spec (ctxFor s c) (view s c) nd k
  have nd1 := runRegular_nodup sigGet Cmd.get (ctxFor s c) none [k] nd
  apply st.read hi nd1
  simp only at sp
  rw [sp]
  cases (view s c).live k with
  | none => rfl
  | some it =>
    obtain ⟨v, e⟩ := it
    cases v <;> rfl

theorem checkArity_ge (sg : Sig) (n : Nat) (hrep : sg.rep.isEmpty = false) (hn : sg.fixed.length ≤ n) :
    sg.checkArity n = true := by
  unfold Sig.checkArity
  split
  · simp only [hrep, Bool.or_false, Bool.not_eq_true', decide_eq_false_iff_not]; omega
  · rfl

theorem getrangeSpec_all (v : Bytes) : FR.Spec.getrangeSpec v 0 (-1) = v := by
  unfold FR.Spec.getrangeSpec
  rw [if_neg (by omega)]
  simp only
  rw [FR.Proofs.window_of_iff v 0 v.length _ (by
    intro i hi
    simp only [FR.Spec.norm]
    omega)]
  simp

theorem lrangeSpec_all {α} (l : List α) : FR.Spec.lrangeSpec l 0 (-1) = l := by
  unfold FR.Spec.lrangeSpec
  rw [FR.Proofs.window_of_iff l 0 l.length _ (by
    intro i hi
    simp only [FR.Spec.norm]
    omega)]
  simp

theorem reg_append : Reg "append" sigAppend Cmd.append := ⟨by decide +kernel, rfl, by decide⟩
theorem reg_strlen : Reg "strlen" sigStrlen Cmd.strlen := ⟨by decide +kernel, rfl, by decide⟩
theorem reg_getrange : Reg "getrange" sigGetrange Cmd.getrange := ⟨by decide +kernel, rfl, by decide⟩
theorem reg_mset : Reg "mset" sigMset Cmd.mset := ⟨by decide +kernel, rfl, by decide⟩
theorem reg_mget : Reg "mget" sigMget Cmd.mget := ⟨by decide +kernel, rfl, by decide⟩

/-- `APPEND k w` on a key holding the string `b` (no deadline), within the 512 MB limit -/
theorem append_step (mode : Mode) {s : Sys} {c : Nat} (hr : Ready s c) (hi : s.DataInv) {name : Bytes}
    (hn : Spells name "append") (k b w : Bytes) (hk : Holds s c k (.str b))
    (hsz : b.length + w.length ≤ Conv.MAX_STRING_SIZE) :
    (after mode s (c, [name, k, w])).out = (c, .int ((b ++ w).length : Nat)) :: s.out ∧
    Ready (after mode s (c, [name, k, w])) c ∧ (after mode s (c, [name, k, w])).DataInv ∧
    Holds (after mode s (c, [name, k, w])) c k (.str (b ++ w)) := by
  have st := step_cmd mode hr reg_append hn [k, w] (show sigAppend.checkArity 2 = true by decide)
  obtain ⟨nd, ne⟩ := good_view hi c
  have sp := C01k.append_spec (ctxFor s c) (view s c) nd ne k w
  simp only [hk.view, C01k.appendOn_unfolded, if_neg (Nat.not_lt.2 hsz)] at sp
  have hrep := congrArg Prod.fst sp
  have hlive := congrArg Prod.snd sp
  simp only at hrep hlive
  have nd1 := runRegular_nodup sigAppend Cmd.append (ctxFor s c) none [k, w] nd
  refine ⟨by rw [st.out, hrep], st.ready, st.inv hi, st.holds nd1 ?_⟩
  rw [hlive, upd_self]

/-- `STRLEN k` -/
theorem strlen_step (mode : Mode) {s : Sys} {c : Nat} (hr : Ready s c) (hi : s.DataInv) {name : Bytes}
    (hn : Spells name "strlen") (k b : Bytes) (hk : Holds s c k (.str b)) :
    (after mode s (c, [name, k])).out = (c, .int (b.length : Nat)) :: s.out ∧
    Ready (after mode s (c, [name, k])) c ∧ (after mode s (c, [name, k])).DataInv ∧
    (∀ k' v', Holds s c k' v' → Holds (after mode s (c, [name, k])) c k' v') := by
  have st := step_cmd mode hr reg_strlen hn [k] (show sigStrlen.checkArity 1 = true by decide)
  obtain ⟨nd, ne⟩ := good_view hi c
  have sp := C01k.strlen_spec (ctxFor s c) (view s c) nd k
  have nd1 := runRegular_nodup sigStrlen Cmd.strlen (ctxFor s c) none [k] nd
  apply st.read hi nd1
  simp only [hk.view] at sp
  exact sp

/-- `GETRANGE k 0 -1` -/
theorem getrange_all_step (mode : Mode) {s : Sys} {c : Nat} (hr : Ready s c) (hi : s.DataInv) {name : Bytes}
    (hn : Spells name "getrange") (k b : Bytes) (hk : Holds s c k (.str b)) :
    (after mode s (c, [name, k, [48], [45, 49]])).out = (c, .bulk b) :: s.out ∧
    Ready (after mode s (c, [name, k, [48], [45, 49]])) c ∧ (after mode s (c, [name, k, [48], [45, 49]])).DataInv ∧
    (∀ k' v', Holds s c k' v' → Holds (after mode s (c, [name, k, [48], [45, 49]])) c k' v') := by
  have st := step_cmd mode hr reg_getrange hn [k, [48], [45, 49]] (show sigGetrange.checkArity 3 = true by decide)
  obtain ⟨nd, ne⟩ := good_view hi c
  have sp := C01k.getrange_spec sigGetrange (Or.inl rfl) (ctxFor s c) (view s c) nd ne k [48] [45, 49] 0 (-1)
    rfl rfl
  have nd1 := runRegular_nodup sigGetrange Cmd.getrange (ctxFor s c) none [k, [48], [45, 49]] nd
  apply st.read hi nd1
  simp only [hk.view, getrangeSpec_all] at sp
  exact sp

theorem flat_length (ps : List (Bytes × Bytes)) : (flat ps).length = 2 * ps.length := by
  induction ps with
  | nil => rfl
  | cons p ps ih => simp only [flat, List.length_cons, ih]; omega

/-- the value of the LAST pair naming `x` (`[]` when no pair names it) -/
def lastVal (ps : List (Bytes × Bytes)) (x : Bytes) : Bytes :=
  match ps.reverse.find? (fun q => q.1 == x) with
  | some q => q.2
  | none => []

/-- `MSET k₁ v₁ … kₙ vₙ`: every named key holds the value of the last pair naming it -/
theorem mset_step (mode : Mode) {s : Sys} {c : Nat} (hr : Ready s c) (hi : s.DataInv) {name : Bytes}
    (hn : Spells name "mset") (p : Bytes × Bytes) (ps : List (Bytes × Bytes)) :
    (after mode s (c, name :: flat (p :: ps))).out = (c, .ok) :: s.out ∧
    Ready (after mode s (c, name :: flat (p :: ps))) c ∧ (after mode s (c, name :: flat (p :: ps))).DataInv ∧
    (∀ q ∈ p :: ps, Holds (after mode s (c, name :: flat (p :: ps))) c q.1 (.str (lastVal (p :: ps) q.1))) := by
  have st := step_cmd mode hr reg_mset hn (flat (p :: ps))
    (checkArity_ge sigMset _ rfl (by rw [flat_length]; simp [sigMset]; omega))
  obtain ⟨nd, ne⟩ := good_view hi c
  have sp := C01k.mset_spec (ctxFor s c) (view s c) nd p ps
  simp only at sp
  have hrep := congrArg Prod.fst sp
  have hlive := congrArg Prod.snd sp
  simp only at hrep hlive
  have nd1 := runRegular_nodup sigMset Cmd.mset (ctxFor s c) none (flat (p :: ps)) nd
  refine ⟨by rw [st.out, hrep], st.ready, st.inv hi, fun q hq => st.holds nd1 ?_⟩
  rw [hlive, C01k.mset_last_wins]
  unfold lastVal
  cases hf : (p :: ps).reverse.find? (fun r => r.1 == q.1) with
  | some r => rfl
  | none =>
    have := List.find?_eq_none.1 hf q (List.mem_reverse.2 hq)
    simp at this

/-- `MGET k₁ … kₙ`: per key the stored string, nil otherwise -/
theorem mget_step (mode : Mode) {s : Sys} {c : Nat} (hr : Ready s c) (hi : s.DataInv) {name : Bytes}
    (hn : Spells name "mget") (k : Bytes) (ks : List Bytes) :
    (after mode s (c, name :: k :: ks)).out =
      (c, .arr ((k :: ks).map fun x => mgetOne ((view s c).live x))) :: s.out ∧
    Ready (after mode s (c, name :: k :: ks)) c ∧ (after mode s (c, name :: k :: ks)).DataInv ∧
    (∀ k' v', Holds s c k' v' → Holds (after mode s (c, name :: k :: ks)) c k' v') := by
  have st := step_cmd mode hr reg_mget hn (k :: ks)
    (checkArity_ge sigMget _ rfl (by simp [sigMget]))
  obtain ⟨nd, ne⟩ := good_view hi c
  have sp := C01k.mget_spec (ctxFor s c) (view s c) nd k ks
  have nd1 := runRegular_nodup sigMget Cmd.mget (ctxFor s c) none (k :: ks) nd
  exact st.read hi nd1 sp

end strings

/-! ## 8. key names: EXISTS, DEL, RENAME, TYPE -/
section keys
open FR.StrKeys FR.Props

theorem reg_exists : Reg "exists" sigExists Cmd.exists_ := ⟨by decide +kernel, rfl, by decide⟩
theorem reg_del : Reg "del" sigDel Cmd.del := ⟨by decide +kernel, rfl, by decide⟩
theorem reg_rename : Reg "rename" sigRename Cmd.rename := ⟨by decide +kernel, rfl, by decide⟩
theorem reg_type : Reg "type" sigType Cmd.type_ := ⟨by decide +kernel, rfl, by decide⟩

/-- `EXISTS k` -/
theorem exists_step (mode : Mode) {s : Sys} {c : Nat} (hr : Ready s c) (hi : s.DataInv) {name : Bytes}
    (hn : Spells name "exists") (k : Bytes) :
    (after mode s (c, [name, k])).out = (c, .int (if ((view s c).live k).isSome then 1 else 0)) :: s.out ∧
    Ready (after mode s (c, [name, k])) c ∧ (after mode s (c, [name, k])).DataInv ∧
    (∀ k' v', Holds s c k' v' → Holds (after mode s (c, [name, k])) c k' v') := by
  have st := step_cmd mode hr reg_exists hn [k] (show sigExists.checkArity 1 = true by decide)
  obtain ⟨nd, ne⟩ := good_view hi c
  have sp := C01k.exists_spec (ctxFor s c) (view s c) nd ne k []
  have nd1 := runRegular_nodup sigExists Cmd.exists_ (ctxFor s c) none [k] nd
  apply st.read hi nd1
  simp only at sp
  rw [sp]
  cases h : ((view s c).live k).isSome <;> simp [h]

/-- `DEL k` on a live key: reply 1 -/
theorem del_step (mode : Mode) {s : Sys} {c : Nat} (hr : Ready s c) (hi : s.DataInv) {name : Bytes}
    (hn : Spells name "del") (k : Bytes) (hk : ((view s c).live k).isSome = true) :
    (after mode s (c, [name, k])).out = (c, .int 1) :: s.out ∧
    Ready (after mode s (c, [name, k])) c ∧ (after mode s (c, [name, k])).DataInv := by
  have st := step_cmd mode hr reg_del hn [k] (show sigDel.checkArity 1 = true by decide)
  obtain ⟨nd, ne⟩ := good_view hi c
  obtain ⟨d, hnd, hmem, hrep, _⟩ := C01k.del_spec (ctxFor s c) (view s c) nd ne k []
  have hd : d = [k] := by
    have h1 : ∀ x, x ∈ d ↔ x = k := by
      intro x; rw [hmem]
      constructor
      · rintro ⟨hx, _⟩; simpa using hx
      · rintro rfl; exact ⟨by simp, hk⟩
    cases d with
    | nil => exact absurd ((h1 k).2 rfl) (by simp)
    | cons a as =>
      have ha : a = k := (h1 a).1 (by simp)
      subst ha
      cases as with
      | nil => rfl
      | cons b bs =>
        have hb : b = a := (h1 b).1 (by simp)
        subst hb
        simp at hnd
  subst hd
  exact ⟨by rw [st.out, hrep]; rfl, st.ready, st.inv hi⟩

/-- `RENAME k k'` on a key holding `v` (no deadline): OK, and `k'` holds `v` -/
theorem rename_step (mode : Mode) {s : Sys} {c : Nat} (hr : Ready s c) (hi : s.DataInv) {name : Bytes}
    (hn : Spells name "rename") (k nk : Bytes) (v : Value) (hk : Holds s c k v) :
    (after mode s (c, [name, k, nk])).out = (c, .ok) :: s.out ∧
    Ready (after mode s (c, [name, k, nk])) c ∧ (after mode s (c, [name, k, nk])).DataInv ∧
    Holds (after mode s (c, [name, k, nk])) c nk v := by
  have st := step_cmd mode hr reg_rename hn [k, nk] (show sigRename.checkArity 2 = true by decide)
  obtain ⟨nd, ne⟩ := good_view hi c
  have sp := C01k.rename_spec (ctxFor s c) (view s c) nd ne k nk
  simp only [hk.view] at sp
  have hrep := congrArg Prod.fst sp
  have hlive := congrArg Prod.snd sp
  simp only at hrep hlive
  have nd1 := runRegular_nodup sigRename Cmd.rename (ctxFor s c) none [k, nk] nd
  refine ⟨by rw [st.out, hrep], st.ready, st.inv hi, st.holds nd1 ?_⟩
  rw [hlive, C01k.renamed_unfolded]
  by_cases h : nk = k
  · rw [if_pos h, h]; exact hk.view
  · rw [if_neg h, upd_self]

/-- `TYPE k` -/
theorem type_step (mode : Mode) {s : Sys} {c : Nat} (hr : Ready s c) (hi : s.DataInv) {name : Bytes}
    (hn : Spells name "type") (k : Bytes) :
    (after mode s (c, [name, k])).out =
      (c, .status (strBytes (match (view s c).live k with | none => "none" | some it => it.value.ty.name))) :: s.out ∧
    Ready (after mode s (c, [name, k])) c ∧ (after mode s (c, [name, k])).DataInv ∧
    (∀ k' v', Holds s c k' v' → Holds (after mode s (c, [name, k])) c k' v') := by
  have st := step_cmd mode hr reg_type hn [k] (show sigType.checkArity 1 = true by decide)
  obtain ⟨nd, ne⟩ := good_view hi c
  have sp := C01k.type_spec (ctxFor s c) (view s c) nd k
  have nd1 := runRegular_nodup sigType Cmd.type_ (ctxFor s c) none [k] nd
  exact st.read hi nd1 sp

end keys

/-! ## 9. hashes and sets -/
section hashset
open FR.HashSet

theorem reg_hset : Reg "hset" (sigOf "hset") Cmd.hset := ⟨by decide +kernel, rfl, by decide⟩
theorem reg_hget : Reg "hget" (sigOf "hget") Cmd.hget := ⟨by decide +kernel, rfl, by decide⟩
theorem reg_hgetall : Reg "hgetall" (sigOf "hgetall") Cmd.hgetall := ⟨by decide +kernel, rfl, by decide⟩
theorem reg_sadd : Reg "sadd" (sigOf "sadd") Cmd.sadd := ⟨by decide +kernel, rfl, by decide⟩
theorem reg_sismember : Reg "sismember" (sigOf "sismember") Cmd.sismember := ⟨by decide +kernel, rfl, by decide⟩
theorem reg_smembers : Reg "smembers" (sigOf "smembers") Cmd.smembers := ⟨by decide +kernel, rfl, by decide⟩

theorem hashView_of_holds {s : Sys} {c : Nat} {k : Bytes} {h : HashV} (hk : Holds s c k (.hash h)) :
    hashView (view s c).live k = some (h, none) := by
  unfold hashView; rw [hk.view]

theorem setView_of_holds {s : Sys} {c : Nat} {k : Bytes} {m : List Bytes} (hk : Holds s c k (.set m)) :
    setView (view s c).live k = some (m, none) := by
  unfold setView; rw [hk.view]

theorem hashView_of_missing {live : Live} {k : Bytes} (h : live k = none) : hashView live k = some ([], none) := by
  unfold hashView; rw [h]

theorem setView_of_missing {live : Live} {k : Bytes} (h : live k = none) : setView live k = some ([], none) := by
  unfold setView; rw [h]

/-- `HSET k f v` on a key that is missing (`h = []`) or holds the hash `h` without deadline: afterwards the key holds
`h` with `f ↦ v` set (position kept, or appended) -/
theorem hset_step (mode : Mode) {s : Sys} {c : Nat} (hr : Ready s c) (hi : s.DataInv) {name : Bytes}
    (hn : Spells name "hset") (k f v : Bytes) (h : HashV) (hv : hashView (view s c).live k = some (h, none)) :
    (after mode s (c, [name, k, f, v])).out = (c, .int (hsetRec h [(f, v)]).2) :: s.out ∧
    Ready (after mode s (c, [name, k, f, v])) c ∧ (after mode s (c, [name, k, f, v])).DataInv ∧
    Holds (after mode s (c, [name, k, f, v])) c k (.hash (hsetRec h [(f, v)]).1) := by
  have st := step_cmd mode hr reg_hset hn [k, f, v] (show (sigOf "hset").checkArity 3 = true by decide)
  obtain ⟨nd, ne⟩ := good_view hi c
  obtain ⟨h1, h2, _⟩ := run_hset (ctxFor s c) k nd hv f v [] rfl
  have nd1 := runRegular_nodup (sigOf "hset") Cmd.hset (ctxFor s c) none [k, f, v] nd
  refine ⟨by rw [st.out]; exact congrArg (fun r => (c, r) :: s.out) h1, st.ready, st.inv hi, st.holds nd1 ?_⟩
  have h2' : (runRegular (sigOf "hset") Cmd.hset (ctxFor s c) none [k, f, v] (view s c)).db.live =
      putAt (view s c).live k (.hash (hsetRec h [(f, v)]).1) none := h2
  rw [h2', putAt_self]
  have hne := hsetRec_ne_nil h (f, v) []
  cases hh : (hsetRec h [(f, v)]).1 with
  | nil => exact absurd hh hne
  | cons a as => rfl

theorem hsetRec_single_lookup (h : HashV) (f v : Bytes) : (hsetRec h [(f, v)]).1.lookup f = some v := by
  rw [hsetRec_lookup]
  simp

theorem hsetRec_nil_single (f v : Bytes) : hsetRec [] [(f, v)] = ([(f, v)], 1) := rfl

/-- `HGET k f` on a key holding the hash `h` -/
theorem hget_step (mode : Mode) {s : Sys} {c : Nat} (hr : Ready s c) (hi : s.DataInv) {name : Bytes}
    (hn : Spells name "hget") (k f : Bytes) (h : HashV) (hk : Holds s c k (.hash h)) :
    (after mode s (c, [name, k, f])).out = (c, Reply.ofOptBulk (h.lookup f)) :: s.out ∧
    Ready (after mode s (c, [name, k, f])) c ∧ (after mode s (c, [name, k, f])).DataInv ∧
    (∀ k' v', Holds s c k' v' → Holds (after mode s (c, [name, k, f])) c k' v') := by
  have st := step_cmd mode hr reg_hget hn [k, f] (show (sigOf "hget").checkArity 2 = true by decide)
  obtain ⟨nd, ne⟩ := good_view hi c
  obtain ⟨h1, h2, _⟩ := run_hget (ctxFor s c) k nd (hashView_of_holds hk) f
  have nd1 := runRegular_nodup (sigOf "hget") Cmd.hget (ctxFor s c) none [k, f] nd
  exact st.read hi nd1 (Prod.ext h1 h2)

/-- `HGETALL k` on a key holding the hash `h`: fields and values in insertion order -/
theorem hgetall_step (mode : Mode) {s : Sys} {c : Nat} (hr : Ready s c) (hi : s.DataInv) {name : Bytes}
    (hn : Spells name "hgetall") (k : Bytes) (h : HashV) (hk : Holds s c k (.hash h)) :
    (after mode s (c, [name, k])).out = (c, .arr (h.flatMap fun p => [.bulk p.1, .bulk p.2])) :: s.out ∧
    Ready (after mode s (c, [name, k])) c ∧ (after mode s (c, [name, k])).DataInv ∧
    (∀ k' v', Holds s c k' v' → Holds (after mode s (c, [name, k])) c k' v') := by
  have st := step_cmd mode hr reg_hgetall hn [k] (show (sigOf "hgetall").checkArity 1 = true by decide)
  obtain ⟨nd, ne⟩ := good_view hi c
  obtain ⟨h1, h2, _⟩ := run_hgetall (ctxFor s c) k nd (hashView_of_holds hk)
  have nd1 := runRegular_nodup (sigOf "hgetall") Cmd.hgetall (ctxFor s c) none [k] nd
  exact st.read hi nd1 (Prod.ext h1 h2)

/-- `SADD k m` on a key that is missing (`m₀ = []`) or holds the set `m₀` without deadline -/
theorem sadd_step (mode : Mode) {s : Sys} {c : Nat} (hr : Ready s c) (hi : s.DataInv) {name : Bytes}
    (hn : Spells name "sadd") (k m : Bytes) (m₀ : List Bytes) (hv : setView (view s c).live k = some (m₀, none)) :
    (after mode s (c, [name, k, m])).out =
      (c, .int ((Cmd.setUnion m₀ [m]).length - m₀.length : Nat)) :: s.out ∧
    Ready (after mode s (c, [name, k, m])) c ∧ (after mode s (c, [name, k, m])).DataInv ∧
    Holds (after mode s (c, [name, k, m])) c k (.set (Cmd.setUnion m₀ [m])) := by
  have st := step_cmd mode hr reg_sadd hn [k, m] (show (sigOf "sadd").checkArity 2 = true by decide)
  obtain ⟨nd, ne⟩ := good_view hi c
  obtain ⟨h1, h2, _⟩ := run_sadd (ctxFor s c) k nd hv m []
  have nd1 := runRegular_nodup (sigOf "sadd") Cmd.sadd (ctxFor s c) none [k, m] nd
  refine ⟨by rw [st.out]; exact congrArg (fun r => (c, r) :: s.out) h1, st.ready, st.inv hi, st.holds nd1 ?_⟩
  have h2' : (runRegular (sigOf "sadd") Cmd.sadd (ctxFor s c) none [k, m] (view s c)).db.live =
      putAt (view s c).live k (.set (Cmd.setUnion m₀ [m])) none := h2
  rw [h2', putAt_self]
  have hmem : m ∈ Cmd.setUnion m₀ [m] := (mem_setUnion m₀ [m] m).2 (Or.inr (by simp))
  cases hh : Cmd.setUnion m₀ [m] with
  | nil => rw [hh] at hmem; cases hmem
  | cons a as => rfl

/-- `SISMEMBER k m` on a key holding the set `m₀` -/
theorem sismember_step (mode : Mode) {s : Sys} {c : Nat} (hr : Ready s c) (hi : s.DataInv) {name : Bytes}
    (hn : Spells name "sismember") (k m : Bytes) (m₀ : List Bytes) (hk : Holds s c k (.set m₀)) :
    (after mode s (c, [name, k, m])).out = (c, .int (if m₀.contains m then 1 else 0)) :: s.out ∧
    Ready (after mode s (c, [name, k, m])) c ∧ (after mode s (c, [name, k, m])).DataInv ∧
    (∀ k' v', Holds s c k' v' → Holds (after mode s (c, [name, k, m])) c k' v') := by
  have st := step_cmd mode hr reg_sismember hn [k, m] (show (sigOf "sismember").checkArity 2 = true by decide)
  obtain ⟨nd, ne⟩ := good_view hi c
  obtain ⟨h1, h2, _⟩ := run_sismember (ctxFor s c) k nd (setView_of_holds hk) m
  have nd1 := runRegular_nodup (sigOf "sismember") Cmd.sismember (ctxFor s c) none [k, m] nd
  exact st.read hi nd1 (Prod.ext h1 h2)

/-- `SMEMBERS k` on a key holding the set `m₀` -/
theorem smembers_step (mode : Mode) {s : Sys} {c : Nat} (hr : Ready s c) (hi : s.DataInv) {name : Bytes}
    (hn : Spells name "smembers") (k : Bytes) (m₀ : List Bytes) (hk : Holds s c k (.set m₀)) :
    (after mode s (c, [name, k])).out = (c, Reply.bulks m₀) :: s.out ∧
    Ready (after mode s (c, [name, k])) c ∧ (after mode s (c, [name, k])).DataInv ∧
    (∀ k' v', Holds s c k' v' → Holds (after mode s (c, [name, k])) c k' v') := by
  have st := step_cmd mode hr reg_smembers hn [k] (show (sigOf "smembers").checkArity 1 = true by decide)
  obtain ⟨nd, ne⟩ := good_view hi c
  obtain ⟨h1, h2, _⟩ := run_smembers (ctxFor s c) k nd (setView_of_holds hk)
  have nd1 := runRegular_nodup (sigOf "smembers") Cmd.smembers (ctxFor s c) none [k] nd
  exact st.read hi nd1 (Prod.ext h1 h2)

end hashset

/-! ## 10. lists -/
section lists
open FR.HashSet

/-- what a list command sees at `key`: the stored list (`[]` when the key is missing) and the deadline; `none` when
another type is stored -/
def listView (live : Live) (key : Bytes) : Option (List Bytes × Option Int) :=
  match live key with
  | none => some ([], none)
  | some it =>
    match it.value with
    | .list l => some (l, it.expireat)
    | _ => none

def listCI (key : Bytes) (l : List Bytes) (e : Option Int) : CI := ⟨key, some (.list l), e, false, false⟩

theorem listView_some {live : Live} {key : Bytes} {l : List Bytes} {e : Option Int}
    (hv : listView live key = some (l, e)) :
    typeOK live (some .list) key = true ∧ ciOf live (some .list) key = listCI key l e := by
  unfold listView at hv
  unfold typeOK ciOf
  cases hl : live key with
  | none =>
    rw [hl] at hv
    simp only [Option.some.injEq, Prod.mk.injEq] at hv
    obtain ⟨rfl, rfl⟩ := hv
    exact ⟨rfl, rfl⟩
  | some it =>
    rw [hl] at hv
    simp only at hv ⊢
    split at hv
    · rename_i h' hval
      simp only [Option.some.injEq, Prod.mk.injEq] at hv
      obtain ⟨rfl, rfl⟩ := hv
      rw [hval]; exact ⟨by simp [Value.ty], rfl⟩
    · cases hv

theorem listView_of_holds {s : Sys} {c : Nat} {k : Bytes} {l : List Bytes} (hk : Holds s c k (.list l)) :
    listView (view s c).live k = some (l, none) := by
  unfold listView; rw [hk.view]

theorem listView_of_missing {live : Live} {k : Bytes} (h : live k = none) : listView live k = some ([], none) := by
  unfold listView; rw [h]

theorem reg_rpush : Reg "rpush" (sigOf "rpush") Cmd.rpush := ⟨by decide +kernel, rfl, by decide⟩
theorem reg_lpush : Reg "lpush" (sigOf "lpush") Cmd.lpush := ⟨by decide +kernel, rfl, by decide⟩
theorem reg_lrange : Reg "lrange" (sigOf "lrange") Cmd.lrange := ⟨by decide +kernel, rfl, by decide⟩
theorem reg_lindex : Reg "lindex" (sigOf "lindex") Cmd.lindex := ⟨by decide +kernel, rfl, by decide⟩
theorem reg_lpop : Reg "lpop" (sigOf "lpop") Cmd.lpop := ⟨by decide +kernel, rfl, by decide⟩

theorem sig_lrange : sigOf "lrange" =
    ⟨"lrange", [.key (some .list) .unspecified, .int, .int], [], false, 3, 0, false⟩ := by decide +kernel
theorem sig_lindex : sigOf "lindex" = ⟨"lindex", [.key (some .list) .nil, .int], [], false, 2, 0, false⟩ := by
  decide +kernel
theorem sig_lpop : sigOf "lpop" = ⟨"lpop", [.key none .unspecified], [.int], false, 1, 0, true⟩ := by decide +kernel

/-- the pure runner on `RPUSH`/`LPUSH key v vs…` -/
theorem run_push (left : Bool) (ctx : Ctx) (key : Bytes) {db : Db} (nd : NodupKeys db.dict) {l : List Bytes}
    {e : Option Int} (hv : listView db.live key = some (l, e)) (v : Bytes) (vs : List Bytes) :
    let name := if left then "lpush" else "rpush"
    let body := if left then Cmd.lpush else Cmd.rpush
    let l' := if left then Cmd.pushLeft l (v :: vs) else Cmd.pushRight l (v :: vs)
    (runRegular (sigOf name) body ctx none (key :: v :: vs) db).reply = .int (l'.length : Nat) ∧
    (runRegular (sigOf name) body ctx none (key :: v :: vs) db).db.live = putAt db.live key (.list l') e := by
  have hs := listView_some hv
  cases left with
  | false =>
    have := run_key1_write (sigOf "rpush") (some .list) 1 rfl (by decide) Cmd.rpush ctx key (v :: vs) nd
      (arity_var "rpush" _ 2 rfl rfl (by simp)) hs.1 (r := .int ((Cmd.pushRight l (v :: vs)).length : Nat))
      (v' := .list (Cmd.pushRight l (v :: vs))) (by
        rw [hs.2]
        simp only [Cmd.rpush, rawArgs_map]
        rfl)
    rw [hs.2] at this
    exact ⟨this.1, this.2.1⟩
  | true =>
    have := run_key1_write (sigOf "lpush") (some .list) 1 rfl (by decide) Cmd.lpush ctx key (v :: vs) nd
      (arity_var "lpush" _ 2 rfl rfl (by simp)) hs.1 (r := .int ((Cmd.pushLeft l (v :: vs)).length : Nat))
      (v' := .list (Cmd.pushLeft l (v :: vs))) (by
        rw [hs.2]
        simp only [Cmd.lpush, rawArgs_map]
        rfl)
    rw [hs.2] at this
    exact ⟨this.1, this.2.1⟩

/-- `RPUSH k v vs…` on a key that is missing (`l = []`) or holds the list `l` without deadline -/
theorem rpush_step (mode : Mode) {s : Sys} {c : Nat} (hr : Ready s c) (hi : s.DataInv) {name : Bytes}
    (hn : Spells name "rpush") (k : Bytes) (l : List Bytes) (hv : listView (view s c).live k = some (l, none))
    (v : Bytes) (vs : List Bytes) :
    (after mode s (c, name :: k :: v :: vs)).out = (c, .int ((l ++ v :: vs).length : Nat)) :: s.out ∧
    Ready (after mode s (c, name :: k :: v :: vs)) c ∧ (after mode s (c, name :: k :: v :: vs)).DataInv ∧
    Holds (after mode s (c, name :: k :: v :: vs)) c k (.list (l ++ v :: vs)) := by
  have st := step_cmd mode hr reg_rpush hn (k :: v :: vs) (checkArity_ge _ _ rfl (by
    have : (sigOf "rpush").fixed.length = 2 := rfl
    rw [this]; simp))
  obtain ⟨nd, ne⟩ := good_view hi c
  obtain ⟨h1, h2⟩ := run_push false (ctxFor s c) k nd hv v vs
  have nd1 := runRegular_nodup (sigOf "rpush") Cmd.rpush (ctxFor s c) none (k :: v :: vs) nd
  refine ⟨by rw [st.out]; exact congrArg (fun r => (c, r) :: s.out) h1, st.ready, st.inv hi, st.holds nd1 ?_⟩
  have h2' : (runRegular (sigOf "rpush") Cmd.rpush (ctxFor s c) none (k :: v :: vs) (view s c)).db.live =
      putAt (view s c).live k (.list (l ++ v :: vs)) none := h2
  rw [h2', putAt_self]
  cases l <;> rfl

/-- `LPUSH k v vs…`: each value is pushed at the head in turn, so they end up reversed in front of the old list -/
theorem lpush_step (mode : Mode) {s : Sys} {c : Nat} (hr : Ready s c) (hi : s.DataInv) {name : Bytes}
    (hn : Spells name "lpush") (k : Bytes) (l : List Bytes) (hv : listView (view s c).live k = some (l, none))
    (v : Bytes) (vs : List Bytes) :
    (after mode s (c, name :: k :: v :: vs)).out = (c, .int (((v :: vs).reverse ++ l).length : Nat)) :: s.out ∧
    Ready (after mode s (c, name :: k :: v :: vs)) c ∧ (after mode s (c, name :: k :: v :: vs)).DataInv ∧
    Holds (after mode s (c, name :: k :: v :: vs)) c k (.list ((v :: vs).reverse ++ l)) := by
  have st := step_cmd mode hr reg_lpush hn (k :: v :: vs) (checkArity_ge _ _ rfl (by
    have : (sigOf "lpush").fixed.length = 2 := rfl
    rw [this]; simp))
  obtain ⟨nd, ne⟩ := good_view hi c
  obtain ⟨h1, h2⟩ := run_push true (ctxFor s c) k nd hv v vs
  have nd1 := runRegular_nodup (sigOf "lpush") Cmd.lpush (ctxFor s c) none (k :: v :: vs) nd
  refine ⟨by rw [st.out]; exact congrArg (fun r => (c, r) :: s.out) h1, st.ready, st.inv hi, st.holds nd1 ?_⟩
  have h2' : (runRegular (sigOf "lpush") Cmd.lpush (ctxFor s c) none (k :: v :: vs) (view s c)).db.live =
      putAt (view s c).live k (.list ((v :: vs).reverse ++ l)) none := h2
  rw [h2', putAt_self]
  have : (v :: vs).reverse ++ l ≠ [] := by simp
  cases hh : (v :: vs).reverse ++ l with
  | nil => exact absurd hh this
  | cons a as => rfl

theorem applyL_lrange (live : Live) (key : Bytes) (l : List Bytes) (e : Option Int)
    (hv : listView live key = some (l, e)) (sb eb : Bytes) (a b : Int) (hs : Conv.int sb = .ok a)
    (ht : Conv.int eb = .ok b) :
    applyL (sigOf "lrange") [key, sb, eb] live =
      .ok (.ok [.key 0, .int a, .int b] [ciOf live (some .list) key]) := by
  have h := listView_some hv
  rw [sig_lrange]
  simp [applyL, applyT, Sig.checkArity, Sig.types, p1, p2, Conv.decode, hs, ht, Except.map, h.1]

/-- `LRANGE k a b` on a key holding the list `l`: the declarative window -/
theorem lrange_step (mode : Mode) {s : Sys} {c : Nat} (hr : Ready s c) (hi : s.DataInv) {name : Bytes}
    (hn : Spells name "lrange") (k : Bytes) (l : List Bytes) (hk : Holds s c k (.list l))
    (sb eb : Bytes) (a b : Int) (hs : Conv.int sb = .ok a) (ht : Conv.int eb = .ok b) :
    (after mode s (c, [name, k, sb, eb])).out = (c, Reply.bulks (FR.Spec.lrangeSpec l a b)) :: s.out ∧
    Ready (after mode s (c, [name, k, sb, eb])) c ∧ (after mode s (c, [name, k, sb, eb])).DataInv ∧
    (∀ k' v', Holds s c k' v' → Holds (after mode s (c, [name, k, sb, eb])) c k' v') := by
  have st := step_cmd mode hr reg_lrange hn [k, sb, eb] (show (sigOf "lrange").checkArity 3 = true by decide)
  obtain ⟨nd, ne⟩ := good_view hi c
  have hv := listView_of_holds hk
  have hs' := listView_some hv
  obtain ⟨h1, h2, _⟩ := run1_read (sigOf "lrange") Cmd.lrange (ctxFor s c) [k, sb, eb] _ (some .list) k nd
    (applyL_lrange _ k l none hv sb eb a b hs ht) (r := Reply.bulks (FR.Spec.lrangeSpec l a b)) (by
      rw [FR.Proofs.lrange_body, hs'.2]; rfl)
  have nd1 := runRegular_nodup (sigOf "lrange") Cmd.lrange (ctxFor s c) none [k, sb, eb] nd
  exact st.read hi nd1 (Prod.ext h1 h2)

theorem applyL_lindex (live : Live) (key : Bytes) (it : Item) (hl : live key = some it)
    (hty : typeOK live (some .list) key = true) (ib : Bytes) (i : Int) (hs : Conv.int ib = .ok i) :
    applyL (sigOf "lindex") [key, ib] live = .ok (.ok [.key 0, .int i] [ciOf live (some .list) key]) := by
  rw [sig_lindex]
  simp [applyL, applyT, Sig.checkArity, Sig.types, p1, p2, Conv.decode, hs, Except.map, hl, hty]

/-- `LINDEX k i` on a key holding the list `l` -/
theorem lindex_step (mode : Mode) {s : Sys} {c : Nat} (hr : Ready s c) (hi : s.DataInv) {name : Bytes}
    (hn : Spells name "lindex") (k : Bytes) (l : List Bytes) (hk : Holds s c k (.list l))
    (ib : Bytes) (i : Int) (hs : Conv.int ib = .ok i) :
    (after mode s (c, [name, k, ib])).out = (c, Reply.ofOptBulk (Py.index? l i)) :: s.out ∧
    Ready (after mode s (c, [name, k, ib])) c ∧ (after mode s (c, [name, k, ib])).DataInv ∧
    (∀ k' v', Holds s c k' v' → Holds (after mode s (c, [name, k, ib])) c k' v') := by
  have st := step_cmd mode hr reg_lindex hn [k, ib] (show (sigOf "lindex").checkArity 2 = true by decide)
  obtain ⟨nd, ne⟩ := good_view hi c
  have hv := listView_of_holds hk
  have hs' := listView_some hv
  obtain ⟨h1, h2, _⟩ := run1_read (sigOf "lindex") Cmd.lindex (ctxFor s c) [k, ib] _ (some .list) k nd
    (applyL_lindex _ k _ hk.view hs'.1 ib i hs) (r := Reply.ofOptBulk (Py.index? l i)) (by
      rw [hs'.2]; rfl)
  have nd1 := runRegular_nodup (sigOf "lindex") Cmd.lindex (ctxFor s c) none [k, ib] nd
  exact st.read hi nd1 (Prod.ext h1 h2)

theorem applyL_lpop (live : Live) (key : Bytes) :
    applyL (sigOf "lpop") [key] live = .ok (.ok [.key 0] [ciOf live none key]) := by
  rw [sig_lpop]
  simp [applyL, applyT, Sig.checkArity, Sig.types, p1, p2, Conv.decode, Except.map, typeOK]

/-- `LPOP k` on a key holding the list `x :: xs`: replies `x`; the rest stays (the key goes when nothing is left) -/
theorem lpop_step (mode : Mode) {s : Sys} {c : Nat} (hr : Ready s c) (hi : s.DataInv) {name : Bytes}
    (hn : Spells name "lpop") (k x : Bytes) (xs : List Bytes) (hk : Holds s c k (.list (x :: xs))) :
    (after mode s (c, [name, k])).out = (c, .bulk x) :: s.out ∧
    Ready (after mode s (c, [name, k])) c ∧ (after mode s (c, [name, k])).DataInv ∧
    (xs ≠ [] → Holds (after mode s (c, [name, k])) c k (.list xs)) := by
  have st := step_cmd mode hr reg_lpop hn [k] (show (sigOf "lpop").checkArity 1 = true by decide)
  obtain ⟨nd, ne⟩ := good_view hi c
  have hci : ciOf (view s c).live none k = ⟨k, some (.list (x :: xs)), none, false, false⟩ := by
    unfold ciOf; rw [hk.view]
  obtain ⟨h1, h2, _⟩ := run1_write (sigOf "lpop") Cmd.lpop (ctxFor s c) [k] _ none k nd
    (applyL_lpop _ k) (r := .bulk x) (v' := .list xs) (by
      rw [hci]
      show Cmd.listPop true _ _ _ = _
      rw [FR.Proofs.listPop_single_body true _ _ 0 (x :: xs) rfl (by simp)]
      rfl)
  have nd1 := runRegular_nodup (sigOf "lpop") Cmd.lpop (ctxFor s c) none [k] nd
  refine ⟨by rw [st.out]; exact congrArg (fun r => (c, r) :: s.out) h1, st.ready, st.inv hi, fun hne => st.holds nd1 ?_⟩
  rw [h2, putAt_self, hci]
  cases xs with
  | nil => exact absurd rfl hne
  | cons a as => rfl

end lists

/-! ## 11. sorted sets -/
section zsets
open FR.HashSet

theorem reg_zadd : Reg "zadd" (sigOf "zadd") Cmd.zadd := ⟨by decide +kernel, rfl, by decide⟩
theorem reg_zrange : Reg "zrange" (sigOf "zrange") Cmd.zrange := ⟨by decide +kernel, rfl, by decide⟩
theorem reg_zscore : Reg "zscore" (sigOf "zscore") Cmd.zscore := ⟨by decide +kernel, rfl, by decide⟩

theorem float_one : Conv.float [49] = .ok Dbl.one := by
  have h : (Conv.float [49]).toOption = some Dbl.one := by decide +kernel
  cases hx : Conv.float [49] with
  | error e => rw [hx] at h; cases h
  | ok d => rw [hx] at h; cases h; rfl

theorem one_plusZero : Dbl.one.plusZero = Dbl.one := by decide +kernel
theorem fmt_one (v : Nat) : Cmd.encodeFloat v Dbl.one false = [49] := by
  unfold Cmd.encodeFloat
  split
  · rw [one_plusZero]; decide +kernel
  · decide +kernel

/-- the sorted set holding the single member `m` with score 1 -/
def zsingle (m : Bytes) : ZSet := ⟨[(m, Dbl.one)], [(Dbl.one, m)]⟩

theorem cm1 : casematch [49] "ch" = false ∧ casematch [49] "nx" = false ∧ casematch [49] "xx" = false ∧
    casematch [49] "incr" = false := by decide +kernel

theorem flags_one (m : Bytes) : Cmd.parseZaddFlags [[49], m] {} = ({}, [[49], m]) := by
  rw [Cmd.parseZaddFlags]
  simp only [cm1.1, cm1.2.1, cm1.2.2.1, cm1.2.2.2, Bool.false_eq_true, if_false]

theorem pairs_one (v : Nat) (m : Bytes) : Cmd.parseScorePairs v [[49], m] = .ok [(Dbl.one, m)] := by
  have hp : (if v ≥ 7 then Dbl.one.plusZero else Dbl.one) = Dbl.one := by
    split
    · exact one_plusZero
    · rfl
  simp only [Cmd.parseScorePairs, float_one, hp]

theorem body_zadd_one (ctx : Ctx) (k m : Bytes) :
    Cmd.zadd ctx [.key 0, .raw [49], .raw m] [⟨k, some (.zset ZSet.empty), none, false, false⟩] =
      ret (.int 1) [{ (⟨k, some (.zset ZSet.empty), none, false, false⟩ : CI) with
        val := some (.zset (zsingle m)), modified := true }] := by
  have hr : Cmd.rawArgs [.raw [49], .raw m] = [[49], m] := rfl
  have hz : Cmd.zsetOf (ciAt [(⟨k, some (.zset ZSet.empty), none, false, false⟩ : CI)] 0) = ZSet.empty := rfl
  have hadd : ZSet.empty.add m Dbl.one = (zsingle m, true) := rfl
  have hl : (zsingle m).len = 1 := rfl
  have hl0 : ZSet.empty.len = 0 := rfl
  simp only [Cmd.zadd, hr, flags_one, pairs_one, hz]
  simp [hadd, hl, hl0, Cmd.putZ, ret, ciAt]

theorem sig_zrange : sigOf "zrange" =
    ⟨"zrange", [.key (some .zset) .unspecified, .int, .int], [.bytes], false, 3, 0, true⟩ := by decide +kernel

/-- `ZADD k 1 m` on a key that is not live: reply 1, the key holds the one-member sorted set -/
theorem zadd_one_step (mode : Mode) {s : Sys} {c : Nat} (hr : Ready s c) (hi : s.DataInv) {name : Bytes}
    (hn : Spells name "zadd") (k m : Bytes) (hk : (view s c).live k = none) :
    (after mode s (c, [name, k, [49], m])).out = (c, .int 1) :: s.out ∧
    Ready (after mode s (c, [name, k, [49], m])) c ∧ (after mode s (c, [name, k, [49], m])).DataInv ∧
    Holds (after mode s (c, [name, k, [49], m])) c k (.zset (zsingle m)) := by
  have st := step_cmd mode hr reg_zadd hn [k, [49], m] (show (sigOf "zadd").checkArity 3 = true by decide)
  obtain ⟨nd, ne⟩ := good_view hi c
  have hty : typeOK (view s c).live (some .zset) k = true := by unfold typeOK; rw [hk]
  have hci : ciOf (view s c).live (some .zset) k = ⟨k, some (.zset ZSet.empty), none, false, false⟩ := by
    unfold ciOf; rw [hk]; rfl
  have := run_key1_write (sigOf "zadd") (some .zset) 2 rfl (by decide) Cmd.zadd (ctxFor s c) k [[49], m] nd
    (show ArityOK _ 3 by decide) hty (r := .int 1) (v' := .zset (zsingle m)) (by
      rw [hci]; exact body_zadd_one _ k m)
  obtain ⟨h1, h2, _⟩ := this
  have nd1 := runRegular_nodup (sigOf "zadd") Cmd.zadd (ctxFor s c) none [k, [49], m] nd
  refine ⟨by rw [st.out]; exact congrArg (fun r => (c, r) :: s.out) h1, st.ready, st.inv hi, st.holds nd1 ?_⟩
  rw [h2, putAt_self, hci]
  rfl

theorem applyL_zrange (live : Live) (key : Bytes) (z : ZSet) (hl : live key = some ⟨.zset z, none⟩) :
    applyL (sigOf "zrange") [key, [48], [45, 49]] live =
      .ok (.ok [.key 0, .int 0, .int (-1)] [⟨key, some (.zset z), none, false, false⟩]) := by
  have h0 : Conv.int [48] = .ok 0 := rfl
  have h1 : Conv.int [45, 49] = .ok (-1) := rfl
  rw [sig_zrange]
  simp [applyL, applyT, Sig.checkArity, Sig.types, p1, p2, Conv.decode, h0, h1, Except.map, typeOK, ciOf, hl, Value.ty]

/-- `ZRANGE k 0 -1` on the one-member sorted set -/
theorem zrange_one_step (mode : Mode) {s : Sys} {c : Nat} (hr : Ready s c) (hi : s.DataInv) {name : Bytes}
    (hn : Spells name "zrange") (k m : Bytes) (hk : Holds s c k (.zset (zsingle m))) :
    (after mode s (c, [name, k, [48], [45, 49]])).out = (c, .arr [.bulk m]) :: s.out ∧
    Ready (after mode s (c, [name, k, [48], [45, 49]])) c ∧ (after mode s (c, [name, k, [48], [45, 49]])).DataInv ∧
    (∀ k' v', Holds s c k' v' → Holds (after mode s (c, [name, k, [48], [45, 49]])) c k' v') := by
  have st := step_cmd mode hr reg_zrange hn [k, [48], [45, 49]] (show (sigOf "zrange").checkArity 3 = true by decide)
  obtain ⟨nd, ne⟩ := good_view hi c
  have hci : ciOf (view s c).live (some .zset) k = ⟨k, some (.zset (zsingle m)), none, false, false⟩ := by
    unfold ciOf; rw [hk.view]
  obtain ⟨h1, h2, _⟩ := run1_read (sigOf "zrange") Cmd.zrange (ctxFor s c) [k, [48], [45, 49]] _ (some .zset) k nd
    (by rw [hci]; exact applyL_zrange _ k _ hk.view) (r := .arr [.bulk m]) (by
      rw [hci]
      rfl)
  have nd1 := runRegular_nodup (sigOf "zrange") Cmd.zrange (ctxFor s c) none [k, [48], [45, 49]] nd
  exact st.read hi nd1 (Prod.ext h1 h2)

/-- `ZSCORE k m` on the one-member sorted set: the score 1, rendered `1` -/
theorem zscore_one_step (mode : Mode) {s : Sys} {c : Nat} (hr : Ready s c) (hi : s.DataInv) {name : Bytes}
    (hn : Spells name "zscore") (k m : Bytes) (hk : Holds s c k (.zset (zsingle m))) :
    (after mode s (c, [name, k, m])).out = (c, .bulk [49]) :: s.out ∧
    Ready (after mode s (c, [name, k, m])) c ∧ (after mode s (c, [name, k, m])).DataInv ∧
    (∀ k' v', Holds s c k' v' → Holds (after mode s (c, [name, k, m])) c k' v') := by
  have st := step_cmd mode hr reg_zscore hn [k, m] (show (sigOf "zscore").checkArity 2 = true by decide)
  obtain ⟨nd, ne⟩ := good_view hi c
  have hty : typeOK (view s c).live (some .zset) k = true := by unfold typeOK; rw [hk.view]; rfl
  have hci : ciOf (view s c).live (some .zset) k = ⟨k, some (.zset (zsingle m)), none, false, false⟩ := by
    unfold ciOf; rw [hk.view]
  obtain ⟨h1, h2, _⟩ := run_key1_read (sigOf "zscore") (some .zset) 1 rfl (by decide) Cmd.zscore (ctxFor s c) k [m] nd
    (show ArityOK _ 2 by decide) hty (r := .bulk [49]) (by
      rw [hci]
      have hg : (Cmd.zsetOf (ciAt [(⟨k, some (.zset (zsingle m)), none, false, false⟩ : CI)] 0)).get m = some Dbl.one := by
        show List.lookup m [(m, Dbl.one)] = _
        simp
      simp only [Cmd.zscore, List.map, hg, Cmd.fmtScore, fmt_one])
  have nd1 := runRegular_nodup (sigOf "zscore") Cmd.zscore (ctxFor s c) none [k, m] nd
  exact st.read hi nd1 (Prod.ext h1 h2)

end zsets

/-! ## 12. special commands: MULTI, queueing, EXEC -/
section specials

theorem set_getD_self {α} (l : List α) (d : Nat) (x : α) : l.set d (l.getD d x) = l := by
  apply List.ext_getElem?
  intro i
  by_cases h : i = d
  · subst h
    by_cases hl : i < l.length
    · rw [List.getElem?_set_self hl, List.getD_eq_getElem?_getD, List.getElem?_eq_getElem hl]; rfl
    · rw [List.getElem?_eq_none (by simpa using hl), List.getElem?_eq_none (by simpa using hl)]
  · rw [List.getElem?_set_ne (Ne.symm h)]

theorem setDb_same (t : Sys) (d : Nat) :
    ({ t with srv := { t.srv with dbs := t.srv.dbs.set d (t.srv.dbs.getD d []) } } : Sys) = t := by
  rw [set_getD_self]

/-- the end of `_process_command` after `_run_command` returned: send the reply, mark the connection dead if an
exception escaped -/
def finish (c : Nat) (r : Option Reply × Sys) : Sys :=
  let s1 := match r.1 with
    | some x => r.2.emitS c x
    | none => r.2
  if s1.crashed.isSome then s1.updConn c fun x => { x with dead := true } else s1

/-- a SPECIAL command (one with no entry in `Cmd.regular`) whose signature converts no key: prologue, the special
body, write-back of its items, reply -/
theorem processCommand_special (mode : Mode) (c : Nat) (name : Bytes) (args : List Bytes) (s : Sys)
    {sig : Sig} (hsig : lookupSig name = some sig) (hreg : Cmd.regular sig.name = none)
    (hns : scriptNames.contains sig.name = false) (har : sig.checkArity args.length = true)
    (hq : ((s.conn c).tx.isSome && !SigTable.notQueued.contains sig.name) = false)
    {a : List Arg} {cis : List CI} (hap : ∀ db, sig.apply args db = (db, .ok (.ok a cis)))
    (hps : (s.conn c).pubsub = 0 ∨ SigTable.pubsubAllowed.contains sig.name = true) :
    (processCommand mode c (name :: args)).run s =
      ((), finish c (afterSpecial ((pre s).conn c).db cis (special (runInner mode c) mode c sig.name a cis) (pre s))) := by
  rw [processCommand_cons]
  simp only [StateT.run, bind, StateT.bind, getConn_run, hsig]
  rw [dispatch_eq]
  show dispatchBody mode c (s.conn c) sig args (pre s) = _
  unfold dispatchBody
  simp only [har, hq, Bool.not_true, Bool.false_eq_true, if_false]
  unfold runCommand
  simp only [hns, Bool.false_eq_true, if_false]
  have hgate : runGate sig false (decide (((pre s).conn c).pubsub > 0)) = none := by
    unfold runGate
    rcases hps with h | h
    · have : ((pre s).conn c).pubsub = 0 := (pre_conn_proj s c Conn.pubsub (fun _ => rfl)).trans h
      simp [this]
    · have h' : sig.name ∈ SigTable.pubsubAllowed := by simpa using h
      simp [h']
  have hset := setDb_same (pre s) ((pre s).conn c).db
  simp only [bind, StateT.bind, runWith_special_run _ mode c sig args false (pre s) hreg
    (Sys.refuses_of_gate_none hgate), hap, hgate, hset]
  unfold finish
  generalize afterSpecial ((pre s).conn c).db cis (special (runInner mode c) mode c sig.name a cis) (pre s) = r
  obtain ⟨r1, r2⟩ := r
  cases r1 with
  | none =>
    simp only [pure, StateT.pure, get, getThe, MonadStateOf.get, StateT.get, bind, StateT.bind]
    split <;> rfl
  | some x =>
    simp only [emit_run, pure, StateT.pure, get, getThe, MonadStateOf.get, StateT.get, bind, StateT.bind]
    split <;> rfl

theorem pre_conn_cases (s : Sys) (c : Nat) : (pre s).conn c = s.conn c ∨ (pre s).conn c = (s.conn c).cleared := by
  unfold pre
  rw [Sys.refresh_conn]
  exact cleanupClosed_conn_any s c

theorem conn_setBuf_emitS (X : Sys) (c : Nat) (r : Reply) (hc : X.HasConn c) :
    (setBuf c [] (X.emitS c r)).conn c = { X.conn c with buf := [] } := by
  rw [setBuf_eq_updConn, Sys.conn_updConn_same (fun x => { x with buf := [] }) ((Sys.emitS_hasConn X c r c).2 hc)
    (fun _ => rfl), Sys.emitS_conn]

theorem after_special (mode : Mode) {s : Sys} {c : Nat} (hc : s.HasConn c) (hbuf : (s.conn c).buf = [])
    (hdead : (s.conn c).dead = false) (hpaused : (s.conn c).paused = false) (hup : s.srv.connected = true)
    (name : Bytes) (args : List Bytes)
    {sig : Sig} (hsig : lookupSig name = some sig) (hreg : Cmd.regular sig.name = none)
    (hns : scriptNames.contains sig.name = false) (har : sig.checkArity args.length = true)
    (hq : ((s.conn c).tx.isSome && !SigTable.notQueued.contains sig.name) = false)
    {a : List Arg} {cis : List CI} (hap : ∀ db, sig.apply args db = (db, .ok (.ok a cis)))
    (hps : (s.conn c).pubsub = 0 ∨ SigTable.pubsubAllowed.contains sig.name = true) :
    after mode s (c, name :: args) = setBuf c []
      (finish c (afterSpecial ((pre s).conn c).db cis (special (runInner mode c) mode c sig.name a cis) (pre s))) := by
  unfold after
  simp only
  rw [sendallGuarded_encode mode c _ s hc hbuf hdead hpaused hup,
    processCommand_special mode c name args s hsig hreg hns har hq hap hps]

/-- connection `c` is inside MULTI with queue `q`, nothing it watches was touched; otherwise as `Ready` -/
structure Queuing (s : Sys) (c : Nat) (q : List (String × List Bytes)) : Prop where
  has : s.HasConn c
  buf : (s.conn c).buf = []
  dead : (s.conn c).dead = false
  paused : (s.conn c).paused = false
  closed : (s.conn c).closed = false
  tx : (s.conn c).tx = some q
  txFailed : (s.conn c).txFailed = false
  watchNotified : (s.conn c).watchNotified = false
  pubsub : (s.conn c).pubsub = 0
  dbIdx : (s.conn c).db < s.srv.dbs.length
  connected : s.srv.connected = true
  crashed : s.crashed = none

def sigMulti : Sig := ⟨"multi", [], [], true, 0, 0, false⟩
def sigExec : Sig := ⟨"exec", [], [], true, 0, 0, false⟩
theorem look_multi : lookupSig (strBytes "multi") = some sigMulti := by decide +kernel
theorem look_exec : lookupSig (strBytes "exec") = some sigExec := by decide +kernel

theorem writebackAll_nil (d : Nat) (s : Sys) : writebackAll d [] s = ((), s) := rfl

/-- `MULTI` on an idle connection: OK, the connection starts queueing; no database is touched -/
theorem multi_step (mode : Mode) {s : Sys} {c : Nat} (hr : Ready s c) (hw : (s.conn c).watchNotified = false)
    {name : Bytes} (hn : Spells name "multi") :
    (after mode s (c, [name])).out = (c, .ok) :: s.out ∧ Queuing (after mode s (c, [name])) c [] ∧
    (after mode s (c, [name])).srv.dbs = s.srv.dbs ∧ ((after mode s (c, [name])).conn c).db = (s.conn c).db := by
  have hst : after mode s (c, [name]) = setBuf c []
      (((pre s).updConn c fun x => { x with tx := some [], txFailed := false }).emitS c .ok) := by
    rw [after_special mode hr.has hr.buf hr.dead hr.paused hr.connected name [] (hn.lookup.trans look_multi) rfl
      (by decide) (by decide) (by rw [hr.tx]; rfl) (a := []) (cis := []) (fun _ => rfl) (Or.inl hr.pubsub)]
    have htx : ((pre s).conn c).tx = none := (pre_conn_proj s c Conn.tx (fun _ => rfl)).trans hr.tx
    have hsp : special (runInner mode c) mode c sigMulti.name [] [] = multiCmd c [] := rfl
    unfold afterSpecial finish
    simp only [hsp, bind, StateT.bind, multiCmd_run_none [] htx, writebackAll_nil, pure, StateT.pure]
    have hcr : (((pre s).updConn c fun x => { x with tx := some [], txFailed := false }).emitS c .ok).crashed = none := by
      rw [emitS_crashed]; show (pre s).crashed = none; rw [pre_crashed, hr.crashed]
    simp only [hcr, Option.isSome_none, Bool.false_eq_true, if_false]
  have hc1 : ((pre s).updConn c fun x => { x with tx := some [], txFailed := false }).HasConn c :=
    (Sys.hasConn_updConn (fun x => { x with tx := some [], txFailed := false }) (fun _ => rfl)).2
      ((pre_hasConn s c).2 hr.has)
  have hconn : (after mode s (c, [name])).conn c =
      { ((pre s).conn c) with tx := some [], txFailed := false, buf := [] } := by
    rw [hst, conn_setBuf_emitS _ c _ hc1,
      Sys.conn_updConn_same (fun x => { x with tx := some [], txFailed := false }) ((pre_hasConn s c).2 hr.has)
        (fun _ => rfl)]
  have hdbs : (after mode s (c, [name])).srv.dbs = s.srv.dbs := by
    rw [hst, setBuf_eq_updConn, Sys.updConn_dbs, Sys.emitS_srv, Sys.updConn_dbs, pre_dbs]
  refine ⟨?_, ⟨?_, ?_, ?_, ?_, ?_, ?_, ?_, ?_, ?_, ?_, ?_, ?_⟩, hdbs, ?_⟩
  · rw [hst, setBuf_eq_updConn, Sys.updConn_out, Sys.emitS_out]
    have : (((pre s).updConn c fun x => { x with tx := some [], txFailed := false }).conn c).closed = false := by
      rw [Sys.conn_updConn_same (fun x => { x with tx := some [], txFailed := false }) ((pre_hasConn s c).2 hr.has)
        (fun _ => rfl)]
      exact (pre_conn_proj s c Conn.closed (fun _ => rfl)).trans hr.closed
    rw [this, Sys.updConn_out, pre_out]; rfl
  · rw [hst, setBuf_eq_updConn, Sys.hasConn_updConn (fun x => { x with buf := [] }) (fun _ => rfl), Sys.emitS_hasConn]
    exact hc1
  · rw [hconn]
  · rw [hconn]; exact (pre_conn_proj s c Conn.dead (fun _ => rfl)).trans hr.dead
  · rw [hconn]; exact (pre_conn_proj s c Conn.paused (fun _ => rfl)).trans hr.paused
  · rw [hconn]; exact (pre_conn_proj s c Conn.closed (fun _ => rfl)).trans hr.closed
  · rw [hconn]
  · rw [hconn]
  · rw [hconn]
    rcases pre_conn_cases s c with e | e <;> rw [e]
    · exact hw
    · rfl
  · rw [hconn]; exact (pre_conn_proj s c Conn.pubsub (fun _ => rfl)).trans hr.pubsub
  · rw [hconn, hdbs]
    show ((pre s).conn c).db < _
    rw [pre_conn_proj s c Conn.db (fun _ => rfl)]; exact hr.dbIdx
  · rw [hst, setBuf_eq_updConn]
    show (Sys.emitS _ _ _).srv.connected = true
    rw [Sys.emitS_srv]; show (pre s).srv.connected = true; rw [pre_connected]; exact hr.connected
  · rw [hst, setBuf_eq_updConn]
    show (Sys.emitS _ _ _).crashed = none
    rw [emitS_crashed]; show (pre s).crashed = none; rw [pre_crashed]; exact hr.crashed
  · rw [hconn]; exact pre_conn_proj s c Conn.db (fun _ => rfl)

/-- facts about a state of the form "prologue, one update of `c`'s record, one reply, buffer emptied" -/
theorem upd_shape {s : Sys} {c : Nat} (f : Conn → Conn) (hid : ∀ x, (f x).id = x.id) (r : Reply) {s' : Sys}
    (hst : s' = setBuf c [] (((pre s).updConn c f).emitS c r)) (hhas : s.HasConn c)
    (hclosed : (f ((pre s).conn c)).closed = false) :
    s'.out = (c, r) :: s.out ∧ s'.HasConn c ∧ s'.conn c = { f ((pre s).conn c) with buf := [] } ∧
    s'.srv.dbs = s.srv.dbs ∧ s'.srv.connected = s.srv.connected ∧ s'.crashed = s.crashed := by
  have hc0 : (pre s).HasConn c := (pre_hasConn s c).2 hhas
  have hc1 : ((pre s).updConn c f).HasConn c := (Sys.hasConn_updConn f hid).2 hc0
  subst hst
  refine ⟨?_, ?_, ?_, ?_, ?_, ?_⟩
  · rw [setBuf_eq_updConn, Sys.updConn_out, Sys.emitS_out, Sys.conn_updConn_same f hc0 hid, hclosed,
      Sys.updConn_out, pre_out]
    rfl
  · rw [setBuf_eq_updConn, Sys.hasConn_updConn (fun x => { x with buf := [] }) (fun _ => rfl), Sys.emitS_hasConn]
    exact hc1
  · rw [conn_setBuf_emitS _ c _ hc1, Sys.conn_updConn_same f hc0 hid]
  · rw [setBuf_eq_updConn, Sys.updConn_dbs, Sys.emitS_srv, Sys.updConn_dbs, pre_dbs]
  · rw [setBuf_eq_updConn]
    show (Sys.emitS _ _ _).srv.connected = _
    rw [Sys.emitS_srv]; show (pre s).srv.connected = _; rw [pre_connected]
  · rw [setBuf_eq_updConn]
    show (Sys.emitS _ _ _).crashed = _
    rw [emitS_crashed]; show (pre s).crashed = _; rw [pre_crashed]

/-- a queueable command sent inside MULTI: QUEUED, the request is appended to the queue with its argument bytes
untouched, no database is touched -/
theorem queued_step (mode : Mode) {s : Sys} {c : Nat} {q : List (String × List Bytes)} (hq : Queuing s c q)
    (name : Bytes) (args : List Bytes) {sig : Sig} (hsig : lookupSig name = some sig)
    (har : sig.checkArity args.length = true) (hnq : SigTable.notQueued.contains sig.name = false)
    (hnm : SigTable.notInMulti.contains sig.name = false) :
    (after mode s (c, name :: args)).out = (c, .queued) :: s.out ∧
    Queuing (after mode s (c, name :: args)) c (q ++ [(sig.name, args)]) ∧
    (after mode s (c, name :: args)).srv.dbs = s.srv.dbs ∧
    ((after mode s (c, name :: args)).conn c).db = (s.conn c).db := by
  have hst : after mode s (c, name :: args) = setBuf c []
      (((pre s).updConn c fun x => { x with tx := x.tx.map (· ++ [(sig.name, args)]) }).emitS c .queued) := by
    unfold after
    simp only
    rw [sendallGuarded_encode mode c _ s hq.has hq.buf hq.dead hq.paused hq.connected, processCommand_cons]
    simp only [StateT.run, bind, StateT.bind, getConn_run, hsig]
    rw [dispatch_eq]
    show setBuf c [] (dispatchBody mode c (s.conn c) sig args (pre s)).2 = _
    unfold dispatchBody
    simp only [har, hq.tx, hnq, hnm, Bool.not_true, Bool.not_false, Bool.false_eq_true, if_false, Option.isSome_some,
      Bool.and_self, if_true, bind, StateT.bind, modifyConn_run, emit_run]
  have hcl : ((pre s).conn c).closed = false := (pre_conn_proj s c Conn.closed (fun _ => rfl)).trans hq.closed
  obtain ⟨h1, h2, h3, h4, h5, h6⟩ := upd_shape (fun x => { x with tx := x.tx.map (· ++ [(sig.name, args)]) })
    (fun _ => rfl) .queued hst hq.has hcl
  have hdb : ((after mode s (c, name :: args)).conn c).db = (s.conn c).db := by
    rw [h3]; exact pre_conn_proj s c Conn.db (fun _ => rfl)
  refine ⟨h1, ⟨h2, by rw [h3], ?_, ?_, ?_, ?_, ?_, ?_, ?_, ?_, by rw [h5]; exact hq.connected,
    by rw [h6]; exact hq.crashed⟩, h4, hdb⟩
  · rw [h3]; exact (pre_conn_proj s c Conn.dead (fun _ => rfl)).trans hq.dead
  · rw [h3]; exact (pre_conn_proj s c Conn.paused (fun _ => rfl)).trans hq.paused
  · rw [h3]; exact hcl
  · rw [h3]
    show ((pre s).conn c).tx.map _ = _
    rw [(pre_conn_proj s c Conn.tx (fun _ => rfl)).trans hq.tx]; rfl
  · rw [h3]; exact (pre_conn_proj s c Conn.txFailed (fun _ => rfl)).trans hq.txFailed
  · rw [h3]
    show ((pre s).conn c).watchNotified = false
    rcases pre_conn_cases s c with e | e <;> rw [e]
    · exact hq.watchNotified
    · rfl
  · rw [h3]; exact (pre_conn_proj s c Conn.pubsub (fun _ => rfl)).trans hq.pubsub
  · rw [hdb, h4]; exact hq.dbIdx

/-- (P)SUBSCRIBE / (P)UNSUBSCRIBE sent inside MULTI: refused with an error reply, nothing is queued, the
transaction is marked failed; no database is touched and the connection stays as usable as it was -/
theorem refused_step (mode : Mode) {s : Sys} {c : Nat} {q : List (String × List Bytes)} (hq : Queuing s c q)
    (name : Bytes) (args : List Bytes) {sig : Sig} (hsig : lookupSig name = some sig)
    (har : sig.checkArity args.length = true) (hnq : SigTable.notQueued.contains sig.name = false)
    (hnm : SigTable.notInMulti.contains sig.name = true) :
    (after mode s (c, name :: args)).out = (c, .err (strBytes Msgs.COMMAND_IN_MULTI_MSG)) :: s.out ∧
    (after mode s (c, name :: args)).HasConn c ∧
    ((after mode s (c, name :: args)).conn c).tx = some q ∧
    ((after mode s (c, name :: args)).conn c).txFailed = true ∧
    ((after mode s (c, name :: args)).conn c).buf = [] ∧
    ((after mode s (c, name :: args)).conn c).dead = false ∧
    ((after mode s (c, name :: args)).conn c).paused = false ∧
    ((after mode s (c, name :: args)).conn c).closed = false ∧
    ((after mode s (c, name :: args)).conn c).pubsub = 0 ∧
    (after mode s (c, name :: args)).srv.connected = true ∧
    (after mode s (c, name :: args)).crashed = none ∧
    (after mode s (c, name :: args)).srv.dbs = s.srv.dbs ∧
    ((after mode s (c, name :: args)).conn c).db = (s.conn c).db := by
  have hst : after mode s (c, name :: args) = setBuf c []
      (((pre s).updConn c fun x => { x with txFailed := true }).emitS c
        (.err (strBytes Msgs.COMMAND_IN_MULTI_MSG))) := by
    unfold after
    simp only
    rw [sendallGuarded_encode mode c _ s hq.has hq.buf hq.dead hq.paused hq.connected, processCommand_cons]
    simp only [StateT.run, bind, StateT.bind, getConn_run, hsig]
    rw [dispatch_eq]
    show setBuf c [] (dispatchBody mode c (s.conn c) sig args (pre s)).2 = _
    unfold dispatchBody
    simp only [har, hq.tx, hnq, hnm, Bool.not_true, Bool.not_false, Bool.false_eq_true, if_false, Option.isSome_some,
      Bool.and_self, if_true, bind, StateT.bind, modifyConn_run, emit_run]
  have hcl : ((pre s).conn c).closed = false := (pre_conn_proj s c Conn.closed (fun _ => rfl)).trans hq.closed
  obtain ⟨h1, h2, h3, h4, h5, h6⟩ := upd_shape (fun x => { x with txFailed := true })
    (fun _ => rfl) (.err (strBytes Msgs.COMMAND_IN_MULTI_MSG)) hst hq.has hcl
  refine ⟨h1, h2, ?_, by rw [h3], by rw [h3], ?_, ?_, ?_, ?_, by rw [h5]; exact hq.connected,
    by rw [h6]; exact hq.crashed, h4, ?_⟩
  · rw [h3]; exact (pre_conn_proj s c Conn.tx (fun _ => rfl)).trans hq.tx
  · rw [h3]; exact (pre_conn_proj s c Conn.dead (fun _ => rfl)).trans hq.dead
  · rw [h3]; exact (pre_conn_proj s c Conn.paused (fun _ => rfl)).trans hq.paused
  · rw [h3]; exact hcl
  · rw [h3]; exact (pre_conn_proj s c Conn.pubsub (fun _ => rfl)).trans hq.pubsub
  · rw [h3]; exact pre_conn_proj s c Conn.db (fun _ => rfl)

/-- a record up to the notification flags and the in-transaction flag -/
def ess (x : Conn) : Conn := { x.core with inTx := false }

/-- what one queued regular command does when EXEC runs it -/
structure InnerStep (t t' : Sys) (c : Nat) (o : RunOut) : Prop where
  dbs : t'.srv.dbs = t.srv.dbs.set (t.conn c).db o.db.dict
  time : t'.srv.time = t.srv.time
  out : t'.out = t.out
  crashed : t'.crashed = t.crashed
  connected : t'.srv.connected = t.srv.connected
  has : t'.HasConn c ↔ t.HasConn c
  conn : ess (t'.conn c) = ess (t.conn c)

theorem queueStep_regular (mode : Mode) (c : Nat) {fname : String} (fargs : List Bytes) {sig : Sig} {body : Body}
    (hfind : SigTable.find fname = some sig) (hb : Cmd.regular sig.name = some body) (t : Sys)
    (hc : t.HasConn c) (hps : (t.conn c).pubsub = 0) :
    ∃ ctx : Ctx, ctx.time = t.srv.time ∧
      (queueStep (runInner mode c) c (fname, fargs) t).1 =
        some (runRegular sig body ctx none fargs ⟨t.srv.dbs.getD (t.conn c).db [], t.srv.time⟩).reply ∧
      InnerStep t (queueStep (runInner mode c) c (fname, fargs) t).2 c
        (runRegular sig body ctx none fargs ⟨t.srv.dbs.getD (t.conn c).db [], t.srv.time⟩) := by
  have hconn1 : (t.updConn c fun x => { x with inTx := true }).conn c = { t.conn c with inTx := true } :=
    Sys.conn_updConn_same (fun x => { x with inTx := true }) hc (fun _ => rfl)
  have hrf : (t.updConn c fun x => { x with inTx := true }).refuses c sig = false :=
    Sys.refuses_of_unsubscribed sig (by rw [hconn1]; exact hps)
  have hrun : queueStep (runInner mode c) c (fname, fargs) t =
      (some ((t.updConn c fun x => { x with inTx := true }).regularOut c sig body fargs false).reply,
        ((t.updConn c fun x => { x with inTx := true }).afterRegular ((t.updConn c fun x => { x with inTx := true }).conn c).db
          ((t.updConn c fun x => { x with inTx := true }).regularOut c sig body fargs false)).updConn c
            fun x => { x with inTx := false }) := by
    unfold queueStep
    simp only [hfind, runInner_regular_eq mode c sig fargs hb]
    simp only [bind, StateT.bind, modifyConn_run, runWith_regular_run _ mode c sig fargs false hb _ hrf, pure,
      StateT.pure]
  refine ⟨FR.Ttl.ctxOf (t.updConn c fun x => { x with inTx := true }) c, rfl, ?_, ?_⟩
  · rw [hrun]
    simp only
    congr 2
    unfold Sys.regularOut FR.Ttl.ctxOf
    rw [hconn1]
    simp only [hps]
    rw [FR.Ttl.runGate_none]
    rfl
  · have ho : (t.updConn c fun x => { x with inTx := true }).regularOut c sig body fargs false =
        runRegular sig body (FR.Ttl.ctxOf (t.updConn c fun x => { x with inTx := true }) c) none fargs
          ⟨t.srv.dbs.getD (t.conn c).db [], t.srv.time⟩ := by
      unfold Sys.regularOut FR.Ttl.ctxOf
      rw [hconn1]
      simp only [hps]
      rw [FR.Ttl.runGate_none]
      rfl
    rw [hrun]
    simp only
    rw [ho, hconn1]
    refine ⟨?_, ?_, ?_, ?_, ?_, ?_, ?_⟩
    · rw [Sys.updConn_dbs, Sys.afterRegular_dbs]; rfl
    · rw [Sys.updConn_time]
      exact afterRegular_srvframe (fun srv => srv.time) (fun _ _ _ => rfl) _ _ _
    · rw [Sys.updConn_out, afterRegular_out]; rfl
    · show (Sys.afterRegular _ _ _).crashed = _
      rw [afterRegular_crashed]; rfl
    · show (Sys.afterRegular _ _ _).srv.connected = _
      exact afterRegular_srvframe (fun srv => srv.connected) (fun _ _ _ => rfl) _ _ _
    · rw [Sys.hasConn_updConn (fun x => { x with inTx := false }) (fun _ => rfl), afterRegular_hasConn,
        Sys.hasConn_updConn (fun x => { x with inTx := true }) (fun _ => rfl)]
    · have hc2 : ((t.updConn c fun x => { x with inTx := true }).afterRegular (t.conn c).db
          (runRegular sig body (FR.Ttl.ctxOf (t.updConn c fun x => { x with inTx := true }) c) none fargs
            ⟨t.srv.dbs.getD (t.conn c).db [], t.srv.time⟩)).HasConn c := by
        rw [afterRegular_hasConn, Sys.hasConn_updConn (fun x => { x with inTx := true }) (fun _ => rfl)]; exact hc
      rw [Sys.conn_updConn_same (fun x => { x with inTx := false }) hc2 (fun _ => rfl)]
      have hcore := afterRegular_core (t.updConn c fun x => { x with inTx := true }) (t.conn c).db
        (runRegular sig body (FR.Ttl.ctxOf (t.updConn c fun x => { x with inTx := true }) c) none fargs
            ⟨t.srv.dbs.getD (t.conn c).db [], t.srv.time⟩) c
      rw [hconn1] at hcore
      have := congrArg (fun x : Conn => ({ x with inTx := false } : Conn)) hcore
      exact this

theorem ess_fields {x y : Conn} (h : ess x = ess y) :
    x.db = y.db ∧ x.tx = y.tx ∧ x.txFailed = y.txFailed ∧ x.pubsub = y.pubsub ∧ x.buf = y.buf ∧
    x.paused = y.paused ∧ x.closed = y.closed ∧ x.dead = y.dead ∧ x.watches = y.watches :=
  ⟨(congrArg Conn.db h : (ess x).db = (ess y).db), (congrArg Conn.tx h : (ess x).tx = (ess y).tx), (congrArg Conn.txFailed h : (ess x).txFailed = (ess y).txFailed), (congrArg Conn.pubsub h : (ess x).pubsub = (ess y).pubsub), (congrArg Conn.buf h : (ess x).buf = (ess y).buf),
    (congrArg Conn.paused h : (ess x).paused = (ess y).paused), (congrArg Conn.closed h : (ess x).closed = (ess y).closed), (congrArg Conn.dead h : (ess x).dead = (ess y).dead), (congrArg Conn.watches h : (ess x).watches = (ess y).watches)⟩


/-- `EXEC` with the queue `SET k v; GET k`: the array `[OK, v]`; the connection is back in normal mode -/
theorem exec_set_get_step (mode : Mode) {s : Sys} {c : Nat} (k v : Bytes)
    (hq : Queuing s c [("set", [k, v]), ("get", [k])]) (hi : s.DataInv) {name : Bytes} (hn : Spells name "exec") :
    (after mode s (c, [name])).out = (c, .arr [.ok, .bulk v]) :: s.out ∧ Ready (after mode s (c, [name])) c ∧
    (after mode s (c, [name])).DataInv := by
  have hinv : (after mode s (c, [name])).DataInv := sendallGuarded_preserves mode c _ s hi
  -- the state in which EXEC's body runs
  have hptx : ((pre s).conn c).tx = some [("set", [k, v]), ("get", [k])] :=
    (pre_conn_proj s c Conn.tx (fun _ => rfl)).trans hq.tx
  have hpf : ((pre s).conn c).txFailed = false := (pre_conn_proj s c Conn.txFailed (fun _ => rfl)).trans hq.txFailed
  have hpw : ((pre s).conn c).watchNotified = false := by
    rcases pre_conn_cases s c with e | e <;> rw [e]
    · exact hq.watchNotified
    · rfl
  have hphas : (pre s).HasConn c := (pre_hasConn s c).2 hq.has
  -- after the transaction state is reset
  obtain ⟨p2, hp2def⟩ : ∃ p2 : Sys, p2 = ((pre s).updConn c fun x => { x with tx := none, txFailed := false }).updConn c
    fun x => { x with watchNotified := false, watches := [] } := ⟨_, rfl⟩
  have hp2has : p2.HasConn c := by
    rw [hp2def]
    exact (Sys.hasConn_updConn (fun x => { x with watchNotified := false, watches := [] }) (fun _ => rfl)).2
      ((Sys.hasConn_updConn (fun x => { x with tx := none, txFailed := false }) (fun _ => rfl)).2 hphas)
  have hp2conn : p2.conn c = { (pre s).conn c with tx := none, txFailed := false, watchNotified := false, watches := [] } := by
    rw [hp2def]
    rw [Sys.conn_updConn_same (fun x => { x with watchNotified := false, watches := [] })
      ((Sys.hasConn_updConn (fun x => { x with tx := none, txFailed := false }) (fun _ => rfl)).2 hphas) (fun _ => rfl),
      Sys.conn_updConn_same (fun x => { x with tx := none, txFailed := false }) hphas (fun _ => rfl)]
  have hp2db : (p2.conn c).db = (s.conn c).db := by rw [hp2conn]; exact pre_conn_proj s c Conn.db (fun _ => rfl)
  have hp2ps : (p2.conn c).pubsub = 0 := by
    rw [hp2conn]; exact (pre_conn_proj s c Conn.pubsub (fun _ => rfl)).trans hq.pubsub
  have hp2dbs : p2.srv.dbs = s.srv.dbs := by rw [hp2def]; exact pre_dbs s
  have hp2out : p2.out = s.out := by rw [hp2def]; exact pre_out s
  have hp2cr : p2.crashed = s.crashed := by rw [hp2def]; exact pre_crashed s
  have hp2up : p2.srv.connected = s.srv.connected := by rw [hp2def]; exact pre_connected s
  -- first queued command: SET
  obtain ⟨ctx1, hct1, hr1, st1⟩ := queueStep_regular mode c [k, v] (fname := "set") (sig := FR.StrKeys.sigSet)
    (body := Cmd.set) (by decide) rfl p2 hp2has hp2ps
  generalize hq1 : queueStep (runInner mode c) c ("set", [k, v]) p2 = q1 at hr1 st1
  obtain ⟨r1, t1⟩ := q1
  simp only at hr1 st1
  have hgood : Good (p2.srv.dbs.getD (p2.conn c).db []) := by
    rw [hp2dbs, hp2db]; exact hi.dbAt (s.conn c).db
  have sp := FR.Props.C01k.set_plain ctx1 ⟨p2.srv.dbs.getD (p2.conn c).db [], p2.srv.time⟩ hgood.1 hgood.2 hct1 k v
  simp only at sp
  have hrep1 := congrArg Prod.fst sp
  have hlive1 := congrArg Prod.snd sp
  simp only at hrep1 hlive1
  have nd1 := runRegular_nodup FR.StrKeys.sigSet Cmd.set ctx1 none [k, v] hgood.1
    (db := ⟨p2.srv.dbs.getD (p2.conn c).db [], p2.srv.time⟩)
  have htime1 := runRegular_time FR.StrKeys.sigSet Cmd.set ctx1 none [k, v] hgood.1
    (db := ⟨p2.srv.dbs.getD (p2.conn c).db [], p2.srv.time⟩)
  -- second queued command: GET
  have ht1has : t1.HasConn c := st1.has.2 hp2has
  have he1 := ess_fields st1.conn
  have ht1ps : (t1.conn c).pubsub = 0 := he1.2.2.2.1.trans hp2ps
  obtain ⟨ctx2, hct2, hr2, st2⟩ := queueStep_regular mode c [k] (fname := "get") (sig := FR.StrKeys.sigGet)
    (body := Cmd.get) (by decide) rfl t1 ht1has ht1ps
  generalize hq2 : queueStep (runInner mode c) c ("get", [k]) t1 = q2 at hr2 st2
  obtain ⟨r2, t2⟩ := q2
  simp only at hr2 st2
  have hdb1 : (⟨t1.srv.dbs.getD (t1.conn c).db [], t1.srv.time⟩ : Db) =
      (runRegular FR.StrKeys.sigSet Cmd.set ctx1 none [k, v] ⟨p2.srv.dbs.getD (p2.conn c).db [], p2.srv.time⟩).db := by
    rw [st1.dbs, st1.time, he1.1, getD_set_self _ _ _ _ (by rw [hp2dbs, hp2db]; exact hq.dbIdx)]
    have htime1' : (runRegular FR.StrKeys.sigSet Cmd.set ctx1 none [k, v]
        ⟨p2.srv.dbs.getD (p2.conn c).db [], p2.srv.time⟩).db.time = p2.srv.time := htime1
    revert htime1'
    generalize (runRegular FR.StrKeys.sigSet Cmd.set ctx1 none [k, v]
        ⟨p2.srv.dbs.getD (p2.conn c).db [], p2.srv.time⟩).db = D
    intro hD
    cases D
    simp only at hD
    rw [hD]
  rw [hdb1] at hr2 st2
  have gp := FR.Props.C01k.get_spec ctx2 _ nd1 k
  simp only at gp
  rw [hlive1, FR.StrKeys.upd_self] at gp
  have hrep2 := congrArg Prod.fst gp
  simp only at hrep2
  rw [hrep1] at hr1
  rw [hrep2] at hr2
  -- EXEC itself
  have hexec : execCmd (runInner mode c) c [] (pre s) = (.ok (some (.arr [.ok, .bulk v]), []), t2) := by
    rw [execCmd_eq_sequential (runInner mode c) [] hptx hpf hpw]
    simp only [bind, StateT.bind, modifyConn_run, clearWatches_run, runQueue_cons, runQueue_nil, pure, StateT.pure]
    rw [← hp2def, hq1]
    simp only [hq2, hr1, hr2]
    rfl
  have hst : after mode s (c, [name]) = setBuf c [] (t2.emitS c (.arr [.ok, .bulk v])) := by
    rw [after_special mode hq.has hq.buf hq.dead hq.paused hq.connected name [] (hn.lookup.trans look_exec) rfl
      (by decide) (by decide) (by rw [hq.tx]; rfl) (a := []) (cis := []) (fun _ => rfl) (Or.inl hq.pubsub)]
    have hsp : special (runInner mode c) mode c sigExec.name [] [] = execCmd (runInner mode c) c [] := rfl
    unfold afterSpecial finish
    simp only [hsp, bind, StateT.bind, hexec, writebackAll_nil, pure, StateT.pure]
    have hcr : (t2.emitS c (.arr [.ok, .bulk v])).crashed = none := by
      rw [emitS_crashed, st2.crashed, st1.crashed, hp2cr, hq.crashed]
    simp only [hcr, Option.isSome_none, Bool.false_eq_true, if_false]
  have ht2has : t2.HasConn c := st2.has.2 ht1has
  have he2 := ess_fields st2.conn
  have hconn : (after mode s (c, [name])).conn c = { t2.conn c with buf := [] } := by
    rw [hst, conn_setBuf_emitS _ c _ ht2has]
  have hdbs : (after mode s (c, [name])).srv.dbs.length = s.srv.dbs.length := by
    rw [hst, setBuf_eq_updConn, Sys.updConn_dbs, Sys.emitS_srv, st2.dbs, List.length_set, st1.dbs, List.length_set,
      hp2dbs]
  refine ⟨?_, ⟨?_, by rw [hconn], ?_, ?_, ?_, ?_, ?_, ?_, ?_, ?_⟩, hinv⟩
  · rw [hst, setBuf_eq_updConn, Sys.updConn_out, Sys.emitS_out]
    have : (t2.conn c).closed = false := by
      rw [he2.2.2.2.2.2.2.1, he1.2.2.2.2.2.2.1, hp2conn]
      exact (pre_conn_proj s c Conn.closed (fun _ => rfl)).trans hq.closed
    rw [this, st2.out, st1.out, hp2out]; rfl
  · rw [hst, setBuf_eq_updConn, Sys.hasConn_updConn (fun x => { x with buf := [] }) (fun _ => rfl), Sys.emitS_hasConn]
    exact ht2has
  · rw [hconn]
    show (t2.conn c).dead = false
    rw [he2.2.2.2.2.2.2.2.1, he1.2.2.2.2.2.2.2.1, hp2conn]
    exact (pre_conn_proj s c Conn.dead (fun _ => rfl)).trans hq.dead
  · rw [hconn]
    show (t2.conn c).paused = false
    rw [he2.2.2.2.2.2.1, he1.2.2.2.2.2.1, hp2conn]
    exact (pre_conn_proj s c Conn.paused (fun _ => rfl)).trans hq.paused
  · rw [hconn]
    show (t2.conn c).closed = false
    rw [he2.2.2.2.2.2.2.1, he1.2.2.2.2.2.2.1, hp2conn]
    exact (pre_conn_proj s c Conn.closed (fun _ => rfl)).trans hq.closed
  · rw [hconn]
    show (t2.conn c).tx = none
    rw [he2.2.1, he1.2.1, hp2conn]
  · rw [hconn]
    show (t2.conn c).pubsub = 0
    rw [he2.2.2.2.1]; exact ht1ps
  · rw [hconn, hdbs]
    show (t2.conn c).db < _
    rw [he2.1, he1.1, hp2db]; exact hq.dbIdx
  · rw [hst, setBuf_eq_updConn]
    show (Sys.emitS _ _ _).srv.connected = true
    rw [Sys.emitS_srv, st2.connected, st1.connected, hp2up]; exact hq.connected
  · rw [hst, setBuf_eq_updConn]
    show (Sys.emitS _ _ _).crashed = none
    rw [emitS_crashed, st2.crashed, st1.crashed, hp2cr]; exact hq.crashed

end specials

/-! ## 13. pub/sub -/
section pubsub

def sigSubscribe : Sig := ⟨"subscribe", [.bytes], [.bytes], true, 0, 0, true⟩
def sigPublish : Sig := ⟨"publish", [.bytes, .bytes], [], false, 2, 0, false⟩
theorem look_subscribe : lookupSig (strBytes "subscribe") = some sigSubscribe := by decide +kernel
theorem look_publish : lookupSig (strBytes "publish") = some sigPublish := by decide +kernel

theorem pre_closedSockets (s : Sys) : (pre s).srv.closedSockets = [] := by
  obtain ⟨_, _, _, _, _, h⟩ := pre_shape s; rw [h]

theorem pre_subs_nil {s : Sys} (h : s.srv.subs = []) : (pre s).srv.subs = [] := by
  unfold pre
  rw [Sys.refresh_subs, cleanupClosed_subs, h]; rfl

theorem pre_psubs_nil {s : Sys} (h : s.srv.psubs = []) : (pre s).srv.psubs = [] := by
  unfold pre
  rw [Sys.refresh_psubs, cleanupClosed_psubs, h]; rfl

theorem pre_of_closed_nil {s : Sys} (h : s.srv.closedSockets = []) : pre s = s.refresh := by
  unfold pre
  rw [cleanupClosed_run_nil h]

/-- `PUBLISH ch m` from an idle connection `P` (no socket waiting for clean-up): the messages go out to the
subscribers in the order of `deliveries`, then `P` gets the number of deliveries -/
theorem publish_step (mode : Mode) {s : Sys} {P : Nat} (hr : Ready s P) (hcs : s.srv.closedSockets = [])
    {name : Bytes} (hn : Spells name "publish") (ch m : Bytes) :
    (after mode s (P, [name, ch, m])).out =
      (P, .int (deliveries s.srv ch m).length) ::
        (((deliveries s.srv ch m).filter fun d => !(s.conn d.1).closed).reverse ++ s.out) := by
  rw [after_special mode hr.has hr.buf hr.dead hr.paused hr.connected name [ch, m] (hn.lookup.trans look_publish) rfl
    (by decide) (show sigPublish.checkArity 2 = true by decide) (by rw [hr.tx]; rfl) (a := [.raw ch, .raw m]) (cis := [])
    (fun _ => rfl) (Or.inl hr.pubsub)]
  have hsp : special (runInner mode P) mode P sigPublish.name [.raw ch, .raw m] [] =
      (do let n ← publish ch m; okR (.int n) []) := rfl
  unfold afterSpecial finish
  simp only [hsp, bind, StateT.bind, publish_run, okR, writebackAll_nil, pure, StateT.pure]
  have hcr : (pre s).crashed = none := by rw [pre_crashed, hr.crashed]
  rw [setBuf_eq_updConn, Sys.updConn_out]
  have hpre := pre_of_closed_nil hcs
  have hd : deliveries (pre s).srv ch m = deliveries s.srv ch m := by
    rw [hpre]; unfold deliveries; rw [Sys.refresh_subs, Sys.refresh_psubs]
  have hcl : ∀ d, ((pre s).conn d).closed = (s.conn d).closed := fun d => by rw [hpre, Sys.refresh_conn]
  simp only [hd, hcl]
  have hclP : (s.conn P).closed = false := hr.closed
  split
  · rename_i hx
    exfalso
    revert hx
    simp only [emitS_crashed, hcr, Option.isSome_none, Bool.false_eq_true, imp_self]
  · rw [Sys.emitS_out]
    have : ((({ (pre s) with out := (List.filter (fun d => !(s.conn d.1).closed) (deliveries s.srv ch m)).reverse ++
        (pre s).out } : Sys)).conn P).closed = false := by
      show ((pre s).conn P).closed = false
      rw [hcl]; exact hclP
    rw [this]
    simp only [Bool.false_eq_true, if_false, pre_out]

theorem subState_fresh {t : Sys} (h : t.srv.subs = []) (S : Nat) (ch : Bytes) :
    t.subState S false ch = (t.setTbl false [(ch, [S])]).updConn S fun x => { x with pubsub := x.pubsub + 1 } := by
  unfold Sys.subState
  have : tblSubscribe (t.tbl false) ch S = ([(ch, [S])], true) := by
    unfold Sys.tbl tblSubscribe
    simp [h]
  simp only [this, if_true]

/-- `SUBSCRIBE ch` on an idle connection `S` of a server without subscriptions: the acknowledgement carries the very
bytes of `ch` and the count 1; afterwards `S` is the one subscriber of `ch`; other idle connections stay idle -/
theorem subscribe_step (mode : Mode) {s : Sys} {S : Nat} (hr : Ready s S) (hsubs : s.srv.subs = [])
    (hpsubs : s.srv.psubs = []) {name : Bytes} (hn : Spells name "subscribe") (ch : Bytes) :
    (after mode s (S, [name, ch])).out =
      (S, .arr [.bulk (strBytes "subscribe"), .bulk ch, .int 1]) :: s.out ∧
    (after mode s (S, [name, ch])).srv.subs = [(ch, [S])] ∧ (after mode s (S, [name, ch])).srv.psubs = [] ∧
    (after mode s (S, [name, ch])).srv.closedSockets = [] ∧
    ((after mode s (S, [name, ch])).conn S).closed = false ∧
    ((after mode s (S, [name, ch])).conn S).pubsub = 1 ∧
    (∀ P, P ≠ S → Ready s P → Ready (after mode s (S, [name, ch])) P) := by
  have hX0 := subState_fresh (pre_subs_nil hsubs) S ch
  have hphas : (pre s).HasConn S := (pre_hasConn s S).2 hr.has
  have hcnt : (((pre s).subState S false ch).conn S).pubsub = 1 := by
    rw [Sys.subState_pubsub _ _ _ _ hphas]
    have h0 : ((pre s).conn S).pubsub = 0 := (pre_conn_proj s S Conn.pubsub (fun _ => rfl)).trans hr.pubsub
    have : (tblMembers ((pre s).tbl false) ch).contains S = false := by
      unfold tblMembers Sys.tbl
      simp [pre_subs_nil hsubs]
    rw [h0, this]; rfl
  have hst : after mode s (S, [name, ch]) = setBuf S []
      (((pre s).subState S false ch).emitS S (subAck false ch 1)) := by
    rw [after_special mode hr.has hr.buf hr.dead hr.paused hr.connected name [ch] (hn.lookup.trans look_subscribe) rfl
      (by decide) (show sigSubscribe.checkArity 1 = true by decide) (by rw [hr.tx]; rfl) (a := [.raw ch]) (cis := [])
      (fun _ => rfl) (Or.inl hr.pubsub)]
    have hsp : special (runInner mode S) mode S sigSubscribe.name [.raw ch] [] =
        (do subscribeGen S false [ch]; return .ok (none, [])) := rfl
    unfold afterSpecial finish
    simp only [hsp, bind, StateT.bind, subscribeGen_single_run, writebackAll_nil, pure, StateT.pure, hcnt]
    have hcr : (((pre s).subState S false ch).emitS S (subAck false ch 1)).crashed = none := by
      rw [emitS_crashed, hX0]
      show (pre s).crashed = none
      rw [pre_crashed, hr.crashed]
    simp only [hcr, Option.isSome_none, Bool.false_eq_true, if_false]
  have hconnP : ∀ P {β} (p : Conn → β), (∀ x : Conn, p x.cleared = p x) → (∀ (x : Conn) n, p { x with pubsub := n } = p x) →
      (∀ (x : Conn) B, p { x with buf := B } = p x) → p ((after mode s (S, [name, ch])).conn P) = p (s.conn P) := by
    intro P β p h1 h2 h3
    rw [hst, setBuf_eq_updConn, Sys.conn_updConn_proj _ S P (fun x => { x with buf := [] }) p (fun _ => rfl)
      (fun x => h3 x []), Sys.emitS_conn, Sys.subState_proj _ _ _ _ _ p h2]
    exact pre_conn_proj s P p h1
  have hsrv : ∀ {β} (q : Server → β), (∀ (srv : Server) sb cn, q { srv with subs := sb, conns := cn } = q srv) →
      q (after mode s (S, [name, ch])).srv = q (pre s).srv := by
    intro β q hq
    rw [hst, setBuf_eq_updConn]
    show q { (Sys.emitS _ _ _).srv with conns := _ } = _
    have h1 := hq (Sys.emitS ((pre s).subState S false ch) S (subAck false ch 1)).srv
      (Sys.emitS ((pre s).subState S false ch) S (subAck false ch 1)).srv.subs
    refine (h1 _).trans ?_
    rw [Sys.emitS_srv, hX0]
    exact hq (pre s).srv [(ch, [S])] _
  have hsubs' : (after mode s (S, [name, ch])).srv.subs = [(ch, [S])] := by
    rw [hst, setBuf_eq_updConn]
    show (Sys.emitS _ _ _).srv.subs = _
    rw [Sys.emitS_srv, hX0]
    rfl
  refine ⟨?_, hsubs', (hsrv (fun srv => srv.psubs) (fun _ _ _ => rfl)).trans (pre_psubs_nil hpsubs),
    (hsrv (fun srv => srv.closedSockets) (fun _ _ _ => rfl)).trans (pre_closedSockets s), ?_, ?_, ?_⟩
  · rw [hst, setBuf_eq_updConn, Sys.updConn_out, Sys.emitS_out, Sys.subState_out, pre_out]
    have : (((pre s).subState S false ch).conn S).closed = false := by
      rw [Sys.subState_proj _ _ _ _ _ Conn.closed (fun _ _ => rfl)]
      exact (pre_conn_proj s S Conn.closed (fun _ => rfl)).trans hr.closed
    rw [this]; rfl
  · exact (hconnP S Conn.closed (fun _ => rfl) (fun _ _ => rfl) (fun _ _ => rfl)).trans hr.closed
  · have hc1 : ((pre s).subState S false ch).HasConn S := by
      rw [hX0, Sys.hasConn_updConn (fun x => { x with pubsub := x.pubsub + 1 }) (fun _ => rfl), Sys.setTbl_hasConn]
      exact hphas
    rw [hst, conn_setBuf_emitS _ S _ hc1]
    exact hcnt
  · intro P hne hP
    refine ⟨?_, ?_, ?_, ?_, ?_, ?_, ?_, ?_, ?_, ?_⟩
    · rw [hst, setBuf_eq_updConn, Sys.hasConn_updConn (fun x => { x with buf := [] }) (fun _ => rfl),
        Sys.emitS_hasConn, hX0, Sys.hasConn_updConn (fun x => { x with pubsub := x.pubsub + 1 }) (fun _ => rfl),
        Sys.setTbl_hasConn, pre_hasConn]
      exact hP.has
    · rw [hst, setBuf_eq_updConn, Sys.conn_updConn_ne (fun x => { x with buf := [] }) hne (fun _ => rfl),
        Sys.emitS_conn, Sys.subState_proj _ _ _ _ _ Conn.buf (fun _ _ => rfl)]
      exact (pre_conn_proj s P Conn.buf (fun _ => rfl)).trans hP.buf
    · exact (hconnP P Conn.dead (fun _ => rfl) (fun _ _ => rfl) (fun _ _ => rfl)).trans hP.dead
    · exact (hconnP P Conn.paused (fun _ => rfl) (fun _ _ => rfl) (fun _ _ => rfl)).trans hP.paused
    · exact (hconnP P Conn.closed (fun _ => rfl) (fun _ _ => rfl) (fun _ _ => rfl)).trans hP.closed
    · exact (hconnP P Conn.tx (fun _ => rfl) (fun _ _ => rfl) (fun _ _ => rfl)).trans hP.tx
    · rw [hst, setBuf_eq_updConn, Sys.conn_updConn_ne (fun x => { x with buf := [] }) hne (fun _ => rfl),
        Sys.emitS_conn, hX0, Sys.conn_updConn_ne (fun x => { x with pubsub := x.pubsub + 1 }) hne (fun _ => rfl),
        Sys.setTbl_conn]
      exact (pre_conn_proj s P Conn.pubsub (fun _ => rfl)).trans hP.pubsub
    · rw [hconnP P Conn.db (fun _ => rfl) (fun _ _ => rfl) (fun _ _ => rfl),
        hsrv (fun srv => srv.dbs) (fun _ _ _ => rfl), pre_dbs]
      exact hP.dbIdx
    · rw [hsrv (fun srv => srv.connected) (fun _ _ _ => rfl), pre_connected]; exact hP.connected
    · rw [hst, setBuf_eq_updConn]
      show (Sys.emitS _ _ _).crashed = none
      rw [emitS_crashed, hX0]
      show (pre s).crashed = none
      rw [pre_crashed]; exact hP.crashed

end pubsub

/-! ## 14. only the command name is case-normalised -/
section casing
open FR.StrKeys FR.Props

/-- two spellings of the command name that differ only in ASCII letter case are the same request -/
theorem after_case_insensitive (mode : Mode) {s : Sys} {c : Nat} (hc : s.HasConn c) (hbuf : (s.conn c).buf = [])
    (hdead : (s.conn c).dead = false) (hpaused : (s.conn c).paused = false) (hup : s.srv.connected = true)
    (n1 n2 : Bytes) (h : n1.map lowerByte = n2.map lowerByte) (args : List Bytes) :
    after mode s (c, n1 :: args) = after mode s (c, n2 :: args) := by
  unfold after
  simp only
  rw [sendallGuarded_encode mode c _ s hc hbuf hdead hpaused hup,
    sendallGuarded_encode mode c _ s hc hbuf hdead hpaused hup,
    FR.C17.processCommand_case_insensitive mode c n1 n2 args h]

/-- `SET K v` leaves a key `k ≠ K` that was not live not live, also for the NEXT command (clock not running backwards) -/
theorem set_other_step (mode : Mode) {s : Sys} {c : Nat} (hr : Ready s c) (hi : s.DataInv) {name : Bytes}
    (hn : Spells name "set") (K v k : Bytes) (hne : k ≠ K) {t1 t2 : Int} {rest : List Int}
    (hclk : s.clocks = t1 :: t2 :: rest) (hmono : t1 ≤ t2) (hk : (view s c).live k = none) :
    (view (after mode s (c, [name, K, v])) c).live k = none := by
  have st := step_cmd mode hr reg_set hn [K, v] (show sigSet.checkArity 2 = true by decide)
  obtain ⟨nd, ne⟩ := good_view hi c
  have sp := C01k.set_plain (ctxFor s c) (view s c) nd ne (ctxFor_time s c) K v
  simp only at sp
  have hlive := congrArg Prod.snd sp
  simp only at hlive
  have nd1 := runRegular_nodup sigSet Cmd.set (ctxFor s c) none [K, v] nd
  have htime := runRegular_time sigSet Cmd.set (ctxFor s c) none [K, v] nd
  rw [st.view_eq, now_of_clocks (st.clocks t1 (t2 :: rest) hclk)]
  have h1 : (runRegular sigSet Cmd.set (ctxFor s c) none [K, v] (view s c)).db.time = t1 := by
    rw [htime]; exact now_of_clocks hclk
  apply live_none_mono nd1 (t := (runRegular sigSet Cmd.set (ctxFor s c) none [K, v] (view s c)).db.time)
    (by rw [h1]; exact hmono)
  show (runRegular sigSet Cmd.set (ctxFor s c) none [K, v] (view s c)).db.live k = none
  rw [hlive, upd_ne _ _ hne]
  exact hk

end casing

end FR.Wire
