import FR.Proofs.C11r
/-!
# C11s2 — helper lemmas: the exact outcome of BRPOPLPUSH run by `_run_command`
-/
namespace FR.C11s2
open FR FR.M FR.C04k FR.C11c FR.C11r FR.ErrSys

/-- `Signature.apply` of BRPOPLPUSH: the time-out converter alone can refuse; no key is looked up -/
theorem apply_brpl (src dst tb : Bytes) (db : Db) :
    sigBrpoplpush.apply [src, dst, tb] db =
      (db, match Conv.timeout tb with
           | .error e => .error e
           | .ok t => .ok (.ok [.raw src, .raw dst, .int t] [])) := by
  unfold Sig.apply
  simp only [sigBrpoplpush, Sig.checkArity, Sig.types, List.length_cons, List.length_nil, List.isEmpty_nil,
    Nat.sub_self, List.range_zero, List.map_nil, List.append_nil, List.zip_cons_cons, List.zip_nil_right,
    Sig.pass1, Conv.decode]
  cases Conv.timeout tb with
  | error e => rfl
  | ok t => rfl

/-- the `_blocking` call of the body, for any pass -/
def blkG (mode : Mode) (c : Nat) (name : String) (keys : List Bytes) (timeout : Int) (pass : Pass) :
    M (Except Err (Option Reply)) :=
  if mode.async then blockingAsync c name keys pass else blocking c mode.park name keys timeout pass

/-- the exact outcome of the `_blocking` call outside a transaction, for any pass whose first run keeps the
connection's `inTx`, database index and registration -/
theorem blkG_cases (mode : Mode) (c : Nat) (name : String) (keys : List Bytes) (t : Int) (pass : Pass)
    (s : Sys) (hin1 : ((pass true s).2.conn c).inTx = false) (hdb1 : ((pass true s).2.conn c).db = (s.conn c).db)
    (hc1 : (pass true s).2.HasConn c) :
    match (pass true s).1 with
    | .error e => (blkG mode c name keys t pass s).1 = .error e
    | .ok (some r) => (blkG mode c name keys t pass s).1 = .ok (some r)
    | .ok none =>
      if (mode.park || mode.async) = true then
        (blkG mode c name keys t pass s).1 = .ok none ∧
        (∃ p, ((blkG mode c name keys t pass s).2.conn c).parked = some p ∧ p.kind = name ∧ p.keys = keys ∧
          p.db = (s.conn c).db ∧ (t = 0 ∨ mode.async = true → p.deadline = none)) ∧
        (mode.async = true → ((blkG mode c name keys t pass s).2.conn c).paused = true)
      else (blkG mode c name keys t pass s).1 = .ok (some .nil) := by
  revert hin1 hdb1 hc1
  cases hp : pass true s with
  | mk res s1 =>
    intro hin1 hdb1 hc1
    simp only at hin1 hdb1 hc1 ⊢
    unfold blkG
    cases res with
    | error e =>
      simp only
      split
      · rw [blockingAsync_served_err c name keys _ s s1 e hp]
      · rw [blocking_served_err c mode.park name keys t _ s s1 e hp]
    | ok o =>
      cases o with
      | some r =>
        simp only
        split
        · rw [blockingAsync_served_ok c name keys _ s s1 r hp]
        · rw [blocking_served_ok c mode.park name keys t _ s s1 r hp]
      | none =>
        simp only
        cases hasync : mode.async with
        | true =>
          simp only [Bool.or_true, if_true]
          rw [blockingAsync_parks c name keys _ s s1 hp hin1]
          simp only
          rw [Sys.conn_updConn_same _ hc1]
          · exact ⟨trivial, ⟨_, rfl, rfl, rfl, hdb1, fun _ => rfl⟩, fun _ => rfl⟩
          · exact fun _ => rfl
        | false =>
          simp only [Bool.or_false, Bool.false_eq_true, if_false]
          unfold blocking
          have e1 := nextClock_srv s1
          have e2 := nextClock_srv (nextClock s1).2
          cases hpark : mode.park <;> by_cases ht : (t != 0) = true <;>
            simp only [hp, ht, hin1, getConn_run, if_true, if_false, Bool.false_eq_true, bind, StateT.bind, pure,
              StateT.pure, modifyConn_run]
          · rfl
          · refine ⟨rfl, ?_, fun h => by cases h⟩
            have key := parked_of_srv (e2.trans e1) c hc1
              (parkAs name keys (s1.conn c).db (some ((nextClock s1).1 + t * TICKS))) (fun _ => rfl)
            refine ⟨{ kind := name, keys := keys, db := (s1.conn c).db, deadline := some ((nextClock s1).1 + t * TICKS) },
              congrArg Conn.parked key, rfl, rfl, hdb1, fun h => ?_⟩
            rcases h with h | h
            · subst h; simp at ht
            · cases h
          · refine ⟨trivial, ?_, fun h => by cases h⟩
            rw [Sys.conn_updConn_same _ hc1]
            · exact ⟨_, rfl, rfl, rfl, hdb1, fun _ => rfl⟩
            · exact fun _ => rfl

theorem brplPass_hasConn (d : Nat) (src dst : Bytes) (first : Bool) (s : Sys) (c : Nat) (h : s.HasConn c) :
    (brpoplpushPass d src dst first s).2.HasConn c :=
  brpoplpushPass_frame (fun s' => s'.HasConn c) (fun _ _ _ h => h)
    (fun s d k h => (Sys.hasConn_mapConns s _ c (notifyFn_id d k)).2 h) d src dst first s h

/-- the `_blocking` call of BRPOPLPUSH -/
def blkB (mode : Mode) (c : Nat) (src dst : Bytes) (t : Int) (d : Nat) : M (Except Err (Option Reply)) :=
  blkG mode c "brpoplpush" [src, dst] t (fun first => brpoplpushPass d src dst first)

theorem blkB_cases (mode : Mode) (c : Nat) (src dst : Bytes) (t : Int) (d : Nat)
    (s : Sys) (hin : (s.conn c).inTx = false) (hc : s.HasConn c) :
    match (brpoplpushPass d src dst true s).1 with
    | .error e => (blkB mode c src dst t d s).1 = .error e
    | .ok (some r) => (blkB mode c src dst t d s).1 = .ok (some r)
    | .ok none =>
      if (mode.park || mode.async) = true then
        (blkB mode c src dst t d s).1 = .ok none ∧
        (∃ p, ((blkB mode c src dst t d s).2.conn c).parked = some p ∧ p.kind = "brpoplpush" ∧ p.keys = [src, dst] ∧
          p.db = (s.conn c).db ∧ (t = 0 ∨ mode.async = true → p.deadline = none)) ∧
        (mode.async = true → ((blkB mode c src dst t d s).2.conn c).paused = true)
      else (blkB mode c src dst t d s).1 = .ok (some .nil) :=
  blkG_cases mode c "brpoplpush" [src, dst] t (fun first => brpoplpushPass d src dst first) s
    ((brpoplpushPass_conn_proj Conn.inTx notifyFn_inTx d src dst true s c).trans hin)
    (brpoplpushPass_conn_proj Conn.db notifyFn_db d src dst true s c)
    (brplPass_hasConn d src dst true s c hc)

theorem brplBody_run (mode : Mode) (c : Nat) (src dst : Bytes) (t : Int) (s : Sys) :
    brplBody mode c [.raw src, .raw dst, .int t] [] s =
      match (blkB mode c src dst t (s.conn c).db s).1 with
      | .error e => (.error e, (blkB mode c src dst t (s.conn c).db s).2)
      | .ok r => (.ok (r, []), (blkB mode c src dst t (s.conn c).db s).2) := by
  unfold brplBody blkB blkG
  simp only [bind, StateT.bind, getConn_run]
  generalize (if mode.async = true then blockingAsync c "brpoplpush" [src, dst] fun first => brpoplpushPass (s.conn c).db src dst first
    else blocking c mode.park "brpoplpush" [src, dst] t fun first => brpoplpushPass (s.conn c).db src dst first) s = X
  obtain ⟨r, s2⟩ := X
  cases r <;> rfl

/-- `_run_command` of BRPOPLPUSH on a connection that is not in subscriber mode -/
theorem runCommand_brpl (mode : Mode) (c : Nat) (src dst tb : Bytes) (s : Sys) (hps : (s.conn c).pubsub = 0) :
    runCommand mode c sigBrpoplpush [src, dst, tb] false s =
      match Conv.timeout tb with
      | .error e => (some (.err (strBytes e)), s)
      | .ok t => afterSpecial (s.conn c).db [] (brplBody mode c [.raw src, .raw dst, .int t] []) s := by
  have hsc : sigBrpoplpush.name ∉ scriptNames := by decide
  have hreg : Cmd.regular sigBrpoplpush.name = none := rfl
  have hr : s.refuses c sigBrpoplpush = false := by
    unfold Sys.refuses
    simp [hps]
  have hg : runGate sigBrpoplpush false (decide ((s.conn c).pubsub > 0)) = none := by
    unfold runGate
    simp [hps]
  rw [runCommand_not_script mode c sigBrpoplpush _ false hsc, runWith_special_run _ mode c sigBrpoplpush _ false s hreg hr]
  simp only [apply_brpl, PubSubHist.set_getD_self]
  cases Conv.timeout tb with
  | error e => rfl
  | ok t =>
    simp only [hg]
    exact congrArg (fun X => afterSpecial (s.conn c).db [] X s) (special_brpoplpush _ mode c _ [])

end FR.C11s2
