import FR.Proofs.C04o
/-!
# C04, "in request order" - discharging `NoPark` (sync front-end) and `Quiet` (connection subscribed to nothing)

Part 1: `pview s` = `(id, paused)` of every connection record.  An invariant that only depends on `pview` (class
`PFrame`) is pushed through every monadic building block - the tower of `FR/Proofs/PubSubHist.lean`, with the asyncio
branch (`blockingAsync`, the only place that sets `paused := true`) cut off by `mode.async = false`.
-/
namespace FR.C04q
open FR FR.M
set_option linter.unusedSimpArgs false
set_option linter.unusedVariables false
set_option linter.unusedSectionVars false

/-- what the parser loop observes of a connection record: is it paused -/
def pkey (x : Conn) : Nat × Bool := (x.id, x.paused)

def pview (s : Sys) : List (Nat × Bool) := s.srv.conns.map pkey

/-- an invariant that depends on `pview` only -/
class PFrame (I : Sys → Prop) : Prop where
  frame : ∀ s s' : Sys, pview s' = pview s → I s → I s'

def PKeeps {α : Type} (m : M α) : Prop := ∀ s, pview (m s).2 = pview s

theorem PKeeps.pres {I : Sys → Prop} [PFrame I] {α : Type} {m : M α} (h : PKeeps m) : Pres I m :=
  fun s hs => PFrame.frame s _ (h s) hs

theorem map_pkey_congr (l : List Conn) (g : Conn → Conn) (hg : ∀ x, pkey (g x) = pkey x) :
    (l.map g).map pkey = l.map pkey := by
  rw [List.map_map]
  exact List.map_congr_left (fun x _ => hg x)

theorem pview_mapConns (s : Sys) (g : Conn → Conn) (hg : ∀ x, pkey (g x) = pkey x) :
    pview (s.mapConns g) = pview s := by
  unfold pview Sys.mapConns
  simp only [map_pkey_congr _ g hg]

theorem pview_updConn (s : Sys) (c : Nat) (f : Conn → Conn) (hf : ∀ x, pkey (f x) = pkey x) :
    pview (s.updConn c f) = pview s := by
  rw [Sys.updConn_eq_mapConns]
  apply pview_mapConns
  intro x; split
  · exact hf x
  · rfl

theorem pkey_notifyFn (d : Nat) (k : Bytes) (x : Conn) : pkey (notifyFn d k x) = pkey x := by
  unfold notifyFn; simp only; split <;> split <;> (try split) <;> rfl

section leaves
variable {I : Sys → Prop} [PFrame I]

theorem fr_getConn (c : Nat) : Pres I (getConn c) := fun _ h => h
theorem fr_get : Pres I (get : M Sys) := fun _ h => h
theorem fr_getDb (i : Nat) : Pres I (getDb i) := fun _ h => h
theorem fr_setDb (i : Nat) (db : Db) : Pres I (setDb i db) := PKeeps.pres (fun _ => rfl)

theorem fr_modifyConn (c : Nat) (f : Conn → Conn) (hf : ∀ x, pkey (f x) = pkey x) : Pres I (modifyConn c f) :=
  PKeeps.pres (fun s => pview_updConn s c f hf)

theorem fr_clearWatches (c : Nat) : Pres I (clearWatches c) := fr_modifyConn c _ (fun _ => rfl)

theorem fr_notifyWatch (d : Nat) (k : Bytes) : Pres I (notifyWatch d k) :=
  PKeeps.pres (fun s => pview_mapConns s _ (pkey_notifyFn d k))

theorem fr_fault (msg : String) : Pres I (M.fault msg) := by
  refine PKeeps.pres (fun s => ?_)
  show pview (if s.fault.isNone then { s with fault := some msg } else s) = pview s
  split <;> rfl

theorem fr_nextClock : Pres I nextClock := by
  refine PKeeps.pres (fun s => ?_)
  unfold pview
  rw [nextClock_srv]

theorem fr_modify (g : Sys → Sys) (h : ∀ s, pview (g s) = pview s) : Pres I (modify g) :=
  PKeeps.pres h

theorem fr_at_set {β : Type} {s s' : Sys} {g : PUnit → M β} (hs : I s) (h : pview s' = pview s) (hg : Pres I (g ⟨⟩)) :
    PresAt I s (set s' >>= g) :=
  hg s' (PFrame.frame s s' h hs)

theorem fr_writebackAll (d : Nat) (cis : List CI) : Pres I (writebackAll d cis) := by
  unfold writebackAll
  refine Pres.forM (fun ci => ?_)
  refine Pres.bind (fr_getDb d) (fun db => ?_)
  split
  refine Pres.bind (fr_setDb d _) (fun _ => ?_)
  split
  · exact fr_notifyWatch d ci.key
  · exact Pres.pure _

theorem fr_liveKeys (d : Nat) : Pres I (liveKeys d) := by
  unfold liveKeys
  refine Pres.bind (fr_getDb d) (fun db => ?_)
  split
  exact Pres.bind (fr_setDb d _) (fun _ => Pres.pure _)

theorem fr_clearDb (d : Nat) : Pres I (clearDb d) := by
  unfold clearDb
  refine Pres.bind (fr_liveKeys d) (fun ks => ?_)
  refine Pres.bind (Pres.forM (fun k => fr_notifyWatch d k)) (fun _ => ?_)
  exact fr_setDb d _

theorem fr_okR (r : Reply) (cis : List CI) : Pres I (okR r cis) := Pres.pure _

end leaves

/-- the leaves of the structural descent `pres`, for a `Frame` invariant -/
local macro_rules | `(tactic| pres_leaf) => `(tactic| first
  | with_reducible exact fr_getConn _
  | with_reducible exact fr_fault _
  | with_reducible exact fr_nextClock
  | with_reducible exact fr_clearWatches _
  | with_reducible exact fr_notifyWatch _ _
  | with_reducible exact fr_writebackAll _ _
  | with_reducible exact fr_liveKeys _
  | with_reducible exact fr_clearDb _
  | with_reducible exact fr_getDb _
  | with_reducible exact fr_setDb _ _
  | with_reducible exact fr_okR _ _
  | with_reducible exact fr_get
  | ((with_reducible refine fr_modifyConn _ _ ?_); exact fun _ => rfl)
  | ((with_reducible refine fr_modify _ ?_); first | exact fun _ => rfl | (intro _; split <;> rfl)))

/-! ## the special bodies -/

section tower
variable {I : Sys → Prop} [PFrame I]

theorem selectCmd_pres (c : Nat) (args : List Arg) (cis : List CI) : Pres I (selectCmd c args cis) := by
  unfold selectCmd; pres

theorem swapdbCmd_pres (args : List Arg) (cis : List CI) : Pres I (swapdbCmd args cis) := by
  unfold swapdbCmd okR; pres

theorem moveCmd_pres (d : Nat) (args : List Arg) (cis : List CI) : Pres I (moveCmd d args cis) := by
  unfold moveCmd; pres

theorem randomkeyCmd_pres (d : Nat) (cis : List CI) : Pres I (randomkeyCmd d cis) := by
  unfold randomkeyCmd okR
  refine Pres.bind (fr_liveKeys d) (fun ks => ?_)
  split
  · pres
  · refine Pres.get_bind (fun s hs => ?_)
    split
    · split
      · exact fr_at_set hs rfl (Pres.pure _)
      · refine Pres.at_of_pres ?_ hs; pres
    · refine Pres.at_of_pres ?_ hs; pres

theorem scanCmd_pres (d : Nat) (args : List Arg) (cis : List CI) : Pres I (scanCmd d args cis) := by
  unfold scanCmd; pres

theorem multiCmd_pres (c : Nat) (cis : List CI) : Pres I (multiCmd c cis) := by
  unfold multiCmd; pres

theorem discardCmd_pres (c : Nat) (cis : List CI) : Pres I (discardCmd c cis) := by
  unfold discardCmd; pres

theorem watchCmd_pres (c d : Nat) (args : List Arg) (cis : List CI) : Pres I (watchCmd c d args cis) := by
  unfold watchCmd; pres

theorem bpopPass_pres (d : Nat) (left first : Bool) (keys : List Bytes) :
    Pres I (bpopPass d left first keys) := by
  induction keys with
  | nil => unfold bpopPass; pres
  | cons k rest ih => unfold bpopPass; pres

theorem brpoplpushPass_pres (d : Nat) (src dst : Bytes) (first : Bool) :
    Pres I (brpoplpushPass d src dst first) := by
  unfold brpoplpushPass; pres

theorem blocking_pres (c : Nat) (park : Bool) (kind : String) (keys : List Bytes) (timeout : Int)
    (pass : Bool → M (Except Err (Option Reply))) (hpass : ∀ first, Pres I (pass first)) :
    Pres I (blocking c park kind keys timeout pass) := by
  have h1 := hpass true
  unfold blocking; pres

theorem runQueue_pres (inner : Inner) (hinner : ∀ sig raw, Pres I (inner sig raw)) (c : Nat)
    (q : List (String × List Bytes)) : Pres I (runQueue inner c q) := by
  induction q with
  | nil => unfold runQueue; pres
  | cons a rest ih =>
    rw [runQueue_cons]
    refine Pres.bind ?_ (fun _ => Pres.bind ih (fun _ => Pres.pure _))
    unfold queueStep
    pres

theorem execCmd_pres (inner : Inner) (hinner : ∀ sig raw, Pres I (inner sig raw)) (c : Nat) (cis : List CI) :
    Pres I (execCmd inner c cis) := by
  have hq := runQueue_pres inner hinner c
  unfold execCmd
  pres

theorem lookupKey_pres (d : Nat) (key pattern : Bytes) : Pres I (lookupKey d key pattern) := by
  unfold lookupKey; pres

end tower

local macro_rules | `(tactic| pres_leaf) => `(tactic| with_reducible exact lookupKey_pres _ _ _)

section tower
variable {I : Sys → Prop} [PFrame I]

theorem sortCmd_pres (c d : Nat) (args : List Arg) (cis : List CI) : Pres I (sortCmd c d args cis) := by
  unfold sortCmd
  split
  · extract_lets key wrong out x keyed err le jp
    split
    · pres
    · have hjp : ∀ x, Pres I (jp x) := by
        intro items?
        simp -zeta only [jp]
        split
        · pres
        · split
          · pres
          · extract_lets n start stop stop' gets sortby jp2
            have hjp2 : ∀ x, Pres I (jp2 x) := by
              intro sorted?
              simp -zeta only [jp2]
              pres
            clear_value jp2
            pres
      clear_value jp
      simp only []
      split
      · pres
      · pres
      · pres
      · refine Pres.get_bind (fun st hs => ?_)
        split
        · split
          · exact fr_at_set hs rfl (by pres)
          · refine Pres.at_of_pres ?_ hs; pres
        · refine Pres.at_of_pres ?_ hs; pres
      · pres
  · pres

set_option maxHeartbeats 1000000 in
theorem zunioninter_pres (u : Bool) (d : Nat) (args : List Arg) (cis : List CI) :
    Pres I (zunioninter u d args cis) := by
  unfold zunioninter
  split
  · pres
    all_goals
      refine Pres.loop_pure (fun b => b.2.2.2.2) _ (fun b => ?_) _
      repeat' split
      all_goals
        refine ⟨_, rfl, fun b' h => ?_⟩
        first
          | (cases h; done)
          | (have h := ForInStep.yield.inj h; subst h; simp_all <;> omega)
  · pres

theorem scriptCmd_pres (inner : Inner) (c : Nat) (name : String) (args : List Arg) (cis : List CI) :
    Pres I (scriptCmd inner c name args cis) := by
  unfold scriptCmd; pres

end tower

local macro_rules | `(tactic| pres_leaf) => `(tactic| first
  | with_reducible exact selectCmd_pres _ _ _
  | with_reducible exact swapdbCmd_pres _ _
  | with_reducible exact moveCmd_pres _ _ _
  | with_reducible exact randomkeyCmd_pres _ _
  | with_reducible exact scanCmd_pres _ _ _
  | with_reducible exact sortCmd_pres _ _ _ _
  | with_reducible exact zunioninter_pres _ _ _ _
  | with_reducible exact multiCmd_pres _ _
  | with_reducible exact discardCmd_pres _ _
  | with_reducible exact watchCmd_pres _ _ _ _
  | with_reducible exact scriptCmd_pres _ _ _ _ _
  | with_reducible exact blocking_pres _ _ _ _ _ _ (fun _ => bpopPass_pres _ _ _ _)
  | with_reducible exact blocking_pres _ _ _ _ _ _ (fun _ => brpoplpushPass_pres _ _ _ _))

/-! ## `special`, `_run_command`, scripts, `_process_command`, the parser loop, the scheduler events -/

/-- what the pview-changing primitives issued on behalf of connection `c` do to the invariant -/
structure Hyps (I : Sys → Prop) (c : Nat) : Prop where
  emit : ∀ r, Pres I (emit c r)
  pub : ∀ ch m, Pres I (publish ch m)
  sub : ∀ p names, Pres I (subscribeGen c p names)
  unsub : ∀ p names, Pres I (unsubscribeGen c p names)

/-- the commands whose body changes the tables (EXEC: may run such commands) -/
def sensitiveNames : List String :=
  ["subscribe", "psubscribe", "unsubscribe", "punsubscribe", "exec"]

section tower
variable {I : Sys → Prop} [PFrame I]

/-- every special body preserves the invariant (EXEC: provided the nested runner does) -/
theorem special_pres {c : Nat} (H : Hyps I c) (inner : Inner) (hinner : ∀ sig raw, Pres I (inner sig raw))
    (mode : Mode) (hm : mode.async = false) (name : String) (args : List Arg) (cis : List CI) :
    Pres I (special inner mode c name args cis) := by
  have hexec := execCmd_pres inner hinner c
  have hemit := H.emit
  have hpub := H.pub
  have hsub := H.sub
  have hunsub := H.unsub
  unfold special
  simp only [hm, Bool.false_eq_true, ↓reduceIte]
  refine Pres.bind (fr_getConn c) (fun conn => ?_)
  split
  all_goals pres

/-- `_run_command` preserves the invariant when the special body it may dispatch to does -/
theorem runWith_pres (special : SpecialFn) (mode : Mode) (c : Nat) (sig : Sig) (raw : List Bytes) (fromScript : Bool)
    (hsp : ∀ args cis, Pres I (special mode c sig.name args cis)) :
    Pres I (runWith special mode c sig raw fromScript) := by
  unfold runWith
  refine Pres.bind (fr_getConn c) (fun conn => ?_)
  split
  · -- refused in subscriber mode: nothing happens
    exact Pres.pure _
  refine Pres.bind (fr_getDb _) (fun db => ?_)
  extract_lets gate
  clear_value gate
  split
  · refine Pres.bind fr_get (fun s => ?_)
    extract_lets ctx o jp
    have hjp : ∀ x, Pres I (jp x) := by intro x; simp -zeta only [jp]; pres
    clear_value jp
    clear_value o
    pres
  · pres

theorem nextPick_pres : Pres I nextPick := by
  unfold nextPick
  refine Pres.get_bind (fun s hs => ?_)
  split
  · exact fr_at_set hs rfl (Pres.pure _)
  · exact Pres.at_of_pres (Pres.pure _) hs

end tower

local macro_rules | `(tactic| pres_leaf) => `(tactic| with_reducible exact nextPick_pres)

section tower
variable {I : Sys → Prop} [PFrame I]

theorem shaHint_pres : Pres I shaHint := by
  unfold shaHint; pres

end tower

local macro_rules | `(tactic| pres_leaf) => `(tactic| with_reducible exact shaHint_pres)

section tower
variable {I : Sys → Prop} [PFrame I]

theorem runFromScript_pres (special : SpecialFn) (c : Nat) (mode : Mode) (hsp : ∀ name args cis, Pres I (special mode c name args cis))
    (op : LuaVal) (args : List LuaVal) : Pres I (runFromScript special mode c op args) := by
  have hrun : ∀ sig raw, Pres I (runWith special mode c sig raw true) :=
    fun sig raw => runWith_pres special mode c sig raw true (fun _ _ => hsp _ _ _)
  unfold runFromScript
  pres

set_option maxHeartbeats 1000000 in
theorem runTrace_pres (special : SpecialFn) (c : Nat) (mode : Mode) (hsp : ∀ name args cis, Pres I (special mode c name args cis))
    (sha : Bytes) (fuel : Nat) : Pres I (runTrace special mode c sha fuel) := by
  have hcall := runFromScript_pres special c mode hsp
  induction fuel with
  | zero => unfold runTrace; pres
  | succ fuel ih => unfold runTrace; pres

theorem evalBody_pres (special : SpecialFn) (c : Nat) (mode : Mode) (hsp : ∀ name args cis, Pres I (special mode c name args cis))
    (script : Bytes) (numkeys : Int) (rest : List Bytes) :
    Pres I (evalBody special mode c script numkeys rest) := by
  have htrace := runTrace_pres special c mode hsp
  unfold evalBody; pres

theorem scriptBody_pres (special : SpecialFn) (c : Nat) (mode : Mode) (hsp : ∀ name args cis, Pres I (special mode c name args cis))
    (name : String) (args : List Arg) : Pres I (scriptBody special mode c name args) := by
  have heval := evalBody_pres special c mode hsp
  unfold scriptBody; pres

end tower

section tower
variable {I : Sys → Prop} [PFrame I]

theorem special_stub_pres {c : Nat} (H : Hyps I c) (mode : Mode) (hm : mode.async = false) (name : String)
    (args : List Arg) (cis : List CI) :
    Pres I (special (fun _ _ => do fault "nested exec"; return none) mode c name args cis) := by
  apply special_pres H _ _ mode hm
  intro sig raw
  pres

theorem runScriptCmd_pres {c : Nat} (H : Hyps I c) (mode : Mode) (hm : mode.async = false) (sig : Sig)
    (raw : List Bytes) (fromScript : Bool) :
    Pres I (runScriptCmd mode c sig raw fromScript) := by
  have hbody := scriptBody_pres _ c mode (special_stub_pres H mode hm)
  unfold runScriptCmd; pres

theorem runInner_pres {c : Nat} (H : Hyps I c) (mode : Mode) (hm : mode.async = false) (sig : Sig) (raw : List Bytes) :
    Pres I (runInner mode c sig raw) := by
  refine runInner_cases (P := fun m => Pres I m) mode c sig raw
    (fun _ => runScriptCmd_pres H mode hm sig raw false) (fun _ => ?_)
  apply runWith_pres
  intro args cis
  exact special_stub_pres H mode hm _ args cis

/-- `_run_command` for a command issued by a client -/
theorem runCommand_pres {c : Nat} (H : Hyps I c) (mode : Mode) (hm : mode.async = false) (sig : Sig) (raw : List Bytes)
    (fromScript : Bool) : Pres I (runCommand mode c sig raw fromScript) := by
  unfold runCommand
  split
  · exact runScriptCmd_pres H _ hm _ _ _
  · apply runWith_pres
    intro args cis
    exact special_pres H _ (runInner_pres H mode hm) _ hm _ _ _

/-- `_process_command`, for any request -/
theorem processCommand_pres {c : Nat} (H : Hyps I c) (hclean : Pres I cleanupClosed) (mode : Mode)
    (hm : mode.async = false) (fields : List Bytes) : Pres I (processCommand mode c fields) := by
  have hrun := runCommand_pres H mode hm
  have hemit := H.emit
  unfold processCommand
  pres

/-- the parser loop, whatever the buffer holds -/
theorem drain_pres {c : Nat} (H : Hyps I c) (hclean : Pres I cleanupClosed) (mode : Mode) (hm : mode.async = false)
    (fuel : Nat) : Pres I (drain mode c fuel) := by
  have hp := processCommand_pres H hclean mode hm
  induction fuel with
  | zero => unfold drain; pres
  | succ fuel ih => unfold drain; pres

theorem sendall_pres {c : Nat} (H : Hyps I c) (hclean : Pres I cleanupClosed) (mode : Mode) (hm : mode.async = false)
    (data : Bytes) : Pres I (sendall mode c data) := by
  have h2 := drain_pres H hclean mode hm
  unfold sendall; pres

theorem sendallGuarded_pres {c : Nat} (H : Hyps I c) (hclean : Pres I cleanupClosed) (mode : Mode)
    (hm : mode.async = false) (data : Bytes) : Pres I (sendallGuarded mode c data) := by
  have h1 := sendall_pres H hclean mode hm data
  unfold sendallGuarded; pres

end tower

/-! ## the `pview`-preserving primitives -/

section prims
variable {I : Sys → Prop} [PFrame I]

theorem pf_emit (c : Nat) (r : Reply) : Pres I (emit c r) := by
  intro s hs
  rw [emit_run]
  refine PFrame.frame s _ ?_ hs
  unfold pview; rw [Sys.emitS_srv]

theorem pf_publish (ch msg : Bytes) : Pres I (publish ch msg) := by
  intro s hs
  rw [publish_run]
  exact PFrame.frame s _ rfl hs

theorem pf_subscribeGen (c : Nat) (p : Bool) (names : List Bytes) : Pres I (subscribeGen c p names) := by
  have hemit := pf_emit (I := I) c
  unfold subscribeGen; pres

theorem pf_unsubscribeGen (c : Nat) (p : Bool) (names : List Bytes) : Pres I (unsubscribeGen c p names) := by
  have hemit := pf_emit (I := I) c
  unfold unsubscribeGen; pres

theorem pf_hyps (c : Nat) : Hyps I c := ⟨pf_emit c, pf_publish, pf_subscribeGen c, pf_unsubscribeGen c⟩

theorem foldl_forget_pview (l : List Nat) (s : Sys) : pview (l.foldl Sys.forget s) = pview s := by
  induction l generalizing s with
  | nil => rfl
  | cons a as ih =>
    rw [List.foldl_cons, ih]
    unfold pview
    rw [FR.PubSubHist.forget_conns]
    apply map_pkey_congr
    intro x; split <;> rfl

theorem pf_clean : Pres I cleanupClosed := by
  intro s hs
  refine PFrame.frame s _ ?_ hs
  rw [cleanupClosed_run]
  exact foldl_forget_pview _ s

end prims

end FR.C04q
