import FR.Proofs.C18fGrammar
/-!
# C18f helper — analysis of the model's float parser (`PyFloat.parseExp`, `parseUnsigned`, `parse`)

Main result `parseCore_iff`: after whitespace stripping, the model's parser returns `some d` exactly on the
renderings of valid parse trees (`d = modelVal L`), on signed `inf`/`infinity` words, and on signed `nan` words.
-/
namespace FR.C18f
open FR
theorem lowerByte_eq_iff (c l : UInt8) (hl : 97 ≤ l) :
    lowerByte c = l ↔ (c = l ∨ c + 32 = l ∧ 65 ≤ c ∧ c ≤ 90) := by
  unfold lowerByte
  by_cases h : (65 ≤ c && c ≤ 90) = true
  · rw [if_pos h]
    have h' : 65 ≤ c ∧ c ≤ 90 := by simpa using h
    constructor
    · intro e; exact Or.inr ⟨e, h'⟩
    · rintro (e | ⟨e, _⟩)
      · subst e
        exfalso
        have := h'.2
        rw [UInt8.le_iff_toNat_le] at this hl
        simp at this hl
        omega
      · exact e
  · rw [if_neg h]
    have h' : ¬(65 ≤ c ∧ c ≤ 90) := by simpa using h
    constructor
    · intro e; exact Or.inl e
    · rintro (e | ⟨_, h2⟩)
      · exact e
      · exact absurd h2 h'

/-- for a lower-case word `lit`, `CIEq w lit` is `w.lower() == lit` -/
theorem ciEq_iff_lower : ∀ (w lit : Bytes), (∀ l ∈ lit, 97 ≤ l) → (CIEq w lit ↔ w.map lowerByte = lit)
  | [], [], _ => by simp [CIEq]
  | [], _ :: _, _ => by simp [CIEq]
  | _ :: _, [], _ => by simp [CIEq]
  | c :: w, l :: lit, h => by
    have ih := ciEq_iff_lower w lit (fun x hx => h x (List.mem_cons_of_mem _ hx))
    have hl := h l (List.mem_cons_self ..)
    simp only [CIEq, List.map_cons, List.cons.injEq, ih, lowerByte_eq_iff c l hl]

theorem infWord_iff (w : Bytes) :
    InfWord w ↔ (w.map lowerByte == strBytes "inf" || w.map lowerByte == strBytes "infinity") = true := by
  unfold InfWord
  rw [ciEq_iff_lower _ _ (by decide), ciEq_iff_lower _ _ (by decide), lit_inf, lit_infinity]
  simp

theorem nanWord_iff (w : Bytes) : NanWord w ↔ (w.map lowerByte == strBytes "nan") = true := by
  unfold NanWord
  rw [ciEq_iff_lower _ _ (by decide), lit_nan]
  simp

/-! ## stripSpaces -/
theorem getLast?_dropWhile {α} (p : α → Bool) (l : List α) (h : l.dropWhile p ≠ []) :
    (l.dropWhile p).getLast? = l.getLast? := by
  have e : l = l.takeWhile p ++ l.dropWhile p := List.takeWhile_append_dropWhile.symm
  conv => rhs; rw [e, List.getLast?_append]
  cases hd : (l.dropWhile p).getLast? with
  | none => exact absurd (List.getLast?_eq_none_iff.mp hd) h
  | some x => rfl

theorem dropWhile_reverse_of_last {α} (p : α → Bool) (l : List α)
    (h : (l.getLast?.map p).getD false = false) : (l.reverse.dropWhile p).reverse = l := by
  cases hr : l.reverse with
  | nil => 
    have : l = [] := List.reverse_eq_nil_iff.mp hr
    subst this; rfl
  | cons a t =>
    have hl : l.getLast? = some a := by
      rw [← List.head?_reverse, hr]; rfl
    rw [hl] at h
    simp only [Option.map_some, Option.getD_some] at h
    rw [List.dropWhile_cons_of_neg (by simp [h]), ← hr, List.reverse_reverse]

theorem stripSpaces_of_last (v : Bytes) (h : (v.getLast?.map PyFloat.isSpace).getD false = false) :
    PyFloat.stripSpaces v = v.dropWhile PyFloat.isSpace := by
  unfold PyFloat.stripSpaces
  by_cases hn : v.dropWhile PyFloat.isSpace = []
  · rw [hn]; rfl
  · apply dropWhile_reverse_of_last
    rw [getLast?_dropWhile _ _ hn]
    exact h

theorem stripSpaces_of_first_last (v : Bytes) (h1 : (v.head?.map PyFloat.isSpace).getD false = false)
    (h : (v.getLast?.map PyFloat.isSpace).getD false = false) :
    PyFloat.stripSpaces v = v := by
  rw [stripSpaces_of_last v h]
  cases v with
  | nil => rfl
  | cons a t =>
    simp only [List.head?_cons, Option.map_some, Option.getD_some] at h1
    exact List.dropWhile_cons_of_neg (by simp [h1])
/-- the model's exponent value: saturates at one million -/
def clampE (ds : Bytes) : Int := if 1000000 ≤ decNat ds then 1000000 else (decNat ds : Int)

theorem digits_dropWhile {l : Bytes} (p : UInt8 → Bool) (h : Digits l) : Digits (l.dropWhile p) := by
  intro c hc
  exact h c ((List.dropWhile_suffix p).subset hc)

theorem clamp_eq (rest : Bytes) (h : Digits rest) :
    (if (rest.dropWhile (· == 48)).length > 6 then (1000000 : Int)
      else (digitsVal (rest.dropWhile (· == 48)) : Int)) = clampE rest := by
  unfold clampE
  rw [digitsVal_eq_decNat, ← decNat_dropZeros rest]
  have hd := digits_dropWhile (· == 48) h
  have hhead := List.head?_dropWhile_not (· == 48) rest
  generalize rest.dropWhile (· == 48) = ds at *
  cases ds with
  | nil => simp [decNat]
  | cons c t =>
    simp only [List.head?_cons] at hhead
    have hc : c ≠ 48 := by simpa using hhead
    have h1 := decNat_ge (rest := t) hd.head hc
    have h2 := decNat_lt _ hd
    rw [List.length_cons] at h2 ⊢
    by_cases hl : t.length + 1 > 6
    · rw [if_pos hl]
      have : 10 ^ 6 ≤ 10 ^ t.length := Nat.pow_le_pow_right (by decide) (by omega)
      rw [if_pos (by omega)]
    · rw [if_neg hl]
      have : 10 ^ (t.length + 1) ≤ 10 ^ 6 := Nat.pow_le_pow_right (by decide) (by omega)
      rw [if_neg (by omega)]

def expCore (neg : Bool) (rest : Bytes) : Option Int :=
  if rest.isEmpty || !rest.all isDigit then none
  else
    let ds := rest.dropWhile (· == 48)
    let v : Int := if ds.length > 6 then 1000000 else (digitsVal ds : Int)
    some (if neg then -v else v)

def sgnSplit (b : Bytes) : Bool × Bytes :=
  match b with
  | 43 :: r => (false, r)
  | 45 :: r => (true, r)
  | _ => (false, b)

theorem parseExp_eq' (b : Bytes) : PyFloat.parseExp b = expCore (sgnSplit b).1 (sgnSplit b).2 := rfl

theorem parseExp_eq (b : Bytes) :
    PyFloat.parseExp b = match b with
      | 43 :: r => expCore false r
      | 45 :: r => expCore true r
      | _ => expCore false b := by
  rw [parseExp_eq']
  unfold sgnSplit
  split <;> rfl

theorem expCore_digits (neg : Bool) (ds : Bytes) (h : Digits ds) (hne : ds ≠ []) :
    expCore neg ds = some (if neg then -(clampE ds) else clampE ds) := by
  unfold expCore
  have h1 : ds.isEmpty = false := by cases ds <;> simp_all
  have h2 : ds.all isDigit = true := (digits_iff_all ds).mp h
  simp only [h1, h2, Bool.not_true, Bool.or_self, Bool.false_eq_true, if_false, clamp_eq ds h]

theorem expCore_some {neg : Bool} {rest : Bytes} {v : Int} (h : expCore neg rest = some v) :
    Digits rest ∧ rest ≠ [] := by
  unfold expCore at h
  split at h
  · cases h
  · rename_i hc
    simp only [Bool.or_eq_true, Bool.not_eq_eq_eq_not, Bool.not_true, not_or, Bool.not_eq_false] at hc
    refine ⟨(digits_iff_all rest).mpr hc.2, ?_⟩
    intro e; subst e; simp at hc

theorem parseExp_render (sg : Sgn) (ds : Bytes) (h : Digits ds) (hne : ds ≠ []) :
    PyFloat.parseExp (sg.bytes ++ ds) = some (if sg.neg then -(clampE ds) else clampE ds) := by
  rw [parseExp_eq]
  cases sg with
  | plus => exact expCore_digits false ds h hne
  | minus => exact expCore_digits true ds h hne
  | none =>
    cases ds with
    | nil => exact absurd rfl hne
    | cons c t =>
      have hc := h.head
      unfold IsDig at hc
      show (match c :: t with
        | 43 :: r => expCore false r
        | 45 :: r => expCore true r
        | _ => expCore false (c :: t)) = _
      split
      · rename_i heq; cases heq; exact absurd hc (by decide)
      · rename_i heq; cases heq; exact absurd hc (by decide)
      · exact expCore_digits false _ h hne

theorem parseExp_some {b : Bytes} {v : Int} (h : PyFloat.parseExp b = some v) :
    ∃ sg ds, Digits ds ∧ ds ≠ [] ∧ b = Sgn.bytes sg ++ ds := by
  rw [parseExp_eq] at h
  split at h
  · obtain ⟨h1, h2⟩ := expCore_some h; exact ⟨.plus, _, h1, h2, rfl⟩
  · obtain ⟨h1, h2⟩ := expCore_some h; exact ⟨.minus, _, h1, h2, rfl⟩
  · obtain ⟨h1, h2⟩ := expCore_some h; exact ⟨.none, _, h1, h2, rfl⟩

def fracSplit (r1 : Bytes) : Bytes × Bytes :=
  match r1 with
  | 46 :: r => (r.takeWhile isDigit, r.dropWhile isDigit)
  | _ => ([], r1)

def expOpt (r2 : Bytes) : Option Int :=
  match r2 with
  | [] => some 0
  | c :: r => if c == 101 || c == 69 then PyFloat.parseExp r else none

def decCore (neg : Bool) (b : Bytes) : Option Dbl :=
  let ip := b.takeWhile isDigit
  let fr := fracSplit (b.dropWhile isDigit)
  if ip.isEmpty && fr.1.isEmpty then none
  else
    match expOpt fr.2 with
    | none => none
    | some ex => some (Dbl.ofDecimal neg (digitsVal (ip ++ fr.1)) (ex - (fr.1.length : Int)))

theorem parseUnsigned_eq (neg : Bool) (b : Bytes) :
    PyFloat.parseUnsigned neg b =
      if (b.map lowerByte == strBytes "inf" || b.map lowerByte == strBytes "infinity") = true then some (.inf neg)
      else if (b.map lowerByte == strBytes "nan") = true then some .nan
      else decCore neg b := rfl

/-- `rest` does not start with a digit -/
def NoDigHead (rest : Bytes) : Prop := ∀ c, rest.head? = some c → isDigit c = false

theorem takeWhile_digits_append {ip rest : Bytes} (h : Digits ip) (hr : NoDigHead rest) :
    (ip ++ rest).takeWhile isDigit = ip := by
  rw [List.takeWhile_append_of_pos (fun c hc => (isDig_iff c).mpr (h c hc))]
  cases rest with
  | nil => simp
  | cons c t =>
    have := hr c rfl
    rw [List.takeWhile_cons, if_neg (by simp [this]), List.append_nil]

theorem dropWhile_digits_append {ip rest : Bytes} (h : Digits ip) (hr : NoDigHead rest) :
    (ip ++ rest).dropWhile isDigit = rest := by
  rw [List.dropWhile_append_of_pos (fun c hc => (isDig_iff c).mpr (h c hc))]
  cases rest with
  | nil => rfl
  | cons c t =>
    have := hr c rfl
    exact List.dropWhile_cons_of_neg (by simp [this])

theorem noDigHead_dropWhile (l : Bytes) : NoDigHead (l.dropWhile isDigit) := by
  intro c hc
  have := List.head?_dropWhile_not isDigit l
  rw [hc] at this
  exact this

theorem noDigHead_nil : NoDigHead [] := fun _ h => by cases h
theorem noDigHead_cons {c : UInt8} {t : Bytes} (h : isDigit c = false) : NoDigHead (c :: t) := by
  intro x hx; cases hx; exact h

/-- the model's clamped exponent of a parse tree -/
def expoC (L : DecLit) : Int :=
  match L.exp with
  | none => 0
  | some x => if x.sign.neg then -(clampE x.digits) else clampE x.digits

/-- the double the model computes for a parse tree -/
def modelVal (L : DecLit) : Dbl := Dbl.ofDecimal L.sign.neg L.mant (expoC L - (L.fp.length : Int))

theorem noDigHead_expBytes (L : DecLit) (hv : L.Valid) : NoDigHead L.expBytes := by
  unfold DecLit.expBytes
  cases he : L.exp with
  | none => exact noDigHead_nil
  | some x =>
    obtain ⟨hl, _, _⟩ := hv.2.2.2 x he
    apply noDigHead_cons
    rcases hl with h | h <;> rw [h] <;> rfl

theorem expBytes_not46 (L : DecLit) (hv : L.Valid) (r : Bytes) : L.expBytes ≠ 46 :: r := by
  unfold DecLit.expBytes
  cases he : L.exp with
  | none => simp
  | some x =>
    obtain ⟨hl, _, _⟩ := hv.2.2.2 x he
    intro h
    injection h with h1 _
    rcases hl with h | h <;> rw [h] at h1 <;> exact absurd h1 (by decide)

theorem expOpt_expBytes (L : DecLit) (hv : L.Valid) : expOpt L.expBytes = some (expoC L) := by
  unfold DecLit.expBytes expoC
  cases he : L.exp with
  | none => rfl
  | some x =>
    obtain ⟨hl, hd, hne⟩ := hv.2.2.2 x he
    have : (x.letter == 101 || x.letter == 69) = true := by
      rcases hl with h | h <;> rw [h] <;> rfl
    simp only [expOpt, this, if_true]
    exact parseExp_render x.sign x.digits hd hne

theorem decCore_render (neg : Bool) (L : DecLit) (hv : L.Valid) :
    decCore neg (L.ip ++ (L.fracBytes ++ L.expBytes)) =
      some (Dbl.ofDecimal neg L.mant (expoC L - (L.fp.length : Int))) := by
  obtain ⟨hip, hfp, hne, hexp⟩ := hv
  have hE := noDigHead_expBytes L ⟨hip, hfp, hne, hexp⟩
  have hX := expOpt_expBytes L ⟨hip, hfp, hne, hexp⟩
  have h46' := expBytes_not46 L ⟨hip, hfp, hne, hexp⟩
  unfold decCore
  unfold DecLit.fracBytes DecLit.mant DecLit.fp at *
  cases hf : L.frac with
  | none =>
    rw [hf] at hfp hne
    simp only [Option.getD_none, List.nil_append, List.append_nil, List.length_nil] at *
    rw [takeWhile_digits_append hip hE, dropWhile_digits_append hip hE]
    have hfs : fracSplit L.expBytes = ([], L.expBytes) := by
      unfold fracSplit
      split
      · rename_i r heq
        exact absurd heq (h46' r)
      · rfl
    rw [hfs]
    have : L.ip.isEmpty = false := by
      cases h : L.ip with
      | nil => exact absurd h (by simpa using hne)
      | cons _ _ => rfl
    simp only [this, Bool.false_and, Bool.false_eq_true, if_false, hX, List.append_nil, List.length_nil,
      digitsVal_eq_decNat]
  | some f =>
    rw [hf] at hfp hne
    simp only [Option.getD_some] at *
    have h46 : NoDigHead (46 :: (f ++ L.expBytes)) := noDigHead_cons (by decide)
    rw [show (46 :: f ++ L.expBytes) = 46 :: (f ++ L.expBytes) from rfl,
      takeWhile_digits_append hip h46, dropWhile_digits_append hip h46]
    have hfs : fracSplit (46 :: (f ++ L.expBytes)) = (f, L.expBytes) := by
      show ((f ++ L.expBytes).takeWhile isDigit, (f ++ L.expBytes).dropWhile isDigit) = _
      rw [takeWhile_digits_append hfp hE, dropWhile_digits_append hfp hE]
    rw [hfs]
    have : (L.ip.isEmpty && f.isEmpty) = false := by
      cases h1 : L.ip with
      | nil =>
        cases h2 : f with
        | nil => rw [h1, h2] at hne; simp at hne
        | cons _ _ => rfl
      | cons _ _ => rfl
    simp only [this, Bool.false_eq_true, if_false, hX, digitsVal_eq_decNat]

theorem expOpt_some {r2 : Bytes} {ex : Int} (h : expOpt r2 = some ex) :
    ∃ exp : Option ExpPart,
      (∀ x, exp = some x → (x.letter = 101 ∨ x.letter = 69) ∧ Digits x.digits ∧ x.digits ≠ []) ∧
      r2 = (DecLit.mk .none [] none exp).expBytes := by
  unfold expOpt at h
  split at h
  · exact ⟨none, fun x hx => (by cases hx), rfl⟩
  · rename_i c r
    split at h
    · rename_i hc
      obtain ⟨sg, ds, hd, hne, hb⟩ := parseExp_some h
      refine ⟨some ⟨c, sg, ds⟩, ?_, by rw [hb]; rfl⟩
      intro x hx
      cases hx
      exact ⟨by simpa using hc, hd, hne⟩
    · cases h

theorem decCore_some {neg : Bool} {b : Bytes} {d : Dbl} (h : decCore neg b = some d) :
    ∃ L : DecLit, L.sign = .none ∧ L.Valid ∧ b = L.ip ++ (L.fracBytes ++ L.expBytes) := by
  unfold decCore at h
  simp only [] at h
  split at h
  · cases h
  · rename_i hne
    split at h
    · cases h
    · rename_i ex hex
      clear h
      obtain ⟨exp, hexp, hr2⟩ := expOpt_some hex
      have hb : b = b.takeWhile isDigit ++ b.dropWhile isDigit := List.takeWhile_append_dropWhile.symm
      have hip := digits_takeWhile b
      generalize b.takeWhile isDigit = ip at *
      generalize b.dropWhile isDigit = r1 at *
      unfold fracSplit at hne hr2
      split at hne
      · rename_i r
        simp only [] at hne hr2
        refine ⟨⟨.none, ip, some (r.takeWhile isDigit), exp⟩, rfl, ⟨hip, digits_takeWhile r, ?_, hexp⟩, ?_⟩
        · simp only [DecLit.fp, Option.getD_some]
          cases h1 : ip with
          | nil =>
            cases h2 : r.takeWhile isDigit with
            | nil => rw [h1, h2] at hne; simp at hne
            | cons _ _ => exact Or.inr (by simp)
          | cons _ _ => exact Or.inl (by simp)
        · rw [hb]
          show ip ++ 46 :: r = ip ++ (46 :: r.takeWhile isDigit ++ _)
          have : (DecLit.mk .none ip (some (r.takeWhile isDigit)) exp).expBytes =
              (DecLit.mk .none [] none exp).expBytes := rfl
          rw [this, ← hr2]
          simp
      · simp only [] at hne hr2
        refine ⟨⟨.none, ip, none, exp⟩, rfl, ⟨hip, Digits.nil, ?_, hexp⟩, ?_⟩
        · cases h1 : ip with
          | nil => rw [h1] at hne; simp at hne
          | cons _ _ => exact Or.inl (by simp)
        · rw [hb]
          show ip ++ r1 = ip ++ ([] ++ _)
          have : (DecLit.mk .none ip none exp).expBytes = (DecLit.mk .none [] none exp).expBytes := rfl
          rw [this, ← hr2]
          rfl


/-! ## the whole parser -/

/-- `PyFloat.parse` after the whitespace has been stripped -/
def parseCore (s : Bytes) : Option Dbl :=
  match s with
  | 43 :: r => PyFloat.parseUnsigned false r
  | 45 :: r => PyFloat.parseUnsigned true r
  | _ => PyFloat.parseUnsigned false s

theorem parse_eq (b : Bytes) : PyFloat.parse b = parseCore (PyFloat.stripSpaces b) := rfl

/-- what the model's parser accepts, and with which value -/
def Core (s : Bytes) (d : Dbl) : Prop :=
  (∃ L : DecLit, L.Valid ∧ s = L.render ∧ d = modelVal L) ∨
  (∃ (sg : Sgn) (w : Bytes), InfWord w ∧ s = sg.bytes ++ w ∧ d = .inf sg.neg) ∨
  (∃ (sg : Sgn) (w : Bytes), NanWord w ∧ s = sg.bytes ++ w ∧ d = .nan)

/-- the unsigned part of a literal -/
def DecLit.body (L : DecLit) : Bytes := L.ip ++ (L.fracBytes ++ L.expBytes)

theorem render_eq (L : DecLit) : L.render = L.sign.bytes ++ L.body := rfl

/-- the first byte of the body of a valid literal is a digit or the point -/
theorem body_head (L : DecLit) (hv : L.Valid) : ∃ c t, L.body = c :: t ∧ (IsDig c ∨ c = 46) := by
  obtain ⟨hip, hfp, hne, _⟩ := hv
  unfold DecLit.body DecLit.fracBytes
  unfold DecLit.fp at hfp hne
  cases h1 : L.ip with
  | cons c t => exact ⟨c, _, rfl, Or.inl (by rw [h1] at hip; exact hip.head)⟩
  | nil =>
    cases h2 : L.frac with
    | none => rw [h1, h2] at hne; simp at hne
    | some f => exact ⟨46, _, rfl, Or.inr rfl⟩

theorem not_ciEq_of_head {c l : UInt8} {t lit : Bytes} (hc : IsDig c ∨ c = 46) (hl : 97 ≤ l) :
    ¬ CIEq (c :: t) (l :: lit) := by
  intro h
  have h1 := h.1
  have hc' : c.toNat ≤ 57 := by
    rcases hc with h | h
    · exact h.2
    · rw [h]; decide
  have hl' : 97 ≤ l.toNat := hl
  rcases h1 with e | ⟨_, h65, _⟩
  · rw [e] at hc'; omega
  · have : 65 ≤ c.toNat := h65
    omega

theorem body_not_word (L : DecLit) (hv : L.Valid) : ¬ InfWord L.body ∧ ¬ NanWord L.body := by
  obtain ⟨c, t, hb, hc⟩ := body_head L hv
  rw [hb]
  refine ⟨?_, ?_⟩
  · rintro (h | h) <;> exact not_ciEq_of_head hc (by decide) h
  · exact not_ciEq_of_head hc (by decide)

theorem parseUnsigned_body (neg : Bool) (L : DecLit) (hv : L.Valid) :
    PyFloat.parseUnsigned neg L.body = some (Dbl.ofDecimal neg L.mant (expoC L - (L.fp.length : Int))) := by
  obtain ⟨h1, h2⟩ := body_not_word L hv
  rw [infWord_iff] at h1
  rw [nanWord_iff] at h2
  rw [parseUnsigned_eq, if_neg h1, if_neg h2]
  exact decCore_render neg L hv

theorem parseUnsigned_inf (neg : Bool) (w : Bytes) (h : InfWord w) : PyFloat.parseUnsigned neg w = some (.inf neg) := by
  rw [parseUnsigned_eq, if_pos ((infWord_iff w).mp h)]

theorem not_inf_of_nan {w : Bytes} (h : NanWord w) : ¬ InfWord w := by
  cases w with
  | nil => exact fun h' => by rcases h' with h' | h' <;> exact h'
  | cons c t =>
    intro h'
    have h1 : c = 110 ∨ c + 32 = 110 ∧ 65 ≤ c ∧ c ≤ 90 := h.1
    have h2 : c = 105 ∨ c + 32 = 105 ∧ 65 ≤ c ∧ c ≤ 90 := by
      rcases h' with h' | h' <;> exact h'.1
    rcases h1 with e1 | ⟨e1, _⟩ <;> rcases h2 with e2 | ⟨e2, _⟩
    · rw [e1] at e2; exact absurd e2 (by decide)
    · rw [e1] at e2; exact absurd e2 (by decide)
    · rw [e2] at e1; exact absurd e1 (by decide)
    · rw [e1] at e2; exact absurd e2 (by decide)

theorem parseUnsigned_nan (neg : Bool) (w : Bytes) (h : NanWord w) : PyFloat.parseUnsigned neg w = some .nan := by
  have h1 := not_inf_of_nan h
  rw [infWord_iff] at h1
  rw [parseUnsigned_eq, if_neg h1, if_pos ((nanWord_iff w).mp h)]

/-- everything `parseUnsigned` accepts -/
theorem parseUnsigned_some {neg : Bool} {b : Bytes} {d : Dbl} (h : PyFloat.parseUnsigned neg b = some d) :
    (∃ L : DecLit, L.sign = .none ∧ L.Valid ∧ b = L.body ∧ d = Dbl.ofDecimal neg L.mant (expoC L - (L.fp.length : Int))) ∨
    (InfWord b ∧ d = .inf neg) ∨ (NanWord b ∧ d = .nan) := by
  rw [parseUnsigned_eq] at h
  split at h
  · rename_i hi
    cases h
    exact Or.inr (Or.inl ⟨(infWord_iff b).mpr hi, rfl⟩)
  · split at h
    · rename_i hn
      cases h
      exact Or.inr (Or.inr ⟨(nanWord_iff b).mpr hn, rfl⟩)
    · obtain ⟨L, hs, hv, hb⟩ := decCore_some h
      refine Or.inl ⟨L, hs, hv, hb, ?_⟩
      have := decCore_render neg L hv
      rw [← hb, h] at this
      exact Option.some.inj this

/-- the first byte of a word is a letter -/
theorem word_head {w : Bytes} (h : InfWord w ∨ NanWord w) : ∃ c t, w = c :: t ∧ 65 ≤ c := by
  cases w with
  | nil => rcases h with (h | h) | h <;> exact h.elim
  | cons c t =>
    refine ⟨c, t, rfl, ?_⟩
    have : ∃ l : UInt8, 97 ≤ l ∧ (c = l ∨ c + 32 = l ∧ 65 ≤ c ∧ c ≤ 90) := by
      rcases h with (h | h) | h
      · exact ⟨_, by decide, h.1⟩
      · exact ⟨_, by decide, h.1⟩
      · exact ⟨_, by decide, h.1⟩
    obtain ⟨l, hl, h1⟩ := this
    rcases h1 with e | ⟨_, h65, _⟩
    · rw [e]
      have hl' : 97 ≤ l.toNat := hl
      show (65 : UInt8).toNat ≤ l.toNat
      have : (65 : UInt8).toNat = 65 := rfl
      omega
    · exact h65

theorem parseCore_of_head {c : UInt8} {t : Bytes} (h1 : c ≠ 43) (h2 : c ≠ 45) :
    parseCore (c :: t) = PyFloat.parseUnsigned false (c :: t) := by
  unfold parseCore
  split
  · rename_i heq; cases heq; exact absurd rfl h1
  · rename_i heq; cases heq; exact absurd rfl h2
  · rfl

theorem parseCore_sign (sg : Sgn) {c : UInt8} {t : Bytes} (h1 : c ≠ 43) (h2 : c ≠ 45) :
    parseCore (sg.bytes ++ c :: t) = PyFloat.parseUnsigned sg.neg (c :: t) := by
  cases sg with
  | none => exact parseCore_of_head h1 h2
  | plus => rfl
  | minus => rfl

theorem parseCore_iff (s : Bytes) (d : Dbl) : parseCore s = some d ↔ Core s d := by
  constructor
  · intro h
    have key : ∀ (sg : Sgn) (r : Bytes), s = sg.bytes ++ r → PyFloat.parseUnsigned sg.neg r = some d → Core s d := by
      intro sg r hs hp
      rcases parseUnsigned_some hp with ⟨L, hsn, hv, hb, hd⟩ | ⟨hw, hd⟩ | ⟨hw, hd⟩
      · refine Or.inl ⟨{ L with sign := sg }, hv, ?_, hd⟩
        rw [hs, hb]; rfl
      · exact Or.inr (Or.inl ⟨sg, r, hw, hs, hd⟩)
      · exact Or.inr (Or.inr ⟨sg, r, hw, hs, hd⟩)
    unfold parseCore at h
    split at h
    · exact key .plus _ rfl h
    · exact key .minus _ rfl h
    · exact key .none _ rfl h
  · rintro (⟨L, hv, hs, hd⟩ | ⟨sg, w, hw, hs, hd⟩ | ⟨sg, w, hw, hs, hd⟩)
    · obtain ⟨c, t, hb, hc⟩ := body_head L hv
      have h1 : c ≠ 43 := by rintro rfl; rcases hc with h | h <;> exact absurd h (by decide)
      have h2 : c ≠ 45 := by rintro rfl; rcases hc with h | h <;> exact absurd h (by decide)
      rw [hs, render_eq, hb, parseCore_sign _ h1 h2, ← hb, hd]
      exact parseUnsigned_body _ L hv
    · obtain ⟨c, t, hb, hc⟩ := word_head (Or.inl hw)
      have h1 : c ≠ 43 := by rintro rfl; exact absurd hc (by decide)
      have h2 : c ≠ 45 := by rintro rfl; exact absurd hc (by decide)
      rw [hs, hb, parseCore_sign _ h1 h2, ← hb, hd]
      exact parseUnsigned_inf _ w hw
    · obtain ⟨c, t, hb, hc⟩ := word_head (Or.inr hw)
      have h1 : c ≠ 43 := by rintro rfl; exact absurd hc (by decide)
      have h2 : c ≠ 45 := by rintro rfl; exact absurd hc (by decide)
      rw [hs, hb, parseCore_sign _ h1 h2, ← hb, hd]
      exact parseUnsigned_nan _ w hw


/-! ## the parse tree of a string is unique -/

theorem digits_split_unique {a a' r r' : Bytes} (ha : Digits a) (ha' : Digits a') (hr : NoDigHead r)
    (hr' : NoDigHead r') (h : a ++ r = a' ++ r') : a = a' ∧ r = r' := by
  have h1 := takeWhile_digits_append ha hr
  have h2 := dropWhile_digits_append ha hr
  rw [h, takeWhile_digits_append ha' hr'] at h1
  rw [h, dropWhile_digits_append ha' hr'] at h2
  exact ⟨h1.symm, h2.symm⟩

/-- a sign followed by something that does not start with `+`/`-` splits uniquely -/
theorem sign_split_unique {s s' : Sgn} {r r' : Bytes}
    (hr : ∀ c t, r = c :: t → c ≠ 43 ∧ c ≠ 45) (hr' : ∀ c t, r' = c :: t → c ≠ 43 ∧ c ≠ 45)
    (h : s.bytes ++ r = s'.bytes ++ r') : s = s' ∧ r = r' := by
  cases s <;> cases s' <;> simp only [Sgn.bytes, List.nil_append, List.cons_append] at h
  · exact ⟨rfl, h⟩
  · exact absurd rfl (hr _ _ h).1
  · exact absurd rfl (hr _ _ h).2
  · exact absurd rfl (hr' _ _ h.symm).1
  · exact ⟨rfl, (List.cons.inj h).2⟩
  · exact absurd (List.cons.inj h).1 (by decide)
  · exact absurd rfl (hr' _ _ h.symm).2
  · exact absurd (List.cons.inj h).1 (by decide)
  · exact ⟨rfl, (List.cons.inj h).2⟩

theorem digits_head_not_sign {ds : Bytes} (h : Digits ds) : ∀ c t, ds = c :: t → c ≠ 43 ∧ c ≠ 45 := by
  intro c t e
  subst e
  have := h.head
  constructor <;> (rintro rfl; exact absurd this (by decide))

theorem noDigHead_frac_exp (L : DecLit) (hv : L.Valid) : NoDigHead (L.fracBytes ++ L.expBytes) := by
  unfold DecLit.fracBytes
  cases L.frac with
  | none => exact noDigHead_expBytes L hv
  | some f => exact noDigHead_cons (by decide)

theorem expBytes_inj {L L' : DecLit} (hv : L.Valid) (hv' : L'.Valid) (h : L.expBytes = L'.expBytes) :
    L.exp = L'.exp := by
  unfold DecLit.expBytes at h
  cases he : L.exp with
  | none =>
    cases he' : L'.exp with
    | none => rfl
    | some x' => rw [he, he'] at h; cases h
  | some x =>
    cases he' : L'.exp with
    | none => rw [he, he'] at h; cases h
    | some x' =>
      rw [he, he'] at h
      obtain ⟨_, hd, hne⟩ := hv.2.2.2 x he
      obtain ⟨_, hd', hne'⟩ := hv'.2.2.2 x' he'
      injection h with h1 h2
      obtain ⟨h3, h4⟩ := sign_split_unique (digits_head_not_sign hd) (digits_head_not_sign hd') h2
      cases x; cases x'
      simp only at h1 h3 h4
      rw [h1, h3, h4]

/-- UNIQUE READING: two valid parse trees with the same bytes are equal -/
theorem render_injective {L L' : DecLit} (hv : L.Valid) (hv' : L'.Valid) (h : L.render = L'.render) : L = L' := by
  have hb : ∀ (M : DecLit), M.Valid → ∀ c t, M.body = c :: t → c ≠ 43 ∧ c ≠ 45 := by
    intro M hM c t e
    obtain ⟨c', t', hb, hc⟩ := body_head M hM
    rw [hb] at e
    cases e
    constructor <;> (rintro rfl; rcases hc with h | h <;> exact absurd h (by decide))
  rw [render_eq, render_eq] at h
  obtain ⟨hs, hbody⟩ := sign_split_unique (hb L hv) (hb L' hv') h
  unfold DecLit.body at hbody
  obtain ⟨hip, hrest⟩ := digits_split_unique hv.1 hv'.1 (noDigHead_frac_exp L hv) (noDigHead_frac_exp L' hv') hbody
  have hfe : L.frac = L'.frac ∧ L.expBytes = L'.expBytes := by
    have hfp := hv.2.1
    have hfp' := hv'.2.1
    cases hf : L.frac with
    | none =>
      cases hf' : L'.frac with
      | none =>
        simp only [DecLit.fracBytes, hf, hf', List.nil_append] at hrest
        exact ⟨rfl, hrest⟩
      | some f' =>
        simp only [DecLit.fracBytes, hf, hf', List.nil_append, List.cons_append] at hrest
        exact absurd hrest (expBytes_not46 L hv _)
    | some f =>
      cases hf' : L'.frac with
      | none =>
        simp only [DecLit.fracBytes, hf, hf', List.nil_append, List.cons_append] at hrest
        exact absurd hrest.symm (expBytes_not46 L' hv' _)
      | some f' =>
        simp only [DecLit.fracBytes, hf, hf', List.cons_append] at hrest
        simp only [DecLit.fp, hf, Option.getD_some] at hfp
        simp only [DecLit.fp, hf', Option.getD_some] at hfp'
        have := digits_split_unique hfp hfp' (noDigHead_expBytes L hv) (noDigHead_expBytes L' hv')
          (List.cons.inj hrest).2
        exact ⟨by rw [this.1], this.2⟩
  have hexp := expBytes_inj hv hv' hfe.2
  cases L; cases L'
  simp only at hs hip hfe hexp
  rw [hs, hip, hfe.1, hexp]

end FR.C18f
