import FR.Proofs.C18aMono
import FR.Proofs.C18fRun
import FR.Props.C03z
/-!
# C18a helper — from the arithmetic to INCRBYFLOAT / HINCRBYFLOAT / ZINCRBY
-/
namespace FR.C18a
open FR FR.C18f FR.DumpRound

theorem isFinite_iff (d : Dbl) : d.isFinite = true ↔ d.isNaN = false ∧ d.isInf = false := by
  cases d <;> simp [Dbl.isFinite, Dbl.isNaN, Dbl.isInf]

/-- the rounding of `q` is finite iff `|q|` is below the overflow threshold -/
theorem RN_isFinite_iff (z : Bool) (q : ℚ) :
    (Dbl.RN z q).isFinite = true ↔ |q| < (2 : ℚ) ^ 1024 - (2 : ℚ) ^ 970 := by
  rw [isFinite_iff, ← not_le, ← RN_isInf_iff z q]
  have := RN_not_nan z q
  constructor
  · rintro ⟨_, h⟩; rw [h]; exact Bool.false_ne_true
  · intro h; exact ⟨this, by simpa using h⟩

theorem toRat_of_finite {d : Dbl} (h : d.isFinite = true) : ∃ x, d.toRat = some x := by
  cases d with
  | nan => cases h
  | inf _ => cases h
  | fin n m e => exact ⟨_, rfl⟩

/-- a finite sum has finite operands -/
theorem add_finite_operands {a b : Dbl} (h : (Dbl.add a b).isFinite = true) :
    a.isFinite = true ∧ b.isFinite = true := by
  cases a with
  | nan => cases b <;> cases h
  | inf x =>
    cases b with
    | nan => cases h
    | inf y => cases x <;> cases y <;> cases h
    | fin _ _ _ => cases h
  | fin n1 m1 e1 =>
    cases b with
    | nan => cases h
    | inf y => cases h
    | fin n2 m2 e2 => exact ⟨rfl, rfl⟩

/-- when an operand is not finite, neither is the sum -/
theorem add_not_finite {a b : Dbl} (h : a.isFinite = false ∨ b.isFinite = false) : (Dbl.add a b).isFinite = false := by
  cases hf : (Dbl.add a b).isFinite with
  | false => rfl
  | true =>
    obtain ⟨h1, h2⟩ := add_finite_operands hf
    rcases h with h | h
    · rw [h1] at h; cases h
    · rw [h2] at h; cases h

/-- the score ZINCRBY computes is a NaN exactly for `inf + (-inf)` -/
theorem incrScore_nan_iff {z : ZSet} (hz : z.Inv) (m : Bytes) {incr : Dbl} (hi : incr.isNaN = false) :
    (ZCmd.incrScore z m incr).isNaN = true ↔ ∃ s, z.get m = some (.inf s) ∧ incr = .inf (!s) := by
  unfold ZCmd.incrScore
  cases hg : z.get m with
  | none =>
    simp only
    rw [hi]
    constructor
    · intro h; cases h
    · rintro ⟨s, h, _⟩; cases h
  | some old =>
    simp only
    have hold : old.isNaN = false :=
      hz.2.2.2 (old, m) ((ZSet.get_iff_mem_byscore hz).mp hg)
    have key : (Dbl.add old incr).isNaN = true ↔ Dbl.add old incr = .nan := by
      cases Dbl.add old incr <;> simp [Dbl.isNaN]
    rw [key, add_eq_nan_iff]
    constructor
    · rintro (h | h | ⟨s, h1, h2⟩)
      · subst h; cases hold
      · subst h; cases hi
      · exact ⟨s, by rw [h1], h2⟩
    · rintro ⟨s, h1, h2⟩
      injection h1 with h1
      exact Or.inr (Or.inr ⟨s, h1, h2⟩)

end FR.C18a
