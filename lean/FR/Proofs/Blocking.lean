import FR.Proofs.System
import FR.Proofs.Runner
/-!
# Helper lemmas for C11 — blocking pops (BLPOP / BRPOP / BRPOPLPUSH), parking and wake-ups
-/
namespace FR
open M Db
set_option linter.unusedSimpArgs false
set_option linter.unusedVariables false

/-! ## pure list level -/

theorem popLeftN_one {l : List Bytes} (h : l ≠ []) :
    ∃ x rem, Cmd.popLeftN l 1 = ([x], rem) ∧ x :: rem = l := by
  cases l with
  | nil => exact absurd rfl h
  | cons x rem => exact ⟨x, rem, rfl, rfl⟩

theorem popRightN_one {l : List Bytes} (h : l ≠ []) :
    ∃ x rem, Cmd.popRightN l 1 = ([x], rem) ∧ rem ++ [x] = l := by
  rcases List.eq_nil_or_concat l with h' | ⟨rem, x, rfl⟩
  · exact absurd h' h
  · refine ⟨x, rem, ?_, by simp⟩
    simp [Cmd.popRightN]

/-! ## state level vocabulary -/

/-- database `i` as `getDb i` returns it -/
def Sys.dbAt (s : Sys) (i : Nat) : Db := ⟨s.srv.dbs.getD i [], s.srv.time⟩

def Sys.setDbS (s : Sys) (i : Nat) (db : Db) : Sys :=
  { s with srv := { s.srv with dbs := s.srv.dbs.set i db.dict } }

theorem getDb_run' (i : Nat) (s : Sys) : getDb i s = (s.dbAt i, s) := rfl
theorem setDb_run' (i : Nat) (db : Db) (s : Sys) : setDb i db s = ((), s.setDbS i db) := rfl

@[simp] theorem Sys.setDbS_conns (s : Sys) (i db) : (s.setDbS i db).srv.conns = s.srv.conns := rfl
@[simp] theorem Sys.setDbS_out (s : Sys) (i db) : (s.setDbS i db).out = s.out := rfl
@[simp] theorem Sys.setDbS_clocks (s : Sys) (i db) : (s.setDbS i db).clocks = s.clocks := rfl
@[simp] theorem Sys.setDbS_time (s : Sys) (i db) : (s.setDbS i db).srv.time = s.srv.time := rfl
@[simp] theorem Sys.setDbS_len (s : Sys) (i db) : (s.setDbS i db).srv.dbs.length = s.srv.dbs.length := by
  simp [Sys.setDbS]
theorem Sys.setDbS_conn (s : Sys) (i db c) : (s.setDbS i db).conn c = s.conn c := rfl
theorem Sys.setDbS_hasConn (s : Sys) (i db c) : (s.setDbS i db).HasConn c ↔ s.HasConn c := Iff.rfl

@[simp] theorem Sys.mapConns_dbs (s : Sys) (g) : (s.mapConns g).srv.dbs = s.srv.dbs := rfl
@[simp] theorem Sys.mapConns_out (s : Sys) (g) : (s.mapConns g).out = s.out := rfl
@[simp] theorem Sys.mapConns_clocks (s : Sys) (g) : (s.mapConns g).clocks = s.clocks := rfl
@[simp] theorem Sys.mapConns_time (s : Sys) (g) : (s.mapConns g).srv.time = s.srv.time := rfl
@[simp] theorem Sys.mapConns_dbAt (s : Sys) (g i) : (s.mapConns g).dbAt i = s.dbAt i := rfl

theorem Sys.setDbS_dbAt_self (s : Sys) (i : Nat) (db : Db) (hi : i < s.srv.dbs.length)
    (ht : db.time = s.srv.time) : (s.setDbS i db).dbAt i = db := by
  unfold Sys.dbAt Sys.setDbS
  simp only [getD_set_self _ _ _ _ hi]
  rw [← ht]

theorem Sys.setDbS_dbAt_ne (s : Sys) (i j : Nat) (db : Db) (h : j ≠ i) :
    (s.setDbS i db).dbAt j = s.dbAt j := by
  unfold Sys.dbAt Sys.setDbS
  simp only [getD_set_ne _ _ _ _ _ h]

theorem Sys.dbAt_time (s : Sys) (i : Nat) : (s.dbAt i).time = s.srv.time := rfl

/-! ## connection lookup under `mapConns` -/

theorem Sys.conn_mapConns (s : Sys) (g : Conn → Conn) (c : Nat)
    (hid : ∀ x, (g x).id = x.id) (hdef : g { id := c } = { id := c }) :
    (s.mapConns g).conn c = g (s.conn c) := by
  simp only [Sys.conn_def, Sys.mapConns, List.find?_map]
  have : ((fun x : Conn => x.id == c) ∘ g) = fun x : Conn => x.id == c := by
    funext x; simp only [Function.comp, hid]
  rw [this]
  cases h' : s.srv.conns.find? (·.id == c) with
  | none => simp [hdef]
  | some x => simp

theorem Sys.hasConn_mapConns (s : Sys) (g : Conn → Conn) (c : Nat) (hid : ∀ x, (g x).id = x.id) :
    (s.mapConns g).HasConn c ↔ s.HasConn c := by
  unfold Sys.HasConn Sys.mapConns
  simp only [List.mem_map]
  constructor
  · rintro ⟨x, ⟨y, hy, rfl⟩, hx⟩; exact ⟨y, hy, by rw [← hid]; exact hx⟩
  · rintro ⟨x, hx, h⟩; exact ⟨g x, ⟨x, hx, rfl⟩, by rw [hid]; exact h⟩

theorem notifyFn_default (d : Nat) (key : Bytes) (c : Nat) : notifyFn d key { id := c } = { id := c } := rfl

theorem notifyWatch_conn (d : Nat) (key : Bytes) (s : Sys) (c : Nat) :
    (notifyWatch d key s).2.conn c = notifyFn d key (s.conn c) := by
  rw [notifyWatch_run]
  exact Sys.conn_mapConns s _ c (notifyFn_id d key) (notifyFn_default d key c)

/-- explicit description of `notifyFn` -/
theorem notifyFn_eq (d : Nat) (key : Bytes) (x : Conn) :
    notifyFn d key x =
      { x with
        watchNotified := x.watchNotified || x.watches.contains (d, key)
        parked := x.parked.map fun p => if p.db == d then { p with woken := true } else p } := by
  obtain ⟨id, db, tx, txf, inTx, wn, ws, ps, buf, pa, cl, de, pk⟩ := x
  unfold notifyFn
  simp only
  cases hw : ws.contains (d, key) <;> cases pk with
  | none => simp
  | some p => by_cases hp : p.db = d <;> simp [hp]

/-! ## `writebackAll` -/

/-- one `CommandItem` written back to database `d`, with the `notify_watch` call -/
def Sys.wbStep (s : Sys) (d : Nat) (ci : CI) : Sys :=
  let s1 := s.setDbS d (ci.writeback (s.dbAt d)).1
  if ci.modified then s1.mapConns (notifyFn d ci.key) else s1

theorem writebackAll_nil (d : Nat) (s : Sys) : writebackAll d [] s = ((), s) := rfl

theorem writebackAll_cons (d : Nat) (ci : CI) (cis : List CI) (s : Sys) :
    writebackAll d (ci :: cis) s = writebackAll d cis (s.wbStep d ci) := by
  unfold writebackAll Sys.wbStep
  rw [forM_cons_eq]
  simp only [bind, StateT.bind, getDb_run', setDb_run']
  have hf := CI.writeback_flag ci (s.dbAt d)
  revert hf
  generalize ci.writeback (s.dbAt d) = r
  obtain ⟨db', n⟩ := r
  intro hf
  simp only at hf
  subst hf
  cases hm : ci.modified <;> simp only [hm, if_true, if_false, Bool.false_eq_true, notifyWatch_run] <;> rfl

theorem writebackAll_single (d : Nat) (ci : CI) (s : Sys) :
    writebackAll d [ci] s = ((), s.wbStep d ci) := by
  rw [writebackAll_cons, writebackAll_nil]

/-- every connection parked on database `d` has its wake-up flag set -/
def Sys.AllWoken (s : Sys) (d : Nat) : Prop :=
  ∀ x ∈ s.srv.conns, ∀ p, x.parked = some p → p.db = d → p.woken = true

theorem notifyFn_parked (d : Nat) (key : Bytes) (x : Conn) :
    (notifyFn d key x).parked = x.parked.map fun p => if p.db == d then { p with woken := true } else p := by
  rw [notifyFn_eq]

theorem Sys.allWoken_notify (s : Sys) (d : Nat) (key : Bytes) : (s.mapConns (notifyFn d key)).AllWoken d := by
  intro x hx p hp hd
  simp only [Sys.mapConns, List.mem_map] at hx
  obtain ⟨y, hy, rfl⟩ := hx
  rw [notifyFn_parked] at hp
  cases hq : y.parked with
  | none => rw [hq] at hp; cases hp
  | some q =>
    rw [hq] at hp
    simp only [Option.map_some, Option.some.injEq] at hp
    by_cases hqd : q.db = d
    · simp only [hqd, BEq.rfl, if_true] at hp; rw [← hp]
    · have : (q.db == d) = false := by simpa using hqd
      simp only [this, Bool.false_eq_true, if_false] at hp
      subst hp; exact absurd hd hqd

theorem Sys.allWoken_notify_pres (s : Sys) (d d' : Nat) (key : Bytes) (h : s.AllWoken d) :
    (s.mapConns (notifyFn d' key)).AllWoken d := by
  intro x hx p hp hd
  simp only [Sys.mapConns, List.mem_map] at hx
  obtain ⟨y, hy, rfl⟩ := hx
  rw [notifyFn_parked] at hp
  cases hq : y.parked with
  | none => rw [hq] at hp; cases hp
  | some q =>
    rw [hq] at hp
    simp only [Option.map_some, Option.some.injEq] at hp
    split at hp
    · rw [← hp]
    · subst hp; exact h y hy q hq hd

theorem Sys.allWoken_wbStep_pres (s : Sys) (d d' : Nat) (ci : CI) (h : s.AllWoken d) :
    (s.wbStep d' ci).AllWoken d := by
  unfold Sys.wbStep
  simp only
  split
  · exact Sys.allWoken_notify_pres _ d d' _ h
  · exact h

theorem Sys.allWoken_wbStep (s : Sys) (d : Nat) (ci : CI) (hm : ci.modified = true) :
    (s.wbStep d ci).AllWoken d := by
  unfold Sys.wbStep
  simp only [hm, if_true]
  exact Sys.allWoken_notify _ d _

theorem writebackAll_allWoken_pres (d d' : Nat) (cis : List CI) (s : Sys) (h : s.AllWoken d) :
    (writebackAll d' cis s).2.AllWoken d := by
  induction cis generalizing s with
  | nil => exact h
  | cons ci cis ih => rw [writebackAll_cons]; exact ih _ (Sys.allWoken_wbStep_pres s d d' ci h)

theorem writebackAll_allWoken (d : Nat) (cis : List CI) (s : Sys) (h : ∃ ci ∈ cis, ci.modified = true) :
    (writebackAll d cis s).2.AllWoken d := by
  induction cis generalizing s with
  | nil => obtain ⟨ci, hci, _⟩ := h; cases hci
  | cons ci cis ih =>
    rw [writebackAll_cons]
    by_cases hm : ci.modified = true
    · exact writebackAll_allWoken_pres d d cis _ (Sys.allWoken_wbStep s d ci hm)
    · apply ih
      obtain ⟨ci', hci', hm'⟩ := h
      rcases List.mem_cons.1 hci' with rfl | h'
      · exact absurd hm' hm
      · exact ⟨ci', h', hm'⟩

theorem Sys.conn_mem_or_default (s : Sys) (c : Nat) : s.conn c ∈ s.srv.conns ∨ s.conn c = { id := c } := by
  rw [Sys.conn_def]
  cases h : s.srv.conns.find? (·.id == c) with
  | none => exact .inr rfl
  | some x => exact .inl (List.mem_of_find?_eq_some h)

theorem Sys.AllWoken.conn {s : Sys} {d : Nat} (h : s.AllWoken d) (c : Nat) (p : Parked)
    (hp : (s.conn c).parked = some p) (hd : p.db = d) : p.woken = true := by
  rcases s.conn_mem_or_default c with hm | he
  · exact h _ hm p hp hd
  · rw [he] at hp; cases hp

theorem forM_notifyWatch_allWoken_pres (d d' : Nat) (ks : List Bytes) (s : Sys) (h : s.AllWoken d) :
    (ks.forM (notifyWatch d') s).2.AllWoken d := by
  induction ks generalizing s with
  | nil => exact h
  | cons k ks ih =>
    rw [forM_cons_eq]
    simp only [bind, StateT.bind, notifyWatch_run]
    exact ih _ (Sys.allWoken_notify_pres _ d d' k h)

theorem forM_notifyWatch_allWoken (d : Nat) (ks : List Bytes) (s : Sys) (h : ks ≠ []) :
    (ks.forM (notifyWatch d) s).2.AllWoken d := by
  cases ks with
  | nil => exact absurd rfl h
  | cons k ks =>
    rw [forM_cons_eq]
    simp only [bind, StateT.bind, notifyWatch_run]
    exact forM_notifyWatch_allWoken_pres d d ks _ (Sys.allWoken_notify s d k)

theorem Sys.afterRegular_allWoken (s : Sys) (d : Nat) (o : RunOut) (h : o.notified ≠ []) :
    (s.afterRegular d o).AllWoken d := by
  unfold Sys.afterRegular
  exact forM_notifyWatch_allWoken d _ _ h

/-! ## `bpopPass`: step equations -/

/-- the `CommandItem` written back by a served pop -/
def bpopCI (left : Bool) (key : Bytes) (it : Item) (l : List Bytes) : CI :=
  { key := key, val := some (.list (if left then Cmd.popLeftN l 1 else Cmd.popRightN l 1).2),
    expireat := it.expireat, modified := true }

def bpopReply (left : Bool) (key : Bytes) (l : List Bytes) : Reply :=
  .arr [.bulk key, Reply.ofOptBulk (if left then Cmd.popLeftN l 1 else Cmd.popRightN l 1).1.head?]

theorem bpopPass_nil (d : Nat) (left first : Bool) (s : Sys) :
    bpopPass d left first [] s = (.ok none, s) := rfl

theorem bpopPass_cons_none (d : Nat) (left first : Bool) (key : Bytes) (rest : List Bytes) (s : Sys)
    (h : ((s.dbAt d).get key).2 = none) :
    bpopPass d left first (key :: rest) s =
      bpopPass d left first rest (s.setDbS d ((s.dbAt d).get key).1) := by
  rw [bpopPass]
  simp only [bind, StateT.bind, getDb_run', setDb_run']
  revert h
  generalize (s.dbAt d).get key = g
  obtain ⟨db', item⟩ := g
  intro h
  simp only at h
  subst h
  rfl

theorem bpopPass_cons_list (d : Nat) (left first : Bool) (key : Bytes) (rest : List Bytes) (s : Sys)
    {it : Item} {l : List Bytes} (h : ((s.dbAt d).get key).2 = some it) (hv : it.value = .list l) :
    bpopPass d left first (key :: rest) s =
      (.ok (some (bpopReply left key l)),
        (s.setDbS d ((s.dbAt d).get key).1).wbStep d (bpopCI left key it l)) := by
  rw [bpopPass]
  simp only [bind, StateT.bind, getDb_run', setDb_run']
  revert h
  generalize (s.dbAt d).get key = g
  obtain ⟨db', item⟩ := g
  intro h
  simp only at h
  subst h
  obtain ⟨v, e⟩ := it
  simp only at hv
  subst hv
  cases left <;> simp only [StateT.bind, writebackAll_single, bpopReply, bpopCI] <;> rfl

theorem bpopPass_cons_other (d : Nat) (left first : Bool) (key : Bytes) (rest : List Bytes) (s : Sys)
    {it : Item} (h : ((s.dbAt d).get key).2 = some it) (hv : ∀ l, it.value ≠ .list l) :
    bpopPass d left first (key :: rest) s =
      if first then (.error Msgs.WRONGTYPE_MSG, s.setDbS d ((s.dbAt d).get key).1)
      else bpopPass d left first rest (s.setDbS d ((s.dbAt d).get key).1) := by
  rw [bpopPass]
  simp only [bind, StateT.bind, getDb_run', setDb_run']
  revert h
  generalize (s.dbAt d).get key = g
  obtain ⟨db', item⟩ := g
  intro h
  simp only at h
  subst h
  obtain ⟨v, e⟩ := it
  cases v with
  | list l => exact absurd rfl (hv l)
  | _ => cases first <;> rfl

theorem Value.list_or_not (v : Value) : (∃ l, v = .list l) ∨ ∀ l, v ≠ .list l := by
  cases v with
  | list l => exact .inl ⟨l, rfl⟩
  | _ => exact .inr (fun l h => by cases h)

/-! ## frame principle: the passes only store databases and call `notify_watch` -/

theorem Sys.wbStep_frame (P : Sys → Prop) (hset : ∀ s i db, P s → P (s.setDbS i db))
    (hmap : ∀ s d k, P s → P (s.mapConns (notifyFn d k))) (s : Sys) (d : Nat) (ci : CI) (h : P s) :
    P (s.wbStep d ci) := by
  unfold Sys.wbStep
  simp only
  split
  · exact hmap _ _ _ (hset _ _ _ h)
  · exact hset _ _ _ h

theorem writebackAll_frame (P : Sys → Prop) (hset : ∀ s i db, P s → P (s.setDbS i db))
    (hmap : ∀ s d k, P s → P (s.mapConns (notifyFn d k))) (d : Nat) (cis : List CI) (s : Sys) (h : P s) :
    P (writebackAll d cis s).2 := by
  induction cis generalizing s with
  | nil => exact h
  | cons ci cis ih => rw [writebackAll_cons]; exact ih _ (Sys.wbStep_frame P hset hmap s d ci h)

theorem bpopPass_frame (P : Sys → Prop) (hset : ∀ s i db, P s → P (s.setDbS i db))
    (hmap : ∀ s d k, P s → P (s.mapConns (notifyFn d k)))
    (d : Nat) (left first : Bool) (keys : List Bytes) (s : Sys) (h : P s) :
    P (bpopPass d left first keys s).2 := by
  induction keys generalizing s with
  | nil => exact h
  | cons key rest ih =>
    have h1 := hset s d ((s.dbAt d).get key).1 h
    cases hg : ((s.dbAt d).get key).2 with
    | none => rw [bpopPass_cons_none _ _ _ _ _ _ hg]; exact ih _ h1
    | some it =>
      rcases Value.list_or_not it.value with ⟨l, hv⟩ | hv
      · rw [bpopPass_cons_list _ _ _ _ _ _ hg hv]
        exact Sys.wbStep_frame P hset hmap _ d (bpopCI left key it l) h1
      · rw [bpopPass_cons_other _ _ _ _ _ _ hg hv]
        cases first
        · exact ih _ h1
        · exact h1

/-- an error can only come from the first pass, and it is the WRONGTYPE error -/
theorem bpopPass_error (d : Nat) (left first : Bool) (keys : List Bytes) (s : Sys) (e : Err)
    (h : (bpopPass d left first keys s).1 = .error e) : first = true ∧ e = Msgs.WRONGTYPE_MSG := by
  induction keys generalizing s with
  | nil => cases h
  | cons key rest ih =>
    cases hg : ((s.dbAt d).get key).2 with
    | none => rw [bpopPass_cons_none _ _ _ _ _ _ hg] at h; exact ih _ h
    | some it =>
      rcases Value.list_or_not it.value with ⟨l, hv⟩ | hv
      · rw [bpopPass_cons_list _ _ _ _ _ _ hg hv] at h; cases h
      · rw [bpopPass_cons_other _ _ _ _ _ _ hg hv] at h
        cases first
        · exact ih _ h
        · simp only [if_true] at h
          injection h with h
          exact ⟨rfl, h.symm⟩

/-! ## lazy deletions only -/

theorem Sys.setDbS_self (s : Sys) (d : Nat) : s.setDbS d (s.dbAt d) = s := by
  unfold Sys.setDbS Sys.dbAt
  have : s.srv.dbs.set d (s.srv.dbs.getD d []) = s.srv.dbs := by
    by_cases hd : d < s.srv.dbs.length
    · rw [List.getD_eq_getElem?_getD, List.getElem?_eq_getElem hd, Option.getD_some, List.set_getElem_self]
    · exact List.set_eq_of_length_le (by omega)
  simp only [this]

theorem Sys.setDbS_setDbS (s : Sys) (d : Nat) (a b : Db) : (s.setDbS d a).setDbS d b = s.setDbS d b := by
  unfold Sys.setDbS
  simp only [List.set_set]

/-- `s'` is `s` with database `d` replaced by a dict obtained from it by lazy deletions of expired
entries only (everything else — connections, replies, clock, other databases — is identical) -/
def Sys.LazyStep (d : Nat) (s s' : Sys) : Prop :=
  ∃ db', s' = s.setDbS d db' ∧ Reads (s.dbAt d) db'

theorem Reads.time {a b : Db} (h : Reads a b) : b.time = a.time := by
  have := congrArg Db.time h.eq
  simpa using this

theorem Sys.LazyStep.refl {s : Sys} {d : Nat} (nd : NodupKeys (s.dbAt d).dict) : s.LazyStep d s :=
  ⟨s.dbAt d, (s.setDbS_self d).symm, Reads.refl nd⟩

theorem Sys.LazyStep.get {s : Sys} {d : Nat} (nd : NodupKeys (s.dbAt d).dict) (key : Bytes) :
    s.LazyStep d (s.setDbS d ((s.dbAt d).get key).1) :=
  ⟨_, rfl, Reads.get nd key⟩

theorem Sys.LazyStep.dbAt {s s' : Sys} {d : Nat} (hd : d < s.srv.dbs.length) (h : s.LazyStep d s') :
    Reads (s.dbAt d) (s'.dbAt d) := by
  obtain ⟨db', rfl, hr⟩ := h
  rw [Sys.setDbS_dbAt_self s d db' hd hr.time]
  exact hr

theorem Sys.LazyStep.trans {s s1 s2 : Sys} {d : Nat} (hd : d < s.srv.dbs.length)
    (h1 : s.LazyStep d s1) (h2 : s1.LazyStep d s2) : s.LazyStep d s2 := by
  have hr1 := h1.dbAt hd
  obtain ⟨a, rfl, ha⟩ := h1
  obtain ⟨b, rfl, hb⟩ := h2
  exact ⟨b, Sys.setDbS_setDbS s d a b, hr1.trans hb⟩

theorem Sys.LazyStep.len {s s' : Sys} {d : Nat} (h : s.LazyStep d s') :
    s'.srv.dbs.length = s.srv.dbs.length := by
  obtain ⟨db', rfl, _⟩ := h; simp

theorem Sys.LazyStep.dbAt_ne {s s' : Sys} {d j : Nat} (h : s.LazyStep d s') (hj : j ≠ d) :
    s'.dbAt j = s.dbAt j := by
  obtain ⟨db', rfl, _⟩ := h; exact Sys.setDbS_dbAt_ne s d j db' hj

theorem Sys.LazyStep.live {s s' : Sys} {d : Nat} (hd : d < s.srv.dbs.length) (h : s.LazyStep d s')
    (k : Bytes) : (s'.dbAt d).live k = (s.dbAt d).live k :=
  live_eq_of_purge (h.dbAt hd).eq k

/-! ## `bpopPass`: specification -/

/-- key `k` cannot serve the pass: it is missing or expired, or (on a later pass) not a list -/
def Blocked (first : Bool) (db : Db) (k : Bytes) : Prop :=
  ∀ it, db.live k = some it → first = false ∧ ∀ l, it.value ≠ .list l

def BpopSpec (d : Nat) (left first : Bool) (keys : List Bytes) (s : Sys)
    (res : Except Err (Option Reply)) (s' : Sys) : Prop :=
  (res = .ok none → (∀ k ∈ keys, Blocked first (s.dbAt d) k) ∧ s.LazyStep d s') ∧
  (∀ r, res = .ok (some r) →
    ∃ pre k post it l s1, keys = pre ++ k :: post ∧ (∀ k' ∈ pre, Blocked first (s.dbAt d) k') ∧
      (s.dbAt d).live k = some it ∧ it.value = .list l ∧ r = bpopReply left k l ∧
      s.LazyStep d s1 ∧ s' = s1.wbStep d (bpopCI left k it l))

theorem BpopSpec.skip {d : Nat} {left first : Bool} {key : Bytes} {rest : List Bytes} {s : Sys}
    {res : Except Err (Option Reply)} {s' : Sys}
    (hd : d < s.srv.dbs.length) (nd : NodupKeys (s.dbAt d).dict)
    (hb : Blocked first (s.dbAt d) key)
    (h : BpopSpec d left first rest (s.setDbS d ((s.dbAt d).get key).1) res s') :
    BpopSpec d left first (key :: rest) s res s' := by
  have L1 := Sys.LazyStep.get nd key
  have hl := L1.live hd
  obtain ⟨hn, hs⟩ := h
  refine ⟨fun hres => ?_, fun r hres => ?_⟩
  · obtain ⟨hbs, hL⟩ := hn hres
    refine ⟨?_, L1.trans hd hL⟩
    intro k hk
    rcases List.mem_cons.1 hk with rfl | hk
    · exact hb
    · have := hbs k hk
      unfold Blocked at this ⊢
      rw [hl] at this; exact this
  · obtain ⟨pre, k, post, it, l, s1, hkeys, hpre, hlive, hv, hr, hL, hs'⟩ := hs r hres
    refine ⟨key :: pre, k, post, it, l, s1, (by rw [hkeys]; rfl), ?_, (by rw [← hl]; exact hlive), hv, hr,
      L1.trans hd hL, hs'⟩
    intro k' hk'
    rcases List.mem_cons.1 hk' with rfl | hk'
    · exact hb
    · have := hpre k' hk'
      unfold Blocked at this ⊢
      rw [hl] at this; exact this

theorem bpopPass_spec (d : Nat) (left first : Bool) (keys : List Bytes) (s : Sys)
    (hd : d < s.srv.dbs.length) (nd : NodupKeys (s.dbAt d).dict) :
    BpopSpec d left first keys s (bpopPass d left first keys s).1 (bpopPass d left first keys s).2 := by
  induction keys generalizing s with
  | nil =>
    refine ⟨fun _ => ⟨fun k hk => (by cases hk), Sys.LazyStep.refl nd⟩, fun r h => (by cases h)⟩
  | cons key rest ih =>
    have hres : ((s.dbAt d).get key).2 = (s.dbAt d).live key := get_result key nd
    have hd1 : d < (s.setDbS d ((s.dbAt d).get key).1).srv.dbs.length := by simpa using hd
    have hdb1 : (s.setDbS d ((s.dbAt d).get key).1).dbAt d = ((s.dbAt d).get key).1 :=
      Sys.setDbS_dbAt_self s d _ hd (get_time _ _)
    have nd1 : NodupKeys ((s.setDbS d ((s.dbAt d).get key).1).dbAt d).dict := by
      rw [hdb1]; exact get_nodup key nd
    have ih1 := ih _ hd1 nd1
    cases hg : ((s.dbAt d).get key).2 with
    | none =>
      rw [bpopPass_cons_none _ _ _ _ _ _ hg]
      refine BpopSpec.skip hd nd ?_ ih1
      intro it hit
      rw [← hres, hg] at hit; cases hit
    | some it =>
      rcases Value.list_or_not it.value with ⟨l, hv⟩ | hv
      · rw [bpopPass_cons_list _ _ _ _ _ _ hg hv]
        refine ⟨fun h => (by cases h), fun r h => ?_⟩
        simp only [Except.ok.injEq, Option.some.injEq] at h
        exact ⟨[], key, rest, it, l, _, rfl, fun k' hk' => (by cases hk'), (by rw [← hres]; exact hg), hv, h.symm,
          Sys.LazyStep.get nd key, rfl⟩
      · rw [bpopPass_cons_other _ _ _ _ _ _ hg hv]
        cases first
        · simp only [Bool.false_eq_true, if_false]
          refine BpopSpec.skip hd nd ?_ ih1
          intro it' hit
          rw [← hres, hg] at hit
          simp only [Option.some.injEq] at hit
          subst hit
          exact ⟨rfl, hv⟩
        · simp only [if_true]
          exact ⟨fun h => (by cases h), fun r h => (by cases h)⟩

/-! ## the database after a served pop -/

theorem lookup_map_set_self {d : Dict} {k : Bytes} (it : Item) (h : ∃ q ∈ d, q.1 = k) :
    (d.map (fun q => if q.1 == k then (k, it) else q)).lookup k = some it := by
  induction d with
  | nil => obtain ⟨q, hq, _⟩ := h; cases hq
  | cons x xs ih =>
    obtain ⟨k2, it2⟩ := x
    simp only [List.map_cons]
    by_cases h2 : k2 = k
    · subst h2; simp
    · have hb : (k2 == k) = false := by simpa using h2
      have hb' : (k == k2) = false := by simpa using fun e => h2 e.symm
      simp only [hb, if_false, Bool.false_eq_true, List.lookup_cons, hb']
      apply ih
      obtain ⟨q, hq, e⟩ := h
      rcases List.mem_cons.1 hq with rfl | hq
      · exact absurd e h2
      · exact ⟨q, hq, e⟩

theorem lookup_setRaw_self (d : Dict) (k : Bytes) (it : Item) : (setRaw d k it).lookup k = some it := by
  unfold setRaw
  split
  · rename_i h; exact lookup_map_set_self it (any_key_iff.1 h)
  · rename_i h
    have h := any_key_false_iff.1 (Bool.not_eq_true _ ▸ h)
    rw [List.lookup_append, lookup_none_iff.2 h]
    simp

theorem live_pop_self (db : Db) (k : Bytes) : (db.pop k).live k = none := by
  unfold Db.live; rw [pop_purge]; exact lookup_erase_self _ k

theorem live_put_self {db : Db} (nd : NodupKeys db.dict) (k : Bytes) (v : Value) (e : Option Int)
    (he : db.expired ⟨v, e⟩ = false) : (db.put k v e).live k = some ⟨v, e⟩ := by
  unfold Db.live
  rw [put_purge k v e nd]
  simp only [purge_dict, purge_time]
  rw [lookup_filter _ k (nodup_setRaw k _ (nodup_filter _ nd)), lookup_setRaw_self]
  have : Db.expired { dict := setRaw (List.filter (fun p => !db.expired p.2) db.dict) k ⟨v, e⟩, time := db.time }
      = db.expired := expired_time rfl
  simp only [this, he, Bool.not_false, if_true]

theorem live_some_not_expired {db : Db} (nd : NodupKeys db.dict) {k : Bytes} {it : Item}
    (h : db.live k = some it) : db.expired it = false := by
  unfold Db.live at h
  rw [purge_dict, lookup_filter _ k nd] at h
  split at h
  · cases h
  · split at h
    · rename_i hp
      simp only [Option.some.injEq] at h
      subst h
      simpa using hp
    · cases h

theorem live_some_mem {db : Db} {k : Bytes} {it : Item} (h : db.live k = some it) : (k, it) ∈ db.dict := by
  unfold Db.live at h
  have := lookup_some_mem h
  rw [purge_dict] at this
  exact (List.mem_filter.1 this).1

/-- the effect of the write-back of a served pop on database `d` -/
theorem Sys.wbStep_bpop {s1 : Sys} {d : Nat} (left : Bool) {k : Bytes} {it : Item} {l : List Bytes}
    (hd : d < s1.srv.dbs.length) (nd : NodupKeys (s1.dbAt d).dict)
    (hlive : (s1.dbAt d).live k = some it) :
    let rem := (if left then Cmd.popLeftN l 1 else Cmd.popRightN l 1).2
    let s' := s1.wbStep d (bpopCI left k it l)
    (s'.dbAt d).live k = (if rem = [] then none else some ⟨.list rem, it.expireat⟩) ∧
    (∀ k', k' ≠ k → (s'.dbAt d).live k' = (s1.dbAt d).live k') ∧
    (∀ j, j ≠ d → s'.dbAt j = s1.dbAt j) ∧
    NodupKeys (s'.dbAt d).dict ∧
    s'.srv.dbs.length = s1.srv.dbs.length := by
  intro rem s'
  have hs' : s' = (s1.setDbS d ((bpopCI left k it l).writeback (s1.dbAt d)).1).mapConns (notifyFn d k) := by
    show s1.wbStep d (bpopCI left k it l) = _
    unfold Sys.wbStep
    simp only [bpopCI, if_true]
  have hdb : s'.dbAt d = ((bpopCI left k it l).writeback (s1.dbAt d)).1 := by
    rw [hs', Sys.mapConns_dbAt]
    exact Sys.setDbS_dbAt_self s1 d _ hd (CI.writeback_time _ _)
  refine ⟨?_, ?_, ?_, ?_, ?_⟩
  · rw [hdb]
    have hne := live_some_not_expired nd hlive
    unfold CI.writeback
    simp only [bpopCI, if_true, Value.isEmptyColl, List.isEmpty_iff]
    show Db.live (Prod.fst (if rem = [] then _ else _)) k = _
    by_cases hr : rem = []
    · simp only [hr, if_true]; exact live_pop_self _ _
    · simp only [hr, if_false]
      apply live_put_self nd
      unfold Db.expired at hne ⊢
      exact hne
  · intro k' hk'
    rw [hdb]
    exact CI.writeback_live_ne _ nd hk'
  · intro j hj
    rw [hs', Sys.mapConns_dbAt]
    exact Sys.setDbS_dbAt_ne s1 d j _ hj
  · rw [hdb]; exact CI.writeback_nodup _ nd
  · rw [hs']; simp

theorem Sys.setDbS_out_of_range (s : Sys) (d : Nat) (db : Db) (h : s.srv.dbs.length ≤ d) : s.setDbS d db = s := by
  unfold Sys.setDbS
  simp only [List.set_eq_of_length_le h]

theorem Sys.dbAt_out_of_range (s : Sys) (d : Nat) (h : s.srv.dbs.length ≤ d) : s.dbAt d = ⟨[], s.srv.time⟩ := by
  unfold Sys.dbAt
  rw [List.getD_eq_getElem?_getD, List.getElem?_eq_none h]; rfl

theorem bpopPass_out_of_range (d : Nat) (left first : Bool) (keys : List Bytes) (s : Sys)
    (h : s.srv.dbs.length ≤ d) : bpopPass d left first keys s = (.ok none, s) := by
  induction keys with
  | nil => rfl
  | cons key rest ih =>
    have hg : ((s.dbAt d).get key).2 = none := by rw [Sys.dbAt_out_of_range s d h]; rfl
    rw [bpopPass_cons_none _ _ _ _ _ _ hg, Sys.setDbS_out_of_range s d _ h, ih]

/-- served pass: the full description used by C11 -/
theorem bpopPass_served (d : Nat) (left first : Bool) (keys : List Bytes) (s : Sys) (r : Reply)
    (hd : d < s.srv.dbs.length) (nd : NodupKeys (s.dbAt d).dict) (ne : NoEmpty (s.dbAt d).dict)
    (h : (bpopPass d left first keys s).1 = .ok (some r)) :
    ∃ pre k post it l x rem,
      keys = pre ++ k :: post ∧
      (∀ k' ∈ pre, Blocked first (s.dbAt d) k') ∧
      (s.dbAt d).live k = some it ∧ it.value = .list l ∧
      (if left then l = x :: rem else l = rem ++ [x]) ∧
      r = .arr [.bulk k, .bulk x] ∧
      ((bpopPass d left first keys s).2.dbAt d).live k =
        (if rem = [] then none else some ⟨.list rem, it.expireat⟩) ∧
      (∀ k', k' ≠ k → ((bpopPass d left first keys s).2.dbAt d).live k' = (s.dbAt d).live k') ∧
      (∀ j, j ≠ d → (bpopPass d left first keys s).2.dbAt j = s.dbAt j) ∧
      NodupKeys ((bpopPass d left first keys s).2.dbAt d).dict := by
  obtain ⟨pre, k, post, it, l, s1, hkeys, hpre, hlive, hv, hr, hL, hs'⟩ := (bpopPass_spec d left first keys s hd nd).2 r h
  have hd1 : d < s1.srv.dbs.length := by rw [hL.len]; exact hd
  have nd1 : NodupKeys (s1.dbAt d).dict := (hL.dbAt hd).nd
  have hlive1 : (s1.dbAt d).live k = some it := by rw [hL.live hd]; exact hlive
  have hl : l ≠ [] := by
    have := ne _ (live_some_mem hlive)
    simp only [hv, Value.isEmptyColl] at this
    intro e; subst e; simp at this
  obtain ⟨h1, h2, h3, h4, _⟩ := Sys.wbStep_bpop (l := l) left hd1 nd1 hlive1
  rw [← hs'] at h1 h2 h3 h4
  cases left with
  | true =>
    obtain ⟨x, rem, hp, hx⟩ := popLeftN_one hl
    simp only [if_true, hp] at h1
    refine ⟨pre, k, post, it, l, x, rem, hkeys, hpre, hlive, hv, by simp [hx], ?_, h1, ?_, ?_, h4⟩
    · rw [hr]; simp only [bpopReply, if_true, hp]; rfl
    · intro k' hk'; rw [h2 k' hk', hL.live hd]
    · intro j hj; rw [h3 j hj, hL.dbAt_ne hj]
  | false =>
    obtain ⟨x, rem, hp, hx⟩ := popRightN_one hl
    simp only [Bool.false_eq_true, if_false, hp] at h1
    refine ⟨pre, k, post, it, l, x, rem, hkeys, hpre, hlive, hv, by simp [hx], ?_, h1, ?_, ?_, h4⟩
    · rw [hr]; simp only [bpopReply, Bool.false_eq_true, if_false, hp]; rfl
    · intro k' hk'; rw [h2 k' hk', hL.live hd]
    · intro j hj; rw [h3 j hj, hL.dbAt_ne hj]

/-- key `k` holds a live list -/
def HoldsList (db : Db) (k : Bytes) : Prop := ∃ it l, db.live k = some it ∧ it.value = .list l

theorem bpopPass_none_iff' (d : Nat) (left : Bool) (keys : List Bytes) (s : Sys)
    (nd : NodupKeys (s.dbAt d).dict) :
    (bpopPass d left false keys s).1 = .ok none ↔ ∀ k ∈ keys, ¬ HoldsList (s.dbAt d) k := by
  by_cases hd : d < s.srv.dbs.length
  · have spec := bpopPass_spec d left false keys s hd nd
    constructor
    · intro h k hk ⟨it, l, hlive, hv⟩
      exact ((spec.1 h).1 k hk it hlive).2 l hv
    · intro hall
      cases hres : (bpopPass d left false keys s).1 with
      | error e => exact absurd (bpopPass_error d left false keys s e hres).1 (by simp)
      | ok o =>
        cases o with
        | none => rfl
        | some r =>
          obtain ⟨pre, k, post, it, l, s1, hkeys, _, hlive, hv, _⟩ := spec.2 r hres
          exact absurd ⟨it, l, hlive, hv⟩ (hall k (by rw [hkeys]; simp))
  · have hd : s.srv.dbs.length ≤ d := by omega
    rw [bpopPass_out_of_range d left false keys s hd]
    refine ⟨fun _ k _ ⟨it, l, hlive, _⟩ => ?_, fun _ => rfl⟩
    rw [Sys.dbAt_out_of_range s d hd] at hlive
    cases hlive

theorem bpopPass_none_lazy (d : Nat) (left first : Bool) (keys : List Bytes) (s : Sys)
    (nd : NodupKeys (s.dbAt d).dict) (h : (bpopPass d left first keys s).1 = .ok none) :
    s.LazyStep d (bpopPass d left first keys s).2 := by
  by_cases hd : d < s.srv.dbs.length
  · exact ((bpopPass_spec d left first keys s hd nd).1 h).2
  · rw [bpopPass_out_of_range d left first keys s (by omega)]
    exact Sys.LazyStep.refl nd

/-! ## `brpoplpushPass`, `parkedPass` -/

theorem bpopPass_reply (d : Nat) (left first : Bool) (keys : List Bytes) (s : Sys) (r : Reply)
    (h : (bpopPass d left first keys s).1 = .ok (some r)) : ∃ k l, r = bpopReply left k l := by
  induction keys generalizing s with
  | nil => cases h
  | cons key rest ih =>
    cases hg : ((s.dbAt d).get key).2 with
    | none => rw [bpopPass_cons_none _ _ _ _ _ _ hg] at h; exact ih _ h
    | some it =>
      rcases Value.list_or_not it.value with ⟨l, hv⟩ | hv
      · rw [bpopPass_cons_list _ _ _ _ _ _ hg hv] at h
        simp only [Except.ok.injEq, Option.some.injEq] at h
        exact ⟨key, l, h.symm⟩
      · rw [bpopPass_cons_other _ _ _ _ _ _ hg hv] at h
        cases first
        · exact ih _ h
        · cases h

/-- the shapes of one BRPOPLPUSH pass: not served (only lazy look-ups happened), or served with a
bulk reply after the write-back of one or two `CommandItem`s -/
theorem brpoplpushPass_cases (d : Nat) (src dst : Bytes) (first : Bool) (s : Sys) :
    (((brpoplpushPass d src dst first s).1 = .ok none ∨
        (brpoplpushPass d src dst first s).1 = .error Msgs.WRONGTYPE_MSG) ∧
      ((brpoplpushPass d src dst first s).2 = s.setDbS d ((s.dbAt d).get src).1 ∨
        (brpoplpushPass d src dst first s).2 =
          (s.setDbS d ((s.dbAt d).get src).1).setDbS d
            (((s.setDbS d ((s.dbAt d).get src).1).dbAt d).get dst).1)) ∨
    ∃ el cis, (brpoplpushPass d src dst first s).1 = .ok (some (.bulk el)) ∧
      (brpoplpushPass d src dst first s).2 =
        (writebackAll d cis ((s.setDbS d ((s.dbAt d).get src).1).setDbS d
            (((s.setDbS d ((s.dbAt d).get src).1).dbAt d).get dst).1)).2 := by
  unfold brpoplpushPass
  simp only [bind, StateT.bind, getDb_run', setDb_run']
  generalize (s.dbAt d).get src = g
  obtain ⟨db1, sitem⟩ := g
  simp only
  cases sitem with
  | none => exact .inl ⟨.inl rfl, .inl rfl⟩
  | some sit =>
    obtain ⟨sv, se⟩ := sit
    cases sv with
    | list sl =>
      simp only [bind, StateT.bind, getDb_run', setDb_run']
      generalize s.setDbS d db1 = s1
      generalize (s1.dbAt d).get dst = g2
      obtain ⟨db2, ditem⟩ := g2
      simp only
      generalize (Cmd.popRightN sl 1).fst.head? = ho
      generalize (Cmd.popRightN sl 1).snd = rem
      cases ditem with
      | none =>
        simp only
        cases ho with
        | none => exact .inl ⟨.inl rfl, .inr rfl⟩
        | some el =>
          right
          cases hsd : (src == dst)
          · exact ⟨el, [{ key := src, val := some (Value.list rem), expireat := se, modified := true },
              { key := dst, val := some (Value.list [el]), expireat := none, modified := true }], rfl, rfl⟩
          · exact ⟨el, [{ key := src, val := some (Value.list (el :: rem)), expireat := se, modified := true }], rfl, rfl⟩
      | some dit =>
        obtain ⟨dv, de⟩ := dit
        cases dv with
        | list dl =>
          simp only
          cases ho with
          | none => exact .inl ⟨.inl rfl, .inr rfl⟩
          | some el =>
            right
            cases hsd : (src == dst)
            · exact ⟨el, [{ key := src, val := some (Value.list rem), expireat := se, modified := true },
                { key := dst, val := some (Value.list (el :: dl)), expireat := de, modified := true }], rfl, rfl⟩
            · exact ⟨el, [{ key := src, val := some (Value.list (el :: rem)), expireat := se, modified := true }], rfl, rfl⟩
        | _ => exact .inl ⟨.inr rfl, .inr rfl⟩
    | _ => cases first <;> exact .inl ⟨by first | exact .inl rfl | exact .inr rfl, .inl rfl⟩

theorem brpoplpushPass_frame (P : Sys → Prop) (hset : ∀ s i db, P s → P (s.setDbS i db))
    (hmap : ∀ s d k, P s → P (s.mapConns (notifyFn d k)))
    (d : Nat) (src dst : Bytes) (first : Bool) (s : Sys) (h : P s) :
    P (brpoplpushPass d src dst first s).2 := by
  have h1 := hset s d ((s.dbAt d).get src).1 h
  have h2 := hset _ d (((s.setDbS d ((s.dbAt d).get src).1).dbAt d).get dst).1 h1
  rcases brpoplpushPass_cases d src dst first s with ⟨_, he | he⟩ | ⟨el, cis, _, he⟩
  · rw [he]; exact h1
  · rw [he]; exact h2
  · rw [he]; exact writebackAll_frame P hset hmap d cis _ h2

theorem brpoplpushPass_reply (d : Nat) (src dst : Bytes) (first : Bool) (s : Sys) (r : Reply)
    (h : (brpoplpushPass d src dst first s).1 = .ok (some r)) : ∃ el, r = .bulk el := by
  rcases brpoplpushPass_cases d src dst first s with ⟨he | he, _⟩ | ⟨el, cis, he, _⟩
  · rw [he] at h; cases h
  · rw [he] at h; cases h
  · rw [he] at h
    simp only [Except.ok.injEq, Option.some.injEq] at h
    exact ⟨el, h.symm⟩

theorem brpoplpushPass_error (d : Nat) (src dst : Bytes) (first : Bool) (s : Sys) (e : Err)
    (h : (brpoplpushPass d src dst first s).1 = .error e) : e = Msgs.WRONGTYPE_MSG := by
  rcases brpoplpushPass_cases d src dst first s with ⟨he | he, _⟩ | ⟨el, cis, he, _⟩
  · rw [he] at h; cases h
  · rw [he] at h; injection h with h; exact h.symm
  · rw [he] at h; cases h

/-! ## `blocking` -/

/-- the reply of `_blocking` inside a transaction -/
def txReply (r : Except Err (Option Reply)) : Except Err (Option Reply) :=
  match r with
  | .error e => .error e
  | .ok (some r) => .ok (some r)
  | .ok none => .ok (some .nil)

theorem blocking_inTx_run (c : Nat) (park : Bool) (kind : String) (keys : List Bytes) (timeout : Int)
    (pass : Bool → M (Except Err (Option Reply))) (s : Sys)
    (h : ((pass true s).2.conn c).inTx = true) :
    blocking c park kind keys timeout pass s = (txReply (pass true s).1, (pass true s).2) := by
  unfold blocking
  simp only [bind, StateT.bind]
  revert h
  generalize pass true s = pr
  obtain ⟨r, s1⟩ := pr
  intro h
  simp only at h
  cases r with
  | error e => rfl
  | ok o =>
    cases o with
    | some r => rfl
    | none => simp only [bind, StateT.bind, getConn_run, h, if_true]; rfl

def parkAs (kind : String) (keys : List Bytes) (db : Nat) (deadline : Option Int) (x : Conn) : Conn :=
  { x with parked := some { kind := kind, keys := keys, db := db, deadline := deadline } }

/-- outside a transaction, with the scheduler semantics and no time-out, an unserved pop parks -/
theorem blocking_park_run (c : Nat) (kind : String) (keys : List Bytes)
    (pass : Bool → M (Except Err (Option Reply))) (s : Sys)
    (hres : (pass true s).1 = .ok none) (h : ((pass true s).2.conn c).inTx = false) :
    blocking c true kind keys 0 pass s =
      (.ok none, (pass true s).2.updConn c (parkAs kind keys ((pass true s).2.conn c).db none)) := by
  unfold blocking
  simp only [bind, StateT.bind]
  revert h hres
  generalize pass true s = pr
  obtain ⟨r, s1⟩ := pr
  intro hres h
  simp only at h hres
  subst hres
  simp only [bind, StateT.bind, getConn_run, h, Bool.false_eq_true, if_false]
  rfl

/-- projections of a connection record that `notify_watch` does not touch are preserved by the passes -/
theorem conn_proj_frame {β} (proj : Conn → β) (hproj : ∀ d k x, proj (notifyFn d k x) = proj x) (c : Nat) (v : β) :
    (∀ (s : Sys) (i : Nat) (db : Db), proj (s.conn c) = v → proj ((s.setDbS i db).conn c) = v) ∧
    (∀ (s : Sys) (d : Nat) (k : Bytes), proj (s.conn c) = v → proj ((s.mapConns (notifyFn d k)).conn c) = v) := by
  refine ⟨fun s i db h => h, fun s d k h => ?_⟩
  rw [Sys.conn_mapConns s _ c (notifyFn_id d k) (notifyFn_default d k c), hproj]; exact h

theorem bpopPass_conn_proj {β} (proj : Conn → β) (hproj : ∀ d k x, proj (notifyFn d k x) = proj x)
    (d : Nat) (left first : Bool) (keys : List Bytes) (s : Sys) (c : Nat) :
    proj ((bpopPass d left first keys s).2.conn c) = proj (s.conn c) :=
  bpopPass_frame (fun s' => proj (s'.conn c) = proj (s.conn c))
    (conn_proj_frame proj hproj c _).1 (conn_proj_frame proj hproj c _).2 d left first keys s rfl

theorem brpoplpushPass_conn_proj {β} (proj : Conn → β) (hproj : ∀ d k x, proj (notifyFn d k x) = proj x)
    (d : Nat) (src dst : Bytes) (first : Bool) (s : Sys) (c : Nat) :
    proj ((brpoplpushPass d src dst first s).2.conn c) = proj (s.conn c) :=
  brpoplpushPass_frame (fun s' => proj (s'.conn c) = proj (s.conn c))
    (conn_proj_frame proj hproj c _).1 (conn_proj_frame proj hproj c _).2 d src dst first s rfl

theorem notifyFn_inTx (d k x) : (notifyFn d k x).inTx = x.inTx := by rw [notifyFn_eq]
theorem notifyFn_closed (d k x) : (notifyFn d k x).closed = x.closed := by rw [notifyFn_eq]
theorem notifyFn_db (d k x) : (notifyFn d k x).db = x.db := by rw [notifyFn_eq]
theorem notifyFn_parked_isSome (d k x) : (notifyFn d k x).parked.isSome = x.parked.isSome := by
  rw [notifyFn_eq]; cases x.parked <;> rfl

/-! ## `parkedPass`, `wakeConn`, `timeoutConn` -/

theorem parkedPass_cases (c : Nat) (p : Parked) :
    (∃ src dst, p.kind = "brpoplpush" ∧ p.keys = [src, dst] ∧ parkedPass c p = brpoplpushPass p.db src dst false) ∨
    (p.kind = "blpop" ∧ parkedPass c p = bpopPass p.db true false p.keys) ∨
    (p.kind ≠ "blpop" ∧ parkedPass c p = bpopPass p.db false false p.keys) := by
  obtain ⟨kind, keys, db, dl, wk⟩ := p
  simp only [parkedPass]
  split
  · exact .inl ⟨_, _, rfl, rfl, rfl⟩
  · exact .inr (.inl ⟨rfl, rfl⟩)
  · rename_i h1 h2
    by_cases hk : kind = "blpop"
    · exact absurd hk h1
    · exact .inr (.inr ⟨hk, rfl⟩)

theorem parkedPass_frame (P : Sys → Prop) (hset : ∀ s i db, P s → P (s.setDbS i db))
    (hmap : ∀ s d k, P s → P (s.mapConns (notifyFn d k))) (c : Nat) (p : Parked) (s : Sys) (h : P s) :
    P (parkedPass c p s).2 := by
  rcases parkedPass_cases c p with ⟨src, dst, _, _, he⟩ | ⟨_, he⟩ | ⟨_, he⟩ <;> rw [he]
  · exact brpoplpushPass_frame P hset hmap _ _ _ _ s h
  · exact bpopPass_frame P hset hmap _ _ _ _ s h
  · exact bpopPass_frame P hset hmap _ _ _ _ s h

theorem parkedPass_not_nil (c : Nat) (p : Parked) (s : Sys) : (parkedPass c p s).1 ≠ .ok (some .nil) := by
  rcases parkedPass_cases c p with ⟨src, dst, _, _, he⟩ | ⟨_, he⟩ | ⟨_, he⟩ <;> rw [he]
  · intro h; obtain ⟨el, he⟩ := brpoplpushPass_reply _ _ _ _ _ _ h; cases he
  · intro h; obtain ⟨k, l, he⟩ := bpopPass_reply _ _ _ _ _ _ h; cases he
  · intro h; obtain ⟨k, l, he⟩ := bpopPass_reply _ _ _ _ _ _ h; cases he

theorem parkedPass_error (c : Nat) (p : Parked) (s : Sys) (e : Err) (h : (parkedPass c p s).1 = .error e) :
    e = Msgs.WRONGTYPE_MSG := by
  rcases parkedPass_cases c p with ⟨src, dst, _, _, he⟩ | ⟨_, he⟩ | ⟨_, he⟩ <;> rw [he] at h
  · exact brpoplpushPass_error _ _ _ _ _ _ h
  · exact (bpopPass_error _ _ _ _ _ _ h).2
  · exact (bpopPass_error _ _ _ _ _ _ h).2

theorem parkedPass_out (c : Nat) (p : Parked) (s : Sys) : (parkedPass c p s).2.out = s.out :=
  parkedPass_frame (fun s' => s'.out = s.out) (fun _ _ _ h => h) (fun _ _ _ h => h) c p s rfl

theorem parkedPass_clocks (c : Nat) (p : Parked) (s : Sys) : (parkedPass c p s).2.clocks = s.clocks :=
  parkedPass_frame (fun s' => s'.clocks = s.clocks) (fun _ _ _ h => h) (fun _ _ _ h => h) c p s rfl

theorem parkedPass_time (c : Nat) (p : Parked) (s : Sys) : (parkedPass c p s).2.srv.time = s.srv.time :=
  parkedPass_frame (fun s' => s'.srv.time = s.srv.time) (fun _ _ _ h => h) (fun _ _ _ h => h) c p s rfl

theorem parkedPass_hasConn (c : Nat) (p : Parked) (s : Sys) (c' : Nat) (h : s.HasConn c') :
    (parkedPass c p s).2.HasConn c' :=
  parkedPass_frame (fun s' => s'.HasConn c') (fun _ _ _ h => h)
    (fun s d k h => (Sys.hasConn_mapConns s _ c' (notifyFn_id d k)).2 h) c p s h

theorem parkedPass_conn_proj {β} (proj : Conn → β) (hproj : ∀ d k x, proj (notifyFn d k x) = proj x)
    (c : Nat) (p : Parked) (s : Sys) (c' : Nat) : proj ((parkedPass c p s).2.conn c') = proj (s.conn c') :=
  parkedPass_frame (fun s' => proj (s'.conn c') = proj (s.conn c'))
    (conn_proj_frame proj hproj c' _).1 (conn_proj_frame proj hproj c' _).2 c p s rfl

theorem nextClock_fst_congr {s s' : Sys} (h1 : s'.clocks = s.clocks) (h2 : s'.srv.time = s.srv.time) :
    (nextClock s').1 = (nextClock s).1 := by
  rw [nextClock_run, nextClock_run, h1]
  cases s.clocks with
  | nil => exact h2
  | cons t rest => rfl

theorem parkedPass_nextClock (c : Nat) (p : Parked) (s : Sys) :
    (nextClock (parkedPass c p s).2).1 = (nextClock s).1 :=
  nextClock_fst_congr (parkedPass_clocks c p s) (parkedPass_time c p s)

theorem Sys.hasConn_of_parked {s : Sys} {c : Nat} {p : Parked} (h : (s.conn c).parked = some p) : s.HasConn c := by
  rcases s.conn_mem_or_default c with hm | he
  · exact ⟨_, hm, s.conn_id c⟩
  · rw [he] at h; cases h

def unpark (x : Conn) : Conn := { x with parked := none }
def stayParked (p : Parked) (x : Conn) : Conn := { x with parked := some { p with woken := false } }

/-- the state `wakeConn` ends in, from the result `res` and final state `s1` of the re-run pass -/
def wakeState (c : Nat) (p : Parked) (res : Except Err (Option Reply)) (s1 : Sys) : Sys :=
  match res with
  | .error e => (s1.updConn c unpark).emitS c (.err (strBytes e))
  | .ok (some r) => (s1.updConn c unpark).emitS c r
  | .ok none =>
    match p.deadline with
    | none => s1.updConn c (stayParked p)
    | some dl =>
      if dl - (nextClock s1).1 ≤ 0 then ((nextClock s1).2.updConn c unpark).emitS c .nil
      else (nextClock s1).2.updConn c (stayParked p)

theorem wakeConn_run (c : Nat) (p : Parked) (s : Sys) (hp : (s.conn c).parked = some p) :
    wakeConn c s = ((), wakeState c p (parkedPass c p s).1 (parkedPass c p s).2) := by
  unfold wakeConn wakeState
  simp only [bind, StateT.bind, getConn_run, hp]
  generalize parkedPass c p s = pr
  obtain ⟨res, s1⟩ := pr
  obtain ⟨kind, keys, db, dl, wk⟩ := p
  simp only
  cases res with
  | error e => simp only [bind, StateT.bind, modifyConn_run, emit_run]; rfl
  | ok o =>
    cases o with
    | some r => simp only [bind, StateT.bind, modifyConn_run, emit_run]; rfl
    | none =>
      simp only
      cases dl with
      | none => rfl
      | some dl =>
        simp only [bind, StateT.bind]
        generalize nextClock s1 = nc
        obtain ⟨t, s2⟩ := nc
        simp only
        split
        · simp only [bind, StateT.bind, modifyConn_run, emit_run]; rfl
        · rfl

theorem timeoutConn_run (c : Nat) (p : Parked) (s : Sys) (hp : (s.conn c).parked = some p) :
    timeoutConn c s = ((), (s.updConn c unpark).emitS c .nil) := by
  unfold timeoutConn
  simp only [bind, StateT.bind, getConn_run, hp, modifyConn_run, emit_run]
  rfl

theorem Sys.nextClock_conn (s : Sys) (c : Nat) : (nextClock s).2.conn c = s.conn c := by
  simp only [Sys.conn_def, nextClock_srv]

theorem Sys.nextClock_hasConn (s : Sys) (c : Nat) : (nextClock s).2.HasConn c ↔ s.HasConn c := by
  simp only [Sys.HasConn, nextClock_srv]

/-- after un-parking and emitting -/
theorem unpark_emit_spec (s1 : Sys) (c : Nat) (r : Reply) (h : s1.HasConn c) :
    (((s1.updConn c unpark).emitS c r).conn c).parked = none ∧
    ((s1.updConn c unpark).emitS c r).out = (if (s1.conn c).closed then s1.out else (c, r) :: s1.out) ∧
    ((s1.updConn c unpark).emitS c r).srv.dbs = s1.srv.dbs ∧
    (∀ c', c' ≠ c → ((s1.updConn c unpark).emitS c r).conn c' = s1.conn c') := by
  have hc : (s1.updConn c unpark).conn c = unpark (s1.conn c) := Sys.conn_updConn_same unpark h (fun _ => rfl)
  refine ⟨?_, ?_, ?_, ?_⟩
  · rw [Sys.emitS_conn, hc]; rfl
  · rw [Sys.emitS_out, hc]; rfl
  · rw [Sys.emitS_srv]; rfl
  · intro c' hne
    rw [Sys.emitS_conn, Sys.conn_updConn_ne unpark hne (fun _ => rfl)]

theorem stay_spec (s1 : Sys) (c : Nat) (p : Parked) (h : s1.HasConn c) :
    ((s1.updConn c (stayParked p)).conn c).parked = some { p with woken := false } ∧
    (s1.updConn c (stayParked p)).out = s1.out ∧
    (s1.updConn c (stayParked p)).srv.dbs = s1.srv.dbs ∧
    (∀ c', c' ≠ c → (s1.updConn c (stayParked p)).conn c' = s1.conn c') := by
  refine ⟨?_, rfl, rfl, ?_⟩
  · rw [Sys.conn_updConn_same (stayParked p) h (fun _ => rfl)]; rfl
  · intro c' hne; exact Sys.conn_updConn_ne (stayParked p) hne (fun _ => rfl)

end FR
