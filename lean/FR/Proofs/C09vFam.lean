import FR.Proofs.C09v
import FR.Proofs.HashSetAlg
import FR.Proofs.Lists
import FR.Proofs.Lrem
/-!
# Helper lemmas for `FR/Props/C09v.lean` — the removing commands, family by family

Each lemma runs the REGISTERED signature and body of a removing command through `runRegular` on an arbitrary database
with unique keys and states: the reply, and — when the command removes the last element — that nothing is stored under
the key afterwards (`Absent`) and that the key was notified.
-/
namespace FR.C09v
open FR FR.Cmd FR.HashSet FR.Proofs
set_option linter.unusedSimpArgs false
set_option linter.unusedVariables false

/-! ## generic helpers -/

/-- a single-key command whose body hands back its item with an EMPTY collection -/
theorem gone_key1 (sig : Sig) (body : Body) (ctx : Ctx) (raw : List Bytes) {db : Db} (nd : NodupKeys db.dict)
    {args : List Arg} {ci : CI} (happ : applyL sig raw db.live = .ok (.ok args [ci]))
    {r : Reply} {v' : Value} (hb : body ctx args [ci] = ret r [{ ci with val := some v', modified := true }])
    (hv : v'.isEmptyColl = true) :
    (runRegular sig body ctx none raw db).reply = r ∧
    Absent (runRegular sig body ctx none raw db).db.dict ci.key ∧
    ci.key ∈ (runRegular sig body ctx none raw db).notified := by
  have hap : (sig.apply raw db).2 = .ok (.ok args [ci]) := by rw [apply_eq sig raw nd, happ]
  have he : EmptiedLast [{ ci with val := some v', modified := true }] ci.key :=
    ⟨[], _, [], rfl, rfl, rfl, by show v'.isEmptyColl = true; exact hv, fun _ h => by cases h⟩
  have := runRegular_emptied sig body ctx raw db hap hb (k := ci.key) he
  refine ⟨?_, this.1, this.2⟩
  rw [runRegular_eq, hap]
  simp only [runTail, hb, ret]


/-! ## lists -/

def lstCI (key : Bytes) (l : List Bytes) (e : Option Int) : CI := ⟨key, some (.list l), e, false, false⟩

theorem ciOf_list {live : Live} {key : Bytes} {l : List Bytes} {e : Option Int} (ty : Option Ty)
    (h : live key = some ⟨.list l, e⟩) : ciOf live ty key = lstCI key l e := by
  unfold ciOf; rw [h]; rfl

theorem typeOK_list {live : Live} {key : Bytes} {l : List Bytes} {e : Option Int}
    (h : live key = some ⟨.list l, e⟩) : typeOK live (some .list) key = true := by
  unfold typeOK; rw [h]; rfl

theorem sig_lpop : sigOf "lpop" = ⟨"lpop", [.key none .unspecified], [.int], false, 1, 0, true⟩ := by decide +kernel
theorem sig_rpop : sigOf "rpop" = ⟨"rpop", [.key none .unspecified], [.int], false, 1, 0, true⟩ := by decide +kernel
theorem sig_lrem : sigOf "lrem" = ⟨"lrem", [.key (some .list) .unspecified, .int, .bytes], [], false, 3, 0, false⟩ := by
  decide +kernel
theorem sig_ltrim : sigOf "ltrim" = ⟨"ltrim", [.key (some .list) .unspecified, .int, .int], [], false, 3, 0, false⟩ := by
  decide +kernel
theorem sig_rpoplpush : sigOf "rpoplpush" =
    ⟨"rpoplpush", [.key (some .list) .nil, .key (some .list) .unspecified], [], false, 2, 0, false⟩ := by decide +kernel
theorem sig_lmove : sigOf "lmove" =
    ⟨"lmove", [.key (some .list) .nil, .key (some .list) .unspecified, .sstr, .sstr], [], false, 4, 0, false⟩ := by
  decide +kernel

/-- the name and body of LPOP / RPOP -/
def popName (left : Bool) : String := if left then "lpop" else "rpop"

theorem applyL_pop1 (left : Bool) (live : Live) (key : Bytes) :
    applyL (sigOf (popName left)) [key] live = .ok (.ok [.key 0] [ciOf live none key]) := by
  cases left
  · show applyL (sigOf "rpop") _ _ = _
    rw [sig_rpop]
    simp [applyL, applyT, Sig.checkArity, Sig.types, p1, p2, Conv.decode, Except.map, typeOK]
  · show applyL (sigOf "lpop") _ _ = _
    rw [sig_lpop]
    simp [applyL, applyT, Sig.checkArity, Sig.types, p1, p2, Conv.decode, Except.map, typeOK]

theorem applyL_popN (left : Bool) (live : Live) (key nb : Bytes) (n : Int) (hn : Conv.int nb = .ok n) :
    applyL (sigOf (popName left)) [key, nb] live = .ok (.ok [.key 0, .int n] [ciOf live none key]) := by
  cases left
  · show applyL (sigOf "rpop") _ _ = _
    rw [sig_rpop]
    simp [applyL, applyT, Sig.checkArity, Sig.types, p1, p2, Conv.decode, Except.map, typeOK, hn]
  · show applyL (sigOf "lpop") _ _ = _
    rw [sig_lpop]
    simp [applyL, applyT, Sig.checkArity, Sig.types, p1, p2, Conv.decode, Except.map, typeOK, hn]


/-- `LPOP key` / `RPOP key` on a list with one element: the element is returned and the key is gone -/
theorem run_pop_last (left : Bool) (ctx : Ctx) (key : Bytes) {db : Db} (nd : NodupKeys db.dict) {x : Bytes}
    {e : Option Int} (hl : db.live key = some ⟨.list [x], e⟩) :
    (runRegular (sigOf (popName left)) (Cmd.listPop left) ctx none [key] db).reply = .bulk x ∧
    Absent (runRegular (sigOf (popName left)) (Cmd.listPop left) ctx none [key] db).db.dict key ∧
    key ∈ (runRegular (sigOf (popName left)) (Cmd.listPop left) ctx none [key] db).notified := by
  have happ := applyL_pop1 left db.live key
  rw [ciOf_list none hl] at happ
  have := gone_key1 _ (Cmd.listPop left) ctx [key] nd happ (r := .bulk x) (v' := .list []) (by
    rw [listPop_single_body left ctx [lstCI key [x] e] 0 [x] rfl (by simp)]
    cases left <;> rfl) rfl
  exact this

/-- `LPOP key n` / `RPOP key n` with `n` not smaller than the length of the list: all elements are returned (in pop
order) and the key is gone -/
theorem run_pop_all (left : Bool) (ctx : Ctx) (key nb : Bytes) (n : Int) {db : Db} (nd : NodupKeys db.dict)
    {l : List Bytes} {e : Option Int} (hl : db.live key = some ⟨.list l, e⟩) (hne : l ≠ [])
    (hn : Conv.int nb = .ok n) (hall : (l.length : Int) ≤ n) :
    (runRegular (sigOf (popName left)) (Cmd.listPop left) ctx none [key, nb] db).reply =
      Reply.bulks (if left then l else l.reverse) ∧
    Absent (runRegular (sigOf (popName left)) (Cmd.listPop left) ctx none [key, nb] db).db.dict key ∧
    key ∈ (runRegular (sigOf (popName left)) (Cmd.listPop left) ctx none [key, nb] db).notified := by
  have happ := applyL_popN left db.live key nb n hn
  rw [ciOf_list none hl] at happ
  have hlen : 0 < l.length := List.length_pos_iff.2 hne
  have htn : l.length ≤ n.toNat := by omega
  have := gone_key1 _ (Cmd.listPop left) ctx [key, nb] nd happ
    (r := Reply.bulks (if left then l else l.reverse)) (v' := .list []) (by
    rw [listPop_count_body left ctx [lstCI key l e] 0 n l rfl hne (by omega) (by omega)]
    cases left
    · simp only [Cmd.popRightN, Bool.false_eq_true, if_false]
      have h0 : l.length - n.toNat = 0 := by omega
      rw [h0]
      simp only [List.drop_zero, List.take_zero]
      rfl
    · simp only [Cmd.popLeftN, if_true]
      rw [List.take_of_length_le htn, List.drop_of_length_le htn]
      rfl) rfl
  exact this


theorem applyL_lrem (live : Live) (key cb v : Bytes) (count : Int) (hc : Conv.int cb = .ok count)
    (hty : typeOK live (some .list) key = true) :
    applyL (sigOf "lrem") [key, cb, v] live =
      .ok (.ok [.key 0, .int count, .raw v] [ciOf live (some .list) key]) := by
  rw [sig_lrem]
  simp [applyL, applyT, Sig.checkArity, Sig.types, p1, p2, Conv.decode, Except.map, hc, hty]

theorem applyL_ltrim (live : Live) (key sb eb : Bytes) (a b : Int) (hs : Conv.int sb = .ok a)
    (he : Conv.int eb = .ok b) (hty : typeOK live (some .list) key = true) :
    applyL (sigOf "ltrim") [key, sb, eb] live =
      .ok (.ok [.key 0, .int a, .int b] [ciOf live (some .list) key]) := by
  rw [sig_ltrim]
  simp [applyL, applyT, Sig.checkArity, Sig.types, p1, p2, Conv.decode, Except.map, hs, he, hty]

/-- `LREM key count v` removing as many elements as the list has (every element is `v` and `count` allows it): the
reply is the length and the key is gone -/
theorem run_lrem_all (ctx : Ctx) (key cb v : Bytes) (count : Int) {db : Db} (nd : NodupKeys db.dict)
    {l : List Bytes} {e : Option Int} (hl : db.live key = some ⟨.list l, e⟩) (hne : l ≠ [])
    (hc : Conv.int cb = .ok count)
    (hall : (if count = 0 then l.count v else min count.natAbs (l.count v)) = l.length) :
    (runRegular (sigOf "lrem") Cmd.lrem ctx none [key, cb, v] db).reply = .int (l.length : Nat) ∧
    Absent (runRegular (sigOf "lrem") Cmd.lrem ctx none [key, cb, v] db).db.dict key ∧
    key ∈ (runRegular (sigOf "lrem") Cmd.lrem ctx none [key, cb, v] db).notified := by
  have happ := applyL_lrem db.live key cb v count hc (typeOK_list hl)
  rw [ciOf_list _ hl] at happ
  have hrm : (lremRm l count v).length = l.length := by rw [lremRm_length]; exact hall
  have hsub : (lremRm l count v).Sublist (List.range' 0 l.length) :=
    (lremRm_sublist l count v).trans (occurrences_sublist l v)
  have hkeep : lremKeep l (lremRm l count v) = [] := by
    have := lremKeep_length l (lremRm l count v) hsub
    exact List.eq_nil_of_length_eq_zero (by omega)
  have hnonempty : (lremRm l count v).isEmpty = false := by
    cases h : lremRm l count v with
    | nil => rw [h] at hrm; exact absurd hrm.symm (by simpa using hne)
    | cons _ _ => rfl
  have := gone_key1 _ Cmd.lrem ctx [key, cb, v] nd happ (r := .int (l.length : Nat)) (v' := .list []) (by
    rw [lrem_body]
    have e1 : Cmd.listOf (ciAt [lstCI key l e] 0) = l := rfl
    simp only [e1, hnonempty, Bool.false_eq_true, if_false, hkeep, hrm]
    rfl) rfl
  exact this

/-- `LTRIM key a b` with an empty window: OK and the key is gone -/
theorem run_ltrim_all (ctx : Ctx) (key sb eb : Bytes) (a b : Int) {db : Db} (nd : NodupKeys db.dict)
    {l : List Bytes} {e : Option Int} (hl : db.live key = some ⟨.list l, e⟩) (hne : l ≠ [])
    (hs : Conv.int sb = .ok a) (he : Conv.int eb = .ok b) (hwin : FR.Spec.lrangeSpec l a b = []) :
    (runRegular (sigOf "ltrim") Cmd.ltrim ctx none [key, sb, eb] db).reply = .ok ∧
    Absent (runRegular (sigOf "ltrim") Cmd.ltrim ctx none [key, sb, eb] db).db.dict key ∧
    key ∈ (runRegular (sigOf "ltrim") Cmd.ltrim ctx none [key, sb, eb] db).notified := by
  have happ := applyL_ltrim db.live key sb eb a b hs he (typeOK_list hl)
  rw [ciOf_list _ hl] at happ
  have ht : (lstCI key l e).truthy = true := by
    unfold CI.truthy lstCI
    cases l with
    | nil => exact absurd rfl hne
    | cons x xs => rfl
  have := gone_key1 _ Cmd.ltrim ctx [key, sb, eb] nd happ (r := .ok) (v' := .list []) (by
    rw [ltrim_body]
    have e0 : ciAt [lstCI key l e] 0 = lstCI key l e := rfl
    have e1 : Cmd.listOf (lstCI key l e) = l := rfl
    simp only [e0, ht, Bool.not_true, Bool.false_eq_true, if_false, e1, hwin, List.length_nil]
    have : ((0 : Nat) != l.length) = true := by
      have : 0 < l.length := List.length_pos_iff.2 hne
      simp; omega
    rw [this]
    rfl) rfl
  exact this


/-- a two-key command whose body empties its FIRST item and writes something to a different key -/
theorem gone_src2 (sig : Sig) (body : Body) (ctx : Ctx) (raw : List Bytes) {db : Db} (nd : NodupKeys db.dict)
    {args : List Arg} {cs cd : CI} (happ : applyL sig raw db.live = .ok (.ok args [cs, cd]))
    {r : Reply} {v' : Value} {cd' : CI}
    (hb : body ctx args [cs, cd] = ret r [{ cs with val := some v', modified := true }, cd'])
    (hv : v'.isEmptyColl = true) (hne : cd'.key ≠ cs.key) :
    (runRegular sig body ctx none raw db).reply = r ∧
    Absent (runRegular sig body ctx none raw db).db.dict cs.key ∧
    cs.key ∈ (runRegular sig body ctx none raw db).notified := by
  have hap : (sig.apply raw db).2 = .ok (.ok args [cs, cd]) := by rw [apply_eq sig raw nd, happ]
  have he : EmptiedLast [{ cs with val := some v', modified := true }, cd'] cs.key :=
    ⟨[], _, [cd'], rfl, rfl, rfl, by show v'.isEmptyColl = true; exact hv, fun c' hc' hk => by
      simp only [List.mem_singleton] at hc'
      subst hc'
      exact absurd hk hne⟩
  have := runRegular_emptied sig body ctx raw db hap hb (k := cs.key) he
  refine ⟨?_, this.1, this.2⟩
  rw [runRegular_eq, hap]
  simp only [runTail, hb, ret]

theorem applyL_rpoplpush (live : Live) (src dst : Bytes) (it : Item) (hs : live src = some it)
    (hts : typeOK live (some .list) src = true) (htd : typeOK live (some .list) dst = true) :
    applyL (sigOf "rpoplpush") [src, dst] live =
      .ok (.ok [.key 0, .key 1] [ciOf live (some .list) src, ciOf live (some .list) dst]) := by
  rw [sig_rpoplpush]
  simp [applyL, applyT, Sig.checkArity, Sig.types, p1, p2, Conv.decode, Except.map, hs, hts, htd]

theorem applyL_lmove (live : Live) (src dst a b : Bytes) (it : Item) (hs : live src = some it)
    (hts : typeOK live (some .list) src = true) (htd : typeOK live (some .list) dst = true) :
    applyL (sigOf "lmove") [src, dst, a, b] live =
      .ok (.ok [.key 0, .key 1, .raw a, .raw b] [ciOf live (some .list) src, ciOf live (some .list) dst]) := by
  rw [sig_lmove]
  simp [applyL, applyT, Sig.checkArity, Sig.types, p1, p2, Conv.decode, Except.map, hs, hts, htd]

theorem ciOf_key' (live : Live) (ty : Option Ty) (k : Bytes) : (ciOf live ty k).key = k := ciOf_key live ty k

/-- the core of RPOPLPUSH / LMOVE when the source holds ONE element and the destination is another key -/
theorem moveCore_last (key : Bytes) (x : Bytes) (e : Option Int) (cd : CI) (hne : cd.key ≠ key) (fl tl : Bool) :
    Cmd.moveCore [lstCI key [x] e, cd] 0 1 fl tl =
      ret (.bulk x) [{ lstCI key [x] e with val := some (.list []), modified := true },
        { cd with val := some (.list (if tl then x :: Cmd.listOf cd else Cmd.listOf cd ++ [x])), modified := true }] := by
  unfold Cmd.moveCore
  have e0 : ciAt [lstCI key [x] e, cd] 0 = lstCI key [x] e := rfl
  have e1 : ciAt [lstCI key [x] e, cd] 1 = cd := rfl
  have e2 : Cmd.listOf (lstCI key [x] e) = [x] := rfl
  have hk : ((lstCI key [x] e).key == cd.key) = false := by
    show (key == cd.key) = false
    simpa using fun h => hne h.symm
  simp only [e0, e1, e2, hk, Bool.false_eq_true, if_false]
  cases fl <;> cases tl <;> rfl

/-- `RPOPLPUSH src dst` with a one-element source and a different destination: the source key is gone -/
theorem run_rpoplpush_last (ctx : Ctx) (src dst : Bytes) {db : Db} (nd : NodupKeys db.dict) {x : Bytes}
    {e : Option Int} (hl : db.live src = some ⟨.list [x], e⟩) (hd : typeOK db.live (some .list) dst = true)
    (hne : dst ≠ src) :
    (runRegular (sigOf "rpoplpush") Cmd.rpoplpush ctx none [src, dst] db).reply = .bulk x ∧
    Absent (runRegular (sigOf "rpoplpush") Cmd.rpoplpush ctx none [src, dst] db).db.dict src ∧
    src ∈ (runRegular (sigOf "rpoplpush") Cmd.rpoplpush ctx none [src, dst] db).notified := by
  have happ := applyL_rpoplpush db.live src dst _ hl (typeOK_list hl) hd
  rw [ciOf_list _ hl] at happ
  have hk : (ciOf db.live (some .list) dst).key ≠ src := by rw [ciOf_key]; exact hne
  have := gone_src2 _ Cmd.rpoplpush ctx [src, dst] nd happ (r := .bulk x) (v' := .list [])
    (hb := by rw [rpoplpush_body]; exact moveCore_last src x e _ hk false true) rfl
    (by show (ciOf db.live (some .list) dst).key ≠ src; exact hk)
  exact this

/-- `LMOVE src dst LEFT|RIGHT LEFT|RIGHT` with a one-element source and a different destination -/
theorem run_lmove_last (ctx : Ctx) (src dst a b : Bytes) {db : Db} (nd : NodupKeys db.dict) {x : Bytes}
    {e : Option Int} (hl : db.live src = some ⟨.list [x], e⟩) (hd : typeOK db.live (some .list) dst = true)
    (hne : dst ≠ src)
    (ha : casenorm a = strBytes "left" ∨ casenorm a = strBytes "right")
    (hb : casenorm b = strBytes "left" ∨ casenorm b = strBytes "right") :
    (runRegular (sigOf "lmove") Cmd.lmove ctx none [src, dst, a, b] db).reply = .bulk x ∧
    Absent (runRegular (sigOf "lmove") Cmd.lmove ctx none [src, dst, a, b] db).db.dict src ∧
    src ∈ (runRegular (sigOf "lmove") Cmd.lmove ctx none [src, dst, a, b] db).notified := by
  have happ := applyL_lmove db.live src dst a b _ hl (typeOK_list hl) hd
  rw [ciOf_list _ hl] at happ
  have hk : (ciOf db.live (some .list) dst).key ≠ src := by rw [ciOf_key]; exact hne
  have hbody : Cmd.lmove ctx [.key 0, .key 1, .raw a, .raw b] [lstCI src [x] e, ciOf db.live (some .list) dst] =
      Cmd.moveCore [lstCI src [x] e, ciOf db.live (some .list) dst] 0 1 (casenorm a == strBytes "left")
        (casenorm b == strBytes "left") := by
    unfold Cmd.lmove
    have h1 : ¬ ((casenorm a != strBytes "left" && casenorm a != strBytes "right") = true) := by
      rcases ha with h | h <;> simp [h]
    have h2 : ¬ ((casenorm b != strBytes "left" && casenorm b != strBytes "right") = true) := by
      rcases hb with h | h <;> simp [h]
    simp only [h1, h2, if_false, Bool.false_eq_true]
  have := gone_src2 _ Cmd.lmove ctx [src, dst, a, b] nd happ (r := .bulk x) (v' := .list [])
    (hb := by rw [hbody]; exact moveCore_last src x e _ hk _ _) rfl
    (by show (ciOf db.live (some .list) dst).key ≠ src; exact hk)
  exact this


/-! ## sorted sets -/

def zsCI (key : Bytes) (z : ZSet) (e : Option Int) : CI := ⟨key, some (.zset z), e, false, false⟩

theorem ciOf_zset {live : Live} {key : Bytes} {z : ZSet} {e : Option Int} (ty : Option Ty)
    (h : live key = some ⟨.zset z, e⟩) : ciOf live ty key = zsCI key z e := by
  unfold ciOf; rw [h]; rfl

theorem typeOK_zset {live : Live} {key : Bytes} {z : ZSet} {e : Option Int}
    (h : live key = some ⟨.zset z, e⟩) : typeOK live (some .zset) key = true := by
  unfold typeOK; rw [h]; rfl

theorem discard_bylex (z : ZSet) (m : Bytes) : (z.discard m).bylex = z.bylex.filter (fun p => p.1 != m) := by
  unfold ZSet.discard ZSet.get
  cases h : z.bylex.lookup m with
  | none =>
    simp only
    rw [List.lookup_eq_none_iff] at h
    symm
    rw [List.filter_eq_self]
    intro p hp
    have := h p hp
    simp only [bne_iff_ne, ne_eq] at this ⊢
    exact fun e => this e.symm
  | some _ => rfl

theorem foldl_discard_bylex (ms : List Bytes) (z : ZSet) :
    (ms.foldl ZSet.discard z).bylex = z.bylex.filter (fun p => !ms.contains p.1) := by
  induction ms generalizing z with
  | nil =>
    simp only [List.foldl_nil, List.contains_nil, Bool.not_false]
    exact (List.filter_eq_self.2 (fun _ _ => rfl)).symm
  | cons m ms ih =>
    rw [List.foldl_cons, ih, discard_bylex, List.filter_filter]
    apply List.filter_congr
    intro p _
    by_cases h : p.1 = m
    · simp [h]
    · have : (p.1 != m) = true := by simpa using h
      have h' : (p.1 == m) = false := by simpa using h
      simp only [this, Bool.and_true, List.contains_cons, h', Bool.false_or]

/-- the removal covers every member: the sorted set becomes empty -/
theorem foldl_discard_all {ms : List Bytes} {z : ZSet} (hall : ∀ p ∈ z.bylex, p.1 ∈ ms) :
    (ms.foldl ZSet.discard z).bylex = [] := by
  rw [foldl_discard_bylex, List.filter_eq_nil_iff]
  intro p hp
  simpa using hall p hp

theorem zremCore_all (key : Bytes) (z : ZSet) (e : Option Int) (ms : List Bytes) (hz : z.bylex ≠ [])
    (hall : ∀ p ∈ z.bylex, p.1 ∈ ms) :
    Cmd.zremCore [zsCI key z e] 0 ms =
      ret (.int (z.len : Nat)) [{ zsCI key z e with val := some (.zset (ms.foldl ZSet.discard z)), modified := true }] := by
  unfold Cmd.zremCore
  have e0 : Cmd.zsetOf (ciAt [zsCI key z e] 0) = z := rfl
  have hlen : (ms.foldl ZSet.discard z).len = 0 := by
    unfold ZSet.len; rw [foldl_discard_all hall]; rfl
  have hpos : 0 < z.len := List.length_pos_iff.2 hz
  simp only [e0, hlen, Nat.sub_zero]
  rw [if_pos hpos]
  rfl

/-- the generic step for the four removing sorted-set commands -/
theorem run_zrem_generic (name : String) (body : Body) (ctx : Ctx) (raw : List Bytes) (args : List Arg) (key : Bytes)
    {db : Db} (nd : NodupKeys db.dict) {z : ZSet} {e : Option Int} (hl : db.live key = some ⟨.zset z, e⟩)
    (hz : z.bylex ≠ []) (ms : List Bytes)
    (happ : applyL (sigOf name) raw db.live = .ok (.ok args [ciOf db.live (some .zset) key]))
    (hbody : body ctx args [zsCI key z e] = Cmd.zremCore [zsCI key z e] 0 ms)
    (hall : ∀ p ∈ z.bylex, p.1 ∈ ms) :
    (runRegular (sigOf name) body ctx none raw db).reply = .int (z.len : Nat) ∧
    Absent (runRegular (sigOf name) body ctx none raw db).db.dict key ∧
    key ∈ (runRegular (sigOf name) body ctx none raw db).notified := by
  rw [ciOf_zset _ hl] at happ
  have := gone_key1 _ body ctx raw nd happ (r := .int (z.len : Nat)) (v' := .zset (ms.foldl ZSet.discard z))
    (by rw [hbody]; exact zremCore_all key z e ms hz hall)
    (by show (ms.foldl ZSet.discard z).bylex.isEmpty = true; rw [foldl_discard_all hall]; rfl)
  exact this

theorem sig_zremrangebyrank : sigOf "zremrangebyrank" =
    ⟨"zremrangebyrank", [.key (some .zset) .unspecified, .int, .int], [], false, 3, 0, false⟩ := by decide +kernel
theorem sig_zremrangebyscore : sigOf "zremrangebyscore" =
    ⟨"zremrangebyscore", [.key (some .zset) .unspecified, .scoreTest, .scoreTest], [], false, 3, 0, false⟩ := by
  decide +kernel
theorem sig_zremrangebylex : sigOf "zremrangebylex" =
    ⟨"zremrangebylex", [.key (some .zset) .unspecified, .stringTest, .stringTest], [], false, 3, 0, false⟩ := by
  decide +kernel

/-- `ZREM key m …` naming every member: the reply is the cardinality and the key is gone -/
theorem run_zrem_all (ctx : Ctx) (key m : Bytes) (rest : List Bytes) {db : Db} (nd : NodupKeys db.dict) {z : ZSet}
    {e : Option Int} (hl : db.live key = some ⟨.zset z, e⟩) (hz : z.bylex ≠ [])
    (hall : ∀ p ∈ z.bylex, p.1 ∈ m :: rest) :
    (runRegular (sigOf "zrem") Cmd.zrem ctx none (key :: m :: rest) db).reply = .int (z.len : Nat) ∧
    Absent (runRegular (sigOf "zrem") Cmd.zrem ctx none (key :: m :: rest) db).db.dict key ∧
    key ∈ (runRegular (sigOf "zrem") Cmd.zrem ctx none (key :: m :: rest) db).notified :=
  run_zrem_generic "zrem" Cmd.zrem ctx _ _ key nd hl hz (m :: rest)
    (applyL_key1_ok (sigOf "zrem") (some .zset) 1 rfl (by decide) key (m :: rest)
      (arity_var "zrem" _ 2 rfl rfl (by simp)) (typeOK_zset hl))
    (by simp only [Cmd.zrem, rawArgs_map]) hall

/-- `ZREMRANGEBYRANK key a b` whose rank window covers every member -/
theorem run_zremrangebyrank_all (ctx : Ctx) (key sb eb : Bytes) (a b : Int) {db : Db} (nd : NodupKeys db.dict)
    {z : ZSet} {e : Option Int} (hl : db.live key = some ⟨.zset z, e⟩) (hz : z.bylex ≠ [])
    (hs : Conv.int sb = .ok a) (he : Conv.int eb = .ok b)
    (hall : ∀ p ∈ z.bylex, p.1 ∈ (Py.slice z.byscore (fixRange a b z.len).1 (fixRange a b z.len).2).map Prod.snd) :
    (runRegular (sigOf "zremrangebyrank") Cmd.zremrangebyrank ctx none [key, sb, eb] db).reply = .int (z.len : Nat) ∧
    Absent (runRegular (sigOf "zremrangebyrank") Cmd.zremrangebyrank ctx none [key, sb, eb] db).db.dict key ∧
    key ∈ (runRegular (sigOf "zremrangebyrank") Cmd.zremrangebyrank ctx none [key, sb, eb] db).notified :=
  run_zrem_generic "zremrangebyrank" Cmd.zremrangebyrank ctx _ [.key 0, .int a, .int b] key nd hl hz _
    (by
      rw [sig_zremrangebyrank]
      simp [applyL, applyT, Sig.checkArity, Sig.types, p1, p2, Conv.decode, Except.map, hs, he, typeOK_zset hl])
    rfl hall

/-- `ZREMRANGEBYSCORE key min max` whose score interval covers every member -/
theorem run_zremrangebyscore_all (ctx : Ctx) (key mnb mxb : Bytes) (mn mx : Dbl) (mne mxe : Bool) {db : Db}
    (nd : NodupKeys db.dict) {z : ZSet} {e : Option Int} (hl : db.live key = some ⟨.zset z, e⟩) (hz : z.bylex ≠ [])
    (hs : Conv.scoreTest mnb = .ok (mn, mne)) (he : Conv.scoreTest mxb = .ok (mx, mxe))
    (hall : ∀ p ∈ z.bylex, p.1 ∈ ((z.irange mn (Cmd.lowerTail mne) mx (Cmd.upperTail mxe) true true).map Prod.snd)) :
    (runRegular (sigOf "zremrangebyscore") Cmd.zremrangebyscore ctx none [key, mnb, mxb] db).reply =
      .int (z.len : Nat) ∧
    Absent (runRegular (sigOf "zremrangebyscore") Cmd.zremrangebyscore ctx none [key, mnb, mxb] db).db.dict key ∧
    key ∈ (runRegular (sigOf "zremrangebyscore") Cmd.zremrangebyscore ctx none [key, mnb, mxb] db).notified :=
  run_zrem_generic "zremrangebyscore" Cmd.zremrangebyscore ctx _ [.key 0, .score mn mne, .score mx mxe] key nd hl hz _
    (by
      rw [sig_zremrangebyscore]
      simp [applyL, applyT, Sig.checkArity, Sig.types, p1, p2, Conv.decode, Except.map, hs, he, typeOK_zset hl])
    rfl hall

/-- `ZREMRANGEBYLEX key min max` whose lexical interval covers every member -/
theorem run_zremrangebylex_all (ctx : Ctx) (key mnb mxb : Bytes) (mn mx : LexB) (mne mxe : Bool) {db : Db}
    (nd : NodupKeys db.dict) {z : ZSet} {e : Option Int} (hl : db.live key = some ⟨.zset z, e⟩) (hz : z.bylex ≠ [])
    (hs : Conv.stringTest mnb = .ok (mn, mne)) (he : Conv.stringTest mxb = .ok (mx, mxe))
    (hall : ∀ p ∈ z.bylex, p.1 ∈ z.irangeLex mn mx (!mne) (!mxe)) :
    (runRegular (sigOf "zremrangebylex") Cmd.zremrangebylex ctx none [key, mnb, mxb] db).reply =
      .int (z.len : Nat) ∧
    Absent (runRegular (sigOf "zremrangebylex") Cmd.zremrangebylex ctx none [key, mnb, mxb] db).db.dict key ∧
    key ∈ (runRegular (sigOf "zremrangebylex") Cmd.zremrangebylex ctx none [key, mnb, mxb] db).notified :=
  run_zrem_generic "zremrangebylex" Cmd.zremrangebylex ctx _ [.key 0, .lex mn mne, .lex mx mxe] key nd hl hz _
    (by
      rw [sig_zremrangebylex]
      simp [applyL, applyT, Sig.checkArity, Sig.types, p1, p2, Conv.decode, Except.map, hs, he, typeOK_zset hl])
    rfl hall


/-! ## hashes and sets -/

/-- variant of `gone_key1` for bodies that also consume hints -/
theorem gone_key1' (sig : Sig) (body : Body) (ctx : Ctx) (raw : List Bytes) {db : Db} (nd : NodupKeys db.dict)
    {args : List Arg} {ci : CI} (happ : applyL sig raw db.live = .ok (.ok args [ci]))
    {o : BodyOut} {v' : Value} (hb : body ctx args [ci] = .ok o)
    (ho : o.cis = [{ ci with val := some v', modified := true }]) (hv : v'.isEmptyColl = true) :
    (runRegular sig body ctx none raw db).reply = o.reply ∧
    Absent (runRegular sig body ctx none raw db).db.dict ci.key ∧
    ci.key ∈ (runRegular sig body ctx none raw db).notified := by
  have hap : (sig.apply raw db).2 = .ok (.ok args [ci]) := by rw [apply_eq sig raw nd, happ]
  have he : EmptiedLast o.cis ci.key := by
    rw [ho]
    exact ⟨[], _, [], rfl, rfl, rfl, by show v'.isEmptyColl = true; exact hv, fun _ h => by cases h⟩
  have := runRegular_emptied sig body ctx raw db hap hb (k := ci.key) he
  refine ⟨?_, this.1, this.2⟩
  rw [runRegular_eq, hap]
  simp only [runTail, hb]

theorem ciOf_hash {live : Live} {key : Bytes} {h : HashSet.HashV} {e : Option Int} (ty : Option Ty)
    (hl : live key = some ⟨.hash h, e⟩) : ciOf live ty key = hashCI key h e := by
  unfold ciOf; rw [hl]; rfl

theorem typeOK_hash {live : Live} {key : Bytes} {h : HashSet.HashV} {e : Option Int}
    (hl : live key = some ⟨.hash h, e⟩) : typeOK live (some .hash) key = true := by
  unfold typeOK; rw [hl]; rfl

theorem ciOf_set {live : Live} {key : Bytes} {s : List Bytes} {e : Option Int} (ty : Option Ty)
    (hl : live key = some ⟨.set s, e⟩) : ciOf live ty key = setCI key s e := by
  unfold ciOf; rw [hl]; rfl

theorem typeOK_set {live : Live} {key : Bytes} {s : List Bytes} {e : Option Int}
    (hl : live key = some ⟨.set s, e⟩) : typeOK live (some .set) key = true := by
  unfold typeOK; rw [hl]; rfl

theorem hdelRec_pos : ∀ (fs : List Bytes) (h : HashSet.HashV), h ≠ [] → (∀ p ∈ h, p.1 ∈ fs) → 0 < (hdelRec h fs).2
  | [], h, hne, hall => by
    cases h with
    | nil => exact absurd rfl hne
    | cons p ps => have := hall p (by simp); cases this
  | f :: fs, h, hne, hall => by
    simp only [hdelRec]
    split
    · simp
    · rename_i hf
      apply hdelRec_pos fs h hne
      intro p hp
      rcases List.mem_cons.1 (hall p hp) with e | hm
      · exfalso
        apply hf
        rw [List.any_eq_true]
        exact ⟨p, hp, by simp [e]⟩
      · exact hm

/-- `HDEL key f …` naming every field of the hash: the reply is the number of fields removed and the key is gone -/
theorem run_hdel_all (ctx : Ctx) (key f : Bytes) (rest : List Bytes) {db : Db} (nd : NodupKeys db.dict) {h : HashSet.HashV}
    {e : Option Int} (hl : db.live key = some ⟨.hash h, e⟩) (hne : h ≠ []) (hall : ∀ p ∈ h, p.1 ∈ f :: rest) :
    (runRegular (sigOf "hdel") Cmd.hdel ctx none (key :: f :: rest) db).reply = .int ((hdelRec h (f :: rest)).2 : Nat) ∧
    0 < (hdelRec h (f :: rest)).2 ∧
    Absent (runRegular (sigOf "hdel") Cmd.hdel ctx none (key :: f :: rest) db).db.dict key ∧
    key ∈ (runRegular (sigOf "hdel") Cmd.hdel ctx none (key :: f :: rest) db).notified := by
  have happ := applyL_key1_ok (sigOf "hdel") (some .hash) 1 rfl (by decide) key (f :: rest)
    (arity_var "hdel" _ 2 rfl rfl (by simp)) (typeOK_hash hl)
  rw [ciOf_hash _ hl] at happ
  have hpos := hdelRec_pos (f :: rest) h hne hall
  have hnil : (hdelRec h (f :: rest)).1 = [] := by
    rw [hdelRec_fst, List.filter_eq_nil_iff]
    intro p hp
    have hm : (f :: rest).contains p.1 = true := List.contains_iff_mem.2 (hall p hp)
    rw [hm]; simp
  have := gone_key1 _ Cmd.hdel ctx (key :: f :: rest) nd happ (r := .int ((hdelRec h (f :: rest)).2 : Nat))
    (v' := .hash (hdelRec h (f :: rest)).1) (by rw [body_hdel, if_pos hpos]) (by rw [hnil]; rfl)
  exact ⟨this.1, hpos, this.2⟩

/-- `SREM key m …` naming every member of the set: the reply is the cardinality and the key is gone -/
theorem run_srem_all (ctx : Ctx) (key m : Bytes) (rest : List Bytes) {db : Db} (nd : NodupKeys db.dict)
    {s : List Bytes} {e : Option Int} (hl : db.live key = some ⟨.set s, e⟩) (hne : s ≠ [])
    (hall : ∀ x ∈ s, x ∈ m :: rest) :
    (runRegular (sigOf "srem") Cmd.srem ctx none (key :: m :: rest) db).reply = .int (s.length : Nat) ∧
    Absent (runRegular (sigOf "srem") Cmd.srem ctx none (key :: m :: rest) db).db.dict key ∧
    key ∈ (runRegular (sigOf "srem") Cmd.srem ctx none (key :: m :: rest) db).notified := by
  have happ := applyL_key1_ok (sigOf "srem") (some .set) 1 rfl (by decide) key (m :: rest)
    (arity_var "srem" _ 2 rfl rfl (by simp)) (typeOK_set hl)
  rw [ciOf_set _ hl] at happ
  have hd : Cmd.setDiff s (m :: rest) = [] := by
    unfold Cmd.setDiff
    rw [List.filter_eq_nil_iff]
    intro x hx
    have hm : (m :: rest).contains x = true := List.contains_iff_mem.2 (hall x hx)
    show (!(m :: rest).contains x) ≠ true
    rw [hm]; simp
  have hpos : 0 < s.length := List.length_pos_iff.2 hne
  have := gone_key1 _ Cmd.srem ctx (key :: m :: rest) nd happ (r := .int (s.length : Nat)) (v' := .set []) (by
    simp only [Cmd.srem, rawArgs_map]
    have e1 : Cmd.setOf (ciAt [setCI key s e] 0) = s := rfl
    rw [e1, hd]
    simp only [List.length_nil, Nat.sub_zero]
    rw [if_pos hpos]
    rfl) rfl
  exact this

theorem sig_spop : sigOf "spop" = ⟨"spop", [.key (some .set) .unspecified], [.int], false, 1, 0, true⟩ := by
  decide +kernel

/-- `SPOP key` on a set with one member (the recorded random choice must be that member) -/
theorem run_spop_last (ctx : Ctx) (key : Bytes) {db : Db} (nd : NodupKeys db.dict) {x : Bytes} {e : Option Int}
    (hl : db.live key = some ⟨.set [x], e⟩) (rest : List (List Bytes)) (hp : ctx.picks = [x] :: rest) :
    (runRegular (sigOf "spop") Cmd.spop ctx none [key] db).reply = .bulk x ∧
    Absent (runRegular (sigOf "spop") Cmd.spop ctx none [key] db).db.dict key ∧
    key ∈ (runRegular (sigOf "spop") Cmd.spop ctx none [key] db).notified := by
  have happ : applyL (sigOf "spop") [key] db.live = .ok (.ok [.key 0] [ciOf db.live (some .set) key]) := by
    rw [sig_spop]
    simp [applyL, applyT, Sig.checkArity, Sig.types, p1, p2, Conv.decode, Except.map, typeOK_set hl]
  rw [ciOf_set _ hl] at happ
  have hb : Cmd.spop ctx [.key 0] [setCI key [x] e] =
      .ok { reply := .bulk x, cis := [{ setCI key [x] e with val := some (.set []), modified := true }],
            picksUsed := 1 } := by
    have e1 : Cmd.setOf (ciAt [setCI key [x] e] 0) = [x] := rfl
    simp only [Cmd.spop, Cmd.intArgs, List.length_nil, e1, List.head?_nil, Cmd.srandCore, hp]
    simp [Cmd.setDiff, Cmd.putSet, ciAt]
  have := gone_key1' _ Cmd.spop ctx [key] nd happ (v' := .set []) hb rfl rfl
  exact this

/-- `SMOVE src dst m` when `m` is the only member of the source and the destination is another key -/
theorem run_smove_last (ctx : Ctx) (src dst m : Bytes) {db : Db} (nd : NodupKeys db.dict) {es : Option Int}
    (hl : db.live src = some ⟨.set [m], es⟩) {sd : List Bytes} {ed : Option Int}
    (hvd : setView db.live dst = some (sd, ed)) (hne : dst ≠ src) :
    (runRegular (sigOf "smove") Cmd.smove ctx none [src, dst, m] db).reply = .int 1 ∧
    Absent (runRegular (sigOf "smove") Cmd.smove ctx none [src, dst, m] db).db.dict src ∧
    src ∈ (runRegular (sigOf "smove") Cmd.smove ctx none [src, dst, m] db).notified := by
  have hvs : setView db.live src = some ([m], es) := by unfold setView; rw [hl]
  have happ := smove_happ src dst m hl hvs hvd
  have hb : Cmd.smove ctx [.key 0, .key 1, .raw m] [setCI src [m] es, setCI dst sd ed] =
      ret (.int 1)
        [{ setCI src [m] es with val := some (.set []), modified := true },
         { setCI dst sd ed with val := some (.set (Cmd.setIns sd m)), modified := true }] := by
    have hc : (Cmd.setOf (ciAt [setCI src [m] es, setCI dst sd ed] 0)).contains m = true := by
      show [m].contains m = true
      simp
    simp only [Cmd.smove, hc, Bool.not_true, Bool.false_eq_true, if_false]
    have hk : ((ciAt [setCI src [m] es, setCI dst sd ed] 0).key ==
        (ciAt [setCI src [m] es, setCI dst sd ed] 1).key) = false := by
      show (src == dst) = false
      simpa using fun h => hne h.symm
    rw [if_neg (by rw [hk]; simp)]
    have : List.filter (fun x => x != m) (Cmd.setOf (ciAt [setCI src [m] es, setCI dst sd ed] 0)) = [] := by
      show List.filter (fun x => x != m) [m] = []
      simp
    rw [this]
    rfl
  exact gone_src2 _ Cmd.smove ctx [src, dst, m] nd happ (r := .int 1) (v' := .set []) (hb := hb) rfl
    (by show dst ≠ src; exact hne)

/-- `SDIFFSTORE` / `SINTERSTORE` / `SUNIONSTORE dst k …` with an EMPTY result (the reply is 0): nothing is stored
under `dst` afterwards, whatever it held before -/
theorem run_setopStore_empty (ctx : Ctx) {db : Db} (nd : NodupKeys db.dict) (name : String) (op : Cmd.SetOp)
    (hfix : (sigOf name).fixed = [.key none .unspecified, .key (some .set) .unspecified])
    (hrep : (sigOf name).rep = [.key (some .set) .unspecified])
    (dst k : Bytes) (ks : List Bytes) (hty : (k :: ks).all (typeOK db.live (some .set)) = true)
    (hempty : Cmd.calcSetop op (setAt db.live k) (ks.map (setAt db.live)) = []) :
    (runRegular (sigOf name) (Cmd.setopStore op) ctx none (dst :: k :: ks) db).reply = .int 0 ∧
    Absent (runRegular (sigOf name) (Cmd.setopStore op) ctx none (dst :: k :: ks) db).db.dict dst ∧
    dst ∈ (runRegular (sigOf name) (Cmd.setopStore op) ctx none (dst :: k :: ks) db).notified := by
  have har : ArityOK (sigOf name) ((k :: ks).length + 1) :=
    arity_var name _ 2 (by rw [hfix]; rfl) (by rw [hrep]; rfl) (by simp)
  have happ := applyL_store (sigOf name) hfix hrep db.live dst (k :: ks) har
  rw [if_pos hty] at happ
  have hap : ((sigOf name).apply (dst :: k :: ks) db).2 =
      .ok (.ok ((List.range' 0 ((k :: ks).length + 1)).map .key)
        (ciOf db.live none dst :: (k :: ks).map (ciOf db.live (some .set)))) := by rw [apply_eq _ _ nd, happ]
  have hb := body_setopStore op ctx db.live (ciOf db.live none dst) k ks
  rw [hempty] at hb
  have he : EmptiedLast ((ciOf db.live none dst).setValue (some (.set [])) :: (k :: ks).map (ciOf db.live (some .set)))
      dst := by
    refine ⟨[], _, _, rfl, ?_, rfl, rfl, ?_⟩
    · show (ciOf db.live none dst).key = dst
      exact ciOf_key _ _ _
    · intro c' hc' _ hm
      obtain ⟨k', _, rfl⟩ := List.mem_map.1 hc'
      rw [(ciOf_clean _ _ _).1] at hm; cases hm
  have := runRegular_emptied (sigOf name) (Cmd.setopStore op) ctx _ db hap hb (k := dst) he
  refine ⟨?_, this.1, this.2⟩
  rw [runRegular_eq, hap]
  simp only [runTail, hb, ret]
  rfl


/-! ## no-op writes on a missing key -/

theorem ciOf_missing {live : Live} {key : Bytes} (T : Ty) (h : live key = none) :
    ciOf live (some T) key = ⟨key, T.default, none, false, false⟩ := by
  unfold ciOf; rw [h]; rfl

theorem typeOK_missing {live : Live} {key : Bytes} (ty : Option Ty) (h : live key = none) :
    typeOK live ty key = true := by
  unfold typeOK; rw [h]; cases ty <;> rfl

/-- `LPUSHX` / `RPUSHX key v …` on a missing key: 0, nothing changes -/
theorem run_pushx_missing (left : Bool) (ctx : Ctx) (key v : Bytes) (vs : List Bytes) {db : Db}
    (nd : NodupKeys db.dict) (hm : db.live key = none) :
    let name := if left then "lpushx" else "rpushx"
    let body := if left then Cmd.lpushx else Cmd.rpushx
    (runRegular (sigOf name) body ctx none (key :: v :: vs) db).reply = .int 0 ∧
    (runRegular (sigOf name) body ctx none (key :: v :: vs) db).db.live = db.live := by
  cases left
  · have := run_key1_read (sigOf "rpushx") (some .list) 1 rfl (by decide) Cmd.rpushx ctx key (v :: vs) nd
      (arity_var "rpushx" _ 2 rfl rfl (by simp)) (typeOK_missing _ hm) (r := .int 0) (by
        rw [ciOf_missing .list hm]; rfl)
    exact ⟨this.1, this.2.1⟩
  · have := run_key1_read (sigOf "lpushx") (some .list) 1 rfl (by decide) Cmd.lpushx ctx key (v :: vs) nd
      (arity_var "lpushx" _ 2 rfl rfl (by simp)) (typeOK_missing _ hm) (r := .int 0) (by
        rw [ciOf_missing .list hm]; rfl)
    exact ⟨this.1, this.2.1⟩

/-- `LREM key count v` on a missing key: 0, nothing changes -/
theorem run_lrem_missing (ctx : Ctx) (key cb v : Bytes) (count : Int) {db : Db} (nd : NodupKeys db.dict)
    (hm : db.live key = none) (hc : Conv.int cb = .ok count) :
    (runRegular (sigOf "lrem") Cmd.lrem ctx none [key, cb, v] db).reply = .int 0 ∧
    (runRegular (sigOf "lrem") Cmd.lrem ctx none [key, cb, v] db).db.live = db.live := by
  have happ := applyL_lrem db.live key cb v count hc (typeOK_missing _ hm)
  have := run1_read (sigOf "lrem") Cmd.lrem ctx [key, cb, v] _ (some .list) key nd happ (r := .int 0) (by
    rw [lrem_body, ciOf_missing .list hm]
    have e1 : Cmd.listOf (ciAt [(⟨key, Ty.default .list, none, false, false⟩ : CI)] 0) = [] := rfl
    rw [e1]
    have : lremRm [] count v = [] := by
      unfold lremRm Cmd.occurrences
      simp
    simp only [this]
    rfl)
  exact ⟨this.1, this.2.1⟩

/-- `ZREM key m …` on a missing key: 0, nothing changes -/
theorem run_zrem_missing (ctx : Ctx) (key m : Bytes) (rest : List Bytes) {db : Db} (nd : NodupKeys db.dict)
    (hm : db.live key = none) :
    (runRegular (sigOf "zrem") Cmd.zrem ctx none (key :: m :: rest) db).reply = .int 0 ∧
    (runRegular (sigOf "zrem") Cmd.zrem ctx none (key :: m :: rest) db).db.live = db.live := by
  have := run_key1_read (sigOf "zrem") (some .zset) 1 rfl (by decide) Cmd.zrem ctx key (m :: rest) nd
    (arity_var "zrem" _ 2 rfl rfl (by simp)) (typeOK_missing _ hm) (r := .int 0) (by
      rw [ciOf_missing .zset hm]
      simp only [Cmd.zrem, rawArgs_map, Cmd.zremCore]
      have e1 : Cmd.zsetOf (ciAt [(⟨key, Ty.default .zset, none, false, false⟩ : CI)] 0) = ZSet.empty := rfl
      rw [e1]
      have : ((m :: rest).foldl ZSet.discard ZSet.empty).bylex = [] := by
        rw [foldl_discard_bylex]; rfl
      have hl : ((m :: rest).foldl ZSet.discard ZSet.empty).len = 0 := by unfold ZSet.len; rw [this]; rfl
      rw [hl]
      rfl)
  exact ⟨this.1, this.2.1⟩

end FR.C09v
