import FR.Proofs.HashSetAlg
/-!
# Sorted-set commands through the runner: `Signature.apply` for the sorted-set signatures and the
three outcomes of a run (read, write, error) — helper lemmas for `FR.Props.C03z`

Built on Part 1 / Part 2 of `FR/Proofs/HashSetAlg.lean` (`applyL`, `run1_read`, `run1_write`, `run1_err`).
-/
namespace FR.ZCmd
open FR Db FR.HashSet FR.Cmd
set_option linter.unusedSimpArgs false
set_option linter.unusedVariables false

/-! ## the view of a key as a sorted set -/

/-- what a sorted-set command sees at `key`: the stored sorted set (the empty one when the key is missing)
and the deadline; `none` when another type is stored -/
def zsetView (live : Live) (key : Bytes) : Option (ZSet × Option Int) :=
  match live key with
  | none => some (ZSet.empty, none)
  | some it =>
    match it.value with
    | .zset z => some (z, it.expireat)
    | _ => none

theorem zsetView_none {live : Live} {key : Bytes} (h : zsetView live key = none) :
    typeOK live (some .zset) key = false := by
  unfold zsetView at h
  unfold typeOK
  cases hl : live key with
  | none => rw [hl] at h; cases h
  | some it =>
    rw [hl] at h
    simp only at h ⊢
    cases hv : it.value <;> rw [hv] at h <;> simp [Value.ty] at h ⊢

/-- the `CommandItem` of a key that holds the sorted set `z` with deadline `e` -/
def zsetCI (key : Bytes) (z : ZSet) (e : Option Int) : CI := ⟨key, some (.zset z), e, false, false⟩

theorem zsetView_some {live : Live} {key : Bytes} {z : ZSet} {e : Option Int}
    (hv : zsetView live key = some (z, e)) :
    typeOK live (some .zset) key = true ∧ ciOf live (some .zset) key = zsetCI key z e := by
  unfold zsetView at hv
  unfold typeOK ciOf zsetCI
  cases hl : live key with
  | none =>
    rw [hl] at hv
    simp only [Option.some.injEq, Prod.mk.injEq] at hv
    obtain ⟨rfl, rfl⟩ := hv
    exact ⟨rfl, rfl⟩
  | some it =>
    rw [hl] at hv
    simp only at hv ⊢
    split at hv
    · rename_i h' hval
      simp only [Option.some.injEq, Prod.mk.injEq] at hv
      obtain ⟨rfl, rfl⟩ := hv
      rw [hval]; exact ⟨by simp [Value.ty], rfl⟩
    · cases hv

theorem zsetView_missing {live : Live} {key : Bytes} (h : live key = none) :
    zsetView live key = some (ZSet.empty, none) := by
  unfold zsetView; rw [h]

theorem zsetView_stored {live : Live} {key : Bytes} {z : ZSet} {e : Option Int}
    (h : live key = some ⟨.zset z, e⟩) : zsetView live key = some (z, e) := by
  unfold zsetView; rw [h]

/-- the view after the key has been rewritten -/
theorem zsetView_putAt (live : Live) (key : Bytes) (z : ZSet) (e : Option Int) :
    zsetView (putAt live key (.zset z) e) key =
      if z.bylex.isEmpty then some (ZSet.empty, none) else some (z, e) := by
  unfold zsetView
  rw [putAt_self]
  by_cases h : z.bylex.isEmpty = true
  · simp [Value.isEmptyColl, h]
  · simp [Value.isEmptyColl, h]

theorem zsetView_putAt_ne (live : Live) {key k : Bytes} (v : Value) (e : Option Int) (h : k ≠ key) :
    zsetView (putAt live key v e) k = zsetView live k := by
  unfold zsetView
  rw [putAt_ne _ _ _ h]

/-! ## outcomes of a run -/

/-- the run replies `r`, does not fail, and no key changes -/
def ReadOnly (out : RunOut) (db : Db) (r : Reply) : Prop :=
  out.reply = r ∧ out.db.live = db.live ∧ out.failed = false

/-- the run replies the error `er`, and no key changes -/
def Fails (out : RunOut) (db : Db) (er : Err) : Prop :=
  out.reply = .err (strBytes er) ∧ out.db.live = db.live ∧ out.failed = true

/-- the run replies `r`, does not fail, and the only change is that `key` now holds the sorted set `z'`
with deadline `e` — and is deleted when `z'` is empty (`putAt`) -/
def Writes (out : RunOut) (db : Db) (key : Bytes) (z' : ZSet) (e : Option Int) (r : Reply) : Prop :=
  out.reply = r ∧ out.db.live = putAt db.live key (.zset z') e ∧ out.failed = false

theorem Writes.other {out : RunOut} {db : Db} {key : Bytes} {z' : ZSet} {e : Option Int} {r : Reply}
    (h : Writes out db key z' e r) {k : Bytes} (hk : k ≠ key) : out.db.live k = db.live k := by
  rw [h.2.1, putAt_ne _ _ _ hk]

theorem Writes.deleted {out : RunOut} {db : Db} {key : Bytes} {z' : ZSet} {e : Option Int} {r : Reply}
    (h : Writes out db key z' e r) (hz : z'.bylex = []) : out.db.live key = none := by
  rw [h.2.1, putAt_self]
  simp [Value.isEmptyColl, hz]

theorem Writes.stored {out : RunOut} {db : Db} {key : Bytes} {z' : ZSet} {e : Option Int} {r : Reply}
    (h : Writes out db key z' e r) (hz : z'.bylex ≠ []) : out.db.live key = some ⟨.zset z', e⟩ := by
  rw [h.2.1, putAt_self]
  cases hb : z'.bylex with
  | nil => exact absurd hb hz
  | cons _ _ => simp [Value.isEmptyColl, hb]

theorem Writes.view {out : RunOut} {db : Db} {key : Bytes} {z' : ZSet} {e : Option Int} {r : Reply}
    (h : Writes out db key z' e r) :
    zsetView out.db.live key = if z'.bylex.isEmpty then some (ZSet.empty, none) else some (z', e) := by
  rw [h.2.1, zsetView_putAt]

/-! ## `Signature.apply` for `(Key(ZSet), T1, T2), (bytes,)?` -/

/-- an argument type that is converted in the first pass and never looked up -/
def simpleTy : ArgTy → Bool
  | .key _ _ => false
  | _ => true

theorem p1_simple (live : Live) (b : Bytes) (t : ArgTy) (ht : simpleTy t = true)
    (rest : List (Bytes × ArgTy)) (acc : List Arg) :
    p1 live ((b, t) :: rest) acc =
      match Conv.decode t b with
      | .error e => .error e
      | .ok a => p1 live rest (a :: acc) := by
  cases t <;> first | rfl | (simp [simpleTy] at ht)

theorem p1_key (live : Live) (b : Bytes) (ty : Option Ty) (rest : List (Bytes × ArgTy)) (acc : List Arg) :
    p1 live ((b, .key ty .unspecified) :: rest) acc = p1 live rest (.raw b :: acc) := by
  simp [p1]

/-- the decoded value of a simple type is never `.raw` paired with a key type, so the second pass keeps it -/
theorem p2_simple (live : Live) (a : Arg) (t : ArgTy) (ht : simpleTy t = true)
    (rest : List (Arg × ArgTy)) (accA : List Arg) (accC : List CI) :
    p2 live ((a, t) :: rest) accA accC = p2 live rest (a :: accA) accC := by
  cases t <;> first | (simp [simpleTy] at ht; done) | (cases a <;> rfl)

theorem p2_key (live : Live) (k : Bytes) (ty : Option Ty) (mr : MissingRet)
    (rest : List (Arg × ArgTy)) (accA : List Arg) (accC : List CI) :
    p2 live ((.raw k, .key ty mr) :: rest) accA accC =
      if typeOK live ty k then p2 live rest (.key accC.length :: accA) (ciOf live ty k :: accC)
      else .error Msgs.WRONGTYPE_MSG := by
  simp [p2]

theorem applyT_key_t2 (live : Live) (ty : Option Ty) (t1 t2 : ArgTy) (h1 : simpleTy t1 = true)
    (h2 : simpleTy t2 = true) (key a b : Bytes) (rest : List Bytes) (n : Nat) (hn : rest.length ≤ n) :
    applyT (.key ty .unspecified :: t1 :: t2 :: List.replicate n .bytes) (key :: a :: b :: rest) live =
      match Conv.decode t1 a with
      | .error e => .error e
      | .ok x =>
        match Conv.decode t2 b with
        | .error e => .error e
        | .ok y =>
          if typeOK live ty key = true then .ok (.ok (.key 0 :: x :: y :: rest.map .raw) [ciOf live ty key])
          else .error Msgs.WRONGTYPE_MSG := by
  unfold applyT
  simp only [List.zip_cons_cons]
  rw [p1_key, p1_simple live a t1 h1]
  cases hx : Conv.decode t1 a with
  | error e => rfl
  | ok x =>
    simp only []
    rw [p1_simple live b t2 h2]
    cases hy : Conv.decode t2 b with
    | error e => rfl
    | ok y =>
      simp only []
      rw [p1_plain live rest (List.replicate n .bytes) (by
        intro t ht; rw [(List.mem_replicate.1 ht).2]; rfl)]
      have htake : rest.take (List.replicate n ArgTy.bytes).length = rest :=
        List.take_of_length_le (by simp; omega)
      simp only [htake, List.reverse_cons, List.reverse_nil, List.nil_append, List.cons_append,
        List.zip_cons_cons]
      rw [p2_key, p2_simple live x t1 h1, p2_simple live y t2 h2]
      rw [zip_map_replicate _ _ _ _ hn]
      by_cases hk : typeOK live ty key = true
      · simp only [hk, if_true]; rw [p2_bytes]; rfl
      · simp only [hk, if_false]; rfl

theorem applyL_key_t2 (s : Sig) (ty : Option Ty) (t1 t2 : ArgTy) (h1 : simpleTy t1 = true)
    (h2 : simpleTy t2 = true)
    (hfix : s.fixed = [.key ty .unspecified, t1, t2]) (hrep : ∀ t ∈ s.rep, t = .bytes)
    (live : Live) (key a b : Bytes) (rest : List Bytes) (har : ArityOK s (rest.length + 3)) :
    applyL s (key :: a :: b :: rest) live =
      match Conv.decode t1 a with
      | .error e => .error e
      | .ok x =>
        match Conv.decode t2 b with
        | .error e => .error e
        | .ok y =>
          if typeOK live ty key = true then .ok (.ok (.key 0 :: x :: y :: rest.map .raw) [ciOf live ty key])
          else .error Msgs.WRONGTYPE_MSG := by
  have har' : ArityOK s (key :: a :: b :: rest).length := har
  rw [applyL_of_arity live har', types_eq s _ .bytes hrep (fun _ => rfl), hfix]
  simp only [List.length_cons, List.length_nil, List.cons_append, List.nil_append]
  exact applyT_key_t2 live ty t1 t2 h1 h2 key a b rest _ (by omega)

/-! ## the three outcomes for a command on one sorted-set key -/

section zrun
variable (s : Sig) (body : Body) (ctx : Ctx) (raw : List Bytes) (args : List Arg) (key : Bytes)
  {db : Db} (nd : NodupKeys db.dict) {z : ZSet} {e : Option Int}
  (hv : zsetView db.live key = some (z, e))
  (happ : applyL s raw db.live = .ok (.ok args [ciOf db.live (some .zset) key]))
include nd hv happ

theorem zrun_err {er : Err} (hb : body ctx args [zsetCI key z e] = .error er) :
    Fails (runRegular s body ctx none raw db) db er := by
  apply run1_err s body ctx raw args (some .zset) key nd happ
  rw [(zsetView_some hv).2]; exact hb

theorem zrun_read {r : Reply} (hb : body ctx args [zsetCI key z e] = ret r [zsetCI key z e]) :
    ReadOnly (runRegular s body ctx none raw db) db r := by
  apply run1_read s body ctx raw args (some .zset) key nd happ
  rw [(zsetView_some hv).2]; exact hb

theorem zrun_write {r : Reply} {z' : ZSet}
    (hb : body ctx args [zsetCI key z e] = ret r (putZ [zsetCI key z e] 0 z')) :
    Writes (runRegular s body ctx none raw db) db key z' e r := by
  have := run1_write s body ctx raw args (some .zset) key nd happ (r := r) (v' := .zset z') (by
    rw [(zsetView_some hv).2]; exact hb)
  rw [(zsetView_some hv).2] at this
  exact this

end zrun

/-- an error of `Signature.apply` (argument conversion, arity, WRONGTYPE) -/
theorem zrun_apply_err (s : Sig) (body : Body) (ctx : Ctx) (raw : List Bytes) {db : Db}
    (nd : NodupKeys db.dict) {er : Err} (h : applyL s raw db.live = .error er) :
    Fails (runRegular s body ctx none raw db) db er :=
  run_apply_err s body ctx raw nd h

end FR.ZCmd
