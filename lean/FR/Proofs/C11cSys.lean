import FR.Proofs.C11cReg
import FR.Proofs.PubSubHist
import FR.Proofs.ScanSys
/-!
# C11c, system level: every event of a list-family history conserves list elements

* `LInv` — the invariant of list-family histories: data invariant, no TTLs, every connection works on an existing
  database, a parked connection is not closed, only list-family commands are queued inside MULTI;
* `StepOk c pops pushes s s'` — the books of one step: `stored s' + pops = stored s + pushes` (count-wise), the
  invariant's ingredients are kept, no reply was emitted;
* the regular commands, the blocking passes, `_blocking`, EXEC, `_process_command`, wake-ups, time-outs.
-/
namespace FR.C11c
open FR FR.M FR.Db FR.Conserve FR.StrKeys
set_option linter.unusedSimpArgs false
set_option linter.unusedVariables false
set_option linter.unusedSectionVars false

/-! ## vocabulary -/

/-- the blocking commands of the family -/
def blockNames : List String := ["blpop", "brpop", "brpoplpush"]

/-- the list command family (the commands that may be queued inside MULTI) -/
def famNames : List String := regNames ++ blockNames

/-- the transaction commands -/
def txNames : List String := ["multi", "exec", "discard"]

/-- what the family reads of a connection record besides `parked` (the flags `woken`, `watchNotified`, … are not in it) -/
def ckey (x : Conn) : Nat × Bool × Option (List (String × List Bytes)) := (x.db, x.closed, x.tx)

theorem notifyFn_ckey (d : Nat) (k : Bytes) (x : Conn) : ckey (notifyFn d k x) = ckey x := by
  rw [notifyFn_eq]; rfl

/-- a well-formed connection record: its database exists, it is not closed while parked, its queue holds family
commands only -/
structure ConnOk (n : Nat) (x : Conn) : Prop where
  db : x.db < n
  open_ : x.parked.isSome = true → x.closed = false
  tx : ∀ q, x.tx = some q → ∀ a ∈ q, a.1 ∈ famNames

/-- the invariant of list-family histories -/
structure LInv (s : Sys) : Prop where
  data : s.DataInv
  nottl : NoTTL s
  conns : ∀ c, ConnOk s.srv.dbs.length (s.conn c)

theorem connOk_default (n : Nat) (c : Nat) (h : 0 < n) : ConnOk n { id := c } :=
  ⟨h, fun h' => (by cases h'), fun q h' => (by cases h')⟩

theorem LInv.pos {s : Sys} (h : LInv s) : 0 < s.srv.dbs.length :=
  Nat.lt_of_le_of_lt (Nat.zero_le _) (h.conns 0).db

theorem linv_init : LInv {} := by
  refine ⟨Sys.dataInv_init, ?_, fun c => ?_⟩
  · intro d hd
    have : d = [] := by
      simp only [List.mem_replicate] at hd
      exact hd.2
    subst this
    intro q hq; cases hq
  · exact connOk_default _ c (by decide)

/-! ## the books of one step -/

structure StepOk (c : Nat) (pops pushes : List Bytes) (s s' : Sys) : Prop where
  data : s'.DataInv
  nottl : NoTTL s'
  len : s'.srv.dbs.length = s.srv.dbs.length
  bal : ∀ x, (stored s').count x + pops.count x = (stored s).count x + pushes.count x
  conn : ∀ c', ckey (s'.conn c') = ckey (s.conn c')
  park : ∀ c', c' ≠ c → (s'.conn c').parked.isSome = (s.conn c').parked.isSome
  hasc : ∀ c', s'.HasConn c' ↔ s.HasConn c'
  out : s'.out = s.out

/-- same databases, same connection records, same output -/
structure Quiet (s s' : Sys) : Prop where
  dbs : s'.srv.dbs = s.srv.dbs
  conns : s'.srv.conns = s.srv.conns
  out : s'.out = s.out

theorem Quiet.refl (s : Sys) : Quiet s s := ⟨rfl, rfl, rfl⟩
theorem Quiet.trans {a b c : Sys} (h : Quiet a b) (h' : Quiet b c) : Quiet a c :=
  ⟨h'.dbs.trans h.dbs, h'.conns.trans h.conns, h'.out.trans h.out⟩
theorem Quiet.conn {a b : Sys} (h : Quiet a b) (c : Nat) : b.conn c = a.conn c := by
  simp only [Sys.conn_def, h.conns]
theorem Quiet.hasConn {a b : Sys} (h : Quiet a b) (c : Nat) : b.HasConn c ↔ a.HasConn c := by
  simp only [Sys.HasConn, h.conns]
theorem Quiet.nextClock (s : Sys) : Quiet s (nextClock s).2 := by
  refine ⟨?_, ?_, nextClock_out s⟩ <;> rw [nextClock_srv]
theorem Quiet.fault (s : Sys) (msg : String) : Quiet s (M.fault msg s).2 := by
  show Quiet s (if s.fault.isNone then { s with fault := some msg } else s)
  split
  · exact ⟨rfl, rfl, rfl⟩
  · exact Quiet.refl s

theorem StepOk.refl (c : Nat) {s : Sys} (hd : s.DataInv) (ht : NoTTL s) : StepOk c [] [] s s :=
  ⟨hd, ht, rfl, fun _ => rfl, fun _ => rfl, fun _ _ => rfl, fun _ => Iff.rfl, rfl⟩

theorem StepOk.quiet_right {c : Nat} {p q : List Bytes} {s s1 s2 : Sys} (h : StepOk c p q s s1) (hq : Quiet s1 s2) :
    StepOk c p q s s2 := by
  refine ⟨h.data.frame hq.dbs, ?_, by rw [hq.dbs]; exact h.len, ?_, ?_, ?_, ?_, hq.out.trans h.out⟩
  · unfold NoTTL; rw [hq.dbs]; exact h.nottl
  · intro x; rw [stored_of_dbs hq.dbs]; exact h.bal x
  · intro c'; rw [hq.conn c']; exact h.conn c'
  · intro c' hne; rw [hq.conn c']; exact h.park c' hne
  · intro c'; rw [hq.hasConn c']; exact h.hasc c'

theorem StepOk.quiet_left {c : Nat} {p q : List Bytes} {s0 s s1 : Sys} (hq : Quiet s0 s) (h : StepOk c p q s s1) :
    StepOk c p q s0 s1 := by
  refine ⟨h.data, h.nottl, by rw [h.len, hq.dbs], ?_, ?_, ?_, ?_, h.out.trans hq.out⟩
  · intro x; rw [← stored_of_dbs hq.dbs]; exact h.bal x
  · intro c'; rw [h.conn c', hq.conn c']
  · intro c' hne; rw [h.park c' hne, hq.conn c']
  · intro c'; rw [h.hasc c', hq.hasConn c']

theorem StepOk.trans {c : Nat} {p1 q1 p2 q2 : List Bytes} {s s1 s2 : Sys} (h1 : StepOk c p1 q1 s s1)
    (h2 : StepOk c p2 q2 s1 s2) : StepOk c (p1 ++ p2) (q1 ++ q2) s s2 := by
  refine ⟨h2.data, h2.nottl, h2.len.trans h1.len, ?_, ?_, ?_, ?_, h2.out.trans h1.out⟩
  · intro x
    have a := h1.bal x
    have b := h2.bal x
    simp only [List.count_append]
    omega
  · intro c'; rw [h2.conn c', h1.conn c']
  · intro c' hne; rw [h2.park c' hne, h1.park c' hne]
  · intro c'; rw [h2.hasc c', h1.hasc c']

theorem StepOk.of_eq {c : Nat} {p q p' q' : List Bytes} {s s1 : Sys} (h : StepOk c p q s s1) (hp : p = p') (hq : q = q') :
    StepOk c p' q' s s1 := by subst hp hq; exact h

/-- an update of the requester's record that leaves `db`, `closed`, `tx` and `id` alone (parking, un-parking, `inTx`) -/
def KeyFrame (f : Conn → Conn) : Prop := ∀ x, ckey (f x) = ckey x ∧ (f x).id = x.id

theorem conn_updConn_cases (s : Sys) (c c' : Nat) (f : Conn → Conn) (hid : ∀ x, (f x).id = x.id) :
    (s.updConn c f).conn c' = s.conn c' ∨ (c' = c ∧ (s.updConn c f).conn c' = f (s.conn c)) := by
  by_cases hne : c' = c
  · subst hne
    by_cases hc : s.HasConn c'
    · exact .inr ⟨rfl, Sys.conn_updConn_same f hc hid⟩
    · left
      rw [Sys.hasConn_iff] at hc
      simp only [Sys.conn_def, Sys.updConn, find_map_upd _ _ _ _ hid]
      cases h' : s.srv.conns.find? (·.id == c') with
      | none => rfl
      | some x => rw [h'] at hc; simp at hc
  · exact .inl (Sys.conn_updConn_ne f hne hid)

theorem StepOk.updConn {c : Nat} {p q : List Bytes} {s s1 : Sys} (h : StepOk c p q s s1) (f : Conn → Conn)
    (hf : KeyFrame f) : StepOk c p q s (s1.updConn c f) := by
  have hid : ∀ x, (f x).id = x.id := fun x => (hf x).2
  refine ⟨h.data, h.nottl, h.len, h.bal, ?_, ?_, ?_, h.out⟩
  · intro c'
    rcases conn_updConn_cases s1 c c' f hid with e | ⟨rfl, e⟩
    · rw [e]; exact h.conn c'
    · rw [e, (hf _).1]; exact h.conn c'
  · intro c' hne
    rw [Sys.conn_updConn_ne f hne hid]; exact h.park c' hne
  · intro c'; rw [Sys.hasConn_updConn f hid]; exact h.hasc c'

/-- the invariant after a step of a requester whose socket is open -/
theorem LInv.step {c : Nat} {p q : List Bytes} {s s' : Sys} (h : LInv s) (hs : StepOk c p q s s')
    (hopen : (s.conn c).closed = false) : LInv s' := by
  refine ⟨hs.data, hs.nottl, fun c' => ?_⟩
  have hk := hs.conn c'
  have hold := h.conns c'
  simp only [ckey, Prod.mk.injEq] at hk
  obtain ⟨hdb, hcl, htx⟩ := hk
  rw [hs.len]
  refine ⟨by rw [hdb]; exact hold.db, ?_, by rw [htx]; exact hold.tx⟩
  intro hp
  rw [hcl]
  by_cases hne : c' = c
  · subst hne; exact hopen
  · rw [hs.park c' hne] at hp
    exact hold.open_ hp

/-! ## stored elements: counts -/

theorem count_stored_setDbS (s : Sys) (d : Nat) (hd : d < s.srv.dbs.length) (db' : Db) (x : Bytes) :
    (stored (s.setDbS d db')).count x + (dictElems (s.dbAt d).dict).count x =
      (stored s).count x + (dictElems db'.dict).count x := by
  obtain ⟨A, B, h1, h2⟩ := stored_split s d hd db'
  rw [h1, h2]
  simp only [List.count_append]
  omega

theorem NoTTL.setDbS {s : Sys} (h : NoTTL s) (d : Nat) {db : Db} (hd : NoTTLd db.dict) : NoTTL (s.setDbS d db) := by
  intro d' hd'
  rcases List.mem_or_eq_of_mem_set hd' with h' | rfl
  · exact h d' h'
  · exact hd

theorem noTTL_of_dbs {s s' : Sys} (h : NoTTL s) (e : s'.srv.dbs = s.srv.dbs) : NoTTL s' := by
  unfold NoTTL; rw [e]; exact h

/-! ## the regular commands through `_run_command` -/

theorem afterRegular_out (s : Sys) (d : Nat) (o : RunOut) : (s.afterRegular d o).out = s.out := by
  unfold Sys.afterRegular
  rw [forM_notifyWatch_frame (fun s => s.out) (fun _ _ => rfl)]
  unfold Sys.faultS
  split
  · split <;> rfl
  · rfl

theorem forM_notify_hasConn (d : Nat) (c : Nat) (ks : List Bytes) (t : Sys) :
    (ks.forM (notifyWatch d) t).2.HasConn c ↔ t.HasConn c := by
  induction ks generalizing t with
  | nil => exact Iff.rfl
  | cons k ks ih =>
    rw [forM_cons_eq]
    simp only [bind, StateT.bind, notifyWatch_run]
    rw [ih]
    exact Sys.hasConn_mapConns t _ c (notifyFn_id d k)

theorem afterRegular_hasConn (s : Sys) (d : Nat) (o : RunOut) (c : Nat) : (s.afterRegular d o).HasConn c ↔ s.HasConn c := by
  unfold Sys.afterRegular
  rw [forM_notify_hasConn]
  simp only [Sys.HasConn, Sys.faultS_srv]

/-- the pure runner's database is the selected database -/
theorem regularOut_eq (s : Sys) (c : Nat) (sig : Sig) (body : Body) (raw : List Bytes) (fs : Bool) :
    s.regularOut c sig body raw fs =
      runRegular sig body
        { version := s.srv.version, time := s.srv.time, dbnum := (s.conn c).db, inTx := (s.conn c).inTx, picks := s.picks }
        (runGate sig fs ((s.conn c).pubsub > 0)) raw (s.dbAt (s.conn c).db) := rfl

/-- **a regular list command through `_run_command`** -/
theorem runWith_regular_ok (sp) (mode : Mode) (c : Nat) (sig : Sig) (body : Body) (raw : List Bytes) (fs : Bool)
    (hfind : SigTable.find sig.name = some sig) (hreg : Cmd.regular sig.name = some body) (hn : sig.name ∈ regNames)
    (s : Sys) (hd : s.DataInv) (ht : NoTTL s) (hdb : (s.conn c).db < s.srv.dbs.length) :
    ∃ r, (runWith sp mode c sig raw fs s).1 = some r ∧
      StepOk c (popsOf sig.name r) (pushesOf sig.name raw r) s (runWith sp mode c sig raw fs s).2 := by
  cases hr : s.refuses c sig with
  | true =>
    rw [runWith_refused sp mode c sig raw fs hr]
    refine ⟨refusalReply, rfl, ?_⟩
    exact (StepOk.refl c hd ht).of_eq (popsOf_err _ _).symm (pushesOf_err _ _ _).symm
  | false =>
    rw [runWith_regular_run sp mode c sig raw fs hreg s hr]
    refine ⟨_, rfl, ?_⟩
    rw [regularOut_eq]
    generalize (⟨s.srv.version, s.srv.time, (s.conn c).db, (s.conn c).inTx, s.picks⟩ : Ctx) = ctx
    generalize runGate sig fs (decide ((s.conn c).pubsub > 0)) = gate
    have hg : Good (s.dbAt (s.conn c).db).dict := hd.dbAt _
    have hcons := regular_family_conserve sig body hfind hreg hn ctx gate raw hg.1 (ht.dbAt _)
    have hgo : Good (runRegular sig body ctx gate raw (s.dbAt (s.conn c).db)).db.dict := hg.runRegular ..
    generalize runRegular sig body ctx gate raw (s.dbAt (s.conn c).db) = o at hcons hgo
    have hdbs := Sys.afterRegular_dbs s (s.conn c).db o
    have hdbs' : (s.afterRegular (s.conn c).db o).srv.dbs = (s.setDbS (s.conn c).db o.db).srv.dbs := hdbs
    refine ⟨(hd.setDbS _ hgo).frame hdbs', noTTL_of_dbs (NoTTL.setDbS ht _ hcons.1) hdbs', ?_, ?_, ?_, ?_, ?_, afterRegular_out _ _ _⟩
    · rw [hdbs]; simp
    · intro x
      rw [stored_of_dbs hdbs']
      have h1 := count_stored_setDbS s _ hdb o.db x
      have h2 := hcons.2 x
      omega
    · intro c'
      exact Sys.afterRegular_pred s _ o c' (fun y => ckey y = ckey (s.conn c'))
        (fun d k y hy => by rw [notifyFn_ckey]; exact hy) rfl
    · intro c' _
      exact Sys.afterRegular_pred s _ o c' (fun y => y.parked.isSome = (s.conn c').parked.isSome)
        (fun d k y hy => by rw [notifyFn_parked_isSome]; exact hy) rfl
    · intro c'; exact afterRegular_hasConn _ _ _ _

/-! ## write-back of a list at system level, the blocking passes -/

theorem StepOk.rebalance {c : Nat} {p q p' q' : List Bytes} {s s' : Sys} (h : StepOk c p q s s')
    (hb : ∀ x, p.count x + q'.count x = p'.count x + q.count x) : StepOk c p' q' s s' := by
  refine ⟨h.data, h.nottl, h.len, fun x => ?_, h.conn, h.park, h.hasc, h.out⟩
  have := h.bal x
  have := hb x
  omega

theorem mapConns_notify_conn (s : Sys) (d : Nat) (k : Bytes) (c : Nat) :
    (s.mapConns (notifyFn d k)).conn c = notifyFn d k (s.conn c) :=
  Sys.conn_mapConns s _ c (notifyFn_id d k) (notifyFn_default d k c)

/-- one modified list `CommandItem` written back to database `d` -/
theorem wbStep_ok (c : Nat) (s : Sys) (d : Nat) (ci : CI) (l : List Bytes) (hd : s.DataInv) (ht : NoTTL s)
    (hlt : d < s.srv.dbs.length) (hc : ListCI ci l) :
    StepOk c (elemsAt (s.dbAt d).dict ci.key) l s (s.wbStep d ci) ∧
    (s.wbStep d ci).dbAt d = (ci.writeback (s.dbAt d)).1 := by
  have hg : Good (s.dbAt d).dict := hd.dbAt d
  have htd : NoTTLd (s.dbAt d).dict := ht.dbAt d
  have hst : s.wbStep d ci = (s.setDbS d (ci.writeback (s.dbAt d)).1).mapConns (notifyFn d ci.key) := by
    unfold Sys.wbStep; simp only [hc.mod, if_true]
  rw [hst]
  refine ⟨⟨?_, ?_, ?_, ?_, ?_, ?_, ?_, rfl⟩, ?_⟩
  · exact (hd.setDbS d (hg.writeback ci)).frame rfl
  · exact noTTL_of_dbs (NoTTL.setDbS ht d (noTTL_writeback htd hc)) rfl
  · simp
  · intro x
    rw [stored_mapConns]
    have h1 := count_stored_setDbS s d hlt (ci.writeback (s.dbAt d)).1 x
    have h2 := count_writeback hg.1 htd hc x
    omega
  · intro c'
    rw [mapConns_notify_conn, notifyFn_ckey]; rfl
  · intro c' _
    rw [mapConns_notify_conn, notifyFn_parked_isSome]; rfl
  · intro c'
    rw [Sys.hasConn_mapConns _ _ _ (notifyFn_id d ci.key)]; exact Iff.rfl
  · rw [Sys.mapConns_dbAt]
    exact Sys.setDbS_dbAt_self s d _ hlt (ci.writeback_time _)

theorem bpopCI_list (left : Bool) (key : Bytes) (it : Item) (l : List Bytes) (he : it.expireat = none) :
    ListCI (bpopCI left key it l) (if left then Cmd.popLeftN l 1 else Cmd.popRightN l 1).2 :=
  ⟨rfl, rfl, he⟩

/-- **one pass of BLPOP / BRPOP**: served — the reply is `[key, x]` and exactly `x` left the lists; otherwise the state
is unchanged -/
theorem bpopPass_ok (c : Nat) (d : Nat) (left first : Bool) (keys : List Bytes) (s : Sys) (hd : s.DataInv) (ht : NoTTL s) :
    (∀ r, (bpopPass d left first keys s).1 = .ok (some r) →
      ∃ k x, r = .arr [.bulk k, .bulk x] ∧ StepOk c [x] [] s (bpopPass d left first keys s).2) ∧
    ((∀ r, (bpopPass d left first keys s).1 ≠ .ok (some r)) → (bpopPass d left first keys s).2 = s) := by
  have hg : Good (s.dbAt d).dict := hd.dbAt d
  have htd : NoTTLd (s.dbAt d).dict := ht.dbAt d
  induction keys with
  | nil => exact ⟨fun r h => (by cases h), fun _ => rfl⟩
  | cons key rest ih =>
    cases hgk : ((s.dbAt d).get key).2 with
    | none =>
      rw [bpopPass_cons_none _ _ _ _ _ _ hgk, setDbS_get_noTTL s d key htd]
      exact ih
    | some it =>
      have hlk : (s.dbAt d).dict.lookup key = some it := by rw [← get_snd_noTTL htd]; exact hgk
      rcases Value.list_or_not it.value with ⟨l, hv⟩ | hv
      · rw [bpopPass_cons_list _ _ _ _ _ _ hgk hv, setDbS_get_noTTL s d key htd]
        refine ⟨fun r h => ?_, fun h => absurd rfl (h _)⟩
        simp only [Except.ok.injEq, Option.some.injEq] at h
        have hl : l ≠ [] := by
          have := hg.2 _ (lookup_some_mem hlk)
          simp only [hv, Value.isEmptyColl] at this
          intro e; subst e; simp at this
        have hlt : d < s.srv.dbs.length := by
          by_cases hlt : d < s.srv.dbs.length
          · exact hlt
          · rw [Sys.dbAt_out_of_range s d (by omega)] at hlk; cases hlk
        have hat : elemsAt (s.dbAt d).dict key = l := elemsAt_of_lookup hlk hv
        have he : it.expireat = none := htd _ (lookup_some_mem hlk)
        have hw := (wbStep_ok c s d (bpopCI left key it l) _ hd ht hlt (bpopCI_list left key it l he)).1
        have hkey : (bpopCI left key it l).key = key := rfl
        rw [hkey, hat] at hw
        subst h
        cases left with
        | true =>
          obtain ⟨x, rem, hp, hx⟩ := popLeftN_one hl
          simp only [bpopReply, if_true, hp, List.head?_cons, Reply.ofOptBulk] at hw ⊢
          refine ⟨key, x, rfl, hw.rebalance (fun y => ?_)⟩
          rw [← hx]
          simp only [List.count_cons, List.count_nil]
          omega
        | false =>
          obtain ⟨x, rem, hp, hx⟩ := popRightN_one hl
          simp only [bpopReply, Bool.false_eq_true, if_false, hp, List.head?_cons, Reply.ofOptBulk] at hw ⊢
          refine ⟨key, x, rfl, hw.rebalance (fun y => ?_)⟩
          rw [← hx]
          simp only [List.count_cons, List.count_nil, List.count_append]
          omega
      · rw [bpopPass_cons_other _ _ _ _ _ _ hgk hv, setDbS_get_noTTL s d key htd]
        cases first
        · simp only [Bool.false_eq_true, if_false]
          exact ih
        · exact ⟨fun r h => (by cases h), fun _ => rfl⟩

/-- **one pass of BRPOPLPUSH**: served — the element moved, nothing left the lists; otherwise the state is unchanged -/
theorem brpoplpushPass_ok (c : Nat) (d : Nat) (src dst : Bytes) (first : Bool) (s : Sys) (hd : s.DataInv) (ht : NoTTL s) :
    (∀ r, (brpoplpushPass d src dst first s).1 = .ok (some r) → StepOk c [] [] s (brpoplpushPass d src dst first s).2) ∧
    ((∀ r, (brpoplpushPass d src dst first s).1 ≠ .ok (some r)) → (brpoplpushPass d src dst first s).2 = s) := by
  have hg : Good (s.dbAt d).dict := hd.dbAt d
  have htd : NoTTLd (s.dbAt d).dict := ht.dbAt d
  unfold brpoplpushPass
  simp only [bind, StateT.bind, getDb_run', setDb_run', get_noTTL htd, Sys.setDbS_self]
  cases hls : (s.dbAt d).dict.lookup src with
  | none => exact ⟨fun r h => (by cases h), fun _ => rfl⟩
  | some sit =>
    obtain ⟨sv, se⟩ := sit
    cases sv with
    | list sl =>
      simp only [bind, StateT.bind, getDb_run', setDb_run', get_noTTL htd, Sys.setDbS_self]
      have hsl : sl ≠ [] := by
        have := hg.2 _ (lookup_some_mem hls)
        intro e; subst e; simp [Value.isEmptyColl] at this
      obtain ⟨el, rem, hp, hx⟩ := popRightN_one hsl
      have hse : se = none := htd _ (lookup_some_mem hls)
      subst hse
      have hlt : d < s.srv.dbs.length := by
        by_cases hlt : d < s.srv.dbs.length
        · exact hlt
        · rw [Sys.dbAt_out_of_range s d (by omega)] at hls; cases hls
      have hats : elemsAt (s.dbAt d).dict src = sl := elemsAt_of_lookup hls rfl
      have same : StepOk c [] [] s
          (s.wbStep d { key := src, val := some (Value.list (el :: rem)), expireat := none, modified := true }) := by
        have hw := (wbStep_ok c s d { key := src, val := some (Value.list (el :: rem)), expireat := none, modified := true }
          (el :: rem) hd ht hlt ⟨rfl, rfl, rfl⟩).1
        simp only [hats] at hw
        refine hw.rebalance (fun y => ?_)
        rw [← hx]
        simp only [List.count_cons, List.count_nil, List.count_append]
        omega
      have diff : src ≠ dst → ∀ dl, elemsAt (s.dbAt d).dict dst = dl → StepOk c [] [] s
          ((s.wbStep d { key := src, val := some (Value.list rem), expireat := none, modified := true }).wbStep d
            { key := dst, val := some (Value.list (el :: dl)), expireat := none, modified := true }) := by
        intro hne dl hdl
        obtain ⟨hw1, hdb1⟩ := wbStep_ok c s d { key := src, val := some (Value.list rem), expireat := none, modified := true }
          rem hd ht hlt ⟨rfl, rfl, rfl⟩
        have hlt1 : d < (s.wbStep d { key := src, val := some (Value.list rem), expireat := none, modified := true }).srv.dbs.length := by
          rw [hw1.len]; exact hlt
        obtain ⟨hw2, _⟩ := wbStep_ok c _ d { key := dst, val := some (Value.list (el :: dl)), expireat := none, modified := true }
          (el :: dl) hw1.data hw1.nottl hlt1 ⟨rfl, rfl, rfl⟩
        rw [hdb1] at hw2
        have e1 : elemsAt (CI.writeback { key := src, val := some (Value.list rem), expireat := none, modified := true }
            (s.dbAt d)).1.dict dst = dl := by
          rw [elemsAt_writeback_ne (ht.dbAt d) (c := { key := src, val := some (Value.list rem), expireat := none, modified := true })
            (l := rem) ⟨rfl, rfl, rfl⟩ (fun e => hne e.symm)]
          exact hdl
        simp only [hats, e1] at hw1 hw2
        refine (hw1.trans hw2).rebalance (fun y => ?_)
        rw [← hx]
        simp only [List.count_cons, List.count_nil, List.count_append]
        omega
      simp only [hp, List.head?_cons]
      cases hld : (s.dbAt d).dict.lookup dst with
      | none =>
        simp only
        by_cases hsd : src = dst
        · have hb : (src == dst) = true := by simpa using hsd
          simp only [hb, if_true, StateT.bind, writebackAll_cons, writebackAll_nil]
          exact ⟨fun r _ => same, fun h => absurd rfl (h _)⟩
        · have hb : (src == dst) = false := by simpa using hsd
          simp only [hb, Bool.false_eq_true, if_false, StateT.bind, writebackAll_cons, writebackAll_nil]
          refine ⟨fun r _ => diff hsd [] ?_, fun h => absurd rfl (h _)⟩
          unfold elemsAt; rw [hld]
      | some dit =>
        obtain ⟨dv, de⟩ := dit
        have hde : de = none := htd _ (lookup_some_mem hld)
        subst hde
        cases dv with
        | list dl =>
          simp only
          by_cases hsd : src = dst
          · have hb : (src == dst) = true := by simpa using hsd
            simp only [hb, if_true, StateT.bind, writebackAll_cons, writebackAll_nil]
            exact ⟨fun r _ => same, fun h => absurd rfl (h _)⟩
          · have hb : (src == dst) = false := by simpa using hsd
            simp only [hb, Bool.false_eq_true, if_false, StateT.bind, writebackAll_cons, writebackAll_nil]
            exact ⟨fun r _ => diff hsd dl (elemsAt_of_lookup hld rfl), fun h => absurd rfl (h _)⟩
        | _ => exact ⟨fun r h => (by cases h), fun _ => rfl⟩
    | _ => cases first <;> exact ⟨fun r h => (by cases h), fun _ => rfl⟩

/-- the re-check of a parked connection -/
theorem parkedPass_ok (c c0 : Nat) (p : Parked) (s : Sys) (hd : s.DataInv) (ht : NoTTL s) :
    (∀ r, (parkedPass c0 p s).1 = .ok (some r) → StepOk c (popElem r) [] s (parkedPass c0 p s).2) ∧
    ((∀ r, (parkedPass c0 p s).1 ≠ .ok (some r)) → (parkedPass c0 p s).2 = s) := by
  rcases parkedPass_cases c0 p with ⟨src, dst, _, _, he⟩ | ⟨_, he⟩ | ⟨_, he⟩ <;> rw [he]
  · have h := brpoplpushPass_ok c p.db src dst false s hd ht
    refine ⟨fun r hr => ?_, h.2⟩
    obtain ⟨el, rfl⟩ := brpoplpushPass_reply _ _ _ _ _ _ hr
    exact h.1 _ hr
  · have h := bpopPass_ok c p.db true false p.keys s hd ht
    refine ⟨fun r hr => ?_, h.2⟩
    obtain ⟨k, x, rfl, hs⟩ := h.1 r hr
    exact hs
  · have h := bpopPass_ok c p.db false false p.keys s hd ht
    refine ⟨fun r hr => ?_, h.2⟩
    obtain ⟨k, x, rfl, hs⟩ := h.1 r hr
    exact hs

/-! ## `_blocking` -/

theorem Quiet.updConn {a b : Sys} (h : Quiet a b) (c : Nat) (f : Conn → Conn) : Quiet (a.updConn c f) (b.updConn c f) := by
  refine ⟨h.dbs, ?_, h.out⟩
  show b.srv.conns.map _ = a.srv.conns.map _
  rw [h.conns]

theorem blocking_notx (c : Nat) (park : Bool) (kind : String) (keys : List Bytes) (timeout : Int) (pass : Pass)
    (s s1 : Sys) (h : pass true s = (.ok none, s1)) (htx : (s1.conn c).inTx = false) :
    ((blocking c park kind keys timeout pass s).1 = .ok (some .nil) ∧ Quiet s1 (blocking c park kind keys timeout pass s).2) ∨
    ((blocking c park kind keys timeout pass s).1 = .ok none ∧
      ∃ dl, Quiet (s1.updConn c (parkAs kind keys (s1.conn c).db dl)) (blocking c park kind keys timeout pass s).2) := by
  unfold blocking
  cases park <;> by_cases ht : (timeout != 0) = true <;>
    simp only [h, ht, htx, getConn_run, if_true, if_false, Bool.false_eq_true, bind, StateT.bind, pure, StateT.pure, modifyConn_run]
  · exact .inl ⟨rfl, (Quiet.nextClock _).trans (Quiet.nextClock _)⟩
  · exact .inl ⟨trivial, Quiet.refl _⟩
  · exact .inr ⟨rfl, _, ((Quiet.nextClock _).trans (Quiet.nextClock _)).updConn c _⟩
  · exact .inr ⟨trivial, _, Quiet.refl _⟩


/-- what the first pass of a blocking command satisfies -/
def PassOk (c : Nat) (name : String) (pass : Pass) (s : Sys) : Prop :=
  (∀ r, (pass true s).1 = .ok (some r) → StepOk c (popsOf name r) [] s (pass true s).2) ∧
  ((∀ r, (pass true s).1 ≠ .ok (some r)) → (pass true s).2 = s)

/-- the outcome of `_blocking` -/
def BlockOut (c : Nat) (name : String) (s : Sys) (res : Except Err (Option Reply)) (s2 : Sys) : Prop :=
  ((s.conn c).inTx = true → res ≠ .ok none) ∧
  match res with
  | .ok (some r) => StepOk c (popsOf name r) [] s s2
  | _ => StepOk c [] [] s s2

theorem parkAs_keyFrame (kind : String) (keys : List Bytes) (db : Nat) (dl : Option Int) : KeyFrame (parkAs kind keys db dl) :=
  fun _ => ⟨rfl, rfl⟩

theorem blocking_ok (c : Nat) (park : Bool) (kind : String) (keys : List Bytes) (timeout : Int) (pass : Pass)
    (name : String) (s : Sys) (hd : s.DataInv) (ht : NoTTL s) (hp : PassOk c name pass s) :
    BlockOut c name s (blocking c park kind keys timeout pass s).1 (blocking c park kind keys timeout pass s).2 := by
  obtain ⟨hp1, hp2⟩ := hp
  cases hpass : pass true s with
  | mk res s1 =>
    rw [hpass] at hp1 hp2
    simp only at hp1 hp2
    cases res with
    | error e =>
      rw [blocking_served_err c park kind keys timeout pass s s1 e hpass]
      have : s1 = s := hp2 (fun r h => by cases h)
      subst this
      exact ⟨fun _ h => (by cases h), StepOk.refl c hd ht⟩
    | ok o =>
      cases o with
      | some r =>
        rw [blocking_served_ok c park kind keys timeout pass s s1 r hpass]
        exact ⟨fun _ h => (by cases h), hp1 r rfl⟩
      | none =>
        have : s1 = s := hp2 (fun r h => by cases h)
        subst this
        cases htx : (s1.conn c).inTx with
        | true =>
          rw [blocking_inTx c park kind keys timeout pass s1 s1 hpass htx]
          refine ⟨fun _ h => (by cases h), ?_⟩
          exact (StepOk.refl c hd ht).of_eq (popsOf_nil _).symm rfl
        | false =>
          refine ⟨fun h => (by rw [htx] at h; cases h), ?_⟩
          rcases blocking_notx c park kind keys timeout pass s1 s1 hpass htx with ⟨hr, hq⟩ | ⟨hr, dl, hq⟩
          · rw [hr]
            exact ((StepOk.refl c hd ht).quiet_right hq).of_eq (popsOf_nil _).symm rfl
          · rw [hr]
            exact ((StepOk.refl c hd ht).updConn _ (parkAs_keyFrame _ _ _ _)).quiet_right hq

theorem parkAsync_keyFrame (kind : String) (keys : List Bytes) (db : Nat) : KeyFrame (parkAsync kind keys db) :=
  fun _ => ⟨rfl, rfl⟩

theorem blockingAsync_ok (c : Nat) (kind : String) (keys : List Bytes) (pass : Pass)
    (name : String) (s : Sys) (hd : s.DataInv) (ht : NoTTL s) (hp : PassOk c name pass s) :
    BlockOut c name s (blockingAsync c kind keys pass s).1 (blockingAsync c kind keys pass s).2 := by
  obtain ⟨hp1, hp2⟩ := hp
  cases hpass : pass true s with
  | mk res s1 =>
    rw [hpass] at hp1 hp2
    simp only at hp1 hp2
    cases res with
    | error e =>
      rw [blockingAsync_served_err c kind keys pass s s1 e hpass]
      have : s1 = s := hp2 (fun r h => by cases h)
      subst this
      exact ⟨fun _ h => (by cases h), StepOk.refl c hd ht⟩
    | ok o =>
      cases o with
      | some r =>
        rw [blockingAsync_served_ok c kind keys pass s s1 r hpass]
        exact ⟨fun _ h => (by cases h), hp1 r rfl⟩
      | none =>
        have : s1 = s := hp2 (fun r h => by cases h)
        subst this
        cases htx : (s1.conn c).inTx with
        | true =>
          rw [blockingAsync_inTx c kind keys pass s1 s1 hpass htx]
          refine ⟨fun _ h => (by cases h), ?_⟩
          exact (StepOk.refl c hd ht).of_eq (popsOf_nil _).symm rfl
        | false =>
          rw [blockingAsync_parks c kind keys pass s1 s1 hpass htx]
          refine ⟨fun h => (by rw [htx] at h; cases h), ?_⟩
          exact (StepOk.refl c hd ht).updConn _ (parkAsync_keyFrame kind keys (s1.conn c).db)


/-! ## the blocking commands through `_run_command` -/

def bpopBody (mode : Mode) (c : Nat) (name : String) (left : Bool) (args : List Arg) (cis : List CI) : M SpecialOut := do
  let conn ← getConn c
  let d := conn.db
  let raw := Cmd.rawArgs args
  match raw.getLast? with
  | none => return .error "model: bad args"
  | some tb =>
    match Conv.timeout tb with
    | .error e => return .error e
    | .ok timeout =>
      let keys := raw.dropLast
      match ← (if mode.async then blockingAsync c name keys (fun first => bpopPass d left first keys)
               else blocking c mode.park name keys timeout (fun first => bpopPass d left first keys)) with
      | .error e => return .error e
      | .ok r => return .ok (r, cis)

theorem special_blpop (inner : Inner) (mode : Mode) (c : Nat) (args : List Arg) (cis : List CI) :
    special inner mode c "blpop" args cis = bpopBody mode c "blpop" true args cis := by
  unfold special bpopBody
  rfl

theorem special_brpop (inner : Inner) (mode : Mode) (c : Nat) (args : List Arg) (cis : List CI) :
    special inner mode c "brpop" args cis = bpopBody mode c "brpop" false args cis := by
  unfold special bpopBody
  rfl

def brplBody (mode : Mode) (c : Nat) (args : List Arg) (cis : List CI) : M SpecialOut := do
  let conn ← getConn c
  let d := conn.db
  match args with
  | [.raw src, .raw dst, .int timeout] =>
    match ← (if mode.async then blockingAsync c "brpoplpush" [src, dst] (fun first => brpoplpushPass d src dst first)
             else blocking c mode.park "brpoplpush" [src, dst] timeout (fun first => brpoplpushPass d src dst first)) with
    | .error e => return .error e
    | .ok r => return .ok (r, cis)
  | _ => return .error "model: bad args"

theorem special_brpoplpush (inner : Inner) (mode : Mode) (c : Nat) (args : List Arg) (cis : List CI) :
    special inner mode c "brpoplpush" args cis = brplBody mode c args cis := by
  unfold special brplBody
  rfl

def popsO (name : String) : Option Reply → List Bytes
  | some r => popsOf name r
  | none => []

def pushesO (name : String) (raw : List Bytes) : Option Reply → List Bytes
  | some r => pushesOf name raw r
  | none => []

theorem types_nonkey (sig : Sig) (n : Nat) (hfx : ∀ t ∈ sig.fixed, NonKey t) (hrep : ∀ t ∈ sig.rep, NonKey t) :
    ∀ t ∈ sig.types n, NonKey t := by
  intro t ht
  rw [types_eq, List.mem_append] at ht
  rcases ht with h | h
  · exact hfx t h
  · obtain ⟨i, _, rfl⟩ := List.mem_map.1 h
    rw [List.getD_eq_getElem?_getD]
    cases hi : sig.rep[i % sig.rep.length]? with
    | none => exact nonKey_bytes
    | some x => exact hrep x (List.mem_of_getElem? hi)

/-- a signature without keys: `apply` builds no `CommandItem` and never short-circuits -/
theorem applyL_nokey (sig : Sig) (hfx : ∀ t ∈ sig.fixed, NonKey t) (hrep : ∀ t ∈ sig.rep, NonKey t)
    (raw : List Bytes) (live : Bytes → Option Item) :
    (∃ e, applyL sig raw live = .error e) ∨ ∃ args, applyL sig raw live = .ok (.ok args []) := by
  have hall := types_nonkey sig raw.length hfx hrep
  unfold applyL
  split
  · exact .inl ⟨_, rfl⟩
  · split
    · exact .inl ⟨_, rfl⟩
    · simp only
      rw [pass1L_nonkey live _ (fun x hx => hall _ (List.of_mem_zip hx).2)]
      cases decodeAll (raw.zip (sig.types raw.length)) with
      | error e => exact .inl ⟨_, rfl⟩
      | ok as =>
        simp only
        rw [pass2L_nonkey live _ (fun x hx => hall _ (List.of_mem_zip hx).2)]
        exact .inr ⟨_, rfl⟩

theorem setDbS_dbAt_self' (s : Sys) (d : Nat) :
    ({ s with srv := { s.srv with dbs := s.srv.dbs.set d (s.dbAt d).dict } } : Sys) = s := by
  have : s.srv.dbs.set d (s.dbAt d).dict = s.srv.dbs := PubSubHist.set_getD_self _ _
  rw [this]

theorem faulted_quiet (e : Err) (s : Sys) : Quiet s (PubSubHist.faulted e s) := by
  unfold PubSubHist.faulted
  split
  · exact Quiet.fault s e
  · exact Quiet.refl s

theorem afterSpecial_run (d : Nat) (X : M SpecialOut) (s : Sys) :
    afterSpecial d [] X s =
      match (X s).1 with
      | .error e => (some (.err (strBytes e)), PubSubHist.faulted e (X s).2)
      | .ok (r, cis') => (r, (writebackAll d cis' (X s).2).2) := by
  unfold afterSpecial PubSubHist.faulted
  simp only [bind, StateT.bind]
  generalize X s = xr
  obtain ⟨res, s2⟩ := xr
  cases res with
  | error e =>
    simp only [pure]
    split <;> rfl
  | ok pr => rfl

/-- `_run_command` around a special body that returns its (empty) `CommandItem` list -/
theorem afterSpecial_ok (c : Nat) (name : String) (d : Nat) (X : M SpecialOut) (s : Sys)
    (hX : match (X s).1 with
      | .error _ => StepOk c [] [] s (X s).2
      | .ok (r, cis') => cis' = [] ∧ StepOk c (popsO name r) [] s (X s).2 ∧ ((s.conn c).inTx = true → r ≠ none)) :
    ((s.conn c).inTx = true → (afterSpecial d [] X s).1 ≠ none) ∧
    StepOk c (popsO name (afterSpecial d [] X s).1) [] s (afterSpecial d [] X s).2 := by
  rw [afterSpecial_run]
  revert hX
  generalize X s = xr
  obtain ⟨res, s2⟩ := xr
  intro hX
  simp only at hX ⊢
  cases res with
  | error e =>
    simp only at hX ⊢
    refine ⟨fun _ h => (by cases h), ?_⟩
    exact (hX.quiet_right (faulted_quiet e s2)).of_eq (popsOf_err _ _).symm rfl
  | ok pr =>
    obtain ⟨r, cis'⟩ := pr
    simp only at hX ⊢
    obtain ⟨rfl, hs, hn⟩ := hX
    exact ⟨hn, hs⟩

theorem popsOf_bpop {name : String} (hn : IsBPop name) (r : Reply) : popsOf name r = popElem r := by
  have h1 : ¬ (name = "lpop" ∨ name = "rpop") := by
    unfold IsBPop at hn
    rcases hn with rfl | rfl <;> decide
  unfold popsOf
  rw [if_neg h1]
  exact if_pos hn

theorem passOk_bpop {name : String} (hn : IsBPop name) (c d : Nat) (left : Bool) (keys : List Bytes) (s : Sys)
    (hd : s.DataInv) (ht : NoTTL s) : PassOk c name (fun first => bpopPass d left first keys) s := by
  have h := bpopPass_ok c d left true keys s hd ht
  refine ⟨fun r hr => ?_, h.2⟩
  obtain ⟨k, x, rfl, hs⟩ := h.1 r hr
  rw [popsOf_bpop hn]
  exact hs

theorem passOk_brpl (c d : Nat) (src dst : Bytes) (s : Sys) (hd : s.DataInv) (ht : NoTTL s) :
    PassOk c "brpoplpush" (fun first => brpoplpushPass d src dst first) s := by
  have h := brpoplpushPass_ok c d src dst true s hd ht
  refine ⟨fun r hr => ?_, h.2⟩
  rw [popsOf_of_not (by decide) (by decide)]
  exact h.1 r hr

/-- the shape `afterSpecial_ok` asks of a special body -/
def BodyOk (c : Nat) (name : String) (s : Sys) (out : SpecialOut × Sys) : Prop :=
  match out.1 with
  | .error _ => StepOk c [] [] s out.2
  | .ok (r, cis') => cis' = [] ∧ StepOk c (popsO name r) [] s out.2 ∧ ((s.conn c).inTx = true → r ≠ none)

theorem bodyOk_of_block {c : Nat} {name : String} {s : Sys} {res : Except Err (Option Reply)} {s2 : Sys}
    (h : BlockOut c name s res s2) :
    BodyOk c name s ((match res with
      | .error e => (pure (.error e) : M SpecialOut)
      | .ok r => pure (.ok (r, []))) s2) := by
  obtain ⟨h1, h2⟩ := h
  cases res with
  | error e => exact h2
  | ok o =>
    cases o with
    | none => exact ⟨rfl, h2, fun hin _ => h1 hin rfl⟩
    | some r => exact ⟨rfl, h2, fun _ h => (by cases h)⟩

theorem block_finish {c : Nat} {name : String} {s : Sys} (br : Except Err (Option Reply) × Sys)
    (hb : BlockOut c name s br.1 br.2) :
    BodyOk c name s ((match br.1 with
      | .error e => (pure (.error e) : M SpecialOut)
      | .ok r => pure (.ok (r, []))) br.2) := bodyOk_of_block hb

theorem bpopBody_ok (mode : Mode) (c : Nat) (name : String) (hn : IsBPop name) (left : Bool) (args : List Arg)
    (s : Sys) (hd : s.DataInv) (ht : NoTTL s) : BodyOk c name s (bpopBody mode c name left args [] s) := by
  unfold bpopBody
  simp only [bind, StateT.bind, getConn_run]
  cases (Cmd.rawArgs args).getLast? with
  | none => exact StepOk.refl c hd ht
  | some tb =>
    simp only
    cases Conv.timeout tb with
    | error e => exact StepOk.refl c hd ht
    | ok timeout =>
      simp only
      cases hasync : mode.async
      · simp only [Bool.false_eq_true, if_false]
        exact block_finish _ (blocking_ok c mode.park name (Cmd.rawArgs args).dropLast timeout _ name s hd ht
          (passOk_bpop hn c (s.conn c).db left (Cmd.rawArgs args).dropLast s hd ht))
      · simp only [if_true]
        exact block_finish _ (blockingAsync_ok c name (Cmd.rawArgs args).dropLast _ name s hd ht
          (passOk_bpop hn c (s.conn c).db left (Cmd.rawArgs args).dropLast s hd ht))

theorem brplBody_ok (mode : Mode) (c : Nat) (args : List Arg)
    (s : Sys) (hd : s.DataInv) (ht : NoTTL s) : BodyOk c "brpoplpush" s (brplBody mode c args [] s) := by
  unfold brplBody
  simp only [bind, StateT.bind, getConn_run]
  split
  · rename_i src dst timeout
    cases hasync : mode.async
    · simp only [Bool.false_eq_true, if_false]
      exact block_finish _ (blocking_ok c mode.park "brpoplpush" [src, dst] timeout _ "brpoplpush" s hd ht
        (passOk_brpl c (s.conn c).db src dst s hd ht))
    · simp only [if_true]
      exact block_finish _ (blockingAsync_ok c "brpoplpush" [src, dst] _ "brpoplpush" s hd ht
        (passOk_brpl c (s.conn c).db src dst s hd ht))
  · exact StepOk.refl c hd ht

theorem runWith_block_ok (inner : Inner) (mode : Mode) (c : Nat) (sig : Sig) (raw : List Bytes) (fs : Bool)
    (hfx : ∀ t ∈ sig.fixed, NonKey t) (hrep : ∀ t ∈ sig.rep, NonKey t) (hreg : Cmd.regular sig.name = none)
    (hbody : ∀ args s, s.DataInv → NoTTL s → BodyOk c sig.name s (special inner mode c sig.name args [] s))
    (s : Sys) (hd : s.DataInv) (ht : NoTTL s) :
    ((s.conn c).inTx = true → (runWith (special inner) mode c sig raw fs s).1 ≠ none) ∧
    StepOk c (popsO sig.name (runWith (special inner) mode c sig raw fs s).1) [] s
      (runWith (special inner) mode c sig raw fs s).2 := by
  have herr : ∀ m : Bytes, ((s.conn c).inTx = true → (some (Reply.err m)) ≠ none) ∧
      StepOk c (popsO sig.name (some (Reply.err m))) [] s s :=
    fun m => ⟨fun _ h => (by cases h), (StepOk.refl c hd ht).of_eq (popsOf_err _ _).symm rfl⟩
  cases hr : s.refuses c sig with
  | true =>
    rw [runWith_refused _ mode c sig raw fs hr]
    exact herr _
  | false =>
    rw [runWith_special_run _ mode c sig raw fs s hreg hr]
    have hap : sig.apply raw ⟨s.srv.dbs.getD (s.conn c).db [], s.srv.time⟩ =
        (s.dbAt (s.conn c).db, applyL sig raw (fun k => (s.dbAt (s.conn c).db).dict.lookup k)) :=
      apply_noTTL sig raw (hd.dbAt _).1 (ht.dbAt _)
    simp only [hap, setDbS_dbAt_self']
    rcases applyL_nokey sig hfx hrep raw (fun k => (s.dbAt (s.conn c).db).dict.lookup k) with ⟨e, he⟩ | ⟨args, he⟩
    · rw [he]; exact herr _
    · rw [he]
      simp only
      cases runGate sig fs (decide ((s.conn c).pubsub > 0)) with
      | some e => exact herr _
      | none => exact afterSpecial_ok c sig.name _ _ s (hbody args s hd ht)

def sigBlpop : Sig := ⟨"blpop", [.bytes, .bytes], [.bytes], true, 0, 0, true⟩
def sigBrpop : Sig := ⟨"brpop", [.bytes, .bytes], [.bytes], true, 0, 0, true⟩
def sigBrpoplpush : Sig := ⟨"brpoplpush", [.bytes, .bytes, .timeout], [], true, 3, 0, false⟩

theorem nonKey_timeout : NonKey .timeout := fun _ _ h => by cases h

/-- **every command of the list family through `_run_command`** (top level or inside EXEC): the books balance, nothing
is emitted, the connection records keep what the family reads of them, and inside a transaction there is always a reply -/
theorem runWith_fam_ok (inner : Inner) (mode : Mode) (c : Nat) (sig : Sig) (raw : List Bytes) (fs : Bool)
    (hfind : SigTable.find sig.name = some sig) (hn : sig.name ∈ famNames)
    (s : Sys) (hd : s.DataInv) (ht : NoTTL s) (hdb : (s.conn c).db < s.srv.dbs.length) :
    ((s.conn c).inTx = true → (runWith (special inner) mode c sig raw fs s).1 ≠ none) ∧
    StepOk c (popsO sig.name (runWith (special inner) mode c sig raw fs s).1)
      (pushesO sig.name raw (runWith (special inner) mode c sig raw fs s).1) s
      (runWith (special inner) mode c sig raw fs s).2 := by
  unfold famNames at hn
  rcases List.mem_append.1 hn with hn | hn
  · have hreg : ∃ body, Cmd.regular sig.name = some body := by
      simp only [regNames, List.mem_cons, List.not_mem_nil, or_false] at hn
      rcases hn with h | h | h | h | h | h | h | h | h | h <;> rw [h] <;> exact ⟨_, rfl⟩
    obtain ⟨body, hreg⟩ := hreg
    obtain ⟨r, hr, hs⟩ := runWith_regular_ok (special inner) mode c sig body raw fs hfind hreg hn s hd ht hdb
    rw [hr]
    exact ⟨fun _ h => (by cases h), hs⟩
  · have hnp : ¬ IsPush sig.name := by
      simp only [blockNames, List.mem_cons, List.not_mem_nil, or_false] at hn
      rcases hn with h | h | h <;> rw [h] <;> decide
    have hpush : ∀ o, pushesO sig.name raw o = [] := by
      intro o; cases o with
      | none => rfl
      | some r => exact pushesOf_of_not hnp _ _
    rw [hpush]
    have key : ∀ (n : String) (sg : Sig), sig.name = n → SigTable.find n = some sg → sg = sig := by
      intro n sg hname hf
      rw [hname, hf] at hfind
      exact Option.some.inj hfind
    simp only [blockNames, List.mem_cons, List.not_mem_nil, or_false] at hn
    rcases hn with h | h | h
    · have := key "blpop" sigBlpop h rfl
      subst this
      exact runWith_block_ok inner mode c sigBlpop raw fs (by simp [sigBlpop, nonKey_bytes]) (by simp [sigBlpop, nonKey_bytes]) rfl
        (fun args s hd ht => by
          show BodyOk c "blpop" s (special inner mode c "blpop" args [] s)
          rw [special_blpop]; exact bpopBody_ok mode c "blpop" (.inl rfl) true args s hd ht) s hd ht
    · have := key "brpop" sigBrpop h rfl
      subst this
      exact runWith_block_ok inner mode c sigBrpop raw fs (by simp [sigBrpop, nonKey_bytes]) (by simp [sigBrpop, nonKey_bytes]) rfl
        (fun args s hd ht => by
          show BodyOk c "brpop" s (special inner mode c "brpop" args [] s)
          rw [special_brpop]; exact bpopBody_ok mode c "brpop" (.inr rfl) false args s hd ht) s hd ht
    · have := key "brpoplpush" sigBrpoplpush h rfl
      subst this
      exact runWith_block_ok inner mode c sigBrpoplpush raw fs (by simp [sigBrpoplpush, nonKey_bytes, nonKey_timeout])
        (by simp [sigBrpoplpush]) rfl
        (fun args s hd ht => by
          show BodyOk c "brpoplpush" s (special inner mode c "brpoplpush" args [] s)
          rw [special_brpoplpush]; exact brplBody_ok mode c args s hd ht) s hd ht


/-! ## EXEC -/

theorem find_fam {n : String} (h : n ∈ famNames) : ∃ sig, SigTable.find n = some sig := by
  simp only [famNames, regNames, blockNames, List.cons_append, List.nil_append, List.mem_cons, List.not_mem_nil, or_false] at h
  rcases h with h | h | h | h | h | h | h | h | h | h | h | h | h <;> rw [h] <;> exact ⟨_, rfl⟩

/-- the elements handed out / pushed by the commands of a transaction, read off the queue and the replies -/
def queuePops (q : List (String × List Bytes)) (rs : List (Option Reply)) : List Bytes :=
  (q.zip rs).flatMap fun p => popsO p.1.1 p.2
def queuePushes (q : List (String × List Bytes)) (rs : List (Option Reply)) : List Bytes :=
  (q.zip rs).flatMap fun p => pushesO p.1.1 p.1.2 p.2

theorem StepOk.db_lt {c : Nat} {p q : List Bytes} {s s' : Sys} (h : StepOk c p q s s') (c' : Nat)
    (hdb : (s.conn c').db < s.srv.dbs.length) : (s'.conn c').db < s'.srv.dbs.length := by
  have := h.conn c'
  simp only [ckey, Prod.mk.injEq] at this
  rw [this.1, h.len]; exact hdb

theorem inTx_keyFrame (b : Bool) : KeyFrame (fun x : Conn => { x with inTx := b }) := fun _ => ⟨rfl, rfl⟩

theorem queueStep_ok (mode : Mode) (c : Nat) (a : String × List Bytes) (ha : a.1 ∈ famNames) (s : Sys)
    (hd : s.DataInv) (ht : NoTTL s) (hdb : (s.conn c).db < s.srv.dbs.length) (hc : s.HasConn c) :
    (queueStep (runInner mode c) c a s).1 ≠ none ∧
    StepOk c (popsO a.1 (queueStep (runInner mode c) c a s).1) (pushesO a.1 a.2 (queueStep (runInner mode c) c a s).1) s
      (queueStep (runInner mode c) c a s).2 := by
  obtain ⟨sig, hsig⟩ := find_fam ha
  have hname : sig.name = a.1 := SigTable.find_name hsig
  unfold queueStep
  simp only [hsig, bind, StateT.bind, modifyConn_run, pure, StateT.pure]
  have h0 : StepOk c [] [] s (s.updConn c fun x => { x with inTx := true }) :=
    (StepOk.refl c hd ht).updConn _ (inTx_keyFrame true)
  have hin : ((s.updConn c fun x => { x with inTx := true }).conn c).inTx = true := by
    rw [Sys.conn_updConn_same (fun x => { x with inTx := true }) hc (fun _ => rfl)]
  have hfind : SigTable.find sig.name = some sig := by rw [hname]; exact hsig
  have hn : sig.name ∈ famNames := by rw [hname]; exact ha
  have h1 := runWith_fam_ok (fun _ _ => do fault "nested exec"; return none) mode c sig a.2 false hfind hn _
    h0.data h0.nottl (h0.db_lt c hdb)
  have hns : scriptNames.contains sig.name = false := by
    apply scriptNames_contains_false_iff.2
    have h := hn
    simp only [famNames, regNames, blockNames, List.cons_append, List.nil_append, List.mem_cons, List.not_mem_nil,
      or_false] at h
    rcases h with h | h | h | h | h | h | h | h | h | h | h | h | h <;> rw [h] <;> decide
  rw [runInner_not_script mode c sig a.2 hns]
  revert h1
  generalize runWith (special fun _ _ => do fault "nested exec"; return none) mode c sig a.2 false
    (s.updConn c fun x => { x with inTx := true }) = rr
  obtain ⟨r, s2⟩ := rr
  intro h1
  simp only at h1 ⊢
  rw [hname] at h1
  refine ⟨h1.1 hin, ?_⟩
  have := (h0.trans h1.2).updConn (fun x => { x with inTx := false }) (inTx_keyFrame false)
  simpa using this

theorem runQueue_ok (mode : Mode) (c : Nat) (q : List (String × List Bytes)) (hq : ∀ a ∈ q, a.1 ∈ famNames) (s : Sys)
    (hd : s.DataInv) (ht : NoTTL s) (hdb : (s.conn c).db < s.srv.dbs.length) (hc : s.HasConn c) :
    (runQueue (runInner mode c) c q s).1.length = q.length ∧
    (∀ o ∈ (runQueue (runInner mode c) c q s).1, o ≠ none) ∧
    StepOk c (queuePops q (runQueue (runInner mode c) c q s).1) (queuePushes q (runQueue (runInner mode c) c q s).1) s
      (runQueue (runInner mode c) c q s).2 := by
  induction q generalizing s with
  | nil => exact ⟨rfl, fun o h => (by cases h), StepOk.refl c hd ht⟩
  | cons a rest ih =>
    rw [runQueue_cons]
    simp only [bind, StateT.bind, pure, StateT.pure]
    have h1 := queueStep_ok mode c a (hq a (by simp)) s hd ht hdb hc
    revert h1
    generalize queueStep (runInner mode c) c a s = r1
    obtain ⟨o, s1⟩ := r1
    intro h1
    simp only at h1 ⊢
    have h2 := ih (fun b hb => hq b (by simp [hb])) s1 h1.2.data h1.2.nottl (h1.2.db_lt c hdb) ((h1.2.hasc c).2 hc)
    revert h2
    generalize runQueue (runInner mode c) c rest s1 = r2
    obtain ⟨os, s2⟩ := r2
    intro h2
    simp only at h2 ⊢
    refine ⟨by simp [h2.1], ?_, ?_⟩
    · intro o' ho'
      rcases List.mem_cons.1 ho' with rfl | h
      · exact h1.1
      · exact h2.2.1 o' h
    · have := h1.2.trans h2.2.2
      simpa [queuePops, queuePushes] using this


/-! ## the ledgers of one request -/

/-- the elements a reply hands out, for a request whose command is `name`; the reply of EXEC is read against the queue -/
def popsReq (q : List (String × List Bytes)) (name : String) (r : Reply) : List Bytes :=
  if name = "exec" then
    match r with
    | .arr rs => (q.zip rs).flatMap fun p => popsOf p.1.1 p.2
    | _ => []
  else popsOf name r

/-- the elements a request pushed, read off its arguments and its reply; EXEC: off the queue and the replies -/
def pushesReq (q : List (String × List Bytes)) (name : String) (args : List Bytes) (r : Reply) : List Bytes :=
  if name = "exec" then
    match r with
    | .arr rs => (q.zip rs).flatMap fun p => pushesOf p.1.1 p.1.2 p.2
    | _ => []
  else pushesOf name args r

def popsT (q : List (String × List Bytes)) (name : String) : Option Reply → List Bytes
  | some r => popsReq q name r
  | none => []

def pushesT (q : List (String × List Bytes)) (name : String) (args : List Bytes) : Option Reply → List Bytes
  | some r => pushesReq q name args r
  | none => []

theorem popsReq_err (q) (name : String) (m : Bytes) : popsReq q name (.err m) = [] := by
  unfold popsReq; split
  · rfl
  · exact popsOf_err _ _
theorem pushesReq_err (q) (name : String) (args : List Bytes) (m : Bytes) : pushesReq q name args (.err m) = [] := by
  unfold pushesReq; split
  · rfl
  · exact pushesOf_err _ _ _
theorem popsReq_status (q) (name : String) (m : Bytes) : popsReq q name (.status m) = [] := by
  unfold popsReq; split
  · rfl
  · exact popsOf_status _ _
theorem pushesReq_status (q) (name : String) (args : List Bytes) (m : Bytes) : pushesReq q name args (.status m) = [] := by
  unfold pushesReq; split
  · rfl
  · exact pushesOf_status _ _ _
theorem popsReq_nil (q) (name : String) : popsReq q name .nil = [] := by
  unfold popsReq; split
  · rfl
  · exact popsOf_nil _
theorem pushesReq_nil (q) (name : String) (args : List Bytes) : pushesReq q name args .nil = [] := by
  unfold pushesReq; split
  · rfl
  · exact pushesOf_nil _ _

theorem queuePops_some (q : List (String × List Bytes)) (rs : List (Option Reply)) (h : ∀ o ∈ rs, o ≠ none) :
    (q.zip (rs.map fun r => r.getD .nil)).flatMap (fun p => popsOf p.1.1 p.2) = queuePops q rs := by
  unfold queuePops
  induction q generalizing rs with
  | nil => simp
  | cons a q ih =>
    cases rs with
    | nil => simp
    | cons o rs =>
      have ho : o ≠ none := h o (by simp)
      cases o with
      | none => exact absurd rfl ho
      | some r =>
        simp only [List.map_cons, List.zip_cons_cons, List.flatMap_cons, Option.getD_some]
        rw [ih rs (fun o ho => h o (by simp [ho]))]
        rfl

theorem queuePushes_some (q : List (String × List Bytes)) (rs : List (Option Reply)) (h : ∀ o ∈ rs, o ≠ none) :
    (q.zip (rs.map fun r => r.getD .nil)).flatMap (fun p => pushesOf p.1.1 p.1.2 p.2) = queuePushes q rs := by
  unfold queuePushes
  induction q generalizing rs with
  | nil => simp
  | cons a q ih =>
    cases rs with
    | nil => simp
    | cons o rs =>
      have ho : o ≠ none := h o (by simp)
      cases o with
      | none => exact absurd rfl ho
      | some r =>
        simp only [List.map_cons, List.zip_cons_cons, List.flatMap_cons, Option.getD_some]
        rw [ih rs (fun o ho => h o (by simp [ho]))]
        rfl

/-! ## `_run_command` of a command without keys, generically -/

theorem runWith_nokey (inner : Inner) (mode : Mode) (c : Nat) (sig : Sig) (raw : List Bytes) (fs : Bool)
    (hfx : ∀ t ∈ sig.fixed, NonKey t) (hrep : ∀ t ∈ sig.rep, NonKey t) (hreg : Cmd.regular sig.name = none)
    (s : Sys) (hd : s.DataInv) (ht : NoTTL s) (P : Option Reply → Sys → Prop)
    (herr : ∀ m, P (some (.err m)) s) (hquiet : ∀ o s1 s2, P o s1 → Quiet s1 s2 → P o s2)
    (hbody : ∀ args, match (special inner mode c sig.name args [] s).1 with
      | .error e => P (some (.err (strBytes e))) (special inner mode c sig.name args [] s).2
      | .ok (r, cis') => cis' = [] ∧ P r (special inner mode c sig.name args [] s).2) :
    P (runWith (special inner) mode c sig raw fs s).1 (runWith (special inner) mode c sig raw fs s).2 := by
  cases hr : s.refuses c sig with
  | true =>
    rw [runWith_refused _ mode c sig raw fs hr]
    exact herr _
  | false =>
    rw [runWith_special_run _ mode c sig raw fs s hreg hr]
    have hap : sig.apply raw ⟨s.srv.dbs.getD (s.conn c).db [], s.srv.time⟩ =
        (s.dbAt (s.conn c).db, applyL sig raw (fun k => (s.dbAt (s.conn c).db).dict.lookup k)) :=
      apply_noTTL sig raw (hd.dbAt _).1 (ht.dbAt _)
    simp only [hap, setDbS_dbAt_self']
    rcases applyL_nokey sig hfx hrep raw (fun k => (s.dbAt (s.conn c).db).dict.lookup k) with ⟨e, he⟩ | ⟨args, he⟩
    · rw [he]; exact herr _
    · rw [he]
      simp only
      cases runGate sig fs (decide ((s.conn c).pubsub > 0)) with
      | some e => exact herr _
      | none =>
        simp only
        rw [afterSpecial_run]
        have hb := hbody args
        revert hb
        generalize special inner mode c sig.name args [] s = xr
        obtain ⟨res, s2⟩ := xr
        intro hb
        simp only at hb ⊢
        cases res with
        | error e => exact hquiet _ _ _ hb (faulted_quiet e s2)
        | ok pr =>
          obtain ⟨r, cis'⟩ := pr
          simp only at hb ⊢
          obtain ⟨rfl, hp⟩ := hb
          exact hp


/-! ## MULTI / DISCARD / EXEC at top level -/

theorem special_multi (inner : Inner) (mode : Mode) (c : Nat) (args : List Arg) (cis : List CI) :
    special inner mode c "multi" args cis = multiCmd c cis := by
  unfold special; rfl

theorem special_discard (inner : Inner) (mode : Mode) (c : Nat) (args : List Arg) (cis : List CI) :
    special inner mode c "discard" args cis = discardCmd c cis := by
  unfold special; rfl

theorem special_exec' (inner : Inner) (mode : Mode) (c : Nat) (args : List Arg) (cis : List CI) :
    special inner mode c "exec" args cis = execCmd inner c cis := by
  unfold special; rfl

theorem LInv.quiet {s s' : Sys} (h : LInv s) (hq : Quiet s s') : LInv s' := by
  refine ⟨h.data.frame hq.dbs, noTTL_of_dbs h.nottl hq.dbs, fun c => ?_⟩
  rw [hq.conn c, hq.dbs]; exact h.conns c

theorem LInv.updConn {s : Sys} (h : LInv s) (c : Nat) (f : Conn → Conn) (hid : ∀ x, (f x).id = x.id)
    (hok : ConnOk s.srv.dbs.length (f (s.conn c))) : LInv (s.updConn c f) := by
  refine ⟨h.data, h.nottl, fun c' => ?_⟩
  rcases conn_updConn_cases s c c' f hid with e | ⟨_, e⟩
  · rw [e]; exact h.conns c'
  · rw [e]; exact hok

/-- the outcome of a top-level request with respect to the ledgers -/
structure ReqOut (s : Sys) (q : List (String × List Bytes)) (name : String) (args : List Bytes) (o : Option Reply)
    (s' : Sys) : Prop where
  inv : LInv s'
  out : s'.out = s.out
  closed : ∀ c', (s'.conn c').closed = (s.conn c').closed
  bal : ∀ x, (stored s').count x + (popsT q name o).count x = (stored s).count x + (pushesT q name args o).count x

theorem ReqOut.quiet {s : Sys} {q} {name : String} {args : List Bytes} {o : Option Reply} {s1 s2 : Sys}
    (h : ReqOut s q name args o s1) (hq : Quiet s1 s2) : ReqOut s q name args o s2 :=
  ⟨h.inv.quiet hq, hq.out.trans h.out, fun c' => by rw [hq.conn c']; exact h.closed c',
    fun x => by rw [stored_of_dbs hq.dbs]; exact h.bal x⟩

theorem ReqOut.inert {s : Sys} (h : LInv s) (q) (name : String) (args : List Bytes) (r : Reply)
    (h1 : popsReq q name r = []) (h2 : pushesReq q name args r = []) : ReqOut s q name args (some r) s :=
  ⟨h, rfl, fun _ => rfl, fun x => by simp only [popsT, pushesT, h1, h2]⟩

/-- an update of the requester's record that keeps the invariant: inert reply -/
theorem ReqOut.upd {s : Sys} {q} {name : String} {args : List Bytes} {r : Reply} {s1 : Sys}
    (h : ReqOut s q name args (some r) s1) (c : Nat) (f : Conn → Conn) (hid : ∀ x, (f x).id = x.id)
    (hcl : ∀ x, (f x).closed = x.closed) (hok : ConnOk s1.srv.dbs.length (f (s1.conn c))) :
    ReqOut s q name args (some r) (s1.updConn c f) := by
  refine ⟨h.inv.updConn c f hid hok, h.out, fun c' => ?_, h.bal⟩
  rcases conn_updConn_cases s1 c c' f hid with e | ⟨rfl, e⟩
  · rw [e]; exact h.closed c'
  · rw [e, hcl]; exact h.closed c'

theorem connOk_tx {n : Nat} {x : Conn} (h : ConnOk n x) (y : Conn) (hdb : y.db = x.db) (hp : y.parked = x.parked)
    (hc : y.closed = x.closed) (htx : ∀ q, y.tx = some q → ∀ a ∈ q, a.1 ∈ famNames) : ConnOk n y :=
  ⟨by rw [hdb]; exact h.db, by rw [hp, hc]; exact h.open_, htx⟩

theorem multi_ok (inner : Inner) (mode : Mode) (c : Nat) (raw : List Bytes) (fs : Bool) (q) (s : Sys) (h : LInv s) :
    ReqOut s q "multi" raw (runWith (special inner) mode c ⟨"multi", [], [], true, 0, 0, false⟩ raw fs s).1
      (runWith (special inner) mode c ⟨"multi", [], [], true, 0, 0, false⟩ raw fs s).2 := by
  refine runWith_nokey inner mode c _ raw fs (by simp) (by simp) rfl s h.data h.nottl
    (fun o s' => ReqOut s q "multi" raw o s') (fun m => ReqOut.inert h _ _ _ _ (popsReq_err _ _ _) (pushesReq_err _ _ _ _))
    (fun o s1 s2 h1 hq => h1.quiet hq) (fun args => ?_)
  show match (special inner mode c "multi" args [] s).1 with
    | .error e => _
    | .ok (r, cis') => _
  rw [special_multi]
  cases htx : (s.conn c).tx with
  | none =>
    rw [multiCmd_run_none [] htx]
    refine ⟨rfl, (ReqOut.inert h q "multi" raw .ok (popsReq_status _ _ _) (pushesReq_status _ _ _ _)).upd c _
      (fun _ => rfl) (fun _ => rfl) ?_⟩
    exact connOk_tx (h.conns c) _ rfl rfl rfl (fun q' hq' a ha => by
      simp only [Option.some.injEq] at hq'; subst hq'; cases ha)
  | some q0 =>
    rw [multiCmd_run_some [] (by rw [htx]; rfl)]
    exact ReqOut.inert h _ _ _ _ (popsReq_err _ _ _) (pushesReq_err _ _ _ _)

theorem discard_ok (inner : Inner) (mode : Mode) (c : Nat) (raw : List Bytes) (fs : Bool) (q) (s : Sys) (h : LInv s) :
    ReqOut s q "discard" raw (runWith (special inner) mode c ⟨"discard", [], [], true, 0, 0, false⟩ raw fs s).1
      (runWith (special inner) mode c ⟨"discard", [], [], true, 0, 0, false⟩ raw fs s).2 := by
  refine runWith_nokey inner mode c _ raw fs (by simp) (by simp) rfl s h.data h.nottl
    (fun o s' => ReqOut s q "discard" raw o s') (fun m => ReqOut.inert h _ _ _ _ (popsReq_err _ _ _) (pushesReq_err _ _ _ _))
    (fun o s1 s2 h1 hq => h1.quiet hq) (fun args => ?_)
  show match (special inner mode c "discard" args [] s).1 with
    | .error e => _
    | .ok (r, cis') => _
  rw [special_discard]
  cases htx : (s.conn c).tx with
  | none =>
    rw [discardCmd_run_none [] htx]
    exact ReqOut.inert h _ _ _ _ (popsReq_err _ _ _) (pushesReq_err _ _ _ _)
  | some q0 =>
    rw [discardCmd_run_some [] (by rw [htx]; rfl)]
    have h1 := (ReqOut.inert h q "discard" raw .ok (popsReq_status _ _ _) (pushesReq_status _ _ _ _)).upd c
      (fun x => { x with tx := none, txFailed := false }) (fun _ => rfl) (fun _ => rfl)
      (connOk_tx (h.conns c) _ rfl rfl rfl (fun q' hq' => by cases hq'))
    refine ⟨rfl, h1.upd c (fun x => { x with watchNotified := false, watches := [] }) (fun _ => rfl) (fun _ => rfl) ?_⟩
    exact connOk_tx (h1.inv.conns c) _ rfl rfl rfl (h1.inv.conns c).tx


theorem exec_ok (mode : Mode) (c : Nat) (raw : List Bytes) (fs : Bool) (s : Sys) (h : LInv s)
    (hopen : (s.conn c).closed = false) :
    ReqOut s ((s.conn c).tx.getD []) "exec" raw
      (runWith (special (runInner mode c)) mode c ⟨"exec", [], [], true, 0, 0, false⟩ raw fs s).1
      (runWith (special (runInner mode c)) mode c ⟨"exec", [], [], true, 0, 0, false⟩ raw fs s).2 := by
  refine runWith_nokey (runInner mode c) mode c _ raw fs (by simp) (by simp) rfl s h.data h.nottl
    (fun o s' => ReqOut s ((s.conn c).tx.getD []) "exec" raw o s')
    (fun m => ReqOut.inert h _ _ _ _ (popsReq_err _ _ _) (pushesReq_err _ _ _ _))
    (fun o s1 s2 h1 hq => h1.quiet hq) (fun args => ?_)
  show match (special (runInner mode c) mode c "exec" args [] s).1 with
    | .error e => _
    | .ok (r, cis') => _
  rw [special_exec']
  cases htx : (s.conn c).tx with
  | none =>
    rw [execCmd_run_none _ [] htx]
    exact ReqOut.inert h _ _ _ _ (popsReq_err _ _ _) (pushesReq_err _ _ _ _)
  | some q =>
    have hq : ∀ a ∈ q, a.1 ∈ famNames := (h.conns c).tx q htx
    have hc : s.HasConn c := Sys.hasConn_of_tx (by rw [htx]; rfl)
    -- the two updates of the requester's record that open every branch
    have upd2 : ∀ (r : Reply) (f : Conn → Conn), (∀ x, (f x).id = x.id ∧ (f x).db = x.db ∧ (f x).parked = x.parked ∧
        (f x).closed = x.closed ∧ (f x).tx = none) → popsReq q "exec" r = [] → pushesReq q "exec" raw r = [] →
        ReqOut s q "exec" raw (some r)
          ((s.updConn c f).updConn c fun x => { x with watchNotified := false, watches := [] }) := by
      intro r f hf h1 h2
      have a := (ReqOut.inert h q "exec" raw r h1 h2).upd c f (fun x => (hf x).1) (fun x => (hf x).2.2.2.1)
        (connOk_tx (h.conns c) _ (hf _).2.1 (hf _).2.2.1 (hf _).2.2.2.1 (fun q' hq' => by rw [(hf _).2.2.2.2] at hq'; cases hq'))
      exact a.upd c (fun x => { x with watchNotified := false, watches := [] }) (fun _ => rfl) (fun _ => rfl)
        (connOk_tx (a.inv.conns c) _ rfl rfl rfl (a.inv.conns c).tx)
    simp only [Option.getD_some]
    cases hf : (s.conn c).txFailed with
    | true =>
      rw [execCmd_run_failed _ [] htx hf]
      exact upd2 _ (fun x => { x with tx := none }) (fun _ => ⟨rfl, rfl, rfl, rfl, rfl⟩) (popsReq_err _ _ _) (pushesReq_err _ _ _ _)
    | false =>
      cases hw : (s.conn c).watchNotified with
      | true =>
        rw [execCmd_run_dirty _ [] htx hf hw]
        exact ⟨rfl, upd2 _ (fun x => { x with tx := none, txFailed := false }) (fun _ => ⟨rfl, rfl, rfl, rfl, rfl⟩)
          (popsReq_nil _ _) (pushesReq_nil _ _ _)⟩
      | false =>
        rw [execCmd_eq_sequential _ [] htx hf hw]
        simp only [bind, StateT.bind, modifyConn_run, clearWatches_run]
        have h0 := upd2 .nil (fun x => { x with tx := none, txFailed := false }) (fun _ => ⟨rfl, rfl, rfl, rfl, rfl⟩)
          (popsReq_nil _ _) (pushesReq_nil _ _ _)
        generalize hsa : ((s.updConn c fun x => { x with tx := none, txFailed := false }).updConn c
          fun x => { x with watchNotified := false, watches := [] }) = sa at h0
        have hca : sa.HasConn c := by
          rw [← hsa]
          refine (Sys.hasConn_updConn _ ?_).2 ((Sys.hasConn_updConn _ ?_).2 hc) <;> intro _ <;> rfl
        have hopena : (sa.conn c).closed = false := by rw [h0.closed c]; exact hopen
        have hrq := runQueue_ok mode c q hq sa h0.inv.data h0.inv.nottl (h0.inv.conns c).db hca
        revert hrq
        generalize runQueue (runInner mode c) c q sa = rq
        obtain ⟨rs, sb⟩ := rq
        intro hrq
        simp only at hrq ⊢
        obtain ⟨_, hsome, hstep⟩ := hrq
        have hany : rs.any Option.isNone = false := by
          rw [List.any_eq_false]
          intro o ho
          cases o with
          | none => exact absurd rfl (hsome _ ho)
          | some r => simp
        simp only [hany, Bool.false_eq_true, if_false]
        rw [show okR (Reply.arr (rs.map fun r => r.getD .nil)) [] sb =
          (.ok (some (Reply.arr (rs.map fun r => r.getD .nil)), []), sb) from rfl]
        refine ⟨rfl, h0.inv.step hstep hopena, hstep.out.trans h0.out, fun c' => ?_, fun x => ?_⟩
        · have := hstep.conn c'
          simp only [ckey, Prod.mk.injEq] at this
          rw [this.2.1]; exact h0.closed c'
        · have e1 : popsT q "exec" (some (Reply.arr (rs.map fun r => r.getD .nil))) = queuePops q rs := by
            simp only [popsT, popsReq, if_true]; exact queuePops_some q rs hsome
          have e2 : pushesT q "exec" raw (some (Reply.arr (rs.map fun r => r.getD .nil))) = queuePushes q rs := by
            simp only [pushesT, pushesReq, if_true]; exact queuePushes_some q rs hsome
          show (stored sb).count x + (popsT q "exec" (some (Reply.arr (rs.map fun r => r.getD .nil)))).count x =
            (stored s).count x + (pushesT q "exec" raw (some (Reply.arr (rs.map fun r => r.getD .nil)))).count x
          rw [e1, e2]
          have a := hstep.bal x
          have b := h0.bal x
          simp only [popsT, pushesT, popsReq_nil, pushesReq_nil, List.count_nil, Nat.add_zero] at b
          omega


/-! ## `_process_command` for the family -/

theorem fam_ne_exec {name : String} (h : name ∈ famNames) : name ≠ "exec" := by
  simp only [famNames, regNames, blockNames, List.cons_append, List.nil_append, List.mem_cons, List.not_mem_nil, or_false] at h
  rcases h with h | h | h | h | h | h | h | h | h | h | h | h | h <;> rw [h] <;> decide

theorem fam_ok (mode : Mode) (c : Nat) (sig : Sig) (raw : List Bytes) (fs : Bool)
    (hfind : SigTable.find sig.name = some sig) (hn : sig.name ∈ famNames) (q) (s : Sys) (h : LInv s)
    (hopen : (s.conn c).closed = false) :
    ReqOut s q sig.name raw (runWith (special (runInner mode c)) mode c sig raw fs s).1
      (runWith (special (runInner mode c)) mode c sig raw fs s).2 := by
  obtain ⟨_, hs⟩ := runWith_fam_ok (runInner mode c) mode c sig raw fs hfind hn s h.data h.nottl (h.conns c).db
  have hne := fam_ne_exec hn
  refine ⟨h.step hs hopen, hs.out, fun c' => ?_, fun x => ?_⟩
  · have := hs.conn c'
    simp only [ckey, Prod.mk.injEq] at this
    exact this.2.1
  · have e1 : ∀ o, popsT q sig.name o = popsO sig.name o := by
      intro o; cases o with
      | none => rfl
      | some r => simp only [popsT, popsO, popsReq, if_neg hne]
    have e2 : ∀ o, pushesT q sig.name raw o = pushesO sig.name raw o := by
      intro o; cases o with
      | none => rfl
      | some r => simp only [pushesT, pushesO, pushesReq, if_neg hne]
    rw [e1, e2]
    exact hs.bal x

/-- the conclusion about one request event -/
def Final (s0 : Sys) (q : List (String × List Bytes)) (name : String) (args : List Bytes) (s' : Sys) : Prop :=
  LInv s' ∧ (∀ c', (s'.conn c').closed = (s0.conn c').closed) ∧
  ∀ x, (stored s').count x + (s'.out.flatMap fun p => popsReq q name p.2).count x =
    (stored s0).count x + (s'.out.flatMap fun p => pushesReq q name args p.2).count x

theorem linv_of_srv {s s' : Sys} (h : LInv s) (e : s'.srv = s.srv) : LInv s' := by
  refine ⟨h.data.frame (by rw [e]), noTTL_of_dbs h.nottl (by rw [e]), fun c => ?_⟩
  have : s'.conn c = s.conn c := by simp only [Sys.conn_def, e]
  rw [this, e]; exact h.conns c

theorem final_emit {s0 : Sys} {q} {name : String} {args : List Bytes} {r : Reply} {s2 : Sys} {c : Nat}
    (h : ReqOut s0 q name args (some r) s2) (hout : s0.out = []) (hopen : (s0.conn c).closed = false) :
    Final s0 q name args (s2.emitS c r) := by
  refine ⟨linv_of_srv h.inv (Sys.emitS_srv _ _ _), fun c' => (by rw [Sys.emitS_conn]; exact h.closed c'), fun x => ?_⟩
  have hcl : (s2.conn c).closed = false := by rw [h.closed c]; exact hopen
  have hst : stored (s2.emitS c r) = stored s2 := stored_of_dbs (by rw [Sys.emitS_srv])
  rw [Sys.emitS_out, hcl, h.out, hout, hst]
  simp only [Bool.false_eq_true, if_false, List.flatMap_cons, List.flatMap_nil, List.append_nil]
  exact h.bal x

theorem final_none {s0 : Sys} {q} {name : String} {args : List Bytes} {s2 : Sys}
    (h : ReqOut s0 q name args none s2) (hout : s0.out = []) : Final s0 q name args s2 := by
  refine ⟨h.inv, h.closed, fun x => ?_⟩
  rw [h.out, hout]
  exact h.bal x

theorem final_finish {s0 : Sys} {q} {name : String} {args : List Bytes} {s' : Sys} (c : Nat)
    (h : Final s0 q name args s') : Final s0 q name args (PubSubHist.finish c s') := by
  unfold PubSubHist.finish
  split
  · refine ⟨h.1.updConn c _ (fun _ => rfl) (connOk_tx (h.1.conns c) _ rfl rfl rfl (h.1.conns c).tx), fun c' => ?_, h.2.2⟩
    rcases conn_updConn_cases s' c c' (fun x => { x with dead := true }) (fun _ => rfl) with e | ⟨rfl, e⟩
    · rw [e]; exact h.2.1 c'
    · rw [e]; exact h.2.1 c'
  · exact h

theorem prep_ok (s : Sys) (h : LInv s) (q) (name : String) (args : List Bytes) (r : Reply)
    (h1 : popsReq q name r = []) (h2 : pushesReq q name args r = []) :
    ReqOut s q name args (some r) (PubSubHist.prep s) ∧ ∀ c, ((PubSubHist.prep s).conn c).tx = (s.conn c).tx := by
  have hp : PubSubHist.prep s = ScanSys.prologue s := rfl
  rw [hp]
  have hdbs := ScanSys.prologue_dbs s
  refine ⟨⟨⟨h.data.frame hdbs, noTTL_of_dbs h.nottl hdbs, fun c => ?_⟩, ScanSys.prologue_out s,
    ScanSys.prologue_conn_closed s, fun x => ?_⟩, ScanSys.prologue_conn_tx s⟩
  · rw [hdbs]
    rcases ScanSys.prologue_conn s c with e | e <;> rw [e]
    · exact h.conns c
    · exact connOk_tx (h.conns c) _ rfl rfl rfl (h.conns c).tx
  · rw [stored_of_dbs hdbs]
    simp only [popsT, pushesT, h1, h2]


theorem ReqOut.rebase {s0 s1 s2 : Sys} {q} {name : String} {args : List Bytes} {o : Option Reply}
    (hout : s1.out = s0.out) (hcl : ∀ c', (s1.conn c').closed = (s0.conn c').closed)
    (hst : ∀ x, (stored s1).count x = (stored s0).count x) (h : ReqOut s1 q name args o s2) : ReqOut s0 q name args o s2 :=
  ⟨h.inv, h.out.trans hout, fun c' => (h.closed c').trans (hcl c'), fun x => by rw [← hst x]; exact h.bal x⟩

theorem find_of_lookup {nameB : Bytes} {sig : Sig} (h : lookupSig nameB = some sig) : SigTable.find sig.name = some sig := by
  unfold lookupSig at h
  split at h
  · split at h
    · cases h
    · rw [SigTable.find_name h]; exact h
  · cases h

theorem famtx_not_script {name : String} (h : name ∈ famNames ∨ name ∈ txNames) : name ∉ scriptNames := by
  rcases h with h | h
  · simp only [famNames, regNames, blockNames, List.cons_append, List.nil_append, List.mem_cons, List.not_mem_nil, or_false] at h
    rcases h with h | h | h | h | h | h | h | h | h | h | h | h | h <;> rw [h] <;> decide
  · simp only [txNames, List.mem_cons, List.not_mem_nil, or_false] at h
    rcases h with h | h | h <;> rw [h] <;> decide

theorem fam_queued {name : String} (h : name ∈ famNames) : SigTable.notQueued.contains name = false := by
  simp only [famNames, regNames, blockNames, List.cons_append, List.nil_append, List.mem_cons, List.not_mem_nil, or_false] at h
  rcases h with h | h | h | h | h | h | h | h | h | h | h | h | h <;> rw [h] <;> decide

theorem tx_notQueued {name : String} (h : name ∈ txNames) : SigTable.notQueued.contains name = true := by
  simp only [txNames, List.mem_cons, List.not_mem_nil, or_false] at h
  rcases h with h | h | h <;> rw [h] <;> decide

/-- **one request of the list family (or MULTI / EXEC / DISCARD) through `_process_command`** -/
theorem request_ok (mode : Mode) (c : Nat) (nameB : Bytes) (args : List Bytes) (sig : Sig)
    (hsig : lookupSig nameB = some sig) (hn : sig.name ∈ famNames ∨ sig.name ∈ txNames)
    (s0 : Sys) (h : LInv s0) (hout : s0.out = []) (hopen : (s0.conn c).closed = false) :
    Final s0 ((s0.conn c).tx.getD []) sig.name args (processCommand mode c (nameB :: args) s0).2 := by
  rw [PubSubHist.processCommand_known mode c nameB args s0 hsig]
  have hfind := find_of_lookup hsig
  generalize hq : (s0.conn c).tx.getD [] = q
  have hprep : ∀ r, popsReq q sig.name r = [] → pushesReq q sig.name args r = [] →
      ReqOut s0 q sig.name args (some r) (PubSubHist.prep s0) := fun r h1 h2 => (prep_ok s0 h q sig.name args r h1 h2).1
  have hptx : ((PubSubHist.prep s0).conn c).tx = (s0.conn c).tx := (prep_ok s0 h q sig.name args .nil (popsReq_nil _ _) (pushesReq_nil _ _ _)).2 c
  have hp0 := hprep .nil (popsReq_nil _ _) (pushesReq_nil _ _ _)
  generalize PubSubHist.prep s0 = s1 at hprep hptx hp0
  cases har : sig.checkArity args.length with
  | false =>
    unfold dispatchBody
    simp only [har, Bool.not_false, if_true]
    have herr : ∀ m, ReqOut s0 q sig.name args (some (.err m)) s1 := fun m => hprep _ (popsReq_err _ _ _) (pushesReq_err _ _ _ _)
    have hA : ∀ m, ReqOut s0 q sig.name args (some (.err m)) (s1.updConn c fun x => { x with txFailed := true }) :=
      fun m => (herr m).upd c _ (fun _ => rfl) (fun _ => rfl) (connOk_tx ((herr m).inv.conns c) _ rfl rfl rfl ((herr m).inv.conns c).tx)
    have hB : ∀ {s2 : Sys} m, ReqOut s0 q sig.name args (some (.err m)) s2 →
        ReqOut s0 q sig.name args (some (.err m)) ((s2.updConn c fun x => { x with tx := none, txFailed := false }).updConn c
          fun x => { x with watchNotified := false, watches := [] }) := by
      intro s2 m h2
      have a := h2.upd c (fun x => { x with tx := none, txFailed := false }) (fun _ => rfl) (fun _ => rfl)
        (connOk_tx (h2.inv.conns c) _ rfl rfl rfl (fun q' hq' => by cases hq'))
      exact a.upd c (fun x => { x with watchNotified := false, watches := [] }) (fun _ => rfl) (fun _ => rfl)
        (connOk_tx (a.inv.conns c) _ rfl rfl rfl (a.inv.conns c).tx)
    cases htx : (s0.conn c).tx.isSome <;> cases hex : (sig.name == "exec") <;>
      simp only [bind, StateT.bind, modifyConn_run, clearWatches_run, emit_run, if_true, if_false, Bool.false_eq_true, pure, StateT.pure]
    · exact final_emit (herr _) hout hopen
    · exact final_emit (hB _ (herr _)) hout hopen
    · exact final_emit (hA _) hout hopen
    · exact final_emit (hB _ (hA _)) hout hopen
  | true =>
    cases hqd : ((s0.conn c).tx.isSome && !SigTable.notQueued.contains sig.name) with
    | true =>
      have hnm : SigTable.notInMulti.contains sig.name = false := by
        have key : ∀ n ∈ famNames ++ txNames, SigTable.notInMulti.contains n = false := by decide
        exact key _ (List.mem_append.2 hn)
      rw [PubSubHist.dispatchBody_queued mode c (s0.conn c) sig args s1 har hqd hnm]
      simp only [Bool.and_eq_true, Bool.not_eq_true'] at hqd
      have hfam : sig.name ∈ famNames := by
        rcases hn with hn | hn
        · exact hn
        · rw [tx_notQueued hn] at hqd; cases hqd.2
      have hb := hprep Reply.queued (popsReq_status _ _ _) (pushesReq_status _ _ _ _)
      refine final_emit (hb.upd c _ (fun _ => rfl) (fun _ => rfl) ?_) hout hopen
      refine connOk_tx (hb.inv.conns c) _ rfl rfl rfl ?_
      intro q' hq' a ha
      cases htx1 : (s1.conn c).tx with
      | none => simp only [htx1, Option.map_none] at hq'; cases hq'
      | some q1 =>
        simp only [htx1, Option.map_some, Option.some.injEq] at hq'
        subst hq'
        rcases List.mem_append.1 ha with ha | ha
        · exact (hb.inv.conns c).tx q1 htx1 a ha
        · simp only [List.mem_singleton] at ha
          subst ha; exact hfam
    | false =>
      rw [PubSubHist.dispatchBody_run' mode c (s0.conn c) sig args s1 har hqd]
      rw [runCommand_not_script mode c sig args false (famtx_not_script hn)]
      have hcl1 : (s1.conn c).closed = false := by rw [hp0.closed c]; exact hopen
      have hrun : ReqOut s0 q sig.name args (runWith (special (runInner mode c)) mode c sig args false s1).1
          (runWith (special (runInner mode c)) mode c sig args false s1).2 := by
        refine ReqOut.rebase hp0.out hp0.closed (fun x => by have := hp0.bal x; simpa [popsT, pushesT, popsReq_nil, pushesReq_nil] using this) ?_
        rcases hn with hn | hn
        · exact fam_ok mode c sig args false hfind hn q s1 hp0.inv hcl1
        · have key : ∀ (n : String) (sg : Sig), sig.name = n → SigTable.find n = some sg → sg = sig := by
            intro n sg hname hf
            rw [hname, hf] at hfind
            exact Option.some.inj hfind
          simp only [txNames, List.mem_cons, List.not_mem_nil, or_false] at hn
          rcases hn with hnm | hnm | hnm
          · have := key "multi" ⟨"multi", [], [], true, 0, 0, false⟩ hnm rfl
            subst this
            exact multi_ok (runInner mode c) mode c args false q s1 hp0.inv
          · have := key "exec" ⟨"exec", [], [], true, 0, 0, false⟩ hnm rfl
            subst this
            have := exec_ok mode c args false s1 hp0.inv hcl1
            rw [hptx, hq] at this
            exact this
          · have := key "discard" ⟨"discard", [], [], true, 0, 0, false⟩ hnm rfl
            subst this
            exact discard_ok (runInner mode c) mode c args false q s1 hp0.inv
      revert hrun
      generalize runWith (special (runInner mode c)) mode c sig args false s1 = rr
      obtain ⟨o, s2⟩ := rr
      intro hrun
      simp only at hrun ⊢
      apply final_finish
      cases o with
      | none => exact final_none hrun hout
      | some r => exact final_emit hrun hout hopen


/-! ## wake-ups and time-outs -/

/-- the conclusion about a wake-up / time-out event -/
def FinalW (s0 s' : Sys) : Prop :=
  LInv s' ∧ (∀ c', (s'.conn c').closed = (s0.conn c').closed) ∧
  ∀ x, (stored s').count x + (s'.out.flatMap fun p => popElem p.2).count x = (stored s0).count x

theorem unpark_connOk {n : Nat} {x : Conn} (h : ConnOk n x) : ConnOk n (unpark x) :=
  ⟨h.db, fun hp => (by cases hp), h.tx⟩

theorem stay_connOk {n : Nat} {x : Conn} (h : ConnOk n x) (p : Parked) (hp : x.parked.isSome = true) :
    ConnOk n (stayParked p x) :=
  ⟨h.db, fun _ => h.open_ hp, h.tx⟩

/-- un-park the requester and hand it the reply `r` whose element is `pops` -/
theorem finalW_unpark_emit {s0 s1 : Sys} {c : Nat} {pops : List Bytes} (r : Reply) (h0 : LInv s0)
    (hs : StepOk c pops [] s0 s1) (hout : s0.out = []) (hopen : (s0.conn c).closed = false) (hc : s0.HasConn c)
    (hp : popElem r = pops) : FinalW s0 ((s1.updConn c unpark).emitS c r) := by
  have h1 : LInv s1 := h0.step hs hopen
  have hc1 : s1.HasConn c := (hs.hasc c).2 hc
  have hcl1 : (s1.conn c).closed = false := by
    have := hs.conn c
    simp only [ckey, Prod.mk.injEq] at this
    rw [this.2.1]; exact hopen
  obtain ⟨_, h2, h3, _⟩ := unpark_emit_spec s1 c r hc1
  have hclosed : ∀ c', (s1.conn c').closed = (s0.conn c').closed := by
    intro c'
    have := hs.conn c'
    simp only [ckey, Prod.mk.injEq] at this
    exact this.2.1
  refine ⟨linv_of_srv (h1.updConn c unpark (fun _ => rfl) (unpark_connOk (h1.conns c))) (Sys.emitS_srv _ _ _), fun c' => ?_, fun x => ?_⟩
  · rw [Sys.emitS_conn]
    rcases conn_updConn_cases s1 c c' unpark (fun _ => rfl) with e | ⟨rfl, e⟩
    · rw [e]; exact hclosed c'
    · rw [e]; exact hclosed c'
  rw [h2, hcl1, hs.out, hout, stored_of_dbs h3]
  simp only [Bool.false_eq_true, if_false, List.flatMap_cons, List.flatMap_nil, List.append_nil, hp]
  have := hs.bal x
  simpa using this

theorem wake_ok (c : Nat) (s0 : Sys) (h : LInv s0) (hout : s0.out = []) : FinalW s0 (wakeConn c s0).2 := by
  cases hp : (s0.conn c).parked with
  | none =>
    have : wakeConn c s0 = M.fault "wake: connection is not parked" s0 := by
      unfold wakeConn
      simp only [bind, StateT.bind, getConn_run, hp]
    rw [this]
    have hq := Quiet.fault s0 "wake: connection is not parked"
    refine ⟨h.quiet hq, fun c' => (by rw [hq.conn c']), fun x => ?_⟩
    rw [hq.out, hout, stored_of_dbs hq.dbs]; rfl
  | some p =>
    have hc : s0.HasConn c := Sys.hasConn_of_parked hp
    have hopen : (s0.conn c).closed = false := (h.conns c).open_ (by rw [hp]; rfl)
    rw [wakeConn_run c p s0 hp]
    have hpass := parkedPass_ok c c p s0 h.data h.nottl
    revert hpass
    generalize parkedPass c p s0 = pr
    obtain ⟨res, s1⟩ := pr
    intro hpass
    simp only at hpass ⊢
    have hrefl : StepOk c [] [] s0 s0 := StepOk.refl c h.data h.nottl
    unfold wakeState
    cases res with
    | error e =>
      have : s1 = s0 := hpass.2 (fun r hr => by cases hr)
      subst this
      exact finalW_unpark_emit _ h hrefl hout hopen hc rfl
    | ok o =>
      cases o with
      | some r => exact finalW_unpark_emit r h (hpass.1 r rfl) hout hopen hc rfl
      | none =>
        have : s1 = s0 := hpass.2 (fun r hr => by cases hr)
        subst this
        have hstay : ∀ s2, Quiet s1 s2 → FinalW s1 (s2.updConn c (stayParked p)) := by
          intro s2 hq
          have h2 : LInv s2 := h.quiet hq
          refine ⟨h2.updConn c _ (fun _ => rfl) (stay_connOk (h2.conns c) p (by rw [hq.conn c, hp]; rfl)), fun c' => ?_, fun x => ?_⟩
          · rcases conn_updConn_cases s2 c c' (stayParked p) (fun _ => rfl) with e | ⟨rfl, e⟩
            · rw [e, hq.conn c']
            · rw [e, hq.conn c']; rfl
          show (stored (s2.updConn c (stayParked p))).count x + ((s2.updConn c (stayParked p)).out.flatMap _).count x = _
          rw [Sys.updConn_out, hq.out, hout, stored_of_dbs (show (s2.updConn c (stayParked p)).srv.dbs = s1.srv.dbs from hq.dbs)]
          rfl
        simp only
        split
        · exact hstay s1 (Quiet.refl _)
        · split
          · have hq := Quiet.nextClock s1
            exact finalW_unpark_emit .nil h (hrefl.quiet_right hq) hout hopen hc rfl
          · exact hstay _ (Quiet.nextClock s1)

theorem timeout_ok (c : Nat) (s0 : Sys) (h : LInv s0) (hout : s0.out = []) : FinalW s0 (timeoutConn c s0).2 := by
  cases hp : (s0.conn c).parked with
  | none =>
    have : timeoutConn c s0 = M.fault "timeout: connection is not parked" s0 := by
      unfold timeoutConn
      simp only [bind, StateT.bind, getConn_run, hp]
    rw [this]
    have hq := Quiet.fault s0 "timeout: connection is not parked"
    refine ⟨h.quiet hq, fun c' => (by rw [hq.conn c']), fun x => ?_⟩
    rw [hq.out, hout, stored_of_dbs hq.dbs]; rfl
  | some p =>
    have hc : s0.HasConn c := Sys.hasConn_of_parked hp
    have hopen : (s0.conn c).closed = false := (h.conns c).open_ (by rw [hp]; rfl)
    rw [timeoutConn_run c p s0 hp]
    exact finalW_unpark_emit .nil h (StepOk.refl c h.data h.nottl) hout hopen hc rfl


/-! ## events -/

/-- a request of the list family, or MULTI / EXEC / DISCARD -/
def FamilyReq (fields : List Bytes) : Prop :=
  ∃ nameB args sig, fields = nameB :: args ∧ lookupSig nameB = some sig ∧ (sig.name ∈ famNames ∨ sig.name ∈ txNames)

/-- the events a list-family history may contain, and when: requests of the family by connections whose socket is open,
wake-ups and time-outs of (parked) connections, new connections, closing a socket that is not parked, version / outage
switches, garbage collection of a connection object.  Not allowed: closing the socket of a parked connection, `send`
of raw bytes (the parser loop), the asyncio wake-up events. -/
def Legal (s : Sys) : Ev → Prop
  | .request _ c fields _ _ => FamilyReq fields ∧ (s.conn c).closed = false
  | .wake _ _ => True
  | .timeout _ => True
  | .open _ => True
  | .version _ => True
  | .conn _ => True
  | .close c => (s.conn c).parked = none
  | .gc _ => True
  | _ => False

/-- the list elements handed to clients by the replies of one event -/
def deliveredEv (s : Sys) (e : Ev) : List Bytes :=
  match e with
  | .request _ c (nameB :: _) _ _ =>
    match lookupSig nameB with
    | some sig => (stepEv s e).out.flatMap fun p => popsReq ((s.conn c).tx.getD []) sig.name p.2
    | none => []
  | .wake _ _ => (stepEv s e).out.flatMap fun p => popElem p.2
  | _ => []

/-- … restricted to the replies addressed to connection `c'` -/
def deliveredToEv (c' : Nat) (s : Sys) (e : Ev) : List Bytes :=
  match e with
  | .request _ c (nameB :: _) _ _ =>
    match lookupSig nameB with
    | some sig => ((stepEv s e).out.filter fun p => p.1 == c').flatMap fun p => popsReq ((s.conn c).tx.getD []) sig.name p.2
    | none => []
  | .wake _ _ => ((stepEv s e).out.filter fun p => p.1 == c').flatMap fun p => popElem p.2
  | _ => []

/-- the list elements pushed by the commands of one event -/
def pushedEv (s : Sys) (e : Ev) : List Bytes :=
  match e with
  | .request _ c (nameB :: args) _ _ =>
    match lookupSig nameB with
    | some sig => (stepEv s e).out.flatMap fun p => pushesReq ((s.conn c).tx.getD []) sig.name args p.2
    | none => []
  | _ => []

theorem openConn_conn_old (c c' : Nat) (s : Sys) (h : s.HasConn c') : (openConn c s).2.conn c' = s.conn c' := by
  rw [openConn_run]
  rw [Sys.hasConn_iff] at h
  simp only [Sys.conn_def, List.find?_append]
  cases h' : s.srv.conns.find? (·.id == c') with
  | none => rw [h'] at h; simp at h
  | some x => simp

theorem linv_open (c : Nat) (s : Sys) (h : LInv s) : LInv (openConn c s).2 := by
  refine ⟨h.data, h.nottl, fun c' => ?_⟩
  show ConnOk s.srv.dbs.length ((openConn c s).2.conn c')
  by_cases hc : s.HasConn c'
  · rw [openConn_conn_old c c' s hc]; exact h.conns c'
  · by_cases hne : c' = c
    · subst hne
      rw [(openConn_conn_new c' s hc).2]; exact connOk_default _ _ h.pos
    · rw [openConn_conn_other c c' s hne]; exact h.conns c'

theorem gcConn_conn (c c' : Nat) (s : Sys) :
    (gcConn c s).2.conn c' = if c' = c then { id := c' } else s.conn c' := by
  have hg : (gcConn c s).2.srv.conns = s.srv.conns.filter (fun x => x.id != c) := rfl
  rw [Sys.conn_def, hg, Sys.conn_def, List.find?_filter]
  by_cases hne : c' = c
  · subst hne
    simp only [if_true]
    have : (s.srv.conns.find? fun a => decide ((a.id != c') = true ∧ (a.id == c') = true)) = none := by
      rw [List.find?_eq_none]
      intro a _
      by_cases h : a.id = c' <;> simp [h]
    rw [this]; rfl
  · simp only [hne, if_false]
    have : (fun a : Conn => decide ((a.id != c) = true ∧ (a.id == c') = true)) = fun a : Conn => a.id == c' := by
      funext a
      by_cases h : a.id = c'
      · simp [h, hne]
      · simp [h]
    rw [this]

theorem linv_gc (c : Nat) (s : Sys) (h : LInv s) : LInv (gcConn c s).2 := by
  refine ⟨h.data, h.nottl, fun c' => ?_⟩
  show ConnOk s.srv.dbs.length ((gcConn c s).2.conn c')
  rw [gcConn_conn]
  split
  · exact connOk_default _ _ h.pos
  · exact h.conns c'

/-- **every legal event keeps the invariant and balances the books**; no event but `close` closes a socket -/
theorem stepEv_ok (s : Sys) (e : Ev) (h : LInv s) (hl : Legal s e) :
    LInv (stepEv s e) ∧
    (∀ x, (stored (stepEv s e)).count x + (deliveredEv s e).count x = (stored s).count x + (pushedEv s e).count x) ∧
    ((∀ c, e ≠ .close c) → (∀ c', (s.conn c').closed = false) → ∀ c', ((stepEv s e).conn c').closed = false) := by
  cases e with
  | request mode c fields clocks picks =>
    obtain ⟨⟨nameB, args, sig, rfl, hsig, hn⟩, hopen⟩ := hl
    have h0 : LInv (s.beginEvent.withHints clocks picks) := linv_of_srv h rfl
    have := request_ok mode c nameB args sig hsig hn _ h0 rfl hopen
    simp only [deliveredEv, pushedEv, hsig]
    exact ⟨this.1, this.2.2, fun _ hall c' => (this.2.1 c').trans (hall c')⟩
  | wake c clocks =>
    have h0 : LInv (s.beginEvent.withHints clocks []) := linv_of_srv h rfl
    have := wake_ok c _ h0 rfl
    refine ⟨this.1, fun x => ?_, fun _ hall c' => (this.2.1 c').trans (hall c')⟩
    simp only [deliveredEv, pushedEv, List.count_nil, Nat.add_zero]
    exact this.2.2 x
  | timeout c =>
    have h0 : LInv s.beginEvent := linv_of_srv h rfl
    have := timeout_ok c _ h0 rfl
    refine ⟨this.1, fun x => ?_, fun _ hall c' => (this.2.1 c').trans (hall c')⟩
    simp only [deliveredEv, pushedEv, List.count_nil, Nat.add_zero]
    rw [stored_of_dbs (timeout_conserve s c).1]
  | «open» c =>
    refine ⟨linv_open c _ (linv_of_srv h rfl), fun x => rfl, fun _ hall c' => ?_⟩
    show ((openConn c s.beginEvent).2.conn c').closed = false
    by_cases hc : s.beginEvent.HasConn c'
    · rw [openConn_conn_old c c' _ hc]; exact hall c'
    · by_cases hne : c' = c
      · subst hne
        rw [(openConn_conn_new c' _ hc).2]
      · rw [openConn_conn_other c c' _ hne]; exact hall c'
  | close c =>
    have h0 : LInv s.beginEvent := linv_of_srv h rfl
    have hp : (s.beginEvent.conn c).parked = none := hl
    refine ⟨?_, fun x => rfl, fun hne => absurd rfl (hne c)⟩
    show LInv (closeConn c s.beginEvent).2
    unfold closeConn
    simp only [bind, StateT.bind, modify, modifyGet, MonadStateOf.modifyGet, StateT.modifyGet, modifyConn_run]
    have h1 : LInv ({ s.beginEvent with srv := { s.beginEvent.srv with closedSockets := s.beginEvent.srv.closedSockets ++ [c] } } : Sys) :=
      ⟨h0.data, h0.nottl, h0.conns⟩
    refine h1.updConn c _ (fun _ => rfl) ⟨(h0.conns c).db, fun hq => ?_, (h0.conns c).tx⟩
    have : ((s.beginEvent.conn c).parked).isSome = true := hq
    rw [hp] at this; cases this
  | version v => exact ⟨⟨h.data, h.nottl, h.conns⟩, fun x => rfl, fun _ hall => hall⟩
  | conn up => exact ⟨⟨h.data, h.nottl, h.conns⟩, fun x => rfl, fun _ hall => hall⟩
  | gc c =>
    refine ⟨linv_gc c _ (linv_of_srv h rfl), fun x => rfl, fun _ hall c' => ?_⟩
    show ((gcConn c s.beginEvent).2.conn c').closed = false
    rw [gcConn_conn]
    split
    · rfl
    · exact hall c'
  | send mode c data clocks picks => exact absurd hl id
  | awake mode c clocks picks => exact absurd hl id
  | atimeout mode c clocks picks => exact absurd hl id


end FR.C11c
