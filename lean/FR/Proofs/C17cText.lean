import FR.Sys.Client
import FR.Proofs.Decimal
/-!
# The codecs of `FR/Sys/Client.lean`: decoding inverts encoding

`encodeChars enc cs` is Python's `''.join(cs).encode(enc)` on a list of characters (`encodeText` on `String.ofList cs`).
For each of the three codecs:

* `scan_of_encode` — scanning the encoding of `cs` yields exactly the characters `cs`, no error span;
* `encode_of_scan` — if the scan of `b` has no error span, the characters it yields encode to `b`.

So "the scan of `b` has no error span" ⇔ "`b` is the encoding of some text" (`ValidIn enc b`), the text is unique, and
every error handler returns it.  For UTF-8 the two directions rest on core Lean's
`ByteArray.utf8DecodeChar?_utf8EncodeChar_append` and `ByteArray.eq_of_utf8DecodeChar?_eq_some`.
-/
namespace FR.Client
open FR

/-! ## encoding a list of characters -/

def encodeChars : Encoding → List Char → Option Bytes
  | .utf8, cs => some (cs.flatMap String.utf8EncodeChar)
  | .latin1, cs => cs.mapM fun c => if c.toNat < 256 then some (UInt8.ofNat c.toNat) else none
  | .ascii, cs => cs.mapM fun c => if c.toNat < 128 then some (UInt8.ofNat c.toNat) else none

theorem strBytes_eq_flatMap (s : String) : strBytes s = s.toList.flatMap String.utf8EncodeChar := by
  have := FR.strBytes_ofList s.toList
  rw [String.ofList_toList] at this
  exact this

theorem encodeText_eq (enc : Encoding) (s : String) : encodeText enc s = encodeChars enc s.toList := by
  cases enc
  · simp only [encodeText, encodeChars, strBytes_eq_flatMap]
  · rfl
  · rfl

/-- a byte string is *valid in the encoding* when it is the encoding of some text -/
def ValidIn (enc : Encoding) (b : Bytes) : Prop := ∃ s : String, encodeText enc s = some b

/-! ## bytes ↔ characters below 256 -/

theorem byteChar_toNat (c : UInt8) : (Char.ofNat c.toNat).toNat = c.toNat := by
  have h : c.toNat < 256 := c.toNat_lt
  have hv : c.toNat.isValidChar := Or.inl (by omega)
  simp [Char.ofNat, hv, Char.ofNatAux, Char.toNat]

theorem ofNat_byteChar (c : UInt8) : UInt8.ofNat (Char.ofNat c.toNat).toNat = c := by
  rw [byteChar_toNat]; exact UInt8.ofNat_toNat

theorem byteChar_of_lt (c : Char) (h : c.toNat < 256) : Char.ofNat (UInt8.ofNat c.toNat).toNat = c := by
  have : (UInt8.ofNat c.toNat).toNat = c.toNat := by
    rw [UInt8.toNat_ofNat']; exact Nat.mod_eq_of_lt h
  rw [this]
  exact Char.ofNat_toNat c

theorem uint8_lt_iff (c : UInt8) (n : UInt8) : c < n ↔ c.toNat < n.toNat := UInt8.lt_iff_toNat_lt

/-! ## latin-1 -/

theorem mapM_byte_cons {p : Nat} (c : Char) (cs : List Char) :
    List.mapM (m := Option) (fun c => if c.toNat < p then some (UInt8.ofNat c.toNat) else none) (c :: cs) =
      if c.toNat < p then
        ((List.mapM (m := Option) (fun c => if c.toNat < p then some (UInt8.ofNat c.toNat) else none) cs).map
          (UInt8.ofNat c.toNat :: ·))
      else none := by
  rw [List.mapM_cons (m := Option)]
  split
  · cases List.mapM (m := Option) _ cs <;> rfl
  · rfl

theorem latin1_scan_of_encode : ∀ (cs : List Char) (b : Bytes), encodeChars .latin1 cs = some b →
    latin1Scan b = cs.map .ch
  | [], b, h => by
    simp only [encodeChars, List.mapM_nil] at h
    cases h; rfl
  | c :: cs, b, h => by
    simp only [encodeChars] at h
    rw [mapM_byte_cons] at h
    split at h
    next hc =>
      cases hm : cs.mapM (fun c => if c.toNat < 256 then some (UInt8.ofNat c.toNat) else none) with
      | none => rw [hm] at h; cases h
      | some t =>
        rw [hm] at h
        cases h
        have ih := latin1_scan_of_encode cs t hm
        simp only [latin1Scan, List.map_cons] at ih ⊢
        rw [ih, byteChar_of_lt c hc]
    next => cases h

theorem latin1_encode_of_scan : ∀ b : Bytes, encodeChars .latin1 ((latin1Scan b).filterMap Tok.char?) = some b
  | [] => rfl
  | c :: t => by
    have ih := latin1_encode_of_scan t
    simp only [latin1Scan, List.map_cons, List.filterMap_cons, Tok.char?, encodeChars] at ih ⊢
    rw [mapM_byte_cons, if_pos (by rw [byteChar_toNat]; exact c.toNat_lt), ih, ofNat_byteChar]
    rfl

theorem latin1_scan_noBad (b : Bytes) : ∀ t ∈ latin1Scan b, t.isBad = false := by
  intro t ht
  simp only [latin1Scan, List.mem_map] at ht
  obtain ⟨_, _, rfl⟩ := ht
  rfl

/-! ## ascii -/

theorem ascii_scan_of_encode : ∀ (cs : List Char) (b : Bytes) (pos : Nat), encodeChars .ascii cs = some b →
    asciiScan pos b = cs.map .ch
  | [], b, pos, h => by
    simp only [encodeChars, List.mapM_nil] at h
    cases h; rfl
  | c :: cs, b, pos, h => by
    simp only [encodeChars] at h
    rw [mapM_byte_cons] at h
    split at h
    next hc =>
      cases hm : cs.mapM (fun c => if c.toNat < 128 then some (UInt8.ofNat c.toNat) else none) with
      | none => rw [hm] at h; cases h
      | some t =>
        rw [hm] at h
        cases h
        have ih := ascii_scan_of_encode cs t (pos + 1) hm
        have hlt : UInt8.ofNat c.toNat < 0x80 := by
          rw [uint8_lt_iff, UInt8.toNat_ofNat']
          show c.toNat % 256 < 128
          omega
        simp only [asciiScan, List.map_cons]
        rw [if_pos hlt, ih, byteChar_of_lt c (by omega)]
    next => cases h

theorem ascii_encode_of_scan : ∀ (b : Bytes) (pos : Nat), (∀ t ∈ asciiScan pos b, t.isBad = false) →
    encodeChars .ascii ((asciiScan pos b).filterMap Tok.char?) = some b
  | [], _, _ => rfl
  | c :: t, pos, h => by
    simp only [asciiScan] at h ⊢
    by_cases hc : c < 0x80
    · rw [if_pos hc] at h ⊢
      have ih := ascii_encode_of_scan t (pos + 1) (fun x hx => h x (List.mem_cons_of_mem _ hx))
      simp only [List.filterMap_cons, Tok.char?, encodeChars] at ih ⊢
      have hn : c.toNat < 128 := (uint8_lt_iff c 0x80).1 hc
      rw [mapM_byte_cons, if_pos (by rw [byteChar_toNat]; exact hn), ih, ofNat_byteChar]
      rfl
    · rw [if_neg hc] at h
      have := h _ (List.mem_cons_self)
      cases this

theorem ascii_scan_bad_iff : ∀ (b : Bytes) (pos : Nat),
    (∀ t ∈ asciiScan pos b, t.isBad = false) ↔ ∀ c ∈ b, c < 0x80
  | [], _ => by simp [asciiScan]
  | c :: t, pos => by
    have ih := ascii_scan_bad_iff t (pos + 1)
    simp only [asciiScan, List.forall_mem_cons, ih]
    by_cases hc : c < 0x80
    · simp [hc, Tok.isBad]
    · simp [hc, Tok.isBad]

/-! ## utf-8 -/

theorem byteArray_eq_toByteArray (b : ByteArray) : b = b.data.toList.toByteArray := by
  apply ByteArray.ext
  rw [List.data_toByteArray]

theorem utf8Head_encode_append (c : Char) (rest : Bytes) : utf8Head (String.utf8EncodeChar c ++ rest) = some c := by
  unfold utf8Head
  have hlen : (String.utf8EncodeChar c).length ≤ 4 := by
    rw [String.length_utf8EncodeChar]; exact c.utf8Size_le_four
  rw [List.take_append, List.take_of_length_le hlen, List.toByteArray_append]
  exact ByteArray.utf8DecodeChar?_utf8EncodeChar_append

theorem utf8Head_some {l : Bytes} {c : Char} (h : utf8Head l = some c) :
    ∃ rest, l = String.utf8EncodeChar c ++ rest := by
  unfold utf8Head at h
  have h1 := ByteArray.eq_of_utf8DecodeChar?_eq_some h
  generalize ((l.take 4).toByteArray.extract c.utf8Size (l.take 4).toByteArray.size) = ext at h1
  rw [byteArray_eq_toByteArray ext, ← List.toByteArray_append, List.toByteArray_inj] at h1
  refine ⟨ext.data.toList ++ l.drop 4, ?_⟩
  rw [← List.append_assoc, ← h1, List.take_append_drop]

theorem tail_drop_of_eq {b0 : UInt8} {t e rest : Bytes} (he : e ≠ []) (h : b0 :: t = e ++ rest) :
    t.drop (e.length - 1) = rest := by
  cases e with
  | nil => exact absurd rfl he
  | cons a e' =>
    simp only [List.cons_append, List.cons.injEq] at h
    rw [h.2]
    simp

/-- scanning the UTF-8 encoding of `cs` gives back `cs`, with enough fuel -/
theorem utf8_scan_flatMap : ∀ (cs : List Char) (fuel pos : Nat),
    (cs.flatMap String.utf8EncodeChar).length ≤ fuel →
    utf8Scan fuel pos (cs.flatMap String.utf8EncodeChar) = cs.map .ch
  | [], fuel, pos, _ => by
    cases fuel <;> rfl
  | c :: cs, fuel, pos, hf => by
    rw [List.flatMap_cons] at hf ⊢
    have hne : String.utf8EncodeChar c ≠ [] := String.utf8EncodeChar_ne_nil
    have hpos : 0 < (String.utf8EncodeChar c).length := List.length_pos_iff.2 hne
    rw [List.length_append] at hf
    obtain ⟨f, rfl⟩ : ∃ f, fuel = f + 1 := ⟨fuel - 1, by omega⟩
    cases hl : String.utf8EncodeChar c ++ cs.flatMap String.utf8EncodeChar with
    | nil => simp [hne] at hl
    | cons b0 t =>
      have hh : utf8Head (b0 :: t) = some c := hl ▸ utf8Head_encode_append c _
      have ht := tail_drop_of_eq hne hl.symm
      rw [String.length_utf8EncodeChar] at ht
      simp only [utf8Scan, hh, List.map_cons]
      rw [ht, utf8_scan_flatMap cs f _ (by omega)]

theorem utf8Err_fst_pos (l : Bytes) : 0 < (utf8Err l).1 := by
  unfold utf8Err
  repeat' split
  all_goals decide

/-- if the UTF-8 scan meets no error span, the bytes are the encoding of the characters found -/
theorem utf8_flatMap_of_scan : ∀ (fuel pos : Nat) (l : Bytes), l.length ≤ fuel →
    (∀ t ∈ utf8Scan fuel pos l, t.isBad = false) →
    ((utf8Scan fuel pos l).filterMap Tok.char?).flatMap String.utf8EncodeChar = l
  | 0, _, l, hf, _ => by
    have : l = [] := List.eq_nil_of_length_eq_zero (by omega)
    subst this; rfl
  | _ + 1, _, [], _, _ => rfl
  | fuel + 1, pos, b0 :: t, hf, h => by
    cases hh : utf8Head (b0 :: t) with
    | none =>
      simp only [utf8Scan, hh] at h
      have := h _ List.mem_cons_self
      cases this
    | some c =>
      simp only [utf8Scan, hh] at h ⊢
      obtain ⟨rest, hr⟩ := utf8Head_some hh
      have hne : String.utf8EncodeChar c ≠ [] := String.utf8EncodeChar_ne_nil
      have ht := tail_drop_of_eq hne hr
      rw [String.length_utf8EncodeChar] at ht
      have hlen : rest.length ≤ fuel := by
        have := congrArg List.length hr
        simp only [List.length_cons, List.length_append, String.length_utf8EncodeChar] at this hf
        have := c.utf8Size_pos
        omega
      rw [ht] at h ⊢
      have ih := utf8_flatMap_of_scan fuel (pos + c.utf8Size) rest hlen
        (fun x hx => h x (List.mem_cons_of_mem _ hx))
      simp only [List.filterMap_cons, Tok.char?, List.flatMap_cons, ih]
      exact hr.symm

/-! ## the three codecs together -/

def NoBad (toks : List Tok) : Prop := ∀ t ∈ toks, t.isBad = false

theorem scan_of_encode (enc : Encoding) (cs : List Char) (b : Bytes) (h : encodeChars enc cs = some b) :
    scan enc b = cs.map .ch := by
  cases enc
  · simp only [encodeChars, Option.some.injEq] at h
    subst h
    exact utf8_scan_flatMap cs _ 0 (Nat.le_refl _)
  · exact latin1_scan_of_encode cs b h
  · exact ascii_scan_of_encode cs b 0 h

theorem encode_of_scan (enc : Encoding) (b : Bytes) (h : NoBad (scan enc b)) :
    encodeChars enc ((scan enc b).filterMap Tok.char?) = some b := by
  cases enc
  · simp only [encodeChars, scan]
    rw [utf8_flatMap_of_scan b.length 0 b (Nat.le_refl _) h]
  · exact latin1_encode_of_scan b
  · exact ascii_encode_of_scan b 0 h

theorem noBad_map_ch (cs : List Char) : NoBad (cs.map Tok.ch) := by
  intro t ht
  simp only [List.mem_map] at ht
  obtain ⟨_, _, rfl⟩ := ht
  rfl

theorem filterMap_map_ch (cs : List Char) : (cs.map Tok.ch).filterMap Tok.char? = cs := by
  induction cs with
  | nil => rfl
  | cons c cs ih => simp only [List.map_cons, List.filterMap_cons, Tok.char?, ih]

theorem map_orReplacement_map_ch (cs : List Char) : (cs.map Tok.ch).map Tok.orReplacement = cs := by
  induction cs with
  | nil => rfl
  | cons c cs ih => simp only [List.map_cons, Tok.orReplacement, ih]

theorem map_orReplacement_of_noBad : ∀ (toks : List Tok), NoBad toks →
    toks.map Tok.orReplacement = toks.filterMap Tok.char?
  | [], _ => rfl
  | .ch c :: ts, h => by
    simp only [List.map_cons, List.filterMap_cons, Tok.char?, Tok.orReplacement]
    rw [map_orReplacement_of_noBad ts fun x hx => h x (List.mem_cons_of_mem _ hx)]
  | .bad .. :: ts, h => by
    have := h _ List.mem_cons_self
    cases this

/-- `b` is valid in the encoding iff its scan has no error span -/
theorem validIn_iff_noBad (enc : Encoding) (b : Bytes) : ValidIn enc b ↔ NoBad (scan enc b) := by
  constructor
  · rintro ⟨s, hs⟩
    rw [encodeText_eq] at hs
    rw [scan_of_encode enc _ b hs]
    exact noBad_map_ch _
  · intro h
    refine ⟨String.ofList ((scan enc b).filterMap Tok.char?), ?_⟩
    rw [encodeText_eq, String.toList_ofList]
    exact encode_of_scan enc b h

theorem find?_isBad_none_iff (toks : List Tok) : toks.find? Tok.isBad = none ↔ NoBad toks := by
  rw [List.find?_eq_none]
  constructor
  · intro h t ht
    cases hb : t.isBad with
    | false => rfl
    | true => exact absurd hb (h t ht)
  · intro h t ht hb
    rw [h t ht] at hb; cases hb

theorem find?_isBad_some {toks : List Tok} {t : Tok} (h : toks.find? Tok.isBad = some t) :
    ∃ s e r, t = .bad s e r := by
  have := List.find?_some h
  cases t with
  | ch c => cases this
  | bad s e r => exact ⟨s, e, r, rfl⟩

/-! ## `decodeText` -/

/-- decoding the encoding of a text returns the text, under every error handler -/
theorem decodeText_encodeText (enc : Encoding) (errors : Errors) (s : String) (b : Bytes)
    (h : encodeText enc s = some b) : decodeText enc errors b = .ok s := by
  rw [encodeText_eq] at h
  have hs := scan_of_encode enc _ b h
  unfold decodeText
  simp only [hs]
  cases errors
  · have : (s.toList.map Tok.ch).find? Tok.isBad = none := (find?_isBad_none_iff _).2 (noBad_map_ch _)
    simp only [this, filterMap_map_ch, String.ofList_toList]
  · simp only [map_orReplacement_map_ch, String.ofList_toList]
  · simp only [filterMap_map_ch, String.ofList_toList]

example : encodeText .utf8 "€ö" = some [0xE2, 0x82, 0xAC, 0xC3, 0xB6] := by decide +kernel
example : encodeText .latin1 "ö" = some [0xF6] ∧ encodeText .latin1 "€" = none ∧ encodeText .ascii "ö" = none := by
  decide +kernel

/-- on a valid byte string every handler returns a text, and that text encodes back to the bytes -/
theorem decodeText_valid (enc : Encoding) (errors : Errors) (b : Bytes) (h : ValidIn enc b) :
    ∃ s, decodeText enc errors b = .ok s ∧ encodeText enc s = some b := by
  obtain ⟨s, hs⟩ := h
  exact ⟨s, decodeText_encodeText enc errors s b hs, hs⟩

/-- `strict` succeeds exactly on valid byte strings, with the text that encodes to them -/
theorem decodeText_strict_ok_iff (enc : Encoding) (b : Bytes) (s : String) :
    decodeText enc .strict b = .ok s ↔ encodeText enc s = some b := by
  constructor
  · intro h
    unfold decodeText at h
    simp only at h
    cases hf : (scan enc b).find? Tok.isBad with
    | some t =>
      obtain ⟨s', e, r, rfl⟩ := find?_isBad_some hf
      rw [hf] at h
      cases h
    | none =>
      rw [hf] at h
      simp only [Except.ok.injEq] at h
      subst h
      rw [encodeText_eq, String.toList_ofList]
      exact encode_of_scan enc b ((find?_isBad_none_iff _).1 hf)
  · exact decodeText_encodeText enc .strict s b

/-- `strict` fails exactly on invalid byte strings; the exception is a `UnicodeDecodeError` whose object is the
byte string and whose span is non-empty and the first error span of the scan -/
theorem decodeText_strict_error_iff (enc : Encoding) (b : Bytes) :
    (∃ e, decodeText enc .strict b = .error e) ↔ ¬ ValidIn enc b := by
  rw [validIn_iff_noBad, ← find?_isBad_none_iff]
  unfold decodeText
  simp only
  cases hf : (scan enc b).find? Tok.isBad with
  | some t =>
    obtain ⟨s', e, r, rfl⟩ := find?_isBad_some hf
    simp
  | none => simp

theorem decodeText_strict_error_shape (enc : Encoding) (b : Bytes) (e : DecodeErr)
    (h : decodeText enc .strict b = .error e) :
    ∃ s t r, e = .unicode enc b s t r ∧ (scan enc b).find? Tok.isBad = some (.bad s t r) := by
  unfold decodeText at h
  simp only at h
  cases hf : (scan enc b).find? Tok.isBad with
  | some t =>
    obtain ⟨s', e', r, rfl⟩ := find?_isBad_some hf
    rw [hf] at h
    simp only [Except.error.injEq] at h
    exact ⟨s', e', r, h.symm, rfl⟩
  | none => rw [hf] at h; cases h

/-- `replace` and `ignore` never raise -/
theorem decodeText_lenient_total (enc : Encoding) (errors : Errors) (h : errors ≠ .strict) (b : Bytes) :
    ∃ s, decodeText enc errors b = .ok s := by
  unfold decodeText
  cases errors
  · exact absurd rfl h
  · exact ⟨_, rfl⟩
  · exact ⟨_, rfl⟩

/-- every byte string is valid latin-1 -/
theorem validIn_latin1 (b : Bytes) : ValidIn .latin1 b :=
  (validIn_iff_noBad _ _).2 (latin1_scan_noBad b)

/-- valid ascii = all bytes below 128 -/
theorem validIn_ascii_iff (b : Bytes) : ValidIn .ascii b ↔ ∀ c ∈ b, c < 0x80 := by
  rw [validIn_iff_noBad]
  exact ascii_scan_bad_iff b 0

/-- valid utf-8 = core Lean's `ByteArray.IsValidUTF8` (what `String.fromUTF8?` / `ByteArray.validateUTF8` decide) -/
theorem validIn_utf8_iff (b : Bytes) : ValidIn .utf8 b ↔ b.toByteArray.IsValidUTF8 := by
  constructor
  · rintro ⟨s, hs⟩
    simp only [encodeText, Option.some.injEq] at hs
    rw [strBytes_eq_flatMap] at hs
    exact ⟨s.toList, by rw [← hs]; rfl⟩
  · rintro ⟨m, hm⟩
    refine ⟨String.ofList m, ?_⟩
    simp only [encodeText, Option.some.injEq]
    rw [strBytes_eq_flatMap, String.toList_ofList]
    have : (m.flatMap String.utf8EncodeChar).toByteArray = b.toByteArray := hm.symm
    exact List.toByteArray_inj.1 this

/-- strict UTF-8 decoding is core Lean's `String.fromUTF8?` -/
theorem decodeText_utf8_strict_eq_fromUTF8? (b : Bytes) (s : String) :
    decodeText .utf8 .strict b = .ok s ↔ String.fromUTF8? b.toByteArray = some s := by
  rw [decodeText_strict_ok_iff]
  simp only [encodeText, Option.some.injEq]
  unfold String.fromUTF8?
  constructor
  · intro h
    have hb : s.toByteArray = b.toByteArray := by
      rw [← h, strBytes_eq_flatMap]
      conv => lhs; rw [← String.ofList_toList (s := s), String.toByteArray_ofList]
      rfl
    have hv : b.toByteArray.IsValidUTF8 := hb ▸ s.isValidUTF8
    rw [dif_pos hv]
    congr 1
    apply String.toByteArray_inj.1
    rw [hb]; rfl
  · intro h
    split at h
    next hv =>
      simp only [Option.some.injEq] at h
      subst h
      rw [FR.strBytes_eq]
      show (b.toByteArray).data.toList = b
      rw [List.data_toByteArray]
    next => cases h

/-- the encoder is injective: a byte string is the encoding of at most one text -/
theorem encodeText_injective (enc : Encoding) (s s' : String) (b : Bytes)
    (h : encodeText enc s = some b) (h' : encodeText enc s' = some b) : s = s' := by
  have a := decodeText_encodeText enc .strict s b h
  have a' := decodeText_encodeText enc .strict s' b h'
  rw [a] at a'
  exact Except.ok.inj a'

end FR.Client
