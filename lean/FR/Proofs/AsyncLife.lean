import FR.Proofs.System
import FR.Proofs.Parser
import FR.Proofs.Script
namespace FR
open M
set_option linter.unusedSimpArgs false

/-! ## `cleanupClosed` as a fold -/

/-- `_cleanup` of one socket -/
def Sys.forget (s : Sys) (c : Nat) : Sys :=
  ({ s with srv := { s.srv with
      subs := s.srv.subs.map (fun p => (p.1, p.2.filter (· != c))),
      psubs := s.srv.psubs.map (fun p => (p.1, p.2.filter (· != c))) } } : Sys).updConn c
    fun x => { x with watchNotified := false, watches := [] }

def Sys.clearClosed (s : Sys) : Sys := { s with srv := { s.srv with closedSockets := [] } }

theorem cleanupBody_run (c : Nat) (u : PUnit) (s : Sys) :
    cleanupBody c u s = (ForInStep.yield PUnit.unit, s.forget c) := rfl

theorem forIn_cleanupBody (l : List Nat) (s : Sys) :
    forIn l PUnit.unit cleanupBody s = (PUnit.unit, l.foldl Sys.forget s) := by
  induction l generalizing s with
  | nil => rfl
  | cons a as ih =>
    rw [List.forIn_cons]
    simp only [bind, StateT.bind, cleanupBody_run, List.foldl_cons]
    exact ih _

theorem cleanupClosed_run (s : Sys) :
    cleanupClosed s = ((), (s.srv.closedSockets.foldl Sys.forget s).clearClosed) := by
  show (do let _ ← forIn s.srv.closedSockets PUnit.unit cleanupBody
           modify fun s => { s with srv := { s.srv with closedSockets := [] } } : M Unit) s = _
  simp only [bind, StateT.bind, forIn_cleanupBody]
  rfl

/-! ## closed forms for the tables and the connection records after `cleanupClosed` -/

def stripTbl (t : Tbl) (c : Nat) : Tbl := t.map fun p => (p.1, p.2.filter (· != c))

def stripAll (t : Tbl) (l : List Nat) : Tbl := t.map fun p => (p.1, p.2.filter fun x => !l.contains x)

theorem foldl_stripTbl (l : List Nat) (t : Tbl) : l.foldl stripTbl t = stripAll t l := by
  induction l generalizing t with
  | nil =>
    simp only [List.foldl_nil, stripAll, List.contains_nil, Bool.not_false]
    have : (fun p : Bytes × List Nat => (p.1, p.2.filter fun _ => true)) = id := by
      funext p
      have : p.2.filter (fun _ => true) = p.2 := List.filter_eq_self.2 (fun _ _ => rfl)
      rw [this]; rfl
    rw [this, List.map_id]
  | cons a as ih =>
    rw [List.foldl_cons, ih]
    simp only [stripAll, stripTbl, List.map_map]
    apply List.map_congr_left
    intro p _
    simp only [Function.comp, List.filter_filter, Prod.mk.injEq, true_and]
    apply List.filter_congr
    intro x _
    simp only [List.contains_cons]
    cases as.contains x <;> cases h : (x == a) <;> simp_all

def Conn.cleared (x : Conn) : Conn := { x with watchNotified := false, watches := [] }

theorem Sys.forget_subs (s : Sys) (c : Nat) : (s.forget c).srv.subs = stripTbl s.srv.subs c := rfl
theorem Sys.forget_psubs (s : Sys) (c : Nat) : (s.forget c).srv.psubs = stripTbl s.srv.psubs c := rfl

theorem foldl_forget_subs (l : List Nat) (s : Sys) : (l.foldl Sys.forget s).srv.subs = stripAll s.srv.subs l := by
  rw [← foldl_stripTbl]
  induction l generalizing s with
  | nil => rfl
  | cons a as ih => rw [List.foldl_cons, ih, Sys.forget_subs]; rfl

theorem foldl_forget_psubs (l : List Nat) (s : Sys) : (l.foldl Sys.forget s).srv.psubs = stripAll s.srv.psubs l := by
  rw [← foldl_stripTbl]
  induction l generalizing s with
  | nil => rfl
  | cons a as ih => rw [List.foldl_cons, ih, Sys.forget_psubs]; rfl

theorem Sys.conn_of_not_hasConn {s : Sys} {c : Nat} (h : ¬ s.HasConn c) : s.conn c = { id := c } := by
  rw [Sys.hasConn_iff] at h
  rw [Sys.conn_def]
  cases h' : s.srv.conns.find? (·.id == c) with
  | none => rfl
  | some x => rw [h'] at h; simp at h

/-- `updConn` on the connection itself, without assuming that it is registered -/
theorem Sys.conn_updConn_same' (s : Sys) (c : Nat) (f : Conn → Conn) (hf : ∀ x, (f x).id = x.id)
    (hdef : f { id := c } = { id := c }) : (s.updConn c f).conn c = f (s.conn c) := by
  by_cases h : s.HasConn c
  · exact Sys.conn_updConn_same f h hf
  · rw [Sys.conn_of_not_hasConn h, hdef]
    exact Sys.conn_of_not_hasConn (fun h' => h ((Sys.hasConn_updConn f hf).1 h'))

theorem Sys.forget_conn_same (s : Sys) (c : Nat) : (s.forget c).conn c = (s.conn c).cleared :=
  Sys.conn_updConn_same' _ c _ (fun _ => rfl) rfl

theorem Sys.forget_conn_ne (s : Sys) {c c' : Nat} (h : c' ≠ c) : (s.forget c).conn c' = s.conn c' :=
  Sys.conn_updConn_ne _ h (fun _ => rfl)

theorem foldl_forget_conn (l : List Nat) (s : Sys) (c : Nat) :
    (l.foldl Sys.forget s).conn c = if l.contains c then (s.conn c).cleared else s.conn c := by
  induction l generalizing s with
  | nil => rfl
  | cons a as ih =>
    rw [List.foldl_cons, ih]
    by_cases hac : c = a
    · subst hac
      simp only [Sys.forget_conn_same, List.contains_cons, BEq.rfl, Bool.true_or, if_true]
      split <;> rfl
    · have : (c == a) = false := by simpa using hac
      simp only [Sys.forget_conn_ne _ hac, List.contains_cons, this, Bool.false_or]

theorem foldl_forget_hasConn (l : List Nat) (s : Sys) (c : Nat) :
    (l.foldl Sys.forget s).HasConn c ↔ s.HasConn c := by
  induction l generalizing s with
  | nil => exact Iff.rfl
  | cons a as ih =>
    rw [List.foldl_cons, ih]
    exact Sys.hasConn_updConn _ (fun _ => rfl)

theorem Sys.clearClosed_conn (s : Sys) (c : Nat) : s.clearClosed.conn c = s.conn c := rfl

theorem closeConn_run (c : Nat) (s : Sys) :
    closeConn c s = ((), ({ s with srv := { s.srv with closedSockets := s.srv.closedSockets ++ [c] } } : Sys).updConn c
      fun x => { x with closed := true }) := rfl

theorem gcConn_run (c : Nat) (s : Sys) :
    gcConn c s = ((), { s with srv := { s.srv with
      subs := stripTbl s.srv.subs c, psubs := stripTbl s.srv.psubs c,
      closedSockets := s.srv.closedSockets.filter (· != c),
      conns := s.srv.conns.filter (·.id != c) } }) := rfl

/-! membership in the stripped tables -/

theorem lookup_map_snd (t : Tbl) (g : List Nat → List Nat) (n : Bytes) :
    (t.map fun p => (p.1, g p.2)).lookup n = (t.lookup n).map g := by
  induction t with
  | nil => rfl
  | cons p t ih =>
    obtain ⟨k, v⟩ := p
    simp only [List.map_cons, List.lookup_cons]
    cases n == k
    · exact ih
    · rfl

theorem lookup_mem (t : Tbl) (n : Bytes) (v : List Nat) (h : t.lookup n = some v) : (n, v) ∈ t := by
  induction t with
  | nil => simp at h
  | cons p t ih =>
    obtain ⟨k, w⟩ := p
    simp only [List.lookup_cons] at h
    cases hk : n == k
    · rw [hk] at h; exact List.mem_cons_of_mem _ (ih h)
    · rw [hk] at h
      have : n = k := by simpa using hk
      cases h; subst this
      exact List.mem_cons_self ..

theorem mem_stripAll_entry (t : Tbl) (l : List Nat) (p : Bytes × List Nat) (hp : p ∈ stripAll t l)
    (c : Nat) (hc : c ∈ l) : c ∉ p.2 := by
  simp only [stripAll, List.mem_map] at hp
  obtain ⟨q, _, rfl⟩ := hp
  simp only [List.mem_filter, not_and]
  intro _
  simp [hc]

theorem tblMembers_stripAll (t : Tbl) (l : List Nat) (n : Bytes) :
    tblMembers (stripAll t l) n = (tblMembers t n).filter fun x => !l.contains x := by
  unfold tblMembers stripAll
  rw [lookup_map_snd t (fun cs => cs.filter fun x => !l.contains x)]
  cases t.lookup n <;> rfl

/-! ## outage -/

theorem sendallGuarded_run_down (mode : Mode) (c : Nat) (data : Bytes) (s : Sys) (h : s.srv.connected = false) :
    sendallGuarded mode c data s = ((), { s with crashed := some "ConnectionError" }) := by
  unfold sendallGuarded
  simp only [bind, StateT.bind, get, getThe, MonadStateOf.get, StateT.get, pure, StateT.pure, h,
    Bool.not_false, if_true]
  rfl

theorem sendallGuarded_run_up (mode : Mode) (c : Nat) (data : Bytes) (s : Sys) (h : s.srv.connected = true) :
    sendallGuarded mode c data s = sendall mode c data s := by
  unfold sendallGuarded
  simp only [bind, StateT.bind, get, getThe, MonadStateOf.get, StateT.get, pure, StateT.pure, h,
    Bool.not_true, Bool.false_eq_true, if_false]

/-! ## close + cleanup -/

/-- the state after `closeConn c` followed by `cleanupClosed` -/
def Sys.closedAndCleaned (s : Sys) (c : Nat) : Sys := (cleanupClosed (closeConn c s).2).2

theorem Sys.closedAndCleaned_eq (s : Sys) (c : Nat) :
    s.closedAndCleaned c = (((s.srv.closedSockets ++ [c]).foldl Sys.forget
      (({ s with srv := { s.srv with closedSockets := s.srv.closedSockets ++ [c] } } : Sys).updConn c
        fun x => { x with closed := true })).clearClosed) := by
  unfold Sys.closedAndCleaned
  rw [closeConn_run, cleanupClosed_run]
  rfl

theorem emit_closed (c : Nat) (r : Reply) (s : Sys) (h : (s.conn c).closed = true) : emit c r s = ((), s) := by
  rw [emit_run, Sys.emitS, h]; rfl

theorem not_mem_deliveries_of_forgotten (srv : Server) (c : Nat)
    (hs : ∀ p ∈ srv.subs, c ∉ p.2) (hp : ∀ p ∈ srv.psubs, c ∉ p.2) (ch msg : Bytes) (r : Reply) :
    (c, r) ∉ deliveries srv ch msg := by
  rw [mem_deliveries]
  rintro (⟨h, _⟩ | ⟨pat, cs, hm, _, hc, _⟩)
  · cases hl : srv.subs.lookup ch with
    | none => rw [hl] at h; simp at h
    | some v => rw [hl] at h; exact hs _ (lookup_mem _ _ _ hl) h
  · exact hp _ hm hc

/-- what `cleanupClosed` leaves for a socket that was on `closedSockets` -/
theorem cleanupClosed_forgets (s : Sys) (c : Nat) (hc : c ∈ s.srv.closedSockets) :
    let s' := (cleanupClosed s).2
    (∀ p ∈ s'.srv.subs, c ∉ p.2) ∧ (∀ p ∈ s'.srv.psubs, c ∉ p.2) ∧
    (s'.conn c).watches = [] ∧ (s'.conn c).watchNotified = false ∧ s'.srv.closedSockets = [] := by
  intro s'
  have e : s' = (s.srv.closedSockets.foldl Sys.forget s).clearClosed := by
    show (cleanupClosed s).2 = _; rw [cleanupClosed_run]
  have hcont : s.srv.closedSockets.contains c = true := by simpa using hc
  refine ⟨?_, ?_, ?_, ?_, ?_⟩
  · intro p hp
    rw [e] at hp
    have hp' : p ∈ (s.srv.closedSockets.foldl Sys.forget s).srv.subs := hp
    rw [foldl_forget_subs] at hp'
    exact mem_stripAll_entry _ _ p hp' c hc
  · intro p hp
    rw [e] at hp
    have hp' : p ∈ (s.srv.closedSockets.foldl Sys.forget s).srv.psubs := hp
    rw [foldl_forget_psubs] at hp'
    exact mem_stripAll_entry _ _ p hp' c hc
  · rw [e, Sys.clearClosed_conn, foldl_forget_conn, hcont]; rfl
  · rw [e, Sys.clearClosed_conn, foldl_forget_conn, hcont]; rfl
  · rw [e]; rfl

/-- connections that are not on `closedSockets` keep their record; every connection keeps everything but its watches -/
theorem cleanupClosed_conn_other (s : Sys) (c : Nat) (hc : c ∉ s.srv.closedSockets) :
    (cleanupClosed s).2.conn c = s.conn c := by
  rw [cleanupClosed_run, Sys.clearClosed_conn, foldl_forget_conn]
  have : s.srv.closedSockets.contains c = false := by simpa using hc
  rw [this]; rfl

theorem cleanupClosed_conn_any (s : Sys) (c : Nat) :
    (cleanupClosed s).2.conn c = s.conn c ∨ (cleanupClosed s).2.conn c = (s.conn c).cleared := by
  rw [cleanupClosed_run, Sys.clearClosed_conn, foldl_forget_conn]
  split
  · exact .inr rfl
  · exact .inl rfl

theorem cleanupClosed_subs (s : Sys) : (cleanupClosed s).2.srv.subs = stripAll s.srv.subs s.srv.closedSockets := by
  rw [cleanupClosed_run]; exact foldl_forget_subs _ _

theorem cleanupClosed_psubs (s : Sys) : (cleanupClosed s).2.srv.psubs = stripAll s.srv.psubs s.srv.closedSockets := by
  rw [cleanupClosed_run]; exact foldl_forget_psubs _ _

theorem cleanupClosed_hasConn (s : Sys) (c : Nat) : (cleanupClosed s).2.HasConn c ↔ s.HasConn c := by
  rw [cleanupClosed_run]; exact foldl_forget_hasConn _ _ _

theorem mem_tblMembers_stripAll (t : Tbl) (l : List Nat) (n : Bytes) (c : Nat) (hc : c ∉ l) :
    c ∈ tblMembers (stripAll t l) n ↔ c ∈ tblMembers t n := by
  rw [tblMembers_stripAll, List.mem_filter]
  have : l.contains c = false := by simpa using hc
  simp [this, hc]

theorem stripAll_keys (t : Tbl) (l : List Nat) : (stripAll t l).map Prod.fst = t.map Prod.fst := by
  simp only [stripAll, List.map_map]
  rfl

theorem stripAll_singleton (t : Tbl) (c : Nat) : stripAll t [c] = stripTbl t c :=
  (foldl_stripTbl [c] t).symm

theorem mem_stripAll (t : Tbl) (l : List Nat) (pat : Bytes) (cs : List Nat) :
    (pat, cs) ∈ stripAll t l ↔ ∃ cs0, (pat, cs0) ∈ t ∧ cs = cs0.filter fun x => !l.contains x := by
  simp only [stripAll, List.mem_map, Prod.mk.injEq, Prod.exists]
  constructor
  · rintro ⟨a, b, hm, rfl, rfl⟩; exact ⟨b, hm, rfl⟩
  · rintro ⟨cs0, hm, rfl⟩; exact ⟨pat, cs0, hm, rfl, rfl⟩

theorem mem_deliveries_stripAll (srv srv' : Server) (l : List Nat)
    (hs : srv'.subs = stripAll srv.subs l) (hp : srv'.psubs = stripAll srv.psubs l)
    (c : Nat) (hc : c ∉ l) (ch msg : Bytes) (r : Reply) :
    (c, r) ∈ deliveries srv' ch msg ↔ (c, r) ∈ deliveries srv ch msg := by
  have hcont : l.contains c = false := by simpa using hc
  rw [mem_deliveries, mem_deliveries, hs, hp]
  have h1 : c ∈ ((stripAll srv.subs l).lookup ch).getD [] ↔ c ∈ (srv.subs.lookup ch).getD [] :=
    mem_tblMembers_stripAll srv.subs l ch c hc
  rw [h1]
  apply or_congr Iff.rfl
  constructor
  · rintro ⟨pat, cs, hm, hg, hcs, rfl⟩
    obtain ⟨cs0, hm0, rfl⟩ := (mem_stripAll _ _ _ _).1 hm
    exact ⟨pat, cs0, hm0, hg, (List.mem_filter.1 hcs).1, rfl⟩
  · rintro ⟨pat, cs0, hm0, hg, hcs, rfl⟩
    refine ⟨pat, _, (mem_stripAll _ _ _ _).2 ⟨cs0, hm0, rfl⟩, hg, ?_, rfl⟩
    exact List.mem_filter.2 ⟨hcs, by simp [hc]⟩

theorem gcConn_not_hasConn (c : Nat) (s : Sys) : ¬ (gcConn c s).2.HasConn c := by
  rw [gcConn_run]
  rintro ⟨x, hx, rfl⟩
  have := (List.mem_filter.1 hx).2
  simp at this

theorem gcConn_conn_other (c c' : Nat) (s : Sys) (h : c' ≠ c) : (gcConn c s).2.conn c' = s.conn c' := by
  rw [gcConn_run]
  simp only [Sys.conn_def]
  congr 1
  induction s.srv.conns with
  | nil => rfl
  | cons x xs ih =>
    simp only [List.filter_cons, List.find?_cons]
    by_cases hx : x.id = c
    · have h1 : (x.id != c) = false := by simp [hx]
      have h2 : (x.id == c') = false := by simp [hx]; exact fun e => h e.symm
      simp only [h1, h2, Bool.false_eq_true, if_false, ih]
    · have h1 : (x.id != c) = true := by simpa using hx
      simp only [h1, if_true, List.find?_cons, ih]

/-! ## C14: the asyncio front-end differs from the sync one in the blocking primitive only -/

def blockingNames : List String := ["blpop", "brpop", "brpoplpush"]

theorem special_mode_irrel (inner : Inner) (m1 m2 : Mode) (c : Nat) (name : String) (args cis)
    (h : name ∉ blockingNames) : special inner m1 c name args cis = special inner m2 c name args cis := by
  unfold special
  simp only []
  split <;> first | rfl | (exfalso; exact h (by decide))

theorem special_exec (inner : Inner) (mode : Mode) (c : Nat) (name : String) (args cis) (h : name = "exec") :
    special inner mode c name args cis = execCmd inner c cis := by
  unfold special
  simp only []
  split <;> first | rfl | (exfalso; exact absurd h (by decide)) | (exfalso; revert h; assumption)

/-- what `runWith` does with the outcome of a special body -/
def afterSpecial (d : Nat) (cis : List CI) (x : M SpecialOut) : M (Option Reply) := do
  match ← x with
  | .error e =>
    if e.startsWith "model:" then fault e
    writebackAll d cis
    return some (.err (strBytes e))
  | .ok (r, cis') =>
    writebackAll d cis'
    return r

theorem runWith_special_run (special) (mode : Mode) (c : Nat) (sig : Sig) (raw : List Bytes) (fs : Bool) (s : Sys)
    (h : Cmd.regular sig.name = none) (hr : s.refuses c sig = false) :
    runWith special mode c sig raw fs s =
      (let d := (s.conn c).db
       let ap := sig.apply raw ⟨s.srv.dbs.getD d [], s.srv.time⟩
       let s1 : Sys := { s with srv := { s.srv with dbs := s.srv.dbs.set d ap.1.dict } }
       match ap.2 with
       | .error e => (some (.err (strBytes e)), s1)
       | .ok (.short r) => (some r, s1)
       | .ok (.ok args cis) =>
         match runGate sig fs ((s.conn c).pubsub > 0) with
         | some e => (some (.err (strBytes e)), s1)
         | none => afterSpecial d cis (special mode c sig.name args cis) s1) := by
  rw [runWith_not_refused special mode c sig raw fs hr]
  unfold runWithBody afterSpecial
  simp only [bind, StateT.bind, getConn_run, getDb_run, h, setDb_run]
  generalize sig.apply raw ⟨s.srv.dbs.getD (s.conn c).db [], s.srv.time⟩ = ap
  obtain ⟨db', res⟩ := ap
  cases res with
  | error e => rfl
  | ok a =>
    cases a with
    | short r => rfl
    | ok args cis =>
      simp only
      cases runGate sig fs (decide ((s.conn c).pubsub > 0)) <;> rfl

theorem afterSpecial_congr (d : Nat) (cis : List CI) (x y : M SpecialOut) (s : Sys) (h : x s = y s) :
    afterSpecial d cis x s = afterSpecial d cis y s := by
  unfold afterSpecial
  simp only [bind, StateT.bind, h]

/-- `runWith` depends on the dispatcher only through its value in states with the same connection records -/
theorem runWith_congr_state (sp1 sp2) (m1 m2 : Mode) (c : Nat) (sig : Sig) (raw : List Bytes) (fs : Bool) (s : Sys)
    (h : ∀ args cis (s' : Sys), s'.srv.conns = s.srv.conns →
      sp1 m1 c sig.name args cis s' = sp2 m2 c sig.name args cis s') :
    runWith sp1 m1 c sig raw fs s = runWith sp2 m2 c sig raw fs s := by
  cases hr : s.refuses c sig with
  | true => rw [runWith_refused sp1 m1 c sig raw fs hr, runWith_refused sp2 m2 c sig raw fs hr]
  | false =>
  cases hreg : Cmd.regular sig.name with
  | some body => rw [runWith_regular_run sp1 m1 c sig raw fs hreg s hr, runWith_regular_run sp2 m2 c sig raw fs hreg s hr]
  | none =>
    rw [runWith_special_run sp1 m1 c sig raw fs s hreg hr, runWith_special_run sp2 m2 c sig raw fs s hreg hr]
    simp only
    split
    · rfl
    · rfl
    · split
      · rfl
      · exact afterSpecial_congr _ _ _ _ _ (h _ _ _ rfl)

theorem runWith_mode_irrel (sp1 sp2) (m1 m2 : Mode) (c : Nat) (sig : Sig) (raw : List Bytes) (fs : Bool)
    (h : ∀ args cis, sp1 m1 c sig.name args cis = sp2 m2 c sig.name args cis) :
    runWith sp1 m1 c sig raw fs = runWith sp2 m2 c sig raw fs := by
  funext s
  exact runWith_congr_state sp1 sp2 m1 m2 c sig raw fs s (fun args cis s' _ => by rw [h])

/-! ### scripts do not look at the front-end: a script cannot call a blocking pop (`no_script`) -/

theorem blocking_noScript : ∀ n ∈ blockingNames, n ∈ forbiddenInScripts := by decide

/-- `_run_command(…, from_script=True)` of a command of the table does not look at the front-end: the blocking pops
are flagged `no_script`, the gate refuses them before their body runs -/
theorem runWith_fromScript_mode_irrel (inner : Inner) (m1 m2 : Mode) (c : Nat) (sig : Sig) (raw : List Bytes)
    (hmem : sig ∈ SigTable.sigs) :
    runWith (special inner) m1 c sig raw true = runWith (special inner) m2 c sig raw true := by
  by_cases hn : sig.noScript = true
  · funext s
    cases hr : s.refuses c sig with
    | true => rw [runWith_refused _ m1 c sig raw true hr, runWith_refused _ m2 c sig raw true hr]
    | false =>
      have hreg : Cmd.regular sig.name = none := by
        have := noScript_not_regular sig hmem hn
        cases h : Cmd.regular sig.name with
        | none => rfl
        | some b => rw [h] at this; cases this
      rw [runWith_noScript_run _ m1 c sig raw s hn hreg hr, runWith_noScript_run _ m2 c sig raw s hn hreg hr]
  · have hb : sig.name ∉ blockingNames :=
      fun hb => hn ((sigs_noScript_iff sig hmem).2 (blocking_noScript _ hb))
    exact runWith_mode_irrel _ _ m1 m2 c sig raw true (fun args cis => special_mode_irrel _ m1 m2 c sig.name args cis hb)

theorem SigTable.mem_of_find {n : String} {sig : Sig} (h : SigTable.find n = some sig) : sig ∈ SigTable.sigs :=
  List.mem_of_find?_eq_some h

theorem runFromScript_mode_irrel (inner : Inner) (m1 m2 : Mode) (c : Nat) (op : LuaVal) (args : List LuaVal) :
    runFromScript (special inner) m1 c op args = runFromScript (special inner) m2 c op args := by
  unfold runFromScript
  cases op with
  | str nameB =>
    dsimp only
    cases hc : commandName nameB with
    | none => rfl
    | some n =>
      dsimp only
      cases hu : n.startsWith "_" with
      | true => rfl
      | false =>
        simp only [Bool.false_eq_true, if_false]
        cases hf : SigTable.find n with
        | none => rfl
        | some sig => simp only [runWith_fromScript_mode_irrel inner m1 m2 c sig _ (SigTable.mem_of_find hf)]
  | _ => rfl

theorem runTrace_mode_irrel (inner : Inner) (m1 m2 : Mode) (c : Nat) (sha : Bytes) (fuel : Nat) :
    runTrace (special inner) m1 c sha fuel = runTrace (special inner) m2 c sha fuel := by
  induction fuel with
  | zero => unfold runTrace; rfl
  | succ fuel ih =>
    unfold runTrace
    simp only [runFromScript_mode_irrel inner m1 m2 c, ih]

theorem scriptBody_mode_irrel (inner : Inner) (m1 m2 : Mode) (c : Nat) (name : String) (args : List Arg) :
    scriptBody (special inner) m1 c name args = scriptBody (special inner) m2 c name args := by
  unfold scriptBody evalBody
  simp only [runTrace_mode_irrel inner m1 m2 c]

/-- **a script command does not look at the front-end** (issued directly or run by EXEC) -/
theorem runScriptCmd_mode_irrel (m1 m2 : Mode) (c : Nat) (sig : Sig) (raw : List Bytes) (fs : Bool) :
    runScriptCmd m1 c sig raw fs = runScriptCmd m2 c sig raw fs := by
  unfold runScriptCmd
  simp only [scriptBody_mode_irrel _ m1 m2 c]

/-- the commands EXEC runs: a queued script command is run by the direct script runner, which does not look at the
front-end either -/
theorem runInner_mode_irrel (m1 m2 : Mode) (c : Nat) (sig : Sig) (raw : List Bytes)
    (h : sig.name ∉ blockingNames) : runInner m1 c sig raw = runInner m2 c sig raw := by
  cases hs : scriptNames.contains sig.name with
  | true => rw [runInner_script m1 c sig raw hs, runInner_script m2 c sig raw hs, runScriptCmd_mode_irrel m1 m2]
  | false =>
    rw [runInner_not_script m1 c sig raw hs, runInner_not_script m2 c sig raw hs]
    exact runWith_mode_irrel _ _ m1 m2 c sig raw false (fun args cis => special_mode_irrel _ m1 m2 c sig.name args cis h)

theorem runCommand_not_script (mode : Mode) (c : Nat) (sig : Sig) (raw : List Bytes) (fs : Bool)
    (hs : sig.name ∉ scriptNames) :
    runCommand mode c sig raw fs = runWith (special (runInner mode c)) mode c sig raw fs := by
  have : scriptNames.contains sig.name = false := by simpa using hs
  unfold runCommand
  simp only [this, Bool.false_eq_true, if_false]

theorem runCommand_script (mode : Mode) (c : Nat) (sig : Sig) (raw : List Bytes) (fs : Bool)
    (hs : sig.name ∈ scriptNames) : runCommand mode c sig raw fs = runScriptCmd mode c sig raw fs := by
  have : scriptNames.contains sig.name = true := by simpa using hs
  unfold runCommand
  simp only [this, if_true]

/-- every command but EXEC and the blocking pops - the script commands included - is the same on every front-end -/
theorem runCommand_mode_irrel (m1 m2 : Mode) (c : Nat) (sig : Sig) (raw : List Bytes) (fs : Bool)
    (h : sig.name ∉ blockingNames) (hx : sig.name ≠ "exec") :
    runCommand m1 c sig raw fs = runCommand m2 c sig raw fs := by
  by_cases hs : sig.name ∈ scriptNames
  · rw [runCommand_script m1 c sig raw fs hs, runCommand_script m2 c sig raw fs hs, runScriptCmd_mode_irrel m1 m2]
  · rw [runCommand_not_script m1 c sig raw fs hs, runCommand_not_script m2 c sig raw fs hs]
    exact runWith_mode_irrel _ _ m1 m2 c sig raw fs (fun args cis => by
      rw [special_inner_irrel (runInner m1 c) (runInner m2 c) m1 c sig.name args cis hx]
      exact special_mode_irrel _ m1 m2 c sig.name args cis h)

theorem SigTable.find_name {n : String} {sig : Sig} (h : SigTable.find n = some sig) : sig.name = n := by
  unfold SigTable.find at h
  simpa using List.find?_some h

theorem queueStep_congr (i1 i2 : Inner) (c : Nat) (a : String × List Bytes)
    (h : ∀ sig, SigTable.find a.1 = some sig → i1 sig a.2 = i2 sig a.2) :
    queueStep i1 c a = queueStep i2 c a := by
  unfold queueStep
  cases hf : SigTable.find a.1 with
  | none => rfl
  | some sig => simp only [h sig hf]

theorem runQueue_congr (i1 i2 : Inner) (c : Nat) (q : List (String × List Bytes))
    (h : ∀ a ∈ q, ∀ sig, SigTable.find a.1 = some sig → i1 sig a.2 = i2 sig a.2) :
    runQueue i1 c q = runQueue i2 c q := by
  induction q with
  | nil => rfl
  | cons a rest ih =>
    rw [runQueue_cons, runQueue_cons, queueStep_congr i1 i2 c a (h a (List.mem_cons_self ..)),
      ih (fun b hb => h b (List.mem_cons_of_mem _ hb))]

theorem execCmd_congr (i1 i2 : Inner) (c : Nat) (cis : List CI) (s : Sys)
    (h : ∀ q, (s.conn c).tx = some q → ∀ a ∈ q, ∀ sig, SigTable.find a.1 = some sig → i1 sig a.2 = i2 sig a.2) :
    execCmd i1 c cis s = execCmd i2 c cis s := by
  cases htx : (s.conn c).tx with
  | none => rw [execCmd_run_none i1 cis htx, execCmd_run_none i2 cis htx]
  | some q =>
    cases hf : (s.conn c).txFailed with
    | true => rw [execCmd_run_failed i1 cis htx hf, execCmd_run_failed i2 cis htx hf]
    | false =>
      cases hw : (s.conn c).watchNotified with
      | true => rw [execCmd_run_dirty i1 cis htx hf hw, execCmd_run_dirty i2 cis htx hf hw]
      | false =>
        rw [execCmd_eq_sequential i1 cis htx hf hw, execCmd_eq_sequential i2 cis htx hf hw,
          runQueue_congr i1 i2 c q (h q htx)]

/-- EXEC whose queue holds no blocking pop: same on both front-ends -/
theorem runCommand_exec_mode_irrel (m1 m2 : Mode) (c : Nat) (sig : Sig) (raw : List Bytes) (fs : Bool) (s : Sys)
    (hx : sig.name = "exec")
    (hq : ∀ q, (s.conn c).tx = some q → ∀ a ∈ q, a.1 ∉ blockingNames) :
    runCommand m1 c sig raw fs s = runCommand m2 c sig raw fs s := by
  have hs : sig.name ∉ scriptNames := by rw [hx]; decide
  rw [runCommand_not_script m1 c sig raw fs hs, runCommand_not_script m2 c sig raw fs hs]
  apply runWith_congr_state
  intro args cis s' hs'
  rw [special_exec _ m1 c sig.name args cis hx, special_exec _ m2 c sig.name args cis hx]
  apply execCmd_congr
  intro q htx a ha sg hsg
  have hc : s'.conn c = s.conn c := by simp only [Sys.conn_def, hs']
  rw [hc] at htx
  apply runInner_mode_irrel
  rw [SigTable.find_name hsg]
  exact hq q htx a ha

/-- `dispatch` after its mode-independent prologue (clean-up, clock refresh) -/
def dispatchBody (mode : Mode) (c : Nat) (conn : Conn) (sig : Sig) (args : List Bytes) : M Unit := do
  if !sig.checkArity args.length then
    if conn.tx.isSome then modifyConn c fun x => { x with txFailed := true }
    if sig.name == "exec" then
      modifyConn c fun x => { x with tx := none, txFailed := false }
      clearWatches c
      emit c (.err (strBytes ("EXECABORT Transaction discarded because of: " ++ (sig.wrongArgs.drop 4))))
    else emit c (.err (strBytes sig.wrongArgs))
  else if conn.tx.isSome && !SigTable.notQueued.contains sig.name then
    if SigTable.notInMulti.contains sig.name then
      modifyConn c fun x => { x with txFailed := true }
      emit c (.err (strBytes Msgs.COMMAND_IN_MULTI_MSG))
    else
      modifyConn c fun x => { x with tx := x.tx.map (· ++ [(sig.name, args)]) }
      emit c .queued
  else
    match ← runCommand mode c sig args false with
    | some r => emit c r
    | none => pure ()
    if (← get).crashed.isSome then modifyConn c fun x => { x with dead := true }

theorem dispatch_eq (mode : Mode) (c : Nat) (conn : Conn) (sig : Sig) (args : List Bytes) (s : Sys) :
    dispatch mode c conn sig args s = dispatchBody mode c conn sig args (cleanupClosed s).2.refresh := rfl

theorem dispatchBody_congr (m1 m2 : Mode) (c : Nat) (conn : Conn) (sig : Sig) (args : List Bytes) (s : Sys)
    (h : runCommand m1 c sig args false s = runCommand m2 c sig args false s) :
    dispatchBody m1 c conn sig args s = dispatchBody m2 c conn sig args s := by
  unfold dispatchBody
  split
  · rfl
  · split
    · rfl
    · simp only [bind, StateT.bind, h]

theorem processCommand_mode_irrel (m1 m2 : Mode) (c : Nat) (nameB : Bytes) (args : List Bytes)
    (h : ∀ sig, lookupSig nameB = some sig → sig.name ∉ blockingNames ∧ sig.name ≠ "exec") :
    processCommand m1 c (nameB :: args) = processCommand m2 c (nameB :: args) := by
  rw [processCommand_cons, processCommand_cons]
  cases hs : lookupSig nameB with
  | none => rfl
  | some sig =>
    simp only
    unfold dispatch
    rw [runCommand_mode_irrel m1 m2 c sig args false (h sig hs).1 (h sig hs).2]

theorem processCommand_exec_mode_irrel (m1 m2 : Mode) (c : Nat) (nameB : Bytes) (args : List Bytes) (s : Sys)
    (h : ∀ sig, lookupSig nameB = some sig → sig.name ∉ blockingNames)
    (hq : ∀ q, (s.conn c).tx = some q → ∀ a ∈ q, a.1 ∉ blockingNames) :
    processCommand m1 c (nameB :: args) s = processCommand m2 c (nameB :: args) s := by
  rw [processCommand_cons, processCommand_cons]
  cases hs : lookupSig nameB with
  | none => rfl
  | some sig =>
    simp only [bind, StateT.bind, getConn_run, dispatch_eq]
    apply dispatchBody_congr
    by_cases hx : sig.name = "exec"
    · apply runCommand_exec_mode_irrel m1 m2 c sig args false _ hx
      intro q htx
      apply hq q
      rw [← htx, Sys.refresh_conn]
      rcases cleanupClosed_conn_any s c with e | e <;> rw [e] <;> rfl
    · rw [runCommand_mode_irrel m1 m2 c sig args false (h sig hs) hx]

/-! ## the asyncio blocking primitive -/

abbrev Pass := Bool → M (Except Err (Option Reply))

theorem blockingAsync_served_err (c : Nat) (kind : String) (keys : List Bytes) (pass : Pass) (s s1 : Sys) (e : Err)
    (h : pass true s = (.error e, s1)) : blockingAsync c kind keys pass s = (.error e, s1) := by
  unfold blockingAsync
  simp only [bind, StateT.bind, h]
  rfl

theorem blocking_served_err (c : Nat) (park : Bool) (kind : String) (keys : List Bytes) (timeout : Int) (pass : Pass)
    (s s1 : Sys) (e : Err) (h : pass true s = (.error e, s1)) :
    blocking c park kind keys timeout pass s = (.error e, s1) := by
  unfold blocking
  simp only [bind, StateT.bind, h]
  rfl

theorem blockingAsync_served_ok (c : Nat) (kind : String) (keys : List Bytes) (pass : Pass) (s s1 : Sys) (r : Reply)
    (h : pass true s = (.ok (some r), s1)) : blockingAsync c kind keys pass s = (.ok (some r), s1) := by
  unfold blockingAsync
  simp only [bind, StateT.bind, h]
  rfl

theorem blocking_served_ok (c : Nat) (park : Bool) (kind : String) (keys : List Bytes) (timeout : Int) (pass : Pass)
    (s s1 : Sys) (r : Reply) (h : pass true s = (.ok (some r), s1)) :
    blocking c park kind keys timeout pass s = (.ok (some r), s1) := by
  unfold blocking
  simp only [bind, StateT.bind, h]
  rfl

theorem blockingAsync_inTx (c : Nat) (kind : String) (keys : List Bytes) (pass : Pass) (s s1 : Sys)
    (h : pass true s = (.ok none, s1)) (htx : (s1.conn c).inTx = true) :
    blockingAsync c kind keys pass s = (.ok (some .nil), s1) := by
  unfold blockingAsync
  simp only [bind, StateT.bind, h, getConn_run, htx]
  rfl

theorem blocking_inTx (c : Nat) (park : Bool) (kind : String) (keys : List Bytes) (timeout : Int) (pass : Pass)
    (s s1 : Sys) (h : pass true s = (.ok none, s1)) (htx : (s1.conn c).inTx = true) :
    blocking c park kind keys timeout pass s = (.ok (some .nil), s1) := by
  unfold blocking
  simp only [bind, StateT.bind, h, getConn_run, htx]
  rfl

theorem blockingAsync_parks (c : Nat) (kind : String) (keys : List Bytes) (pass : Pass) (s s1 : Sys)
    (h : pass true s = (.ok none, s1)) (htx : (s1.conn c).inTx = false) :
    blockingAsync c kind keys pass s = (.ok none, s1.updConn c fun x =>
      { x with paused := true, parked := some { kind := kind, keys := keys, db := (s1.conn c).db, deadline := none } }) := by
  unfold blockingAsync
  simp only [bind, StateT.bind, h, getConn_run, htx]
  rfl


/-! ## frame of the blocking passes -/

/-- a connection record up to the notification flags (`watchNotified`, `parked.woken`) -/
def Conn.core (x : Conn) : Conn :=
  { x with watchNotified := false, parked := x.parked.map fun p => { p with woken := false } }

/-- what a blocking pass may change: the databases and the notification flags of connections -/
structure PassFrame (s s' : Sys) : Prop where
  out : s'.out = s.out
  clocks : s'.clocks = s.clocks
  picks : s'.picks = s.picks
  fault : s'.fault = s.fault
  crashed : s'.crashed = s.crashed
  subs : s'.srv.subs = s.srv.subs
  psubs : s'.srv.psubs = s.srv.psubs
  closedSockets : s'.srv.closedSockets = s.srv.closedSockets
  time : s'.srv.time = s.srv.time
  conn : ∀ c, (s'.conn c).core = (s.conn c).core
  hasConn : ∀ c, s'.HasConn c ↔ s.HasConn c

theorem PassFrame.refl (s : Sys) : PassFrame s s :=
  ⟨rfl, rfl, rfl, rfl, rfl, rfl, rfl, rfl, rfl, fun _ => rfl, fun _ => Iff.rfl⟩

theorem PassFrame.trans {a b c : Sys} (h1 : PassFrame a b) (h2 : PassFrame b c) : PassFrame a c :=
  ⟨h2.out.trans h1.out, h2.clocks.trans h1.clocks, h2.picks.trans h1.picks, h2.fault.trans h1.fault,
   h2.crashed.trans h1.crashed, h2.subs.trans h1.subs, h2.psubs.trans h1.psubs,
   h2.closedSockets.trans h1.closedSockets, h2.time.trans h1.time,
   fun x => (h2.conn x).trans (h1.conn x), fun x => (h2.hasConn x).trans (h1.hasConn x)⟩

structure Framed {α} (x : M α) : Prop where
  frame : ∀ s, PassFrame s (x s).2

theorem Framed.pure {α} (a : α) : Framed (pure a : M α) := ⟨fun s => PassFrame.refl s⟩

theorem Framed.bind {α β} {x : M α} {f : α → M β} (hx : Framed x) (hf : ∀ a, Framed (f a)) :
    Framed (x >>= f) := ⟨fun s => (hx.frame s).trans ((hf (x s).1).frame (x s).2)⟩

theorem framed_getDb (d : Nat) : Framed (getDb d) := ⟨fun s => PassFrame.refl s⟩
theorem framed_getConn (c : Nat) : Framed (getConn c) := ⟨fun s => PassFrame.refl s⟩

theorem framed_setDb (d : Nat) (db : Db) : Framed (setDb d db) := ⟨fun _ =>
  ⟨rfl, rfl, rfl, rfl, rfl, rfl, rfl, rfl, rfl, fun _ => rfl, fun _ => Iff.rfl⟩⟩

theorem notifyFn_core (d : Nat) (key : Bytes) (x : Conn) : (notifyFn d key x).core = x.core := by
  unfold notifyFn Conn.core
  obtain ⟨id, db, tx, txF, inTx, wn, w, ps, buf, paused, closed, dead, parked⟩ := x
  cases parked with
  | none => cases h1 : w.contains (d, key) <;> simp only [h1, Bool.false_eq_true, if_false, if_true] <;> rfl
  | some p =>
    cases h1 : w.contains (d, key) <;> cases h2 : (p.db == d) <;>
      simp only [h1, h2, Bool.false_eq_true, if_false, if_true] <;> rfl

theorem Sys.mapConns_hasConn (s : Sys) (g : Conn → Conn) (hid : ∀ x, (g x).id = x.id) (c : Nat) :
    (s.mapConns g).HasConn c ↔ s.HasConn c := by
  simp only [Sys.HasConn, Sys.mapConns, List.mem_map]
  constructor
  · rintro ⟨x, ⟨y, hy, rfl⟩, h⟩; exact ⟨y, hy, by rw [← hid]; exact h⟩
  · rintro ⟨x, hx, h⟩; exact ⟨g x, ⟨x, hx, rfl⟩, by rw [hid]; exact h⟩

theorem framed_notifyWatch (d : Nat) (key : Bytes) : Framed (notifyWatch d key) := by
  refine ⟨fun s => ?_⟩
  rw [notifyWatch_run]
  refine ⟨rfl, rfl, rfl, rfl, rfl, rfl, rfl, rfl, rfl, ?_, ?_⟩
  · intro c
    exact Sys.conn_mapConns_pred s (notifyFn d key) c (fun y => y.core = (s.conn c).core) (notifyFn_id d key)
      (fun x hx => (notifyFn_core d key x).trans hx) rfl
  · intro c
    exact Sys.mapConns_hasConn s _ (notifyFn_id d key) c

theorem Framed.forM {α} (l : List α) (f : α → M PUnit) (h : ∀ a, Framed (f a)) : Framed (l.forM f) := by
  induction l with
  | nil => exact Framed.pure _
  | cons a as ih => rw [forM_cons_eq]; exact Framed.bind (h a) (fun _ => ih)

theorem framed_writebackAll (d : Nat) (cis : List CI) : Framed (writebackAll d cis) := by
  unfold writebackAll
  apply Framed.forM
  intro ci
  apply Framed.bind (framed_getDb d)
  intro db
  split
  apply Framed.bind (framed_setDb _ _)
  intro _
  split
  · exact framed_notifyWatch _ _
  · exact Framed.pure _

theorem framed_bpopPass (d : Nat) (left first : Bool) (keys : List Bytes) : Framed (bpopPass d left first keys) := by
  induction keys with
  | nil => exact Framed.pure _
  | cons key rest ih =>
    rw [bpopPass]
    apply Framed.bind (framed_getDb d)
    intro db
    split
    apply Framed.bind (framed_setDb _ _)
    intro _
    split
    · exact ih
    · split
      · split
        apply Framed.bind (framed_writebackAll _ _)
        intro _
        exact Framed.pure _
      · split
        · exact Framed.pure _
        · exact ih

theorem framed_brpoplpushPass (d : Nat) (src dst : Bytes) (first : Bool) : Framed (brpoplpushPass d src dst first) := by
  unfold brpoplpushPass
  repeat' first
    | exact Framed.pure _
    | exact framed_getDb _
    | exact framed_setDb _ _
    | exact framed_writebackAll _ _
    | apply Framed.bind
    | intro _
    | split

theorem framed_parkedPass (c : Nat) (p : Parked) : Framed (parkedPass c p) := by
  unfold parkedPass
  split
  · exact framed_brpoplpushPass ..
  · exact framed_bpopPass ..
  · exact framed_bpopPass ..


theorem PassFrame.closed {s s' : Sys} (h : PassFrame s s') (c : Nat) : (s'.conn c).closed = (s.conn c).closed := by
  have := congrArg Conn.closed (h.conn c); exact this
theorem PassFrame.paused {s s' : Sys} (h : PassFrame s s') (c : Nat) : (s'.conn c).paused = (s.conn c).paused := by
  have := congrArg Conn.paused (h.conn c); exact this
theorem PassFrame.inTx {s s' : Sys} (h : PassFrame s s') (c : Nat) : (s'.conn c).inTx = (s.conn c).inTx := by
  have := congrArg Conn.inTx (h.conn c); exact this
theorem PassFrame.buf {s s' : Sys} (h : PassFrame s s') (c : Nat) : (s'.conn c).buf = (s.conn c).buf := by
  have := congrArg Conn.buf (h.conn c); exact this
theorem PassFrame.dead {s s' : Sys} (h : PassFrame s s') (c : Nat) : (s'.conn c).dead = (s.conn c).dead := by
  have := congrArg Conn.dead (h.conn c); exact this
theorem PassFrame.tx {s s' : Sys} (h : PassFrame s s') (c : Nat) : (s'.conn c).tx = (s.conn c).tx := by
  have := congrArg Conn.tx (h.conn c); exact this
theorem PassFrame.db {s s' : Sys} (h : PassFrame s s') (c : Nat) : (s'.conn c).db = (s.conn c).db := by
  have := congrArg Conn.db (h.conn c); exact this
theorem PassFrame.watches {s s' : Sys} (h : PassFrame s s') (c : Nat) : (s'.conn c).watches = (s.conn c).watches := by
  have := congrArg Conn.watches (h.conn c); exact this
theorem PassFrame.pubsub {s s' : Sys} (h : PassFrame s s') (c : Nat) : (s'.conn c).pubsub = (s.conn c).pubsub := by
  have := congrArg Conn.pubsub (h.conn c); exact this

/-! ### a paused connection only buffers -/

theorem Sys.hasConn_of_paused {s : Sys} {c : Nat} (h : (s.conn c).paused = true) : s.HasConn c := by
  by_cases hc : s.HasConn c
  · exact hc
  · rw [Sys.conn_of_not_hasConn hc] at h; cases h

theorem Sys.hasConn_of_parked {s : Sys} {c : Nat} {p : Parked} (h : (s.conn c).parked = some p) : s.HasConn c := by
  by_cases hc : s.HasConn c
  · exact hc
  · rw [Sys.conn_of_not_hasConn hc] at h; cases h

theorem drain_paused (mode : Mode) (c : Nat) (n : Nat) (s : Sys) (h : (s.conn c).paused = true) :
    drain mode c n s = ((), s) := by
  cases n with
  | zero => rfl
  | succ f =>
    have := drain_succ mode c f s
    have hc : (connOf s c).paused = true := h
    rw [hc] at this
    exact this

theorem sendall_paused (mode : Mode) (c : Nat) (data : Bytes) (s : Sys)
    (hp : (s.conn c).paused = true) (hd : (s.conn c).dead = false) :
    sendall mode c data s = ((), s.updConn c fun x => { x with buf := x.buf ++ data }) := by
  have h := sendall_run mode c data s
  have hc : (connOf s c).dead = false := hd
  rw [hc] at h
  refine h.trans ?_
  simp only [Bool.false_eq_true, if_false]
  apply drain_paused
  show ((s.updConn c fun x => { x with buf := x.buf ++ data }).conn c).paused = true
  rw [Sys.conn_updConn_same (fun x => { x with buf := x.buf ++ data }) (Sys.hasConn_of_paused hp) (fun _ => rfl)]
  exact hp


/-! ## the re-try task and the time-out of a parked asyncio connection -/

/-- un-park and resume the parser -/
def Conn.unpark (x : Conn) : Conn := { x with parked := none, paused := false }

/-- the state in which the parser resumes after the blocked pop was answered with `r` -/
def Sys.resumed (s1 : Sys) (c : Nat) (r : Reply) : Sys := (s1.updConn c Conn.unpark).emitS c r

theorem wakeConnAsync_run (mode : Mode) (c : Nat) (s : Sys) (p : Parked) (hp : (s.conn c).parked = some p) :
    wakeConnAsync mode c s =
      match parkedPass c p s with
      | (.error e, s1) =>
        drain mode c (((s1.resumed c (.err (strBytes e))).conn c).buf.length + 1) (s1.resumed c (.err (strBytes e)))
      | (.ok (some r), s1) => drain mode c (((s1.resumed c r).conn c).buf.length + 1) (s1.resumed c r)
      | (.ok none, s1) => ((), s1.updConn c fun x => { x with parked := some { p with woken := false } }) := by
  unfold wakeConnAsync
  simp only [bind, StateT.bind, getConn_run, hp]
  generalize parkedPass c p s = res
  obtain ⟨r, s1⟩ := res
  cases r with
  | error e => simp only [StateT.bind, modifyConn_run, emit_run, getConn_run]; rfl
  | ok o =>
    cases o with
    | none => rfl
    | some r => simp only [StateT.bind, modifyConn_run, emit_run, getConn_run]; rfl

theorem timeoutConnAsync_run (mode : Mode) (c : Nat) (s : Sys) (p : Parked) (hp : (s.conn c).parked = some p) :
    timeoutConnAsync mode c s = drain mode c (((s.resumed c .nil).conn c).buf.length + 1) (s.resumed c .nil) := by
  unfold timeoutConnAsync
  simp only [bind, StateT.bind, getConn_run, hp, modifyConn_run, emit_run]
  rfl

theorem Sys.resumed_facts (s1 : Sys) (c : Nat) (r : Reply) (hc : s1.HasConn c) (hcl : (s1.conn c).closed = false) :
    (s1.resumed c r).out = (c, r) :: s1.out ∧ ((s1.resumed c r).conn c).parked = none ∧
    ((s1.resumed c r).conn c).paused = false ∧ ((s1.resumed c r).conn c).buf = (s1.conn c).buf ∧
    (s1.resumed c r).srv.dbs = s1.srv.dbs ∧
    (∀ c', c' ≠ c → (s1.resumed c r).conn c' = s1.conn c') := by
  have h1 : (s1.updConn c Conn.unpark).conn c = (s1.conn c).unpark := Sys.conn_updConn_same _ hc (fun _ => rfl)
  have hcl' : ((s1.updConn c Conn.unpark).conn c).closed = false := by rw [h1]; exact hcl
  unfold Sys.resumed
  refine ⟨?_, ?_, ?_, ?_, ?_, ?_⟩
  · rw [Sys.emitS_out, hcl']; rfl
  · rw [Sys.emitS_conn, h1]; rfl
  · rw [Sys.emitS_conn, h1]; rfl
  · rw [Sys.emitS_conn, h1]; rfl
  · rw [Sys.emitS_srv]; rfl
  · intro c' hne
    rw [Sys.emitS_conn]
    exact Sys.conn_updConn_ne _ hne (fun _ => rfl)


theorem drain_out_mono (mode : Mode) (c : Nat)
    (hpc : ∀ fields (s : Sys), ∃ l, (processCommand mode c fields s).2.out = l ++ s.out)
    (n : Nat) (s : Sys) : ∃ l, (drain mode c n s).2.out = l ++ s.out := by
  induction n generalizing s with
  | zero => exact ⟨[], rfl⟩
  | succ f ih =>
    have h := drain_succ mode c f s
    have h' : drain mode c (f + 1) s = _ := h
    rw [h']
    split
    · exact ⟨[], rfl⟩
    · split
      · exact ⟨[], rfl⟩
      · rename_i fields rest _
        obtain ⟨l1, h1⟩ := hpc fields (setBuf c rest s)
        obtain ⟨l2, h2⟩ := ih ((processCommand mode c fields).run (setBuf c rest s)).2
        refine ⟨l2 ++ l1, ?_⟩
        have h2' : (drain mode c f ((processCommand mode c fields).run (setBuf c rest s)).2).2.out = _ := h2
        show (drain mode c f ((processCommand mode c fields).run (setBuf c rest s)).2).2.out = _
        rw [h2']
        have h1' : ((processCommand mode c fields).run (setBuf c rest s)).2.out = l1 ++ (setBuf c rest s).out := h1
        rw [h1', List.append_assoc]
        rfl

theorem blockingAsync_conn_other (c : Nat) (kind : String) (keys : List Bytes) (pass : Pass) (s : Sys)
    (c' : Nat) (hne : c' ≠ c) :
    (blockingAsync c kind keys pass s).2.conn c' = (pass true s).2.conn c' := by
  generalize hr : pass true s = res
  obtain ⟨r, s1⟩ := res
  cases r with
  | error e => rw [blockingAsync_served_err c kind keys pass s s1 e hr]
  | ok o =>
    cases o with
    | some r => rw [blockingAsync_served_ok c kind keys pass s s1 r hr]
    | none =>
      cases htx : (s1.conn c).inTx with
      | true => rw [blockingAsync_inTx c kind keys pass s s1 hr htx]
      | false =>
        rw [blockingAsync_parks c kind keys pass s s1 hr htx]
        exact Sys.conn_updConn_ne _ hne (fun _ => rfl)

/-- everything but the connection records is what the pass left -/
theorem blockingAsync_rest (c : Nat) (kind : String) (keys : List Bytes) (pass : Pass) (s : Sys) :
    let s' := (blockingAsync c kind keys pass s).2
    let s1 := (pass true s).2
    s'.out = s1.out ∧ s'.clocks = s1.clocks ∧ s'.picks = s1.picks ∧ s'.fault = s1.fault ∧ s'.crashed = s1.crashed ∧
    s'.srv.dbs = s1.srv.dbs ∧ s'.srv.subs = s1.srv.subs ∧ s'.srv.psubs = s1.srv.psubs ∧ s'.srv.time = s1.srv.time := by
  generalize hr : pass true s = res
  obtain ⟨r, s1⟩ := res
  cases r with
  | error e => rw [blockingAsync_served_err c kind keys pass s s1 e hr]; simp
  | ok o =>
    cases o with
    | some r => rw [blockingAsync_served_ok c kind keys pass s s1 r hr]; simp
    | none =>
      cases htx : (s1.conn c).inTx with
      | true => rw [blockingAsync_inTx c kind keys pass s s1 hr htx]; simp
      | false =>
        rw [blockingAsync_parks c kind keys pass s s1 hr htx]
        exact ⟨rfl, rfl, rfl, rfl, rfl, rfl, rfl, rfl, rfl⟩


/-! ## EXEC of one connection is blind to the MULTI queue of another -/

/-- replace the MULTI queue of a connection record -/
def Conn.setTx (q : Option (List (String × List Bytes))) (x : Conn) : Conn := { x with tx := q }

/-- the same state with the MULTI queue of connection `c` replaced by `q` -/
def Sys.withTx (s : Sys) (c : Nat) (q : Option (List (String × List Bytes))) : Sys := s.updConn c (Conn.setTx q)

theorem Sys.withTx_conn_ne (s : Sys) {c c' : Nat} (q) (h : c' ≠ c) : (s.withTx c q).conn c' = s.conn c' :=
  Sys.conn_updConn_ne _ h (fun _ => rfl)

theorem Sys.updConn_withTx_comm (s : Sys) {c c' : Nat} (q) (h : c' ≠ c) (g : Conn → Conn)
    (hid : ∀ x, (g x).id = x.id) :
    (s.withTx c q).updConn c' g = (s.updConn c' g).withTx c q := by
  unfold Sys.withTx Sys.updConn
  simp only [List.map_map]
  congr 2
  apply List.map_congr_left
  intro x _
  simp only [Function.comp]
  by_cases h1 : x.id = c
  · have e1 : (x.id == c) = true := by simp [h1]
    have e2 : (x.id == c') = false := by simp [h1]; exact fun e => h e.symm
    have e3 : ((Conn.setTx q x).id == c') = false := e2
    simp only [e1, e2, e3, if_true, Bool.false_eq_true, if_false]
  · have e1 : (x.id == c) = false := by simpa using h1
    by_cases h2 : x.id = c'
    · have e2 : (x.id == c') = true := by simp [h2]
      have e4 : ((g x).id == c) = false := by rw [hid]; exact e1
      simp only [e1, e2, e4, if_true, Bool.false_eq_true, if_false]
    · have e2 : (x.id == c') = false := by simpa using h2
      simp only [e1, e2, Bool.false_eq_true, if_false]

/-- running `sig args` with the nested runner neither reads nor writes the MULTI queue of connection `c` -/
def BlindAt (c : Nat) (inner : Inner) (sig : Sig) (args : List Bytes) : Prop :=
  ∀ q (s : Sys), inner sig args (s.withTx c q) = ((inner sig args s).1, (inner sig args s).2.withTx c q)

theorem fault_withTx (msg : String) (s : Sys) (c : Nat) (q) :
    M.fault msg (s.withTx c q) = ((), (M.fault msg s).2.withTx c q) := by
  unfold M.fault
  simp only [modify, modifyGet, MonadStateOf.modifyGet, StateT.modifyGet, pure]
  show ((), if s.fault.isNone then _ else _) = ((), Sys.withTx (if s.fault.isNone then _ else _) c q)
  split <;> rfl

theorem queueStep_withTx (inner : Inner) (c c' : Nat) (hne : c' ≠ c) (a : String × List Bytes)
    (hb : ∀ sig, SigTable.find a.1 = some sig → BlindAt c inner sig a.2) (q) (s : Sys) :
    queueStep inner c' a (s.withTx c q) = ((queueStep inner c' a s).1, (queueStep inner c' a s).2.withTx c q) := by
  unfold queueStep
  cases hfind : SigTable.find a.1 with
  | none =>
    simp only [bind, StateT.bind, fault_withTx, pure, StateT.pure]
    rfl
  | some sig =>
    simp only [bind, StateT.bind, modifyConn_run, pure, StateT.pure]
    rw [Sys.updConn_withTx_comm s q hne (fun x => { x with inTx := true }) (fun _ => rfl), hb sig hfind]
    simp only
    rw [Sys.updConn_withTx_comm _ q hne (fun x => { x with inTx := false }) (fun _ => rfl)]
    generalize inner sig a.2 _ = r
    obtain ⟨r1, r2⟩ := r
    rfl

theorem runQueue_withTx (inner : Inner) (c c' : Nat) (hne : c' ≠ c) (l : List (String × List Bytes))
    (hb : ∀ a ∈ l, ∀ sig, SigTable.find a.1 = some sig → BlindAt c inner sig a.2) (q) (s : Sys) :
    runQueue inner c' l (s.withTx c q) = ((runQueue inner c' l s).1, (runQueue inner c' l s).2.withTx c q) := by
  induction l generalizing s with
  | nil => rfl
  | cons a rest ih =>
    rw [runQueue_cons]
    simp only [bind, StateT.bind, queueStep_withTx inner c c' hne a (hb a (List.mem_cons_self ..)),
      ih (fun b hb' => hb b (List.mem_cons_of_mem _ hb')), pure, StateT.pure]
    generalize queueStep inner c' a s = r1
    obtain ⟨a1, s1⟩ := r1
    simp only
    generalize runQueue inner c' rest s1 = r2
    obtain ⟨a2, s2⟩ := r2
    rfl

theorem execCmd_withTx (inner : Inner) (c c' : Nat) (hne : c' ≠ c) (cis : List CI) (q) (s : Sys)
    (hb : ∀ l, (s.conn c').tx = some l → ∀ a ∈ l, ∀ sig, SigTable.find a.1 = some sig → BlindAt c inner sig a.2) :
    execCmd inner c' cis (s.withTx c q) = ((execCmd inner c' cis s).1, (execCmd inner c' cis s).2.withTx c q) := by
  have hconn : (s.withTx c q).conn c' = s.conn c' := Sys.withTx_conn_ne s q hne
  have comm := fun (t : Sys) g hid => Sys.updConn_withTx_comm t (c := c) (c' := c') q hne g hid
  cases htx : (s.conn c').tx with
  | none => rw [execCmd_run_none inner cis (hconn ▸ htx), execCmd_run_none inner cis htx]
  | some l =>
    cases hf : (s.conn c').txFailed with
    | true =>
      rw [execCmd_run_failed inner cis (hconn ▸ htx) (hconn ▸ hf), execCmd_run_failed inner cis htx hf]
      simp only
      rw [comm _ (fun x => { x with tx := none }) (fun _ => rfl),
        comm _ (fun x => { x with watchNotified := false, watches := [] }) (fun _ => rfl)]
    | false =>
      cases hw : (s.conn c').watchNotified with
      | true =>
        rw [execCmd_run_dirty inner cis (hconn ▸ htx) (hconn ▸ hf) (hconn ▸ hw), execCmd_run_dirty inner cis htx hf hw]
        simp only
        rw [comm _ (fun x => { x with tx := none, txFailed := false }) (fun _ => rfl),
          comm _ (fun x => { x with watchNotified := false, watches := [] }) (fun _ => rfl)]
      | false =>
        rw [execCmd_eq_sequential inner cis (hconn ▸ htx) (hconn ▸ hf) (hconn ▸ hw),
          execCmd_eq_sequential inner cis htx hf hw]
        simp only [bind, StateT.bind, modifyConn_run, clearWatches_run]
        rw [comm _ (fun x => { x with tx := none, txFailed := false }) (fun _ => rfl),
          comm _ (fun x => { x with watchNotified := false, watches := [] }) (fun _ => rfl),
          runQueue_withTx inner c c' hne l (hb l htx)]
        generalize runQueue inner c' l _ = r
        obtain ⟨rs, s2⟩ := r
        simp only
        cases rs.any Option.isNone <;> rfl
theorem notifyFn_setTx (d : Nat) (key : Bytes) (q) (x : Conn) :
    notifyFn d key (x.setTx q) = (notifyFn d key x).setTx q := by
  unfold notifyFn Conn.setTx
  obtain ⟨id, db, tx, txF, inTx, wn, w, ps, buf, paused, closed, dead, parked⟩ := x
  cases parked with
  | none => cases h1 : w.contains (d, key) <;> simp only [h1, Bool.false_eq_true, if_false, if_true] <;> rfl
  | some p =>
    cases h1 : w.contains (d, key) <;> cases h2 : (p.db == d) <;>
      simp only [h1, h2, Bool.false_eq_true, if_false, if_true] <;> rfl

theorem notifyWatch_withTx (d : Nat) (key : Bytes) (c : Nat) (q) (s : Sys) :
    notifyWatch d key (s.withTx c q) = ((), (notifyWatch d key s).2.withTx c q) := by
  rw [notifyWatch_run, notifyWatch_run]
  unfold Sys.withTx Sys.updConn Sys.mapConns
  simp only [List.map_map]
  congr 3
  apply List.map_congr_left
  intro x _
  simp only [Function.comp, notifyFn_id]
  split
  · exact notifyFn_setTx d key q x
  · rfl

theorem forM_notifyWatch_withTx (d : Nat) (ks : List Bytes) (c : Nat) (q) (s : Sys) :
    ks.forM (notifyWatch d) (s.withTx c q) = ((), (ks.forM (notifyWatch d) s).2.withTx c q) := by
  induction ks generalizing s with
  | nil => rfl
  | cons k ks ih =>
    rw [forM_cons_eq]
    simp only [bind, StateT.bind, notifyWatch_withTx, ih]
    rfl

theorem Sys.faultS_withTx (s : Sys) (f : Option String) (c : Nat) (q) :
    (s.withTx c q).faultS f = (s.faultS f).withTx c q := by
  unfold Sys.faultS
  split
  · show (if s.fault.isNone then _ else _) = Sys.withTx (if s.fault.isNone then _ else _) c q
    split <;> rfl
  · rfl

/-- the state in which a regular command's notifications are delivered -/
def Sys.stored (s : Sys) (d : Nat) (o : RunOut) : Sys :=
  { s with srv := { s.srv with dbs := s.srv.dbs.set d o.db.dict }, picks := s.picks.drop o.picksUsed }

theorem Sys.afterRegular_withTx (s : Sys) (d : Nat) (o : RunOut) (c : Nat) (q) :
    (s.withTx c q).afterRegular d o = (s.afterRegular d o).withTx c q := by
  show (o.notified.forM (notifyWatch d) (Sys.faultS ((s.stored d o).withTx c q) o.fault)).2 =
    Sys.withTx (o.notified.forM (notifyWatch d) (Sys.faultS (s.stored d o) o.fault)).2 c q
  rw [Sys.faultS_withTx, forM_notifyWatch_withTx]

theorem runInner_regular_blind (mode : Mode) (c c' : Nat) (hne : c' ≠ c) (sig : Sig) (args : List Bytes)
    {body : Body} (hreg : Cmd.regular sig.name = some body) : BlindAt c (runInner mode c') sig args := by
  intro q s
  rw [runInner_regular_eq mode c' sig args hreg]
  have hconn : (s.withTx c q).conn c' = s.conn c' := Sys.withTx_conn_ne s q hne
  have hrr : (s.withTx c q).refuses c' sig = s.refuses c' sig := by unfold Sys.refuses; rw [hconn]
  cases hr : s.refuses c' sig with
  | true => rw [runWith_refused _ mode c' sig args false (hrr.trans hr), runWith_refused _ mode c' sig args false hr]
  | false =>
  rw [runWith_regular_run _ mode c' sig args false hreg _ (hrr.trans hr), runWith_regular_run _ mode c' sig args false hreg _ hr]
  have ho : (s.withTx c q).regularOut c' sig body args false = s.regularOut c' sig body args false := by
    unfold Sys.regularOut
    rw [hconn]
    rfl
  rw [ho, hconn, Sys.afterRegular_withTx]


end FR
