import FR.Proofs.C04kExec
import FR.Proofs.PubSubHist
/-!
# After the fix of KF-1: the events of a history

Every event of `FR/Proofs/History.lean` (`stepEv`) keeps the queues well-formed (`TxWf`); and an event other than a
write during an outage keeps "nothing crashed and every connection is alive" (whether or not the model's `fault`
marker is set: a run the replay cannot follow is still not a crash).
-/
namespace FR.C04k
open FR FR.M FR.ErrSys

/-! ## 1. invariants closed under small steps -/

/-- an invariant kept by every step that is small on the connection records and does not touch `crashed` -/
structure StepClosed (I : Sys → Prop) : Prop where
  step : ∀ {s s'}, I s → Core s s' → s'.crashed = s.crashed → I s'

theorem txWf_stepClosed : StepClosed TxWf := ⟨fun h hc _ => h.le hc.conns⟩

/-- the invariant of one event: queues well-formed, nothing has crashed and every connection is alive -/
def K (s : Sys) : Prop := TxWf s ∧ s.crashed = none ∧ AllAlive s

theorem k_stepClosed : StepClosed K :=
  ⟨fun {s s'} h hc hcr => ⟨h.1.le hc.conns, hcr.trans h.2.1, h.2.2.le hc.conns⟩⟩

section generic
variable {I : Sys → Prop}

theorem sc_of_small {α : Type} {m : M α} (hI : StepClosed I) (h : ∀ s0, Pres (Small s0) m) : Pres I m :=
  fun s hs => hI.step hs (h s s (Small.refl s)).core (h s s (Small.refl s)).crashed

theorem sc_getConn (c : Nat) : Pres I (getConn c) := fun _ h => h
theorem sc_get : Pres I (get : M Sys) := fun _ h => h

theorem sc_modifyConn (hI : StepClosed I) (c : Nat) (f : Conn → Conn) (hf : ∀ x, ConnStep x (f x)) :
    Pres I (modifyConn c f) := sc_of_small hI (fun _ => sm_modifyConn c f hf)

theorem sc_emit (hI : StepClosed I) (c : Nat) (r : Reply) : Pres I (emit c r) := by
  intro s h
  rw [emit_run]
  exact hI.step h (core_emitS s c r) (emitS_crashed' s c r)

theorem sc_nextClock (hI : StepClosed I) : Pres I nextClock := sc_of_small hI (fun _ => sm_nextClock)
theorem sc_fault (hI : StepClosed I) (msg : String) : Pres I (M.fault msg) := sc_of_small hI (fun _ => sm_fault msg)

theorem sc_modify_frame (hI : StepClosed I) (g : Sys → Sys)
    (hg : ∀ s, (g s).srv.conns = s.srv.conns ∧ (g s).fault = s.fault ∧ (g s).crashed = s.crashed ∧ (g s).out = s.out) :
    Pres I (modify g) := sc_of_small hI (fun _ => sm_modify_frame g hg)

theorem parkedPass_sm {s0 : Sys} (c : Nat) (p : Parked) : Pres (Small s0) (parkedPass c p) := by
  have h1 := brpoplpushPass_sm (s0 := s0)
  have h2 := bpopPass_sm (s0 := s0)
  unfold parkedPass
  pres

theorem sc_parkedPass (hI : StepClosed I) (c : Nat) (p : Parked) : Pres I (parkedPass c p) :=
  sc_of_small hI (fun _ => parkedPass_sm c p)

end generic

macro_rules | `(tactic| pres_leaf) => `(tactic| first
  | with_reducible exact sc_getConn _
  | with_reducible exact sc_get
  | with_reducible exact sc_emit (by assumption) _ _
  | with_reducible exact sc_nextClock (by assumption)
  | with_reducible exact sc_fault (by assumption) _
  | with_reducible exact sc_parkedPass (by assumption) _ _
  | ((with_reducible refine sc_modifyConn (by assumption) _ _ ?_); sm_side)
  | ((with_reducible refine sc_modify_frame (by assumption) _ ?_); first
      | exact fun _ => ⟨rfl, rfl, rfl, rfl⟩ | (intro _; split <;> exact ⟨rfl, rfl, rfl, rfl⟩)))

section generic
variable {I : Sys → Prop}

/-- the parser loop -/
theorem sc_drain (hI : StepClosed I) (mode : Mode) (c : Nat) (hp : ∀ fields, Pres I (processCommand mode c fields))
    (fuel : Nat) : Pres I (drain mode c fuel) := by
  induction fuel with
  | zero => unfold drain; pres
  | succ fuel ih => unfold drain; pres

theorem sc_wakeConn (hI : StepClosed I) (c : Nat) : Pres I (wakeConn c) := by
  unfold wakeConn; pres

theorem sc_timeoutConn (hI : StepClosed I) (c : Nat) : Pres I (timeoutConn c) := by
  unfold timeoutConn; pres

theorem sc_wakeConnAsync (hI : StepClosed I) (mode : Mode) (c : Nat)
    (hp : ∀ fields, Pres I (processCommand mode c fields)) : Pres I (wakeConnAsync mode c) := by
  have h := sc_drain hI mode c hp
  unfold wakeConnAsync; pres

theorem sc_timeoutConnAsync (hI : StepClosed I) (mode : Mode) (c : Nat)
    (hp : ∀ fields, Pres I (processCommand mode c fields)) : Pres I (timeoutConnAsync mode c) := by
  have h := sc_drain hI mode c hp
  unfold timeoutConnAsync; pres

end generic

theorem closeConn_txWf (c : Nat) : Pres TxWf (closeConn c) := by
  intro s h
  rw [closeConn_run]
  exact TxAll.updConn (s := { s with srv := { s.srv with closedSockets := s.srv.closedSockets ++ [c] } }) h c _
    (fun x q hq a ha => .inl ⟨q, hq, ha⟩)

/-! ## 2. (a) the queues stay well-formed: every event, every history -/

theorem processCommand_txWf (mode : Mode) (c : Nat) (fields : List Bytes) : Pres TxWf (processCommand mode c fields) :=
  fun s h => (processCommand_spec mode c fields s h).wf

/-- a `modify` that leaves the connection list alone -/
theorem txWf_modify_conns (g : Sys → Sys) (hg : ∀ s, (g s).srv.conns = s.srv.conns) : Pres TxWf (modify g) :=
  fun s h => h.le (ConnsLe.of_eq (hg s))

theorem sendall_txWf (mode : Mode) (c : Nat) (data : Bytes) : Pres TxWf (sendall mode c data) := by
  have hI := txWf_stepClosed
  have h2 := sc_drain hI mode c (processCommand_txWf mode c)
  unfold sendall
  refine Pres.bind (sc_getConn c) (fun conn => ?_)
  split
  · exact Pres.bind (txWf_modify_conns _ (fun _ => rfl)) (fun _ => Pres.pure _)
  · pres

theorem sendallGuarded_txWf (mode : Mode) (c : Nat) (data : Bytes) : Pres TxWf (sendallGuarded mode c data) := by
  have h1 := sendall_txWf mode c data
  unfold sendallGuarded
  refine Pres.bind sc_get (fun st => ?_)
  split
  · exact txWf_modify_conns _ (fun _ => rfl)
  · exact h1

theorem openConn_txWf (c : Nat) : Pres TxWf (openConn c) := by
  intro s h x hx q hq a ha
  have hx' : x ∈ s.srv.conns ++ [{ id := c }] := hx
  rcases List.mem_append.1 hx' with hx' | hx'
  · exact h x hx' q hq a ha
  · simp only [List.mem_singleton] at hx'
    subst hx'; cases hq

theorem gcConn_txWf (c : Nat) : Pres TxWf (gcConn c) := by
  intro s h x hx q hq a ha
  have hx' : x ∈ s.srv.conns.filter (·.id != c) := hx
  exact h x (List.mem_filter.1 hx').1 q hq a ha

theorem txWf_init : TxWf {} := fun x hx => by cases hx

/-- **(a) every event keeps the queues well-formed** -/
theorem stepEv_txWf (s : Sys) (e : Ev) (h : TxWf s) : TxWf (stepEv s e) := by
  have hI := txWf_stepClosed
  have h0 : TxWf s.beginEvent := h
  have hh : ∀ clocks picks, TxWf (s.beginEvent.withHints clocks picks) := fun _ _ => h
  unfold stepEv
  cases e with
  | version v => exact h
  | «open» c => exact openConn_txWf c _ h0
  | close c => exact closeConn_txWf c _ h0
  | gc c => exact gcConn_txWf c _ h0
  | conn up => exact h
  | request mode c fields clocks picks => exact processCommand_txWf mode c fields _ (hh clocks picks)
  | send mode c data clocks picks => exact sendallGuarded_txWf mode c data _ (hh clocks picks)
  | wake c clocks => exact sc_wakeConn hI c _ (hh clocks [])
  | timeout c => exact sc_timeoutConn hI c _ h0
  | awake mode c clocks picks => exact sc_wakeConnAsync hI mode c (processCommand_txWf mode c) _ (hh clocks picks)
  | atimeout mode c clocks picks => exact sc_timeoutConnAsync hI mode c (processCommand_txWf mode c) _ (hh clocks picks)

theorem foldl_stepEv_txWf (evs : List Ev) (s : Sys) (h : TxWf s) : TxWf (evs.foldl stepEv s) := by
  induction evs generalizing s with
  | nil => exact h
  | cons e es ih => exact ih _ (stepEv_txWf s e h)

/-- **(a) in every reachable state the queues are well-formed**; in particular `TxClean` -/
theorem runHistory_txWf (evs : List Ev) : TxWf (runHistory evs) := foldl_stepEv_txWf evs {} txWf_init

/-! ## 3. (b) nothing crashes, nobody dies -/

theorem processCommand_K (mode : Mode) (c : Nat) (fields : List Bytes) : Pres K (processCommand mode c fields) := by
  intro s h
  have hf := processCommand_spec mode c fields s h.1
  exact ⟨hf.wf, hf.crashed.trans h.2.1, hf.alive h.2.2 (hf.crashed.trans h.2.1)⟩

theorem AllAlive.conn {s : Sys} (h : AllAlive s) (c : Nat) : (s.conn c).dead = false := by
  rw [Sys.conn_def]
  cases hf : s.srv.conns.find? (·.id == c) with
  | none => rfl
  | some x => exact h x (List.mem_of_find?_eq_some hf)

theorem sendall_K (mode : Mode) (c : Nat) (data : Bytes) : Pres K (sendall mode c data) := by
  have hI := k_stepClosed
  have h2 := sc_drain hI mode c (processCommand_K mode c)
  intro s h
  unfold sendall
  simp only [bind, StateT.bind, getConn_run]
  cases hd : (s.conn c).dead with
  | true =>
    -- no connection is dead in a state satisfying `K`
    rw [h.2.2.conn c] at hd; cases hd
  | false =>
    simp only [Bool.false_eq_true, if_false]
    have : Pres K (do
        modifyConn c fun x => { x with buf := x.buf ++ data }
        drain mode c ((s.conn c).buf.length + data.length + 1) : M Unit) := by pres
    exact this s h

theorem sendallGuarded_K (mode : Mode) (c : Nat) (data : Bytes) (s : Sys) (hup : s.srv.connected = true) (h : K s) :
    K (sendallGuarded mode c data s).2 := by
  rw [sendallGuarded_run_up mode c data s hup]
  exact sendall_K mode c data s h

theorem openConn_K (c : Nat) : Pres K (openConn c) := by
  intro s h
  obtain ⟨h1, h2⟩ := h.2
  refine ⟨openConn_txWf c s h.1, h1, fun x hx => ?_⟩
  have hx' : x ∈ s.srv.conns ++ [{ id := c }] := hx
  rcases List.mem_append.1 hx' with hx' | hx'
  · exact h2 x hx'
  · simp only [List.mem_singleton] at hx'
    subst hx'; rfl

theorem gcConn_K (c : Nat) : Pres K (gcConn c) := by
  intro s h
  obtain ⟨h1, h2⟩ := h.2
  refine ⟨gcConn_txWf c s h.1, h1, fun x hx => ?_⟩
  have hx' : x ∈ s.srv.conns.filter (·.id != c) := hx
  exact h2 x (List.mem_filter.1 hx').1

theorem closeConn_K (c : Nat) : Pres K (closeConn c) := by
  intro s h
  obtain ⟨h1, h2⟩ := h.2
  refine ⟨closeConn_txWf c s h.1, ?_⟩
  rw [closeConn_run]
  exact ⟨h1, AllAlive.updConn
      (s := { s with srv := { s.srv with closedSockets := s.srv.closedSockets ++ [c] } }) h2 c _ (fun _ => rfl)⟩

/-- the event is not a write while the server is marked disconnected (such a write raises the client library's
`ConnectionError` by design: `crashed := some "ConnectionError"`) -/
def _root_.FR.Ev.up (s : Sys) : Ev → Prop
  | .send _ _ _ _ _ => s.srv.connected = true
  | _ => True

instance (s : Sys) (e : Ev) : Decidable (e.up s) := by
  cases e <;> unfold Ev.up <;> infer_instance

/-- **one event, from a state with well-formed queues and no dead connection**: afterwards the queues are well-formed,
nothing crashed and no connection is dead - whether or not the model has flagged the run -/
theorem stepEv_K (s : Sys) (e : Ev) (h : TxWf s) (ha : AllAlive s) (hup : e.up s) : K (stepEv s e) := by
  have hI := k_stepClosed
  have h0 : K s.beginEvent := ⟨h, rfl, ha⟩
  have hh : ∀ clocks picks, K (s.beginEvent.withHints clocks picks) := fun _ _ => ⟨h, rfl, ha⟩
  unfold stepEv
  cases e with
  | version v => exact ⟨h, rfl, ha⟩
  | «open» c => exact openConn_K c _ h0
  | close c => exact closeConn_K c _ h0
  | gc c => exact gcConn_K c _ h0
  | conn up => exact ⟨h, rfl, ha⟩
  | request mode c fields clocks picks => exact processCommand_K mode c fields _ (hh clocks picks)
  | send mode c data clocks picks => exact sendallGuarded_K mode c data _ hup (hh clocks picks)
  | wake c clocks => exact sc_wakeConn hI c _ (hh clocks [])
  | timeout c => exact sc_timeoutConn hI c _ h0
  | awake mode c clocks picks => exact sc_wakeConnAsync hI mode c (processCommand_K mode c) _ (hh clocks picks)
  | atimeout mode c clocks picks => exact sc_timeoutConnAsync hI mode c (processCommand_K mode c) _ (hh clocks picks)

/-- a history the model follows: no write during an outage, and no event ends with the `fault` marker set -/
def GoodFrom (s : Sys) : List Ev → Prop
  | [] => True
  | e :: es => e.up s ∧ (stepEv s e).fault = none ∧ GoodFrom (stepEv s e) es

instance decGoodFrom : (s : Sys) → (evs : List Ev) → Decidable (GoodFrom s evs)
  | _, [] => isTrue trivial
  | s, e :: es =>
    have := decGoodFrom (stepEv s e) es
    by unfold GoodFrom; infer_instance

theorem K.healthy {s : Sys} (h : K s) : s.crashed = none ∧ AllAlive s := h.2

/-- a history without a write during an outage (the one event that raises by design) -/
def UpFrom (s : Sys) : List Ev → Prop
  | [] => True
  | e :: es => e.up s ∧ UpFrom (stepEv s e) es

instance decUpFrom : (s : Sys) → (evs : List Ev) → Decidable (UpFrom s evs)
  | _, [] => isTrue trivial
  | s, e :: es =>
    have := decUpFrom (stepEv s e) es
    by unfold UpFrom; infer_instance

theorem GoodFrom.up : {s : Sys} → {evs : List Ev} → GoodFrom s evs → UpFrom s evs
  | _, [], _ => trivial
  | _, _ :: _, h => ⟨h.1, GoodFrom.up h.2.2⟩

/-- over a history without a write during an outage: nobody dies, nothing crashes - whatever the `fault` marker says -/
theorem foldl_alive_up (evs : List Ev) (s : Sys) (h : TxWf s) (ha : AllAlive s) (hg : UpFrom s evs) :
    AllAlive (evs.foldl stepEv s) ∧ (evs ≠ [] → (evs.foldl stepEv s).crashed = none) := by
  induction evs generalizing s with
  | nil => exact ⟨ha, fun h => absurd rfl h⟩
  | cons e es ih =>
    obtain ⟨hup, hrest⟩ := hg
    have hk := stepEv_K s e h ha hup
    obtain ⟨hcr, hal⟩ := hk.healthy
    obtain ⟨h1, h2⟩ := ih (stepEv s e) hk.1 hal hrest
    refine ⟨h1, fun _ => ?_⟩
    cases es with
    | nil => exact hcr
    | cons e' es' => exact h2 (by simp)

theorem foldl_faultfree (evs : List Ev) (s : Sys) (hg : GoodFrom s evs) :
    evs ≠ [] → (evs.foldl stepEv s).fault = none := by
  induction evs generalizing s with
  | nil => exact fun h => absurd rfl h
  | cons e es ih =>
    obtain ⟨_, hff, hrest⟩ := hg
    intro _
    cases es with
    | nil => exact hff
    | cons e' es' => exact ih (stepEv s e) hrest (by simp)

theorem foldl_alive (evs : List Ev) (s : Sys) (h : TxWf s) (ha : AllAlive s) (hg : GoodFrom s evs) :
    AllAlive (evs.foldl stepEv s) ∧ (evs ≠ [] → (evs.foldl stepEv s).crashed = none ∧ (evs.foldl stepEv s).fault = none) :=
  ⟨(foldl_alive_up evs s h ha hg.up).1, fun hne => ⟨(foldl_alive_up evs s h ha hg.up).2 hne, foldl_faultfree evs s hg hne⟩⟩

/-! ## 4. EXEC after a queueing error -/

open FR.PubSubHist in
/-- **EXEC on a transaction marked failed** (by a refused (P)SUBSCRIBE / (P)UNSUBSCRIBE, an unknown command, an arity
error): after the clean-up and the clock refresh the transaction is dropped, the watches are cleared, the reply is
`EXECABORT`; no queued command runs -/
theorem process_exec_failed (mode : Mode) (c : Nat) (nameB : Bytes) (s : Sys) (q : List (String × List Bytes))
    (hname : commandName nameB = some "exec") (htx : (s.conn c).tx = some q) (hf : (s.conn c).txFailed = true)
    (hps : (s.conn c).pubsub = 0) :
    processCommand mode c [nameB] s = ((), finish c ((((prep s).updConn c fun x => { x with tx := none }).updConn c
      fun x => { x with watchNotified := false, watches := [] }).emitS c (.err (strBytes Msgs.EXECABORT_MSG)))) := by
  have hsig : lookupSig nameB = some sigExec := by
    rw [lookupSig_of_name _ _ hname (by decide +kernel), find_exec]
  have har : sigExec.checkArity ([] : List Bytes).length = true := rfl
  have hq : ((s.conn c).tx.isSome && !SigTable.notQueued.contains sigExec.name) = false := by
    rw [htx]; rfl
  have hptx : ((prep s).conn c).tx = some q := by rw [prep_tx]; exact htx
  have hpf : ((prep s).conn c).txFailed = true := by
    rcases prep_conn_cases s c with h | h <;> rw [h] <;> exact hf
  have hb : decide (((prep s).conn c).pubsub > 0) = false := by
    rw [prep_pubsub, hps]; rfl
  rw [PubSubHist.processCommand_known _ _ _ _ _ hsig, dispatchBody_run' _ _ _ _ _ _ har hq,
    runCommand_bytes mode c sigExec [] (prep s) (by decide) rfl
      (fun db => apply_bytes _ _ _ (by simp [sigExec]) (.inl rfl) har), hb, gate_exec_free]
  have hn : sigExec.name = "exec" := rfl
  simp only [List.map_nil]
  rw [special_exec _ _ _ _ _ _ hn]
  have hm : Msgs.EXECABORT_MSG.startsWith "model:" = false := by decide +kernel
  unfold afterSpecial
  simp only [bind, StateT.bind, execCmd_run_failed (runInner mode c) [] hptx hpf, hm, Bool.false_eq_true, if_false]
  rfl

end FR.C04k
