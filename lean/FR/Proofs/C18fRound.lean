import FR.Proofs.DumpRound
import FR.Proofs.C18fGate
/-!
# C18f helper — what `Dbl.roundPos` / `Dbl.ofDecimal` compute

* `rm_spec`: the rounded significand is within half a unit, ties to even;
* `roundPos_isInf_iff` / `roundPos_isZero_iff`: the exact overflow and underflow thresholds
  (`num/den ≥ 2^1024 − 2^970`, `num/den ≤ 2^-1075`);
* `roundPos_scale`: the result is a function of the rational `num/den`;
* `ofDecimal_eq_roundPos`: the two early exits of `ofDecimal` do not change the value;
* `roundAbs`, `modelVal_eq_roundAbs`: the model value of a literal is the rounding of the rational it denotes.
-/
namespace FR.C18f
open FR FR.DumpRound

/-- the rounding decision of `roundPos` -/
def upBit (n' d' : Nat) : Bool :=
  decide (2 * (n' % d') > d') || (decide (2 * (n' % d') == d') && n' / d' % 2 == 1)

/-- the rounded significand -/
def rm (n' d' : Nat) : Nat := if upBit n' d' then n' / d' + 1 else n' / d'

theorem rTail_eq (neg : Bool) (n' d' : Nat) (e : Int) :
    rTail neg n' d' e =
      if rm n' d' = 2 ^ 53 then (if e + 1 > 971 then .inf neg else .fin neg (2 ^ 52) (e + 1))
      else (if e > 971 then .inf neg else .fin neg (rm n' d') e) := by
  unfold rTail rm upBit
  simp only [pow2_eq]
  by_cases h : (if (decide (2 * (n' % d') > d') || (decide (2 * (n' % d') == d') && n' / d' % 2 == 1)) = true
      then n' / d' + 1 else n' / d') = 2 ^ 53
  · rw [if_pos h]
    have : ((if (decide (2 * (n' % d') > d') || (decide (2 * (n' % d') == d') && n' / d' % 2 == 1)) = true
      then n' / d' + 1 else n' / d') == 2 ^ 53) = true := by simpa using h
    simp only [this, if_true]
  · rw [if_neg h]
    have : ((if (decide (2 * (n' % d') > d') || (decide (2 * (n' % d') == d') && n' / d' % 2 == 1)) = true
      then n' / d' + 1 else n' / d') == 2 ^ 53) = false := by simpa using h
    simp only [this, Bool.false_eq_true, if_false]

/-- `n' = d'·q + r`, and the rounded significand is within half a unit: `|rm·d' − n'| ≤ d'/2`,
ties go to the even neighbour -/
theorem rm_spec (n' d' : Nat) (hd : 0 < d') :
    2 * (rm n' d' * d') ≤ 2 * n' + d' ∧ 2 * n' ≤ 2 * (rm n' d' * d') + d' ∧
    n' / d' ≤ rm n' d' ∧ rm n' d' ≤ n' / d' + 1 ∧
    (2 * (rm n' d' * d') = 2 * n' + d' → rm n' d' % 2 = 0) ∧
    (2 * n' = 2 * (rm n' d' * d') + d' → rm n' d' % 2 = 0) := by
  have h1 := Nat.div_add_mod n' d'
  have h2 := Nat.mod_lt n' hd
  unfold rm upBit
  generalize hq : n' / d' = q at *
  generalize hr : n' % d' = r at *
  have hm : (q + 1) * d' = d' * q + d' := by rw [Nat.add_mul, Nat.one_mul, Nat.mul_comm]
  have hm' : q * d' = d' * q := Nat.mul_comm _ _
  generalize d' * q = t at *
  have e1 : ∀ b : Bool, (if b = true then q + 1 else q) * d' = if b = true then t + d' else t := by
    intro b; cases b
    · simp only [Bool.false_eq_true, if_false, hm']
    · simp only [if_true, hm]
  by_cases c1 : 2 * r > d'
  · have hup : (decide (2 * r > d') || (decide (2 * r == d') && q % 2 == 1)) = true := by
      simp only [c1, decide_true, Bool.true_or]
    rw [e1, hup]
    simp only [if_true]
    omega
  · by_cases c2 : 2 * r = d'
    · by_cases c3 : q % 2 = 1
      · have hup : (decide (2 * r > d') || (decide (2 * r == d') && q % 2 == 1)) = true := by
          have e2 : (2 * r == d') = true := by simpa using c2
          have e3 : (q % 2 == 1) = true := by simpa using c3
          simp only [e2, e3, decide_true, Bool.and_self, Bool.or_true]
        rw [e1, hup]
        simp only [if_true]
        omega
      · have hup : (decide (2 * r > d') || (decide (2 * r == d') && q % 2 == 1)) = false := by
          have e3 : (q % 2 == 1) = false := by simpa using c3
          simp only [c1, e3, decide_false, Bool.false_or, Bool.and_false]
        rw [e1, hup]
        simp only [Bool.false_eq_true, if_false]
        omega
    · have hup : (decide (2 * r > d') || (decide (2 * r == d') && q % 2 == 1)) = false := by
        have e2 : (2 * r == d') = false := by simpa using c2
        simp only [c1, e2, decide_false, Bool.false_or, Bool.false_and, Bool.false_eq_true]
      rw [e1, hup]
      simp only [Bool.false_eq_true, if_false]
      omega

/-- numerator and denominator of `num/den / 2^e` -/
def sN (num : Nat) (e : Int) : Nat := if e ≥ 0 then num else num * 2 ^ (-e).toNat
def sD (den : Nat) (e : Int) : Nat := if e ≥ 0 then den * 2 ^ e.toNat else den

theorem sD_pos {den : Nat} (hd : 0 < den) (e : Int) : 0 < sD den e := by
  unfold sD; split
  · exact Nat.mul_pos hd (Nat.pow_pos (by decide))
  · exact hd

theorem rq_view (num den : Nat) (e : Int) : rq num den e = sN num e / sD den e := by
  unfold rq sN sD
  simp only [pow2_eq]
  split <;> rfl

theorem roundPos_view (neg : Bool) (num den : Nat) (h0 : num ≠ 0) :
    Dbl.roundPos neg num den = rTail neg (sN num (rE num den)) (sD den (rE num den)) (rE num den) := by
  rw [roundPos_eq]
  have : (num == 0) = false := by simpa using h0
  rw [this]
  simp only [Bool.false_eq_true, if_false, pow2_eq]
  unfold sN sD
  split <;> rfl

/-- everything `roundPos` does, in one statement: with `e = rE num den`, `n' / d' = num/den / 2^e`,
`q = ⌊n'/d'⌋ < 2^53` (and `≥ 2^52` unless `e = -1074`), the result is `rm n' d' · 2^e`, renormalised when the
significand reaches `2^53`, and infinite when the exponent exceeds 971 -/
theorem roundPos_cases (neg : Bool) (num den : Nat) (h0 : num ≠ 0) (hd : 0 < den) :
    let e := rE num den
    let n' := sN num e
    let d' := sD den e
    0 < d' ∧ n' / d' < 2 ^ 53 ∧ -1074 ≤ e ∧ (e ≠ -1074 → 2 ^ 52 ≤ n' / d') ∧
    Dbl.roundPos neg num den =
      if rm n' d' = 2 ^ 53 then (if e + 1 > 971 then .inf neg else .fin neg (2 ^ 52) (e + 1))
      else (if e > 971 then .inf neg else .fin neg (rm n' d') e) := by
  intro e n' d'
  obtain ⟨f1, f2, f3⟩ := rE_facts num den h0 hd
  rw [rq_view] at f1 f3
  exact ⟨sD_pos hd _, f1, f2, f3, by rw [roundPos_view neg num den h0, rTail_eq]⟩

/-- the overflow threshold `2^1024 − 2^970`: the midpoint between the largest double and `2^1024` -/
def ovf : Nat := (2 ^ 54 - 1) * 2 ^ 970

theorem isInf_ite (c : Prop) [Decidable c] (a b : Dbl) :
    (if c then a else b).isInf = if c then a.isInf else b.isInf := by split <;> rfl

set_option exponentiation.threshold 1100 in
/-- OVERFLOW: `roundPos` returns an infinity iff `num/den ≥ 2^1024 − 2^970` -/
theorem roundPos_isInf_iff (neg : Bool) (num den : Nat) (h0 : num ≠ 0) (hd : 0 < den) :
    (Dbl.roundPos neg num den).isInf = true ↔ ovf * den ≤ num := by
  obtain ⟨hd', hq, he, hq52, hres⟩ := roundPos_cases neg num den h0 hd
  obtain ⟨s1, s2, s3, s4, s5, s6⟩ := rm_spec (sN num (rE num den)) (sD den (rE num den)) hd'
  rw [hres]
  generalize rE num den = e at *
  have hlt : sN num e < 2 ^ 53 * sD den e := (Nat.div_lt_iff_lt_mul hd').mp hq
  generalize hn' : sN num e = n' at *
  generalize hd'' : sD den e = d' at *
  generalize hM : rm n' d' = M at *
  by_cases c1 : e ≥ 972
  · -- always infinite
    have : (if M = 2 ^ 53 then (if e + 1 > 971 then Dbl.inf neg else .fin neg (2 ^ 52) (e + 1))
        else (if e > 971 then Dbl.inf neg else .fin neg M e)).isInf = true := by
      rw [if_pos (by omega : e + 1 > 971), if_pos (by omega : e > 971)]; split <;> rfl
    rw [this]
    refine ⟨fun _ => ?_, fun _ => rfl⟩
    have h52 := hq52 (by omega)
    have hle : 2 ^ 52 * d' ≤ n' := (Nat.le_div_iff_mul_le hd').mp h52
    unfold sN at hn'
    unfold sD at hd''
    rw [if_pos (by omega)] at hn' hd''
    subst hn' hd''
    have hp : 2 ^ 972 ≤ 2 ^ e.toNat := Nat.pow_le_pow_right (by decide) (by omega)
    have : den * 2 ^ 972 ≤ den * 2 ^ e.toNat := Nat.mul_le_mul_left _ hp
    generalize den * 2 ^ e.toNat = t at *
    unfold ovf
    omega
  · by_cases c2 : e = 971
    · subst c2
      have hn : n' = num := by rw [← hn']; unfold sN; rfl
      have hD : d' = den * 2 ^ 971 := by rw [← hd'']; unfold sD; rfl
      subst hn hD
      unfold ovf
      by_cases cM : M = 2 ^ 53
      · rw [if_pos cM]
        subst cM
        refine ⟨fun _ => ?_, fun _ => rfl⟩
        omega
      · rw [if_neg cM]
        refine ⟨fun h => (by cases h), fun h => ?_⟩
        exfalso
        by_cases cM' : M = 2 ^ 53 - 1
        · subst cM'
          have := s6 (by omega)
          omega
        · have hM2 : M ≤ 2 ^ 53 - 2 := by omega
          have : M * (den * 2 ^ 971) ≤ (2 ^ 53 - 2) * (den * 2 ^ 971) := Nat.mul_le_mul_right _ hM2
          generalize M * (den * 2 ^ 971) = X at *
          omega
    · -- finite
      have he' : e ≤ 970 := by omega
      have : (if M = 2 ^ 53 then (if e + 1 > 971 then Dbl.inf neg else .fin neg (2 ^ 52) (e + 1))
          else (if e > 971 then Dbl.inf neg else .fin neg M e)).isInf = false := by
        rw [if_neg (by omega : ¬ e + 1 > 971), if_neg (by omega : ¬ e > 971)]; split <;> rfl
      rw [this]
      refine ⟨fun h => (by cases h), fun h => ?_⟩
      exfalso
      unfold ovf at h
      unfold sN at hn'
      unfold sD at hd''
      by_cases c3 : e ≥ 0
      · rw [if_pos c3] at hn' hd''
        subst hn' hd''
        have hp : 2 ^ e.toNat ≤ 2 ^ 970 := Nat.pow_le_pow_right (by decide) (by omega)
        have : den * 2 ^ e.toNat ≤ den * 2 ^ 970 := Nat.mul_le_mul_left _ hp
        generalize den * 2 ^ e.toNat = t at *
        omega
      · rw [if_neg c3] at hn' hd''
        subst hn' hd''
        have hp : 0 < 2 ^ (-e).toNat := Nat.pow_pos (by decide)
        have : num * 1 ≤ num * 2 ^ (-e).toNat := Nat.mul_le_mul_left _ hp
        generalize num * 2 ^ (-e).toNat = t at *
        omega

/-- the sign is kept: the result is `inf neg` or `fin neg _ _` -/
theorem roundPos_shape (neg : Bool) (num den : Nat) :
    Dbl.roundPos neg num den = .inf neg ∨ ∃ m e, Dbl.roundPos neg num den = .fin neg m e := by
  by_cases h0 : num = 0
  · subst h0; exact Or.inr ⟨0, -1074, by unfold Dbl.roundPos; rfl⟩
  · rw [roundPos_view neg num den h0, rTail_eq]
    split
    · split
      · exact Or.inl rfl
      · exact Or.inr ⟨_, _, rfl⟩
    · split
      · exact Or.inl rfl
      · exact Or.inr ⟨_, _, rfl⟩

set_option exponentiation.threshold 1100 in
/-- UNDERFLOW: `roundPos` returns a zero iff `num/den ≤ 2^-1075` (half the smallest subnormal; the tie goes to the
even neighbour 0) -/
theorem roundPos_isZero_iff (neg : Bool) (num den : Nat) (h0 : num ≠ 0) (hd : 0 < den) :
    (Dbl.roundPos neg num den).isZero = true ↔ num * 2 ^ 1075 ≤ den := by
  obtain ⟨hd', hq, he, hq52, hres⟩ := roundPos_cases neg num den h0 hd
  obtain ⟨s1, s2, s3, s4, s5, s6⟩ := rm_spec (sN num (rE num den)) (sD den (rE num den)) hd'
  rw [hres]
  generalize rE num den = e at *
  generalize hn' : sN num e = n' at *
  generalize hd'' : sD den e = d' at *
  generalize hM : rm n' d' = M at *
  have hnpos : 0 < num := Nat.pos_of_ne_zero h0
  constructor
  · intro hz
    have hM0 : M = 0 := by
      by_cases cM : M = 2 ^ 53
      · rw [if_pos cM] at hz
        split at hz <;> cases hz
      · rw [if_neg cM] at hz
        split at hz
        · cases hz
        · cases M with
          | zero => rfl
          | succ k => cases hz
    subst hM0
    have he1 : e = -1074 := by
      by_cases c : e = -1074
      · exact c
      · have := hq52 c; omega
    subst he1
    have hn : n' = num * 2 ^ 1074 := by rw [← hn']; unfold sN; rfl
    have hD : d' = den := by rw [← hd'']; unfold sD; rfl
    subst hn hD
    omega
  · intro hle
    have he1 : e = -1074 := by
      by_cases c : e = -1074
      · exact c
      · exfalso
        have h52 := hq52 c
        have hle' : 2 ^ 52 * d' ≤ n' := (Nat.le_div_iff_mul_le hd').mp h52
        unfold sN at hn'
        unfold sD at hd''
        by_cases c3 : e ≥ 0
        · rw [if_pos c3] at hn' hd''
          subst hn' hd''
          have hp : 0 < 2 ^ e.toNat := Nat.pow_pos (by decide)
          have : den * 1 ≤ den * 2 ^ e.toNat := Nat.mul_le_mul_left _ hp
          generalize den * 2 ^ e.toNat = t at *
          omega
        · rw [if_neg c3] at hn' hd''
          subst hn' hd''
          have hp : 2 ^ (-e).toNat ≤ 2 ^ 1073 := Nat.pow_le_pow_right (by decide) (by omega)
          have : num * 2 ^ (-e).toNat ≤ num * 2 ^ 1073 := Nat.mul_le_mul_left _ hp
          generalize num * 2 ^ (-e).toNat = t at *
          omega
    subst he1
    have hn : n' = num * 2 ^ 1074 := by rw [← hn']; unfold sN; rfl
    have hD : d' = den := by rw [← hd'']; unfold sD; rfl
    subst hn hD
    have hM0 : M = 0 := by
      cases M with
      | zero => rfl
      | succ k =>
        exfalso
        cases k with
        | zero =>
          have := s5 (by omega)
          omega
        | succ k' =>
          have : 2 * d' ≤ (k' + 1 + 1) * d' := Nat.mul_le_mul_right _ (by omega)
          generalize (k' + 1 + 1) * d' = X at *
          omega
    subst hM0
    rw [if_neg (by decide), if_neg (by decide)]
    rfl

/-! ### the result depends on `num/den` only -/

theorem rq_anti (num den : Nat) {e1 e2 : Int} (h : e1 ≤ e2) : rq num den e2 ≤ rq num den e1 := by
  have hK1 : e1 ≤ (e2.toNat : Int) := by omega
  have hK2 : e2 ≤ (e2.toNat : Int) := by omega
  rw [rq_eq num den e1 _ hK1, rq_eq num den e2 _ hK2]
  apply Nat.div_le_div_right
  apply Nat.mul_le_mul_left
  apply Nat.pow_le_pow_right (by decide)
  omega

theorem rq_double (num den : Nat) (e : Int) : 2 * rq num den e ≤ rq num den (e - 1) := by
  have hK1 : e - 1 ≤ (e.toNat : Int) := by omega
  have hK2 : e ≤ (e.toNat : Int) := by omega
  rw [rq_eq num den (e - 1) _ hK1, rq_eq num den e _ hK2]
  have : ((e.toNat : Int) - (e - 1)).toNat = ((e.toNat : Int) - e).toNat + 1 := by omega
  rw [this, Nat.pow_succ, ← Nat.mul_assoc]
  generalize num * 2 ^ ((e.toNat : Int) - e).toNat = a
  generalize den * 2 ^ e.toNat = b
  by_cases hb : b = 0
  · subst hb; simp
  · rw [Nat.le_div_iff_mul_le (Nat.pos_of_ne_zero hb)]
    have := Nat.div_mul_le_self a b
    rw [Nat.mul_assoc, Nat.mul_comm a 2]
    exact Nat.mul_le_mul_left 2 this

/-- the exponent with `2^52 ≤ ⌊num/den / 2^e⌋ < 2^53` is unique -/
theorem window_unique (num den : Nat) {e1 e2 : Int}
    (h1 : 2 ^ 52 ≤ rq num den e1) (h1' : rq num den e1 < 2 ^ 53)
    (h2 : 2 ^ 52 ≤ rq num den e2) (h2' : rq num den e2 < 2 ^ 53) : e1 = e2 := by
  have key : ∀ a b : Int, a < b → 2 ^ 52 ≤ rq num den b → rq num den a < 2 ^ 53 → False := by
    intro a b hab hb ha
    have s1 := rq_anti num den (show a ≤ b - 1 by omega)
    have s2 := rq_double num den b
    omega
  rcases Int.lt_trichotomy e1 e2 with h | h | h
  · exact (key _ _ h h2 h1').elim
  · exact h
  · exact (key _ _ h h1 h2').elim

theorem rq_scale (k num den : Nat) (hk : 0 < k) (e : Int) : rq (k * num) (k * den) e = rq num den e := by
  unfold rq
  split
  · rw [Nat.mul_assoc]; exact Nat.mul_div_mul_left _ _ hk
  · rw [Nat.mul_assoc]; exact Nat.mul_div_mul_left _ _ hk

theorem rE_scale (k num den : Nat) (hk : 0 < k) (h0 : num ≠ 0) (hd : 0 < den) :
    rE (k * num) (k * den) = rE num den := by
  have hk0 : k * num ≠ 0 := Nat.mul_ne_zero (by omega) h0
  have hkd : 0 < k * den := Nat.mul_pos hk hd
  obtain ⟨a1, a2, _⟩ := rE1_facts (k * num) (k * den) hk0 hkd
  obtain ⟨b1, b2, _⟩ := rE1_facts num den h0 hd
  rw [rq_scale k num den hk] at a1 a2
  have := window_unique num den a1 a2 b1 b2
  unfold rE
  rw [this]

theorem rm_scale (k n' d' : Nat) (hk : 0 < k) : rm (k * n') (k * d') = rm n' d' := by
  unfold rm upBit
  rw [Nat.mul_div_mul_left _ _ hk, Nat.mul_mod_mul_left]
  have e1 : (2 * (k * (n' % d')) > k * d') ↔ (2 * (n' % d') > d') := by
    rw [← Nat.mul_assoc, Nat.mul_comm 2 k, Nat.mul_assoc]
    exact Nat.mul_lt_mul_left hk
  have e2 : (2 * (k * (n' % d')) == k * d') = (2 * (n' % d') == d') := by
    rw [← Nat.mul_assoc, Nat.mul_comm 2 k, Nat.mul_assoc]
    by_cases h : 2 * (n' % d') = d'
    · rw [h]; simp
    · have h' : ¬ k * (2 * (n' % d')) = k * d' := fun hh => h (Nat.eq_of_mul_eq_mul_left hk hh)
      have a1 : (k * (2 * (n' % d')) == k * d') = false := by simpa using h'
      have a2 : (2 * (n' % d') == d') = false := by simpa using h
      rw [a1, a2]
  simp only [e1, e2]

theorem sN_scale (k num : Nat) (e : Int) : sN (k * num) e = k * sN num e := by
  unfold sN; split
  · rfl
  · rw [Nat.mul_assoc]

theorem sD_scale (k den : Nat) (e : Int) : sD (k * den) e = k * sD den e := by
  unfold sD; split
  · rw [Nat.mul_assoc]
  · rfl

/-- SCALE INVARIANCE: `roundPos` is a function of the rational `num/den` -/
theorem roundPos_scale (neg : Bool) (k num den : Nat) (hk : 0 < k) (hd : 0 < den) :
    Dbl.roundPos neg (k * num) (k * den) = Dbl.roundPos neg num den := by
  by_cases h0 : num = 0
  · subst h0; rw [Nat.mul_zero]; unfold Dbl.roundPos; rfl
  · have hk0 : k * num ≠ 0 := Nat.mul_ne_zero (by omega) h0
    rw [roundPos_view neg _ _ hk0, roundPos_view neg _ _ h0, rE_scale k num den hk h0 hd, rTail_eq, rTail_eq,
      sN_scale, sD_scale, rm_scale _ _ _ hk]

/-! ### `ofDecimal`: the two clamps are shortcuts, not a change of value -/

/-- number of decimal digits -/
theorem toString_length_bounds (M : Nat) (hM : M ≠ 0) :
    10 ^ ((toString M).length - 1) ≤ M ∧ M < 10 ^ (toString M).length ∧ 1 ≤ (toString M).length := by
  rw [Nat.toString_eq_ofList_toDigits, String.length_ofList]
  induction M using Nat.strongRecOn with
  | _ M ih =>
    rw [Nat.toDigits_eq_if (by decide)]
    split
    · rename_i h
      simp only [List.length_cons, List.length_nil]
      omega
    · rename_i h
      have h10 : M / 10 ≠ 0 := by omega
      obtain ⟨a, b, c⟩ := ih (M / 10) (by omega) h10
      rw [List.length_append, List.length_cons, List.length_nil]
      generalize (Nat.toDigits 10 (M / 10)).length = n at *
      have e1 : n + (0 + 1) - 1 = (n - 1) + 1 := by omega
      rw [e1, Nat.pow_succ, Nat.pow_succ]
      omega

set_option exponentiation.threshold 2000 in
/-- `ofDecimal neg M x` is the rounding of the exact rational `M · 10^x`, whatever `M ≠ 0` and `x` are: the two
early exits (`x + #digits > 400`, `< -400`) return what the rounding would have returned -/
theorem ofDecimal_eq_roundPos (neg : Bool) (M : Nat) (x : Int) (hM : M ≠ 0) :
    Dbl.ofDecimal neg M x = Dbl.roundPos neg (M * 10 ^ x.toNat) (10 ^ (-x).toNat) := by
  obtain ⟨b1, b2, b3⟩ := toString_length_bounds M hM
  have hnum : M * 10 ^ x.toNat ≠ 0 := Nat.mul_ne_zero hM (Nat.ne_of_gt (Nat.pow_pos (by decide)))
  have hden : 0 < 10 ^ (-x).toNat := Nat.pow_pos (by decide)
  unfold Dbl.ofDecimal
  have : (M == 0) = false := by simpa using hM
  rw [this]
  simp only [Bool.false_eq_true, if_false]
  generalize (toString M).length = nd at *
  split
  · -- overflow shortcut
    rename_i hov
    have hinf : (Dbl.roundPos neg (M * 10 ^ x.toNat) (10 ^ (-x).toNat)).isInf = true := by
      rw [roundPos_isInf_iff neg _ _ hnum hden]
      have hovf : ovf ≤ 10 ^ 400 := by unfold ovf; decide +kernel
      by_cases hx : x ≥ 0
      · have e0 : (-x).toNat = 0 := by omega
        rw [e0, Nat.pow_zero, Nat.mul_one]
        have h1 : 10 ^ (nd - 1) * 10 ^ x.toNat ≤ M * 10 ^ x.toNat := Nat.mul_le_mul_right _ b1
        rw [← Nat.pow_add] at h1
        have h2 : 10 ^ 400 ≤ 10 ^ (nd - 1 + x.toNat) := Nat.pow_le_pow_right (by decide) (by omega)
        omega
      · have e0 : x.toNat = 0 := by omega
        rw [e0, Nat.pow_zero, Nat.mul_one]
        have h2 : 10 ^ (400 + (-x).toNat) ≤ 10 ^ (nd - 1) := Nat.pow_le_pow_right (by decide) (by omega)
        rw [Nat.pow_add] at h2
        have h3 : ovf * 10 ^ (-x).toNat ≤ 10 ^ 400 * 10 ^ (-x).toNat := Nat.mul_le_mul_right _ hovf
        omega
    rcases roundPos_shape neg (M * 10 ^ x.toNat) (10 ^ (-x).toNat) with h | ⟨m, e, h⟩
    · exact h.symm
    · rw [h] at hinf; cases hinf
  · split
    · -- underflow shortcut
      rename_i hov hun
      have hz : (Dbl.roundPos neg (M * 10 ^ x.toNat) (10 ^ (-x).toNat)).isZero = true := by
        rw [roundPos_isZero_iff neg _ _ hnum hden]
        have e0 : x.toNat = 0 := by omega
        rw [e0, Nat.pow_zero, Nat.mul_one]
        have h1 : M * 2 ^ 1075 ≤ 10 ^ nd * 2 ^ 1075 := Nat.mul_le_mul_right _ (Nat.le_of_lt b2)
        have h2 : 10 ^ nd * 2 ^ 1075 ≤ 10 ^ nd * 10 ^ 400 := Nat.mul_le_mul_left _ (by decide +kernel)
        rw [← Nat.pow_add] at h2
        have h3 : 10 ^ (nd + 400) ≤ 10 ^ (-x).toNat := Nat.pow_le_pow_right (by decide) (by omega)
        exact Nat.le_trans h1 (Nat.le_trans h2 h3)
      rcases roundPos_shape neg (M * 10 ^ x.toNat) (10 ^ (-x).toNat) with h | ⟨m, e, h⟩
      · rw [h] at hz; cases hz
      · rw [h] at hz ⊢
        cases m with
        | succ k => cases hz
        | zero =>
          -- a zero produced by `roundPos` has the canonical exponent
          have hc := roundPos_canon neg (M * 10 ^ x.toNat) (10 ^ (-x).toNat) hden
          rw [h] at hc
          rcases hc with ⟨_, he⟩ | ⟨h52, _⟩
          · rw [he]
          · exact absurd h52 (by decide)
    · split
      · rename_i hx
        have e0 : (-x).toNat = 0 := by omega
        rw [e0, Nat.pow_zero]
      · rename_i hx
        have e0 : x.toNat = 0 := by omega
        rw [e0, Nat.pow_zero, Nat.mul_one]

/-! ### rationals -/

/-- round-to-nearest-even of `|q|`, with the sign bit `neg` -/
def roundAbs (neg : Bool) (q : Rat) : Dbl := Dbl.roundPos neg q.num.natAbs q.den

theorem roundAbs_mkRat (neg : Bool) (n : Int) (d : Nat) (hd : 0 < d) :
    roundAbs neg (mkRat n d) = Dbl.roundPos neg n.natAbs d := by
  unfold roundAbs
  rw [Rat.num_mkRat, Rat.den_mkRat, if_neg (by omega), if_neg (by omega)]
  have hg : 0 < d.gcd n.natAbs := Nat.gcd_pos_of_pos_left _ hd
  have h1 : d.gcd n.natAbs ∣ d := Nat.gcd_dvd_left _ _
  have h2 : d.gcd n.natAbs ∣ n.natAbs := Nat.gcd_dvd_right _ _
  have h3 : ((d.gcd n.natAbs : Nat) : Int) ∣ n := Int.ofNat_dvd_left.mpr h2
  rw [Int.natAbs_ediv_of_dvd h3, Int.natAbs_natCast]
  generalize d.gcd n.natAbs = g at *
  obtain ⟨a, ha⟩ := h2
  obtain ⟨b, hb⟩ := h1
  rw [ha, hb, Nat.mul_div_cancel_left _ hg, Nat.mul_div_cancel_left _ hg]
  have hb0 : 0 < b := by
    rcases Nat.eq_zero_or_pos b with h | h
    · subst h; omega
    · exact h
  exact (roundPos_scale neg g a b hg hb0).symm

theorem ofDecimal_zero_mant (neg : Bool) (x : Int) : Dbl.ofDecimal neg 0 x = .fin neg 0 (-1074) := by
  unfold Dbl.ofDecimal; rfl

theorem roundPos_zero_num (neg : Bool) (den : Nat) : Dbl.roundPos neg 0 den = .fin neg 0 (-1074) := by
  unfold Dbl.roundPos; rfl

theorem ofDecimal_inf_of (neg : Bool) (M : Nat) (x : Int) (hM : M ≠ 0) (hx : 400 ≤ x) :
    Dbl.ofDecimal neg M x = .inf neg := by
  obtain ⟨_, _, b3⟩ := toString_length_bounds M hM
  unfold Dbl.ofDecimal
  have : (M == 0) = false := by simpa using hM
  rw [this]
  simp only [Bool.false_eq_true, if_false]
  rw [if_pos (by omega)]

theorem ofDecimal_zero_of (neg : Bool) (M : Nat) (x : Int) (K : Nat) (hM : M ≠ 0) (hK : M < 10 ^ K)
    (hx : x + K < -400) : Dbl.ofDecimal neg M x = .fin neg 0 (-1074) := by
  obtain ⟨b1, _, b3⟩ := toString_length_bounds M hM
  have hnd : (toString M).length ≤ K := by
    by_cases h : (toString M).length ≤ K
    · exact h
    · exfalso
      have : 10 ^ K ≤ 10 ^ ((toString M).length - 1) := Nat.pow_le_pow_right (by decide) (by omega)
      omega
  unfold Dbl.ofDecimal
  have : (M == 0) = false := by simpa using hM
  rw [this]
  simp only [Bool.false_eq_true, if_false]
  rw [if_neg (by omega), if_pos (by omega)]

theorem clampE_eq_of_le {ds : Bytes} (h : decNat ds ≤ 1000000) : clampE ds = (decNat ds : Int) := by
  unfold clampE
  split
  · omega
  · rfl

theorem clampE_of_ge {ds : Bytes} (h : 1000000 ≤ decNat ds) : clampE ds = 1000000 := by
  unfold clampE
  rw [if_pos h]

/-- the model's exponent is the written exponent when that is at most a million in magnitude -/
theorem expoC_eq_expo (L : DecLit) (h : L.expo.natAbs ≤ 1000000) : expoC L = L.expo := by
  unfold expoC DecLit.expo at *
  cases he : L.exp with
  | none => rfl
  | some x =>
    rw [he] at h
    simp only at h ⊢
    have : decNat x.digits ≤ 1000000 := by
      split at h <;> omega
    rw [clampE_eq_of_le this]

/-- the literal's exponent does not hit the model's saturation at `10^6` in a way that matters: either it is at
most `10^6` in magnitude, or the mantissa has fewer than a million digits -/
def NoClamp (L : DecLit) : Prop := L.expo.natAbs ≤ 1000000 ∨ L.ip.length + L.fp.length ≤ 999000

theorem rat_eq (L : DecLit) : L.rat = mkRat ((if L.sign.neg then -1 else 1) * (L.ratNum : Int)) L.ratDen := rfl

theorem ratDen_pos (L : DecLit) : 0 < L.ratDen := Nat.pow_pos (by decide)

theorem roundAbs_rat (L : DecLit) : roundAbs L.sign.neg L.rat = Dbl.roundPos L.sign.neg L.ratNum L.ratDen := by
  rw [rat_eq, roundAbs_mkRat _ _ _ (ratDen_pos L)]
  congr 1
  cases L.sign.neg <;> simp

/-- VALUE (partial: `NoClamp`): the double the model computes for a literal of the grammar is the rational it
denotes, rounded to nearest-even (overflowing to `±inf`), with the sign of the literal -/
theorem modelVal_eq_roundAbs (L : DecLit) (hv : L.Valid) (hc : NoClamp L) :
    modelVal L = roundAbs L.sign.neg L.rat := by
  rw [roundAbs_rat]
  unfold modelVal DecLit.ratNum DecLit.ratDen DecLit.exp10
  by_cases hM : L.mant = 0
  · rw [hM, ofDecimal_zero_mant, Nat.zero_mul, roundPos_zero_num]
  · by_cases h6 : L.expo.natAbs ≤ 1000000
    · rw [expoC_eq_expo L h6, ofDecimal_eq_roundPos _ _ _ hM]
    · have hlen : L.ip.length + L.fp.length ≤ 999000 := by
        rcases hc with h | h
        · exact absurd h h6
        · exact h
      have hlt : L.mant < 10 ^ (L.ip.length + L.fp.length) := by
        have := decNat_lt (L.ip ++ L.fp) (hv.1.append hv.2.1)
        rwa [List.length_append] at this
      rw [← ofDecimal_eq_roundPos _ _ _ hM]
      -- the written exponent exceeds a million: both values are the same infinity / the same zero
      unfold expoC DecLit.expo at *
      cases he : L.exp with
      | none => rw [he] at h6
      | some x =>
        rw [he] at h6
        simp only at h6 ⊢
        by_cases hn : x.sign.neg = true
        · rw [if_pos hn] at h6 ⊢
          rw [if_pos hn]
          have hge : 1000000 ≤ decNat x.digits := by omega
          rw [clampE_of_ge hge]
          rw [ofDecimal_zero_of _ _ _ _ hM hlt (by omega), ofDecimal_zero_of _ _ _ _ hM hlt (by omega)]
        · rw [if_neg hn] at h6 ⊢
          rw [if_neg hn]
          have hge : 1000000 ≤ decNat x.digits := by omega
          rw [clampE_of_ge hge]
          rw [ofDecimal_inf_of _ _ _ hM (by omega), ofDecimal_inf_of _ _ _ hM (by omega)]

/-! ### exactness -/

theorem rm_den_one (n' : Nat) : rm n' 1 = n' := by
  unfold rm upBit
  simp [Nat.mod_one]

/-- EXACTNESS: a positive integer below `2^53` is represented exactly (`scaled` is the value times `2^1074`) -/
theorem roundPos_exact_int (neg : Bool) (n : Nat) (h0 : n ≠ 0) (hn : n < 2 ^ 53) :
    ∃ m e, Dbl.roundPos neg n 1 = .fin neg m e ∧ -1074 ≤ e ∧ e ≤ 0 ∧ m = n * 2 ^ (-e).toNat := by
  obtain ⟨hd', hq, he, hq52, hres⟩ := roundPos_cases neg n 1 h0 (by decide)
  generalize rE n 1 = e at *
  have he0 : e ≤ 0 := by
    by_cases c : e ≤ 0
    · exact c
    · exfalso
      have h52 := hq52 (by omega)
      have hle : 2 ^ 52 * sD 1 e ≤ sN n e := (Nat.le_div_iff_mul_le hd').mp h52
      unfold sN sD at hle
      rw [if_pos (by omega), if_pos (by omega)] at hle
      have hp : 2 ^ 1 ≤ 2 ^ e.toNat := Nat.pow_le_pow_right (by decide) (by omega)
      generalize 2 ^ e.toNat = P at *
      omega
  have hD : sD 1 e = 1 := by
    unfold sD
    split
    · have : e.toNat = 0 := by omega
      rw [this]
    · rfl
  have hN : sN n e = n * 2 ^ (-e).toNat := by
    unfold sN
    split
    · have : (-e).toNat = 0 := by omega
      rw [this, Nat.pow_zero, Nat.mul_one]
    · rfl
  rw [hD, rm_den_one] at hres
  rw [hD, Nat.div_one] at hq hq52
  rw [hres, hN, if_neg (by omega), if_neg (by omega)]
  exact ⟨_, _, rfl, he, he0, rfl⟩

/-- … so its exact value (`Dbl.scaled` = value · 2^1074) is the integer itself -/
theorem roundPos_int_scaled (neg : Bool) (n : Nat) (h0 : n ≠ 0) (hn : n < 2 ^ 53) :
    (Dbl.roundPos neg n 1).scaled = (if neg then -1 else 1) * ((n * 2 ^ 1074 : Nat) : Int) := by
  obtain ⟨m, e, h, he1, he2, hm⟩ := roundPos_exact_int neg n h0 hn
  rw [h]
  show (if neg = true then -1 else 1) * ((m * Dbl.pow2 (e + 1074).toNat : Nat) : Int) = _
  rw [pow2_eq, hm, Nat.mul_assoc, ← Nat.pow_add]
  have : (-e).toNat + (e + 1074).toNat = 1074 := by omega
  rw [this]

/-! ### `ofDecimal`: sign, overflow, underflow -/

theorem ofDecimal_shape (neg : Bool) (M : Nat) (x : Int) :
    Dbl.ofDecimal neg M x = .inf neg ∨ ∃ m e, Dbl.ofDecimal neg M x = .fin neg m e := by
  by_cases hM : M = 0
  · subst hM; exact Or.inr ⟨0, -1074, ofDecimal_zero_mant neg x⟩
  · rw [ofDecimal_eq_roundPos neg M x hM]; exact roundPos_shape _ _ _

set_option exponentiation.threshold 1100 in
theorem ofDecimal_isInf_iff (neg : Bool) (M : Nat) (x : Int) :
    (Dbl.ofDecimal neg M x).isInf = true ↔ ovf * 10 ^ (-x).toNat ≤ M * 10 ^ x.toNat := by
  by_cases hM : M = 0
  · subst hM
    rw [ofDecimal_zero_mant, Nat.zero_mul]
    have : 0 < ovf * 10 ^ (-x).toNat := Nat.mul_pos (Nat.mul_pos (by decide) (Nat.pow_pos (by decide))) (Nat.pow_pos (by decide))
    constructor
    · intro h; cases h
    · intro h; omega
  · rw [ofDecimal_eq_roundPos neg M x hM]
    exact roundPos_isInf_iff neg _ _ (Nat.mul_ne_zero hM (Nat.ne_of_gt (Nat.pow_pos (by decide))))
      (Nat.pow_pos (by decide))

theorem ofDecimal_isZero_iff (neg : Bool) (M : Nat) (x : Int) :
    (Dbl.ofDecimal neg M x).isZero = true ↔ M = 0 ∨ M * 10 ^ x.toNat * 2 ^ 1075 ≤ 10 ^ (-x).toNat := by
  by_cases hM : M = 0
  · subst hM
    rw [ofDecimal_zero_mant]
    exact ⟨fun _ => Or.inl rfl, fun _ => rfl⟩
  · rw [ofDecimal_eq_roundPos neg M x hM,
      roundPos_isZero_iff neg _ _ (Nat.mul_ne_zero hM (Nat.ne_of_gt (Nat.pow_pos (by decide))))
        (Nat.pow_pos (by decide))]
    exact ⟨fun h => Or.inr h, fun h => h.resolve_left hM⟩

/-- a zero returned by `ofDecimal` is the canonical signed zero -/
theorem ofDecimal_zero_canon {neg : Bool} {M : Nat} {x : Int} (h : (Dbl.ofDecimal neg M x).isZero = true) :
    Dbl.ofDecimal neg M x = .fin neg 0 (-1074) := by
  rcases ofDecimal_shape neg M x with h1 | ⟨m, e, h1⟩
  · rw [h1] at h; cases h
  · have hc := ofDecimal_canon neg M x
    rw [h1] at h hc ⊢
    cases m with
    | succ k => cases h
    | zero =>
      rcases hc with ⟨_, he⟩ | ⟨h52, _⟩
      · rw [he]
      · exact absurd h52 (by decide)


theorem rm_exact (q d : Nat) (hd : 0 < d) : rm (q * d) d = q := by
  unfold rm upBit
  rw [Nat.mul_mod_left, Nat.mul_div_cancel _ hd]
  have : ¬ (2 * 0 > d) := by omega
  have h2 : (2 * 0 == d) = false := by
    have : ¬ (2 * 0 = d) := by omega
    simpa using this
  simp only [this, h2, decide_false, Bool.false_and, Bool.or_false, Bool.false_eq_true, if_false]

set_option exponentiation.threshold 1100 in
/-- `rq` of an exactly representable value at its own exponent -/
theorem rq_repr (m : Nat) (e : Int) (he : -1074 ≤ e) :
    rq (m * 2 ^ (e + 1074).toNat) (2 ^ 1074) e = m := by
  have hK : e ≤ ((e + 1074).toNat : Int) := by omega
  rw [rq_eq _ _ e _ hK]
  have : (((e + 1074).toNat : Int) - e).toNat = 1074 := by omega
  rw [this, Nat.mul_assoc, Nat.mul_comm (2 ^ (e + 1074).toNat), Nat.mul_comm (2 ^ 1074)]
  exact Nat.mul_div_cancel _ (Nat.mul_pos (Nat.pow_pos (by decide)) (Nat.pow_pos (by decide)))

set_option exponentiation.threshold 1100 in
/-- EXACTNESS: rounding the exact value of a canonical double returns that double -/
theorem roundPos_exact_canon (neg : Bool) (m : Nat) (e : Int) (hc : Canon (.fin neg m e)) (hm : m ≠ 0) :
    Dbl.roundPos neg (m * 2 ^ (e + 1074).toNat) (2 ^ 1074) = .fin neg m e := by
  have he : -1074 ≤ e ∧ e ≤ 971 ∧ m < 2 ^ 53 := by
    rcases hc with ⟨h1, h2⟩ | ⟨h1, h2, h3, h4⟩
    · exact ⟨by omega, by omega, by omega⟩
    · exact ⟨h3, h4, h2⟩
  have hnum : m * 2 ^ (e + 1074).toNat ≠ 0 := Nat.mul_ne_zero hm (Nat.ne_of_gt (Nat.pow_pos (by decide)))
  have hden : 0 < 2 ^ 1074 := Nat.pow_pos (by decide)
  obtain ⟨w1, w2, _⟩ := rE1_facts _ _ hnum hden
  have hrq := rq_repr m e he.1
  have hE : rE (m * 2 ^ (e + 1074).toNat) (2 ^ 1074) = e := by
    unfold rE
    rcases hc with ⟨h1, h2⟩ | ⟨h1, h2, h3, h4⟩
    · -- subnormal: the window exponent lies below -1074
      subst h2
      have : rE1 (m * 2 ^ ((-1074 : Int) + 1074).toNat) (2 ^ 1074) < -1074 := by
        by_cases c : rE1 (m * 2 ^ ((-1074 : Int) + 1074).toNat) (2 ^ 1074) < -1074
        · exact c
        · exfalso
          have := rq_anti (m * 2 ^ ((-1074 : Int) + 1074).toNat) (2 ^ 1074)
            (show (-1074 : Int) ≤ rE1 (m * 2 ^ ((-1074 : Int) + 1074).toNat) (2 ^ 1074) by omega)
          omega
      rw [if_pos this]
    · have := window_unique _ _ w1 w2 (by rw [hrq]; exact h1) (by rw [hrq]; exact h2)
      rw [this, if_neg (by omega)]
  rw [roundPos_view neg _ _ hnum, hE, rTail_eq]
  have hq : sN (m * 2 ^ (e + 1074).toNat) e = m * sD (2 ^ 1074) e := by
    unfold sN sD
    split
    · rename_i h
      have : (e + 1074).toNat = 1074 + e.toNat := by omega
      rw [this, Nat.pow_add]
    · rename_i h
      have : (e + 1074).toNat + (-e).toNat = 1074 := by omega
      rw [Nat.mul_assoc, ← Nat.pow_add, this]
  rw [hq, rm_exact _ _ (sD_pos hden e), if_neg (by omega), if_neg (by omega)]


/-- equal fractions round equally -/
theorem roundPos_congr (neg : Bool) {a b c d : Nat} (hb : 0 < b) (hd : 0 < d) (h : a * d = c * b) :
    Dbl.roundPos neg a b = Dbl.roundPos neg c d := by
  rw [← roundPos_scale neg d a b hd hb, ← roundPos_scale neg b c d hb hd, Nat.mul_comm d a, h, Nat.mul_comm c b,
    Nat.mul_comm d b]

set_option exponentiation.threshold 1100 in
/-- HALF-ULP: a finite result `m · 2^e'` of `roundPos neg num den` differs from `num/den` by at most half a unit in the
last place of the result, `2^e' / 2` (all quantities scaled by `2^1074 · den`) -/
theorem roundPos_half_ulp (neg : Bool) (num den : Nat) (h0 : num ≠ 0) (hd : 0 < den) (m : Nat) (e' : Int)
    (hr : Dbl.roundPos neg num den = .fin neg m e') :
    -1074 ≤ e' ∧
    2 * (m * 2 ^ (e' + 1074).toNat * den) ≤ 2 * (num * 2 ^ 1074) + 2 ^ (e' + 1074).toNat * den ∧
    2 * (num * 2 ^ 1074) ≤ 2 * (m * 2 ^ (e' + 1074).toNat * den) + 2 ^ (e' + 1074).toNat * den := by
  obtain ⟨hd', hq, he, hq52, hres⟩ := roundPos_cases neg num den h0 hd
  obtain ⟨s1, s2, s3, s4, _, _⟩ := rm_spec (sN num (rE num den)) (sD den (rE num den)) hd'
  rw [hres] at hr
  generalize rE num den = e at *
  generalize hM : rm (sN num e) (sD den e) = M at *
  -- the value is `M · 2^e` on the grid `2^e`, whatever the renormalisation did
  have hval : -1074 ≤ e' ∧ e ≤ e' ∧ m * 2 ^ (e' + 1074).toNat = M * 2 ^ (e + 1074).toNat := by
    split at hr
    · rename_i hM53
      split at hr
      · cases hr
      · injection hr with _ h2 h3
        subst h2 h3
        refine ⟨by omega, by omega, ?_⟩
        have : (e + 1 + 1074).toNat = (e + 1074).toNat + 1 := by omega
        have hp : 2 ^ ((e + 1074).toNat + 1) = 2 * 2 ^ (e + 1074).toNat := by rw [Nat.pow_succ, Nat.mul_comm]
        rw [this, hM53, hp]
        generalize 2 ^ (e + 1074).toNat = P
        omega
    · split at hr
      · cases hr
      · injection hr with _ h2 h3
        subst h2 h3
        exact ⟨he, by omega, rfl⟩
  obtain ⟨he', hee, hv⟩ := hval
  refine ⟨he', ?_⟩
  rw [hv]
  have hpow : 2 ^ (e + 1074).toNat ≤ 2 ^ (e' + 1074).toNat := Nat.pow_le_pow_right (by decide) (by omega)
  have hU : 2 ^ (e + 1074).toNat * den ≤ 2 ^ (e' + 1074).toNat * den := Nat.mul_le_mul_right _ hpow
  suffices h : 2 * (M * 2 ^ (e + 1074).toNat * den) ≤ 2 * (num * 2 ^ 1074) + 2 ^ (e + 1074).toNat * den ∧
      2 * (num * 2 ^ 1074) ≤ 2 * (M * 2 ^ (e + 1074).toNat * den) + 2 ^ (e + 1074).toNat * den by
    omega
  unfold sN sD at s1 s2
  by_cases hge : e ≥ 0
  · rw [if_pos hge, if_pos hge] at s1 s2
    -- multiply `2|M·den·2^e − num| ≤ den·2^e` by `2^1074`
    have e1 : (e + 1074).toNat = e.toNat + 1074 := by omega
    rw [e1, Nat.pow_add]
    have a1 := Nat.mul_le_mul_right (2 ^ 1074) s1
    have a2 := Nat.mul_le_mul_right (2 ^ 1074) s2
    have r1 : 2 * (M * (den * 2 ^ e.toNat)) * 2 ^ 1074 = 2 * (M * (2 ^ e.toNat * 2 ^ 1074) * den) := by
      simp only [Nat.mul_assoc, Nat.mul_comm, Nat.mul_left_comm]
    have r2 : (2 * num + den * 2 ^ e.toNat) * 2 ^ 1074 = 2 * (num * 2 ^ 1074) + 2 ^ e.toNat * 2 ^ 1074 * den := by
      rw [Nat.add_mul]; simp only [Nat.mul_assoc, Nat.mul_comm, Nat.mul_left_comm]
    have r3 : (2 * (M * (den * 2 ^ e.toNat)) + den * 2 ^ e.toNat) * 2 ^ 1074 =
        2 * (M * (2 ^ e.toNat * 2 ^ 1074) * den) + 2 ^ e.toNat * 2 ^ 1074 * den := by
      rw [Nat.add_mul]; simp only [Nat.mul_assoc, Nat.mul_comm, Nat.mul_left_comm]
    have r4 : 2 * num * 2 ^ 1074 = 2 * (num * 2 ^ 1074) := Nat.mul_assoc _ _ _
    rw [r1, r2] at a1
    rw [r3, r4] at a2
    exact ⟨a1, a2⟩
  · rw [if_neg hge, if_neg hge] at s1 s2
    -- multiply `2|M·den − num·2^k| ≤ den` by `2^(1074−k)`
    have e1 : (-e).toNat + (e + 1074).toNat = 1074 := by omega
    have a1 := Nat.mul_le_mul_right (2 ^ (e + 1074).toNat) s1
    have a2 := Nat.mul_le_mul_right (2 ^ (e + 1074).toNat) s2
    have r0 : num * 2 ^ (-e).toNat * 2 ^ (e + 1074).toNat = num * 2 ^ 1074 := by
      rw [Nat.mul_assoc, ← Nat.pow_add, e1]
    have r1 : 2 * (M * den) * 2 ^ (e + 1074).toNat = 2 * (M * 2 ^ (e + 1074).toNat * den) := by
      simp only [Nat.mul_assoc, Nat.mul_comm, Nat.mul_left_comm]
    have r2 : (2 * (num * 2 ^ (-e).toNat) + den) * 2 ^ (e + 1074).toNat =
        2 * (num * 2 ^ 1074) + 2 ^ (e + 1074).toNat * den := by
      rw [Nat.add_mul, Nat.mul_assoc 2, r0, Nat.mul_comm den]
    have r3 : (2 * (M * den) + den) * 2 ^ (e + 1074).toNat =
        2 * (M * 2 ^ (e + 1074).toNat * den) + 2 ^ (e + 1074).toNat * den := by
      rw [Nat.add_mul, r1, Nat.mul_comm den]
    have r4 : 2 * (num * 2 ^ (-e).toNat) * 2 ^ (e + 1074).toNat = 2 * (num * 2 ^ 1074) := by
      rw [Nat.mul_assoc 2, r0]
    rw [r1, r2] at a1
    rw [r3, r4] at a2
    exact ⟨a1, a2⟩


/-! ### monotonicity -/

theorem div_le_div_of_cross {a b c d : Nat} (hb : 0 < b) (hd : 0 < d) (h : a * d ≤ c * b) : a / b ≤ c / d := by
  rw [Nat.le_div_iff_mul_le hd]
  -- (a/b)·d·b ≤ a·d ≤ c·b
  have h1 : a / b * b ≤ a := Nat.div_mul_le_self a b
  have h2 : a / b * d * b ≤ c * b := by
    calc a / b * d * b = a / b * b * d := by rw [Nat.mul_assoc, Nat.mul_comm d b, ← Nat.mul_assoc]
      _ ≤ a * d := Nat.mul_le_mul_right _ h1
      _ ≤ c * b := h
  exact Nat.le_of_mul_le_mul_right h2 hb

theorem rq_mono {a b c d : Nat} (hb : 0 < b) (hd : 0 < d) (h : a * d ≤ c * b) (e : Int) :
    rq a b e ≤ rq c d e := by
  have hK : e ≤ (e.toNat : Int) := by omega
  rw [rq_eq a b e _ hK, rq_eq c d e _ hK]
  apply div_le_div_of_cross (Nat.mul_pos hb (Nat.pow_pos (by decide))) (Nat.mul_pos hd (Nat.pow_pos (by decide)))
  generalize 2 ^ ((e.toNat : Int) - e).toNat = P
  generalize 2 ^ e.toNat = Q
  calc a * P * (d * Q) = a * d * (P * Q) := by
        simp only [Nat.mul_comm, Nat.mul_left_comm]
    _ ≤ c * b * (P * Q) := Nat.mul_le_mul_right _ h
    _ = c * P * (b * Q) := by simp only [Nat.mul_comm, Nat.mul_left_comm]

/-- a larger fraction has a larger (or equal) grid exponent -/
theorem rE_mono {a b c d : Nat} (ha : a ≠ 0) (hb : 0 < b) (hd : 0 < d) (h : a * d ≤ c * b) :
    rE a b ≤ rE c d := by
  have hc : c ≠ 0 := by
    rintro rfl
    rw [Nat.zero_mul] at h
    have : 0 < a * d := Nat.mul_pos (Nat.pos_of_ne_zero ha) hd
    omega
  obtain ⟨f1, f2, f3⟩ := rE_facts a b ha hb
  obtain ⟨g1, g2, g3⟩ := rE_facts c d hc hd
  by_cases hle : rE a b ≤ rE c d
  · exact hle
  · exfalso
    have h52 := f3 (by omega)
    have m1 := rq_mono hb hd h (rE a b)
    have m2 := rq_double c d (rE c d + 1)
    have m3 := rq_anti c d (show rE c d + 1 ≤ rE a b by omega)
    have : rE c d + 1 - 1 = rE c d := by omega
    rw [this] at m2
    omega

theorem sN_sD_cross {a b c d : Nat} (h : a * d ≤ c * b) (e : Int) : sN a e * sD d e ≤ sN c e * sD b e := by
  unfold sN sD
  split
  · calc a * (d * 2 ^ e.toNat) = a * d * 2 ^ e.toNat := by rw [Nat.mul_assoc]
      _ ≤ c * b * 2 ^ e.toNat := Nat.mul_le_mul_right _ h
      _ = c * (b * 2 ^ e.toNat) := by rw [Nat.mul_assoc]
  · calc a * 2 ^ (-e).toNat * d = a * d * 2 ^ (-e).toNat := by
          simp only [Nat.mul_assoc, Nat.mul_comm, Nat.mul_left_comm]
      _ ≤ c * b * 2 ^ (-e).toNat := Nat.mul_le_mul_right _ h
      _ = c * 2 ^ (-e).toNat * b := by simp only [Nat.mul_assoc, Nat.mul_comm]

/-- round-half-even is monotone -/
theorem rm_mono {n1 d1 n2 d2 : Nat} (h1 : 0 < d1) (h2 : 0 < d2) (h : n1 * d2 ≤ n2 * d1) : rm n1 d1 ≤ rm n2 d2 := by
  obtain ⟨a1, _, _, _, a5, _⟩ := rm_spec n1 d1 h1
  obtain ⟨_, b2, _, _, _, b6⟩ := rm_spec n2 d2 h2
  generalize rm n1 d1 = M1 at *
  generalize rm n2 d2 = M2 at *
  by_cases hle : M1 ≤ M2
  · exact hle
  · exfalso
    -- 2·M1·d1·d2 ≤ 2·n1·d2 + d1·d2 ≤ 2·n2·d1 + d1·d2 ≤ 2·M2·d2·d1 + 2·d1·d2
    have c1 := Nat.mul_le_mul_right d2 a1
    have c2 := Nat.mul_le_mul_right d1 b2
    have hD : 0 < d1 * d2 := Nat.mul_pos h1 h2
    have e1 : 2 * (M1 * d1) * d2 = 2 * (M1 * (d1 * d2)) := by simp only [Nat.mul_assoc]
    have e2 : (2 * n1 + d1) * d2 = 2 * (n1 * d2) + d1 * d2 := by rw [Nat.add_mul, Nat.mul_assoc]
    have e3 : 2 * n2 * d1 = 2 * (n2 * d1) := Nat.mul_assoc _ _ _
    have e4 : (2 * (M2 * d2) + d2) * d1 = 2 * (M2 * (d1 * d2)) + d1 * d2 := by
      rw [Nat.add_mul]; simp only [Nat.mul_assoc, Nat.mul_comm, Nat.mul_left_comm]
    rw [e1, e2] at c1
    rw [e3, e4] at c2
    have hM : (M2 + 1) * (d1 * d2) ≤ M1 * (d1 * d2) := Nat.mul_le_mul_right _ (by omega)
    rw [Nat.add_mul, Nat.one_mul] at hM
    -- all inequalities are equalities, so both are ties, so both are even, but they differ by one
    have hM1 : M1 = M2 + 1 := by
      by_cases hh : M1 = M2 + 1
      · exact hh
      · exfalso
        have : (M2 + 2) * (d1 * d2) ≤ M1 * (d1 * d2) := Nat.mul_le_mul_right _ (by omega)
        rw [Nat.add_mul] at this
        generalize M1 * (d1 * d2) = X at *
        generalize M2 * (d1 * d2) = Y at *
        generalize n1 * d2 = U at *
        generalize n2 * d1 = V at *
        generalize d1 * d2 = D at *
        omega
    subst hM1
    have hX : (M2 + 1) * (d1 * d2) = M2 * (d1 * d2) + d1 * d2 := by rw [Nat.add_mul, Nat.one_mul]
    have E : 2 * ((M2 + 1) * (d1 * d2)) = 2 * (n1 * d2) + d1 * d2 ∧
        2 * (n2 * d1) = 2 * (M2 * (d1 * d2)) + d1 * d2 := by
      rw [hX] at c1 ⊢
      generalize M2 * (d1 * d2) = Y at *
      generalize n1 * d2 = U at *
      generalize n2 * d1 = V at *
      generalize d1 * d2 = D at *
      omega
    have t1 : 2 * ((M2 + 1) * d1) = 2 * n1 + d1 := by
      apply Nat.eq_of_mul_eq_mul_right h2
      rw [e1, e2]; exact E.1
    have t2 : 2 * n2 = 2 * (M2 * d2) + d2 := by
      apply Nat.eq_of_mul_eq_mul_right h1
      rw [e3, e4]; exact E.2
    have p1 := a5 t1
    have p2 := b6 t2
    omega

/-- the value of the result in units of `2^-1074` (before the overflow test) -/
def rV (a b : Nat) : Nat :=
  if a = 0 then 0 else rm (sN a (rE a b)) (sD b (rE a b)) * 2 ^ (rE a b + 1074).toNat

/-- `x` is the double of sign `neg` and magnitude `V · 2^-1074`, or the infinity when `V ≥ 2^1024 · 2^1074` -/
def Desc (neg : Bool) (x : Dbl) (V : Nat) : Prop :=
  (x = .inf neg ∧ 2 ^ 2098 ≤ V) ∨
  (∃ m' e', x = .fin neg m' e' ∧ -1074 ≤ e' ∧ m' * 2 ^ (e' + 1074).toNat = V ∧ V < 2 ^ 2098)

set_option exponentiation.threshold 2200 in
theorem roundPos_desc (neg : Bool) (a b : Nat) (hb : 0 < b) : Desc neg (Dbl.roundPos neg a b) (rV a b) := by
  unfold rV
  by_cases h0 : a = 0
  · subst h0
    rw [roundPos_zero_num, if_pos rfl]
    exact Or.inr ⟨0, -1074, rfl, by omega, by simp, by decide⟩
  · rw [if_neg h0]
    obtain ⟨hd', hq, he, hq52, hres⟩ := roundPos_cases neg a b h0 hb
    obtain ⟨_, _, s3, s4, _, _⟩ := rm_spec (sN a (rE a b)) (sD b (rE a b)) hd'
    rw [hres]
    generalize rE a b = e at *
    generalize rm (sN a e) (sD b e) = M at *
    have hM : M ≤ 2 ^ 53 := by omega
    have h52 : e ≠ -1074 → 2 ^ 52 ≤ M := fun h => by have := hq52 h; omega
    by_cases c1 : M = 2 ^ 53
    · rw [if_pos c1]
      subst c1
      by_cases c2 : e + 1 > 971
      · rw [if_pos c2]
        left
        refine ⟨rfl, ?_⟩
        have hp : 2 ^ 2045 ≤ 2 ^ (e + 1074).toNat := Nat.pow_le_pow_right (by decide) (by omega)
        have := Nat.mul_le_mul_left (2 ^ 53) hp
        rw [show (2 : Nat) ^ 53 * 2 ^ 2045 = 2 ^ 2098 from by rw [← Nat.pow_add]] at this
        exact this
      · rw [if_neg c2]
        right
        refine ⟨2 ^ 52, e + 1, rfl, by omega, ?_, ?_⟩
        · have : (e + 1 + 1074).toNat = (e + 1074).toNat + 1 := by omega
          have hp' : 2 ^ ((e + 1074).toNat + 1) = 2 * 2 ^ (e + 1074).toNat := by rw [Nat.pow_succ, Nat.mul_comm]
          rw [this, hp']
          generalize 2 ^ (e + 1074).toNat = P
          omega
        · have hp : 2 ^ (e + 1074).toNat ≤ 2 ^ 2044 := Nat.pow_le_pow_right (by decide) (by omega)
          have := Nat.mul_le_mul_left (2 ^ 53) hp
          have e1 : (2 : Nat) ^ 53 * 2 ^ 2044 < 2 ^ 2098 := by decide +kernel
          omega
    · rw [if_neg c1]
      by_cases c2 : e > 971
      · rw [if_pos c2]
        left
        refine ⟨rfl, ?_⟩
        have hp : 2 ^ 2046 ≤ 2 ^ (e + 1074).toNat := Nat.pow_le_pow_right (by decide) (by omega)
        have h1 := Nat.mul_le_mul_left (2 ^ 52) hp
        have h2 := Nat.mul_le_mul_right (2 ^ (e + 1074).toNat) (h52 (by omega))
        rw [show (2 : Nat) ^ 52 * 2 ^ 2046 = 2 ^ 2098 from by rw [← Nat.pow_add]] at h1
        exact Nat.le_trans h1 h2
      · rw [if_neg c2]
        right
        refine ⟨M, e, rfl, he, rfl, ?_⟩
        have hp : 2 ^ (e + 1074).toNat ≤ 2 ^ 2045 := Nat.pow_le_pow_right (by decide) (by omega)
        have h1 : M * 2 ^ (e + 1074).toNat ≤ (2 ^ 53 - 1) * 2 ^ (e + 1074).toNat :=
          Nat.mul_le_mul_right _ (by omega)
        have h2 := Nat.mul_le_mul_left (2 ^ 53 - 1) hp
        have e1 : ((2 : Nat) ^ 53 - 1) * 2 ^ 2045 < 2 ^ 2098 := by decide +kernel
        omega

set_option exponentiation.threshold 2200 in
theorem rV_mono {a b c d : Nat} (hb : 0 < b) (hd : 0 < d) (h : a * d ≤ c * b) : rV a b ≤ rV c d := by
  unfold rV
  by_cases ha : a = 0
  · rw [if_pos ha]; exact Nat.zero_le _
  · have hc : c ≠ 0 := by
      rintro rfl
      rw [Nat.zero_mul] at h
      have : 0 < a * d := Nat.mul_pos (Nat.pos_of_ne_zero ha) hd
      omega
    rw [if_neg ha, if_neg hc]
    have hE := rE_mono ha hb hd h
    obtain ⟨hd1, hq1, he1, _, _⟩ := roundPos_cases false a b ha hb
    obtain ⟨hd2, hq2, he2, hq52, _⟩ := roundPos_cases false c d hc hd
    obtain ⟨_, _, _, u4, _, _⟩ := rm_spec (sN a (rE a b)) (sD b (rE a b)) hd1
    obtain ⟨_, _, v3, _, _, _⟩ := rm_spec (sN c (rE c d)) (sD d (rE c d)) hd2
    by_cases heq : rE a b = rE c d
    · rw [heq] at hd1 ⊢
      apply Nat.mul_le_mul_right
      exact rm_mono hd1 hd2 (sN_sD_cross h (rE c d))
    · have hlt : rE a b + 1 ≤ rE c d := by omega
      have h52 := hq52 (by omega)
      generalize rE a b = e1 at *
      generalize rE c d = e2 at *
      generalize rm (sN a e1) (sD b e1) = M1 at *
      generalize rm (sN c e2) (sD d e2) = M2 at *
      -- M1·2^e1 ≤ 2^53·2^e1 = 2^52·2^(e1+1) ≤ 2^52·2^e2 ≤ M2·2^e2
      have hp : 2 ^ ((e1 + 1074).toNat + 1) ≤ 2 ^ (e2 + 1074).toNat := Nat.pow_le_pow_right (by decide) (by omega)
      rw [Nat.pow_succ] at hp
      have k1 : M1 * 2 ^ (e1 + 1074).toNat ≤ 2 ^ 53 * 2 ^ (e1 + 1074).toNat := Nat.mul_le_mul_right _ (by omega)
      have k2 : 2 ^ 52 * 2 ^ (e2 + 1074).toNat ≤ M2 * 2 ^ (e2 + 1074).toNat := Nat.mul_le_mul_right _ (by omega)
      have k3 := Nat.mul_le_mul_left (2 ^ 52) hp
      generalize M1 * 2 ^ (e1 + 1074).toNat = A at *
      generalize M2 * 2 ^ (e2 + 1074).toNat = B at *
      generalize 2 ^ (e1 + 1074).toNat = P at *
      generalize 2 ^ (e2 + 1074).toNat = Q at *
      omega

theorem scaled_fin (neg : Bool) (m : Nat) (e : Int) :
    (Dbl.fin neg m e).scaled = (if neg then -1 else 1) * ((m * 2 ^ (e + 1074).toNat : Nat) : Int) := by
  show (if neg = true then -1 else 1) * ((m * Dbl.pow2 (e + 1074).toNat : Nat) : Int) = _
  rw [pow2_eq]

/-- order of two described doubles of the same sign -/
theorem le_of_desc (neg : Bool) {x y : Dbl} {V W : Nat} (hx : Desc neg x V) (hy : Desc neg y W) (h : V ≤ W) :
    (if neg then Dbl.le y x else Dbl.le x y) = true := by
  rcases hx with ⟨rfl, hv⟩ | ⟨m1, e1, rfl, _, rfl, hv⟩ <;> rcases hy with ⟨rfl, hw⟩ | ⟨m2, e2, rfl, _, rfl, hw⟩
  · cases neg <;> rfl
  · omega
  · cases neg <;> rfl
  · have s1 := scaled_fin neg m1 e1
    have s2 := scaled_fin neg m2 e2
    cases neg with
    | false =>
      show (decide ((Dbl.fin false m1 e1).scaled < (Dbl.fin false m2 e2).scaled) ||
        decide ((Dbl.fin false m1 e1).scaled = (Dbl.fin false m2 e2).scaled)) = true
      rw [s1, s2]
      simp only [Bool.false_eq_true, if_false, Int.one_mul, Bool.or_eq_true, decide_eq_true_eq]
      omega
    | true =>
      show (decide ((Dbl.fin true m2 e2).scaled < (Dbl.fin true m1 e1).scaled) ||
        decide ((Dbl.fin true m2 e2).scaled = (Dbl.fin true m1 e1).scaled)) = true
      rw [s1, s2]
      simp only [if_true, Bool.or_eq_true, decide_eq_true_eq]
      omega

/-- MONOTONICITY: rounding preserves the order of the fractions (reverses it under a negative sign) -/
theorem roundPos_mono (neg : Bool) {a b c d : Nat} (hb : 0 < b) (hd : 0 < d) (h : a * d ≤ c * b) :
    (if neg then Dbl.le (Dbl.roundPos neg c d) (Dbl.roundPos neg a b)
      else Dbl.le (Dbl.roundPos neg a b) (Dbl.roundPos neg c d)) = true :=
  le_of_desc neg (roundPos_desc neg a b hb) (roundPos_desc neg c d hd) (rV_mono hb hd h)


set_option exponentiation.threshold 1100 in
/-- TIES TO EVEN: if `num/den` lies exactly half a unit in the last place away from the finite result `m · 2^e'`, then
`m` is even -/
theorem roundPos_tie_even (neg : Bool) (num den : Nat) (h0 : num ≠ 0) (hd : 0 < den) (m : Nat) (e' : Int)
    (hr : Dbl.roundPos neg num den = .fin neg m e')
    (htie : 2 * (m * 2 ^ (e' + 1074).toNat * den) = 2 * (num * 2 ^ 1074) + 2 ^ (e' + 1074).toNat * den ∨
      2 * (num * 2 ^ 1074) = 2 * (m * 2 ^ (e' + 1074).toNat * den) + 2 ^ (e' + 1074).toNat * den) :
    m % 2 = 0 := by
  obtain ⟨hd', hq, he, hq52, hres⟩ := roundPos_cases neg num den h0 hd
  obtain ⟨_, _, _, _, s5, s6⟩ := rm_spec (sN num (rE num den)) (sD den (rE num den)) hd'
  rw [hres] at hr
  generalize rE num den = e at *
  generalize hM : rm (sN num e) (sD den e) = M at *
  split at hr
  · split at hr
    · cases hr
    · injection hr with _ h2 _
      rw [← h2]
  · split at hr
    · cases hr
    · injection hr with _ h2 h3
      subst h2 h3
      unfold sN sD at s5 s6
      by_cases hge : e ≥ 0
      · rw [if_pos hge, if_pos hge] at s5 s6
        have e1 : (e + 1074).toNat = e.toNat + 1074 := by omega
        rw [e1, Nat.pow_add] at htie
        have r1 : 2 * (M * (2 ^ e.toNat * 2 ^ 1074) * den) = 2 * (M * (den * 2 ^ e.toNat)) * 2 ^ 1074 := by
          simp only [Nat.mul_assoc, Nat.mul_comm, Nat.mul_left_comm]
        have r2 : 2 * (num * 2 ^ 1074) + 2 ^ e.toNat * 2 ^ 1074 * den = (2 * num + den * 2 ^ e.toNat) * 2 ^ 1074 := by
          rw [Nat.add_mul]; simp only [Nat.mul_assoc, Nat.mul_comm, Nat.mul_left_comm]
        have r3 : 2 * (M * (2 ^ e.toNat * 2 ^ 1074) * den) + 2 ^ e.toNat * 2 ^ 1074 * den =
            (2 * (M * (den * 2 ^ e.toNat)) + den * 2 ^ e.toNat) * 2 ^ 1074 := by
          rw [Nat.add_mul]; simp only [Nat.mul_assoc, Nat.mul_comm, Nat.mul_left_comm]
        have r4 : 2 * (num * 2 ^ 1074) = 2 * num * 2 ^ 1074 := (Nat.mul_assoc _ _ _).symm
        have hp : 0 < 2 ^ 1074 := Nat.pow_pos (by decide)
        rcases htie with ht | ht
        · rw [r1, r2] at ht
          exact s5 (Nat.eq_of_mul_eq_mul_right hp ht)
        · rw [r3, r4] at ht
          exact s6 (Nat.eq_of_mul_eq_mul_right hp ht)
      · rw [if_neg hge, if_neg hge] at s5 s6
        have e1 : (-e).toNat + (e + 1074).toNat = 1074 := by omega
        have r0 : num * 2 ^ 1074 = num * 2 ^ (-e).toNat * 2 ^ (e + 1074).toNat := by
          rw [Nat.mul_assoc, ← Nat.pow_add, e1]
        have r1 : 2 * (M * 2 ^ (e + 1074).toNat * den) = 2 * (M * den) * 2 ^ (e + 1074).toNat := by
          simp only [Nat.mul_assoc, Nat.mul_comm, Nat.mul_left_comm]
        have r2 : 2 * (num * 2 ^ 1074) + 2 ^ (e + 1074).toNat * den =
            (2 * (num * 2 ^ (-e).toNat) + den) * 2 ^ (e + 1074).toNat := by
          rw [Nat.add_mul, Nat.mul_assoc 2, ← r0, Nat.mul_comm den]
        have r3 : 2 * (M * 2 ^ (e + 1074).toNat * den) + 2 ^ (e + 1074).toNat * den =
            (2 * (M * den) + den) * 2 ^ (e + 1074).toNat := by
          rw [Nat.add_mul, r1, Nat.mul_comm den]
        have r4 : 2 * (num * 2 ^ 1074) = 2 * (num * 2 ^ (-e).toNat) * 2 ^ (e + 1074).toNat := by
          rw [Nat.mul_assoc 2, ← r0]
        have hp : 0 < 2 ^ (e + 1074).toNat := Nat.pow_pos (by decide)
        rcases htie with ht | ht
        · rw [r1, r2] at ht
          exact s5 (Nat.eq_of_mul_eq_mul_right hp ht)
        · rw [r3, r4] at ht
          exact s6 (Nat.eq_of_mul_eq_mul_right hp ht)

end FR.C18f
