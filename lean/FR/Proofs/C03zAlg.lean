import FR.Proofs.C03zRun
import FR.Proofs.Decimal
/-!
# Sorted-set commands: list-level algebra — helper lemmas for `FR.Props.C03z`

* `limitSpec` (LIMIT offset count), `rangeWindow` (Redis index normalisation) and the Python slices of the model;
* score / lex ranges as filters of the sorted list;
* ZREM as a filter; ZADD as a fold of `ZSet.add` with its decision table; the option and pair parsers;
* the sorted index is determined by the member ↦ score map; ZRANK as `idxOf`.
-/
namespace FR.ZCmd
set_option linter.unusedSimpArgs false
set_option linter.unusedVariables false
open FR Db FR.HashSet FR.Cmd

/-! ## LIMIT -/

/-- `_limit_items`, declaratively: a negative offset yields nothing, a negative count everything from the offset -/
def limitSpec {α} (l : List α) (off cnt : Int) : List α :=
  if off < 0 then [] else if cnt < 0 then l.drop off.toNat else (l.drop off.toNat).take cnt.toNat

theorem limitItems_eq {α} (l : List α) (off cnt : Int) : limitItems l off cnt = limitSpec l off cnt := by
  induction l generalizing off cnt with
  | nil => simp [limitItems, limitSpec]
  | cons x xs ih =>
    unfold limitItems
    by_cases h0 : off = 0
    · subst h0
      simp only [bne_self_eq_false, Bool.false_eq_true, if_false]
      by_cases hc : cnt = 0
      · subst hc; simp [limitSpec]
      · have : (cnt == 0) = false := by simpa using hc
        rw [this]; simp only [Bool.false_eq_true, if_false]
        rw [ih]
        unfold limitSpec
        simp only [Int.lt_irrefl, if_false, Int.toNat_zero, List.drop_zero]
        by_cases hn : cnt < 0
        · rw [if_pos hn, if_pos (by omega)]
        · rw [if_neg hn, if_neg (by omega)]
          have : cnt.toNat = (cnt - 1).toNat + 1 := by omega
          rw [this, List.take_succ_cons]
    · have : (off != 0) = true := by simpa using h0
      rw [this]; simp only [if_true]
      rw [ih]
      unfold limitSpec
      by_cases hn : off < 0
      · rw [if_pos hn, if_pos (by omega)]
      · rw [if_neg hn, if_neg (by omega)]
        have : off.toNat = (off - 1).toNat + 1 := by omega
        rw [this, List.drop_succ_cons]


/-! ## index windows -/

def normIdx (i : Int) (len : Nat) : Int := if i < 0 then i + len else i

def rangeWindow {α} (l : List α) (start stop : Int) : List α :=
  (l.drop (max 0 (normIdx start l.length)).toNat).take
    (min (normIdx stop l.length) ((l.length : Int) - 1) + 1 - max 0 (normIdx start l.length)).toNat

theorem drop_take_congr {α} (l : List α) (s k s' k' : Nat)
    (h : (s = s' ∧ k = k') ∨ ((l.length ≤ s ∨ k = 0) ∧ (l.length ≤ s' ∨ k' = 0))) :
    (l.drop s).take k = (l.drop s').take k' := by
  rcases h with ⟨rfl, rfl⟩ | ⟨h1, h2⟩
  · rfl
  · have e1 : (l.drop s).take k = [] := by
      rcases h1 with h | h
      · rw [List.drop_eq_nil_of_le h]; simp
      · subst h; simp
    have e2 : (l.drop s').take k' = [] := by
      rcases h2 with h | h
      · rw [List.drop_eq_nil_of_le h]; simp
      · subst h; simp
    rw [e1, e2]

theorem slice_fixRange {α} (l : List α) (start stop : Int) :
    Py.slice l (fixRange start stop l.length).1 (fixRange start stop l.length).2 = rangeWindow l start stop := by
  unfold Py.slice rangeWindow
  apply drop_take_congr
  generalize l.length = n
  unfold Py.adj fixRange normIdx
  simp only []
  split
  all_goals repeat' split
  all_goals omega

theorem reverse_drop_take {α} (l : List α) (s k : Nat) (h : s + k ≤ l.length) :
    ((l.drop s).take k).reverse = (l.reverse.drop (l.length - s - k)).take k := by
  rw [List.drop_reverse]
  have e1 : l.length - (l.length - s - k) = s + k := by omega
  rw [e1, List.take_reverse]
  congr 1
  rw [List.length_take, Nat.min_eq_left h, List.drop_take]
  have e2 : s + k - k = s := by omega
  have e3 : s + k - s = k := by omega
  rw [e2, e3]

theorem rev_drop_take_congr {α} (l : List α) (s k s' k' : Nat)
    (h : (s + k ≤ l.length ∧ s' = l.length - s - k ∧ k' = k) ∨
      ((l.length ≤ s ∨ k = 0) ∧ (l.length ≤ s' ∨ k' = 0))) :
    ((l.drop s).take k).reverse = (l.reverse.drop s').take k' := by
  rcases h with ⟨h1, hs, hk⟩ | ⟨h1, h2⟩
  · rw [hs, hk]; exact reverse_drop_take l s k h1
  · have e1 : (l.drop s).take k = [] := by
      rcases h1 with h | h
      · rw [List.drop_eq_nil_of_le h]; simp
      · subst h; simp
    have e2 : (l.reverse.drop s').take k' = [] := by
      rcases h2 with h | h
      · rw [List.drop_eq_nil_of_le (by simpa using h)]; simp
      · subst h; simp
    rw [e1, e2]; rfl

theorem slice_fixRange_rev {α} (l : List α) (start stop : Int) :
    (Py.slice l ((l.length : Int) - (fixRange start stop l.length).2)
      ((l.length : Int) - (fixRange start stop l.length).1)).reverse = rangeWindow l.reverse start stop := by
  unfold Py.slice rangeWindow
  apply rev_drop_take_congr
  rw [List.length_reverse]
  generalize l.length = n
  unfold Py.adj fixRange normIdx
  simp only []
  split
  all_goals repeat' split
  all_goals omega

/-! ## score and lex ranges -/

/-- score `s` satisfies the two bounds (`excl = true`: strict) -/
def scoreIn (mn : Dbl) (mne : Bool) (mx : Dbl) (mxe : Bool) (s : Dbl) : Bool :=
  (if mne then Dbl.lt mn s else Dbl.le mn s) && (if mxe then Dbl.lt s mx else Dbl.le s mx)

theorem irange_score_eq_filter {z : ZSet} (hz : z.Inv) {mn mx : Dbl} (mne mxe : Bool)
    (hmn : mn.isNaN = false) (hmx : mx.isNaN = false) :
    z.irange mn (lowerTail mne) mx (upperTail mxe) true true =
      z.byscore.filter (fun p => scoreIn mn mne mx mxe p.1) := by
  rw [ZSet.irange_eq_filter hz]
  apply List.filter_congr
  intro p hp
  have hs : p.1.isNaN = false := hz.2.2.2 _ hp
  unfold scoreIn
  congr 1
  · cases mne
    · simp only [lowerTail, Bool.false_eq_true, if_false]
      rw [ZSet.pairLt_before, Dbl.not_lt hs hmn]
    · simp only [lowerTail, if_true]
      rw [ZSet.pairLt_after, Dbl.not_le hs hmn]
  · cases mxe
    · simp only [upperTail, Bool.false_eq_true, if_false]
      rw [ZSet.after_pairLt, Dbl.not_lt hmx hs]
    · simp only [upperTail, if_true]
      rw [ZSet.before_pairLt, Dbl.not_le hmx hs]

/-- member `m` is at or above the lower lex bound -/
def lexGe (b : LexB) (excl : Bool) (m : Bytes) : Bool :=
  if excl then LexB.lt b (.val m) else !LexB.lt (.val m) b
/-- member `m` is at or below the upper lex bound -/
def lexLe (b : LexB) (excl : Bool) (m : Bytes) : Bool :=
  if excl then LexB.lt (.val m) b else !LexB.lt b (.val m)

/-- every score of an invariant sorted set is `≥` the first one -/
theorem firstScore_le {z : ZSet} (hz : z.Inv) {sc : Dbl} (h : z.firstScore = some sc) :
    sc.isNaN = false ∧ ∀ p ∈ z.byscore, Dbl.eq p.1 sc = true ∨ (Dbl.eq p.1 sc = false ∧ Dbl.lt sc p.1 = true) := by
  unfold ZSet.firstScore at h
  cases hb : z.byscore with
  | nil => rw [hb] at h; cases h
  | cons x xs =>
    rw [hb] at h
    simp only [List.head?_cons, Option.map_some, Option.some.injEq] at h
    subst h
    have hx : x.1.isNaN = false := hz.2.2.2 x (by rw [hb]; simp)
    refine ⟨hx, ?_⟩
    intro p hp
    rcases List.mem_cons.mp hp with e | hp
    · subst e; left; exact Dbl.eq_refl hx
    · have hs := hz.1
      rw [hb, List.pairwise_cons] at hs
      have := hs.1 p hp
      unfold pairLt at this
      by_cases he : Dbl.eq x.1 p.1 = true
      · left; exact Dbl.eq_symm he
      · rw [if_neg he] at this
        right
        refine ⟨?_, this⟩
        rw [Dbl.eq_comm]; simpa using he

theorem irangeLex_eq_filter {z : ZSet} (hz : z.Inv) (mn : LexB) (mne : Bool) (mx : LexB) (mxe : Bool) :
    z.irangeLex mn mx (!mne) (!mxe) =
      match z.firstScore with
      | none => []
      | some sc =>
        (z.byscore.filter (fun p => Dbl.eq p.1 sc && (lexGe mn mne p.2 && lexLe mx mxe p.2))).map Prod.snd := by
  unfold ZSet.irangeLex
  cases hf : z.firstScore with
  | none => rfl
  | some sc =>
    simp only []
    obtain ⟨hsc, hle⟩ := firstScore_le hz hf
    rw [ZSet.irange_eq_filter_gen hz]
    congr 1
    apply List.filter_congr
    intro p hp
    rcases hle p hp with he | ⟨he, hlt⟩
    · have h1 : ∀ b, pairLt p.1 (.val p.2) sc b = LexB.lt (.val p.2) b := by
        intro b; unfold pairLt; rw [if_pos he]
      have h2 : ∀ b, pairLt sc b p.1 (.val p.2) = LexB.lt b (.val p.2) := by
        intro b; unfold pairLt; rw [if_pos (Dbl.eq_symm he)]
      rw [he]
      unfold ZSet.lowP ZSet.hiP lexGe lexLe
      simp only [h1, h2, Bool.true_and]
      cases mne <;> cases mxe <;> simp
    · have h1 : ∀ b, pairLt p.1 (.val p.2) sc b = false := by
        intro b; unfold pairLt; rw [if_neg (by rw [he]; decide)]; exact Dbl.lt_asymm hlt
      have h2 : ∀ b, pairLt sc b p.1 (.val p.2) = true := by
        intro b; unfold pairLt
        rw [if_neg (by rw [Dbl.eq_comm, he]; decide)]; exact hlt
      rw [he]
      unfold ZSet.lowP ZSet.hiP
      simp only [h1, h2, Bool.false_and]
      cases mne <;> cases mxe <;> simp

theorem bisect_le_length (z : ZSet) (s : Dbl) (b : LexB) :
    z.bisectLeft s b ≤ z.byscore.length ∧ z.bisectRight s b ≤ z.byscore.length :=
  ⟨(List.takeWhile_sublist _).length_le, (List.takeWhile_sublist _).length_le⟩

theorem irange_length_gen (z : ZSet) (s1 : Dbl) (b1 : LexB) (s2 : Dbl) (b2 : LexB) (i1 i2 : Bool) :
    (z.irange s1 b1 s2 b2 i1 i2).length =
      (if i2 then z.bisectRight s2 b2 else z.bisectLeft s2 b2) -
      (if i1 then z.bisectLeft s1 b1 else z.bisectRight s1 b1) := by
  unfold ZSet.irange
  simp only [List.length_take, List.length_drop]
  have h1 := bisect_le_length z s2 b2
  cases i1 <;> cases i2 <;> simp <;> omega

/-- ZLEXCOUNT counts exactly the members ZRANGEBYLEX (no LIMIT) returns -/
theorem zlexcount_eq_length (z : ZSet) (mn : LexB) (mne : Bool) (mx : LexB) (mxe : Bool) :
    z.zlexcount mn mne mx mxe = (z.irangeLex mn mx (!mne) (!mxe)).length := by
  unfold ZSet.zlexcount ZSet.irangeLex
  cases z.firstScore with
  | none => rfl
  | some sc =>
    simp only [List.length_map]
    rw [irange_length_gen]
    cases mne <;> cases mxe <;> rfl

/-! ### ZREM -/

theorem discard_bylex (z : ZSet) (m : Bytes) : (z.discard m).bylex = z.bylex.filter (fun p => p.1 != m) := by
  unfold ZSet.discard
  cases hg : z.get m with
  | some _ => rfl
  | none =>
    simp only []
    symm
    rw [List.filter_eq_self]
    intro p hp
    have := ZSet.get_none_iff.mp hg
    simp only [bne_iff_ne, ne_eq]
    intro e
    exact this (List.mem_map.mpr ⟨p, hp, e⟩)

theorem discard_byscore {z : ZSet} (hz : z.Inv) (m : Bytes) :
    (z.discard m).byscore = z.byscore.filter (fun p => p.2 != m) := by
  unfold ZSet.discard
  cases hg : z.get m with
  | some _ => rfl
  | none =>
    simp only []
    symm
    rw [List.filter_eq_self]
    intro p hp
    have := (ZSet.get_none_iff_byscore hz).mp hg p hp
    simpa using this

theorem foldl_discard_bylex (ms : List Bytes) (z : ZSet) :
    (ms.foldl ZSet.discard z).bylex = z.bylex.filter (fun p => !ms.contains p.1) := by
  induction ms generalizing z with
  | nil => symm; simp [List.filter_eq_self]
  | cons x xs ih =>
    rw [List.foldl_cons, ih, discard_bylex, List.filter_filter]
    apply List.filter_congr
    intro p _
    simp only [List.contains_cons, Bool.not_or, bne, Bool.and_comm]

theorem foldl_discard_byscore (ms : List Bytes) {z : ZSet} (hz : z.Inv) :
    (ms.foldl ZSet.discard z).byscore = z.byscore.filter (fun p => !ms.contains p.2) := by
  induction ms generalizing z with
  | nil => symm; simp [List.filter_eq_self]
  | cons x xs ih =>
    rw [List.foldl_cons, ih (ZSet.discard_inv hz), discard_byscore hz, List.filter_filter]
    apply List.filter_congr
    intro p _
    simp only [List.contains_cons, Bool.not_or, bne, Bool.and_comm]

theorem foldl_discard_get (ms : List Bytes) (z : ZSet) (m : Bytes) :
    (ms.foldl ZSet.discard z).get m = if m ∈ ms then none else z.get m := by
  induction ms generalizing z with
  | nil => simp
  | cons x xs ih =>
    rw [List.foldl_cons, ih, ZSet.get_discard]
    by_cases h1 : m ∈ xs
    · simp [h1]
    · by_cases h2 : m = x
      · simp [h2]
      · simp [h1, h2]

/-- the number ZREM replies: the members of the argument list that are present, each counted once -/
theorem foldl_discard_len (ms : List Bytes) (z : ZSet) :
    z.len - (ms.foldl ZSet.discard z).len = (z.bylex.filter (fun p => ms.contains p.1)).length ∧
    (ms.foldl ZSet.discard z).len ≤ z.len := by
  unfold ZSet.len
  rw [foldl_discard_bylex]
  have := length_filter_add (fun p : Bytes × Dbl => ms.contains p.1) z.bylex
  omega

theorem removed_card (ms : List Bytes) {z : ZSet} (hz : z.Inv) :
    CardEq (fun m => m ∈ ms ∧ z.get m ≠ none) (z.len - (ms.foldl ZSet.discard z).len) := by
  rw [(foldl_discard_len ms z).1]
  refine ⟨(z.bylex.filter (fun p => ms.contains p.1)).map Prod.fst, ?_, ?_, by simp⟩
  · exact hz.2.1.sublist (List.filter_sublist.map _)
  · intro x
    simp only [List.mem_map, List.mem_filter, List.contains_iff_mem]
    constructor
    · rintro ⟨p, ⟨hp, hc⟩, rfl⟩
      refine ⟨hc, ?_⟩
      rw [(ZSet.get_iff_mem hz).mpr (show (p.1, p.2) ∈ z.bylex from hp)]
      simp
    · rintro ⟨hx, hg⟩
      cases hgx : z.get x with
      | none => exact absurd hgx hg
      | some s => exact ⟨(x, s), ⟨(ZSet.get_iff_mem hz).mp hgx, hx⟩, rfl⟩

/-! ## ZINCRBY / ZADD -/

/-- the score ZINCRBY computes: the old score plus the increment, or the increment for an absent member -/
def incrScore (z : ZSet) (m : Bytes) (incr : Dbl) : Dbl :=
  match z.get m with
  | some old => Dbl.add old incr
  | none => incr


/-- ZADD decision table: is the pair written, given the NX / XX flags and whether the member is present? -/
def zaddWrites (nx xx present : Bool) : Bool := (!nx || !present) && (!xx || present)

/-- one score/member pair of ZADD -/
def zaddStep (nx xx : Bool) (z : ZSet) (p : Dbl × Bytes) : ZSet :=
  if zaddWrites nx xx (z.contains p.2) then (z.add p.2 p.1).1 else z

/-- the sorted set after ZADD: the accepted pairs are added in argument order -/
def zaddSet (nx xx : Bool) (z : ZSet) (items : List (Dbl × Bytes)) : ZSet := items.foldl (zaddStep nx xx) z

/-- number of pairs whose processing modified the set (what CH reports) -/
def zaddChanged (nx xx : Bool) : ZSet → List (Dbl × Bytes) → Nat
  | _, [] => 0
  | z, p :: ps =>
    (if zaddWrites nx xx (z.contains p.2) && (z.add p.2 p.1).2 then 1 else 0) +
      zaddChanged nx xx (zaddStep nx xx z p) ps

theorem zadd_fold_eq (nx xx : Bool) (items : List (Dbl × Bytes)) (z : ZSet) (n : Nat) :
    items.foldl (fun (st : ZSet × Nat) p =>
        if (!nx || !st.1.contains p.2) && (!xx || st.1.contains p.2) then
          let (z2, ch) := st.1.add p.2 p.1
          (z2, if ch then st.2 + 1 else st.2)
        else st) (z, n) = (zaddSet nx xx z items, n + zaddChanged nx xx z items) := by
  induction items generalizing z n with
  | nil => simp [zaddSet, zaddChanged]
  | cons p ps ih =>
    rw [List.foldl_cons]
    simp only [zaddSet, List.foldl_cons, zaddChanged]
    by_cases hw : zaddWrites nx xx (z.contains p.2) = true
    · have hw' : ((!nx || !z.contains p.2) && (!xx || z.contains p.2)) = true := hw
      simp only [hw', if_true]
      rw [ih]
      simp only [zaddSet, zaddStep, hw, if_true, Bool.true_and]
      congr 1
      cases (z.add p.2 p.1).2 <;> simp <;> omega
    · have hw' : ¬ ((!nx || !z.contains p.2) && (!xx || z.contains p.2)) = true := hw
      simp only [hw', if_false]
      rw [ih]
      simp only [zaddSet, zaddStep, hw, if_false, Bool.false_and]
      congr 1
      simp

theorem zaddStep_inv {nx xx : Bool} {z : ZSet} {p : Dbl × Bytes} (hz : z.Inv) (hp : p.1.isNaN = false) :
    (zaddStep nx xx z p).Inv := by
  unfold zaddStep; split
  · exact ZSet.add_inv hz hp
  · exact hz

theorem zaddSet_inv {nx xx : Bool} {z : ZSet} {items : List (Dbl × Bytes)} (hz : z.Inv)
    (hi : ∀ p ∈ items, p.1.isNaN = false) : (zaddSet nx xx z items).Inv := by
  induction items generalizing z with
  | nil => exact hz
  | cons p ps ih =>
    exact ih (zaddStep_inv hz (hi p (by simp))) (fun q hq => hi q (by simp [hq]))

theorem zaddSet_cons (nx xx : Bool) (z : ZSet) (p : Dbl × Bytes) (ps : List (Dbl × Bytes)) :
    zaddSet nx xx z (p :: ps) = zaddSet nx xx (zaddStep nx xx z p) ps := rfl

theorem zaddSet_append (nx xx : Bool) (z : ZSet) (a b : List (Dbl × Bytes)) :
    zaddSet nx xx z (a ++ b) = zaddSet nx xx (zaddSet nx xx z a) b := by
  simp [zaddSet, List.foldl_append]

/-- nothing reported changed: the set is literally unchanged -/
theorem zaddSet_unchanged {nx xx : Bool} {z : ZSet} {items : List (Dbl × Bytes)}
    (h : zaddChanged nx xx z items = 0) : zaddSet nx xx z items = z := by
  induction items generalizing z with
  | nil => rfl
  | cons p ps ih =>
    rw [zaddSet_cons]
    simp only [zaddChanged] at h
    have h1 : zaddStep nx xx z p = z := by
      unfold zaddStep
      split
      · rename_i hw
        rw [hw] at h
        cases hc : (z.add p.2 p.1).2 with
        | false => exact ZSet.add_unchanged hc
        | true => rw [hc] at h; simp at h
      · rfl
    rw [h1] at h ⊢
    exact ih (by omega)

theorem get_zaddStep_other (nx xx : Bool) (z : ZSet) (p : Dbl × Bytes) {m : Bytes} (h : m ≠ p.2) :
    (zaddStep nx xx z p).get m = z.get m := by
  unfold zaddStep; split
  · exact ZSet.get_add_other z p.1 h
  · rfl

/-- members that do not occur among the pairs keep their score (or stay absent) -/
theorem get_zaddSet_notin (nx xx : Bool) (z : ZSet) (items : List (Dbl × Bytes)) {m : Bytes}
    (h : m ∉ items.map Prod.snd) : (zaddSet nx xx z items).get m = z.get m := by
  induction items generalizing z with
  | nil => rfl
  | cons p ps ih =>
    simp only [List.map_cons, List.mem_cons, not_or] at h
    rw [zaddSet_cons, ih _ h.2, get_zaddStep_other _ _ _ _ h.1]

theorem get_add_eq_none (z : ZSet) (m : Bytes) (s : Dbl) (x : Bytes) :
    (z.add m s).1.get x = none ↔ x ≠ m ∧ z.get x = none := by
  rw [ZSet.get_add]
  by_cases hx : x = m
  · subst hx
    simp only [if_true, ne_eq, not_true_eq_false, false_and, iff_false]
    cases z.get x with
    | none => simp
    | some old => simp only []; split <;> simp
  · simp [hx]

/-- a present member stays present -/
theorem get_zaddStep_isSome (nx xx : Bool) (z : ZSet) (p : Dbl × Bytes) {m : Bytes}
    (h : z.get m ≠ none) : (zaddStep nx xx z p).get m ≠ none := by
  unfold zaddStep; split
  · intro hc; exact h ((get_add_eq_none z p.2 p.1 m).mp hc).2
  · exact h

theorem zaddWrites_plain (present : Bool) : zaddWrites false false present = true := by
  cases present <;> rfl
theorem zaddWrites_nx (present : Bool) : zaddWrites true false present = !present := by
  cases present <;> rfl
theorem zaddWrites_xx (present : Bool) : zaddWrites false true present = present := by
  cases present <;> rfl

theorem contains_eq (z : ZSet) (m : Bytes) : z.contains m = (z.get m).isSome := rfl

/-- NX never touches a member that is present -/
theorem get_zaddSet_nx_present (xx : Bool) (z : ZSet) (items : List (Dbl × Bytes)) {m : Bytes} {old : Dbl}
    (h : z.get m = some old) : (zaddSet true xx z items).get m = some old := by
  induction items generalizing z with
  | nil => exact h
  | cons p ps ih =>
    rw [zaddSet_cons]
    apply ih
    by_cases hm : m = p.2
    · subst hm
      unfold zaddStep
      have : zaddWrites true xx (z.contains p.2) = false := by
        rw [contains_eq, h]; cases xx <;> rfl
      rw [this]; simpa using h
    · rw [get_zaddStep_other _ _ _ _ hm]; exact h

/-- XX never adds a member -/
theorem get_zaddSet_xx_absent (nx : Bool) (z : ZSet) (items : List (Dbl × Bytes)) {m : Bytes}
    (h : z.get m = none) : (zaddSet nx true z items).get m = none := by
  induction items generalizing z with
  | nil => exact h
  | cons p ps ih =>
    rw [zaddSet_cons]
    apply ih
    by_cases hm : m = p.2
    · subst hm
      unfold zaddStep
      have : zaddWrites nx true (z.contains p.2) = false := by
        rw [contains_eq, h]; cases nx <;> rfl
      rw [this]; simpa using h
    · rw [get_zaddStep_other _ _ _ _ hm]; exact h

/-- a pair that is written and is the last one for its member determines the score, up to IEEE equality
(`ZSet.add` keeps an old score that is `==` the new one: `-0.0` does not overwrite `0.0`) -/
theorem get_zaddSet_last (nx xx : Bool) (z : ZSet) (pre post : List (Dbl × Bytes)) (s : Dbl) (m : Bytes)
    (hpost : m ∉ post.map Prod.snd)
    (hw : zaddWrites nx xx ((zaddSet nx xx z pre).contains m) = true) :
    ∃ s', (zaddSet nx xx z (pre ++ (s, m) :: post)).get m = some s' ∧ (s' = s ∨ Dbl.eq s s' = true) := by
  rw [zaddSet_append, zaddSet_cons, get_zaddSet_notin _ _ _ _ hpost]
  unfold zaddStep
  simp only [hw, if_true]
  exact ZSet.get_add_self_eq _ m s

/-- without NX / XX: the last pair of a member wins -/
theorem get_zaddSet_plain_last (z : ZSet) (pre post : List (Dbl × Bytes)) (s : Dbl) (m : Bytes)
    (hpost : m ∉ post.map Prod.snd) :
    ∃ s', (zaddSet false false z (pre ++ (s, m) :: post)).get m = some s' ∧ (s' = s ∨ Dbl.eq s s' = true) :=
  get_zaddSet_last false false z pre post s m hpost (zaddWrites_plain _)

theorem get_zaddSet_isSome (nx xx : Bool) (z : ZSet) (items : List (Dbl × Bytes)) {m : Bytes}
    (h : z.get m ≠ none) : (zaddSet nx xx z items).get m ≠ none := by
  induction items generalizing z with
  | nil => exact h
  | cons p ps ih => rw [zaddSet_cons]; exact ih _ (get_zaddStep_isSome nx xx z p h)

/-- XX: the last pair of a member that is present wins -/
theorem get_zaddSet_xx_last (z : ZSet) (pre post : List (Dbl × Bytes)) (s : Dbl) (m : Bytes)
    (hpost : m ∉ post.map Prod.snd) (hpres : z.get m ≠ none) :
    ∃ s', (zaddSet false true z (pre ++ (s, m) :: post)).get m = some s' ∧ (s' = s ∨ Dbl.eq s s' = true) := by
  apply get_zaddSet_last false true z pre post s m hpost
  rw [zaddWrites_xx, contains_eq]
  have := get_zaddSet_isSome false true z pre hpres
  cases h : (zaddSet false true z pre).get m with
  | none => exact absurd h this
  | some _ => rfl

/-- NX: the first pair of a member that is absent gives the score, exactly -/
theorem get_zaddSet_nx_first (z : ZSet) (pre post : List (Dbl × Bytes)) (s : Dbl) (m : Bytes)
    (hpre : m ∉ pre.map Prod.snd) (habs : z.get m = none) :
    (zaddSet true false z (pre ++ (s, m) :: post)).get m = some s := by
  rw [zaddSet_append, zaddSet_cons]
  apply get_zaddSet_nx_present
  have h0 : (zaddSet true false z pre).get m = none := by rw [get_zaddSet_notin _ _ _ _ hpre]; exact habs
  unfold zaddStep
  rw [zaddWrites_nx, contains_eq, h0]
  simp only [Option.isSome_none, Bool.not_false, if_true]
  rw [ZSet.get_add, if_pos rfl, h0]

/-- the members ZADD adds: those of the pairs that are absent — none with XX -/
theorem zaddSet_len (nx xx : Bool) (hnx : (nx && xx) = false) (z : ZSet) (items : List (Dbl × Bytes)) :
    ∃ l : List Bytes, l.Nodup ∧ (∀ x, x ∈ l ↔ (x ∈ items.map Prod.snd ∧ z.get x = none ∧ xx = false)) ∧
      (zaddSet nx xx z items).len = z.len + l.length := by
  induction items generalizing z with
  | nil => exact ⟨[], List.nodup_nil, by simp, rfl⟩
  | cons p ps ih =>
    obtain ⟨l1, hn1, hm1, hl1⟩ := ih (zaddStep nx xx z p)
    rw [zaddSet_cons, hl1]
    cases hg : z.get p.2 with
    | none =>
      by_cases hxx : xx = true
      · -- XX and absent: not written
        have hw : zaddWrites nx xx (z.contains p.2) = false := by
          rw [contains_eq, hg, hxx]; cases nx <;> rfl
        have hs : zaddStep nx xx z p = z := by unfold zaddStep; rw [hw]; rfl
        refine ⟨l1, hn1, fun x => ?_, by rw [hs]⟩
        rw [hm1]; simp [hxx]
      · have hxx : xx = false := by simpa using hxx
        have hw : zaddWrites nx xx (z.contains p.2) = true := by
          rw [contains_eq, hg, hxx]; cases nx <;> rfl
        have hs : zaddStep nx xx z p = (z.add p.2 p.1).1 := by unfold zaddStep; rw [hw]; rfl
        have hnot : p.2 ∉ l1 := by
          intro hc
          have := ((hm1 p.2).mp hc).2.1
          rw [hs, get_add_eq_none] at this
          exact this.1 rfl
        refine ⟨p.2 :: l1, List.nodup_cons.mpr ⟨hnot, hn1⟩, fun x => ?_, ?_⟩
        · simp only [List.mem_cons, List.map_cons, hm1, hs, get_add_eq_none]
          constructor
          · rintro (rfl | ⟨h1, ⟨_, h2⟩, h3⟩)
            · exact ⟨Or.inl rfl, hg, hxx⟩
            · exact ⟨Or.inr h1, h2, h3⟩
          · rintro ⟨h1 | h1, h2, h3⟩
            · exact Or.inl h1
            · by_cases hx : x = p.2
              · exact Or.inl hx
              · exact Or.inr ⟨h1, ⟨hx, h2⟩, h3⟩
        · rw [hs, ZSet.len_add, if_pos hg]; simp; omega
    | some old =>
      have hiff : ∀ x, (zaddStep nx xx z p).get x = none ↔ z.get x = none := by
        intro x
        unfold zaddStep
        split
        · rw [get_add_eq_none]
          constructor
          · exact fun h => h.2
          · intro h; refine ⟨?_, h⟩; intro e; subst e; rw [hg] at h; cases h
        · rfl
      have hlen : (zaddStep nx xx z p).len = z.len := by
        unfold zaddStep
        split
        · rw [ZSet.len_add, if_neg (by rw [hg]; simp)]
        · rfl
      refine ⟨l1, hn1, fun x => ?_, by rw [hlen]⟩
      rw [hm1, hiff]
      simp only [List.map_cons, List.mem_cons]
      constructor
      · rintro ⟨h1, h2, h3⟩; exact ⟨Or.inr h1, h2, h3⟩
      · rintro ⟨h1 | h1, h2, h3⟩
        · subst h1; rw [hg] at h2; cases h2
        · exact ⟨h1, h2, h3⟩

/-! ### the option words and the score/member pairs of ZADD -/

/-- one of the four option words of ZADD (ASCII case-insensitive) -/
def isZaddFlag (a : Bytes) : Bool :=
  casematch a "ch" || casematch a "nx" || casematch a "xx" || casematch a "incr"

theorem casematch_excl {a : Bytes} {x y : String} (hx : casematch a x = true) (hne : strBytes x ≠ strBytes y) :
    casematch a y = false := by
  unfold casematch at *
  have := eq_of_beq hx
  rw [this]
  simpa using hne

theorem parseZaddFlags_spec (l : List Bytes) (f0 : ZaddFlags) :
    (parseZaddFlags l f0).2 = l.dropWhile isZaddFlag ∧
    (parseZaddFlags l f0).1.ch = (f0.ch || (l.takeWhile isZaddFlag).any (casematch · "ch")) ∧
    (parseZaddFlags l f0).1.nx = (f0.nx || (l.takeWhile isZaddFlag).any (casematch · "nx")) ∧
    (parseZaddFlags l f0).1.xx = (f0.xx || (l.takeWhile isZaddFlag).any (casematch · "xx")) ∧
    (parseZaddFlags l f0).1.incr = (f0.incr || (l.takeWhile isZaddFlag).any (casematch · "incr")) := by
  induction l generalizing f0 with
  | nil => simp [parseZaddFlags]
  | cons a rest ih =>
    unfold parseZaddFlags
    by_cases h1 : casematch a "ch" = true
    · have hf : isZaddFlag a = true := by simp [isZaddFlag, h1]
      have e2 := casematch_excl (y := "nx") h1 (by rw [strBytes_eq, strBytes_eq]; decide)
      have e3 := casematch_excl (y := "xx") h1 (by rw [strBytes_eq, strBytes_eq]; decide)
      have e4 := casematch_excl (y := "incr") h1 (by rw [strBytes_eq, strBytes_eq]; decide)
      rw [if_pos h1, List.dropWhile_cons_of_pos hf, List.takeWhile_cons_of_pos hf]
      obtain ⟨i1, i2, i3, i4, i5⟩ := ih { f0 with ch := true }
      simp only [List.any_cons, h1, e2, e3, e4, Bool.false_or, Bool.true_or, Bool.or_true]
      exact ⟨i1, by rw [i2]; simp, i3, i4, i5⟩
    · rw [if_neg h1]
      have h1 : casematch a "ch" = false := by simpa using h1
      by_cases h2 : casematch a "nx" = true
      · have hf : isZaddFlag a = true := by simp [isZaddFlag, h2]
        have e3 := casematch_excl (y := "xx") h2 (by rw [strBytes_eq, strBytes_eq]; decide)
        have e4 := casematch_excl (y := "incr") h2 (by rw [strBytes_eq, strBytes_eq]; decide)
        rw [if_pos h2, List.dropWhile_cons_of_pos hf, List.takeWhile_cons_of_pos hf]
        obtain ⟨i1, i2, i3, i4, i5⟩ := ih { f0 with nx := true }
        simp only [List.any_cons, h1, h2, e3, e4, Bool.false_or, Bool.true_or, Bool.or_true]
        exact ⟨i1, i2, by rw [i3]; simp, i4, i5⟩
      · rw [if_neg h2]
        have h2 : casematch a "nx" = false := by simpa using h2
        by_cases h3 : casematch a "xx" = true
        · have hf : isZaddFlag a = true := by simp [isZaddFlag, h3]
          have e4 := casematch_excl (y := "incr") h3 (by rw [strBytes_eq, strBytes_eq]; decide)
          rw [if_pos h3, List.dropWhile_cons_of_pos hf, List.takeWhile_cons_of_pos hf]
          obtain ⟨i1, i2, i3, i4, i5⟩ := ih { f0 with xx := true }
          simp only [List.any_cons, h1, h2, h3, e4, Bool.false_or, Bool.true_or, Bool.or_true]
          exact ⟨i1, i2, i3, by rw [i4]; simp, i5⟩
        · rw [if_neg h3]
          have h3 : casematch a "xx" = false := by simpa using h3
          by_cases h4 : casematch a "incr" = true
          · have hf : isZaddFlag a = true := by simp [isZaddFlag, h4]
            rw [if_pos h4, List.dropWhile_cons_of_pos hf, List.takeWhile_cons_of_pos hf]
            obtain ⟨i1, i2, i3, i4, i5⟩ := ih { f0 with incr := true }
            simp only [List.any_cons, h1, h2, h3, h4, Bool.false_or, Bool.true_or, Bool.or_true]
            exact ⟨i1, i2, i3, i4, by rw [i5]; simp⟩
          · rw [if_neg h4]
            have h4 : casematch a "incr" = false := by simpa using h4
            have hf : ¬ isZaddFlag a = true := by simp [isZaddFlag, h1, h2, h3, h4]
            rw [List.dropWhile_cons_of_neg hf, List.takeWhile_cons_of_neg hf]
            simp

/-- the argument list after the option words, cut into (score, member) pairs -/
def pairsOf : List Bytes → List (Bytes × Bytes)
  | s :: m :: rest => (s, m) :: pairsOf rest
  | _ => []

/-- the score ZADD stores for the parsed score `d`: version 7 computes `0.0 + d` (turning `-0.0` into `0.0`) -/
def zaddScore (version : Nat) (d : Dbl) : Dbl := if version ≥ 7 then d.plusZero else d

theorem float_error_msg {x : Bytes} {e : Err} (h : Conv.float x = .error e) : e = Msgs.INVALID_FLOAT_MSG := by
  unfold Conv.float Conv.floatGen at h
  simp only [] at h
  repeat' split at h
  all_goals first | (cases h; rfl) | cases h

/-- the score ZADD reads from the byte string `s`, `none` when `s` is not a valid float -/
def scoreOfBytes (v : Nat) (s : Bytes) : Option Dbl :=
  match Conv.float s with
  | .ok d => some (zaddScore v d)
  | .error _ => none

theorem parseScorePairs_ok_iff (v : Nat) (l : List Bytes) (ps : List (Dbl × Bytes)) :
    parseScorePairs v l = .ok ps ↔
      (pairsOf l).map (fun sm => (scoreOfBytes v sm.1, sm.2)) = ps.map (fun p => (some p.1, p.2)) := by
  fun_induction parseScorePairs v l generalizing ps with
  | case1 s m rest e he =>
    simp only [pairsOf, List.map_cons, scoreOfBytes, he]
    constructor
    · intro h; cases h
    · intro h; cases ps <;> simp at h
  | case2 s m rest d hd e he ih =>
    simp only [pairsOf, List.map_cons, scoreOfBytes, hd]
    constructor
    · intro h; cases h
    · intro h
      cases ps with
      | nil => simp at h
      | cons p ps' =>
        simp only [List.map_cons, List.cons.injEq] at h
        have := (ih ps').mpr h.2
        rw [he] at this; cases this
  | case3 s m rest d hd ps' hps ih =>
    simp only [pairsOf, List.map_cons, scoreOfBytes, hd]
    constructor
    · intro h
      cases h
      simp only [List.map_cons, List.cons.injEq, true_and]
      exact ⟨rfl, (ih ps').mp hps⟩
    · intro h
      cases ps with
      | nil => simp at h
      | cons p ps'' =>
        simp only [List.map_cons, List.cons.injEq, Prod.mk.injEq, Option.some.injEq] at h
        have := (ih ps'').mpr h.2
        rw [hps] at this; cases this
        obtain ⟨⟨h1, h2⟩, _⟩ := h
        have : p = (zaddScore v d, m) := by
          obtain ⟨a, b⟩ := p
          simp only at h1 h2
          rw [← h1, ← h2]
        rw [this]; rfl
  | case4 l hl =>
    have : pairsOf l = [] := by
      unfold pairsOf
      split
      · rename_i s m rest; exact absurd rfl (hl s m rest)
      · rfl
    rw [this]
    constructor
    · intro h; cases h; rfl
    · intro h
      cases ps with
      | nil => rfl
      | cons _ _ => simp at h

theorem parseScorePairs_error (v : Nat) (l : List Bytes) {e : Err} (h : parseScorePairs v l = .error e) :
    e = Msgs.INVALID_FLOAT_MSG ∧ ∃ sm ∈ pairsOf l, Conv.float sm.1 = .error e := by
  fun_induction parseScorePairs v l with
  | case1 s m rest e' he =>
    cases h
    exact ⟨float_error_msg he, (s, m), by simp [pairsOf], he⟩
  | case2 s m rest d hd e' he ih =>
    cases h
    obtain ⟨h1, sm, hsm, h2⟩ := ih he
    exact ⟨h1, sm, by simp [pairsOf, hsm], h2⟩
  | case3 s m rest d hd ps' hps ih => cases h
  | case4 l hl => cases h

/-! ## canonical form, rank -/

/-- under the invariant the sorted index is determined by the member ↦ score map -/
theorem byscore_eq_of_get_eq {z z' : ZSet} (hz : z.Inv) (hz' : z'.Inv) (h : ∀ m, z.get m = z'.get m) :
    z.byscore = z'.byscore := by
  apply List.Perm.eq_of_pairwise (le := ZSet.PLt) ?_ hz.1 hz'.1
  · rw [List.perm_ext_iff_of_nodup (ZSet.byscore_nodup hz) (ZSet.byscore_nodup hz')]
    intro a
    obtain ⟨s, m⟩ := a
    rw [← ZSet.get_iff_mem_byscore hz, ← ZSet.get_iff_mem_byscore hz', h]
  · intro a b _ _ hab hba
    have := pairLt_asymm hab
    unfold ZSet.PLt at hba
    rw [this] at hba; cases hba

theorem takeWhile_ne_length_eq_idxOf (l : List (Dbl × Bytes)) (m : Bytes) :
    (l.takeWhile (fun p => p.2 != m)).length = (l.map Prod.snd).idxOf m := by
  induction l with
  | nil => rfl
  | cons x xs ih =>
    rw [List.takeWhile_cons, List.map_cons, List.idxOf_cons]
    by_cases c : x.2 = m
    · simp [c]
    · have : (x.2 != m) = true := by simpa using c
      have c' : (x.2 == m) = false := by simpa using c
      rw [if_pos this, c']
      simp [ih]

/-- ZRANK is the position of the member in the iteration order -/
theorem rank_eq_idxOf (z : ZSet) (m : Bytes) :
    z.rank m = if z.get m = none then none else some ((z.byscore.map Prod.snd).idxOf m) := by
  unfold ZSet.rank
  cases z.get m with
  | none => rfl
  | some s => simp [takeWhile_ne_length_eq_idxOf]

theorem mem_members_iff {z : ZSet} (hz : z.Inv) (m : Bytes) :
    m ∈ z.byscore.map Prod.snd ↔ z.get m ≠ none := by
  constructor
  · intro h
    obtain ⟨p, hp, rfl⟩ := List.mem_map.mp h
    rw [(ZSet.get_iff_mem_byscore hz).mpr (show (p.1, p.2) ∈ z.byscore from hp)]
    simp
  · intro h
    cases hg : z.get m with
    | none => exact absurd hg h
    | some s => exact List.mem_map.mpr ⟨(s, m), (ZSet.get_iff_mem_byscore hz).mp hg, rfl⟩

/-- removing the members of a sub-selection `filter P` of the sorted list leaves `filter ¬P` -/
theorem filter_not_contains_filter {z : ZSet} (hz : z.Inv) (P : Dbl × Bytes → Bool) :
    z.byscore.filter (fun p => !((z.byscore.filter P).map Prod.snd).contains p.2) =
      z.byscore.filter (fun p => !P p) := by
  apply List.filter_congr
  intro p hp
  congr 1
  cases hP : P p with
  | true =>
    have : p.2 ∈ (z.byscore.filter P).map Prod.snd :=
      List.mem_map.mpr ⟨p, List.mem_filter.mpr ⟨hp, hP⟩, rfl⟩
    simpa using this
  | false =>
    have : ¬ p.2 ∈ (z.byscore.filter P).map Prod.snd := by
      intro hc
      obtain ⟨q, hq', e⟩ := List.mem_map.mp hc
      obtain ⟨hq, hPq⟩ := List.mem_filter.mp hq'
      obtain ⟨s, m⟩ := p
      obtain ⟨s', m'⟩ := q
      simp only at e; subst e
      have := ZSet.byscore_score_unique hz hq hp
      subst this
      rw [hP] at hPq; cases hPq
    simpa using this
  /-
    obtain ⟨s, m⟩ := p
    obtain ⟨s', m'⟩ := q
    simp only at e; subst e
    have := ZSet.byscore_score_unique hz hq hp
    subst this
    rw [hP] at hPq; cases hPq -/

/-- a duplicate-free list of present members is removed entirely: ZREM replies its length -/
theorem removed_all {z : ZSet} (hz : z.Inv) {ms : List Bytes} (hn : ms.Nodup) (hp : ∀ m ∈ ms, z.get m ≠ none) :
    z.len - (ms.foldl ZSet.discard z).len = ms.length := by
  apply CardEq.unique (removed_card ms hz)
  exact ⟨ms, hn, fun x => ⟨fun h => ⟨h, hp x h⟩, fun h => h.1⟩, rfl⟩

/-- the members of a sub-selection of the sorted list are distinct and present -/
theorem filter_members {z : ZSet} (hz : z.Inv) (P : Dbl × Bytes → Bool) :
    ((z.byscore.filter P).map Prod.snd).Nodup ∧ ∀ m ∈ (z.byscore.filter P).map Prod.snd, z.get m ≠ none := by
  refine ⟨(ZSet.members_nodup hz).sublist (List.filter_sublist.map _), fun m hm => ?_⟩
  rw [← mem_members_iff hz]
  exact (List.filter_sublist.map _).subset hm

/-- the same for an index window -/
theorem window_members {z : ZSet} (hz : z.Inv) (a n : Nat) :
    (((z.byscore.drop a).take n).map Prod.snd).Nodup ∧
    ∀ m ∈ ((z.byscore.drop a).take n).map Prod.snd, z.get m ≠ none := by
  have hsub : ((z.byscore.drop a).take n).Sublist z.byscore :=
    (List.take_sublist _ _).trans (List.drop_sublist _ _)
  refine ⟨(ZSet.members_nodup hz).sublist (hsub.map _), fun m hm => ?_⟩
  rw [← mem_members_iff hz]
  exact (hsub.map _).subset hm

end FR.ZCmd
