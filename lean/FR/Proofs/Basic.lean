import FR
/-! Shared helper lemmas for the proof files. -/
namespace FR

theorem filterMap_congr' {α β} {f g : α → Option β} {l : List α} (h : ∀ a ∈ l, f a = g a) :
    l.filterMap f = l.filterMap g := by
  induction l with
  | nil => rfl
  | cons x xs ih =>
    simp only [List.filterMap_cons, h x (by simp)]
    rw [ih (fun a ha => h a (by simp [ha]))]

end FR
