import FR.Proofs.C18aOrder
/-!
# C18a helper — the rounding is monotone, hence so are `add` and `mul` by a non-negative factor
-/
namespace FR.C18a
open FR FR.C18f FR.DumpRound

theorem le_neg_pos' {x y : Dbl} {V W : Nat} (hx : Desc true x V) (hy : Desc false y W) : Dbl.le x y = true := by
  rcases hx with ⟨rfl, _⟩ | ⟨m1, e1, rfl, _, rfl, _⟩ <;> rcases hy with ⟨rfl, _⟩ | ⟨m2, e2, rfl, _, rfl, _⟩
  · rfl
  · rfl
  · rfl
  · show (decide ((Dbl.fin true m1 e1).scaled < (Dbl.fin false m2 e2).scaled) ||
      decide ((Dbl.fin true m1 e1).scaled = (Dbl.fin false m2 e2).scaled)) = true
    rw [scaled_fin, scaled_fin]
    simp only [if_true, Bool.false_eq_true, if_false, Int.one_mul, Bool.or_eq_true, decide_eq_true_eq]
    omega

/-- `RN` as one call of `roundPos` -/
theorem RN_eq_roundPos (z : Bool) (q : ℚ) :
    Dbl.RN z q = Dbl.roundPos (if q = 0 then z else decide (q < 0)) q.num.natAbs q.den := by
  unfold Dbl.RN
  split
  · rename_i h; subst h; rfl
  · rfl

theorem abs_le_cross {q1 q2 : ℚ} (h : |q1| ≤ |q2|) : q1.num.natAbs * q2.den ≤ q2.num.natAbs * q1.den := by
  rw [abs_eq_natAbs_div, abs_eq_natAbs_div,
    div_le_div_iff₀ (by exact_mod_cast q1.den_pos) (by exact_mod_cast q2.den_pos)] at h
  exact_mod_cast h

/-- MONOTONICITY of the rounding: `q₁ ≤ q₂ → RN q₁ ≤ RN q₂` (IEEE `≤`, so `-0 = +0`; infinities included) -/
theorem RN_mono (z1 z2 : Bool) {q1 q2 : ℚ} (h : q1 ≤ q2) : Dbl.le (Dbl.RN z1 q1) (Dbl.RN z2 q2) = true := by
  rw [RN_eq_roundPos, RN_eq_roundPos]
  generalize hn1 : (if q1 = 0 then z1 else decide (q1 < 0)) = n1
  generalize hn2 : (if q2 = 0 then z2 else decide (q2 < 0)) = n2
  have s1 : n1 = false → 0 ≤ q1 := by
    intro hh; subst hh
    by_cases c : q1 = 0
    · exact c.ge
    · rw [if_neg c] at hn1; exact not_lt.mp (of_decide_eq_false hn1)
  have s2 : n1 = true → q1 ≤ 0 := by
    intro hh; subst hh
    by_cases c : q1 = 0
    · exact c.le
    · rw [if_neg c] at hn1; exact (of_decide_eq_true hn1).le
  have t1 : n2 = false → 0 ≤ q2 := by
    intro hh; subst hh
    by_cases c : q2 = 0
    · exact c.ge
    · rw [if_neg c] at hn2; exact not_lt.mp (of_decide_eq_false hn2)
  have t2 : n2 = true → q2 ≤ 0 := by
    intro hh; subst hh
    by_cases c : q2 = 0
    · exact c.le
    · rw [if_neg c] at hn2; exact (of_decide_eq_true hn2).le
  cases n1 <;> cases n2
  · have a := s1 rfl; have b := t1 rfl
    exact roundPos_mono false q1.den_pos q2.den_pos (abs_le_cross (by rw [abs_of_nonneg a, abs_of_nonneg b]; exact h))
  · have a := s1 rfl; have b := t2 rfl
    have e1 : q1 = 0 := le_antisymm (le_trans h b) a
    have e2 : q2 = 0 := le_antisymm b (le_trans a h)
    subst e1 e2
    decide
  · exact le_neg_pos' (roundPos_desc true _ _ q1.den_pos) (roundPos_desc false _ _ q2.den_pos)
  · have a := s2 rfl; have b := t2 rfl
    exact roundPos_mono true q2.den_pos q1.den_pos
      (abs_le_cross (by rw [abs_of_nonpos a, abs_of_nonpos b]; linarith))

/-- `add` is monotone in its second argument (finite operands) -/
theorem add_mono_right (n : Bool) (m : Nat) (e : Int) (n1 : Bool) (m1 : Nat) (e1 : Int) (n2 : Bool) (m2 : Nat) (e2 : Int)
    (h : Dbl.val (.fin n1 m1 e1) ≤ Dbl.val (.fin n2 m2 e2)) :
    Dbl.le (Dbl.add (.fin n m e) (.fin n1 m1 e1)) (Dbl.add (.fin n m e) (.fin n2 m2 e2)) = true := by
  rw [add_fin_eq_RN, add_fin_eq_RN]
  exact RN_mono _ _ (by linarith)

end FR.C18a
