import FR.Proofs.ZStore
/-!
# SORT: helper lemmas for the functional specification of `sortCmd` (`FR/Props/C02s.lean`)

1. the stable insertion sort `stableSort` for an arbitrary comparison that is a total preorder on the
   elements of the list: permutation, sortedness, stability, uniqueness; Python's `sort(reverse=True)`;
2. the two comparisons of SORT (numeric `(score, element)` pairs, ALPHA weights) are total preorders;
3. `_lookup_key` as a pure function on one database and on the live view;
4. the monadic body `sortCmd` equals a pure description `core`;
5. the description in terms of the live view (`spec`).
-/
namespace FR.SortSpec
open FR FR.M FR.Db

/-! ## 1. The stable sort -/

section SortGen
variable {α : Type} (le : α → α → Bool)

/-- `le` is a total preorder on the elements that satisfy `S` -/
structure TotalPre (S : α → Prop) : Prop where
  total : ∀ a b, S a → S b → le a b = true ∨ le b a = true
  trans : ∀ a b c, S a → S b → S c → le a b = true → le b c = true → le a c = true

theorem TotalPre.refl {S : α → Prop} (h : TotalPre le S) (a : α) (ha : S a) : le a a = true := by
  rcases h.total a a ha ha with h | h <;> exact h

theorem TotalPre.flip {S : α → Prop} (h : TotalPre le S) : TotalPre (fun a b => le b a) S :=
  ⟨fun a b ha hb => (h.total a b ha hb).symm, fun a b c ha hb hc h1 h2 => h.trans c b a hc hb ha h2 h1⟩

theorem ins_nil (x : α) : stableSort.ins le x [] = [x] := rfl

theorem ins_cons (x y : α) (ys : List α) :
    stableSort.ins le x (y :: ys) = if le x y then x :: y :: ys else y :: stableSort.ins le x ys := rfl

theorem stableSort_nil : stableSort le ([] : List α) = [] := rfl

theorem mem_stableSort {l : List α} {a : α} : a ∈ stableSort le l ↔ a ∈ l :=
  (ZStore.stableSort_perm le l).mem_iff

theorem length_stableSort (l : List α) : (stableSort le l).length = l.length :=
  (ZStore.stableSort_perm le l).length_eq

/-- inserting into a sorted list keeps it sorted -/
theorem ins_sorted {S : α → Prop} (h : TotalPre le S) (x : α) (l : List α) (hx : S x) (hl : ∀ a ∈ l, S a)
    (hs : l.Pairwise (fun a b => le a b = true)) :
    (stableSort.ins le x l).Pairwise (fun a b => le a b = true) := by
  induction l with
  | nil => rw [ins_nil]; exact List.pairwise_singleton _ _
  | cons y ys ih =>
    rw [ins_cons]
    rw [List.pairwise_cons] at hs
    have hy : S y := hl y List.mem_cons_self
    have hys : ∀ a ∈ ys, S a := fun a ha => hl a (List.mem_cons_of_mem _ ha)
    by_cases hle : le x y = true
    · rw [if_pos hle]
      refine List.pairwise_cons.mpr ⟨?_, List.pairwise_cons.mpr hs⟩
      intro a ha
      rcases List.mem_cons.mp ha with rfl | ha
      · exact hle
      · exact h.trans x y a hx hy (hys a ha) hle (hs.1 a ha)
    · rw [if_neg hle]
      refine List.pairwise_cons.mpr ⟨?_, ih hys hs.2⟩
      intro a ha
      rcases List.mem_cons.mp ((ZStore.ins_perm le x ys).subset ha) with rfl | ha
      · rcases h.total a y hx hy with h' | h'
        · exact absurd h' hle
        · exact h'
      · exact hs.1 a ha

/-- the result is sorted: every element is `le` every later one -/
theorem stableSort_sorted {S : α → Prop} (h : TotalPre le S) (l : List α) (hl : ∀ a ∈ l, S a) :
    (stableSort le l).Pairwise (fun a b => le a b = true) := by
  induction l with
  | nil => exact List.Pairwise.nil
  | cons x l ih =>
    rw [ZStore.stableSort_cons]
    have hl' : ∀ a ∈ l, S a := fun a ha => hl a (List.mem_cons_of_mem _ ha)
    exact ins_sorted le h x _ (hl x List.mem_cons_self) (fun a ha => hl' a ((mem_stableSort le).mp ha)) (ih hl')

/-- inserting `x` does not move it past an element it is tied with -/
theorem ins_filter (p : α → Bool) (x : α) (l : List α) (hp : ∀ y ∈ l, p x = true → p y = true → le x y = true) :
    (stableSort.ins le x l).filter p = (x :: l).filter p := by
  induction l with
  | nil => rfl
  | cons y ys ih =>
    rw [ins_cons]
    by_cases hle : le x y = true
    · rw [if_pos hle]
    · rw [if_neg hle, List.filter_cons, ih (fun z hz => hp z (List.mem_cons_of_mem _ hz))]
      by_cases hx : p x = true
      · have hy : p y = false := by
          cases hy : p y with
          | false => rfl
          | true => exact absurd (hp y List.mem_cons_self hx hy) hle
        simp [hx, hy]
      · simp [List.filter_cons, hx]

/-- STABILITY: any family `p` of mutually tied elements keeps its source order (no property of `le` is needed) -/
theorem stableSort_filter (p : α → Bool) (l : List α)
    (hp : ∀ a ∈ l, ∀ b ∈ l, p a = true → p b = true → le a b = true) :
    (stableSort le l).filter p = l.filter p := by
  induction l with
  | nil => rfl
  | cons x l ih =>
    rw [ZStore.stableSort_cons, ins_filter le p x _ ?h, List.filter_cons, List.filter_cons,
      ih (fun a ha b hb => hp a (List.mem_cons_of_mem _ ha) b (List.mem_cons_of_mem _ hb))]
    intro y hy
    exact hp x List.mem_cons_self y (List.mem_cons_of_mem _ ((mem_stableSort le).mp hy))

/-- the tie class of `k` -/
def tied (k : α) (a : α) : Bool := le a k && le k a

theorem tied_le {S : α → Prop} (h : TotalPre le S) {k a b : α} (hk : S k) (ha : S a) (hb : S b)
    (h1 : tied le k a = true) (h2 : tied le k b = true) : le a b = true := by
  simp only [tied, Bool.and_eq_true] at h1 h2
  exact h.trans a k b ha hk hb h1.1 h2.2

/-- stability for the tie classes of a total preorder -/
theorem stableSort_stable {S : α → Prop} (h : TotalPre le S) (l : List α) (hl : ∀ a ∈ l, S a) (k : α) (hk : S k) :
    (stableSort le l).filter (tied le k) = l.filter (tied le k) :=
  stableSort_filter le _ l (fun a ha b hb h1 h2 => tied_le le h hk (hl a ha) (hl b hb) h1 h2)

/-- UNIQUENESS: a sorted permutation that keeps every tie class in source order is determined -/
theorem sorted_stable_unique {S : α → Prop} (h : TotalPre le S) (l1 l2 : List α) (hl : ∀ a ∈ l1, S a)
    (hperm : l1.Perm l2)
    (s1 : l1.Pairwise (fun a b => le a b = true)) (s2 : l2.Pairwise (fun a b => le a b = true))
    (hst : ∀ k, S k → l1.filter (tied le k) = l2.filter (tied le k)) : l1 = l2 := by
  induction l1 generalizing l2 with
  | nil => exact (List.Perm.nil_eq hperm)
  | cons a t1 ih =>
    cases l2 with
    | nil => exact absurd hperm.symm.nil_eq (by simp)
    | cons b t2 =>
      have ha : S a := hl a List.mem_cons_self
      have hl2 : ∀ x ∈ b :: t2, S x := fun x hx => hl x (hperm.mem_iff.mpr hx)
      have hb : S b := hl2 b List.mem_cons_self
      rw [List.pairwise_cons] at s1 s2
      have hab : le a b = true := by
        rcases List.mem_cons.mp (hperm.mem_iff.mpr (List.mem_cons_self (a := b) (l := t2))) with e | e
        · rw [e]; exact h.refl le a ha
        · exact s1.1 b e
      have hba : le b a = true := by
        rcases List.mem_cons.mp (hperm.mem_iff.mp (List.mem_cons_self (a := a) (l := t1))) with e | e
        · rw [e]; exact h.refl le b hb
        · exact s2.1 a e
      have e : a = b := by
        have := hst a ha
        have ta : tied le a a = true := by simp [tied, h.refl le a ha]
        have tb : tied le a b = true := by simp [tied, hab, hba]
        rw [List.filter_cons, List.filter_cons, if_pos ta, if_pos tb] at this
        exact (List.cons.inj this).1
      subst e
      congr 1
      refine ih t2 (fun x hx => hl x (List.mem_cons_of_mem _ hx)) (List.Perm.cons_inv hperm) s1.2 s2.2 ?_
      intro k hk
      have := hst k hk
      rw [List.filter_cons, List.filter_cons] at this
      by_cases t : tied le k a = true
      · rw [if_pos t, if_pos t] at this; exact (List.cons.inj this).2
      · rw [if_neg t, if_neg t] at this; exact this

/-- Python's `list.sort(reverse=True)` as the model writes it -/
def descSort (l : List α) : List α := (stableSort le l.reverse).reverse

theorem descSort_perm (l : List α) : (descSort le l).Perm l :=
  (List.reverse_perm _).trans ((ZStore.stableSort_perm le _).trans (List.reverse_perm _))

theorem mem_descSort {l : List α} {a : α} : a ∈ descSort le l ↔ a ∈ l := (descSort_perm le l).mem_iff

theorem length_descSort (l : List α) : (descSort le l).length = l.length := (descSort_perm le l).length_eq

/-- descending: every element is `≥` every later one -/
theorem descSort_sorted {S : α → Prop} (h : TotalPre le S) (l : List α) (hl : ∀ a ∈ l, S a) :
    (descSort le l).Pairwise (fun a b => le b a = true) := by
  unfold descSort
  rw [List.pairwise_reverse]
  exact stableSort_sorted le h _ (fun a ha => hl a (List.mem_reverse.mp ha))

/-- `reverse=True` keeps the source order of tied elements -/
theorem descSort_filter (p : α → Bool) (l : List α)
    (hp : ∀ a ∈ l, ∀ b ∈ l, p a = true → p b = true → le a b = true) :
    (descSort le l).filter p = l.filter p := by
  unfold descSort
  rw [List.filter_reverse, stableSort_filter le p _ ?h, List.filter_reverse, List.reverse_reverse]
  intro a ha b hb
  exact hp a (List.mem_reverse.mp ha) b (List.mem_reverse.mp hb)

theorem tied_flip (k a : α) : tied (fun a b => le b a) k a = tied le k a := by
  simp only [tied, Bool.and_comm]

/-- `sort(reverse=True)` IS the stable sort by the reversed comparison -/
theorem descSort_eq_stableSort_flip {S : α → Prop} (h : TotalPre le S) (l : List α) (hl : ∀ a ∈ l, S a) :
    descSort le l = stableSort (fun a b => le b a) l := by
  refine sorted_stable_unique (fun a b => le b a) (TotalPre.flip le h) _ _ (fun a ha => hl a ((mem_descSort le).mp ha))
    ((descSort_perm le l).trans (ZStore.stableSort_perm _ l).symm) (descSort_sorted le h l hl)
    (stableSort_sorted _ (TotalPre.flip le h) l hl) ?_
  intro k hk
  rw [stableSort_stable _ (TotalPre.flip le h) l hl k hk]
  have : tied (fun a b => le b a) k = tied le k := funext (tied_flip le k)
  rw [this]
  exact descSort_filter le _ l (fun a ha b hb h1 h2 => tied_le le h hk (hl a ha) (hl b hb) h1 h2)

end SortGen

/-! ## 2. The two comparisons -/

/-- the numeric comparison of `sortCmd`: Python `(score_a, a) <= (score_b, b)` -/
def numLe (a b : Dbl × Bytes) : Bool := !pairLt b.1 (.val b.2) a.1 (.val a.2)

/-- the ALPHA comparison of `sortCmd` (on the weights only) -/
def alphaKeyLe (a b : Option Bytes × Bytes) : Bool := alphaLe a.1 b.1

def NoNaN (a : Dbl × Bytes) : Prop := a.1.isNaN = false

theorem pairLt_congr_right {s1 s2 s3 : Dbl} {m1 m2 : LexB} (e : Dbl.eq s2 s3 = true)
    (h : pairLt s1 m1 s2 m2 = true) : pairLt s1 m1 s3 m2 = true := by
  unfold pairLt at *
  by_cases e12 : Dbl.eq s1 s2 = true
  · rw [if_pos e12] at h
    rw [if_pos (Dbl.eq_trans e12 e)]; exact h
  · rw [if_neg e12] at h
    have h13 := Dbl.lt_of_lt_of_eq h e
    rw [if_neg (by rw [Dbl.eq_of_lt h13]; decide)]
    exact h13

theorem numLe_totalPre : TotalPre numLe NoNaN := by
  constructor
  · intro a b _ _
    unfold numLe
    cases h : pairLt b.1 (.val b.2) a.1 (.val a.2) with
    | false => left; rfl
    | true => right; rw [pairLt_asymm h]; rfl
  · intro a b c ha hb hc h1 h2
    unfold numLe at *
    cases h : pairLt c.1 (.val c.2) a.1 (.val a.2) with
    | false => rfl
    | true =>
      exfalso
      rcases pairLt_trichotomy (.val b.2) (.val a.2) hb ha with h' | ⟨e, m⟩ | h'
      · rw [h'] at h1; cases h1
      · have := pairLt_congr_right ((Dbl.eq_comm _ _).trans e) h
        rw [← m] at this
        rw [this] at h2; cases h2
      · have := pairLt_trans h h'
        rw [this] at h2; cases h2

theorem bytesLe_total (x y : Bytes) : bytesLe x y = true ∨ bytesLe y x = true := by
  unfold bytesLe
  cases h : bytesLt y x with
  | false => left; rfl
  | true => right; rw [bytesLt_asymm h]; rfl

theorem bytesLe_trans {x y z : Bytes} (h1 : bytesLe x y = true) (h2 : bytesLe y z = true) : bytesLe x z = true := by
  unfold bytesLe at *
  cases h : bytesLt z x with
  | false => rfl
  | true =>
    exfalso
    rcases bytesLt_trichotomy y x with h' | h' | h'
    · rw [h'] at h1; cases h1
    · subst h'; rw [h] at h2; cases h2
    · have := bytesLt_trans h h'
      rw [this] at h2; cases h2

theorem bytesLe_antisymm {x y : Bytes} (h1 : bytesLe x y = true) (h2 : bytesLe y x = true) : x = y := by
  unfold bytesLe at *
  rcases bytesLt_trichotomy x y with h | h | h
  · rw [h] at h2; cases h2
  · exact h
  · rw [h] at h1; cases h1

theorem alphaLe_total (a b : Option Bytes) : alphaLe a b = true ∨ alphaLe b a = true := by
  cases a <;> cases b <;> simp [alphaLe]
  exact bytesLe_total _ _

theorem alphaLe_trans {a b c : Option Bytes} (h1 : alphaLe a b = true) (h2 : alphaLe b c = true) :
    alphaLe a c = true := by
  cases a <;> cases b <;> cases c <;> simp_all [alphaLe]
  exact bytesLe_trans h1 h2

theorem alphaKeyLe_totalPre : TotalPre alphaKeyLe (fun _ => True) :=
  ⟨fun a b _ _ => alphaLe_total a.1 b.1, fun _ _ _ _ _ _ h1 h2 => alphaLe_trans h1 h2⟩

/-! ## 3. `_lookup_key` as a pure function -/

/-- the key (and, after `->`, the hash field) that `_lookup_key(key, pattern)` reads; `none`: no `*` in the pattern -/
def patKey (pattern key : Bytes) : Option (Bytes × Option Bytes) :=
  match findSub [42] pattern with
  | none => none
  | some p =>
    match findSub [45, 62] ((pattern.drop (p + 1)).take ((pattern.drop (p + 1)).length - 1)) with
    | some a => some (pattern.take p ++ key ++ (pattern.drop (p + 1)).take a, some ((pattern.drop (p + 1)).drop (a + 2)))
    | none => some (pattern.take p ++ key ++ pattern.drop (p + 1), none)

/-- what `_lookup_key` extracts from the entry it found -/
def pick (field : Option Bytes) (it : Option Item) : Option Bytes :=
  match it with
  | none => none
  | some it =>
    match field, it.value with
    | some f, .hash h => h.lookup f
    | some _, _ => none
    | none, .str b => some b
    | none, _ => none

/-- `_lookup_key` on one database: the database after the lazy deletion, and the value -/
def lookupDb (db : Db) (key pattern : Bytes) : Db × Option Bytes :=
  if pattern == [35] then (db, some key)
  else match patKey pattern key with
    | none => (db, none)
    | some (nk, f) => ((db.get nk).1, pick f (db.get nk).2)

/-- `_lookup_key` on the live view -/
def lookupLive (live : Bytes → Option Item) (key pattern : Bytes) : Option Bytes :=
  if pattern == [35] then some key
  else match patKey pattern key with
    | none => none
    | some (nk, f) => pick f (live nk)

theorem lookupKey_run (d : Nat) (key pattern : Bytes) (s : Sys) :
    lookupKey d key pattern s =
      ((lookupDb (s.dbAt d) key pattern).2, s.setDbS d (lookupDb (s.dbAt d) key pattern).1) := by
  unfold lookupKey lookupDb patKey
  by_cases h : (pattern == [35]) = true
  · simp only [h, if_true, ZStore.setDbS_dbAt_id]; rfl
  · simp only [h, Bool.false_eq_true, if_false]
    cases findSub [42] pattern with
    | none => simp only [ZStore.setDbS_dbAt_id]; rfl
    | some p =>
      simp only []
      cases findSub [45, 62] ((pattern.drop (p + 1)).take ((pattern.drop (p + 1)).length - 1)) with
      | none =>
        simp only [bind, StateT.bind, getDb_run', setDb_run']
        generalize (s.dbAt d).get (pattern.take p ++ key ++ pattern.drop (p + 1)) = r
        obtain ⟨db', item⟩ := r
        cases item with
        | none => rfl
        | some it => simp only [pick]; cases it.value <;> rfl
      | some a =>
        simp only [bind, StateT.bind, getDb_run', setDb_run']
        generalize (s.dbAt d).get (pattern.take p ++ key ++ (pattern.drop (p + 1)).take a) = r
        obtain ⟨db', item⟩ := r
        cases item with
        | none => rfl
        | some it => simp only [pick]; cases it.value <;> rfl

theorem lookupDb_time (db : Db) (key pattern : Bytes) : (lookupDb db key pattern).1.time = db.time := by
  unfold lookupDb
  split
  · rfl
  · split
    · rfl
    · exact Db.get_time _ _

theorem lookupDb_reads {db : Db} (nd : NodupKeys db.dict) (key pattern : Bytes) :
    Reads db (lookupDb db key pattern).1 := by
  unfold lookupDb
  split
  · exact Reads.refl nd
  · split
    · exact Reads.refl nd
    · exact Reads.get nd _

theorem lookupDb_snd {db : Db} (nd : NodupKeys db.dict) (key pattern : Bytes) :
    (lookupDb db key pattern).2 = lookupLive db.live key pattern := by
  unfold lookupDb lookupLive
  split
  · rfl
  · split
    · rfl
    · simp only [ZStore.get_snd_eq_live nd]

theorem lookupLive_congr {f g : Bytes → Option Item} (h : ∀ k, f k = g k) (key pattern : Bytes) :
    lookupLive f key pattern = lookupLive g key pattern := by
  have : f = g := funext h
  rw [this]

/-- `#` is the element itself -/
theorem lookupLive_hash (live : Bytes → Option Item) (key : Bytes) : lookupLive live key [35] = some key := rfl

/-! ### threaded look-ups -/

/-- the look-ups `(element, pattern)` in order, threading the lazily purged database -/
def lookupsDb : List (Bytes × Bytes) → Db → Db × List (Option Bytes)
  | [], db => (db, [])
  | q :: rest, db =>
    ((lookupsDb rest (lookupDb db q.1 q.2).1).1, (lookupDb db q.1 q.2).2 :: (lookupsDb rest (lookupDb db q.1 q.2).1).2)

theorem lookupsDb_cons (q : Bytes × Bytes) (rest : List (Bytes × Bytes)) (db : Db) :
    lookupsDb (q :: rest) db =
      ((lookupsDb rest (lookupDb db q.1 q.2).1).1,
       (lookupDb db q.1 q.2).2 :: (lookupsDb rest (lookupDb db q.1 q.2).1).2) := rfl

theorem lookupsDb_time (qs : List (Bytes × Bytes)) (db : Db) : (lookupsDb qs db).1.time = db.time := by
  induction qs generalizing db with
  | nil => rfl
  | cons q qs ih => rw [lookupsDb_cons, ih, lookupDb_time]

theorem lookupsDb_append (a b : List (Bytes × Bytes)) (db : Db) :
    lookupsDb (a ++ b) db =
      ((lookupsDb b (lookupsDb a db).1).1, (lookupsDb a db).2 ++ (lookupsDb b (lookupsDb a db).1).2) := by
  induction a generalizing db with
  | nil => rfl
  | cons q a ih =>
    rw [List.cons_append, lookupsDb_cons, lookupsDb_cons, ih]
    rfl

theorem lookupsDb_spec (qs : List (Bytes × Bytes)) (db : Db) (nd : NodupKeys db.dict) :
    Reads db (lookupsDb qs db).1 ∧ (lookupsDb qs db).2 = qs.map (fun q => lookupLive db.live q.1 q.2) := by
  induction qs generalizing db with
  | nil => exact ⟨Reads.refl nd, rfl⟩
  | cons q qs ih =>
    rw [lookupsDb_cons]
    have hr := lookupDb_reads nd q.1 q.2
    obtain ⟨h1, h2⟩ := ih _ hr.nd
    refine ⟨hr.trans h1, ?_⟩
    show _ :: _ = _
    rw [h2, lookupDb_snd nd, List.map_cons]
    congr 1
    exact List.map_congr_left (fun q' _ => lookupLive_congr (fun k => ZStore.Reads.live hr k) _ _)

/-- the numeric key of one element: its weight converted by `SortFloat`, `0.0` for a missing weight -/
def numKey (live : Bytes → Option Item) (pat : Bytes) (v : Bytes) : Except Err Dbl :=
  match lookupLive live v pat with
  | none => .ok Dbl.zero
  | some b => Conv.sortFloat b

/-- the `(score, element)` pairs of the numeric sort, or the first conversion error -/
def numKeyed (live : Bytes → Option Item) (pat : Bytes) : List Bytes → Except Err (List (Dbl × Bytes))
  | [] => .ok []
  | v :: vs =>
    match numKey live pat v with
    | .error e => .error e
    | .ok x =>
      match numKeyed live pat vs with
      | .error e => .error e
      | .ok ks => .ok ((x, v) :: ks)

/-- the numeric key loop on one database: no look-up after the first conversion error -/
def numLoop (pat : Bytes) : List Bytes → Db → List (Dbl × Bytes) → Db × Except Err (List (Dbl × Bytes))
  | [], db, acc => (db, .ok acc)
  | v :: vs, db, acc =>
    match (lookupDb db v pat).2 with
    | none => numLoop pat vs (lookupDb db v pat).1 (acc ++ [(Dbl.zero, v)])
    | some b =>
      match Conv.sortFloat b with
      | .ok x => numLoop pat vs (lookupDb db v pat).1 (acc ++ [(x, v)])
      | .error e => ((lookupDb db v pat).1, .error e)

theorem numLoop_time (pat : Bytes) (vs : List Bytes) (db : Db) (acc : List (Dbl × Bytes)) :
    (numLoop pat vs db acc).1.time = db.time := by
  induction vs generalizing db acc with
  | nil => rfl
  | cons v vs ih =>
    unfold numLoop
    split
    · rw [ih, lookupDb_time]
    · split
      · rw [ih, lookupDb_time]
      · exact lookupDb_time _ _ _

theorem numKeyed_congr {f g : Bytes → Option Item} (h : ∀ k, f k = g k) (pat : Bytes) (vs : List Bytes) :
    numKeyed f pat vs = numKeyed g pat vs := by
  have : f = g := funext h
  rw [this]

theorem numLoop_spec (pat : Bytes) (vs : List Bytes) (db : Db) (nd : NodupKeys db.dict) (acc : List (Dbl × Bytes)) :
    Reads db (numLoop pat vs db acc).1 ∧
      (numLoop pat vs db acc).2 = (match numKeyed db.live pat vs with
        | .ok ks => .ok (acc ++ ks)
        | .error e => .error e) := by
  induction vs generalizing db acc with
  | nil => exact ⟨Reads.refl nd, by simp [numLoop, numKeyed]⟩
  | cons v vs ih =>
    have hr := lookupDb_reads nd v pat
    have hl : ∀ k, (lookupDb db v pat).1.live k = db.live k := fun k => ZStore.Reads.live hr k
    unfold numLoop numKeyed numKey
    rw [← lookupDb_snd nd]
    cases hw : (lookupDb db v pat).2 with
    | none =>
      simp only []
      obtain ⟨h1, h2⟩ := ih _ hr.nd (acc ++ [(Dbl.zero, v)])
      refine ⟨hr.trans h1, ?_⟩
      rw [h2, numKeyed_congr hl]
      cases numKeyed db.live pat vs <;> simp
    | some b =>
      simp only []
      cases hx : Conv.sortFloat b with
      | error e => exact ⟨hr, rfl⟩
      | ok x =>
        simp only []
        obtain ⟨h1, h2⟩ := ih _ hr.nd (acc ++ [(x, v)])
        refine ⟨hr.trans h1, ?_⟩
        rw [h2, numKeyed_congr hl]
        cases numKeyed db.live pat vs <;> simp

/-! ## 4. The pure description of the body -/

/-- `isinstance(key.value, (set, list, ZSet))` fails -/
def wrongTy : Option Value → Bool
  | none => false
  | some (.set _) | some (.list _) | some (.zset _) => false
  | some _ => true

/-- a recorded iteration order of a set is accepted iff it is a permutation of the stored members -/
def validHint (p m : List Bytes) : Bool := p.length == m.length && p.all m.contains && m.all p.contains

/-- `list(key.value)`: the elements in iteration order (a set consumes one hint), and the state afterwards -/
def takeItems (v : Option Value) (s : Sys) : Option (List Bytes) × Sys :=
  match v with
  | some (.list l) => (some l, s)
  | some (.zset z) => (some (z.byscore.map Prod.snd), s)
  | some (.set m) =>
    match s.picks with
    | p :: restp => if validHint p m then (some p, { s with picks := restp }) else (none, s)
    | [] => (none, s)
  | _ => (some [], s)

/-- the half-open range `[start, stop)` computed from LIMIT for `n` elements -/
def limits (o : SortOpts) (n : Int) : Int × Int :=
  let start := max o.limitStart 0
  let stop := if o.limitCount < 0 then n else start + o.limitCount
  let p : Int × Int := if start ≥ n then (n - 1, n - 1) else (start, stop)
  (p.1, min p.2 n)

/-- the sorting phase on one database -/
def sortDb (val : Option Value) (o : SortOpts) (items : List Bytes) (db : Db) : Db × Except Err (List Bytes) :=
  if !o.dontsort then
    if o.alpha then
      let r := lookupsDb (items.map fun v => (v, o.sortby.getD [35])) db
      (r.1, .ok ((if o.desc then descSort alphaKeyLe (r.2.zip items) else stableSort alphaKeyLe (r.2.zip items)).map
        Prod.snd))
    else
      let r := numLoop (o.sortby.getD [35]) items db []
      (r.1, match r.2 with
        | .error e => .error e
        | .ok keyed => .ok ((if o.desc then descSort numLe keyed else stableSort numLe keyed).map Prod.snd))
  else
    (db, .ok (match val with
      | some (.list _) | some (.zset _) => if o.desc then items.reverse else items
      | _ => items))

def getsOf (o : SortOpts) : List Bytes := if o.gets.isEmpty then [[35]] else o.gets

/-- with STORE a missing value is stored as the empty string -/
def fixGet (o : SortOpts) (v : Option Bytes) : Option Bytes := if o.store.isSome && v.isNone then some [] else v

/-- the look-ups of the GET phase, row by row -/
def getReqs (o : SortOpts) (rows : List Bytes) : List (Bytes × Bytes) :=
  rows.flatMap fun row => (getsOf o).map fun g => (row, g)

/-- the `CommandItem` written back by STORE -/
def storeCI (dst : Bytes) (vals : List Bytes) : CI :=
  ({ key := dst, val := none, expireat := none } : CI).setValue (some (.list vals))

/-- LIMIT, GET, STORE / reply -/
def finish (d : Nat) (cis : List CI) (o : SortOpts) (sorted : List Bytes) (n : Int) :
    M (Except Err (Reply × List CI)) := fun s =>
  let g := lookupsDb (getReqs o (Py.slice sorted (limits o n).1 (limits o n).2)) (s.dbAt d)
  let out := g.2.map (fixGet o)
  match o.store with
  | none => (.ok (.arr (out.map Reply.ofOptBulk), cis), s.setDbS d g.1)
  | some dst =>
    (.ok (.int (out.map fun x => x.getD []).length, cis),
     ((s.setDbS d g.1).setDbS d (((s.setDbS d g.1).dbAt d).get dst).1).wbStep d
       (storeCI dst (out.map fun x => x.getD [])))

def badHintMsg : String := "sort: set order hint missing or not a permutation"

/-- the body after `list(key.value)`: options, sorting, LIMIT, GET, STORE -/
def coreTail (d : Nat) (val : Option Value) (rest : List Arg) (cis : List CI) (items? : Option (List Bytes)) :
    M (Except Err (Reply × List CI)) := fun s =>
  match parseSortOpts (Cmd.rawArgs rest) {} with
  | .error e => (.error e, s)
  | .ok o =>
    match items? with
    | none => (.error "model: bad hint", (M.fault badHintMsg s).2)
    | some items =>
      match (sortDb val o items (s.dbAt d)).2 with
      | .error e => (.error e, s.setDbS d (sortDb val o items (s.dbAt d)).1)
      | .ok sorted => finish d cis o sorted items.length (s.setDbS d (sortDb val o items (s.dbAt d)).1)

/-- the whole body on a state -/
def core (d k : Nat) (rest : List Arg) (cis : List CI) : M (Except Err (Reply × List CI)) := fun s =>
  if wrongTy (ciAt cis k).val then (.error Msgs.WRONGTYPE_MSG, s)
  else coreTail d (ciAt cis k).val rest cis (takeItems (ciAt cis k).val s).1 (takeItems (ciAt cis k).val s).2

/-! ### the loops of the body -/

theorem dbAt_chain (s : Sys) (d : Nat) (hd : d < s.srv.dbs.length) (db : Db) (ht : db.time = (s.dbAt d).time) :
    (s.setDbS d db).dbAt d = db :=
  Sys.setDbS_dbAt_self s d db hd ht

theorem pure_run {α : Type} (a : α) (s : Sys) : (pure a : M α) s = (a, s) := rfl

/-- the weight look-ups of the ALPHA sort -/
theorem mapM_lookup_run (d : Nat) (pat : Bytes) (items : List Bytes) (s : Sys) (hd : d < s.srv.dbs.length) :
    (items.mapM fun v => do
        let w ← lookupKey d v pat
        pure (w, v)) s =
      ((lookupsDb (items.map fun v => (v, pat)) (s.dbAt d)).2.zip items,
       s.setDbS d (lookupsDb (items.map fun v => (v, pat)) (s.dbAt d)).1) := by
  induction items generalizing s with
  | nil => simp only [List.mapM_nil, List.map_nil, lookupsDb, List.zip_nil_right, ZStore.setDbS_dbAt_id]; rfl
  | cons v vs ih =>
    have hlen : d < (s.setDbS d (lookupDb (s.dbAt d) v pat).1).srv.dbs.length := by rw [Sys.setDbS_len]; exact hd
    rw [List.mapM_cons]
    simp only [ZStore.bind_run, lookupKey_run, pure_run]
    rw [ih _ hlen, dbAt_chain s d hd _ (lookupDb_time _ _ _), ZStore.setDbS_setDbS]
    rfl

abbrev NumSt := List (Dbl × Bytes) × Option Err

/-- body of the numeric key loop, as elaborated -/
def numBody (d : Nat) (pat : Bytes) (v : Bytes) (st : NumSt) : M (ForInStep NumSt) :=
  if st.2.isNone = true then do
    let w ← lookupKey d v pat
    match w with
    | none => pure (ForInStep.yield (st.1 ++ [(Dbl.zero, v)], st.2))
    | some b =>
      match Conv.sortFloat b with
      | .ok x => pure (ForInStep.yield (st.1 ++ [(x, v)], st.2))
      | .error e => pure (ForInStep.yield (st.1, some e))
  else pure (ForInStep.yield (st.1, st.2))

theorem numLoop_err (d : Nat) (pat : Bytes) (vs : List Bytes) (k : List (Dbl × Bytes)) (e : Err) (s : Sys) :
    forIn vs ((k, some e) : NumSt) (numBody d pat) s = ((k, some e), s) := by
  induction vs generalizing s with
  | nil => rfl
  | cons v vs ih =>
    rw [List.forIn_cons, ZStore.bind_run]
    have : numBody d pat v (k, some e) s = (ForInStep.yield (k, some e), s) := rfl
    rw [this]
    exact ih s

theorem numLoop_run (d : Nat) (pat : Bytes) (vs : List Bytes) (acc : List (Dbl × Bytes)) (s : Sys)
    (hd : d < s.srv.dbs.length) :
    ∃ res : NumSt, forIn vs ((acc, none) : NumSt) (numBody d pat) s =
        (res, s.setDbS d (numLoop pat vs (s.dbAt d) acc).1) ∧
      (match (numLoop pat vs (s.dbAt d) acc).2 with
       | .ok ks => res = (ks, none)
       | .error e => res.2 = some e) := by
  induction vs generalizing acc s with
  | nil => exact ⟨(acc, none), by simp only [numLoop, ZStore.setDbS_dbAt_id]; rfl, rfl⟩
  | cons v vs ih =>
    have hlen : d < (s.setDbS d (lookupDb (s.dbAt d) v pat).1).srv.dbs.length := by rw [Sys.setDbS_len]; exact hd
    have hch := dbAt_chain s d hd _ (lookupDb_time (s.dbAt d) v pat)
    rw [List.forIn_cons, ZStore.bind_run]
    have hb : numBody d pat v (acc, none) s =
        ((match (lookupDb (s.dbAt d) v pat).2 with
          | none => ForInStep.yield (acc ++ [(Dbl.zero, v)], none)
          | some b =>
            match Conv.sortFloat b with
            | .ok x => ForInStep.yield (acc ++ [(x, v)], none)
            | .error e => ForInStep.yield (acc, some e)),
         s.setDbS d (lookupDb (s.dbAt d) v pat).1) := by
      unfold numBody
      simp only [Option.isNone_none, if_true, ZStore.bind_run, lookupKey_run]
      cases (lookupDb (s.dbAt d) v pat).2 with
      | none => rfl
      | some b => simp only []; cases Conv.sortFloat b <;> rfl
    rw [hb]
    unfold numLoop
    cases hw : (lookupDb (s.dbAt d) v pat).2 with
    | none =>
      simp only []
      obtain ⟨res, h1, h2⟩ := ih (acc ++ [(Dbl.zero, v)]) _ hlen
      rw [hch, ZStore.setDbS_setDbS] at h1
      rw [hch] at h2
      exact ⟨res, h1, h2⟩
    | some b =>
      simp only []
      cases hx : Conv.sortFloat b with
      | ok x =>
        simp only []
        obtain ⟨res, h1, h2⟩ := ih (acc ++ [(x, v)]) _ hlen
        rw [hch, ZStore.setDbS_setDbS] at h1
        rw [hch] at h2
        exact ⟨res, h1, h2⟩
      | error e =>
        simp only []
        exact ⟨(acc, some e), numLoop_err d pat vs acc e _, rfl⟩

/-- body of the inner GET loop, as elaborated -/
def getBody (d : Nat) (o : SortOpts) (row g : Bytes) (out : List (Option Bytes)) :
    M (ForInStep (List (Option Bytes))) := do
  let v ← lookupKey d row g
  pure (ForInStep.yield (out ++ [if (o.store.isSome && v.isNone) = true then some [] else v]))

theorem getInner_run (d : Nat) (o : SortOpts) (row : Bytes) (gs : List Bytes) (out : List (Option Bytes)) (s : Sys)
    (hd : d < s.srv.dbs.length) :
    forIn gs out (getBody d o row) s =
      (out ++ (lookupsDb (gs.map fun g => (row, g)) (s.dbAt d)).2.map (fixGet o),
       s.setDbS d (lookupsDb (gs.map fun g => (row, g)) (s.dbAt d)).1) := by
  induction gs generalizing out s with
  | nil => simp only [List.map_nil, lookupsDb, List.append_nil, ZStore.setDbS_dbAt_id]; rfl
  | cons g gs ih =>
    have hlen : d < (s.setDbS d (lookupDb (s.dbAt d) row g).1).srv.dbs.length := by rw [Sys.setDbS_len]; exact hd
    have hch := dbAt_chain s d hd _ (lookupDb_time (s.dbAt d) row g)
    rw [List.forIn_cons, ZStore.bind_run]
    have hb : getBody d o row g out s =
        (ForInStep.yield (out ++ [fixGet o (lookupDb (s.dbAt d) row g).2]),
         s.setDbS d (lookupDb (s.dbAt d) row g).1) := by
      unfold getBody
      simp only [ZStore.bind_run, lookupKey_run]
      rfl
    rw [hb]
    simp only []
    rw [ih _ _ hlen, hch, ZStore.setDbS_setDbS, List.map_cons, lookupsDb_cons]
    simp only [List.map_cons, List.append_assoc, List.singleton_append]

/-- body of the outer GET loop, as elaborated -/
def rowBody (d : Nat) (o : SortOpts) (row : Bytes) (out : List (Option Bytes)) :
    M (ForInStep (List (Option Bytes))) := do
  let r ← forIn (getsOf o) out (getBody d o row)
  pure (ForInStep.yield r)

theorem getOuter_run (d : Nat) (o : SortOpts) (rows : List Bytes) (out : List (Option Bytes)) (s : Sys)
    (hd : d < s.srv.dbs.length) :
    forIn rows out (rowBody d o) s =
      (out ++ (lookupsDb (getReqs o rows) (s.dbAt d)).2.map (fixGet o),
       s.setDbS d (lookupsDb (getReqs o rows) (s.dbAt d)).1) := by
  induction rows generalizing out s with
  | nil => simp only [getReqs, List.flatMap_nil, lookupsDb, List.map_nil, List.append_nil, ZStore.setDbS_dbAt_id]; rfl
  | cons row rows ih =>
    have hlen : d < (s.setDbS d (lookupsDb ((getsOf o).map fun g => (row, g)) (s.dbAt d)).1).srv.dbs.length := by
      rw [Sys.setDbS_len]; exact hd
    have hch := dbAt_chain s d hd _ (lookupsDb_time ((getsOf o).map fun g => (row, g)) (s.dbAt d))
    rw [List.forIn_cons, ZStore.bind_run]
    have hb : rowBody d o row out s =
        (ForInStep.yield (out ++ (lookupsDb ((getsOf o).map fun g => (row, g)) (s.dbAt d)).2.map (fixGet o)),
         s.setDbS d (lookupsDb ((getsOf o).map fun g => (row, g)) (s.dbAt d)).1) := by
      unfold rowBody
      rw [ZStore.bind_run, getInner_run d o row _ out s hd]
      rfl
    rw [hb]
    simp only []
    rw [ih _ _ hlen, hch, ZStore.setDbS_setDbS]
    have : getReqs o (row :: rows) = ((getsOf o).map fun g => (row, g)) ++ getReqs o rows := by
      simp only [getReqs, List.flatMap_cons]
    rw [this, lookupsDb_append]
    simp only [List.map_append, List.append_assoc]

/-- the monadic body equals the pure description -/
theorem sortCmd_eq (c d k : Nat) (rest : List Arg) (cis : List CI) (s : Sys) (hd : d < s.srv.dbs.length) :
    sortCmd c d (.key k :: rest) cis s = core d k rest cis s := by
  unfold sortCmd
  simp -zeta only []
  extract_lets key wrong out keyed err le jp
  have hjp : ∀ items? s1, d < s1.srv.dbs.length → jp items? s1 = coreTail d key.val rest cis items? s1 := by
    intro items? s1 hd1
    simp -zeta only [jp]
    unfold coreTail
    cases parseSortOpts (Cmd.rawArgs rest) {} with
    | error e => rfl
    | ok o =>
      cases items? with
      | none => rfl
      | some items =>
        simp -zeta only []
        extract_lets n start stop stop' gets sortby jp2
        have hjp2 : ∀ sorted? s2, d < s2.srv.dbs.length → jp2 sorted? s2 =
            (match sorted? with
             | .error e => (.error e, s2)
             | .ok sorted => finish d cis o sorted items.length s2) := by
          intro sorted? s2 hd2
          cases sorted? with
          | error e => rfl
          | ok sorted =>
            simp -zeta only [jp2]
            change (forIn (Py.slice sorted (limits o items.length).1 (limits o items.length).2) [] (rowBody d o) >>= _) s2 = _
            rw [ZStore.bind_run, getOuter_run d o _ _ s2 hd2]
            unfold finish
            simp only [List.nil_append]
            cases o.store with
            | none => rfl
            | some dst =>
              simp only [ZStore.bind_run, getDb_run', setDb_run', writebackAll_single, pure_run]
              rfl
        clear_value jp2
        have hlenS : ∀ db, d < (s1.setDbS d db).srv.dbs.length := fun db => by rw [Sys.setDbS_len]; exact hd1
        unfold sortDb
        by_cases hds : (!o.dontsort) = true
        · simp only [hds, if_true]
          by_cases ha : o.alpha = true
          · simp only [ha, if_true]
            change (List.mapM (fun v => do let w ← lookupKey d v (o.sortby.getD [35]); pure (w, v)) items >>= _) s1 = _
            rw [ZStore.bind_run, mapM_lookup_run d _ items s1 hd1]
            rw [ZStore.bind_run, pure_run]
            simp only []
            rw [hjp2 _ _ (hlenS _)]
            rfl
          · simp only [ha, Bool.false_eq_true, if_false]
            change (forIn items ((([] : List (Dbl × Bytes)), (none : Option Err)) : NumSt) (numBody d (o.sortby.getD [35])) >>= _) s1 = _
            obtain ⟨res, h1, h2⟩ := numLoop_run d (o.sortby.getD [35]) items [] s1 hd1
            rw [ZStore.bind_run, h1]
            simp only []
            cases hnl : (numLoop (o.sortby.getD [35]) items (s1.dbAt d) []).2 with
            | error e =>
              rw [hnl] at h2
              simp only [] at h2 ⊢
              rw [h2]
              simp only []
              rw [ZStore.bind_run, pure_run]
              simp only []
              rw [hjp2 _ _ (hlenS _)]
            | ok ks =>
              rw [hnl] at h2
              simp only [] at h2 ⊢
              rw [h2]
              simp only []
              rw [ZStore.bind_run, pure_run]
              simp only []
              rw [hjp2 _ _ (hlenS _)]
              rfl
        · simp only [hds, Bool.false_eq_true, if_false, ZStore.setDbS_dbAt_id]
          generalize key.val = v
          have fin : ∀ l : List Bytes, (pure (Except.ok l) >>= fun sorted? => jp2 sorted?) s1 =
              finish d cis o l items.length s1 := by
            intro l
            rw [ZStore.bind_run, pure_run]
            simp only []
            rw [hjp2 _ _ hd1]
          cases v with
          | none => exact fin _
          | some vv => cases vv <;> exact fin _
  clear_value jp
  unfold core
  simp only [wrong, key] at hjp ⊢
  generalize (ciAt cis k).val = v at hjp ⊢
  cases v with
  | none => exact hjp _ _ hd
  | some vv =>
    cases vv with
    | str b => rfl
    | hash h => rfl
    | list l => exact hjp _ _ hd
    | zset z => exact hjp _ _ hd
    | set m =>
      simp only [wrongTy, Bool.false_eq_true, if_false, takeItems]
      obtain ⟨srv, out', clocks, picks, flt, crashed⟩ := s
      cases picks with
      | nil => exact hjp _ _ hd
      | cons p restp =>
        simp only [validHint]
        by_cases hv : (p.length == m.length && p.all m.contains && m.all p.contains) = true
        · simp only [hv, if_true]
          refine Eq.trans ?_ (hjp _ _ hd)
          rw [ZStore.bind_run]
          show (ite ((p.length == m.length && p.all m.contains && m.all p.contains) = true) _ _ : M _) _ = _
          rw [if_pos hv]
          rfl
        · simp only [hv, Bool.false_eq_true, if_false]
          refine Eq.trans ?_ (hjp _ _ hd)
          rw [ZStore.bind_run]
          show (ite ((p.length == m.length && p.all m.contains && m.all p.contains) = true) _ _ : M _) _ = _
          rw [if_neg hv]
          rfl

/-! ## 5. The description on the live view -/

/-- the elements paired with their ALPHA weights -/
def alphaKeyed (live : Bytes → Option Item) (pat : Bytes) (items : List Bytes) : List (Option Bytes × Bytes) :=
  items.map fun v => (lookupLive live v pat, v)

/-- the sorted sequence (before LIMIT) -/
def sortedLive (live : Bytes → Option Item) (val : Option Value) (o : SortOpts) (items : List Bytes) :
    Except Err (List Bytes) :=
  if !o.dontsort then
    if o.alpha then
      .ok ((if o.desc then descSort alphaKeyLe (alphaKeyed live (o.sortby.getD [35]) items)
            else stableSort alphaKeyLe (alphaKeyed live (o.sortby.getD [35]) items)).map Prod.snd)
    else
      match numKeyed live (o.sortby.getD [35]) items with
      | .error e => .error e
      | .ok keyed => .ok ((if o.desc then descSort numLe keyed else stableSort numLe keyed).map Prod.snd)
  else
    .ok (match val with
      | some (.list _) | some (.zset _) => if o.desc then items.reverse else items
      | _ => items)

/-- the rows selected by LIMIT -/
def rowsOf (o : SortOpts) (sorted : List Bytes) (n : Int) : List Bytes :=
  Py.slice sorted (limits o n).1 (limits o n).2

/-- the GET expansion of the rows -/
def outLive (live : Bytes → Option Item) (o : SortOpts) (rows : List Bytes) : List (Option Bytes) :=
  rows.flatMap fun row => (getsOf o).map fun g => fixGet o (lookupLive live row g)

/-- the outcome of a SORT on a live view: the error, or the list that is replied / stored -/
def specLive (live : Bytes → Option Item) (val : Option Value) (o : SortOpts) (items : List Bytes) :
    Except Err (List (Option Bytes)) :=
  match sortedLive live val o items with
  | .error e => .error e
  | .ok sorted => .ok (outLive live o (rowsOf o sorted items.length))

theorem zip_map_self {α β : Type} (f : α → β) (l : List α) : (l.map f).zip l = l.map fun v => (f v, v) := by
  induction l with
  | nil => rfl
  | cons a l ih => simp only [List.map_cons, List.zip_cons_cons, ih]

theorem sortDb_time (val : Option Value) (o : SortOpts) (items : List Bytes) (db : Db) :
    (sortDb val o items db).1.time = db.time := by
  unfold sortDb
  split
  · split
    · exact lookupsDb_time _ _
    · exact numLoop_time _ _ _ _
  · rfl

theorem sortDb_spec (val : Option Value) (o : SortOpts) (items : List Bytes) (db : Db) (nd : NodupKeys db.dict) :
    Reads db (sortDb val o items db).1 ∧ (sortDb val o items db).2 = sortedLive db.live val o items := by
  unfold sortDb sortedLive
  by_cases hds : (!o.dontsort) = true
  · simp only [hds, if_true]
    by_cases ha : o.alpha = true
    · simp only [ha, if_true]
      obtain ⟨h1, h2⟩ := lookupsDb_spec (items.map fun v => (v, o.sortby.getD [35])) db nd
      refine ⟨h1, ?_⟩
      rw [h2, List.map_map]
      have : (List.map ((fun q : Bytes × Bytes => lookupLive db.live q.1 q.2) ∘ fun v => (v, o.sortby.getD [35])) items).zip
          items = alphaKeyed db.live (o.sortby.getD [35]) items := zip_map_self _ _
      rw [this]
    · simp only [ha, Bool.false_eq_true, if_false]
      obtain ⟨h1, h2⟩ := numLoop_spec (o.sortby.getD [35]) items db nd []
      refine ⟨h1, ?_⟩
      rw [h2]
      cases numKeyed db.live (o.sortby.getD [35]) items <;> simp
  · simp only [hds, Bool.false_eq_true, if_false]
    exact ⟨Reads.refl nd, trivial⟩

theorem getReqs_lookups (live : Bytes → Option Item) (o : SortOpts) (rows : List Bytes) :
    ((getReqs o rows).map fun q => lookupLive live q.1 q.2).map (fixGet o) = outLive live o rows := by
  unfold getReqs outLive
  simp only [List.map_flatMap, List.map_map]
  rfl

theorem sortedLive_congr {f g : Bytes → Option Item} (h : ∀ k, f k = g k) (val : Option Value) (o : SortOpts)
    (items : List Bytes) : sortedLive f val o items = sortedLive g val o items := by
  have : f = g := funext h
  rw [this]

/-- the stored list is written back: the destination holds it without a deadline (or is deleted when it is empty),
every other key keeps its live entry, `notify_watch(dst)` runs -/
theorem wbStep_store (s2 : Sys) (d : Nat) (nd : NodupKeys (s2.dbAt d).dict) (dst : Bytes) (vals : List Bytes) :
    ∃ dbf, s2.wbStep d (storeCI dst vals) = (s2.setDbS d dbf).mapConns (notifyFn d dst) ∧
      dbf.live dst = (if vals = [] then none else some ⟨.list vals, none⟩) ∧
      (∀ k, k ≠ dst → dbf.live k = (s2.dbAt d).live k) ∧ NodupKeys dbf.dict ∧ dbf.time = (s2.dbAt d).time ∧
      (∀ q ∈ dbf.dict, q ∈ (s2.dbAt d).dict ∨ q = (dst, ⟨.list vals, none⟩)) := by
  refine ⟨((storeCI dst vals).writeback (s2.dbAt d)).1, ?_, ?_, ?_, CI.writeback_nodup _ nd,
    CI.writeback_time _ _, ?_⟩
  · unfold Sys.wbStep
    simp only [storeCI, CI.setValue, if_true]
  · unfold CI.writeback
    simp only [storeCI, CI.setValue, if_true, Value.isEmptyColl]
    cases vals with
    | nil => simp only [List.isEmpty_nil, if_true]; exact live_pop_self _ _
    | cons v vs =>
      simp only [List.isEmpty_cons, Bool.false_eq_true, if_false, reduceCtorEq]
      exact live_put_self nd _ _ _ rfl
  · intro k hk
    exact CI.writeback_live_ne _ nd hk
  · intro q hq
    unfold CI.writeback at hq
    simp only [storeCI, CI.setValue, if_true] at hq
    split at hq
    · rw [Db.pop_eq] at hq
      exact Or.inl (Db.mem_erase hq)
    · unfold Db.put at hq
      simp only at hq
      rcases Db.mem_setRaw hq with h | h
      · exact Or.inl (Db.get_dict_sub h)
      · exact Or.inr h

/-- the last phase on a state: reply / STORE -/
theorem finish_spec (d : Nat) (cis : List CI) (o : SortOpts) (sorted : List Bytes) (n : Int) (s : Sys)
    (hd : d < s.srv.dbs.length) (nd : NodupKeys (s.dbAt d).dict) :
    ∃ db', Reads (s.dbAt d) db' ∧
      finish d cis o sorted n s =
        (match o.store with
         | none => (.ok (.arr ((outLive (s.dbAt d).live o (rowsOf o sorted n)).map Reply.ofOptBulk), cis), s.setDbS d db')
         | some dst =>
           (.ok (.int ((outLive (s.dbAt d).live o (rowsOf o sorted n)).map fun x => x.getD []).length, cis),
            (s.setDbS d db').wbStep d
              (storeCI dst ((outLive (s.dbAt d).live o (rowsOf o sorted n)).map fun x => x.getD [])))) := by
  obtain ⟨h1, h2⟩ := lookupsDb_spec (getReqs o (rowsOf o sorted n)) (s.dbAt d) nd
  unfold finish
  simp only []
  have hout : (lookupsDb (getReqs o (Py.slice sorted (limits o n).1 (limits o n).2)) (s.dbAt d)).2.map (fixGet o) =
      outLive (s.dbAt d).live o (rowsOf o sorted n) := by
    show (lookupsDb (getReqs o (rowsOf o sorted n)) (s.dbAt d)).2.map (fixGet o) = _
    rw [h2, getReqs_lookups]
  rw [hout]
  cases o.store with
  | none => exact ⟨_, h1, rfl⟩
  | some dst =>
    simp only []
    have hch := dbAt_chain s d hd _ (lookupsDb_time (getReqs o (rowsOf o sorted n)) (s.dbAt d))
    refine ⟨((lookupsDb (getReqs o (rowsOf o sorted n)) (s.dbAt d)).1.get dst).1, h1.trans (Reads.get h1.nd dst), ?_⟩
    show (_, Sys.wbStep (Sys.setDbS (s.setDbS d (lookupsDb (getReqs o (rowsOf o sorted n)) (s.dbAt d)).1) d
      (((s.setDbS d (lookupsDb (getReqs o (rowsOf o sorted n)) (s.dbAt d)).1).dbAt d).get dst).1) d _) = _
    rw [hch, ZStore.setDbS_setDbS]

/-- the body after `list(key.value)` on a state whose database `d` is well formed -/
theorem coreTail_spec (d : Nat) (val : Option Value) (rest : List Arg) (cis : List CI) (items : List Bytes) (s : Sys)
    (hd : d < s.srv.dbs.length) (nd : NodupKeys (s.dbAt d).dict) (o : SortOpts)
    (ho : parseSortOpts (Cmd.rawArgs rest) {} = .ok o) :
    ∃ db', Reads (s.dbAt d) db' ∧
      coreTail d val rest cis (some items) s =
        (match specLive (s.dbAt d).live val o items with
         | .error e => (.error e, s.setDbS d db')
         | .ok out =>
           match o.store with
           | none => (.ok (.arr (out.map Reply.ofOptBulk), cis), s.setDbS d db')
           | some dst =>
             (.ok (.int (out.map fun x => x.getD []).length, cis),
              (s.setDbS d db').wbStep d (storeCI dst (out.map fun x => x.getD [])))) := by
  obtain ⟨h1, h2⟩ := sortDb_spec val o items (s.dbAt d) nd
  unfold coreTail specLive
  rw [ho]
  simp only []
  rw [h2]
  cases hs : sortedLive (s.dbAt d).live val o items with
  | error e => exact ⟨_, h1, rfl⟩
  | ok sorted =>
    simp only []
    have hch := dbAt_chain s d hd _ (sortDb_time val o items (s.dbAt d))
    have hlen : d < (s.setDbS d (sortDb val o items (s.dbAt d)).1).srv.dbs.length := by rw [Sys.setDbS_len]; exact hd
    obtain ⟨db', hr, hf⟩ := finish_spec d cis o sorted items.length _ hlen (by rw [hch]; exact h1.nd)
    rw [hch] at hr hf
    have hl : (sortDb val o items (s.dbAt d)).1.live = (s.dbAt d).live := funext (fun k => ZStore.Reads.live h1 k)
    rw [hl, ZStore.setDbS_setDbS] at hf
    refine ⟨db', h1.trans hr, ?_⟩
    rw [hf]

/-! ## 6. Facts about the pieces -/

theorem sortFloat_error_msg {b : Bytes} {e : Err} (h : Conv.sortFloat b = .error e) :
    e = Msgs.INVALID_SORT_FLOAT_MSG := by
  unfold Conv.sortFloat Conv.floatGen at h
  simp only [] at h
  repeat' split at h
  all_goals first | (cases h; rfl) | cases h

theorem sortFloat_not_nan {b : Bytes} {x : Dbl} (h : Conv.sortFloat b = .ok x) : x.isNaN = false := by
  unfold Conv.sortFloat Conv.floatGen at h
  simp only [] at h
  repeat' split at h
  all_goals first | (cases h; done) | (cases h; simp_all)

theorem numKey_not_nan {live : Bytes → Option Item} {pat v : Bytes} {x : Dbl} (h : numKey live pat v = .ok x) :
    x.isNaN = false := by
  unfold numKey at h
  split at h
  · cases h; rfl
  · exact sortFloat_not_nan h

theorem numKey_error_msg {live : Bytes → Option Item} {pat v : Bytes} {e : Err} (h : numKey live pat v = .error e) :
    e = Msgs.INVALID_SORT_FLOAT_MSG := by
  unfold numKey at h
  split at h
  · cases h
  · exact sortFloat_error_msg h

/-- without BY the numeric key of an element is its own `SortFloat` value -/
theorem numKey_plain (live : Bytes → Option Item) (v : Bytes) : numKey live [35] v = Conv.sortFloat v := rfl

theorem numKeyed_ok {live : Bytes → Option Item} {pat : Bytes} {items : List Bytes} {ks : List (Dbl × Bytes)}
    (h : numKeyed live pat items = .ok ks) :
    ks.map Prod.snd = items ∧ ∀ p ∈ ks, numKey live pat p.2 = .ok p.1 ∧ p.1.isNaN = false := by
  induction items generalizing ks with
  | nil => simp only [numKeyed, Except.ok.injEq] at h; subst h; exact ⟨rfl, fun p hp => by cases hp⟩
  | cons v vs ih =>
    unfold numKeyed at h
    cases hx : numKey live pat v with
    | error e => rw [hx] at h; cases h
    | ok x =>
      rw [hx] at h
      simp only [] at h
      cases hr : numKeyed live pat vs with
      | error e => rw [hr] at h; cases h
      | ok ks' =>
        rw [hr] at h
        simp only [Except.ok.injEq] at h
        subst h
        obtain ⟨h1, h2⟩ := ih hr
        refine ⟨by simp [h1], ?_⟩
        intro p hp
        rcases List.mem_cons.mp hp with rfl | hp
        · exact ⟨hx, numKey_not_nan hx⟩
        · exact h2 p hp

theorem numKeyed_error_iff (live : Bytes → Option Item) (pat : Bytes) (items : List Bytes) :
    (∃ e, numKeyed live pat items = .error e) ↔ ∃ v ∈ items, ∃ e, numKey live pat v = .error e := by
  induction items with
  | nil => simp [numKeyed]
  | cons v vs ih =>
    unfold numKeyed
    cases hx : numKey live pat v with
    | error e => exact ⟨fun _ => ⟨v, List.mem_cons_self, e, hx⟩, fun _ => ⟨e, rfl⟩⟩
    | ok x =>
      simp only []
      cases hr : numKeyed live pat vs with
      | error e =>
        rw [hr] at ih
        have := ih.mp ⟨e, rfl⟩
        obtain ⟨w, hw, e', he'⟩ := this
        simp only [Except.error.injEq, exists_eq', List.mem_cons, true_iff]
        exact ⟨w, Or.inr hw, e', he'⟩
      | ok ks =>
        rw [hr] at ih
        simp only [reduceCtorEq, exists_false, List.mem_cons, false_iff]
        rintro ⟨w, hw, e, he⟩
        rcases hw with rfl | hw
        · rw [hx] at he; cases he
        · exact (ih.mpr ⟨w, hw, e, he⟩).elim (fun _ h => by cases h)

theorem numKeyed_error_msg {live : Bytes → Option Item} {pat : Bytes} {items : List Bytes} {e : Err}
    (h : numKeyed live pat items = .error e) : e = Msgs.INVALID_SORT_FLOAT_MSG := by
  induction items with
  | nil => cases h
  | cons v vs ih =>
    unfold numKeyed at h
    cases hx : numKey live pat v with
    | error e' => rw [hx] at h; cases h; exact numKey_error_msg hx
    | ok x =>
      rw [hx] at h
      simp only [] at h
      cases hr : numKeyed live pat vs with
      | error e' => rw [hr] at h; cases h; exact ih hr
      | ok ks => rw [hr] at h; cases h

/-- the numeric comparison spelled out: by score, ties by the bytes of the element -/
theorem numLe_iff (a b : Dbl × Bytes) (ha : a.1.isNaN = false) (hb : b.1.isNaN = false) :
    numLe a b = true ↔ (Dbl.lt a.1 b.1 = true ∨ (Dbl.eq a.1 b.1 = true ∧ bytesLe a.2 b.2 = true)) := by
  unfold numLe pairLt bytesLe
  rcases Dbl.trichotomy ha hb with ⟨h1, h2, h3⟩ | ⟨h1, h2, h3⟩ | ⟨h1, h2, h3⟩
  · rw [Dbl.eq_comm, h2]; simp [h1, h3]
  · rw [Dbl.eq_comm, h2]; simp [h1, LexB.lt]
  · rw [Dbl.eq_comm, h2]; simp [h1, h3]

theorem alphaKeyed_snd (live : Bytes → Option Item) (pat : Bytes) (items : List Bytes) :
    (alphaKeyed live pat items).map Prod.snd = items := by
  unfold alphaKeyed
  rw [List.map_map]
  exact List.map_id'' (fun _ => rfl) items

/-- the length of the sorted sequence -/
theorem sortedLive_perm {live : Bytes → Option Item} {val : Option Value} {o : SortOpts} {items sorted : List Bytes}
    (h : sortedLive live val o items = .ok sorted) : sorted.Perm items := by
  unfold sortedLive at h
  split at h
  · split at h
    · cases h
      refine (List.Perm.map _ ?_).trans (List.Perm.of_eq (alphaKeyed_snd live (o.sortby.getD [35]) items))
      split
      · exact descSort_perm _ _
      · exact ZStore.stableSort_perm _ _
    · split at h
      · cases h
      · rename_i ks hks
        cases h
        refine (List.Perm.map _ ?_).trans (List.Perm.of_eq (numKeyed_ok hks).1)
        split
        · exact descSort_perm _ _
        · exact ZStore.stableSort_perm _ _
  · cases h
    split
    · split
      · exact List.reverse_perm _
      · exact List.Perm.refl _
    · split
      · exact List.reverse_perm _
      · exact List.Perm.refl _
    · exact List.Perm.refl _

theorem sortedLive_length {live : Bytes → Option Item} {val : Option Value} {o : SortOpts} {items sorted : List Bytes}
    (h : sortedLive live val o items = .ok sorted) : sorted.length = items.length :=
  (sortedLive_perm h).length_eq

/-- LIMIT as `drop` / `take` -/
theorem rowsOf_eq (o : SortOpts) (sorted : List Bytes) :
    rowsOf o sorted sorted.length =
      (sorted.drop (max o.limitStart 0).toNat).take
        (if o.limitCount < 0 then sorted.length else o.limitCount.toNat) := by
  unfold rowsOf limits Py.slice Py.adj
  simp only []
  by_cases h1 : max o.limitStart 0 ≥ (sorted.length : Int)
  · simp only [h1, if_true]
    have hd : sorted.drop (max o.limitStart 0).toNat = [] := List.drop_eq_nil_of_le (by omega)
    rw [hd, List.take_nil]
    apply List.take_eq_nil_iff.mpr
    left
    have : min ((sorted.length : Int) - 1) sorted.length = sorted.length - 1 := by omega
    rw [this]
    split <;> split <;> omega
  · simp only [h1, if_false]
    have hs : ¬ max o.limitStart 0 < 0 := by omega
    have hs' : ¬ max o.limitStart 0 > (sorted.length : Int) := by omega
    simp only [hs, hs', if_false]
    by_cases hc : o.limitCount < 0
    · simp only [hc, if_true]
      have : min (sorted.length : Int) sorted.length = sorted.length := by omega
      simp only [this]
      have h3 : ¬ (sorted.length : Int) < 0 := by omega
      simp only [h3, if_false, Int.lt_irrefl, gt_iff_lt, Int.toNat_natCast]
      rw [List.take_of_length_le (by simp), List.take_of_length_le (by simp)]
    · simp only [hc, if_false]
      have h3 : ¬ min (max o.limitStart 0 + o.limitCount) (sorted.length : Int) < 0 := by omega
      have h4 : ¬ min (max o.limitStart 0 + o.limitCount) (sorted.length : Int) > (sorted.length : Int) := by omega
      simp only [h3, h4, if_false]
      apply List.ext_getElem?
      intro i
      simp only [List.getElem?_take, List.getElem?_drop]
      by_cases hi : i < o.limitCount.toNat
      · by_cases hi2 : i < (min (max o.limitStart 0 + o.limitCount) (sorted.length : Int)).toNat - (max o.limitStart 0).toNat
        · simp [hi, hi2]
        · simp only [hi, hi2, if_true, if_false]
          symm
          apply List.getElem?_eq_none
          omega
      · have hi2 : ¬ i < (min (max o.limitStart 0 + o.limitCount) (sorted.length : Int)).toNat - (max o.limitStart 0).toNat := by
          omega
        simp [hi, hi2]

theorem fixGet_some (o : SortOpts) (b : Bytes) : fixGet o (some b) = some b := by
  unfold fixGet; simp

/-- without GET the rows are replied as they are -/
theorem outLive_plain (live : Bytes → Option Item) (o : SortOpts) (rows : List Bytes) (hg : o.gets = []) :
    outLive live o rows = rows.map some := by
  unfold outLive getsOf
  simp only [hg, List.isEmpty_nil, if_true, List.map_cons, List.map_nil, lookupLive_hash, fixGet_some]
  induction rows with
  | nil => rfl
  | cons r rs ih => simp only [List.flatMap_cons, List.map_cons, ih]; rfl

theorem outLive_length (live : Bytes → Option Item) (o : SortOpts) (rows : List Bytes) :
    (outLive live o rows).length = rows.length * (getsOf o).length := by
  unfold outLive
  induction rows with
  | nil => simp
  | cons r rs ih => simp only [List.flatMap_cons, List.length_append, List.length_map, ih, List.length_cons]; rw [Nat.succ_mul]; omega

theorem takeItems_dbAt (v : Option Value) (s : Sys) (d : Nat) : (takeItems v s).2.dbAt d = s.dbAt d := by
  unfold takeItems
  split
  · rfl
  · rfl
  · split
    · split <;> rfl
    · rfl
  · rfl

theorem takeItems_srv (v : Option Value) (s : Sys) : (takeItems v s).2.srv = s.srv := by
  unfold takeItems
  split
  · rfl
  · rfl
  · split
    · split <;> rfl
    · rfl
  · rfl

/-! ## 7. "Sorted stably", ascending or descending -/

/-- `L` is `ks` sorted by `le` (ascending, or descending when `desc`), tied elements in source order -/
structure SortedBy {α : Type} (le : α → α → Bool) (desc : Bool) (ks L : List α) : Prop where
  perm : L.Perm ks
  sorted : L.Pairwise (fun a b => if desc = true then le b a = true else le a b = true)
  stable : ∀ p : α → Bool, (∀ a ∈ ks, ∀ b ∈ ks, p a = true → p b = true → le a b = true) → L.filter p = ks.filter p

theorem sortedBy_model {α : Type} (le : α → α → Bool) {S : α → Prop} (h : TotalPre le S) (desc : Bool) (ks : List α)
    (hS : ∀ a ∈ ks, S a) : SortedBy le desc ks (if desc = true then descSort le ks else stableSort le ks) := by
  cases desc with
  | false =>
    simp only [Bool.false_eq_true, if_false]
    exact ⟨ZStore.stableSort_perm le ks, stableSort_sorted le h ks hS, fun p hp => stableSort_filter le p ks hp⟩
  | true =>
    simp only [if_true]
    exact ⟨descSort_perm le ks, descSort_sorted le h ks hS, fun p hp => descSort_filter le p ks hp⟩

/-- the three conditions determine the result -/
theorem SortedBy.unique {α : Type} {le : α → α → Bool} {S : α → Prop} (h : TotalPre le S) {desc : Bool}
    {ks L L' : List α} (hS : ∀ a ∈ ks, S a) (h1 : SortedBy le desc ks L) (h2 : SortedBy le desc ks L') : L = L' := by
  have hSL : ∀ a ∈ L, S a := fun a ha => hS a (h1.perm.mem_iff.mp ha)
  have hst : ∀ k, S k → L.filter (tied le k) = L'.filter (tied le k) := by
    intro k hk
    have hp : ∀ a ∈ ks, ∀ b ∈ ks, tied le k a = true → tied le k b = true → le a b = true :=
      fun a ha b hb t1 t2 => tied_le le h hk (hS a ha) (hS b hb) t1 t2
    rw [h1.stable _ hp, h2.stable _ hp]
  cases desc with
  | false =>
    have s1 := h1.sorted
    have s2 := h2.sorted
    simp only [Bool.false_eq_true, if_false] at s1 s2
    exact sorted_stable_unique le h L L' hSL (h1.perm.trans h2.perm.symm) s1 s2 hst
  | true =>
    have s1 := h1.sorted
    have s2 := h2.sorted
    simp only [if_true] at s1 s2
    refine sorted_stable_unique (fun a b => le b a) (TotalPre.flip le h) L L' hSL (h1.perm.trans h2.perm.symm) s1 s2 ?_
    intro k hk
    have : tied (fun a b => le b a) k = tied le k := funext (tied_flip le k)
    rw [this]
    exact hst k hk

/-- the numeric sort: what `sortedLive` returns when sorting numerically -/
theorem sortedLive_numeric {live : Bytes → Option Item} {val : Option Value} {o : SortOpts} {items : List Bytes}
    (hd : o.dontsort = false) (ha : o.alpha = false) :
    sortedLive live val o items =
      (match numKeyed live (o.sortby.getD [35]) items with
       | .error e => .error e
       | .ok ks => .ok ((if o.desc = true then descSort numLe ks else stableSort numLe ks).map Prod.snd)) := by
  unfold sortedLive
  simp only [hd, ha, Bool.not_false, if_true, Bool.false_eq_true, if_false]

theorem sortedLive_alpha {live : Bytes → Option Item} {val : Option Value} {o : SortOpts} {items : List Bytes}
    (hd : o.dontsort = false) (ha : o.alpha = true) :
    sortedLive live val o items =
      .ok ((if o.desc = true then descSort alphaKeyLe (alphaKeyed live (o.sortby.getD [35]) items)
            else stableSort alphaKeyLe (alphaKeyed live (o.sortby.getD [35]) items)).map Prod.snd) := by
  unfold sortedLive
  simp only [hd, ha, Bool.not_false, if_true]

theorem sortedLive_nosort {live : Bytes → Option Item} {val : Option Value} {o : SortOpts} {items : List Bytes}
    (hd : o.dontsort = true) :
    sortedLive live val o items =
      .ok (match val with
        | some (.list _) | some (.zset _) => if o.desc then items.reverse else items
        | _ => items) := by
  unfold sortedLive
  simp only [hd, Bool.not_true, Bool.false_eq_true, if_false]

theorem numKeyed_noNaN {live : Bytes → Option Item} {pat : Bytes} {items : List Bytes} {ks : List (Dbl × Bytes)}
    (h : numKeyed live pat items = .ok ks) : ∀ a ∈ ks, NoNaN a := fun a ha => ((numKeyed_ok h).2 a ha).2

/-- ALPHA without BY: the pairs are `(some v, v)` -/
theorem alphaKeyed_plain (live : Bytes → Option Item) (items : List Bytes) :
    alphaKeyed live [35] items = items.map fun v => (some v, v) := rfl

theorem pairwise_alpha_plain {L : List (Option Bytes × Bytes)} (hL : ∀ p ∈ L, p.1 = some p.2) (desc : Bool)
    (h : L.Pairwise (fun a b => if desc = true then alphaKeyLe b a = true else alphaKeyLe a b = true)) :
    (L.map Prod.snd).Pairwise (fun a b => if desc = true then bytesLe b a = true else bytesLe a b = true) := by
  rw [List.pairwise_map]
  refine List.Pairwise.imp_of_mem ?_ h
  intro a b ha hb hab
  unfold alphaKeyLe at hab
  rw [hL a ha, hL b hb] at hab
  exact hab

/-- a list sorted by the byte order is determined by its elements -/
theorem bytes_sorted_unique (desc : Bool) {l1 l2 : List Bytes} (hp : l1.Perm l2)
    (s1 : l1.Pairwise (fun a b => if desc = true then bytesLe b a = true else bytesLe a b = true))
    (s2 : l2.Pairwise (fun a b => if desc = true then bytesLe b a = true else bytesLe a b = true)) : l1 = l2 := by
  induction l1 generalizing l2 with
  | nil => exact hp.nil_eq
  | cons a t1 ih =>
    cases l2 with
    | nil => exact absurd hp.symm.nil_eq (by simp)
    | cons b t2 =>
      rw [List.pairwise_cons] at s1 s2
      have e : a = b := by
        have hb : b = a ∨ b ∈ t1 := List.mem_cons.mp (hp.mem_iff.mpr List.mem_cons_self)
        have ha : a = b ∨ a ∈ t2 := List.mem_cons.mp (hp.mem_iff.mp List.mem_cons_self)
        rcases hb with hb | hb
        · exact hb.symm
        · rcases ha with ha | ha
          · exact ha
          · have x1 := s1.1 b hb
            have x2 := s2.1 a ha
            cases desc with
            | false =>
              simp only [Bool.false_eq_true, if_false] at x1 x2
              exact bytesLe_antisymm x1 x2
            | true =>
              simp only [if_true] at x1 x2
              exact bytesLe_antisymm x2 x1
      subst e
      congr 1
      exact ih (List.Perm.cons_inv hp) s1.2 s2.2

/-! ## 8. The body on a state -/

theorem takeItems_len (v : Option Value) (s : Sys) (d : Nat) (hd : d < s.srv.dbs.length) :
    d < (takeItems v s).2.srv.dbs.length := by rw [takeItems_srv]; exact hd

/-- a wrong-typed source: WRONGTYPE, the state is untouched -/
theorem sortCmd_wrongtype (c d k : Nat) (rest : List Arg) (cis : List CI) (s : Sys) (hd : d < s.srv.dbs.length)
    (hw : wrongTy (ciAt cis k).val = true) :
    sortCmd c d (.key k :: rest) cis s = (.error Msgs.WRONGTYPE_MSG, s) := by
  rw [sortCmd_eq c d k rest cis s hd]
  unfold core
  rw [if_pos hw]

/-- a syntax error in the options: only the hint of a set source has been consumed -/
theorem sortCmd_syntax (c d k : Nat) (rest : List Arg) (cis : List CI) (s : Sys) (hd : d < s.srv.dbs.length)
    (hw : wrongTy (ciAt cis k).val = false) (e : Err) (hp : parseSortOpts (Cmd.rawArgs rest) {} = .error e) :
    sortCmd c d (.key k :: rest) cis s = (.error e, (takeItems (ciAt cis k).val s).2) := by
  rw [sortCmd_eq c d k rest cis s hd]
  unfold core coreTail
  simp only [hw, Bool.false_eq_true, if_false, hp]

/-- the whole body: error / reply / STORE, in terms of the live view of database `d` -/
theorem sortCmd_run (c d k : Nat) (rest : List Arg) (cis : List CI) (s : Sys) (hd : d < s.srv.dbs.length)
    (nd : NodupKeys (s.dbAt d).dict)
    (hw : wrongTy (ciAt cis k).val = false) (o : SortOpts) (hp : parseSortOpts (Cmd.rawArgs rest) {} = .ok o)
    (items : List Bytes) (hi : (takeItems (ciAt cis k).val s).1 = some items) :
    ∃ db', Reads (s.dbAt d) db' ∧
      sortCmd c d (.key k :: rest) cis s =
        (match specLive (s.dbAt d).live (ciAt cis k).val o items with
         | .error e => (.error e, (takeItems (ciAt cis k).val s).2.setDbS d db')
         | .ok out =>
           match o.store with
           | none => (.ok (.arr (out.map Reply.ofOptBulk), cis), (takeItems (ciAt cis k).val s).2.setDbS d db')
           | some dst =>
             (.ok (.int (out.map fun x => x.getD []).length, cis),
              ((takeItems (ciAt cis k).val s).2.setDbS d db').wbStep d (storeCI dst (out.map fun x => x.getD [])))) := by
  rw [sortCmd_eq c d k rest cis s hd]
  unfold core
  simp only [hw, Bool.false_eq_true, if_false, hi]
  have := coreTail_spec d (ciAt cis k).val rest cis items (takeItems (ciAt cis k).val s).2
    (takeItems_len _ s d hd) (by rw [takeItems_dbAt]; exact nd) o hp
  rw [takeItems_dbAt] at this
  exact this

/-! ## 9. The set hint, the pattern substitution -/

theorem perm_of_subset_length {α : Type} [DecidableEq α] : ∀ (m p : List α), m.Nodup → m ⊆ p → p.length = m.length →
    p.Perm m
  | [], p, _, _, hl => by
    have : p = [] := List.length_eq_zero_iff.mp hl
    subst this; exact List.Perm.refl _
  | a :: m', p, hn, hs, hl => by
    have ha : a ∈ p := hs List.mem_cons_self
    have hn' := List.nodup_cons.mp hn
    have hs' : m' ⊆ p.erase a := fun x hx =>
      (List.mem_erase_of_ne (by rintro rfl; exact hn'.1 hx)).mpr (hs (List.mem_cons_of_mem _ hx))
    have hl' : (p.erase a).length = m'.length := by rw [List.length_erase_of_mem ha, hl]; simp
    exact (List.perm_cons_erase ha).trans ((perm_of_subset_length m' _ hn'.2 hs' hl').cons a)

/-- an accepted hint is a permutation of the stored members -/
theorem validHint_perm {p m : List Bytes} (hm : m.Nodup) (h : validHint p m = true) : p.Perm m := by
  unfold validHint at h
  simp only [Bool.and_eq_true, beq_iff_eq, List.all_eq_true, List.contains_iff_mem] at h
  exact perm_of_subset_length m p hm (fun x hx => h.2 x hx) h.1.1

/-- a permutation of the stored members is an accepted hint -/
theorem validHint_of_perm {p m : List Bytes} (h : p.Perm m) : validHint p m = true := by
  unfold validHint
  simp only [Bool.and_eq_true, beq_iff_eq, List.all_eq_true, List.contains_iff_mem]
  exact ⟨⟨h.length_eq, fun x hx => h.mem_iff.mp hx⟩, fun x hx => h.mem_iff.mpr hx⟩

theorem findSub_go_spec (needle : Bytes) (hay : Bytes) (n : Nat) :
    (match findSub.go needle hay n with
     | some r => ∃ i, r = n + i ∧ i ≤ hay.length ∧ (hay.drop i).take needle.length = needle ∧
         ∀ j, j < i → (hay.drop j).take needle.length ≠ needle
     | none => ∀ j, j ≤ hay.length → (hay.drop j).take needle.length ≠ needle) := by
  induction hay generalizing n with
  | nil =>
    unfold findSub.go
    by_cases hne : needle.isEmpty = true
    · rw [if_pos hne]
      have : needle = [] := List.isEmpty_iff.mp hne
      exact ⟨0, rfl, Nat.le_refl _, by simp [this], fun j hj => absurd hj (Nat.not_lt_zero _)⟩
    · rw [if_neg hne]
      intro j _
      have : needle ≠ [] := fun e => hne (List.isEmpty_iff.mpr e)
      simpa using this.symm
  | cons h t ih =>
    unfold findSub.go
    by_cases hm : ((h :: t).take needle.length == needle) = true
    · rw [if_pos hm]
      exact ⟨0, rfl, Nat.zero_le _, by simpa using hm, fun j hj => absurd hj (Nat.not_lt_zero _)⟩
    · rw [if_neg hm]
      have h0 : (h :: t).take needle.length ≠ needle := by simpa using hm
      have := ih (n + 1)
      cases hr : findSub.go needle t (n + 1) with
      | some r =>
        rw [hr] at this
        obtain ⟨i, e, hi, hmm, hmin⟩ := this
        refine ⟨i + 1, by omega, by simp only [List.length_cons]; omega, by simpa using hmm, ?_⟩
        intro j hj
        cases j with
        | zero => simpa using h0
        | succ j => simpa using hmin j (by omega)
      | none =>
        rw [hr] at this
        intro j hj
        cases j with
        | zero => simpa using h0
        | succ j => simpa using this j (by simpa using hj)

/-- `bytes.find`: the first occurrence -/
theorem findSub_some {needle hay : Bytes} {r : Nat} (h : findSub needle hay = some r) :
    r ≤ hay.length ∧ (hay.drop r).take needle.length = needle ∧
      ∀ j, j < r → (hay.drop j).take needle.length ≠ needle := by
  have := findSub_go_spec needle hay 0
  unfold findSub at h
  rw [h] at this
  obtain ⟨i, e, hi, hm, hmin⟩ := this
  have : r = i := by omega
  subst this
  exact ⟨hi, hm, hmin⟩

/-- `bytes.find` returns `-1`: no occurrence -/
theorem findSub_none {needle hay : Bytes} (h : findSub needle hay = none) :
    ∀ j, j ≤ hay.length → (hay.drop j).take needle.length ≠ needle := by
  have := findSub_go_spec needle hay 0
  unfold findSub at h
  rw [h] at this
  exact this

/-- an occurrence with no earlier one is the one found -/
theorem findSub_first (needle a b : Bytes)
    (hmin : ∀ j, j < a.length → ((a ++ needle ++ b).drop j).take needle.length ≠ needle) :
    findSub needle (a ++ needle ++ b) = some a.length := by
  have hocc : ((a ++ needle ++ b).drop a.length).take needle.length = needle := by
    rw [List.append_assoc, List.drop_left, List.take_left]
  cases hr : findSub needle (a ++ needle ++ b) with
  | none => exact absurd hocc (findSub_none hr a.length (by simp))
  | some r =>
    obtain ⟨_, hm, hmin'⟩ := findSub_some hr
    congr 1
    rcases Nat.lt_trichotomy r a.length with hlt | heq | hgt
    · exact absurd hm (hmin r hlt)
    · exact heq
    · exact absurd hocc (hmin' a.length hgt)

theorem take_one_eq (h : UInt8) (t : Bytes) (c : UInt8) : ((h :: t).take 1 = [c]) ↔ h = c := by simp

/-- no `*` in the pattern: `find` fails (this is the parser's `dontsort` test) -/
theorem findSub_star_none (pat : Bytes) (h : pat.contains 42 = false) : findSub [42] pat = none := by
  cases hr : findSub [42] pat with
  | none => rfl
  | some r =>
    exfalso
    obtain ⟨hle, hm, _⟩ := findSub_some hr
    have hmem : (42 : UInt8) ∈ pat := by
      have : (42 : UInt8) ∈ (pat.drop r).take 1 := by
        have e : ([42] : Bytes).length = 1 := rfl
        rw [e] at hm; rw [hm]; simp
      exact List.mem_of_mem_drop (List.mem_of_mem_take this)
    have := List.contains_iff_mem.mpr hmem
    rw [h] at this
    cases this

/-- the first `*` splits the pattern -/
theorem findSub_star_some (pre suf : Bytes) (h : (42 : UInt8) ∉ pre) : findSub [42] (pre ++ 42 :: suf) = some pre.length := by
  have := findSub_first [42] pre suf (by
    intro j hj hm
    have e : ([42] : Bytes).length = 1 := rfl
    rw [e] at hm
    have h0 : (((pre ++ [42] ++ suf).drop j).take 1)[0]? = some 42 := by rw [hm]; rfl
    rw [List.getElem?_take, if_pos (by omega), List.getElem?_drop, List.append_assoc, Nat.add_zero,
      List.getElem?_append_left hj] at h0
    exact h (List.mem_of_getElem? h0))
  simpa using this

theorem patKey_nostar (pat e : Bytes) (h : pat.contains 42 = false) : patKey pat e = none := by
  unfold patKey
  rw [findSub_star_none pat h]

theorem lookupLive_nostar (live : Bytes → Option Item) (pat e : Bytes) (h : pat.contains 42 = false)
    (hh : pat ≠ [35]) : lookupLive live e pat = none := by
  unfold lookupLive
  have : (pat == [35]) = false := by simpa using hh
  simp only [this, Bool.false_eq_true, if_false, patKey_nostar pat e h]

/-- `pre*suf` without `->`: the key `pre ++ element ++ suf` -/
theorem patKey_plain (pre suf e : Bytes) (h : (42 : UInt8) ∉ pre)
    (ha : findSub [45, 62] (suf.take (suf.length - 1)) = none) :
    patKey (pre ++ 42 :: suf) e = some (pre ++ e ++ suf, none) := by
  have hT : (pre ++ 42 :: suf).take pre.length = pre := by simp
  have hD : (pre ++ 42 :: suf).drop (pre.length + 1) = suf := by simp
  unfold patKey
  rw [findSub_star_some pre suf h]
  simp only [hT, hD, ha]

/-- `pre*key->field`: the field `field` of the hash at `pre ++ element ++ key` -/
theorem patKey_field (pre suf e : Bytes) (a : Nat) (h : (42 : UInt8) ∉ pre)
    (ha : findSub [45, 62] (suf.take (suf.length - 1)) = some a) :
    patKey (pre ++ 42 :: suf) e = some (pre ++ e ++ suf.take a, some (suf.drop (a + 2))) := by
  have hT : (pre ++ 42 :: suf).take pre.length = pre := by simp
  have hD : (pre ++ 42 :: suf).drop (pre.length + 1) = suf := by simp
  unfold patKey
  rw [findSub_star_some pre suf h]
  simp only [hT, hD, ha]

/-! ## 10. The option parser -/

/-- one option of SORT -/
inductive Opt where
  | asc | desc | alpha
  | limit (s c : Int)
  | store (x : Bytes)
  | sortBy (x : Bytes)
  | get (x : Bytes)

/-- the effect of one option on the option record -/
def Opt.apply (o : SortOpts) : Opt → SortOpts
  | .asc => { o with desc := false }
  | .desc => { o with desc := true }
  | .alpha => { o with alpha := true }
  | .limit s c => { o with limitStart := s, limitCount := c }
  | .store x => { o with store := some x }
  | .sortBy x => { o with sortby := some x, dontsort := !x.contains 42 }
  | .get x => { o with gets := o.gets ++ [x] }

/-- the tokens that spell an option (keywords in any case) -/
def Opt.Spelled : Opt → List Bytes → Prop
  | .asc, t => ∃ a, t = [a] ∧ casematch a "asc" = true
  | .desc, t => ∃ a, t = [a] ∧ casematch a "desc" = true
  | .alpha, t => ∃ a, t = [a] ∧ casematch a "alpha" = true
  | .limit s c, t => ∃ a x y, t = [a, x, y] ∧ casematch a "limit" = true ∧ Conv.int x = .ok s ∧ Conv.int y = .ok c
  | .store x, t => ∃ a, t = [a, x] ∧ casematch a "store" = true
  | .sortBy x, t => ∃ a, t = [a, x] ∧ casematch a "by" = true
  | .get x, t => ∃ a, t = [a, x] ∧ casematch a "get" = true

theorem casematch_excl {a : Bytes} {l1 l2 : String} (h : casematch a l1 = true)
    (hne : (strBytes l1 == strBytes l2) = false) : casematch a l2 = false := by
  unfold casematch at *
  have : casenorm a = strBytes l1 := by simpa using h
  rw [this]; exact hne

theorem parse_cons (a : Bytes) (rest : List Bytes) (o : SortOpts) :
    parseSortOpts (a :: rest) o =
    (if casematch a "asc" then parseSortOpts rest { o with desc := false }
    else if casematch a "desc" then parseSortOpts rest { o with desc := true }
    else if casematch a "alpha" then parseSortOpts rest { o with alpha := true }
    else if casematch a "limit" && rest.length ≥ 2 then
      match rest with
      | x :: y :: rest' =>
        match Conv.int x, Conv.int y with
        | .ok s, .ok c => parseSortOpts rest' { o with limitStart := s, limitCount := c }
        | _, _ => .error Msgs.SYNTAX_ERROR_MSG
      | _ => .error Msgs.SYNTAX_ERROR_MSG
    else if casematch a "store" && rest.length ≥ 1 then
      match rest with
      | x :: rest' => parseSortOpts rest' { o with store := some x }
      | [] => .error Msgs.SYNTAX_ERROR_MSG
    else if casematch a "by" && rest.length ≥ 1 then
      match rest with
      | x :: rest' => parseSortOpts rest' { o with sortby := some x, dontsort := !x.contains 42 }
      | [] => .error Msgs.SYNTAX_ERROR_MSG
    else if casematch a "get" && rest.length ≥ 1 then
      match rest with
      | x :: rest' => parseSortOpts rest' { o with gets := o.gets ++ [x] }
      | [] => .error Msgs.SYNTAX_ERROR_MSG
    else .error Msgs.SYNTAX_ERROR_MSG) := by
  rw [parseSortOpts.eq_def]; rfl


theorem parse_nil (o : SortOpts) : parseSortOpts [] o = .ok o := by rw [parseSortOpts.eq_def]

/-- the token list spells the options, one after the other -/
def SpelledAll : List Opt → List Bytes → Prop
  | [], toks => toks = []
  | op :: ops, toks => ∃ t rest, toks = t ++ rest ∧ op.Spelled t ∧ SpelledAll ops rest

theorem parse_opts (opts : List Opt) (toks : List Bytes) (h : SpelledAll opts toks)
    (o : SortOpts) : parseSortOpts toks o = .ok (opts.foldl Opt.apply o) := by
  induction opts generalizing toks o with
  | nil => cases h; exact parse_nil o
  | cons op ops ih =>
    obtain ⟨t, ts, rfl, hs, hrest⟩ := h
    have ih := fun o => ih ts hrest o
    rw [List.foldl_cons]
    cases op with
    | asc =>
      obtain ⟨a, rfl, ha⟩ := hs
      rw [List.singleton_append, parse_cons, if_pos ha]; exact ih _
    | desc =>
      obtain ⟨a, rfl, ha⟩ := hs
      rw [List.singleton_append, parse_cons, if_neg (by rw [casematch_excl ha (by decide +kernel)]; decide), if_pos ha]
      exact ih _
    | alpha =>
      obtain ⟨a, rfl, ha⟩ := hs
      rw [List.singleton_append, parse_cons, if_neg (by rw [casematch_excl ha (by decide +kernel)]; decide),
        if_neg (by rw [casematch_excl ha (by decide +kernel)]; decide), if_pos ha]
      exact ih _
    | limit s c =>
      obtain ⟨a, x, y, rfl, ha, hx, hy⟩ := hs
      rw [List.cons_append, parse_cons, if_neg (by rw [casematch_excl ha (by decide +kernel)]; decide),
        if_neg (by rw [casematch_excl ha (by decide +kernel)]; decide),
        if_neg (by rw [casematch_excl ha (by decide +kernel)]; decide),
        if_pos (by rw [ha]; simp)]
      simp only [List.cons_append, List.nil_append, hx, hy]
      exact ih _
    | store x =>
      obtain ⟨a, rfl, ha⟩ := hs
      rw [List.cons_append, parse_cons, if_neg (by rw [casematch_excl ha (by decide +kernel)]; decide),
        if_neg (by rw [casematch_excl ha (by decide +kernel)]; decide),
        if_neg (by rw [casematch_excl ha (by decide +kernel)]; decide),
        if_neg (by rw [casematch_excl ha (by decide +kernel)]; simp),
        if_pos (by rw [ha]; simp)]
      exact ih _
    | sortBy x =>
      obtain ⟨a, rfl, ha⟩ := hs
      rw [List.cons_append, parse_cons, if_neg (by rw [casematch_excl ha (by decide +kernel)]; decide),
        if_neg (by rw [casematch_excl ha (by decide +kernel)]; decide),
        if_neg (by rw [casematch_excl ha (by decide +kernel)]; decide),
        if_neg (by rw [casematch_excl ha (by decide +kernel)]; simp),
        if_neg (by rw [casematch_excl ha (by decide +kernel)]; simp),
        if_pos (by rw [ha]; simp)]
      exact ih _
    | get x =>
      obtain ⟨a, rfl, ha⟩ := hs
      rw [List.cons_append, parse_cons, if_neg (by rw [casematch_excl ha (by decide +kernel)]; decide),
        if_neg (by rw [casematch_excl ha (by decide +kernel)]; decide),
        if_neg (by rw [casematch_excl ha (by decide +kernel)]; decide),
        if_neg (by rw [casematch_excl ha (by decide +kernel)]; simp),
        if_neg (by rw [casematch_excl ha (by decide +kernel)]; simp),
        if_neg (by rw [casematch_excl ha (by decide +kernel)]; simp),
        if_pos (by rw [ha]; simp)]
      exact ih _

/-- the only error of the option parser is the syntax error -/
theorem parse_error_msg (toks : List Bytes) (o : SortOpts) (e : Err) (h : parseSortOpts toks o = .error e) :
    e = Msgs.SYNTAX_ERROR_MSG := by
  fun_induction parseSortOpts toks o <;> simp_all

theorem parse_ok_spelled (toks : List Bytes) (o o' : SortOpts) (h : parseSortOpts toks o = .ok o') :
    ∃ opts, SpelledAll opts toks ∧ o' = opts.foldl Opt.apply o := by
  fun_induction parseSortOpts toks o
  case case1 => cases h; exact ⟨[], rfl, rfl⟩
  case case2 a rest o h1 ih =>
    obtain ⟨opts, hs, hf⟩ := ih h
    exact ⟨.asc :: opts, ⟨[a], rest, rfl, ⟨a, rfl, h1⟩, hs⟩, hf⟩
  case case3 a rest o _ h1 ih =>
    obtain ⟨opts, hs, hf⟩ := ih h
    exact ⟨.desc :: opts, ⟨[a], rest, rfl, ⟨a, rfl, h1⟩, hs⟩, hf⟩
  case case4 a rest o _ _ h1 ih =>
    obtain ⟨opts, hs, hf⟩ := ih h
    exact ⟨.alpha :: opts, ⟨[a], rest, rfl, ⟨a, rfl, h1⟩, hs⟩, hf⟩
  case case5 a o _ _ _ x y rest' sv cv hy hx h1 ih =>
    obtain ⟨opts, hs, hf⟩ := ih h
    have h1' : casematch a "limit" = true := by
      simp only [Bool.and_eq_true] at h1; exact h1.1
    exact ⟨.limit sv cv :: opts, ⟨[a, x, y], rest', rfl, ⟨a, x, y, rfl, h1', hx, hy⟩, hs⟩, hf⟩
  case case8 a o _ _ _ x rest' _ h1 ih =>
    obtain ⟨opts, hs, hf⟩ := ih h
    have h1' : casematch a "store" = true := by
      simp only [Bool.and_eq_true] at h1; exact h1.1
    exact ⟨.store x :: opts, ⟨[a, x], rest', rfl, ⟨a, rfl, h1'⟩, hs⟩, hf⟩
  case case10 a o _ _ _ x rest' _ _ h1 ih =>
    obtain ⟨opts, hs, hf⟩ := ih h
    have h1' : casematch a "by" = true := by
      simp only [Bool.and_eq_true] at h1; exact h1.1
    exact ⟨.sortBy x :: opts, ⟨[a, x], rest', rfl, ⟨a, rfl, h1'⟩, hs⟩, hf⟩
  case case12 a o _ _ _ x rest' _ _ _ h1 ih =>
    obtain ⟨opts, hs, hf⟩ := ih h
    have h1' : casematch a "get" = true := by
      simp only [Bool.and_eq_true] at h1; exact h1.1
    exact ⟨.get x :: opts, ⟨[a, x], rest', rfl, ⟨a, rfl, h1'⟩, hs⟩, hf⟩
  all_goals cases h

/-- the grammar of the options: a token list is accepted iff it spells a sequence of options, and the result is the
options applied from left to right (later options override earlier ones, GET accumulates) -/
theorem parse_iff (toks : List Bytes) (o o' : SortOpts) :
    parseSortOpts toks o = .ok o' ↔ ∃ opts, SpelledAll opts toks ∧ o' = opts.foldl Opt.apply o := by
  constructor
  · exact parse_ok_spelled toks o o'
  · rintro ⟨opts, hs, rfl⟩
    exact parse_opts opts toks hs o

/-- a set source without a usable order hint: the model gives up (flagged as a model fault, not a Redis reply) -/
theorem sortCmd_badhint (c d k : Nat) (rest : List Arg) (cis : List CI) (s : Sys) (hd : d < s.srv.dbs.length)
    (hw : wrongTy (ciAt cis k).val = false) (o : SortOpts) (hp : parseSortOpts (Cmd.rawArgs rest) {} = .ok o)
    (hi : (takeItems (ciAt cis k).val s).1 = none) :
    sortCmd c d (.key k :: rest) cis s =
      (.error "model: bad hint", (M.fault badHintMsg (takeItems (ciAt cis k).val s).2).2) := by
  rw [sortCmd_eq c d k rest cis s hd]
  unfold core coreTail
  simp only [hw, Bool.false_eq_true, if_false, hp, hi]

/-- the hint is needed for sets only -/
theorem takeItems_none_iff (v : Option Value) (s : Sys) :
    (takeItems v s).1 = none ↔ ∃ m, v = some (.set m) ∧ ∀ p restp, s.picks = p :: restp → validHint p m = false := by
  unfold takeItems
  split
  · simp
  · simp
  · rename_i m
    split
    · rename_i p restp hp
      by_cases hv : validHint p m = true
      · simp only [hv, if_true, reduceCtorEq, Option.some.injEq, Value.set.injEq, exists_eq_left', false_iff]
        intro hh
        have := hh p restp hp
        rw [hv] at this; cases this
      · simp only [hv, Bool.false_eq_true, if_false, Option.some.injEq, Value.set.injEq, exists_eq_left', true_iff]
        intro p' restp' e
        rw [hp] at e
        cases e
        simpa using hv
    · rename_i hp
      simp only [Option.some.injEq, Value.set.injEq, exists_eq_left', true_iff]
      intro p restp e
      rw [hp] at e; cases e
  · rename_i h1 h2 h3
    simp only [reduceCtorEq, false_iff]
    rintro ⟨m, rfl, _⟩
    exact h3 m rfl

/-! ## 11. The command through the generic runner: signature, dispatch, write-back -/

/-- the signature of SORT: `(Key(),), (bytes,)` -/
def ssig : Sig := ⟨"sort", [.key none .unspecified], [.bytes], false, 1, 0, true⟩

theorem ssig_types (n : Nat) : ssig.types (n + 1) = .key none .unspecified :: List.replicate n .bytes := by
  unfold Sig.types ssig
  simp only [List.length_cons, List.length_nil, Nat.add_sub_cancel, List.cons_append, List.nil_append,
    List.cons.injEq, true_and]
  apply List.ext_getElem
  · simp
  · intro i h1 h2
    simp [Nat.mod_one]

/-- `Signature.apply` for SORT: the source is looked up (lazy expiry), its live entry of any type becomes the
`CommandItem`, the options stay raw -/
theorem ssig_apply (key : Bytes) (bs : List Bytes) (db : Db) :
    ssig.apply (key :: bs) db =
      ((db.get key).1, .ok (.ok (.key 0 :: bs.map Arg.raw) [ZStore.destCI db key])) := by
  unfold Sig.apply
  have h1 : ssig.checkArity (key :: bs).length = true := by
    unfold Sig.checkArity ssig
    simp
  have h2 : (!ssig.rep.isEmpty && ((key :: bs).length - ssig.fixed.length) % ssig.rep.length != 0) = false := by
    simp [ssig, Nat.mod_one]
  have h3 : (key :: bs).length = bs.length + 1 := by simp
  simp only [h1, h2, Bool.not_true, Bool.false_eq_true, if_false]
  rw [h3, ssig_types]
  have hz : ∀ {β : Type} (f : Bytes → β) (p : β × ArgTy),
      p ∈ (bs.map f).zip (List.replicate bs.length ArgTy.bytes) → p.2 = .bytes := by
    intro β f p hp
    obtain ⟨a, t⟩ := p
    exact (List.mem_replicate.mp (List.of_mem_zip hp).2).2
  simp only [List.zip_cons_cons, Sig.pass1, bne_self_eq_false, Bool.false_eq_true, if_false]
  have := ZStore.pass1_bytes db (bs.zip (List.replicate bs.length ArgTy.bytes))
    (fun p hp => by
      obtain ⟨a, t⟩ := p
      exact (List.mem_replicate.mp (List.of_mem_zip hp).2).2)
    [Arg.raw key]
  rw [this]
  simp only [List.reverse_cons, List.reverse_nil, List.nil_append, List.cons_append, List.zip_cons_cons,
    Sig.pass2, List.length_nil]
  have hmap : List.map (fun p => Arg.raw p.1) (bs.zip (List.replicate bs.length ArgTy.bytes)) = bs.map Arg.raw := by
    have h0 : (fun p : Bytes × ArgTy => Arg.raw p.1) = Arg.raw ∘ Prod.fst := rfl
    rw [h0, ← List.map_map, List.map_fst_zip (by simp)]
  rw [hmap]
  unfold ZStore.destCI
  cases hg : db.get key with
  | mk db' item =>
    simp only
    cases item with
    | none =>
      simp only
      rw [ZStore.pass2_bytes _ _ (hz Arg.raw)]
      simp [List.map_fst_zip]
    | some it =>
      simp only
      rw [ZStore.pass2_bytes _ _ (hz Arg.raw)]
      simp [List.map_fst_zip]

theorem special_sort (inner : Inner) (mode : Mode) (c : Nat) (args : List Arg) (cis : List CI) (s : Sys) :
    special inner mode c "sort" args cis s =
      ((match (sortCmd c (s.conn c).db args cis s).1 with
        | .ok (r, cis') => .ok (some r, cis')
        | .error e => .error e),
       (sortCmd c (s.conn c).db args cis s).2) := by
  have key : special inner mode c "sort" args cis =
      (do
        let conn ← getConn c
        match ← sortCmd c conn.db args cis with
        | .ok (r, cis') => return .ok (some r, cis')
        | .error e => return .error e) := by
    unfold special
    rfl
  rw [key]
  simp only [bind, StateT.bind, getConn_run]
  generalize sortCmd c (s.conn c).db args cis s = r
  obtain ⟨x, s'⟩ := r
  cases x with
  | error e => rfl
  | ok p => rfl

theorem takeItems_setDbS (v : Option Value) (s : Sys) (d : Nat) (db : Db) :
    takeItems v (s.setDbS d db) = ((takeItems v s).1, (takeItems v s).2.setDbS d db) := by
  obtain ⟨srv, out, clocks, picks, flt, cr⟩ := s
  cases v with
  | none => rfl
  | some vv =>
    cases vv with
    | set m =>
      cases picks with
      | nil => rfl
      | cons p r =>
        unfold takeItems
        simp only [Sys.setDbS]
        split <;> rfl
    | _ => rfl

theorem wbStep_clean (s : Sys) (d : Nat) (ci : CI) (h : ci.Clean) : s.wbStep d ci = s := by
  have h1 := ZStore.writebackAll_clean d ci h s
  rw [writebackAll_single] at h1
  exact (Prod.mk.inj h1).2

/-- the source's value as the body sees it: the live entry of the key, of any type -/
def srcVal (db : Db) (key : Bytes) : Option Value := (db.live key).map (·.value)

theorem ciAt_src (db : Db) (nd : NodupKeys db.dict) (key : Bytes) :
    (ciAt [ZStore.destCI db key] 0).val = srcVal db key := by
  show (ZStore.destCI db key).val = _
  exact (ZStore.destCI_val db nd key).1

theorem runWith_sort_eq (inner : Inner) (mode : Mode) (c : Nat) (key : Bytes) (bs : List Bytes) (fs : Bool) (s : Sys)
    (hg : runGate ssig fs ((s.conn c).pubsub > 0) = none) :
    runWith (special inner) mode c ssig (key :: bs) fs s =
      afterSpecial (s.conn c).db [ZStore.destCI (s.dbAt (s.conn c).db) key]
        (special inner mode c "sort" (.key 0 :: bs.map Arg.raw) [ZStore.destCI (s.dbAt (s.conn c).db) key])
        (s.setDbS (s.conn c).db ((s.dbAt (s.conn c).db).get key).1) := by
  have hreg : Cmd.regular ssig.name = none := rfl
  rw [runWith_special_run _ _ _ _ _ _ _ hreg (Sys.refuses_of_gate_none hg)]
  simp only []
  change (match (ssig.apply (key :: bs) (s.dbAt (s.conn c).db)).2 with
      | .error e => (some (Reply.err (strBytes e)),
          s.setDbS (s.conn c).db (ssig.apply (key :: bs) (s.dbAt (s.conn c).db)).1)
      | .ok (.short r) => (some r,
          s.setDbS (s.conn c).db (ssig.apply (key :: bs) (s.dbAt (s.conn c).db)).1)
      | .ok (.ok args cis) =>
        match runGate ssig fs (decide ((s.conn c).pubsub > 0)) with
        | some e => (some (Reply.err (strBytes e)),
            s.setDbS (s.conn c).db (ssig.apply (key :: bs) (s.dbAt (s.conn c).db)).1)
        | none => afterSpecial (s.conn c).db cis (special inner mode c ssig.name args cis)
            (s.setDbS (s.conn c).db (ssig.apply (key :: bs) (s.dbAt (s.conn c).db)).1)) = _
  rw [ssig_apply]
  simp only [hg]
  rfl

theorem specLive_error_msg {live : Bytes → Option Item} {val : Option Value} {o : SortOpts} {items : List Bytes}
    {e : Err} (h : specLive live val o items = .error e) : e = Msgs.INVALID_SORT_FLOAT_MSG := by
  unfold specLive at h
  split at h
  · rename_i e' he
    cases h
    unfold sortedLive at he
    split at he
    · split at he
      · cases he
      · split at he
        · rename_i e'' hk
          cases he
          exact numKeyed_error_msg hk
        · cases he
    · cases he
  · cases h

/-- the state in which the body runs: after the look-up of the source key by `Signature.apply` -/
theorem run_sort_setup (c : Nat) (key : Bytes) (s : Sys)
    (hd : (s.conn c).db < s.srv.dbs.length) (nd : NodupKeys (s.dbAt (s.conn c).db).dict) :
    let d := (s.conn c).db
    let s1 := s.setDbS d ((s.dbAt d).get key).1
    (s1.conn c = s.conn c) ∧ d < s1.srv.dbs.length ∧ s1.dbAt d = ((s.dbAt d).get key).1 ∧
      NodupKeys (s1.dbAt d).dict ∧ Reads (s.dbAt d) (s1.dbAt d) ∧ (s1.dbAt d).live = (s.dbAt d).live := by
  intro d s1
  have hdb1 : s1.dbAt d = ((s.dbAt d).get key).1 :=
    Sys.setDbS_dbAt_self s _ _ hd (by rw [Db.get_time]; rfl)
  refine ⟨rfl, by rw [Sys.setDbS_len]; exact hd, hdb1, ?_, ?_, ?_⟩
  · rw [hdb1]; exact Db.get_nodup key nd
  · rw [hdb1]; exact Reads.get nd key
  · rw [hdb1]; exact funext (fun k => live_get nd key k)

/-- SORT through the generic runner: a wrong-typed source -/
theorem run_wrongtype (inner : Inner) (mode : Mode) (c : Nat) (key : Bytes) (bs : List Bytes) (fs : Bool) (s : Sys)
    (hd : (s.conn c).db < s.srv.dbs.length) (nd : NodupKeys (s.dbAt (s.conn c).db).dict)
    (hg : runGate ssig fs ((s.conn c).pubsub > 0) = none)
    (hw : wrongTy (srcVal (s.dbAt (s.conn c).db) key) = true) :
    runWith (special inner) mode c ssig (key :: bs) fs s =
      (some (.err (strBytes Msgs.WRONGTYPE_MSG)),
       s.setDbS (s.conn c).db ((s.dbAt (s.conn c).db).get key).1) := by
  rw [runWith_sort_eq inner mode c key bs fs s hg]
  obtain ⟨hc1, hd1, _, _, _, _⟩ := run_sort_setup c key s hd nd
  refine ZStore.after_error _ _ (ZStore.destCI_clean _ _) _ (by decide +kernel) _ _ _ ?_
  rw [special_sort, hc1, sortCmd_wrongtype c _ 0 _ _ _ hd1 (by rw [ciAt_src _ nd]; exact hw)]

/-- SORT through the generic runner: a syntax error in the options -/
theorem run_syntax (inner : Inner) (mode : Mode) (c : Nat) (key : Bytes) (bs : List Bytes) (fs : Bool) (s : Sys)
    (hd : (s.conn c).db < s.srv.dbs.length) (nd : NodupKeys (s.dbAt (s.conn c).db).dict)
    (hg : runGate ssig fs ((s.conn c).pubsub > 0) = none)
    (hw : wrongTy (srcVal (s.dbAt (s.conn c).db) key) = false)
    (e : Err) (hp : parseSortOpts bs {} = .error e) :
    runWith (special inner) mode c ssig (key :: bs) fs s =
      (some (.err (strBytes Msgs.SYNTAX_ERROR_MSG)),
       (takeItems (srcVal (s.dbAt (s.conn c).db) key) s).2.setDbS (s.conn c).db
         ((s.dbAt (s.conn c).db).get key).1) := by
  rw [runWith_sort_eq inner mode c key bs fs s hg]
  obtain ⟨hc1, hd1, _, _, _, _⟩ := run_sort_setup c key s hd nd
  have he := parse_error_msg bs {} e hp
  subst he
  refine ZStore.after_error _ _ (ZStore.destCI_clean _ _) _ (by decide +kernel) _ _ _ ?_
  rw [special_sort, hc1, sortCmd_syntax c _ 0 _ _ _ hd1 (by rw [ciAt_src _ nd]; exact hw) _
    (by rw [ZStore.rawArgs_map_raw]; exact hp), ciAt_src _ nd, takeItems_setDbS]

/-- SORT through the generic runner: conversion error, reply, or STORE -/
theorem run_sort (inner : Inner) (mode : Mode) (c : Nat) (key : Bytes) (bs : List Bytes) (fs : Bool) (s : Sys)
    (hd : (s.conn c).db < s.srv.dbs.length) (nd : NodupKeys (s.dbAt (s.conn c).db).dict)
    (hg : runGate ssig fs ((s.conn c).pubsub > 0) = none)
    (hw : wrongTy (srcVal (s.dbAt (s.conn c).db) key) = false)
    (o : SortOpts) (hp : parseSortOpts bs {} = .ok o) (items : List Bytes)
    (hi : (takeItems (srcVal (s.dbAt (s.conn c).db) key) s).1 = some items) :
    ∃ db', Reads (s.dbAt (s.conn c).db) db' ∧
      runWith (special inner) mode c ssig (key :: bs) fs s =
        (match specLive (s.dbAt (s.conn c).db).live (srcVal (s.dbAt (s.conn c).db) key) o items with
         | .error e =>
           (some (.err (strBytes e)),
            (takeItems (srcVal (s.dbAt (s.conn c).db) key) s).2.setDbS (s.conn c).db db')
         | .ok out =>
           match o.store with
           | none =>
             (some (.arr (out.map Reply.ofOptBulk)),
              (takeItems (srcVal (s.dbAt (s.conn c).db) key) s).2.setDbS (s.conn c).db db')
           | some dst =>
             (some (.int (out.map fun x => x.getD []).length),
              ((takeItems (srcVal (s.dbAt (s.conn c).db) key) s).2.setDbS (s.conn c).db db').wbStep (s.conn c).db
                (storeCI dst (out.map fun x => x.getD [])))) := by
  rw [runWith_sort_eq inner mode c key bs fs s hg]
  obtain ⟨hc1, hd1, hdb1, nd1, hr1, hl1⟩ := run_sort_setup c key s hd nd
  have hci := ciAt_src _ nd key
  obtain ⟨db', hr, hrun⟩ := sortCmd_run c (s.conn c).db 0 (bs.map Arg.raw)
    [ZStore.destCI (s.dbAt (s.conn c).db) key] _ hd1 nd1 (by rw [hci]; exact hw) o
    (by rw [ZStore.rawArgs_map_raw]; exact hp) items (by rw [hci, takeItems_setDbS]; exact hi)
  rw [hci, hl1, takeItems_setDbS] at hrun
  simp only [ZStore.setDbS_setDbS] at hrun
  refine ⟨db', hr1.trans hr, ?_⟩
  cases hs : specLive (s.dbAt (s.conn c).db).live (srcVal (s.dbAt (s.conn c).db) key) o items with
  | error e =>
    rw [hs] at hrun
    simp only [] at hrun ⊢
    refine ZStore.after_error _ _ (ZStore.destCI_clean _ _) _ ?_ _ _ _ ?_
    · rw [specLive_error_msg hs]; decide +kernel
    · rw [special_sort, hc1, hrun]
  | ok out =>
    rw [hs] at hrun
    simp only [] at hrun ⊢
    cases hst : o.store with
    | none =>
      rw [hst] at hrun
      simp only [] at hrun ⊢
      rw [ZStore.after_ok _ _ _ _ _ _ _ (by rw [special_sort, hc1, hrun]), wbStep_clean _ _ _ (ZStore.destCI_clean _ _)]
    | some dst =>
      rw [hst] at hrun
      simp only [] at hrun ⊢
      rw [ZStore.after_ok _ _ _ _ _ _ _ (by rw [special_sort, hc1, hrun]), wbStep_clean _ _ _ (ZStore.destCI_clean _ _)]


/-- STORE through the generic runner: reply, stored list, other keys, notification -/
theorem run_store (inner : Inner) (mode : Mode) (c : Nat) (key : Bytes) (bs : List Bytes) (fs : Bool) (s : Sys)
    (hd : (s.conn c).db < s.srv.dbs.length) (nd : NodupKeys (s.dbAt (s.conn c).db).dict)
    (hg : runGate ssig fs ((s.conn c).pubsub > 0) = none)
    (hw : wrongTy (srcVal (s.dbAt (s.conn c).db) key) = false)
    (o : SortOpts) (hp : parseSortOpts bs {} = .ok o) (items : List Bytes)
    (hi : (takeItems (srcVal (s.dbAt (s.conn c).db) key) s).1 = some items)
    (out : List (Option Bytes))
    (hs : specLive (s.dbAt (s.conn c).db).live (srcVal (s.dbAt (s.conn c).db) key) o items = .ok out)
    (dst : Bytes) (hst : o.store = some dst) :
    ∃ dbf,
      runWith (special inner) mode c ssig (key :: bs) fs s =
        (some (.int (out.map fun x => x.getD []).length),
         ((takeItems (srcVal (s.dbAt (s.conn c).db) key) s).2.setDbS (s.conn c).db dbf).mapConns
           (notifyFn (s.conn c).db dst)) ∧
      dbf.live dst = (if (out.map fun x => x.getD []) = [] then none
        else some ⟨.list (out.map fun x => x.getD []), none⟩) ∧
      (∀ k, k ≠ dst → dbf.live k = (s.dbAt (s.conn c).db).live k) ∧
      NodupKeys dbf.dict ∧ dbf.time = (s.dbAt (s.conn c).db).time ∧
      (∀ q ∈ dbf.dict, q ∈ (s.dbAt (s.conn c).db).dict ∨ q = (dst, ⟨.list (out.map fun x => x.getD []), none⟩)) := by
  obtain ⟨db', hr, hrun⟩ := run_sort inner mode c key bs fs s hd nd hg hw o hp items hi
  rw [hs] at hrun
  simp only [hst] at hrun
  have hlen := takeItems_len (srcVal (s.dbAt (s.conn c).db) key) s _ hd
  have hdb : ((takeItems (srcVal (s.dbAt (s.conn c).db) key) s).2.setDbS (s.conn c).db db').dbAt (s.conn c).db = db' :=
    Sys.setDbS_dbAt_self _ _ _ hlen (by rw [ZStore.Reads.time hr, takeItems_srv]; rfl)
  obtain ⟨dbf, h1, h2, h3, h4, h5, h6⟩ := wbStep_store
    ((takeItems (srcVal (s.dbAt (s.conn c).db) key) s).2.setDbS (s.conn c).db db') (s.conn c).db
    (by rw [hdb]; exact hr.nd) dst (out.map fun x => x.getD [])
  rw [hdb] at h3 h5 h6
  refine ⟨dbf, ?_, h2, ?_, h4, ?_, ?_⟩
  · rw [hrun, h1, ZStore.setDbS_setDbS]
  · intro k hk; rw [h3 k hk, ZStore.Reads.live hr]
  · rw [h5, ZStore.Reads.time hr]
  · intro q hq
    rcases h6 q hq with h' | h'
    · exact Or.inl (hr.sub q h')
    · exact Or.inr h'

/-! ## 12. Corollaries used by the property file -/

theorem numKeyed_nil (live : Bytes → Option Item) (pat : Bytes) : numKeyed live pat [] = .ok [] := rfl

/-- no elements: the empty result, whatever the options -/
theorem specLive_nil (live : Bytes → Option Item) (val : Option Value) (o : SortOpts) : specLive live val o [] = .ok [] := by
  have hs : sortedLive live val o [] = .ok [] := by
    unfold sortedLive
    by_cases hd : (!o.dontsort) = true
    · simp only [hd, if_true]
      by_cases ha : o.alpha = true
      · simp only [ha, if_true, alphaKeyed, List.map_nil, descSort, List.reverse_nil, stableSort_nil, ite_self]
      · simp only [ha, Bool.false_eq_true, if_false, numKeyed_nil, descSort, List.reverse_nil, stableSort_nil, ite_self,
          List.map_nil]
    · simp only [hd, Bool.false_eq_true, if_false, List.reverse_nil, ite_self]
      cases val with
      | none => rfl
      | some v => cases v <;> rfl
  unfold specLive
  rw [hs]
  simp only [rowsOf, Py.slice, List.drop_nil, List.take_nil, outLive, List.flatMap_nil]

/-- an offset at or beyond the end selects nothing -/
theorem rowsOf_beyond (o : SortOpts) (sorted : List Bytes) (h : sorted.length ≤ (max o.limitStart 0).toNat) :
    rowsOf o sorted sorted.length = [] := by
  rw [rowsOf_eq, List.drop_eq_nil_of_le h, List.take_nil]

/-- a negative count selects everything from the offset on -/
theorem rowsOf_negative_count (o : SortOpts) (sorted : List Bytes) (h : o.limitCount < 0) :
    rowsOf o sorted sorted.length = sorted.drop (max o.limitStart 0).toNat := by
  rw [rowsOf_eq, if_pos h, List.take_of_length_le (by simp)]

/-- without LIMIT all rows are selected -/
theorem rowsOf_default (o : SortOpts) (sorted : List Bytes) (h1 : o.limitStart = 0) (h2 : o.limitCount = -1) :
    rowsOf o sorted sorted.length = sorted := by
  rw [rowsOf_negative_count o sorted (by omega), h1]; rfl

/-- what a run without STORE leaves of the state: only the hint of a set source is consumed and expired entries of
database `d` may have been deleted -/
theorem frame_nostore (v : Option Value) (s : Sys) (d : Nat) (hd : d < s.srv.dbs.length) (db' : Db)
    (hr : Reads (s.dbAt d) db') :
    let s' := (takeItems v s).2.setDbS d db'
    s'.srv.conns = s.srv.conns ∧ s'.out = s.out ∧ s'.fault = s.fault ∧ s'.clocks = s.clocks ∧
      s'.srv.time = s.srv.time ∧ s'.dbAt d = db' ∧ (∀ k, (s'.dbAt d).live k = (s.dbAt d).live k) ∧
      (∀ j, j ≠ d → s'.dbAt j = s.dbAt j) ∧
      s'.picks = (takeItems v s).2.picks := by
  intro s'
  have hsrv := takeItems_srv v s
  have hdb : s'.dbAt d = db' :=
    Sys.setDbS_dbAt_self _ _ _ (takeItems_len v s d hd) (by rw [ZStore.Reads.time hr, hsrv]; rfl)
  have h2 : (takeItems v s).2.out = s.out ∧ (takeItems v s).2.fault = s.fault ∧ (takeItems v s).2.clocks = s.clocks := by
    unfold takeItems
    split
    · exact ⟨rfl, rfl, rfl⟩
    · exact ⟨rfl, rfl, rfl⟩
    · split
      · split <;> exact ⟨rfl, rfl, rfl⟩
      · exact ⟨rfl, rfl, rfl⟩
    · exact ⟨rfl, rfl, rfl⟩
  refine ⟨?_, h2.1, h2.2.1, h2.2.2, ?_, hdb, ?_, ?_, rfl⟩
  · show (takeItems v s).2.srv.conns = _; rw [hsrv]
  · show (takeItems v s).2.srv.time = _; rw [hsrv]
  · intro k; rw [hdb]; exact ZStore.Reads.live hr k
  · intro j hj
    rw [Sys.setDbS_dbAt_ne _ _ _ _ hj, takeItems_dbAt]

/-- the hint bookkeeping: a set source consumes exactly one (valid) hint, other sources none -/
theorem takeItems_some {v : Option Value} {s : Sys} {items : List Bytes} (h : (takeItems v s).1 = some items) :
    (match v with
     | some (.list l) => items = l ∧ (takeItems v s).2 = s
     | some (.zset z) => items = z.byscore.map Prod.snd ∧ (takeItems v s).2 = s
     | some (.set m) => ∃ restp, s.picks = items :: restp ∧ validHint items m = true ∧
         (takeItems v s).2 = { s with picks := restp }
     | _ => items = [] ∧ (takeItems v s).2 = s) := by
  cases v with
  | none => simp only [takeItems, Option.some.injEq] at h; exact ⟨h.symm, rfl⟩
  | some vv =>
    cases vv with
    | str b => simp only [takeItems, Option.some.injEq] at h; exact ⟨h.symm, rfl⟩
    | hash hh => simp only [takeItems, Option.some.injEq] at h; exact ⟨h.symm, rfl⟩
    | list l => simp only [takeItems, Option.some.injEq] at h; exact ⟨h.symm, rfl⟩
    | zset z => simp only [takeItems, Option.some.injEq] at h; exact ⟨h.symm, rfl⟩
    | set m =>
      unfold takeItems at h ⊢
      simp only [] at h ⊢
      cases hp : s.picks with
      | nil => rw [hp] at h; cases h
      | cons p restp =>
        rw [hp] at h
        simp only [] at h ⊢
        by_cases hv : validHint p m = true
        · simp only [hv, if_true, Option.some.injEq] at h ⊢
          subst h
          exact ⟨restp, rfl, hv, rfl⟩
        · simp only [hv, Bool.false_eq_true, if_false, reduceCtorEq] at h

/-! ## 13. The last BY decides -/

def Opt.isBy : Opt → Bool
  | .sortBy _ => true
  | _ => false

/-- options other than BY leave the BY pattern and the "do not sort" flag alone -/
theorem foldl_noBy (rest : List Opt) (h : ∀ op ∈ rest, op.isBy = false) (o : SortOpts) :
    (rest.foldl Opt.apply o).sortby = o.sortby ∧ (rest.foldl Opt.apply o).dontsort = o.dontsort := by
  induction rest generalizing o with
  | nil => exact ⟨rfl, rfl⟩
  | cons op rest ih =>
    rw [List.foldl_cons]
    obtain ⟨h1, h2⟩ := ih (fun q hq => h q (List.mem_cons_of_mem _ hq)) (Opt.apply o op)
    rw [h1, h2]
    have := h op List.mem_cons_self
    cases op <;> first | exact ⟨rfl, rfl⟩ | cases this

/-- the LAST `BY x` decides: its pattern is used, and sorting is off iff `x` contains no `*` -/
theorem last_by (pre rest : List Opt) (x : Bytes) (h : ∀ op ∈ rest, op.isBy = false) (o : SortOpts) :
    ((pre ++ .sortBy x :: rest).foldl Opt.apply o).sortby = some x ∧
    ((pre ++ .sortBy x :: rest).foldl Opt.apply o).dontsort = !x.contains 42 := by
  rw [List.foldl_append, List.foldl_cons]
  obtain ⟨h1, h2⟩ := foldl_noBy rest h (Opt.apply (pre.foldl Opt.apply o) (.sortBy x))
  rw [h1, h2]
  exact ⟨rfl, rfl⟩

end FR.SortSpec
