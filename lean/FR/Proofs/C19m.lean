import FR.Proofs.C04kHist
import FR.Proofs.Script
/-!
# Script commands (EVAL / EVALSHA / SCRIPT) queued inside MULTI

EXEC runs every queued command with `self._run_command(func, sig, args, False)` - for a queued script command that is
what a direct EVAL does.  The model's nested runner `runInner` dispatches a queued script command to `runScriptCmd`,
the runner of a direct one.  Helper lemmas for `FR/Props/C19m.lean`.
-/
namespace FR.C19m
open FR FR.M FR.C04k FR.ErrSys FR.PubSubHist

/-! ## 1. the nested runner of EXEC is the direct runner -/

/-- the runner of a request that is run at once (`_run_command(func, sig, args, False)`), as a nested runner -/
def directInner (mode : Mode) (c : Nat) : Inner := fun sig raw => runCommand mode c sig raw false

theorem runInner_eq_direct (mode : Mode) (c : Nat) (sig : Sig) (raw : List Bytes) (h : sig.name ≠ "exec") :
    runInner mode c sig raw = directInner mode c sig raw :=
  runInner_eq_runCommand' mode c sig raw h

theorem QOk.ne_exec {n : String} (h : QOk n) : n ≠ "exec" := by
  intro he
  exact h.2.1 (by rw [he]; decide)

theorem qOk_iff (n : String) :
    QOk n ↔ (n ∉ SigTable.notInMulti ∧ n ∉ SigTable.notQueued ∧ (SigTable.find n).isSome = true) := by
  unfold QOk
  constructor
  · rintro ⟨h1, h2, sig, h3⟩; exact ⟨h1, h2, by rw [h3]; rfl⟩
  · rintro ⟨h1, h2, h3⟩
    cases hf : SigTable.find n with
    | none => rw [hf] at h3; cases h3
    | some sig => exact ⟨h1, h2, sig, rfl⟩

instance (n : String) : Decidable (QOk n) := decidable_of_iff _ (qOk_iff n).symm

theorem runQueue_eq_direct (mode : Mode) (c : Nat) (q : List (String × List Bytes)) (hq : ∀ a ∈ q, a.1 ≠ "exec") :
    runQueue (runInner mode c) c q = runQueue (directInner mode c) c q :=
  runQueue_congr _ _ c q (fun a ha sig hsig =>
    runInner_eq_direct mode c sig a.2 (by rw [SigTable.find_name hsig]; exact hq a ha))

theorem execCmd_eq_direct (mode : Mode) (c : Nat) (cis : List CI) (s : Sys)
    (hq : ∀ q, (s.conn c).tx = some q → ∀ a ∈ q, a.1 ≠ "exec") :
    execCmd (runInner mode c) c cis s = execCmd (directInner mode c) c cis s :=
  execCmd_congr _ _ c cis s (fun q hq' a ha sig hsig =>
    runInner_eq_direct mode c sig a.2 (by rw [SigTable.find_name hsig]; exact hq q hq' a ha))

/-! ## 2. EXEC of a well-formed queue: the sequential composition of the direct runs, no assertion path -/

/-- the state in which EXEC starts its queue: transaction closed, watches dropped -/
def Sys.execStart (s : Sys) (c : Nat) : Sys :=
  (s.updConn c fun x => { x with tx := none, txFailed := false }).updConn c
    fun x => { x with watchNotified := false, watches := [] }

theorem execStart_hasConn {s : Sys} {c : Nat} (hc : s.HasConn c) : (Sys.execStart s c).HasConn c := by
  have hupd2 : ∀ (t : Sys) (f g : Conn → Conn), (∀ x, ConnStep x (f x)) → (∀ x, ConnStep x (g x)) →
      Small t ((t.updConn c f).updConn c g) :=
    fun t f g hf hg => Small.trans ⟨ConnsLe.updConn t c f hf, id, rfl, OutLe.refl _⟩
      ⟨ConnsLe.updConn _ c g hg, id, rfl, OutLe.refl _⟩
  have h1 : Small s (Sys.execStart s c) :=
    hupd2 s _ _ (fun _ => ⟨rfl, rfl, rfl, .inr (.inl rfl)⟩) (fun _ => ⟨rfl, rfl, rfl, .inl rfl⟩)
  exact (h1.conns.hasConn c).2 hc

/-- every result of a well-formed queue is a reply -/
theorem runQueue_all_some (mode : Mode) (c : Nat) (q : List (String × List Bytes)) (s : Sys) (hc : s.HasConn c)
    (hq : ∀ a ∈ q, QOk a.1) : (runQueue (runInner mode c) c q s).1.any Option.isNone = false := by
  cases h : (runQueue (runInner mode c) c q s).1.any Option.isNone with
  | false => rfl
  | true =>
    exfalso
    obtain ⟨⟨a, ha, hbad⟩, _⟩ := (runQueue_spec mode c q s hc (fun a ha => QOk.not_gated (hq a ha))).2 h
    obtain ⟨sg, hsg⟩ := (hq a ha).2.2
    rw [hsg] at hbad; cases hbad

/-- **EXEC = the sequential composition of the queued commands' direct runs** (script commands included), for a queue
of `QOk` names: no assertion path, the reply is the array of the inner replies -/
theorem execCmd_sequential_direct (s : Sys) (mode : Mode) (c : Nat) (cis : List CI) (q : List (String × List Bytes))
    (h : (s.conn c).tx = some q) (hf : (s.conn c).txFailed = false) (hw : (s.conn c).watchNotified = false)
    (hq : ∀ a ∈ q, QOk a.1) :
    execCmd (runInner mode c) c cis s =
      (.ok (some (.arr ((runQueue (directInner mode c) c q (Sys.execStart s c)).1.map fun r => r.getD .nil)), cis),
        (runQueue (directInner mode c) c q (Sys.execStart s c)).2) := by
  rw [execCmd_eq_sequential _ cis h hf hw]
  simp only [bind, StateT.bind, modifyConn_run, clearWatches_run]
  have hc : s.HasConn c := Sys.hasConn_of_tx (by rw [h]; rfl)
  have hany := runQueue_all_some mode c q (Sys.execStart s c) (execStart_hasConn hc) hq
  rw [runQueue_eq_direct mode c q (fun a ha => QOk.ne_exec (hq a ha))] at hany ⊢
  unfold Sys.execStart at hany ⊢
  revert hany
  generalize runQueue (directInner mode c) c q _ = r
  obtain ⟨rs, s2⟩ := r
  intro hany
  dsimp only at hany ⊢
  simp only [hany, Bool.false_eq_true, if_false]
  rfl

/-! ## 3. the one event of an EXEC request -/

/-- the run of the queue inside the EXEC event of connection `c`, started from the state after the clean-up of closed
sockets and the clock refresh that precede every known command (`prep`), the transaction closed and the watches
dropped: every queued command - script commands included - is run by the DIRECT runner, one after the other -/
def execRun (s : Sys) (mode : Mode) (c : Nat) (q : List (String × List Bytes)) : List (Option Reply) × Sys :=
  runQueue (directInner mode c) c q (Sys.execStart (prep s) c)

/-- **EXEC is one event**: the whole request - clean-up, clock refresh, closing the transaction, the sequential
composition of the queued commands' direct runs (the `redis.call`s of queued scripts included), the one reply
(the array of the inner replies) - is the single `processCommand` of the EXEC -/
theorem processCommand_exec_sequential (s : Sys) (mode : Mode) (c : Nat) (nameB : Bytes)
    (q : List (String × List Bytes)) (hname : commandName nameB = some "exec")
    (htx : (s.conn c).tx = some q) (hf : (s.conn c).txFailed = false) (hw : (s.conn c).watchNotified = false)
    (hps : (s.conn c).pubsub = 0) (hq : ∀ a ∈ q, QOk a.1) :
    processCommand mode c [nameB] s =
      ((), finish c ((execRun s mode c q).2.emitS c (.arr ((execRun s mode c q).1.map fun r => r.getD .nil)))) := by
  have hsig : lookupSig nameB = some sigExec := by
    rw [lookupSig_of_name _ _ hname (by decide +kernel), find_exec]
  have har : sigExec.checkArity ([] : List Bytes).length = true := rfl
  have hq' : ((s.conn c).tx.isSome && !SigTable.notQueued.contains sigExec.name) = false := by
    rw [htx]; rfl
  have hg : runGate sigExec false (decide (((prep s).conn c).pubsub > 0)) = none := by
    rw [prep_pubsub, hps]; exact gate_exec_free
  rw [PubSubHist.processCommand_known mode c nameB [] s hsig, dispatchBody_run' _ _ _ _ _ _ har hq',
    runCommand_bytes mode c sigExec [] (prep s) (by decide) rfl
      (fun db => apply_bytes _ _ _ (by simp [sigExec]) (.inl rfl) har), hg]
  have hn : sigExec.name = "exec" := rfl
  simp only [List.map_nil]
  rw [special_exec _ _ _ _ _ _ hn]
  have htx1 : ((prep s).conn c).tx = some q := by rw [prep_tx]; exact htx
  have hf1 : ((prep s).conn c).txFailed = false := by rw [prep_txFailed]; exact hf
  have hw1 : ((prep s).conn c).watchNotified = false := prep_watchNotified s c hw
  rw [afterSpecial_congr _ _ _ (fun _ =>
      (.ok (some (.arr ((execRun s mode c q).1.map fun r => r.getD .nil)), []), (execRun s mode c q).2)) _
    (execCmd_sequential_direct (prep s) mode c [] q htx1 hf1 hw1 hq)]
  unfold afterSpecial
  simp only [bind, StateT.bind, pure, StateT.pure, writebackAll_nil]

theorem finish_dbs (c : Nat) (s : Sys) : (finish c s).srv.dbs = s.srv.dbs := by
  unfold finish; split
  · exact Sys.updConn_dbs ..
  · rfl

/-! ## 4. EVAL / EVALSHA that do not get as far as starting the script -/

/-- what the converted arguments of an EVAL / EVALSHA and the script cache say before any script runs: the SHA is not
cached (`NOSCRIPT`), or `numkeys` exceeds the number of arguments, or `numkeys` is negative -/
def NotStarted (name : String) (args : List Arg) (scripts : List (Bytes × Bytes)) : Prop :=
  ∃ x nk rest, args = .raw x :: .int nk :: rest ∧
    ((name = "evalsha" ∧ scripts.lookup x = none) ∨
     ((name = "eval" ∨ name = "evalsha") ∧ (nk > ((Cmd.rawArgs rest).length : Int) ∨ nk < 0)))

/-- only the replay bookkeeping changed: the hint list and the `fault` marker -/
structure OnlyHints (s s' : Sys) : Prop where
  srv : s'.srv = s.srv
  out : s'.out = s.out
  crashed : s'.crashed = s.crashed
  clocks : s'.clocks = s.clocks

theorem OnlyHints.refl (s : Sys) : OnlyHints s s := ⟨rfl, rfl, rfl, rfl⟩
theorem OnlyHints.trans {a b c : Sys} (h1 : OnlyHints a b) (h2 : OnlyHints b c) : OnlyHints a c :=
  ⟨h2.srv.trans h1.srv, h2.out.trans h1.out, h2.crashed.trans h1.crashed, h2.clocks.trans h1.clocks⟩

theorem nextPick_onlyHints (s : Sys) : OnlyHints s (nextPick s).2 := by
  cases hp : s.picks with
  | cons p more => rw [nextPick_run_cons p more s hp]; exact ⟨rfl, rfl, rfl, rfl⟩
  | nil =>
    have : nextPick s = (none, s) := by
      simp only [nextPick, bind, StateT.bind, get, getThe, MonadStateOf.get, StateT.get, pure, StateT.pure, hp]
    rw [this]; exact ⟨rfl, rfl, rfl, rfl⟩

theorem shaHint_onlyHints (s : Sys) : OnlyHints s (shaHint s).2 := by
  have h := nextPick_onlyHints s
  unfold shaHint
  simp only [bind, StateT.bind]
  revert h
  generalize nextPick s = r
  obtain ⟨p, s1⟩ := r
  intro h
  dsimp only at h ⊢
  split
  · split <;> exact h
  · exact h

theorem fault_onlyHints (msg : String) (s : Sys) : OnlyHints s (M.fault msg s).2 := by
  show OnlyHints s (if s.fault.isNone then { s with fault := some msg } else s)
  split <;> exact ⟨rfl, rfl, rfl, rfl⟩

def errE' : Except Err Reply → Prop
  | .error _ => True
  | _ => False

/-- EVAL's body with a `numkeys` out of range: an error, and only the hint list / the `fault` marker change -/
theorem evalBody_not_started (special : SpecialFn) (mode : Mode) (c : Nat) (script : Bytes) (nk : Int)
    (rest : List Bytes) (s : Sys) (h : nk > (rest.length : Int) ∨ nk < 0) :
    errE' (evalBody special mode c script nk rest s).1 ∧ OnlyHints s (evalBody special mode c script nk rest s).2 := by
  have hs := shaHint_onlyHints s
  unfold evalBody
  simp only [bind, StateT.bind]
  revert hs
  generalize shaHint s = r
  obtain ⟨o, s1⟩ := r
  intro hs
  dsimp only at hs ⊢
  cases o with
  | none =>
    dsimp only
    exact ⟨trivial, hs.trans (fault_onlyHints _ s1)⟩
  | some sha =>
    dsimp only
    by_cases h1 : nk > (rest.length : Int)
    · simp only [h1, if_true]
      exact ⟨trivial, hs⟩
    · have h2 : nk < 0 := h.resolve_left h1
      simp only [h1, if_false, h2, if_true, pure, StateT.pure]
      exact ⟨trivial, hs⟩

/-- the script commands' body, when the script does not start: an error, only hints / `fault` change -/
theorem scriptBody_not_started (special : SpecialFn) (mode : Mode) (c : Nat) (name : String) (args : List Arg)
    (s : Sys) (h : NotStarted name args s.srv.scripts) :
    errE' (scriptBody special mode c name args s).1 ∧ OnlyHints s (scriptBody special mode c name args s).2 := by
  obtain ⟨x, nk, rest, rfl, h⟩ := h
  rcases h with ⟨rfl, hl⟩ | ⟨hn, hk⟩
  · have := scriptBody_evalsha_run special mode c x nk rest s
    simp only [StateT.run] at this
    rw [this, hl]
    exact ⟨trivial, OnlyHints.refl s⟩
  · rcases hn with rfl | rfl
    · rw [scriptBody_eval]
      exact evalBody_not_started special mode c x nk _ s hk
    · have := scriptBody_evalsha_run special mode c x nk rest s
      simp only [StateT.run] at this
      rw [this]
      cases hl : s.srv.scripts.lookup x with
      | none => exact ⟨trivial, OnlyHints.refl s⟩
      | some script => exact evalBody_not_started special mode c script nk _ s hk

theorem OnlyHints.quiet {s0 s s' : Sys} (hq : Quiet s0 s) (h : OnlyHints s s') : Quiet s0 s' :=
  hq.frame h.srv h.out

/-- the direct script runner on an EVAL / EVALSHA that does not start its script (`NotStarted`, judged on the converted
arguments): the reply is an error and the state is quiet - every database purge-equal, every other server field
(the script cache included), every connection record and the reply list identical -/
theorem runScriptCmd_not_started (mode : Mode) (c : Nat) (sig : Sig) (raw : List Bytes) (fs : Bool) (s : Sys)
    (hnd : NodupDbs s) {args : List Arg} {cis : List CI}
    (happ : (sig.apply raw (s.dbAt (s.conn c).db)).2 = .ok (.ok args cis))
    (hns : NotStarted sig.name args s.srv.scripts) :
    (∃ e, (runScriptCmd mode c sig raw fs s).1 = some (.err e)) ∧ Quiet s (runScriptCmd mode c sig raw fs s).2 := by
  cases hr : s.refuses c sig with
  | true =>
    rw [runScriptCmd_refused mode c sig raw fs hr]
    exact ⟨⟨_, rfl⟩, Quiet.refl hnd⟩
  | false =>
    rw [runScriptCmd_not_refused mode c sig raw fs hr]
    unfold runScriptCmdBody
    simp only [bind, StateT.bind, getConn_run, getDb_run', setDb_run']
    have hsim0 : Db.Sim (s.dbAt (s.conn c).db) (s.dbAt (s.conn c).db) := (Quiet.refl hnd).dbAt _
    revert happ
    generalize hap : sig.apply raw (s.dbAt (s.conn c).db) = ap
    obtain ⟨db', res⟩ := ap
    intro happ
    dsimp only at happ ⊢
    subst happ
    have hsim : Db.Sim (s.dbAt (s.conn c).db) db' := sim_apply hsim0 hap
    have hq1 : Quiet s (s.setDbS (s.conn c).db db') := (Quiet.refl hnd).setDbS _ hsim
    dsimp only
    cases hg : runGate sig fs (decide ((s.conn c).pubsub > 0)) with
    | some e => exact ⟨⟨_, rfl⟩, hq1⟩
    | none =>
      dsimp only
      obtain ⟨he, hoh⟩ := scriptBody_not_started (special (fun _ _ => do fault "nested exec"; return none)) mode c
        sig.name args (s.setDbS (s.conn c).db db') hns
      revert he hoh
      simp only [bind, StateT.bind]
      generalize scriptBody (special (fun _ _ => do fault "nested exec"; return none)) mode c sig.name args
        (s.setDbS (s.conn c).db db') = r
      obtain ⟨v, s2⟩ := r
      intro he hoh
      dsimp only at he hoh ⊢
      cases v with
      | ok r => exact absurd he id
      | error e =>
        by_cases hm : e.startsWith "model:" = true
        · simp only [hm, if_true]
          exact ⟨⟨_, rfl⟩, (hoh.trans (fault_onlyHints e s2)).quiet hq1⟩
        · simp only [hm, Bool.false_eq_true, if_false]
          exact ⟨⟨_, rfl⟩, hoh.quiet hq1⟩

/-- from the inner command to the step of EXEC's queue (`queueStep`: set `inTx`, run, clear `inTx`): an inner command
that answered an error and was quiet leaves the state as it was up to purge-equality of the databases and the `inTx`
flag of `c` (the argument of `ErrSys.queueStep_error`, for any nested runner) -/
theorem queueStep_quiet_of_inner (inner : Inner) (c : Nat) (a : String × List Bytes) {sig : Sig}
    (hf : SigTable.find a.1 = some sig) (s : Sys)
    (h : (∃ e, (inner sig a.2 (s.updConn c setInTx)).1 = some (.err e)) ∧
      Quiet (s.updConn c setInTx) (inner sig a.2 (s.updConn c setInTx)).2) :
    (∃ e, (queueStep inner c a s).1 = some (.err e)) ∧ QuietUpTo c clearInTx s (queueStep inner c a s).2 := by
  rw [queueStep_run _ c a hf]
  obtain ⟨he, hQ⟩ := h
  refine ⟨he, ?_⟩
  generalize (inner sig a.2 (s.updConn c setInTx)).2 = s2 at hQ
  have e : (s2.updConn c clearInTx).srv =
      { s2.srv with conns := s2.srv.conns.map fun x => if x.id == c then clearInTx x else x } := rfl
  have hcs : (s.updConn c setInTx).srv.conns.map (fun x => if x.id == c then clearInTx x else x) =
      s.srv.conns.map fun x => if x.id == c then clearInTx x else x := by
    have := congrArg (fun t : Sys => t.srv.conns) (updConn_updConn s c setInTx clearInTx (fun _ => rfl))
    simp only [Sys.updConn] at this ⊢
    rw [this]
    apply List.map_congr_left
    intro x _
    simp only [Function.comp]
    split <;> rfl
  refine ⟨?_, ?_, ?_, ?_⟩
  · rw [e]; exact hQ.dbs
  · rw [e, hQ.srv]
    show _ = ({ s.srv with dbs := s2.srv.dbs, conns := _ } : Server)
    rfl
  · rw [e]
    show (s2.srv.conns.map _) = _
    rw [hQ.conns]; exact hcs
  · show s2.out = _
    rw [hQ.out]; rfl

theorem NotStarted.script {name : String} {args : List Arg} {scripts : List (Bytes × Bytes)}
    (h : NotStarted name args scripts) : scriptNames.contains name = true := by
  obtain ⟨_, _, _, _, h⟩ := h
  rcases h with ⟨rfl, _⟩ | ⟨rfl | rfl, _⟩ <;> decide

/-- **an EVAL / EVALSHA queued in a MULTI that does not start its script** (NOSCRIPT, `numkeys` out of range), as EXEC
runs it: its reply - that element of the EXEC array - is an error, and the state after the step is the state before it
up to purge-equality of the databases and the `inTx` flag of `c`, which EXEC leaves cleared -/
theorem queueStep_script_not_started (mode : Mode) (c : Nat) (a : String × List Bytes) {sig : Sig}
    (hf : SigTable.find a.1 = some sig) (s : Sys) (hnd : NodupDbs s) {args : List Arg} {cis : List CI}
    (happ : (sig.apply a.2 ((s.updConn c setInTx).dbAt ((s.updConn c setInTx).conn c).db)).2 = .ok (.ok args cis))
    (hns : NotStarted sig.name args s.srv.scripts) :
    (∃ e, (queueStep (runInner mode c) c a s).1 = some (.err e)) ∧
      QuietUpTo c clearInTx s (queueStep (runInner mode c) c a s).2 := by
  refine queueStep_quiet_of_inner _ c a hf s ?_
  rw [runInner_script mode c sig a.2 hns.script]
  have hnd1 : NodupDbs (s.updConn c setInTx) := hnd
  exact runScriptCmd_not_started mode c sig a.2 false (s.updConn c setInTx) hnd1 happ hns

/-! ## 5. a queued EVAL whose script returns a value -/

/-- the trace of a script that makes no call and returns the Lua value `lv` -/
theorem runTrace_return (special : SpecialFn) (mode : Mode) (c : Nat) (sha : Bytes) (fuel : Nat) (v : Bytes)
    (lv : LuaVal) (more : List (List Bytes)) (s : Sys)
    (hp : s.picks = [strBytes "return", v] :: more) (hv : LuaVal.ofBytes v = some lv) :
    runTrace special mode c sha (fuel + 1) s = (luaToReply false lv, { s with picks := more }) := by
  rw [runTrace]
  simp only [bind, StateT.bind, get, getThe, MonadStateOf.get, StateT.get, nextPick_run_cons _ _ s hp,
    beq_self_eq_true, if_true, hv, pure, StateT.pure]

/-- the state after such an EVAL: the script is cached, the two hints are used up -/
def Sys.evalDone (s : Sys) (more : List (List Bytes)) (sha script : Bytes) : Sys :=
  { s with picks := more, srv := { s.srv with scripts := ZSet.dictSet s.srv.scripts sha script } }

theorem evalBody_return (special : SpecialFn) (mode : Mode) (c : Nat) (script : Bytes) (nk : Int) (rest : List Bytes)
    (sha v : Bytes) (lv : LuaVal) (more : List (List Bytes)) (s : Sys)
    (hp : s.picks = [strBytes "sha", sha] :: [strBytes "return", v] :: more) (hv : LuaVal.ofBytes v = some lv)
    (h1 : ¬ nk > (rest.length : Int)) (h2 : ¬ nk < 0) :
    evalBody special mode c script nk rest s = (luaToReply false lv, Sys.evalDone s more sha script) := by
  have := evalBody_run special mode c script nk rest sha _ s hp
  simp only [StateT.run, h1, h2, if_false] at this
  rw [this, runTrace_return special mode c sha _ v lv more _ rfl hv]
  rfl

/-- **the direct script runner on `EVAL script numkeys …` whose recorded run makes no call and returns `lv`**: the
reply is the conversion of `lv`, the script is cached, the two hints are consumed, nothing else changes (up to the lazy
expiry done by the argument conversion) -/
theorem runScriptCmd_eval_return (mode : Mode) (c : Nat) (sig : Sig) (raw : List Bytes) (s : Sys)
    (hname : sig.name = "eval") (hrf : s.refuses c sig = false)
    {script : Bytes} {nk : Int} {rest : List Arg} {cis : List CI} {db' : Db}
    (happ : sig.apply raw (s.dbAt (s.conn c).db) = (db', .ok (.ok (.raw script :: .int nk :: rest) cis)))
    (hg : runGate sig false (decide ((s.conn c).pubsub > 0)) = none)
    {sha v : Bytes} {lv : LuaVal} {more : List (List Bytes)}
    (hp : s.picks = [strBytes "sha", sha] :: [strBytes "return", v] :: more) (hv : LuaVal.ofBytes v = some lv)
    (h1 : ¬ nk > ((Cmd.rawArgs rest).length : Int)) (h2 : ¬ nk < 0) {r : Reply} (hr : luaToReply false lv = .ok r) :
    runScriptCmd mode c sig raw false s =
      (some r, Sys.evalDone (s.setDbS (s.conn c).db db') more sha script) := by
  rw [runScriptCmd_not_refused mode c sig raw false hrf]
  unfold runScriptCmdBody
  simp only [bind, StateT.bind, getConn_run, getDb_run', setDb_run', happ, hg, hname, scriptBody_eval]
  rw [evalBody_return _ mode c script nk _ sha v lv more (s.setDbS (s.conn c).db db') hp hv h1 h2, hr]
  rfl

theorem directInner_script (mode : Mode) (c : Nat) (sig : Sig) (raw : List Bytes)
    (hs : scriptNames.contains sig.name = true) : directInner mode c sig raw = runScriptCmd mode c sig raw false := by
  unfold directInner runCommand
  simp only [hs, if_true]

/-- … as an inner command of EXEC (`queueStep`: set `inTx`, run, clear `inTx`), for the nested runner `runInner` and
for the direct runner alike -/
theorem queueStep_eval_return (inner : Inner) (mode : Mode) (c : Nat) (a : String × List Bytes) {sig : Sig}
    (hin : inner sig a.2 = runScriptCmd mode c sig a.2 false)
    (hf : SigTable.find a.1 = some sig) (s : Sys)
    (hname : sig.name = "eval") (hrf : (s.updConn c setInTx).refuses c sig = false)
    {script : Bytes} {nk : Int} {rest : List Arg} {cis : List CI} {db' : Db}
    (happ : sig.apply a.2 ((s.updConn c setInTx).dbAt ((s.updConn c setInTx).conn c).db) =
      (db', .ok (.ok (.raw script :: .int nk :: rest) cis)))
    (hg : runGate sig false (decide (((s.updConn c setInTx).conn c).pubsub > 0)) = none)
    {sha v : Bytes} {lv : LuaVal} {more : List (List Bytes)}
    (hp : s.picks = [strBytes "sha", sha] :: [strBytes "return", v] :: more) (hv : LuaVal.ofBytes v = some lv)
    (h1 : ¬ nk > ((Cmd.rawArgs rest).length : Int)) (h2 : ¬ nk < 0) {r : Reply} (hr : luaToReply false lv = .ok r) :
    queueStep inner c a s =
      (some r, (Sys.evalDone ((s.updConn c setInTx).setDbS ((s.updConn c setInTx).conn c).db db') more sha script).updConn
        c clearInTx) := by
  rw [queueStep_run inner c a hf, hin,
    runScriptCmd_eval_return mode c sig a.2 (s.updConn c setInTx) hname hrf happ hg hp hv h1 h2 hr]

end FR.C19m
