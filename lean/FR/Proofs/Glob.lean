import FR.Glob.Redis
/-!
# Helper lemmas for C16: the compiled glob matcher agrees with Redis's `stringmatchlen`.
-/
namespace FR.Glob

/-! ## unfolding lemmas for `matchA` -/

theorem matchA_nil (s : B) : matchA [] s = s.isEmpty := matchA.eq_1 s

theorem matchA_star_nil (as : List Atom) : matchA (.star :: as) [] = matchA as [] := by
  rw [matchA.eq_2]; simp

theorem matchA_star_cons (as : List Atom) (c : UInt8) (t : B) :
    matchA (.star :: as) (c :: t) = (matchA as (c :: t) || matchA (.star :: as) t) :=
  matchA.eq_3 as c t

theorem matchA_cons_nil (a : Atom) (as : List Atom) (h : a ≠ .star) :
    matchA (a :: as) [] = false := matchA.eq_4 a as h

theorem matchA_cons_cons (a : Atom) (as : List Atom) (c : UInt8) (t : B) (h : a ≠ .star) :
    matchA (a :: as) (c :: t) = (a.matches1 c && matchA as t) := matchA.eq_5 a as c t h

/-- a single `*` matches everything -/
theorem matchA_star_only (s : B) : matchA [.star] s = true := by
  induction s with
  | nil => rw [matchA_star_nil, matchA_nil]; rfl
  | cons c t ih => rw [matchA_star_cons, ih]; simp

/-- adjacent stars collapse -/
theorem matchA_star_star (as : List Atom) (s : B) :
    matchA (.star :: .star :: as) s = matchA (.star :: as) s := by
  induction s with
  | nil => rw [matchA_star_nil]
  | cons c t ih =>
    rw [matchA_star_cons, ih, matchA_star_cons (as := as)]
    cases matchA as (c :: t) <;> cases matchA (.star :: as) t <;> rfl

/-! ## unfolding lemma for `compile` -/

theorem compile_cons (c : UInt8) (rest : B) :
    compile (c :: rest) =
      if c == cQ then .any :: compile rest
      else if c == cStar then .star :: compile rest
      else if c == cBS then
        match rest with
        | [] => [.lit cBS]
        | x :: rest' => .lit x :: compile rest'
      else if c == cLB then (classAtom rest).1 :: compile (classAtom rest).2
      else .lit c :: compile rest := by
  cases rest <;> simp [compile]

theorem compile_star (rest : B) : compile (cStar :: rest) = .star :: compile rest := by
  rw [compile_cons]; simp [cStar, cQ]

/-! ## the class scanner -/

theorem u8_min (a b : UInt8) : min a b = if b < a then b else a := by
  show (if a ≤ b then a else b) = _
  by_cases h : b < a
  · have : ¬ a ≤ b := UInt8.not_le.mpr h
    simp only [h, this, if_true, if_false]
  · have : a ≤ b := UInt8.not_lt.mp h
    simp only [h, this, if_true, if_false]

theorem u8_max (a b : UInt8) : max a b = if b < a then a else b := by
  show (if a ≤ b then b else a) = _
  by_cases h : b < a
  · have : ¬ a ≤ b := UInt8.not_le.mpr h
    simp only [h, this, if_true, if_false]
  · have : a ≤ b := UInt8.not_lt.mp h
    simp only [h, this, if_true, if_false]

theorem rClassLoop_eq (x : UInt8) (p : B) (m : Bool) :
    rClassLoop x p m = (m || (scanClass p).1.any (CItem.matches x), (scanClass p).2) := by
  induction p, m using rClassLoop.induct x with
  | case1 m => simp [rClassLoop, scanClass]
  | case2 a m h => simp [rClassLoop, scanClass, h]
  | case3 a m h => simp [rClassLoop, scanClass, h, CItem.matches]
  | case4 a y rest m h ih =>
    cases rest <;> (rw [rClassLoop, scanClass]; simp [h, ih, CItem.matches, Bool.or_assoc])
  | case5 a y rest m h1 h2 =>
    cases rest <;> (rw [rClassLoop, scanClass]; simp [h1, h2])
  | case6 a y m h1 h2 b rest' h3 ih => 
    rw [rClassLoop, scanClass]
    simp only [gt_iff_lt, dite_eq_ite] at ih
    simp [h1, h2, h3, ih, CItem.matches, Bool.or_assoc, u8_min, u8_max]
  | case7 a y m h1 h2 b rest' h3 ih => 
    rw [rClassLoop, scanClass]; simp [h1, h2, h3, ih, CItem.matches, Bool.or_assoc]
  | case8 a y m h1 h2 ih => 
    rw [rClassLoop, scanClass]; simp [h1, h2, ih, CItem.matches, Bool.or_assoc]


theorem classAtom_snd (x : UInt8) (p : B) : (classAtom p).2 = (rClass x p).2 := by
  simp only [classAtom, rClass, rClassLoop_eq]

theorem classAtom_ne_star (p : B) : (classAtom p).1 ≠ .star := by
  simp only [classAtom]
  split
  · split <;> simp
  · simp

theorem classAtom_matches (x : UInt8) (p : B) :
    (classAtom p).1.matches1 x = (rClass x p).1 := by
  simp only [classAtom, rClass, rClassLoop_eq, Bool.false_or]
  cases h : (scanClass (splitNeg p).2).1 with
  | nil => cases (splitNeg p).1 <;> simp [Atom.matches1]
  | cons i is => cases (splitNeg p).1 <;> simp [Atom.matches1]

/-! ## empty subject -/

theorem compile_head_ne_star (c : UInt8) (rest : B) (h : (c == cStar) = false) :
    ∃ a as, compile (c :: rest) = a :: as ∧ a ≠ .star := by
  rw [compile_cons]
  simp only [h]
  split
  · exact ⟨_, _, rfl, by simp⟩
  · simp only [Bool.false_eq_true, if_false]
    split
    · split
      · exact ⟨_, _, rfl, by simp⟩
      · exact ⟨_, _, rfl, by simp⟩
    · split
      · exact ⟨_, _, rfl, classAtom_ne_star _⟩
      · exact ⟨_, _, rfl, by simp⟩

/-- the compiled matcher on the empty subject: only all-star patterns match -/
theorem matchA_compile_nil (p : B) : matchA (compile p) [] = (dropStars p).isEmpty := by
  induction p with
  | nil => simp [compile, dropStars, matchA_nil]
  | cons c r ih =>
    by_cases h : (c == cStar) = true
    · have hc : c = cStar := by simpa using h
      subst hc
      rw [compile_star, matchA_star_nil, ih]
      simp [dropStars]
    · have h' : (c == cStar) = false := by simpa using h
      obtain ⟨a, as, he, hne⟩ := compile_head_ne_star c r h'
      rw [he, matchA_cons_nil _ _ hne]
      simp [dropStars, h']

/-! ## collapsing stars -/

theorem dropStars_idem (p : B) : dropStars (dropStars p) = dropStars p := by
  induction p with
  | nil => simp [dropStars]
  | cons c r ih =>
    by_cases h : (c == cStar) = true
    · simp [dropStars, h, ih]
    · simp [dropStars, h]

theorem matchA_star_compile_dropStars (p : B) (s : B) :
    matchA (.star :: compile p) s = matchA (.star :: compile (dropStars p)) s := by
  induction p with
  | nil => simp [dropStars]
  | cons c r ih =>
    by_cases h : (c == cStar) = true
    · have hc : c = cStar := by simpa using h
      subst hc
      rw [compile_star, matchA_star_star, ih]
      simp [dropStars]
    · simp [dropStars, h]

/-! ## main theorem -/

/-- for every non-empty subject the compiled matcher agrees with Redis's `stringmatchlen` -/
theorem matchA_compile_eq_rglob (p s : B) : s ≠ [] → matchA (compile p) s = rglob p s := by
  fun_induction rglob p s with
  | case1 => intro h; exact absurd rfl h
  | case2 x t => intro _; simp [compile, matchA_nil]
  | case3 c p' => intro h; exact absurd rfl h
  | case4 c p' x t hc p'' _ he =>
    intro _
    have hc' : c = cStar := by simpa using hc
    have hp : dropStars p' = [] := List.isEmpty_iff.mp he
    subst hc'
    rw [compile_star, matchA_star_compile_dropStars, hp]
    simp [compile, matchA_star_only]
  | case5 c p' x t hc p'' _ he ih2 ih1 =>
    intro _
    have hc' : c = cStar := by simpa using hc
    subst hc'
    rw [compile_star, matchA_star_compile_dropStars, matchA_star_cons, ih2 (by simp)]
    congr 1
    cases t with
    | nil =>
      rw [matchA_star_nil, matchA_compile_nil, dropStars_idem]
      simpa using he
    | cons y t' =>
      simp only at ih1 ⊢
      rw [← ih1 (by simp), compile_star]
      exact (matchA_star_compile_dropStars p' _).symm
  | case6 c p' x t h1 h2 ht =>
    intro _
    have ht' : t = [] := List.isEmpty_iff.mp ht
    subst ht'
    rw [compile_cons]; simp only [h2, if_true]
    rw [matchA_cons_cons _ _ _ _ (by simp), matchA_compile_nil]; simp [Atom.matches1]
  | case7 c p' x t h1 h2 ht ih =>
    intro _
    rw [compile_cons]; simp only [h2, if_true]
    rw [matchA_cons_cons _ _ _ _ (by simp), ih (by simpa using ht)]; simp [Atom.matches1]
  | case8 c p' x t h1 h2 h3 _ hm ht =>
    intro _
    have ht' : t = [] := List.isEmpty_iff.mp ht
    have hc' : c = cLB := by simpa using h3
    subst ht' hc'
    rw [compile_cons]; simp only [h3, if_true, show (cLB == cQ) = false from rfl,
      show (cLB == cStar) = false from rfl, show (cLB == cBS) = false from rfl, Bool.false_eq_true, if_false]
    rw [matchA_cons_cons _ _ _ _ (classAtom_ne_star _), classAtom_matches, hm,
      classAtom_snd x, matchA_compile_nil]; simp
  | case9 c p' x t h1 h2 h3 _ hm ht ih =>
    intro _
    have hc' : c = cLB := by simpa using h3
    subst hc'
    rw [compile_cons]; simp only [h3, if_true, show (cLB == cQ) = false from rfl,
      show (cLB == cStar) = false from rfl, show (cLB == cBS) = false from rfl, Bool.false_eq_true, if_false]
    rw [matchA_cons_cons _ _ _ _ (classAtom_ne_star _), classAtom_matches, hm,
      classAtom_snd x, ih (by simpa using ht)]; simp
  | case10 c p' x t h1 h2 h3 _ hm =>
    intro _
    have hc' : c = cLB := by simpa using h3
    subst hc'
    rw [compile_cons]; simp only [h3, if_true, show (cLB == cQ) = false from rfl,
      show (cLB == cStar) = false from rfl, show (cLB == cBS) = false from rfl, Bool.false_eq_true, if_false]
    rw [matchA_cons_cons _ _ _ _ (classAtom_ne_star _), classAtom_matches]
    simp only [Bool.not_eq_true] at hm
    rw [hm]; simp
  | case11 c x t h1 h2 h3 h4 b r hb ht =>
    intro _
    have ht' : t = [] := List.isEmpty_iff.mp ht
    have hc' : c = cBS := by simpa using h4
    subst ht' hc'
    rw [compile_cons]; simp only [show (cBS == cQ) = false from rfl,
      show (cBS == cStar) = false from rfl, show (cBS == cBS) = true from rfl, Bool.false_eq_true,
      if_false, if_true]
    rw [matchA_cons_cons _ _ _ _ (by simp), matchA_compile_nil]; simp [Atom.matches1, hb]
  | case12 c x t h1 h2 h3 h4 b r hb ht ih =>
    intro _
    have hc' : c = cBS := by simpa using h4
    subst hc'
    rw [compile_cons]; simp only [show (cBS == cQ) = false from rfl,
      show (cBS == cStar) = false from rfl, show (cBS == cBS) = true from rfl, Bool.false_eq_true,
      if_false, if_true]
    rw [matchA_cons_cons _ _ _ _ (by simp), ih (by simpa using ht)]; simp [Atom.matches1, hb]
  | case13 c x t h1 h2 h3 h4 b r hb =>
    intro _
    have hc' : c = cBS := by simpa using h4
    subst hc'
    rw [compile_cons]; simp only [show (cBS == cQ) = false from rfl,
      show (cBS == cStar) = false from rfl, show (cBS == cBS) = true from rfl, Bool.false_eq_true,
      if_false, if_true]
    rw [matchA_cons_cons _ _ _ _ (by simp)]; simp [Atom.matches1, hb]
  | case14 c x t h1 h2 h3 h4 hx =>
    intro _
    have hc' : c = cBS := by simpa using h4
    subst hc'
    rw [compile_cons]; simp only [show (cBS == cQ) = false from rfl,
      show (cBS == cStar) = false from rfl, show (cBS == cBS) = true from rfl, Bool.false_eq_true,
      if_false, if_true]
    rw [matchA_cons_cons _ _ _ _ (by simp), matchA_nil]; simp [Atom.matches1, hx]
  | case15 c x t h1 h2 h3 h4 hx =>
    intro _
    have hc' : c = cBS := by simpa using h4
    subst hc'
    rw [compile_cons]; simp only [show (cBS == cQ) = false from rfl,
      show (cBS == cStar) = false from rfl, show (cBS == cBS) = true from rfl, Bool.false_eq_true,
      if_false, if_true]
    rw [matchA_cons_cons _ _ _ _ (by simp)]; simp [Atom.matches1, hx]
  | case16 c p' x t h1 h2 h3 h4 hx ht =>
    intro _
    have ht' : t = [] := List.isEmpty_iff.mp ht
    subst ht'
    rw [compile_cons]; simp only [h1, h2, h3, h4, Bool.false_eq_true, if_false]
    rw [matchA_cons_cons _ _ _ _ (by simp), matchA_compile_nil]; simp [Atom.matches1, hx]
  | case17 c p' x t h1 h2 h3 h4 hx ht ih =>
    intro _
    rw [compile_cons]; simp only [h1, h2, h3, h4, Bool.false_eq_true, if_false]
    rw [matchA_cons_cons _ _ _ _ (by simp), ih (by simpa using ht)]; simp [Atom.matches1, hx]
  | case18 c p' x t h1 h2 h3 h4 hx =>
    intro _
    rw [compile_cons]; simp only [h1, h2, h3, h4, Bool.false_eq_true, if_false]
    rw [matchA_cons_cons _ _ _ _ (by simp)]; simp [Atom.matches1, hx]

/-! ## Redis on the empty subject, literal patterns -/

theorem rglob_nil (p : B) : rglob p [] = p.isEmpty := by
  cases p <;> simp [rglob]

theorem compile_lit (c : UInt8) (rest : B)
    (h : c ≠ 42 ∧ c ≠ 63 ∧ c ≠ 91 ∧ c ≠ 92) : compile (c :: rest) = .lit c :: compile rest := by
  rw [compile_cons]
  simp [cQ, cStar, cBS, cLB, h.1, h.2.1, h.2.2.1, h.2.2.2]

theorem matchA_compile_literal (p s : B) (h : ∀ c ∈ p, c ≠ 42 ∧ c ≠ 63 ∧ c ≠ 91 ∧ c ≠ 92) :
    matchA (compile p) s = decide (p = s) := by
  induction p generalizing s with
  | nil => cases s <;> simp [compile, matchA_nil]
  | cons c r ih =>
    rw [compile_lit c r (h c (by simp))]
    cases s with
    | nil => rw [matchA_cons_nil _ _ (by simp)]; simp
    | cons x t =>
      rw [matchA_cons_cons _ _ _ _ (by simp), ih t (fun c hc => h c (by simp [hc]))]
      simp only [Atom.matches1, List.cons.injEq, Bool.decide_and]
      by_cases hcx : c = x <;> simp [hcx]

end FR.Glob
