import FR.Proofs.History
import FR.Proofs.AsyncLife
/-!
# C08 at system level: a command answered with an error changes nothing

`Quiet s0 s` : `s` differs from `s0` only by lazy deletions of already-expired entries (every database is
purge-equal) and by the bookkeeping fields of the replay (`clocks`, `picks`, `fault`, `crashed`).  Everything else —
the clock, the pub/sub tables, the script cache, every connection record, the reply list — is identical.

The file pushes three judgments through `special`, `runWith`, `runCommand`, `processCommand`:

* `Pres (Quiet s0) m`  : `m` is quiet whatever it returns (re-using the `Pres` logic of `History.lean`),
* `Spec s0 bad m`      : if `m` returns a `bad` value (an error), it has been quiet,
* `Never bad m`        : `m` never returns a `bad` value.
-/
namespace FR.ErrSys
open FR FR.M FR.Db
set_option linter.unusedSimpArgs false
set_option linter.unusedVariables false

/-! ## The relation -/

/-- two lists of dictionaries of equal length that are pairwise purge-equal at time `t` (and have unique keys) -/
def DbsSim (t : Int) (a b : List Dict) : Prop :=
  a.length = b.length ∧ ∀ i, Db.Sim ⟨a.getD i [], t⟩ ⟨b.getD i [], t⟩

/-- unique keys in every database: the part of `Sys.DataInv` that purge-equality needs -/
def NodupDbs (s : Sys) : Prop := ∀ d ∈ s.srv.dbs, NodupKeys d

theorem NodupDbs.of_dataInv {s : Sys} (h : s.DataInv) : NodupDbs s := fun d hd => (h d hd).1

theorem nodup_nil : NodupKeys ([] : Dict) := by unfold NodupKeys; simp

theorem NodupDbs.getD {s : Sys} (h : NodupDbs s) (i : Nat) : NodupKeys (s.srv.dbs.getD i []) := by
  rw [List.getD_eq_getElem?_getD]
  cases hi : s.srv.dbs[i]? with
  | none => exact nodup_nil
  | some d => exact h d (List.mem_of_getElem? hi)

theorem DbsSim.refl {t : Int} {a : List Dict} (h : ∀ d ∈ a, NodupKeys d) : DbsSim t a a := by
  refine ⟨rfl, fun i => Db.Sim.refl ?_⟩
  show NodupKeys (a.getD i [])
  rw [List.getD_eq_getElem?_getD]
  cases hi : a[i]? with
  | none => exact nodup_nil
  | some d => exact h d (List.mem_of_getElem? hi)

theorem DbsSim.trans {t : Int} {a b c : List Dict} (h1 : DbsSim t a b) (h2 : DbsSim t b c) : DbsSim t a c :=
  ⟨h1.1.trans h2.1, fun i => (h1.2 i).trans (h2.2 i)⟩

theorem getD_set (l : List Dict) (i j : Nat) (x : Dict) :
    (l.set i x).getD j [] = if i = j ∧ i < l.length then x else l.getD j [] := by
  simp only [List.getD_eq_getElem?_getD, List.getElem?_set]
  by_cases hij : i = j
  · subst hij
    by_cases hl : i < l.length
    · simp [hl]
    · simp [hl]
  · simp [hij]

theorem DbsSim.set {t : Int} {a b : List Dict} (h : DbsSim t a b) (i : Nat) {x : Dict}
    (hx : Db.Sim ⟨a.getD i [], t⟩ ⟨x, t⟩) : DbsSim t a (b.set i x) := by
  refine ⟨by rw [List.length_set]; exact h.1, fun j => ?_⟩
  rw [getD_set]
  split
  · rename_i hij; obtain ⟨rfl, _⟩ := hij; exact hx
  · exact h.2 j

/-- `s` is `s0` up to lazy deletions of expired entries and the replay bookkeeping (`clocks`, `picks`, `fault`, `crashed`) -/
structure Quiet (s0 s : Sys) : Prop where
  dbs : DbsSim s0.srv.time s0.srv.dbs s.srv.dbs
  srv : s.srv = { s0.srv with dbs := s.srv.dbs }
  out : s.out = s0.out

theorem Quiet.refl {s : Sys} (h : NodupDbs s) : Quiet s s := ⟨DbsSim.refl h, rfl, rfl⟩

theorem Quiet.time {s0 s : Sys} (h : Quiet s0 s) : s.srv.time = s0.srv.time := by rw [h.srv]
theorem Quiet.conns {s0 s : Sys} (h : Quiet s0 s) : s.srv.conns = s0.srv.conns := by rw [h.srv]
theorem Quiet.subs {s0 s : Sys} (h : Quiet s0 s) : s.srv.subs = s0.srv.subs := by rw [h.srv]
theorem Quiet.psubs {s0 s : Sys} (h : Quiet s0 s) : s.srv.psubs = s0.srv.psubs := by rw [h.srv]
theorem Quiet.scripts {s0 s : Sys} (h : Quiet s0 s) : s.srv.scripts = s0.srv.scripts := by rw [h.srv]
theorem Quiet.version {s0 s : Sys} (h : Quiet s0 s) : s.srv.version = s0.srv.version := by rw [h.srv]
theorem Quiet.lastsave {s0 s : Sys} (h : Quiet s0 s) : s.srv.lastsave = s0.srv.lastsave := by rw [h.srv]
theorem Quiet.connected {s0 s : Sys} (h : Quiet s0 s) : s.srv.connected = s0.srv.connected := by rw [h.srv]
theorem Quiet.closedSockets {s0 s : Sys} (h : Quiet s0 s) : s.srv.closedSockets = s0.srv.closedSockets := by rw [h.srv]
theorem Quiet.len {s0 s : Sys} (h : Quiet s0 s) : s.srv.dbs.length = s0.srv.dbs.length := h.dbs.1.symm

theorem Quiet.conn {s0 s : Sys} (h : Quiet s0 s) (c : Nat) : s.conn c = s0.conn c := by
  simp only [Sys.conn_def, h.conns]

/-- the purged content of every database is the same -/
theorem Quiet.purge_eq {s0 s : Sys} (h : Quiet s0 s) (i : Nat) : Db.purge (s.dbAt i) = Db.purge (s0.dbAt i) := by
  have := (h.dbs.2 i).eq
  unfold Sys.dbAt
  rw [h.time]
  exact this.symm

theorem Quiet.nodup {s0 s : Sys} (h : Quiet s0 s) : NodupDbs s := by
  intro d hd
  obtain ⟨i, hi, rfl⟩ := List.mem_iff_getElem.1 hd
  have := (h.dbs.2 i).nd2
  simpa [List.getD_eq_getElem?_getD, List.getElem?_eq_getElem hi] using this

theorem Quiet.dbAt {s0 s : Sys} (h : Quiet s0 s) (i : Nat) : Db.Sim (s0.dbAt i) (s.dbAt i) := by
  unfold Sys.dbAt
  rw [h.time]
  exact h.dbs.2 i

theorem Quiet.trans {s0 s1 s2 : Sys} (h1 : Quiet s0 s1) (h2 : Quiet s1 s2) : Quiet s0 s2 := by
  refine ⟨h1.dbs.trans (by rw [← h1.time]; exact h2.dbs), ?_, h2.out.trans h1.out⟩
  rw [h2.srv, h1.srv]

/-- a state change outside `srv` and `out` -/
theorem Quiet.frame {s0 s s' : Sys} (h : Quiet s0 s) (h1 : s'.srv = s.srv) (h2 : s'.out = s.out) : Quiet s0 s' := by
  refine ⟨by rw [h1]; exact h.dbs, ?_, h2.trans h.out⟩
  rw [h1]; exact h.srv

theorem Quiet.setDbS {s0 s : Sys} (h : Quiet s0 s) (i : Nat) {db : Db} (hdb : Db.Sim (s0.dbAt i) db) :
    Quiet s0 (s.setDbS i db) := by
  have ht : db.time = s0.srv.time := hdb.time.symm
  refine ⟨?_, ?_, h.out⟩
  · refine DbsSim.set h.dbs i ?_
    have : (⟨db.dict, s0.srv.time⟩ : Db) = db := by rw [← ht]
    rw [this]; exact hdb
  · show ({ s.srv with dbs := s.srv.dbs.set i db.dict } : Server) = _
    rw [h.srv]
    rfl

/-! ## The judgments -/

/-- if `m` returns a `bad` value, it has been quiet -/
def Spec (s0 : Sys) {α : Type} (bad : α → Prop) (m : M α) : Prop :=
  ∀ s, Quiet s0 s → bad (m s).1 → Quiet s0 (m s).2

/-- `m` never returns a `bad` value -/
def Never {α : Type} (bad : α → Prop) (m : M α) : Prop := ∀ s, ¬ bad (m s).1

namespace Never
variable {α β : Type} {bad : β → Prop}

theorem pure {a : β} (h : ¬ bad a) : Never bad (Pure.pure a : M β) := fun _ => h

theorem bind {m : M α} {f : α → M β} (hf : ∀ a, Never bad (f a)) : Never bad (m >>= f) :=
  fun s => hf (m s).1 (m s).2

theorem bindV {m : M α} {f : α → M β} {bad1 : α → Prop} (hm : Never bad1 m)
    (hf : ∀ a, ¬ bad1 a → Never bad (f a)) : Never bad (m >>= f) :=
  fun s => hf (m s).1 (hm s) (m s).2

theorem map {m : M α} {g : α → β} {bad' : α → Prop} (hm : Never bad' m) (hg : ∀ a, ¬ bad' a → ¬ bad (g a)) :
    Never bad (g <$> m) := fun s => hg _ (hm s)

end Never

namespace Spec
variable {s0 : Sys} {α β : Type} {bad : β → Prop}

theorem pure (a : β) : Spec s0 bad (Pure.pure a : M β) := fun _ h _ => h

theorem of_pres {m : M β} (h : Pres (Quiet s0) m) : Spec s0 bad m := fun s hs _ => h s hs

theorem of_never {m : M β} (h : Never bad m) : Spec s0 bad m := fun s _ hb => absurd hb (h s)

theorem bind {m : M α} {f : α → M β} (hm : Pres (Quiet s0) m) (hf : ∀ a, Spec s0 bad (f a)) :
    Spec s0 bad (m >>= f) :=
  fun s hs hb => hf (m s).1 (m s).2 (hm s hs) hb

/-- the continuation is quiet after a bad value of `m` and never bad after a good one -/
theorem bindC {m : M α} {f : α → M β} {bad1 bad2 : α → Prop} (hm : Spec s0 bad1 m) (hn : Never bad2 m)
    (h1 : ∀ a, bad1 a → Spec s0 bad (f a))
    (h2 : ∀ a, ¬ bad1 a → ¬ bad2 a → Never bad (f a)) : Spec s0 bad (m >>= f) := by
  intro s hs hb
  by_cases hv : bad1 (m s).1
  · exact h1 _ hv _ (hm s hs hv) hb
  · exact absurd hb (h2 _ hv (hn s) _)

theorem get_bind {f : Sys → M β} (hf : ∀ s, Quiet s0 s → Spec s0 bad (f s)) : Spec s0 bad (get >>= f) :=
  fun s hs hb => hf s hs s hs hb

end Spec

/-! ## Leaves of the `Pres (Quiet s0)` logic -/

variable {s0 : Sys}

theorem q_getConn (c : Nat) : Pres (Quiet s0) (getConn c) := fun _ h => h
theorem q_get : Pres (Quiet s0) (get : M Sys) := fun _ h => h
theorem q_getDb (i : Nat) : Pres (Quiet s0) (getDb i) := fun _ h => h

theorem q_getDb_bind {β : Type} (i : Nat) {f : Db → M β}
    (hf : ∀ db, Db.Sim (s0.dbAt i) db → Pres (Quiet s0) (f db)) : Pres (Quiet s0) (getDb i >>= f) :=
  Pres.bindV (fun db => Db.Sim (s0.dbAt i) db) (fun s h => ⟨h, h.dbAt i⟩) hf

theorem q_setDb (i : Nat) {db : Db} (h : Db.Sim (s0.dbAt i) db) : Pres (Quiet s0) (setDb i db) :=
  fun s hs => hs.setDbS i h

theorem q_fault (msg : String) : Pres (Quiet s0) (M.fault msg) := by
  intro s h
  show Quiet s0 (if s.fault.isNone then { s with fault := some msg } else s)
  split
  · exact h.frame rfl rfl
  · exact h

theorem q_nextClock : Pres (Quiet s0) nextClock :=
  fun s h => h.frame (nextClock_srv s) (nextClock_out s)

theorem q_modify_frame (g : Sys → Sys) (h1 : ∀ s, (g s).srv = s.srv) (h2 : ∀ s, (g s).out = s.out) :
    Pres (Quiet s0) (modify g) := fun s h => h.frame (h1 s) (h2 s)

theorem q_okR (r : Reply) (cis : List CI) : Pres (Quiet s0) (okR r cis) := Pres.pure _

/-- side conditions `Db.Sim (s0.dbAt i) db'` -/
theorem sim_get {a db db' : Db} {k : Bytes} {r : Option Item} (h : Db.Sim a db) (e : db.get k = (db', r)) :
    Db.Sim a db' := by
  have : db' = (db.get k).1 := by rw [e]
  subst this
  exact h.trans ⟨h.nd2, get_nodup k h.nd2, (get_purge k h.nd2).symm⟩

theorem sim_get1 {a db : Db} (k : Bytes) (h : Db.Sim a db) : Db.Sim a (db.get k).1 :=
  h.trans ⟨h.nd2, get_nodup k h.nd2, (get_purge k h.nd2).symm⟩

theorem sim_keys {a db db' : Db} {ks : List Bytes} (h : Db.Sim a db) (e : db.keys = (db', ks)) : Db.Sim a db' := by
  have : db' = Db.purge db := (congrArg Prod.fst e).symm
  subst this
  exact h.trans (Sim.purge_right h.nd2)

theorem sim_reads {a db db' : Db} (h : Db.Sim a db) (r : Reads db db') : Db.Sim a db' :=
  h.trans ⟨h.nd2, r.nd, r.eq.symm⟩

theorem sim_apply {a db db' : Db} {res} {sig : Sig} {raw : List Bytes} (h : Db.Sim a db)
    (e : sig.apply raw db = (db', res)) : Db.Sim a db' := by
  have : db' = (sig.apply raw db).1 := by rw [e]
  subst this
  exact sim_reads h (Sig.apply_reads sig raw h.nd2)

syntax "q_good" : tactic
macro_rules | `(tactic| q_good) => `(tactic| first
  | assumption
  | (refine sim_get ?_ ‹_›; assumption)
  | (refine sim_keys ?_ ‹_›; assumption)
  | (refine sim_apply ?_ ‹_›; assumption)
  | (refine sim_get1 _ ?_; assumption))

theorem q_liveKeys (d : Nat) : Pres (Quiet s0) (liveKeys d) := by
  unfold liveKeys
  refine q_getDb_bind d (fun db hdb => ?_)
  split
  rename_i db' ks heq
  exact Pres.bind (q_setDb d (sim_keys hdb heq)) (fun _ => Pres.pure _)

/-- writing back unmodified `CommandItem`s does nothing at all -/
theorem writebackAll_clean (d : Nat) {cis : List CI} (hc : ∀ c ∈ cis, c.Clean) (s : Sys) :
    writebackAll d cis s = ((), s) := by
  induction cis generalizing s with
  | nil => rfl
  | cons ci cis ih =>
    rw [writebackAll_cons]
    have h1 := hc ci (List.mem_cons_self ..)
    have : s.wbStep d ci = s := by
      unfold Sys.wbStep
      rw [CI.writeback_unmodified h1.1 h1.2]
      simp only [h1.1, Bool.false_eq_true, if_false]
      exact Sys.setDbS_self s d
    rw [this]
    exact ih (fun c hc' => hc c (List.mem_cons_of_mem _ hc')) s

theorem q_writebackAll_clean (d : Nat) {cis : List CI} (hc : ∀ c ∈ cis, c.Clean) :
    Pres (Quiet s0) (writebackAll d cis) := by
  intro s hs
  rw [writebackAll_clean d hc]; exact hs

/-! ### registering the leaves with the `pres` descent of `History.lean` -/

macro_rules | `(tactic| pres_leaf) => `(tactic| first
  | with_reducible exact q_getConn _
  | with_reducible exact q_fault _
  | with_reducible exact q_nextClock
  | with_reducible exact q_liveKeys _
  | with_reducible exact q_getDb _
  | with_reducible exact q_okR _ _
  | with_reducible exact q_get
  | ((with_reducible refine q_modify_frame _ ?_ ?_) <;> first | exact fun _ => rfl | (intro _; split <;> rfl))
  | ((with_reducible apply q_setDb); q_good))

macro_rules | `(tactic| pres_step) => `(tactic| (with_reducible refine q_getDb_bind _ (fun db hdb => ?_)))

/-- `set` of a state that only differs in the bookkeeping fields -/
theorem q_at_set {β : Type} {s s' : Sys} {g : PUnit → M β} (hs : Quiet s0 s) (h1 : s'.srv = s.srv) (h2 : s'.out = s.out)
    (hg : Pres (Quiet s0) (g ⟨⟩)) : PresAt (Quiet s0) s (set s' >>= g) :=
  Pres.at_set_bind (hs.frame h1 h2) hg


/-! ## Bad values -/

/-- `_run_command` answered an error -/
def badO : Option Reply → Prop
  | some (.err _) => True
  | _ => False

/-- a special body raised -/
def errS : SpecialOut → Prop
  | .error _ => True
  | _ => False

/-- a special body returned an error-shaped reply without raising (never happens) -/
def okErrS : SpecialOut → Prop
  | .ok (some (.err _), _) => True
  | _ => False

def errP : Except Err (Option Reply) → Prop
  | .error _ => True
  | _ => False

def okErrP : Except Err (Option Reply) → Prop
  | .ok (some (.err _)) => True
  | _ => False

def errR : Except Err (Reply × List CI) → Prop
  | .error _ => True
  | _ => False

def okErrR : Except Err (Reply × List CI) → Prop
  | .ok (.err _, _) => True
  | _ => False

theorem Spec.getDb_bind {β : Type} {bad : β → Prop} (i : Nat) {f : Db → M β}
    (hf : ∀ db, Db.Sim (s0.dbAt i) db → Spec s0 bad (f db)) : Spec s0 bad (getDb i >>= f) :=
  fun s hs hb => hf _ (hs.dbAt i) s hs hb

/-! ## Automation -/

open Lean Elab Tactic Meta in
/-- close the goal with a universally quantified hypothesis of the context -/
elab "forall_hyp" : tactic => withMainContext do
  let g ← getMainGoal
  for ldecl in (← getLCtx) do
    if ldecl.isImplementationDetail then continue
    let ty ← instantiateMVars ldecl.type
    unless ty.isForall do continue
    let saved ← saveState
    try
      let gs ← withReducible <| g.apply ldecl.toExpr
      if gs.isEmpty then
        replaceMainGoal []
        return
      else saved.restore
    catch _ => saved.restore
  throwError "forall_hyp: no applicable hypothesis"




/-- tail positions never return a bad value -/
syntax "never_leaf" : tactic
macro_rules | `(tactic| never_leaf) => `(tactic| first
  | ((with_reducible refine Never.pure ?_); exact fun h => h)
  | with_reducible assumption
  | forall_hyp)

syntax "never" : tactic
macro_rules | `(tactic| never) => `(tactic| repeat' first
  | never_leaf
  | (with_reducible refine Never.bind (fun _ => ?_))
  | split
  | (simp only []))

/-- `Spec` descent: quiet prefix, then either a pure return or a tail that never returns a bad value -/
syntax "spec_leaf" : tactic
macro_rules | `(tactic| spec_leaf) => `(tactic| first
  | with_reducible exact Spec.pure _
  | with_reducible assumption
  | forall_hyp)

syntax "spec" : tactic
macro_rules | `(tactic| spec) => `(tactic| repeat' first
  | spec_leaf
  | (with_reducible refine Spec.getDb_bind _ (fun db hdb => ?_))
  | ((with_reducible refine Spec.bind ?_ (fun _ => ?_)); focus (pres; done))
  | (refine Spec.of_never ?_; never; done)
  | split
  | (simp only []))

theorem selectCmd_spec (c : Nat) (args : List Arg) (cis : List CI) : Spec s0 errS (selectCmd c args cis) := by
  unfold selectCmd okR; spec

theorem selectCmd_never (c : Nat) (args : List Arg) (cis : List CI) : Never okErrS (selectCmd c args cis) := by
  unfold selectCmd okR; never

theorem swapdbCmd_spec (args : List Arg) (cis : List CI) : Spec s0 errS (swapdbCmd args cis) := by
  unfold swapdbCmd okR; spec

theorem swapdbCmd_never (args : List Arg) (cis : List CI) : Never okErrS (swapdbCmd args cis) := by
  unfold swapdbCmd okR; never

theorem moveCmd_spec (d : Nat) (args : List Arg) (cis : List CI) : Spec s0 errS (moveCmd d args cis) := by
  unfold moveCmd; spec

theorem moveCmd_never (d : Nat) (args : List Arg) (cis : List CI) : Never okErrS (moveCmd d args cis) := by
  unfold moveCmd; never


theorem randomkeyCmd_quiet (d : Nat) (cis : List CI) : Pres (Quiet s0) (randomkeyCmd d cis) := by
  unfold randomkeyCmd okR
  refine Pres.bind (q_liveKeys d) (fun ks => ?_)
  split
  · pres
  · refine Pres.get_bind (fun s hs => ?_)
    split
    · split
      · exact q_at_set hs rfl rfl (Pres.pure _)
      · refine Pres.at_of_pres ?_ hs; pres
    · refine Pres.at_of_pres ?_ hs; pres

theorem randomkeyCmd_never (d : Nat) (cis : List CI) : Never okErrS (randomkeyCmd d cis) := by
  unfold randomkeyCmd okR; never

theorem scanCmd_quiet (d : Nat) (args : List Arg) (cis : List CI) : Pres (Quiet s0) (scanCmd d args cis) := by
  unfold scanCmd; pres

theorem scanReply_arr {α} {elems : List α} {keyOf typeName allowType cursor opts render} {r : Reply}
    (h : Cmd.scanReply elems keyOf typeName allowType cursor opts render = .ok r) : ∃ xs, r = .arr xs := by
  unfold Cmd.scanReply at h
  repeat' split at h
  all_goals first
    | cases h; done
    | (injection h with h; exact ⟨_, h.symm⟩)

theorem scanCmd_never (d : Nat) (args : List Arg) (cis : List CI) : Never okErrS (scanCmd d args cis) := by
  unfold scanCmd okR
  split
  · refine Never.bind (fun ks => Never.bind (fun db => ?_))
    split
    · rename_i r heq
      obtain ⟨xs, rfl⟩ := scanReply_arr heq
      exact Never.pure (fun h => h)
    · exact Never.pure (fun h => h)
  · exact Never.pure (fun h => h)

theorem multiCmd_spec (c : Nat) (cis : List CI) : Spec s0 errS (multiCmd c cis) := by
  unfold multiCmd okR; spec
theorem multiCmd_never (c : Nat) (cis : List CI) : Never okErrS (multiCmd c cis) := by
  unfold multiCmd okR; never
theorem discardCmd_spec (c : Nat) (cis : List CI) : Spec s0 errS (discardCmd c cis) := by
  unfold discardCmd okR; spec
theorem discardCmd_never (c : Nat) (cis : List CI) : Never okErrS (discardCmd c cis) := by
  unfold discardCmd okR; never
theorem watchCmd_spec (c d : Nat) (args : List Arg) (cis : List CI) : Spec s0 errS (watchCmd c d args cis) := by
  unfold watchCmd okR; spec
theorem watchCmd_never (c d : Nat) (args : List Arg) (cis : List CI) : Never okErrS (watchCmd c d args cis) := by
  unfold watchCmd okR; never

/-! ### blocking pops -/

theorem bpopPass_spec (d : Nat) (left first : Bool) (keys : List Bytes) :
    Spec s0 errP (bpopPass d left first keys) := by
  induction keys with
  | nil => unfold bpopPass; spec
  | cons k rest ih => unfold bpopPass; spec

theorem bpopPass_never (d : Nat) (left first : Bool) (keys : List Bytes) :
    Never okErrP (bpopPass d left first keys) := by
  intro s hb
  generalize hres : (bpopPass d left first keys s).1 = res at hb
  match res, hres, hb with
  | .ok (some (.err m)), hres, _ =>
    obtain ⟨k, l, h⟩ := bpopPass_reply _ _ _ _ _ _ hres
    simp [bpopReply] at h

theorem brpoplpushPass_spec (d : Nat) (src dst : Bytes) (first : Bool) :
    Spec s0 errP (brpoplpushPass d src dst first) := by
  unfold brpoplpushPass; spec

theorem brpoplpushPass_never (d : Nat) (src dst : Bytes) (first : Bool) :
    Never okErrP (brpoplpushPass d src dst first) := by
  intro s hb
  generalize hres : (brpoplpushPass d src dst first s).1 = res at hb
  match res, hres, hb with
  | .ok (some (.err m)), hres, _ =>
    obtain ⟨el, h⟩ := brpoplpushPass_reply _ _ _ _ _ _ hres
    cases h

theorem blocking_spec (c : Nat) (park : Bool) (kind : String) (keys : List Bytes) (timeout : Int)
    (pass : Bool → M (Except Err (Option Reply))) (hp : ∀ first, Spec s0 errP (pass first))
    (hn : ∀ first, Never okErrP (pass first)) : Spec s0 errP (blocking c park kind keys timeout pass) := by
  unfold blocking
  refine Spec.bindC (hp true) (hn true) (fun a ha => ?_) (fun a h1 h2 => ?_)
  · split
    · exact Spec.pure _
    · cases ha
    · cases ha
  · split
    · exact absurd trivial h1
    · exact Never.pure (fun h => h)
    · never

theorem blocking_never (c : Nat) (park : Bool) (kind : String) (keys : List Bytes) (timeout : Int)
    (pass : Bool → M (Except Err (Option Reply)))
    (hn : ∀ first, Never okErrP (pass first)) : Never okErrP (blocking c park kind keys timeout pass) := by
  unfold blocking
  refine Never.bindV (hn true) (fun a ha => ?_)
  split
  · exact Never.pure (fun h => h)
  · exact Never.pure ha
  · never

theorem blockingAsync_spec (c : Nat) (kind : String) (keys : List Bytes)
    (pass : Bool → M (Except Err (Option Reply))) (hp : ∀ first, Spec s0 errP (pass first))
    (hn : ∀ first, Never okErrP (pass first)) : Spec s0 errP (blockingAsync c kind keys pass) := by
  unfold blockingAsync
  refine Spec.bindC (hp true) (hn true) (fun a ha => ?_) (fun a h1 h2 => ?_)
  · split
    · exact Spec.pure _
    · cases ha
    · cases ha
  · split
    · exact absurd trivial h1
    · exact Never.pure (fun h => h)
    · never

theorem blockingAsync_never (c : Nat) (kind : String) (keys : List Bytes)
    (pass : Bool → M (Except Err (Option Reply)))
    (hn : ∀ first, Never okErrP (pass first)) : Never okErrP (blockingAsync c kind keys pass) := by
  unfold blockingAsync
  refine Never.bindV (hn true) (fun a ha => ?_)
  split
  · exact Never.pure (fun h => h)
  · exact Never.pure ha
  · never


/-! ### SORT, ZUNIONSTORE / ZINTERSTORE -/

theorem lookupKey_quiet (d : Nat) (key pattern : Bytes) : Pres (Quiet s0) (lookupKey d key pattern) := by
  unfold lookupKey; pres

macro_rules | `(tactic| pres_leaf) => `(tactic| with_reducible exact lookupKey_quiet _ _ _)

theorem zunioninter_quiet (u : Bool) (d : Nat) (args : List Arg) (cis : List CI) :
    Pres (Quiet s0) (zunioninter u d args cis) := by
  unfold zunioninter
  split
  · pres
    all_goals
      refine Pres.loop_pure (fun b => b.2.2.2.2) _ (fun b => ?_) _
      repeat' split
      all_goals
        refine ⟨_, rfl, fun b' h => ?_⟩
        first
          | (cases h; done)
          | (have h := ForInStep.yield.inj h; subst h; simp_all <;> omega)
  · pres


/-- every value `m` may return satisfies `P` -/
def Always {α : Type} (P : α → Prop) (m : M α) : Prop := ∀ s, P (m s).1

namespace Always
variable {α β : Type} {P : β → Prop}
theorem pure {a : β} (h : P a) : Always P (Pure.pure a : M β) := fun _ => h
theorem bind {m : M α} {f : α → M β} (hf : ∀ a, Always P (f a)) : Always P (m >>= f) :=
  fun s => hf (m s).1 (m s).2

theorem forIn {l : List α} {f : α → β → M (ForInStep β)} {init : β} (h0 : P init)
    (hf : ∀ a b, P b → Always (fun r => P r.value) (f a b)) : Always P (forIn l init f) := by
  induction l generalizing init with
  | nil => exact pure h0
  | cons a as ih =>
    rw [List.forIn_cons]
    intro s
    have h1 := hf a init h0 s
    show P ((match (f a init s).1 with
      | .done b => Pure.pure b
      | .yield b => ForIn.forIn as b f : M β) (f a init s).2).1
    revert h1
    generalize f a init s = r
    obtain ⟨r1, s1⟩ := r
    intro h1
    cases r1 with
    | done b => exact h1
    | yield b => exact ih h1 s1

/-- a `while` loop with a pure body -/
theorem loop_pure (μ : β → Nat) (f : Unit → β → M (ForInStep β)) {init : β} (h0 : P init)
    (hf : ∀ b, P b → ∃ r, f () b = Pure.pure r ∧ P r.value ∧ ∀ b', r = .yield b' → μ b' < μ b) :
    Always P (ForIn.forIn Lean.Loop.mk init f) := by
  induction h : μ init using Nat.strongRecOn generalizing init with
  | _ n ih =>
    rw [loop_unfold]
    obtain ⟨r, hr, hP, hd⟩ := hf init h0
    rw [hr]
    intro s
    cases r with
    | done v => exact hP
    | yield v => exact ih (μ v) (by rw [← h]; exact hd v rfl) hP rfl s
end Always

theorem Never.bindA {α β : Type} {bad : β → Prop} {P : α → Prop} {m : M α} {f : α → M β} (hm : Always P m)
    (hf : ∀ a, P a → Never bad (f a)) : Never bad (m >>= f) :=
  fun s => hf (m s).1 (hm s) (m s).2

/-- the early-return slot of a compiled `for`/`while` loop only ever holds a raised error -/
def EarlyErr {σ : Type} (b : Option (Except Err (Reply × List CI)) × σ) : Prop :=
  ∀ r, b.1 = some r → ¬ okErrR r

theorem EarlyErr.none {σ : Type} (x : σ) : EarlyErr (none, x) := fun r h => by cases h

theorem Never.ite {β : Type} {bad : β → Prop} {c : Prop} [Decidable c] {t e : M β}
    (ht : c → Never bad t) (he : ¬ c → Never bad e) : Never bad (if c then t else e) := by
  split
  · exact ht ‹_›
  · exact he ‹_›
theorem zunioninter_never (u : Bool) (d : Nat) (args : List Arg) (cis : List CI) :
    Never okErrR (zunioninter u d args cis) := by
  unfold zunioninter
  split
  · simp only []
    refine Never.ite (fun _ => by never) (fun _ => ?_)
    refine Never.ite (fun _ => by never) (fun _ => ?_)
    · 
      · refine Never.bindA (P := EarlyErr) (Always.forIn (EarlyErr.none _) (fun key b hb => ?_)) (fun b1 hb1 => ?_)
        · refine Always.bind (fun _ => Always.bind (fun _ => ?_))
          repeat' split
          all_goals refine Always.pure ?_
          all_goals intro r h
          all_goals first | (cases h; done) | (cases h; exact fun h => h)
        · split
          · rename_i r heq; exact Never.pure (hb1 r heq)
          · refine Never.bindA (P := EarlyErr) (Always.loop_pure (fun b => b.2.2.2.2) _ (EarlyErr.none _) (fun b hb => ?_))
              (fun b2 hb2 => ?_)
            · repeat' split
              all_goals refine ⟨_, rfl, ?_, fun b' h => ?_⟩
              all_goals first
                | (intro r h; cases h; done)
                | (intro r h; cases h; exact fun h => h)
                | (cases h; done)
                | (have h := ForInStep.yield.inj h; subst h; simp_all <;> omega)
            · split
              · rename_i r heq; exact Never.pure (hb2 r heq)
              · exact Never.bind (fun _ => Never.pure (fun h => h))
  · exact Never.pure (fun h => h)

theorem q_set {s' : Sys} (h : Quiet s0 s') : Pres (Quiet s0) (set s') := fun _ _ => h

theorem sortCmd_never (c d : Nat) (args : List Arg) (cis : List CI) : Never okErrR (sortCmd c d args cis) := by
  unfold sortCmd
  split
  · extract_lets key wrong out x keyed err le jp
    split
    · never
    · have hjp : ∀ x, Never okErrR (jp x) := by
        intro items?
        simp -zeta only [jp]
        split
        · never
        · split
          · never
          · extract_lets n start stop stop' gets sortby jp2
            have hjp2 : ∀ x, Never okErrR (jp2 x) := by
              intro sorted?
              simp -zeta only [jp2]
              never
            clear_value jp2
            never
      clear_value jp
      never
  · never

theorem sortCmd_spec (c d : Nat) (args : List Arg) (cis : List CI) : Spec s0 errR (sortCmd c d args cis) := by
  unfold sortCmd
  split
  · extract_lets key wrong out x keyed err le jp
    split
    · spec
    · have hjp : ∀ x, Spec s0 errR (jp x) := by
        intro items?
        simp -zeta only [jp]
        split
        · spec
        · split
          · spec
          · extract_lets n start stop stop' gets sortby jp2
            have hjp2 : ∀ x, Spec s0 errR (jp2 x) := by
              intro sorted?
              simp -zeta only [jp2]
              spec
            clear_value jp2
            spec
      clear_value jp
      simp only []
      split
      · spec
      · spec
      · spec
      · refine Spec.get_bind (fun st hs => ?_)
        split
        · split
          · refine Spec.bind (q_set (hs.frame rfl rfl)) (fun _ => ?_)
            spec
          · spec
        · spec
      · spec
  · spec

/-! ## `special` -/

theorem okErrS_R {r : Reply} {cis : List CI} (h : okErrS (.ok (some r, cis))) : okErrR (.ok (r, cis)) := by
  cases r <;> exact h

theorem okErrS_P {r : Option Reply} {cis : List CI} (h : okErrS (.ok (r, cis))) : okErrP (.ok r) := by
  cases r with
  | none => exact h
  | some r => cases r <;> exact h

macro_rules | `(tactic| spec_leaf) => `(tactic| first
  | with_reducible exact selectCmd_spec _ _ _
  | with_reducible exact swapdbCmd_spec _ _
  | with_reducible exact moveCmd_spec _ _ _
  | with_reducible exact Spec.of_pres (randomkeyCmd_quiet _ _)
  | with_reducible exact Spec.of_pres (scanCmd_quiet _ _ _)
  | with_reducible exact multiCmd_spec _ _
  | with_reducible exact discardCmd_spec _ _
  | with_reducible exact watchCmd_spec _ _ _ _
  | with_reducible exact sortCmd_spec _ _ _ _
  | with_reducible exact Spec.of_pres (zunioninter_quiet _ _ _ _)
  | with_reducible exact blocking_spec _ _ _ _ _ _ (fun _ => bpopPass_spec _ _ _ _) (fun _ => bpopPass_never _ _ _ _)
  | with_reducible exact blockingAsync_spec _ _ _ _ (fun _ => bpopPass_spec _ _ _ _) (fun _ => bpopPass_never _ _ _ _)
  | with_reducible exact blocking_spec _ _ _ _ _ _ (fun _ => brpoplpushPass_spec _ _ _ _) (fun _ => brpoplpushPass_never _ _ _ _)
  | with_reducible exact blockingAsync_spec _ _ _ _ (fun _ => brpoplpushPass_spec _ _ _ _) (fun _ => brpoplpushPass_never _ _ _ _))

macro_rules | `(tactic| never_leaf) => `(tactic| first
  | with_reducible exact selectCmd_never _ _ _
  | with_reducible exact swapdbCmd_never _ _
  | with_reducible exact moveCmd_never _ _ _
  | with_reducible exact randomkeyCmd_never _ _
  | with_reducible exact scanCmd_never _ _ _
  | with_reducible exact multiCmd_never _ _
  | with_reducible exact discardCmd_never _ _
  | with_reducible exact watchCmd_never _ _ _ _
  | with_reducible exact sortCmd_never _ _ _ _
  | with_reducible exact zunioninter_never _ _ _ _
  | with_reducible exact blocking_never _ _ _ _ _ _ (fun _ => bpopPass_never _ _ _ _)
  | with_reducible exact blockingAsync_never _ _ _ _ (fun _ => bpopPass_never _ _ _ _)
  | with_reducible exact blocking_never _ _ _ _ _ _ (fun _ => brpoplpushPass_never _ _ _ _)
  | with_reducible exact blockingAsync_never _ _ _ _ (fun _ => brpoplpushPass_never _ _ _ _))

theorem scriptCmd_run (inner : Inner) (c : Nat) (name : String) (args : List Arg) (cis : List CI) (s : Sys) :
    (scriptCmd inner c name args cis s).1 = .ok (none, cis) := by
  unfold scriptCmd
  have : ∀ (e : Err) (y : Option Reply × List CI),
      ((Except.error e : SpecialOut) <|> Except.ok y) = Except.ok y := fun _ _ => rfl
  rw [this]
  rfl

theorem scriptCmd_never (inner : Inner) (c : Nat) (name : String) (args : List Arg) (cis : List CI) :
    Never errS (scriptCmd inner c name args cis) := by
  intro s h; rw [scriptCmd_run] at h; exact h

theorem scriptCmd_never' (inner : Inner) (c : Nat) (name : String) (args : List Arg) (cis : List CI) :
    Never okErrS (scriptCmd inner c name args cis) := by
  intro s h; rw [scriptCmd_run] at h; exact h

syntax "spec_lift" : tactic
macro_rules | `(tactic| spec_lift) => `(tactic|
  ((first | refine Spec.bindC (bad1 := errR) (bad2 := okErrR) ?_ ?_ (fun a ha => ?_) (fun a h1 h2 => ?_)
          | refine Spec.bindC (bad1 := errP) (bad2 := okErrP) ?_ ?_ (fun a ha => ?_) (fun a h1 h2 => ?_))
   · spec_leaf
   · never_leaf
   · split <;> first | with_reducible exact Spec.pure _ | cases ha
   · split <;> first | exact absurd trivial h1 | ((with_reducible refine Never.pure ?_); exact fun h => h)))

set_option maxHeartbeats 1000000 in
theorem special_spec (inner : Inner) (mode : Mode) (c : Nat) (name : String) (args : List Arg) (cis : List CI)
    (hne : name ≠ "exec") : Spec s0 errS (special inner mode c name args cis) := by
  unfold special okR
  simp only []
  refine Spec.bind (q_getConn c) (fun conn => ?_)
  split
  case h_12 =>
    split
    · spec
    · exact Spec.of_never (Never.bind (fun _ => Never.pure (fun h => h)))
  all_goals first
    | exact absurd rfl hne
    | exact Spec.of_never (scriptCmd_never _ _ _ _ _)
    | (spec_lift; done)
    | ((split <;> first | (spec_leaf; done) | (spec_lift; done) | ((split <;> spec_lift); done) | (split <;> first | (spec_leaf; done) | ((split <;> spec_lift); done))); done)
    | (spec; done)


theorem execCmd_never (inner : Inner) (c : Nat) (cis : List CI) : Never okErrS (execCmd inner c cis) := by
  unfold execCmd okR; never

syntax "never_lift" : tactic
macro_rules | `(tactic| never_lift) => `(tactic|
  ((first | refine Never.bindV (bad1 := okErrR) ?_ (fun a ha => ?_)
          | refine Never.bindV (bad1 := okErrP) ?_ (fun a ha => ?_))
   · never_leaf
   · split
     all_goals (with_reducible refine Never.pure ?_)
     all_goals first | exact fun h => h | exact fun h => ha (okErrS_R h) | exact fun h => ha (okErrS_P h)))

set_option maxHeartbeats 1000000 in
theorem special_never (inner : Inner) (mode : Mode) (c : Nat) (name : String) (args : List Arg) (cis : List CI) :
    Never okErrS (special inner mode c name args cis) := by
  unfold special okR
  simp only []
  refine Never.bind (fun conn => ?_)
  split
  all_goals first
    | exact execCmd_never _ _ _
    | exact scriptCmd_never' _ _ _ _ _
    | (never_lift; done)
    | ((split <;> first | (never_leaf; done) | (never_lift; done) | ((split <;> never_lift); done) | (split <;> first | (never_leaf; done) | ((split <;> never_lift); done))); done)
    | (never; done)



/-! ## `_run_command` -/

theorem sim_apply1 {a db : Db} (sig : Sig) (raw : List Bytes) (h : Db.Sim a db) : Db.Sim a (sig.apply raw db).1 :=
  sim_reads h (Sig.apply_reads sig raw h.nd2)

macro_rules | `(tactic| q_good) => `(tactic| (refine sim_apply1 _ _ ?_; assumption))

theorem okErrS_O {r : Option Reply} {cis : List CI} (h : badO r) : okErrS (.ok (r, cis)) := by
  cases r with
  | none => exact h
  | some r => cases r <;> exact h

/-- `_run_command` of a special command: an error answer means nothing happened -/
theorem runWith_special_spec (special : SpecialFn) (mode : Mode) (c : Nat) (sig : Sig) (raw : List Bytes)
    (fromScript : Bool) (hreg : Cmd.regular sig.name = none)
    (hsp : ∀ args cis, Spec s0 errS (special mode c sig.name args cis))
    (hnv : ∀ args cis, Never okErrS (special mode c sig.name args cis)) :
    Spec s0 badO (runWith special mode c sig raw fromScript) := by
  unfold runWith
  refine Spec.bind (q_getConn c) (fun conn => ?_)
  split
  · -- refused in subscriber mode: nothing happens
    exact Spec.pure _
  refine Spec.getDb_bind _ (fun db hdb => ?_)
  simp only [hreg]
  refine Spec.bind (by pres) (fun _ => ?_)
  split
  · exact Spec.pure _
  · exact Spec.pure _
  · rename_i args cis heq
    have hclean := Sig.apply_clean sig raw db heq
    split
    · exact Spec.pure _
    · refine Spec.bindC (hsp args cis) (hnv args cis) (fun a ha => ?_) (fun a h1 h2 => ?_)
      · split
        · refine Spec.of_pres ?_
          have hw := q_writebackAll_clean (s0 := s0) conn.db hclean
          pres
        · cases ha
      · split
        · exact absurd trivial h1
        · exact Never.bind (fun _ => Never.pure (fun h => h2 (okErrS_O h)))


/-! ### regular commands -/

theorem runRegular_failed_reply (sig : Sig) (body : Body) (ctx : Ctx) (gate : Option Err) (raw : List Bytes) (db : Db)
    (hf : (runRegular sig body ctx gate raw db).failed = true) :
    ∃ e, (runRegular sig body ctx gate raw db).reply = .err e := by
  unfold runRegular at hf ⊢
  repeat' split
  all_goals first
    | exact ⟨_, rfl⟩
    | (simp_all; done)

/-- a regular command that ended on an error path has been quiet -/
theorem runWith_regular_failed (special : SpecialFn) (mode : Mode) (c : Nat) (sig : Sig) (raw : List Bytes)
    (fromScript : Bool) {body : Body} (h : Cmd.regular sig.name = some body) (s : Sys) (hq : Quiet s0 s)
    (hf : (s.regularOut c sig body raw fromScript).failed = true) :
    Quiet s0 (runWith special mode c sig raw fromScript s).2 := by
  cases hrf : s.refuses c sig with
  | true => rw [runWith_refused special mode c sig raw fromScript hrf]; exact hq
  | false =>
  rw [runWith_regular_run special mode c sig raw fromScript h s hrf]
  have nd : NodupKeys (s.dbAt (s.conn c).db).dict := hq.nodup.getD _
  have hr := runRegular_failed sig body _ _ raw nd hf
  unfold Sys.afterRegular
  change (s.regularOut c sig body raw fromScript).failed = true at hf
  rw [show (s.regularOut c sig body raw fromScript).notified = [] from hr.2]
  show Quiet s0 (Sys.faultS _ _)
  refine Quiet.frame (s := s.setDbS (s.conn c).db (s.regularOut c sig body raw fromScript).db) ?_ ?_ ?_
  · exact hq.setDbS _ (sim_reads (hq.dbAt _) hr.1)
  · rw [Sys.faultS_srv]; rfl
  · unfold Sys.faultS
    split
    · split <;> rfl
    · rfl

/-! ### the script commands -/

def errE : Except Err Reply → Prop
  | .error _ => True
  | _ => False

def okErrE : Except Err Reply → Prop
  | .ok (.err _) => True
  | _ => False

theorem nextPick_quiet : Pres (Quiet s0) nextPick := by
  unfold nextPick
  refine Pres.get_bind (fun s hs => ?_)
  split
  · exact q_at_set hs rfl rfl (Pres.pure _)
  · exact Pres.at_of_pres (Pres.pure _) hs

macro_rules | `(tactic| pres_leaf) => `(tactic| with_reducible exact nextPick_quiet)

theorem shaHint_quiet : Pres (Quiet s0) shaHint := by
  unfold shaHint; pres

macro_rules | `(tactic| pres_leaf) => `(tactic| with_reducible exact shaHint_quiet)

/-- SCRIPT LOAD / EXISTS / FLUSH: an error means nothing happened -/
theorem scriptBody_spec (special : SpecialFn) (mode : Mode) (c : Nat) (name : String) (args : List Arg)
    (h1 : name ≠ "eval") (h2 : name ≠ "evalsha") : Spec s0 errE (scriptBody special mode c name args) := by
  unfold scriptBody
  refine Spec.bind q_get (fun _ => ?_)
  split
  · exact absurd rfl h1
  · exact absurd rfl h2
  · spec
  · spec

theorem scriptBody_never (special : SpecialFn) (mode : Mode) (c : Nat) (name : String) (args : List Arg)
    (h1 : name ≠ "eval") (h2 : name ≠ "evalsha") : Never okErrE (scriptBody special mode c name args) := by
  unfold scriptBody
  refine Never.bind (fun _ => ?_)
  split
  · exact absurd rfl h1
  · exact absurd rfl h2
  · never
  · never

theorem okErrE_O {r : Reply} (h : badO (some r)) : okErrE (.ok r) := by
  cases r <;> exact h

theorem runScriptCmd_spec (mode : Mode) (c : Nat) (sig : Sig) (raw : List Bytes) (fromScript : Bool)
    (h1 : sig.name ≠ "eval") (h2 : sig.name ≠ "evalsha") :
    Spec s0 badO (runScriptCmd mode c sig raw fromScript) := by
  unfold runScriptCmd
  refine Spec.bind (q_getConn c) (fun conn => ?_)
  split
  · exact Spec.pure _
  refine Spec.getDb_bind _ (fun db hdb => ?_)
  simp only []
  refine Spec.bind (by pres) (fun _ => ?_)
  split
  · exact Spec.pure _
  · exact Spec.pure _
  · split
    · exact Spec.pure _
    · refine Spec.bindC (scriptBody_spec _ mode c sig.name _ h1 h2) (scriptBody_never _ mode c sig.name _ h1 h2)
        (fun a ha => ?_) (fun a h1 h2 => ?_)
      · split
        · cases ha
        · refine Spec.of_pres ?_; pres
      · split
        · exact Never.pure (fun h => h2 (okErrE_O h))
        · exact absurd trivial h1

/-! ### `_run_command` -/

/-- the nested runner of EXEC, for a special command other than EXEC, EVAL, EVALSHA (a queued EVAL / EVALSHA is run
by the direct script runner: a script that answers an error may have written before, exactly as
`runCommand_special_spec` excludes it for a direct request) -/
theorem runInner_spec (mode : Mode) (c : Nat) (sig : Sig) (raw : List Bytes) (hreg : Cmd.regular sig.name = none)
    (hne : sig.name ≠ "exec") (h1 : sig.name ≠ "eval") (h2 : sig.name ≠ "evalsha") :
    Spec s0 badO (runInner mode c sig raw) := by
  refine runInner_cases (P := fun m => Spec s0 badO m) mode c sig raw
    (fun _ => runScriptCmd_spec mode c sig raw false h1 h2) (fun _ => ?_)
  exact runWith_special_spec _ mode c sig raw false hreg
    (fun args cis => special_spec _ mode c sig.name args cis hne)
    (fun args cis => special_never _ mode c sig.name args cis)

/-- `_run_command` for a special command other than EXEC, EVAL, EVALSHA -/
theorem runCommand_special_spec (mode : Mode) (c : Nat) (sig : Sig) (raw : List Bytes) (fromScript : Bool)
    (hreg : Cmd.regular sig.name = none)
    (hne : sig.name ≠ "exec") (h1 : sig.name ≠ "eval") (h2 : sig.name ≠ "evalsha") :
    Spec s0 badO (runCommand mode c sig raw fromScript) := by
  unfold runCommand
  split
  · exact runScriptCmd_spec mode c sig raw fromScript h1 h2
  · exact runWith_special_spec _ mode c sig raw fromScript hreg
      (fun args cis => special_spec _ mode c sig.name args cis hne)
      (fun args cis => special_never _ mode c sig.name args cis)



/-! ## `_process_command` -/

/-! the command table look-up of `_process_command` is `FR.lookupSig` (`FR/Proofs/Parser.lean`) -/

/-- the state in which a known command is checked and run: the sockets closed meanwhile have been cleaned up
(`_cleanup`) and the clock has been read (`srv.time` refreshed, one clock hint consumed) -/
def _root_.FR.Sys.prologue (s : Sys) : Sys := (cleanupClosed s).2.refresh

def markTxFailed (x : Conn) : Conn := { x with txFailed := true }
def markDead (x : Conn) : Conn := { x with dead := true }

theorem lookupSig_some {nameB : Bytes} {sig : Sig} (h : lookupSig nameB = some sig) :
    ∃ n, commandName nameB = some n ∧ n.startsWith "_" = false ∧ SigTable.find n = some sig := by
  unfold lookupSig at h
  split at h
  · rename_i n hn
    split at h
    · cases h
    · exact ⟨n, hn, by cases hh : n.startsWith "_" <;> simp_all, h⟩
  · cases h

theorem lookupSig_none {nameB : Bytes} (h : lookupSig nameB = none) :
    commandName nameB = none ∨
      ∃ n, commandName nameB = some n ∧ (n.startsWith "_" = true ∨ (n.startsWith "_" = false ∧ SigTable.find n = none)) := by
  unfold lookupSig at h
  split at h
  · rename_i n hn
    split at h
    · exact .inr ⟨n, hn, .inl ‹_›⟩
    · exact .inr ⟨n, hn, .inr ⟨by cases hh : n.startsWith "_" <;> simp_all, h⟩⟩
  · exact .inl ‹_›

theorem pc_unknown (mode : Mode) (c : Nat) (nameB : Bytes) (args : List Bytes) (s : Sys)
    (h : lookupSig nameB = none) :
    (processCommand mode c (nameB :: args) s).2 =
      (if (s.conn c).tx.isSome then s.updConn c markTxFailed else s).emitS c (.err (strBytes unknownCommandPrefix)) := by
  unfold processCommand
  rcases lookupSig_none h with hn | ⟨n, hn, hu | ⟨hu, hf⟩⟩
  · simp only [bind, StateT.bind, getConn_run, hn]
    split <;> (simp only [StateT.bind, modifyConn_run, emit_run]; try rfl)
  · simp only [bind, StateT.bind, getConn_run, hn, hu, ↓reduceIte]
    split <;> (simp only [StateT.bind, modifyConn_run, emit_run]; try rfl)
  · simp only [bind, StateT.bind, getConn_run, hn, hu, hf, ↓reduceIte, Bool.false_eq_true]
    split <;> (simp only [StateT.bind, modifyConn_run, emit_run]; try rfl)

/-- what `_process_command` does with a known command after the clean-up and the clock refresh; `conn` is the
connection record read on entry -/
def knownTail (mode : Mode) (c : Nat) (sig : Sig) (args : List Bytes) (conn : Conn) : M Unit := do
  if !sig.checkArity args.length then
    if conn.tx.isSome then modifyConn c fun x => { x with txFailed := true }
    if sig.name == "exec" then
      modifyConn c fun x => { x with tx := none, txFailed := false }
      clearWatches c
      emit c (.err (strBytes ("EXECABORT Transaction discarded because of: " ++ (sig.wrongArgs.drop 4))))
    else emit c (.err (strBytes sig.wrongArgs))
  else if conn.tx.isSome && !SigTable.notQueued.contains sig.name then
    if SigTable.notInMulti.contains sig.name then
      modifyConn c fun x => { x with txFailed := true }
      emit c (.err (strBytes Msgs.COMMAND_IN_MULTI_MSG))
    else
      modifyConn c fun x => { x with tx := x.tx.map (· ++ [(sig.name, args)]) }
      emit c .queued
  else
    match ← runCommand mode c sig args false with
    | some r => emit c r
    | none => pure ()
    if (← get).crashed.isSome then modifyConn c fun x => { x with dead := true }

theorem processCommand_known (mode : Mode) (c : Nat) (nameB : Bytes) (args : List Bytes) (s : Sys) {sig : Sig}
    (h : lookupSig nameB = some sig) :
    processCommand mode c (nameB :: args) s = knownTail mode c sig args (s.conn c) s.prologue := by
  obtain ⟨n, hn, hu, hf⟩ := lookupSig_some h
  unfold processCommand
  simp only [hn, hu, hf, Bool.false_eq_true, ↓reduceIte]
  rfl

theorem pc_arity (mode : Mode) (c : Nat) (nameB : Bytes) (args : List Bytes) (s : Sys) {sig : Sig}
    (h : lookupSig nameB = some sig) (ha : sig.checkArity args.length = false) (hne : sig.name ≠ "exec") :
    (processCommand mode c (nameB :: args) s).2 =
      (if (s.conn c).tx.isSome then s.prologue.updConn c markTxFailed else s.prologue).emitS c
        (.err (strBytes sig.wrongArgs)) := by
  rw [processCommand_known mode c nameB args s h]
  have hne' : (sig.name == "exec") = false := by simpa using hne
  unfold knownTail
  simp only [ha, hne', Bool.not_false, ↓reduceIte, Bool.false_eq_true]
  split <;> (simp only [bind, StateT.bind, modifyConn_run, emit_run, pure, StateT.pure]; try rfl)

/-- the run branch of `_process_command` -/
def afterRun (c : Nat) (r : Option Reply × Sys) : Sys :=
  let s2 := match r.1 with
    | some x => r.2.emitS c x
    | none => r.2
  if s2.crashed.isSome then s2.updConn c markDead else s2

theorem pc_run (mode : Mode) (c : Nat) (nameB : Bytes) (args : List Bytes) (s : Sys) {sig : Sig}
    (h : lookupSig nameB = some sig) (ha : sig.checkArity args.length = true)
    (hq : ((s.conn c).tx.isSome && !SigTable.notQueued.contains sig.name) = false) :
    (processCommand mode c (nameB :: args) s).2 = afterRun c (runCommand mode c sig args false s.prologue) := by
  rw [processCommand_known mode c nameB args s h]
  unfold knownTail afterRun
  simp only [ha, hq, Bool.not_true, ↓reduceIte, Bool.false_eq_true, bind, StateT.bind]
  generalize runCommand mode c sig args false s.prologue = r
  obtain ⟨r1, s3⟩ := r
  cases r1 with
  | none =>
    simp only [MonadState.get, getThe, MonadStateOf.get, StateT.get, StateT.bind, pure, StateT.pure]
    change ((if s3.crashed.isSome = true then modifyConn c _ else StateT.pure ()) s3).snd = _
    by_cases hc : s3.crashed.isSome = true
    · rw [if_pos hc, if_pos hc]; rfl
    · rw [if_neg hc, if_neg hc]; rfl
  | some x =>
    simp only [MonadState.get, getThe, MonadStateOf.get, StateT.get, StateT.bind, pure, StateT.pure, emit_run]
    change ((if (s3.emitS c x).crashed.isSome = true then modifyConn c _ else StateT.pure ()) (s3.emitS c x)).snd = _
    by_cases hc : (s3.emitS c x).crashed.isSome = true
    · rw [if_pos hc, if_pos hc]; rfl
    · rw [if_neg hc, if_neg hc]; rfl


/-- (P)SUBSCRIBE / (P)UNSUBSCRIBE inside MULTI: refused; only `txFailed` and the error reply -/
theorem pc_refused (mode : Mode) (c : Nat) (nameB : Bytes) (args : List Bytes) (s : Sys) {sig : Sig}
    (h : lookupSig nameB = some sig) (ha : sig.checkArity args.length = true)
    (hq : ((s.conn c).tx.isSome && !SigTable.notQueued.contains sig.name) = true)
    (hnm : SigTable.notInMulti.contains sig.name = true) :
    (processCommand mode c (nameB :: args) s).2 =
      (s.prologue.updConn c markTxFailed).emitS c (.err (strBytes Msgs.COMMAND_IN_MULTI_MSG)) := by
  rw [processCommand_known mode c nameB args s h]
  unfold knownTail
  simp only [ha, hq, hnm, Bool.not_true, ↓reduceIte, Bool.false_eq_true, bind, StateT.bind, modifyConn_run, emit_run]
  rfl

theorem cleanupClosed_dbs (s : Sys) : (cleanupClosed s).2.srv.dbs = s.srv.dbs := by
  have h : Pres (fun t : Sys => t.srv.dbs = s.srv.dbs) cleanupClosed := by
    unfold cleanupClosed
    refine Pres.get_bind (fun s1 hs => Pres.at_of_pres ?_ hs)
    refine Pres.bind (Pres.forIn (fun a b => ?_) _) (fun _ => fun _ h => h)
    exact Pres.bind (fun _ h => h) (fun _ => Pres.bind (fun _ h => h) (fun _ => Pres.pure _))
  exact h s rfl

theorem prologue_dbs (s : Sys) : s.prologue.srv.dbs = s.srv.dbs := by
  unfold Sys.prologue
  rw [Sys.refresh_dbs, cleanupClosed_dbs]

theorem prologue_nodup {s : Sys} (h : NodupDbs s) : NodupDbs s.prologue := by
  unfold NodupDbs; rw [prologue_dbs]; exact h

/-- nothing but the clock (`srv.time`, the consumed clock hint, possibly the `fault` marker of the replay) changes
in the prologue when no socket was closed meanwhile -/
theorem prologue_srv_of_no_closed {s : Sys} (h : s.srv.closedSockets = []) :
    s.prologue.srv = { s.srv with time := (nextClock s).1 } ∧ s.prologue.out = s.out := by
  unfold Sys.prologue
  rw [cleanupClosed_run_nil h]
  refine ⟨?_, Sys.refresh_out s⟩
  unfold Sys.refresh
  simp only [nextClock_srv]

/-! ### the shape of the state after an error answer -/

/-- `s'` is `s1` after an error answer `r` to connection `c`: every database purge-equal, every other field of the
server identical, every connection record identical except that of `c`, which is changed by `f`; the reply is
appended (unless the socket is closed) -/
structure ErrStep (c : Nat) (r : Reply) (f : Conn → Conn) (s1 s' : Sys) : Prop where
  dbs : DbsSim s1.srv.time s1.srv.dbs s'.srv.dbs
  srv : s'.srv = { s1.srv with dbs := s'.srv.dbs, conns := s'.srv.conns }
  conns : s'.srv.conns = s1.srv.conns.map fun x => if x.id == c then f x else x
  out : s'.out = if (s1.conn c).closed then s1.out else (c, r) :: s1.out

theorem Sys.updConn_id (s : Sys) (c : Nat) : s.updConn c id = s := by
  unfold Sys.updConn
  have : (s.srv.conns.map fun x => if (x.id == c) = true then id x else x) = s.srv.conns := by
    conv => rhs; rw [← List.map_id s.srv.conns]
    apply List.map_congr_left
    intro x _; split <;> rfl
  rw [this]

theorem ErrStep.emit_upd {c : Nat} {r : Reply} {f : Conn → Conn} {s1 s2 : Sys} (h : Quiet s1 s2)
    (hc : ∀ x, (f x).closed = x.closed) (hid : ∀ x, (f x).id = x.id) :
    ErrStep c r f s1 ((s2.updConn c f).emitS c r) := by
  have hcl : ((s2.updConn c f).conn c).closed = (s1.conn c).closed := by
    rw [Sys.conn_updConn_proj s2 c c f Conn.closed hid hc, h.conn]
  refine ⟨?_, ?_, ?_, ?_⟩
  · rw [Sys.emitS_srv]; exact h.dbs
  · rw [Sys.emitS_srv]
    have e : (s2.updConn c f).srv =
        { s2.srv with conns := s2.srv.conns.map fun x => if x.id == c then f x else x } := rfl
    rw [e, h.srv]
  · rw [Sys.emitS_srv]
    show (s2.srv.conns.map _) = _
    rw [h.conns]
  · rw [Sys.emitS_out, hcl]
    show (if _ then s2.out else (c, r) :: s2.out) = _
    rw [h.out]

theorem ErrStep.upd_emit {c : Nat} {r : Reply} {f : Conn → Conn} {s1 s2 : Sys} (h : Quiet s1 s2) :
    ErrStep c r f s1 ((s2.emitS c r).updConn c f) := by
  have hcl : (s2.conn c).closed = (s1.conn c).closed := by rw [h.conn]
  refine ⟨?_, ?_, ?_, ?_⟩
  · show DbsSim _ _ (s2.emitS c r).srv.dbs
    rw [Sys.emitS_srv]; exact h.dbs
  · have e : ((s2.emitS c r).updConn c f).srv =
        { s2.srv with conns := s2.srv.conns.map fun x => if x.id == c then f x else x } := by
      simp only [Sys.updConn, Sys.emitS_srv]
    rw [e, h.srv]
  · show ((s2.emitS c r).srv.conns.map _) = _
    rw [Sys.emitS_srv, h.conns]
  · show (s2.emitS c r).out = _
    rw [Sys.emitS_out, hcl, h.out]


/-! ### the main theorem -/

/-- request `fields` of connection `c`, processed in state `s`, is answered with an error:
the command is unknown, or its arity is wrong, or it is (P)SUBSCRIBE / (P)UNSUBSCRIBE inside MULTI, or — when it is
run at once — `_run_command` refuses a regular command
in subscriber mode or its generic runner ends on an error path (`failed`), respectively `_run_command` of a special
command returns an error reply (the subscriber-mode refusal included) -/
def ErrAnswered (mode : Mode) (c : Nat) (fields : List Bytes) (s : Sys) : Prop :=
  match fields with
  | [] => False
  | nameB :: args =>
    match lookupSig nameB with
    | none => True
    | some sig =>
      if !sig.checkArity args.length then True
      else if (s.conn c).tx.isSome && !SigTable.notQueued.contains sig.name then
        -- inside MULTI: queued (`QUEUED`), except (P)SUBSCRIBE / (P)UNSUBSCRIBE, which are refused
        SigTable.notInMulti.contains sig.name = true
      else match Cmd.regular sig.name with
        | some body => s.prologue.refuses c sig = true ∨ (s.prologue.regularOut c sig body args false).failed = true
        | none => badO (runCommand mode c sig args false s.prologue).1

theorem badO_some {r : Option Reply} (h : badO r) : ∃ e, r = some (.err e) := by
  cases r with
  | none => cases h
  | some r =>
    cases r with
    | err m => exact ⟨m, rfl⟩
    | _ => cases h

theorem not_script_of_regular {name : String} {body : Body} (h : Cmd.regular name = some body) :
    scriptNames.contains name = false := by
  cases hc : scriptNames.contains name with
  | false => rfl
  | true =>
    simp only [scriptNames, List.contains_cons, List.contains_nil, Bool.or_false, Bool.or_eq_true, beq_iff_eq] at hc
    rcases hc with rfl | rfl | rfl <;> cases h

/-- the run branch: the state after `_run_command` answered an error -/
theorem runCommand_error (mode : Mode) (c : Nat) (sig : Sig) (args : List Bytes) (s1 : Sys) (hnd : NodupDbs s1)
    (hne : sig.name ≠ "exec") (h1 : sig.name ≠ "eval") (h2 : sig.name ≠ "evalsha")
    (herr : match Cmd.regular sig.name with
      | some body => s1.refuses c sig = true ∨ (s1.regularOut c sig body args false).failed = true
      | none => badO (runCommand mode c sig args false s1).1) :
    (∃ e, (runCommand mode c sig args false s1).1 = some (.err e)) ∧
      Quiet s1 (runCommand mode c sig args false s1).2 := by
  cases hreg : Cmd.regular sig.name with
  | some body =>
    rw [hreg] at herr
    simp only at herr
    have hrc : runCommand mode c sig args false = runWith (special (runInner mode c)) mode c sig args false := by
      unfold runCommand
      rw [not_script_of_regular hreg]; rfl
    rw [hrc]
    cases hrf : s1.refuses c sig with
    | true =>
      rw [runWith_refused _ mode c sig args false hrf]
      exact ⟨⟨_, rfl⟩, Quiet.refl hnd⟩
    | false =>
    rw [hrf] at herr
    replace herr := herr.resolve_left (by simp)
    refine ⟨?_, runWith_regular_failed _ mode c sig args false hreg s1 (Quiet.refl hnd) herr⟩
    rw [runWith_regular_run _ mode c sig args false hreg s1 hrf]
    obtain ⟨e, he⟩ := runRegular_failed_reply _ _ _ _ _ _ herr
    exact ⟨e, congrArg some he⟩
  | none =>
    rw [hreg] at herr
    simp only at herr
    exact ⟨badO_some herr, runCommand_special_spec mode c sig args false hreg hne h1 h2 s1 (Quiet.refl hnd) herr⟩

theorem markDead_closed (x : Conn) : (markDead x).closed = x.closed := rfl
theorem markTxFailed_closed (x : Conn) : (markTxFailed x).closed = x.closed := rfl

/-- **C08, system level.**  A request that is answered with an error (other than by EXEC / EVAL / EVALSHA, whose inner
commands are treated separately) changes nothing: relative to the state `base` in which the command is looked at
(for a known command: after the clean-up of closed sockets and the clock refresh), every database is purge-equal,
the pub/sub tables, the script cache and every other server field are identical, every other connection record is
identical, the record of `c` is unchanged (`f = id`), or has `txFailed := true` (error while queueing inside MULTI),
or `dead := true` (only when the `crashed` marker of the replay is set); the reply list grows by the one error. -/
theorem processCommand_error (mode : Mode) (c : Nat) (nameB : Bytes) (args : List Bytes) (s : Sys)
    (hnd : NodupDbs s) (herr : ErrAnswered mode c (nameB :: args) s)
    (hx : ∀ sig, lookupSig nameB = some sig → sig.name ≠ "exec" ∧ sig.name ≠ "eval" ∧ sig.name ≠ "evalsha") :
    ∃ e f, ErrStep c (.err e) f (if (lookupSig nameB).isSome then s.prologue else s)
        (processCommand mode c (nameB :: args) s).2 ∧
      (f = id ∨ (f = markTxFailed ∧ (s.conn c).tx.isSome = true) ∨
        (f = markDead ∧ (processCommand mode c (nameB :: args) s).2.crashed.isSome = true)) := by
  unfold ErrAnswered at herr
  cases hl : lookupSig nameB with
  | none =>
    rw [pc_unknown mode c nameB args s hl]
    simp only [Option.isSome_none, Bool.false_eq_true, if_false]
    by_cases htx : (s.conn c).tx.isSome = true
    · rw [if_pos htx]
      exact ⟨_, markTxFailed, ErrStep.emit_upd (Quiet.refl hnd) markTxFailed_closed (fun _ => rfl), .inr (.inl ⟨rfl, htx⟩)⟩
    · rw [if_neg htx]
      refine ⟨strBytes unknownCommandPrefix, id, ?_, .inl rfl⟩
      have := ErrStep.emit_upd (c := c) (r := .err (strBytes unknownCommandPrefix)) (f := id) (Quiet.refl hnd)
        (fun _ => rfl) (fun _ => rfl)
      rwa [Sys.updConn_id] at this
  | some sig =>
    obtain ⟨hne, h1, h2⟩ := hx sig hl
    simp only [hl] at herr
    simp only [Option.isSome_some, if_true]
    have hnd1 := prologue_nodup hnd
    by_cases ha : sig.checkArity args.length = true
    · simp only [ha, Bool.not_true, Bool.false_eq_true, if_false] at herr
      by_cases hq : ((s.conn c).tx.isSome && !SigTable.notQueued.contains sig.name) = true
      · simp only [hq, if_true] at herr
        rw [pc_refused mode c nameB args s hl ha hq herr]
        have htx : (s.conn c).tx.isSome = true := by
          simp only [Bool.and_eq_true] at hq; exact hq.1
        exact ⟨_, markTxFailed, ErrStep.emit_upd (Quiet.refl hnd1) markTxFailed_closed (fun _ => rfl),
          .inr (.inl ⟨rfl, htx⟩)⟩
      · have hq' : ((s.conn c).tx.isSome && !SigTable.notQueued.contains sig.name) = false := by
          simpa using hq
        simp only [hq', Bool.false_eq_true, if_false] at herr
        obtain ⟨⟨e, he⟩, hQ⟩ := runCommand_error mode c sig args s.prologue hnd1 hne h1 h2 herr
        rw [pc_run mode c nameB args s hl ha hq']
        unfold afterRun
        simp only [he]
        by_cases hc : ((runCommand mode c sig args false s.prologue).2.emitS c (.err e)).crashed.isSome = true
        · rw [if_pos hc]
          exact ⟨e, markDead, ErrStep.upd_emit hQ, .inr (.inr ⟨rfl, hc⟩)⟩
        · rw [if_neg hc]
          refine ⟨e, id, ?_, .inl rfl⟩
          have := ErrStep.upd_emit (c := c) (r := .err e) (f := id) hQ
          rwa [Sys.updConn_id] at this
    · have ha' : sig.checkArity args.length = false := by simpa using ha
      rw [pc_arity mode c nameB args s hl ha' hne]
      by_cases htx : (s.conn c).tx.isSome = true
      · rw [if_pos htx]
        exact ⟨_, markTxFailed, ErrStep.emit_upd (Quiet.refl hnd1) markTxFailed_closed (fun _ => rfl),
          .inr (.inl ⟨rfl, htx⟩)⟩
      · rw [if_neg htx]
        refine ⟨strBytes sig.wrongArgs, id, ?_, .inl rfl⟩
        have := ErrStep.emit_upd (c := c) (r := .err (strBytes sig.wrongArgs)) (f := id) (Quiet.refl hnd1)
          (fun _ => rfl) (fun _ => rfl)
        rwa [Sys.updConn_id] at this



/-! ## EXEC itself answered with an error -/

/-- what a refused EXEC does to the connection: the transaction is dropped, the watches are cleared -/
def abortTx (x : Conn) : Conn := { x with tx := none, watchNotified := false, watches := [] }

theorem execSeq_never (inner : Inner) (c : Nat) (cis : List CI) (q : List (String × List Bytes)) :
    Never errS (do
      modifyConn c fun x => { x with tx := none, txFailed := false }
      clearWatches c
      let results ← runQueue inner c q
      if results.any Option.isNone then
        modify fun s => { s with crashed := some "AssertionError" }
        return .ok (none, cis)
      else okR (.arr (results.map fun r => r.getD .nil)) cis : M SpecialOut) := by
  unfold okR; never

/-- the outcomes of `execCmd`: it raises only without MULTI (state untouched) or after a queueing error
(transaction dropped, watches cleared) -/
theorem execCmd_error (inner : Inner) (c : Nat) (cis : List CI) (s : Sys) (h : errS (execCmd inner c cis s).1) :
    (execCmd inner c cis s).2 = s ∨ (execCmd inner c cis s).2 = s.updConn c abortTx := by
  cases htx : (s.conn c).tx with
  | none => rw [execCmd_run_none inner cis htx]; exact .inl rfl
  | some q =>
    cases hf : (s.conn c).txFailed with
    | true =>
      rw [execCmd_run_failed inner cis htx hf]
      right
      simp only [Sys.updConn, List.map_map]
      congr 3
      funext x
      simp only [Function.comp]
      split <;> simp [abortTx, *]
    | false =>
      cases hw : (s.conn c).watchNotified with
      | true => rw [execCmd_run_dirty inner cis htx hf hw] at h; cases h
      | false =>
        rw [execCmd_eq_sequential inner cis htx hf hw] at h
        exact absurd h (execSeq_never inner c cis q s)


/-- the optional `fault` marker set by `runWith` for a `model:` error -/
def mf (e : Err) (t : Sys) : Sys := ((if e.startsWith "model:" then M.fault e else pure ()) t).2

theorem mf_srv (e : Err) (t : Sys) : (mf e t).srv = t.srv := by
  unfold mf; split
  · show (if t.fault.isNone then { t with fault := some e } else t).srv = _
    split <;> rfl
  · rfl

theorem mf_out (e : Err) (t : Sys) : (mf e t).out = t.out := by
  unfold mf; split
  · show (if t.fault.isNone then { t with fault := some e } else t).out = _
    split <;> rfl
  · rfl

theorem mf_updConn (e : Err) (t : Sys) (c : Nat) (f : Conn → Conn) : mf e (t.updConn c f) = (mf e t).updConn c f := by
  unfold mf; split
  · show (if (t.updConn c f).fault.isNone then { t.updConn c f with fault := some e } else t.updConn c f) =
      (if t.fault.isNone then { t with fault := some e } else t).updConn c f
    show (if t.fault.isNone then _ else _) = _
    split <;> rfl
  · rfl

theorem afterSpecial_error_run (d : Nat) {cis : List CI} (hc : ∀ c ∈ cis, c.Clean) (x : M SpecialOut) (s : Sys)
    (e : Err) (h : (x s).1 = .error e) :
    afterSpecial d cis x s = (some (.err (strBytes e)), mf e (x s).2) := by
  unfold afterSpecial mf
  simp only [bind, StateT.bind]
  revert h
  generalize x s = r
  obtain ⟨r1, s2⟩ := r
  rintro rfl
  simp only
  split
  · simp only [StateT.bind, writebackAll_clean d hc]; rfl
  · simp only [StateT.bind, writebackAll_clean d hc]; rfl

theorem afterSpecial_ok_reply (d : Nat) (cis : List CI) (x : M SpecialOut) (s : Sys) (r : Option Reply) (cis' : List CI)
    (h : (x s).1 = .ok (r, cis')) : (afterSpecial d cis x s).1 = r := by
  unfold afterSpecial
  simp only [bind, StateT.bind]
  revert h
  generalize x s = q
  obtain ⟨r1, s2⟩ := q
  rintro rfl
  rfl

theorem afterSpecial_exec_error (inner : Inner) (c d : Nat) {cis : List CI} (hcl : ∀ c ∈ cis, c.Clean) (s s1 : Sys)
    (hq1 : Quiet s s1) (hb : badO (afterSpecial d cis (execCmd inner c cis) s1).1) :
    ∃ s2, Quiet s s2 ∧ ((afterSpecial d cis (execCmd inner c cis) s1).2 = s2 ∨
      (afterSpecial d cis (execCmd inner c cis) s1).2 = s2.updConn c abortTx) := by
  cases hres : (execCmd inner c cis s1).1 with
  | error e =>
    have hE := execCmd_error inner c cis s1 (by rw [hres]; trivial)
    rw [afterSpecial_error_run _ hcl _ _ e hres]
    refine ⟨mf e s1, hq1.frame (mf_srv e s1) (mf_out e s1), ?_⟩
    rcases hE with hE | hE
    · left; simp only [hE]
    · right; simp only [hE, mf_updConn]
  | ok p =>
    obtain ⟨r, cis'⟩ := p
    rw [afterSpecial_ok_reply _ _ _ _ r cis' hres] at hb
    exact absurd (by rw [hres]; exact okErrS_O hb) (execCmd_never inner c cis s1)

/-- **EXEC refused.**  When `_run_command` of EXEC answers an error, the state is quiet up to the record of the
issuing connection, which is untouched (no MULTI, subscriber mode, arguments) or has its transaction dropped and its
watches cleared (EXECABORT after a queueing error). No queued command has run. -/
theorem runWith_exec_error (inner : Inner) (mode : Mode) (c : Nat) (sig : Sig) (raw : List Bytes) (fs : Bool) (s : Sys)
    (hname : sig.name = "exec") (hnd : NodupDbs s)
    (hb : badO (runWith (special inner) mode c sig raw fs s).1) :
    ∃ s2, Quiet s s2 ∧ ((runWith (special inner) mode c sig raw fs s).2 = s2 ∨
      (runWith (special inner) mode c sig raw fs s).2 = s2.updConn c abortTx) := by
  have hreg : Cmd.regular sig.name = none := by rw [hname]; rfl
  cases hrf : s.refuses c sig with
  | true =>
    rw [runWith_refused _ mode c sig raw fs hrf]
    exact ⟨s, Quiet.refl hnd, .inl rfl⟩
  | false =>
  rw [runWith_special_run _ mode c sig raw fs s hreg hrf] at hb ⊢
  have hq1 : Quiet s (s.setDbS (s.conn c).db
      (sig.apply raw (⟨s.srv.dbs.getD (s.conn c).db [], s.srv.time⟩ : Db)).1) :=
    (Quiet.refl hnd).setDbS _ (sim_apply1 sig raw (Db.Sim.refl (hnd.getD _)))
  have hclean := fun args cis =>
    Sig.apply_clean sig raw (⟨s.srv.dbs.getD (s.conn c).db [], s.srv.time⟩ : Db) (args := args) (cis := cis)
  revert hb hq1 hclean
  simp only
  generalize sig.apply raw (⟨s.srv.dbs.getD (s.conn c).db [], s.srv.time⟩ : Db) = ap
  obtain ⟨db1, res⟩ := ap
  intro hb hq1 hclean
  cases res with
  | error e => exact ⟨_, hq1, .inl rfl⟩
  | ok a =>
    cases a with
    | short r => exact ⟨_, hq1, .inl rfl⟩
    | ok args cis =>
      simp only at hb ⊢
      cases hg : runGate sig fs (decide ((s.conn c).pubsub > 0)) with
      | some e => exact ⟨_, hq1, .inl rfl⟩
      | none =>
        rw [hg] at hb
        simp only at hb ⊢
        have hcl := hclean args cis rfl
        rw [afterSpecial_congr _ _ _ _ _ (congrFun (special_exec inner mode c sig.name args cis hname) _)] at hb ⊢
        exact afterSpecial_exec_error inner c _ hcl s _ hq1 hb


theorem updConn_updConn (s : Sys) (c : Nat) (f g : Conn → Conn) (hf : ∀ x, (f x).id = x.id) :
    (s.updConn c f).updConn c g = s.updConn c (g ∘ f) := by
  simp only [Sys.updConn, List.map_map]
  congr 3
  funext x
  simp only [Function.comp]
  cases hx : (x.id == c) <;> simp [hx, hf]

theorem ErrStep.general {c : Nat} {r : Reply} {f g : Conn → Conn} {s1 s2 : Sys} (h : Quiet s1 s2)
    (hc : ∀ x, (f x).closed = x.closed) (hid : ∀ x, (f x).id = x.id) :
    ErrStep c r (g ∘ f) s1 (((s2.updConn c f).emitS c r).updConn c g) := by
  have hcl : ((s2.updConn c f).conn c).closed = (s1.conn c).closed := by
    rw [Sys.conn_updConn_proj s2 c c f Conn.closed hid hc, h.conn]
  have e : (((s2.updConn c f).emitS c r).updConn c g).srv =
      { s2.srv with conns := s2.srv.conns.map fun x => if x.id == c then (g ∘ f) x else x } := by
    have := congrArg Sys.srv (updConn_updConn s2 c f g hid)
    simp only [Sys.updConn, Sys.emitS_srv] at this ⊢
    exact this
  refine ⟨?_, ?_, ?_, ?_⟩
  · rw [e]; exact h.dbs
  · rw [e, h.srv]
  · rw [e]
    show (s2.srv.conns.map _) = _
    rw [h.conns]
  · show ((s2.updConn c f).emitS c r).out = _
    rw [Sys.emitS_out, hcl]
    show (if _ then s2.out else (c, r) :: s2.out) = _
    rw [h.out]

/-- `f` touches only the transaction fields (`tx`, `txFailed`, `watches`, `watchNotified`) and the `dead` marker of a
connection record: every other field is kept -/
def OnlyTx (f : Conn → Conn) : Prop :=
  ∀ x, (f x).id = x.id ∧ (f x).db = x.db ∧ (f x).inTx = x.inTx ∧ (f x).pubsub = x.pubsub ∧ (f x).buf = x.buf ∧
    (f x).paused = x.paused ∧ (f x).closed = x.closed ∧ (f x).parked = x.parked

theorem OnlyTx.id : OnlyTx id := fun _ => ⟨rfl, rfl, rfl, rfl, rfl, rfl, rfl, rfl⟩
theorem OnlyTx.abortTx : OnlyTx abortTx := fun _ => ⟨rfl, rfl, rfl, rfl, rfl, rfl, rfl, rfl⟩
theorem OnlyTx.markDead : OnlyTx markDead := fun _ => ⟨rfl, rfl, rfl, rfl, rfl, rfl, rfl, rfl⟩
theorem OnlyTx.markTxFailed : OnlyTx markTxFailed := fun _ => ⟨rfl, rfl, rfl, rfl, rfl, rfl, rfl, rfl⟩
theorem OnlyTx.comp {f g : Conn → Conn} (hf : OnlyTx f) (hg : OnlyTx g) : OnlyTx (g ∘ f) := by
  intro x
  obtain ⟨a1, a2, a3, a4, a5, a6, a7, a8⟩ := hf x
  obtain ⟨b1, b2, b3, b4, b5, b6, b7, b8⟩ := hg (f x)
  exact ⟨b1.trans a1, b2.trans a2, b3.trans a3, b4.trans a4, b5.trans a5, b6.trans a6, b7.trans a7, b8.trans a8⟩

/-- the arity error of EXEC (`EXEC arg`): the transaction is discarded -/
def discardTx (x : Conn) : Conn := { x with tx := none, txFailed := false, watchNotified := false, watches := [] }
theorem OnlyTx.discardTx : OnlyTx discardTx := fun _ => ⟨rfl, rfl, rfl, rfl, rfl, rfl, rfl, rfl⟩

theorem pc_arity_exec (mode : Mode) (c : Nat) (nameB : Bytes) (args : List Bytes) (s : Sys) {sig : Sig}
    (h : lookupSig nameB = some sig) (ha : sig.checkArity args.length = false) (hne : sig.name = "exec") :
    (processCommand mode c (nameB :: args) s).2 =
      (s.prologue.updConn c discardTx).emitS c
        (.err (strBytes ("EXECABORT Transaction discarded because of: " ++ (sig.wrongArgs.drop 4)))) := by
  rw [processCommand_known mode c nameB args s h]
  have hne' : (sig.name == "exec") = true := by simpa using hne
  unfold knownTail
  simp only [ha, hne', Bool.not_false, ↓reduceIte, Bool.false_eq_true]
  have e1 : ∀ t : Sys, ((t.updConn c fun x => { x with tx := none, txFailed := false }).updConn c
      fun x => { x with watchNotified := false, watches := [] }) = t.updConn c discardTx := by
    intro t
    refine (updConn_updConn t c _ _ ?_).trans ?_
    · intro _; rfl
    · rfl
  have e2 : ∀ t : Sys, (t.updConn c fun x => { x with txFailed := true }).updConn c discardTx = t.updConn c discardTx := by
    intro t
    refine (updConn_updConn t c _ _ ?_).trans ?_
    · intro _; rfl
    · rfl
  split
  · simp only [bind, StateT.bind, modifyConn_run, clearWatches_run, emit_run, pure, StateT.pure, e1, e2]
  · simp only [bind, StateT.bind, modifyConn_run, clearWatches_run, emit_run, pure, StateT.pure, e1]


/-- **C08 for EXEC itself.**  When EXEC is answered with an error (no MULTI, EXECABORT after a queueing error, wrong
arity, subscriber mode) no queued command has run: every database is purge-equal, the rest of the server and
every other connection record are identical, and the record of `c` is changed in its transaction fields only
(`tx`, `txFailed`, `watches`, `watchNotified`; `dead` under the `crashed` marker). -/
theorem processCommand_exec_error (mode : Mode) (c : Nat) (nameB : Bytes) (args : List Bytes) (s : Sys)
    (hnd : NodupDbs s) {sig : Sig} (hl : lookupSig nameB = some sig) (hname : sig.name = "exec")
    (herr : ErrAnswered mode c (nameB :: args) s) :
    ∃ e f, ErrStep c (.err e) f s.prologue (processCommand mode c (nameB :: args) s).2 ∧ OnlyTx f := by
  unfold ErrAnswered at herr
  simp only [hl] at herr
  have hnd1 := prologue_nodup hnd
  by_cases ha : sig.checkArity args.length = true
  · simp only [ha, Bool.not_true, Bool.false_eq_true, if_false] at herr
    by_cases hq : ((s.conn c).tx.isSome && !SigTable.notQueued.contains sig.name) = true
    · exfalso
      rw [hname] at hq
      simp only [Bool.and_eq_true] at hq
      exact absurd hq.2 (by decide)
    · have hq' : ((s.conn c).tx.isSome && !SigTable.notQueued.contains sig.name) = false := by simpa using hq
      have hreg : Cmd.regular sig.name = none := by rw [hname]; rfl
      simp only [hq', Bool.false_eq_true, if_false, hreg] at herr
      have hrc : runCommand mode c sig args false = runWith (special (runInner mode c)) mode c sig args false := by
        unfold runCommand
        have : scriptNames.contains sig.name = false := by rw [hname]; rfl
        rw [this]; rfl
      rw [pc_run mode c nameB args s hl ha hq']
      rw [hrc] at herr ⊢
      obtain ⟨e, he⟩ := badO_some herr
      obtain ⟨s2, hQ, hs2⟩ := runWith_exec_error _ mode c sig args false s.prologue hname hnd1 herr
      unfold afterRun
      simp only [he]
      generalize (runWith (special (runInner mode c)) mode c sig args false s.prologue).2 = X at hs2 ⊢
      have key : ∀ f0 : Conn → Conn, OnlyTx f0 → X = s2.updConn c f0 →
          ∃ f, ErrStep c (.err e) f s.prologue
            (if (X.emitS c (.err e)).crashed.isSome = true then (X.emitS c (.err e)).updConn c markDead
              else X.emitS c (.err e)) ∧ OnlyTx f := by
        intro f0 hf0 hX
        subst hX
        by_cases hc : ((s2.updConn c f0).emitS c (.err e)).crashed.isSome = true
        · rw [if_pos hc]
          exact ⟨_, ErrStep.general hQ (fun x => (hf0 x).2.2.2.2.2.2.1) (fun x => (hf0 x).1), hf0.comp OnlyTx.markDead⟩
        · rw [if_neg hc]
          refine ⟨_, ?_, hf0.comp OnlyTx.id⟩
          have := ErrStep.general (c := c) (r := .err e) (f := f0) (g := id) hQ (fun x => (hf0 x).2.2.2.2.2.2.1)
            (fun x => (hf0 x).1)
          rwa [Sys.updConn_id] at this
      rcases hs2 with hs2 | hs2
      · exact ⟨e, key id OnlyTx.id (by rw [Sys.updConn_id]; exact hs2)⟩
      · exact ⟨e, key abortTx OnlyTx.abortTx hs2⟩
  · have ha' : sig.checkArity args.length = false := by simpa using ha
    rw [pc_arity_exec mode c nameB args s hl ha' hname]
    exact ⟨_, discardTx, ErrStep.emit_upd (Quiet.refl hnd1) (fun _ => rfl) (fun _ => rfl), OnlyTx.discardTx⟩


/-! ## The inner commands of EXEC -/

/-- `s'` is `s` up to lazy deletions and the bookkeeping fields, except that the record of `c` is changed by `f` -/
structure QuietUpTo (c : Nat) (f : Conn → Conn) (s s' : Sys) : Prop where
  dbs : DbsSim s.srv.time s.srv.dbs s'.srv.dbs
  srv : s'.srv = { s.srv with dbs := s'.srv.dbs, conns := s'.srv.conns }
  conns : s'.srv.conns = s.srv.conns.map fun x => if x.id == c then f x else x
  out : s'.out = s.out

def setInTx (x : Conn) : Conn := { x with inTx := true }
def clearInTx (x : Conn) : Conn := { x with inTx := false }

/-- an inner command of EXEC (run in state `s1`, where `inTx` is set) ends on an error path (for a regular command:
refused in subscriber mode, or the generic runner fails) -/
def InnerErr (mode : Mode) (c : Nat) (sig : Sig) (fargs : List Bytes) (s1 : Sys) : Prop :=
  match Cmd.regular sig.name with
  | some body => s1.refuses c sig = true ∨ (s1.regularOut c sig body fargs false).failed = true
  | none => badO (runInner mode c sig fargs s1).1

theorem runInner_error (mode : Mode) (c : Nat) (sig : Sig) (fargs : List Bytes) (s1 : Sys) (hnd : NodupDbs s1)
    (hne : sig.name ≠ "exec") (h1 : sig.name ≠ "eval") (h2 : sig.name ≠ "evalsha")
    (herr : InnerErr mode c sig fargs s1) :
    (∃ e, (runInner mode c sig fargs s1).1 = some (.err e)) ∧ Quiet s1 (runInner mode c sig fargs s1).2 := by
  unfold InnerErr at herr
  cases hreg : Cmd.regular sig.name with
  | some body =>
    simp only [hreg] at herr
    rw [runInner_regular_eq mode c sig fargs hreg]
    cases hrf : s1.refuses c sig with
    | true =>
      rw [runWith_refused _ mode c sig fargs false hrf]
      exact ⟨⟨_, rfl⟩, Quiet.refl hnd⟩
    | false =>
    rw [hrf] at herr
    replace herr := herr.resolve_left (by simp)
    refine ⟨?_, runWith_regular_failed _ mode c sig fargs false hreg s1 (Quiet.refl hnd) herr⟩
    rw [runWith_regular_run _ mode c sig fargs false hreg s1 hrf]
    obtain ⟨e, he⟩ := runRegular_failed_reply _ _ _ _ _ _ herr
    exact ⟨e, congrArg some he⟩
  | none =>
    simp only [hreg] at herr
    exact ⟨badO_some herr, runInner_spec mode c sig fargs hreg hne h1 h2 s1 (Quiet.refl hnd) herr⟩

theorem queueStep_run (inner : Inner) (c : Nat) (a : String × List Bytes) {sig : Sig} (hf : SigTable.find a.1 = some sig)
    (s : Sys) :
    queueStep inner c a s =
      ((inner sig a.2 (s.updConn c setInTx)).1, (inner sig a.2 (s.updConn c setInTx)).2.updConn c clearInTx) := by
  unfold queueStep
  simp only [hf, bind, StateT.bind, modifyConn_run, pure, StateT.pure]
  rfl

/-- **C08 inside EXEC.**  A queued command that answers an error leaves every database purge-equal, the pub/sub
tables, the script cache, the clock, the reply list and every other connection record identical; the record of `c`
itself is unchanged up to the `inTx` flag, which EXEC sets around each inner command and leaves cleared. -/
theorem queueStep_error (mode : Mode) (c : Nat) (a : String × List Bytes) {sig : Sig}
    (hf : SigTable.find a.1 = some sig) (hne : sig.name ≠ "exec") (h1 : sig.name ≠ "eval") (h2 : sig.name ≠ "evalsha")
    (s : Sys) (hnd : NodupDbs s)
    (herr : InnerErr mode c sig a.2 (s.updConn c setInTx)) :
    (∃ e, (queueStep (runInner mode c) c a s).1 = some (.err e)) ∧
      QuietUpTo c clearInTx s (queueStep (runInner mode c) c a s).2 := by
  rw [queueStep_run _ c a hf]
  have hnd1 : NodupDbs (s.updConn c setInTx) := hnd
  obtain ⟨he, hQ⟩ := runInner_error mode c sig a.2 _ hnd1 hne h1 h2 herr
  refine ⟨he, ?_⟩
  generalize (runInner mode c sig a.2 (s.updConn c setInTx)).2 = s2 at hQ
  have e : (s2.updConn c clearInTx).srv =
      { s2.srv with conns := s2.srv.conns.map fun x => if x.id == c then clearInTx x else x } := rfl
  have hcs : (s.updConn c setInTx).srv.conns.map (fun x => if x.id == c then clearInTx x else x) =
      s.srv.conns.map fun x => if x.id == c then clearInTx x else x := by
    have := congrArg (fun t : Sys => t.srv.conns) (updConn_updConn s c setInTx clearInTx (fun _ => rfl))
    simp only [Sys.updConn] at this ⊢
    rw [this]
    apply List.map_congr_left
    intro x _
    simp only [Function.comp]
    split <;> rfl
  refine ⟨?_, ?_, ?_, ?_⟩
  · rw [e]; exact hQ.dbs
  · rw [e, hQ.srv]
    show _ = ({ s.srv with dbs := s2.srv.dbs, conns := _ } : Server)
    rfl
  · rw [e]
    show (s2.srv.conns.map _) = _
    rw [hQ.conns]; exact hcs
  · show s2.out = _
    rw [hQ.out]; rfl

/-- EXEC runs its queue command by command: the run of `pre ++ a :: post` is the run of `pre`, then the step `a`,
then the run of `post` -/
theorem runQueue_split (inner : Inner) (c : Nat) (pre post : List (String × List Bytes)) (a : String × List Bytes)
    (s : Sys) :
    runQueue inner c (pre ++ a :: post) s =
      (let r1 := runQueue inner c pre s
       let r2 := queueStep inner c a r1.2
       let r3 := runQueue inner c post r2.2
       (r1.1 ++ r2.1 :: r3.1, r3.2)) := by
  rw [runQueue_append, runQueue_cons]
  rfl

/-- the `k`-th inner command of EXEC: if it answers an error, the state after it equals the state before it in the
sense of `queueStep_error` -/
theorem runQueue_each_error (mode : Mode) (c : Nat) (pre post : List (String × List Bytes)) (a : String × List Bytes)
    {sig : Sig} (hf : SigTable.find a.1 = some sig) (hne : sig.name ≠ "exec")
    (h1 : sig.name ≠ "eval") (h2 : sig.name ≠ "evalsha") (s : Sys) (hinv : s.DataInv)
    (herr : InnerErr mode c sig a.2 ((runQueue (runInner mode c) c pre s).2.updConn c setInTx)) :
    QuietUpTo c clearInTx (runQueue (runInner mode c) c pre s).2
      (queueStep (runInner mode c) c a (runQueue (runInner mode c) c pre s).2).2 :=
  (queueStep_error mode c a hf hne h1 h2 _
    (NodupDbs.of_dataInv (runQueue_preserves _ (runInner_preserves mode c) c pre s hinv)) herr).2


/-! ## `redis.call` / `redis.pcall` inside a script -/

/-- the nested runner used by EXEC and by scripts has no EXEC of its own -/
abbrev stubInner : Inner := fun _ _ => do M.fault "nested exec"; return none

/-- the command `sig raw`, run by `_run_command` in state `s1`, ends on an error path (for a regular command:
refused in subscriber mode, or the generic runner fails) -/
def CallErr (inner : Inner) (mode : Mode) (c : Nat) (sig : Sig) (raw : List Bytes) (fs : Bool) (s1 : Sys) : Prop :=
  match Cmd.regular sig.name with
  | some body => s1.refuses c sig = true ∨ (s1.regularOut c sig body raw fs).failed = true
  | none => badO (runWith (special inner) mode c sig raw fs s1).1

/-- `_run_command` (any nesting level, from a script or not) of a command other than EXEC: an error answer means
the state is quiet -/
theorem runWith_error (inner : Inner) (mode : Mode) (c : Nat) (sig : Sig) (raw : List Bytes) (fs : Bool) (s1 : Sys)
    (hnd : NodupDbs s1) (hne : sig.name ≠ "exec") (herr : CallErr inner mode c sig raw fs s1) :
    (∃ e, (runWith (special inner) mode c sig raw fs s1).1 = some (.err e)) ∧
      Quiet s1 (runWith (special inner) mode c sig raw fs s1).2 := by
  unfold CallErr at herr
  cases hreg : Cmd.regular sig.name with
  | some body =>
    simp only [hreg] at herr
    cases hrf : s1.refuses c sig with
    | true =>
      rw [runWith_refused _ mode c sig raw fs hrf]
      exact ⟨⟨_, rfl⟩, Quiet.refl hnd⟩
    | false =>
    rw [hrf] at herr
    replace herr := herr.resolve_left (by simp)
    refine ⟨?_, runWith_regular_failed _ mode c sig raw fs hreg s1 (Quiet.refl hnd) herr⟩
    rw [runWith_regular_run _ mode c sig raw fs hreg s1 hrf]
    obtain ⟨e, he⟩ := runRegular_failed_reply _ _ _ _ _ _ herr
    exact ⟨e, congrArg some he⟩
  | none =>
    simp only [hreg] at herr
    exact ⟨badO_some herr, runWith_special_spec _ mode c sig raw fs hreg
      (fun args cis => special_spec _ mode c sig.name args cis hne)
      (fun args cis => special_never _ mode c sig.name args cis) s1 (Quiet.refl hnd) herr⟩

/-- **C08 inside a script.**  A `redis.call` / `redis.pcall` whose command answers an error raises in Lua and leaves
every database purge-equal and everything else (pub/sub tables, script cache, all connection records, replies)
identical. -/
theorem runFromScript_error (mode : Mode) (c : Nat) (nameB : Bytes) (largs : List LuaVal) (s : Sys)
    {sig : Sig} {raw : List Bytes} (hl : lookupSig nameB = some sig)
    (hraw : largs.mapM (luaToArg s.srv.version) = .ok raw) (hne : sig.name ≠ "exec") (hnd : NodupDbs s)
    (herr : CallErr stubInner mode c sig raw true s) :
    (∃ e, (runFromScript (special stubInner) mode c (.str nameB) largs s).1 = .error e) ∧
      Quiet s (runFromScript (special stubInner) mode c (.str nameB) largs s).2 := by
  obtain ⟨n, hn, hu, hf⟩ := lookupSig_some hl
  obtain ⟨⟨e, he⟩, hQ⟩ := runWith_error stubInner mode c sig raw true s hnd hne herr
  have hrun : runFromScript (special stubInner) mode c (.str nameB) largs s =
      (replyToLua (.err e), (runWith (special stubInner) mode c sig raw true s).2) := by
    unfold runFromScript
    simp only [bind, StateT.bind, MonadState.get, getThe, MonadStateOf.get, StateT.get, hn, hu, hf,
      Bool.false_eq_true, ↓reduceIte]
    show (match List.mapM (luaToArg s.srv.version) largs with
      | Except.error e => pure (Except.error e)
      | Except.ok raw =>
        StateT.bind (runWith (special stubInner) mode c sig raw true) fun __do_lift =>
          match __do_lift with
          | none => pure (Except.error "model: NoResponse from a script call")
          | some r => pure (replyToLua r) : M (Except Err LuaVal)) s = _
    rw [hraw]
    simp only [StateT.bind]
    revert he
    generalize runWith (special stubInner) mode c sig raw true s = r
    obtain ⟨r1, s2⟩ := r
    rintro rfl
    rfl
  rw [hrun]
  exact ⟨⟨_, rfl⟩, hQ⟩



/-! ## Wrong type -/

/-- the argument/converter pair `p` is a key of declared type `T` whose live value has another type -/
def Mismatch (db : Db) (p : Arg × ArgTy) : Prop :=
  ∃ k T mr it, p = (.raw k, .key (some T) mr) ∧ db.live k = some it ∧ it.value.ty ≠ T

theorem Mismatch.reads {db db' : Db} {p : Arg × ArgTy} (h : Mismatch db p) (r : Reads db db') : Mismatch db' p := by
  obtain ⟨k, T, mr, it, hp, hl, ht⟩ := h
  exact ⟨k, T, mr, it, hp, by rw [live_eq_of_purge r.eq]; exact hl, ht⟩

/-- the second pass of `Signature.apply` fails as soon as one key holds a value of another type than declared -/
theorem pass2_mismatch (l : List (Arg × ArgTy)) {db : Db} (nd : NodupKeys db.dict) (accA : List Arg) (accC : List CI)
    (h : ∃ p ∈ l, Mismatch db p) : (Sig.pass2 db l accA accC).2 = .error Msgs.WRONGTYPE_MSG := by
  induction l generalizing db accA accC with
  | nil => obtain ⟨p, hp, _⟩ := h; cases hp
  | cons x rest ih =>
    obtain ⟨a, t⟩ := x
    have tail : ∀ {db' : Db}, Reads db db' → (∀ q, Mismatch db q → (a, t) ≠ q) →
        ∃ p ∈ rest, Mismatch db' p := by
      intro db' r hne
      obtain ⟨p, hp, hm⟩ := h
      rcases List.mem_cons.1 hp with rfl | hp
      · exact absurd rfl (hne _ hm)
      · exact ⟨p, hp, hm.reads r⟩
    by_cases hhead : Mismatch db (a, t)
    · obtain ⟨k, T, mr, it, hp, hl, ht⟩ := hhead
      cases hp
      simp only [Sig.pass2]
      have hres : (db.get k).2 = some it := by rw [get_result k nd]; exact hl
      revert hres
      generalize db.get k = g
      obtain ⟨db', item⟩ := g
      rintro rfl
      simp only [bne_iff_ne, ne_eq, ht, not_false_eq_true, if_true]
    · have hne : ∀ q, Mismatch db q → (a, t) ≠ q := fun q hq e => hhead (e ▸ hq)
      cases t
      case key ty mr =>
        cases a
        case raw k =>
          simp only [Sig.pass2]
          have r := Reads.get nd k
          revert r
          generalize db.get k = g
          obtain ⟨db', item⟩ := g
          intro r
          have hrest := tail r hne
          cases ty <;> cases item <;> simp only
          · exact ih r.nd _ _ hrest
          · exact ih r.nd _ _ hrest
          · exact ih r.nd _ _ hrest
          · split
            · rfl
            · exact ih r.nd _ _ hrest
        all_goals
          simp only [Sig.pass2]
          exact ih nd _ _ (tail (Reads.refl nd) hne)
      all_goals
        simp only [Sig.pass2]
        exact ih nd _ _ (tail (Reads.refl nd) hne)


/-- the first pass keeps every key argument as it is, in its position -/
theorem pass1_out (l : List (Bytes × ArgTy)) (db : Db) (acc : List Arg) {db1 : Db} {args : List Arg}
    (h : Sig.pass1 db l acc = (db1, .ok (.inr args))) :
    ∃ out, args = acc.reverse ++ out ∧ out.length = l.length ∧
      ∀ (j : Nat) b ty mr, l[j]? = some (b, ArgTy.key ty mr) → out[j]? = some (Arg.raw b) := by
  induction l generalizing db acc with
  | nil =>
    simp only [Sig.pass1, Prod.mk.injEq, Except.ok.injEq, Sum.inr.injEq] at h
    exact ⟨[], by simp [h.2], rfl, fun j b ty mr hj => by simp at hj⟩
  | cons x rest ih =>
    obtain ⟨b, t⟩ := x
    have step : ∀ (db' : Db) (a : Arg), Sig.pass1 db' rest (a :: acc) = (db1, .ok (.inr args)) →
        (∀ ty mr, t = .key ty mr → a = .raw b) →
        ∃ out, args = acc.reverse ++ out ∧ out.length = ((b, t) :: rest).length ∧
          ∀ (j : Nat) b' ty mr, ((b, t) :: rest)[j]? = some (b', ArgTy.key ty mr) → out[j]? = some (Arg.raw b') := by
      intro db' a h' hk
      obtain ⟨out', e1, e2, e3⟩ := ih db' (a :: acc) h'
      refine ⟨a :: out', by simp [e1], by simp [e2], ?_⟩
      intro j b' ty mr hj
      cases j with
      | zero =>
        simp only [List.getElem?_cons_zero, Option.some.injEq, Prod.mk.injEq] at hj
        obtain ⟨rfl, rfl⟩ := hj
        simp [hk ty mr rfl]
      | succ j =>
        simp only [List.getElem?_cons_succ] at hj ⊢
        exact e3 j b' ty mr hj
    cases t
    case key ty mr =>
      simp only [Sig.pass1] at h
      split at h
      · split at h
        · cases h
        · exact step _ _ h (fun _ _ _ => rfl)
      · exact step _ _ h (fun _ _ _ => rfl)
    all_goals
      simp only [Sig.pass1] at h
      split at h
      · cases h
      · exact step _ _ h (fun _ _ e => by cases e)

/-- **Wrong type, `Signature.apply`.**  If some argument is a key of declared type `T` and the key holds a live value
of another type, `apply` does not produce arguments for the body: it fails (WRONGTYPE when both passes reach the
key; otherwise an earlier argument error), or another key with a `missing_return` is missing and the command is
answered at once with that value. -/
theorem apply_wrongtype (sig : Sig) (raw : List Bytes) {db : Db} (nd : NodupKeys db.dict) {i : Nat} {k : Bytes}
    {T : Ty} {mr : MissingRet} {it : Item}
    (hi : (raw.zip (sig.types raw.length))[i]? = some (k, .key (some T) mr))
    (hl : db.live k = some it) (ht : it.value.ty ≠ T) :
    (∃ e, (sig.apply raw db).2 = .error e) ∨ (∃ r, (sig.apply raw db).2 = .ok (.short r)) := by
  unfold Sig.apply
  split
  · exact .inl ⟨_, rfl⟩
  · split
    · exact .inl ⟨_, rfl⟩
    · simp only
      have r1 := Sig.pass1_reads (raw.zip (sig.types raw.length)) nd []
      split
      · exact .inl ⟨_, rfl⟩
      · exact .inr ⟨_, rfl⟩
      · rename_i db1 args heq
        rw [heq] at r1
        obtain ⟨out, e1, e2, e3⟩ := pass1_out _ _ _ heq
        simp only [List.reverse_nil, List.nil_append] at e1
        subst e1
        have hz := List.getElem?_zip_eq_some.1 hi
        have hmem : (Arg.raw k, ArgTy.key (some T) mr) ∈ args.zip (sig.types raw.length) := by
          apply List.mem_of_getElem? (i := i)
          rw [List.getElem?_zip_eq_some]
          exact ⟨e3 i k _ _ hi, hz.2⟩
        have hm : Mismatch db1 (Arg.raw k, ArgTy.key (some T) mr) :=
          ⟨k, T, mr, it, rfl, by rw [live_eq_of_purge r1.eq]; exact hl, ht⟩
        have := pass2_mismatch (args.zip (sig.types raw.length)) r1.nd [] [] ⟨_, hmem, hm⟩
        revert this
        generalize Sig.pass2 db1 (args.zip (sig.types raw.length)) [] [] = q
        obtain ⟨db2, res⟩ := q
        rintro rfl
        exact .inl ⟨_, rfl⟩

/-- when the first pass goes through (all non-key arguments decode, no key with a `missing_return` is missing), the
error is WRONGTYPE -/
theorem apply_wrongtype_msg (sig : Sig) (raw : List Bytes) {db : Db} (nd : NodupKeys db.dict) {i : Nat} {k : Bytes}
    {T : Ty} {mr : MissingRet} {it : Item}
    (hi : (raw.zip (sig.types raw.length))[i]? = some (k, .key (some T) mr))
    (hl : db.live k = some it) (ht : it.value.ty ≠ T) {db1 : Db} {args : List Arg}
    (harity : sig.checkArity raw.length = true)
    (hrep : (!sig.rep.isEmpty && (raw.length - sig.fixed.length) % sig.rep.length != 0) = false)
    (hp1 : Sig.pass1 db (raw.zip (sig.types raw.length)) [] = (db1, .ok (.inr args))) :
    (sig.apply raw db).2 = .error Msgs.WRONGTYPE_MSG := by
  unfold Sig.apply
  simp only [harity, hrep, Bool.not_true, Bool.false_eq_true, if_false, hp1]
  have r1 := Sig.pass1_reads (raw.zip (sig.types raw.length)) nd []
  rw [hp1] at r1
  obtain ⟨out, e1, e2, e3⟩ := pass1_out _ _ _ hp1
  simp only [List.reverse_nil, List.nil_append] at e1
  subst e1
  have hz := List.getElem?_zip_eq_some.1 hi
  have hmem : (Arg.raw k, ArgTy.key (some T) mr) ∈ args.zip (sig.types raw.length) := by
    apply List.mem_of_getElem? (i := i)
    rw [List.getElem?_zip_eq_some]
    exact ⟨e3 i k _ _ hi, hz.2⟩
  have hm : Mismatch db1 (Arg.raw k, ArgTy.key (some T) mr) :=
    ⟨k, T, mr, it, rfl, by rw [live_eq_of_purge r1.eq]; exact hl, ht⟩
  have := pass2_mismatch (args.zip (sig.types raw.length)) r1.nd [] [] ⟨_, hmem, hm⟩
  revert this
  generalize Sig.pass2 db1 (args.zip (sig.types raw.length)) [] [] = q
  obtain ⟨db2, res⟩ := q
  rintro rfl
  rfl


/-- **Wrong type, generic runner.**  The run ends on an error path (or is short-circuited by a missing key); either
way the database is only read (lazy deletions), nobody is notified and the value of the key is untouched. -/
theorem runRegular_wrongtype (sig : Sig) (body : Body) (ctx : Ctx) (gate : Option Err) (raw : List Bytes) {db : Db}
    (nd : NodupKeys db.dict) {i : Nat} {k : Bytes} {T : Ty} {mr : MissingRet} {it : Item}
    (hi : (raw.zip (sig.types raw.length))[i]? = some (k, .key (some T) mr))
    (hl : db.live k = some it) (ht : it.value.ty ≠ T) :
    ((runRegular sig body ctx gate raw db).failed = true ∨ ∃ r, (sig.apply raw db).2 = .ok (.short r)) ∧
      Reads db (runRegular sig body ctx gate raw db).db ∧ (runRegular sig body ctx gate raw db).notified = [] ∧
      (runRegular sig body ctx gate raw db).db.live k = some it := by
  have key : ((runRegular sig body ctx gate raw db).failed = true ∨ ∃ r, (sig.apply raw db).2 = .ok (.short r)) ∧
      Reads db (runRegular sig body ctx gate raw db).db ∧ (runRegular sig body ctx gate raw db).notified = [] := by
    rcases apply_wrongtype sig raw nd hi hl ht with ⟨e, he⟩ | ⟨r, hr⟩
    · have hf : (runRegular sig body ctx gate raw db).failed = true :=
        (runRegular_failed_iff sig body ctx gate raw db).2 (.inl ⟨e, he⟩)
      exact ⟨.inl hf, runRegular_failed sig body ctx gate raw nd hf⟩
    · refine ⟨.inr ⟨r, hr⟩, ?_⟩
      have hreads := Sig.apply_reads sig raw nd
      unfold runRegular
      revert hr hreads
      generalize sig.apply raw db = ap
      obtain ⟨db1, res⟩ := ap
      rintro rfl hreads
      exact ⟨hreads, rfl⟩
  refine ⟨key.1, key.2.1, key.2.2, ?_⟩
  rw [live_eq_of_purge key.2.1.eq]; exact hl

/-- a regular command that only read its database and notified nobody has been quiet -/
theorem runWith_regular_quiet (special : SpecialFn) (mode : Mode) (c : Nat) (sig : Sig) (raw : List Bytes)
    (fromScript : Bool) {body : Body} (h : Cmd.regular sig.name = some body) (s : Sys) (hq : Quiet s0 s)
    (hr : Reads (s.dbAt (s.conn c).db) (s.regularOut c sig body raw fromScript).db ∧
      (s.regularOut c sig body raw fromScript).notified = []) :
    Quiet s0 (runWith special mode c sig raw fromScript s).2 := by
  cases hrf : s.refuses c sig with
  | true => rw [runWith_refused special mode c sig raw fromScript hrf]; exact hq
  | false =>
  rw [runWith_regular_run special mode c sig raw fromScript h s hrf]
  unfold Sys.afterRegular
  rw [hr.2]
  show Quiet s0 (Sys.faultS _ _)
  refine Quiet.frame (s := s.setDbS (s.conn c).db (s.regularOut c sig body raw fromScript).db) ?_ ?_ ?_
  · exact hq.setDbS _ (sim_reads (hq.dbAt _) hr.1)
  · rw [Sys.faultS_srv]; rfl
  · unfold Sys.faultS
    split
    · split <;> rfl
    · rfl

/-- **Wrong type, system level.**  A regular command applied (by any connection, directly, inside EXEC or from a
script) to a live key that holds another type than its signature declares is answered with an error — or, when
another of its keys is missing, with that key's `missing_return` — and is quiet: in particular the value is neither
reinterpreted, truncated nor overwritten. -/
theorem runWith_wrongtype (special : SpecialFn) (mode : Mode) (c : Nat) (sig : Sig) (raw : List Bytes) (fs : Bool)
    {body : Body} (hreg : Cmd.regular sig.name = some body) (s : Sys) (hnd : NodupDbs s)
    {i : Nat} {k : Bytes} {T : Ty} {mr : MissingRet} {it : Item}
    (hi : (raw.zip (sig.types raw.length))[i]? = some (k, .key (some T) mr))
    (hl : (s.dbAt (s.conn c).db).live k = some it) (ht : it.value.ty ≠ T) :
    ((∃ e, (runWith special mode c sig raw fs s).1 = some (.err e)) ∨
        ∃ r, (sig.apply raw (s.dbAt (s.conn c).db)).2 = .ok (.short r)) ∧
      Quiet s (runWith special mode c sig raw fs s).2 ∧
      ((runWith special mode c sig raw fs s).2.dbAt (s.conn c).db).live k = some it := by
  have nd : NodupKeys (s.dbAt (s.conn c).db).dict := hnd.getD _
  have h := runRegular_wrongtype sig body
    { version := s.srv.version, time := s.srv.time, dbnum := (s.conn c).db, inTx := (s.conn c).inTx, picks := s.picks }
    (runGate sig fs ((s.conn c).pubsub > 0)) raw nd hi hl ht
  have hQ := runWith_regular_quiet special mode c sig raw fs hreg s (Quiet.refl hnd) ⟨h.2.1, h.2.2.1⟩
  refine ⟨?_, hQ, ?_⟩
  · rcases h.1 with hf | hs
    · left
      cases hrf : s.refuses c sig with
      | true => rw [runWith_refused special mode c sig raw fs hrf]; exact ⟨_, rfl⟩
      | false =>
      rw [runWith_regular_run special mode c sig raw fs hreg s hrf]
      obtain ⟨e, he⟩ := runRegular_failed_reply _ _ _ _ _ _ hf
      exact ⟨e, congrArg some he⟩
    · exact .inr hs
  · unfold Db.live
    rw [hQ.purge_eq]; exact hl


/-- **Wrong type, `_process_command`.**  A request for a regular command (run at once: arity accepted, not queued)
one of whose key arguments holds a live value of another type than declared: exactly one reply `r` is emitted —
an error, or the `missing_return` of another, missing key —, the state is that of an error answer (`ErrStep`), the
record of `c` is untouched (`dead` under the `crashed` marker), and the key still holds the same item. -/
theorem processCommand_wrongtype (mode : Mode) (c : Nat) (nameB : Bytes) (args : List Bytes) (s : Sys)
    (hnd : NodupDbs s) {sig : Sig} {body : Body} (hl : lookupSig nameB = some sig)
    (hreg : Cmd.regular sig.name = some body) (ha : sig.checkArity args.length = true)
    (hq : ((s.conn c).tx.isSome && !SigTable.notQueued.contains sig.name) = false)
    {i : Nat} {k : Bytes} {T : Ty} {mr : MissingRet} {it : Item}
    (hi : (args.zip (sig.types args.length))[i]? = some (k, .key (some T) mr))
    (hlive : (s.prologue.dbAt (s.prologue.conn c).db).live k = some it) (ht : it.value.ty ≠ T) :
    ∃ r f, ((∃ e, r = Reply.err e) ∨
          (sig.apply args (s.prologue.dbAt (s.prologue.conn c).db)).2 = .ok (.short r)) ∧
      ErrStep c r f s.prologue (processCommand mode c (nameB :: args) s).2 ∧
      (f = id ∨ (f = markDead ∧ (processCommand mode c (nameB :: args) s).2.crashed.isSome = true)) ∧
      ((processCommand mode c (nameB :: args) s).2.dbAt (s.prologue.conn c).db).live k = some it := by
  have hnd1 := prologue_nodup hnd
  have hrc : runCommand mode c sig args false = runWith (special (runInner mode c)) mode c sig args false := by
    unfold runCommand
    rw [not_script_of_regular hreg]; rfl
  obtain ⟨h1, hQ, h3⟩ := runWith_wrongtype (special (runInner mode c)) mode c sig args false hreg s.prologue hnd1 hi hlive ht
  rw [pc_run mode c nameB args s hl ha hq, hrc]
  have hex : ∃ r, (runWith (special (runInner mode c)) mode c sig args false s.prologue).1 = some r ∧
      ((∃ e, r = Reply.err e) ∨
        (sig.apply args (s.prologue.dbAt (s.prologue.conn c).db)).2 = .ok (.short r)) := by
    cases hrf : s.prologue.refuses c sig with
    | true =>
      -- refused in subscriber mode: the reply is the context error
      rw [runWith_refused _ mode c sig args false hrf]
      exact ⟨_, rfl, .inl ⟨_, rfl⟩⟩
    | false =>
    have hfst : (runWith (special (runInner mode c)) mode c sig args false s.prologue).1 =
        some (s.prologue.regularOut c sig body args false).reply := by
      rw [runWith_regular_run _ mode c sig args false hreg _ hrf]
    refine ⟨_, hfst, ?_⟩
    rcases h1 with ⟨e, he⟩ | ⟨r, hr⟩
    · left; rw [hfst] at he; exact ⟨e, Option.some.inj he⟩
    · right
      rw [hr]
      have : (s.prologue.regularOut c sig body args false).reply = r := by
        unfold Sys.regularOut runRegular
        revert hr
        unfold Sys.dbAt
        generalize sig.apply args _ = ap
        obtain ⟨db1, res⟩ := ap
        rintro rfl
        rfl
      rw [this]
  obtain ⟨r, hfst, hrep⟩ := hex
  unfold afterRun
  simp only [hfst]
  clear hfst h1
  generalize (runWith (special (runInner mode c)) mode c sig args false s.prologue).2 = s2 at hQ h3 ⊢
  have hdb : ∀ g : Conn → Conn, (((s2.emitS c r).updConn c g).dbAt (s.prologue.conn c).db) =
      s2.dbAt (s.prologue.conn c).db := by
    intro g
    unfold Sys.dbAt
    simp only [Sys.updConn_dbs, Sys.updConn_time, Sys.emitS_srv]
  by_cases hc : (s2.emitS c r).crashed.isSome = true
  · rw [if_pos hc]
    exact ⟨r, markDead, hrep, ErrStep.upd_emit hQ, .inr ⟨rfl, hc⟩, by rw [hdb]; exact h3⟩
  · rw [if_neg hc]
    refine ⟨r, id, hrep, ?_, .inl rfl, ?_⟩
    · have := ErrStep.upd_emit (c := c) (r := r) (f := id) hQ
      rwa [Sys.updConn_id] at this
    · have := hdb id
      rw [Sys.updConn_id] at this
      rw [this]; exact h3



/-! ## The reply list only grows

`OutGrows o0 s` : the reply list of `s` extends `o0`.  Pushed through every command with the `pres` descent of
`History.lean` (the lemmas below mirror its `…_preserves` lemmas one by one). -/

/-- the reply list of `s` is `o0` with some replies, none of them an error, pushed on top -/
def OutGrows (o0 : List (Nat × Reply)) (s : Sys) : Prop := ∃ X, s.out = X ++ o0 ∧ ∀ p ∈ X, p.2.isErr = false

variable {o0 : List (Nat × Reply)}

theorem OutGrows.frame {s s' : Sys} (h : OutGrows o0 s) (h1 : s'.out = s.out) : OutGrows o0 s' := by
  obtain ⟨X, hX, hn⟩ := h; exact ⟨X, h1.trans hX, hn⟩

theorem og_getConn (c : Nat) : Pres (OutGrows o0) (getConn c) := fun _ h => h
theorem og_get : Pres (OutGrows o0) (get : M Sys) := fun _ h => h
theorem og_getDb (i : Nat) : Pres (OutGrows o0) (getDb i) := fun _ h => h
theorem og_setDb (i : Nat) (db : Db) : Pres (OutGrows o0) (setDb i db) := fun _ h => h
theorem og_modifyConn (c : Nat) (f : Conn → Conn) : Pres (OutGrows o0) (modifyConn c f) := fun _ h => h
theorem og_clearWatches (c : Nat) : Pres (OutGrows o0) (clearWatches c) := og_modifyConn c _
theorem og_notifyWatch (d : Nat) (k : Bytes) : Pres (OutGrows o0) (notifyWatch d k) := fun _ h => h

theorem og_emit (c : Nat) (r : Reply) (hr : r.isErr = false) : Pres (OutGrows o0) (emit c r) := by
  intro s h
  rw [emit_run]
  obtain ⟨X, hX, hn⟩ := h
  unfold Sys.emitS
  split
  · exact ⟨X, hX, hn⟩
  · refine ⟨(c, r) :: X, by simp [hX], ?_⟩
    intro p hp
    rcases List.mem_cons.1 hp with rfl | hp
    · exact hr
    · exact hn p hp

theorem og_fault (msg : String) : Pres (OutGrows o0) (M.fault msg) := by
  intro s h
  show OutGrows o0 (if s.fault.isNone then { s with fault := some msg } else s)
  split
  · exact h
  · exact h

theorem og_nextClock : Pres (OutGrows o0) nextClock := fun s h => h.frame (nextClock_out s)

theorem og_modify_frame (g : Sys → Sys) (h1 : ∀ s, (g s).out = s.out) : Pres (OutGrows o0) (modify g) :=
  fun s h => h.frame (h1 s)

theorem og_okR (r : Reply) (cis : List CI) : Pres (OutGrows o0) (okR r cis) := Pres.pure _

theorem og_writebackAll (d : Nat) (cis : List CI) : Pres (OutGrows o0) (writebackAll d cis) := by
  unfold writebackAll
  refine Pres.forM (fun ci => ?_)
  refine Pres.bind (og_getDb d) (fun db => ?_)
  split
  refine Pres.bind (og_setDb d _) (fun _ => ?_)
  split
  · exact og_notifyWatch d ci.key
  · exact Pres.pure _

theorem og_liveKeys (d : Nat) : Pres (OutGrows o0) (liveKeys d) := by
  unfold liveKeys
  refine Pres.bind (og_getDb d) (fun db => ?_)
  split
  exact Pres.bind (og_setDb d _) (fun _ => Pres.pure _)

theorem og_clearDb (d : Nat) : Pres (OutGrows o0) (clearDb d) := by
  unfold clearDb
  refine Pres.bind (og_liveKeys d) (fun ks => ?_)
  refine Pres.bind (Pres.forM (fun k => og_notifyWatch d k)) (fun _ => ?_)
  exact og_setDb d _

macro_rules | `(tactic| pres_leaf) => `(tactic| first
  | with_reducible exact og_getConn _
  | ((with_reducible refine og_emit _ _ ?_); rfl)
  | with_reducible exact og_fault _
  | with_reducible exact og_nextClock
  | with_reducible exact og_clearWatches _
  | with_reducible exact og_notifyWatch _ _
  | with_reducible exact og_writebackAll _ _
  | with_reducible exact og_liveKeys _
  | with_reducible exact og_clearDb _
  | with_reducible exact og_getDb _
  | with_reducible exact og_okR _ _
  | with_reducible exact og_get
  | with_reducible exact og_modifyConn _ _
  | with_reducible exact og_setDb _ _
  | ((with_reducible refine og_modify_frame _ ?_); first | exact fun _ => rfl | (intro _; split <;> rfl)))

/-! ## The special bodies -/

theorem selectCmd_og (c : Nat) (args : List Arg) (cis : List CI) : Pres (OutGrows o0) (selectCmd c args cis) := by
  unfold selectCmd; pres

theorem swapdbCmd_og (args : List Arg) (cis : List CI) : Pres (OutGrows o0) (swapdbCmd args cis) := by
  unfold swapdbCmd okR; pres

theorem moveCmd_og (d : Nat) (args : List Arg) (cis : List CI) : Pres (OutGrows o0) (moveCmd d args cis) := by
  unfold moveCmd
  pres

theorem randomkeyCmd_og (d : Nat) (cis : List CI) : Pres (OutGrows o0) (randomkeyCmd d cis) := by
  unfold randomkeyCmd okR
  refine Pres.bind (og_liveKeys d) (fun ks => ?_)
  split
  · pres
  · refine Pres.get_bind (fun s hs => ?_)
    split
    · split
      · exact Pres.at_set_bind hs (Pres.pure _)
      · refine Pres.at_of_pres ?_ hs; pres
    · refine Pres.at_of_pres ?_ hs; pres

theorem scanCmd_og (d : Nat) (args : List Arg) (cis : List CI) : Pres (OutGrows o0) (scanCmd d args cis) := by
  unfold scanCmd; pres

theorem multiCmd_og (c : Nat) (cis : List CI) : Pres (OutGrows o0) (multiCmd c cis) := by
  unfold multiCmd; pres

theorem discardCmd_og (c : Nat) (cis : List CI) : Pres (OutGrows o0) (discardCmd c cis) := by
  unfold discardCmd; pres

theorem watchCmd_og (c d : Nat) (args : List Arg) (cis : List CI) : Pres (OutGrows o0) (watchCmd c d args cis) := by
  unfold watchCmd; pres

theorem unwatch_og (c : Nat) (cis : List CI) :
    Pres (OutGrows o0) (do clearWatches c; okR .ok cis : M SpecialOut) := by pres

theorem subscribeGen_og (c : Nat) (pattern : Bool) (names : List Bytes) :
    Pres (OutGrows o0) (subscribeGen c pattern names) := by
  unfold subscribeGen; pres

theorem unsubscribeGen_og (c : Nat) (pattern : Bool) (names : List Bytes) :
    Pres (OutGrows o0) (unsubscribeGen c pattern names) := by
  unfold unsubscribeGen; pres

theorem publish_og (ch msg : Bytes) : Pres (OutGrows o0) (publish ch msg) := by
  intro s h
  obtain ⟨X, hX, hn⟩ := h
  rw [publish_run]
  refine ⟨((deliveries s.srv ch msg).filter fun d => !(s.conn d.1).closed).reverse ++ X, by simp [hX], ?_⟩
  intro p hp
  rcases List.mem_append.1 hp with hp | hp
  · have hp' := (List.mem_filter.1 (List.mem_reverse.1 hp)).1
    obtain ⟨pc, pr⟩ := p
    rcases (mem_deliveries s.srv ch msg pc pr).1 hp' with ⟨_, rfl⟩ | ⟨_, _, _, _, _, rfl⟩ <;> rfl
  · exact hn p hp

theorem bpopPass_og (d : Nat) (left first : Bool) (keys : List Bytes) :
    Pres (OutGrows o0) (bpopPass d left first keys) := by
  induction keys with
  | nil => unfold bpopPass; pres
  | cons k rest ih => unfold bpopPass; pres

theorem brpoplpushPass_og (d : Nat) (src dst : Bytes) (first : Bool) :
    Pres (OutGrows o0) (brpoplpushPass d src dst first) := by
  unfold brpoplpushPass; pres

theorem blocking_og (c : Nat) (park : Bool) (kind : String) (keys : List Bytes) (timeout : Int)
    (pass : Bool → M (Except Err (Option Reply))) (hpass : ∀ first, Pres (OutGrows o0) (pass first)) :
    Pres (OutGrows o0) (blocking c park kind keys timeout pass) := by
  have h1 := hpass true
  unfold blocking; pres

theorem blockingAsync_og (c : Nat) (kind : String) (keys : List Bytes)
    (pass : Bool → M (Except Err (Option Reply))) (hpass : ∀ first, Pres (OutGrows o0) (pass first)) :
    Pres (OutGrows o0) (blockingAsync c kind keys pass) := by
  have h1 := hpass true
  unfold blockingAsync; pres

/-- the nested runner only appends replies -/
def InnerOG (o0 : List (Nat × Reply)) (inner : Inner) : Prop :=
  ∀ (sig : Sig) (raw : List Bytes), Pres (OutGrows o0) (inner sig raw)

theorem runQueue_og (inner : Inner) (hinner : InnerOG o0 inner) (c : Nat)
    (q : List (String × List Bytes)) : Pres (OutGrows o0) (runQueue inner c q) := by
  induction q with
  | nil => unfold runQueue; pres
  | cons a rest ih =>
    have hinner' : ∀ sig raw, Pres (OutGrows o0) (inner sig raw) := hinner
    rw [runQueue_cons]
    refine Pres.bind ?_ (fun _ => Pres.bind ih (fun _ => Pres.pure _))
    unfold queueStep
    pres

theorem execCmd_og (inner : Inner) (hinner : InnerOG o0 inner) (c : Nat) (cis : List CI) :
    Pres (OutGrows o0) (execCmd inner c cis) := by
  have hq := runQueue_og inner hinner c
  unfold execCmd
  pres

theorem lookupKey_og (d : Nat) (key pattern : Bytes) : Pres (OutGrows o0) (lookupKey d key pattern) := by
  unfold lookupKey; pres

macro_rules | `(tactic| pres_leaf) => `(tactic| with_reducible exact lookupKey_og _ _ _)

theorem sortCmd_og (c d : Nat) (args : List Arg) (cis : List CI) : Pres (OutGrows o0) (sortCmd c d args cis) := by
  unfold sortCmd
  split
  · extract_lets key wrong out x keyed err le jp
    split
    · pres
    · have hjp : ∀ x, Pres (OutGrows o0) (jp x) := by
        intro items?
        simp -zeta only [jp]
        split
        · pres
        · split
          · pres
          · extract_lets n start stop stop' gets sortby jp2
            have hjp2 : ∀ x, Pres (OutGrows o0) (jp2 x) := by
              intro sorted?
              simp -zeta only [jp2]
              pres
            clear_value jp2
            pres
      clear_value jp
      simp only []
      split
      · pres
      · pres
      · pres
      · refine Pres.get_bind (fun st hs => ?_)
        split
        · split
          · exact Pres.at_set_bind hs (by pres)
          · refine Pres.at_of_pres ?_ hs; pres
        · refine Pres.at_of_pres ?_ hs; pres
      · pres
  · pres

/-! ## `while` loops, ZUNIONSTORE / ZINTERSTORE -/

theorem loop_unfold {β : Type} (f : Unit → β → M (ForInStep β)) (b : β) :
    ForIn.forIn Lean.Loop.mk b f = (f () b >>= fun r => match r with
      | .done val => Pure.pure val
      | .yield val => ForIn.forIn Lean.Loop.mk val f) :=
  Lean.Loop.forIn_eq_of_monadTail (l := Lean.Loop.mk) (b := b) (f := f)

/-- a `while` loop whose body preserves `I` and decreases a measure whenever it continues -/
theorem Pres.loop {I : Sys → Prop} {β : Type} (μ : β → Nat) (f : Unit → β → M (ForInStep β))
    (hf : ∀ b, Pres I (f () b))
    (hdec : ∀ b s b', (f () b s).1 = .yield b' → μ b' < μ b) (init : β) :
    Pres I (ForIn.forIn Lean.Loop.mk init f) := by
  induction h : μ init using Nat.strongRecOn generalizing init with
  | _ n ih =>
    rw [loop_unfold]
    intro s hs
    have h1 := hf init s hs
    have h2 := hdec init s
    show I ((match (f () init s).1 with
      | .done val => Pure.pure val
      | .yield val => ForIn.forIn Lean.Loop.mk val f : M β) (f () init s).2).2
    revert h1 h2
    generalize f () init s = r
    obtain ⟨r1, s1⟩ := r
    intro h1 h2
    cases r1 with
    | done v => exact h1
    | yield v => exact ih (μ v) (by rw [← h]; exact h2 v rfl) v rfl s1 h1

/-- a `while` loop with a pure body that decreases a measure whenever it continues -/
theorem Pres.loop_pure {I : Sys → Prop} {β : Type} (μ : β → Nat) (f : Unit → β → M (ForInStep β))
    (hf : ∀ b, ∃ r, f () b = Pure.pure r ∧ ∀ b', r = .yield b' → μ b' < μ b) (init : β) :
    Pres I (ForIn.forIn Lean.Loop.mk init f) := by
  refine Pres.loop μ f (fun b => ?_) (fun b s b' h => ?_) init
  · obtain ⟨r, hr, _⟩ := hf b
    rw [hr]; exact Pres.pure _
  · obtain ⟨r, hr, hd⟩ := hf b
    rw [hr] at h
    exact hd b' h

theorem zunioninter_og (u : Bool) (d : Nat) (args : List Arg) (cis : List CI) :
    Pres (OutGrows o0) (zunioninter u d args cis) := by
  unfold zunioninter
  split
  · pres
    all_goals
      refine Pres.loop_pure (fun b => b.2.2.2.2) _ (fun b => ?_) _
      repeat' split
      all_goals
        refine ⟨_, rfl, fun b' h => ?_⟩
        first
          | (cases h; done)
          | (have h := ForInStep.yield.inj h; subst h; simp_all <;> omega)
  · pres

theorem scriptCmd_og (inner : Inner) (c : Nat) (name : String) (args : List Arg) (cis : List CI) :
    Pres (OutGrows o0) (scriptCmd inner c name args cis) := by
  unfold scriptCmd; pres

/-! ## `special`: the dispatch of the special bodies -/

macro_rules | `(tactic| pres_leaf) => `(tactic| first
  | with_reducible exact selectCmd_og _ _ _
  | with_reducible exact swapdbCmd_og _ _
  | with_reducible exact moveCmd_og _ _ _
  | with_reducible exact randomkeyCmd_og _ _
  | with_reducible exact scanCmd_og _ _ _
  | with_reducible exact sortCmd_og _ _ _ _
  | with_reducible exact zunioninter_og _ _ _ _
  | with_reducible exact multiCmd_og _ _
  | with_reducible exact discardCmd_og _ _
  | with_reducible exact watchCmd_og _ _ _ _
  | with_reducible exact subscribeGen_og _ _ _
  | with_reducible exact unsubscribeGen_og _ _ _
  | with_reducible exact publish_og _ _
  | with_reducible exact scriptCmd_og _ _ _ _ _
  | with_reducible exact blocking_og _ _ _ _ _ _ (fun _ => bpopPass_og _ _ _ _)
  | with_reducible exact blockingAsync_og _ _ _ _ (fun _ => bpopPass_og _ _ _ _)
  | with_reducible exact blocking_og _ _ _ _ _ _ (fun _ => brpoplpushPass_og _ _ _ _)
  | with_reducible exact blockingAsync_og _ _ _ _ (fun _ => brpoplpushPass_og _ _ _ _))

/-- Every special body preserves the invariant (EXEC: provided the nested runner does).  The returned `cis'`
need no condition: `writebackAll` preserves the invariant for arbitrary items (`og_writebackAll`).

Robust against new cases of the `match name with`: every goal produced by `split` is closed by the same
structural descent `pres`, whose leaves are the `…_og` lemmas registered with `pres_leaf`. -/
theorem special_og (inner : Inner) (hinner : InnerOG o0 inner) (mode : Mode) (c : Nat)
    (name : String) (args : List Arg) (cis : List CI) :
    Pres (OutGrows o0) (special inner mode c name args cis) := by
  have hexec := execCmd_og inner hinner c
  unfold special
  simp only []
  refine Pres.bind (og_getConn c) (fun conn => ?_)
  split
  all_goals pres

/-! ## `_run_command` -/

/-- `_run_command` preserves the invariant when the special body it may dispatch to does -/
theorem runWith_og (special : Mode → Nat → String → List Arg → List CI → M (Except Err (Option Reply × List CI)))
    (mode : Mode) (c : Nat) (sig : Sig) (raw : List Bytes) (fromScript : Bool)
    (hsp : ∀ args cis, Pres (OutGrows o0) (special mode c sig.name args cis)) :
    Pres (OutGrows o0) (runWith special mode c sig raw fromScript) := by
  unfold runWith
  refine Pres.bind (og_getConn c) (fun conn => ?_)
  split
  · exact Pres.pure _
  refine Pres.bind (og_getDb _) (fun db => ?_)
  extract_lets gate
  clear_value gate
  split
  · -- regular command
    refine Pres.bind og_get (fun s => ?_)
    extract_lets ctx o jp
    have hjp : ∀ x, Pres (OutGrows o0) (jp x) := by intro x; simp -zeta only [jp]; pres
    clear_value jp
    clear_value o
    pres
  · pres

/-! ## Scripts (EVAL / EVALSHA / SCRIPT) -/

theorem nextPick_og : Pres (OutGrows o0) nextPick := by
  unfold nextPick
  refine Pres.get_bind (fun s hs => ?_)
  split
  · exact Pres.at_set_bind hs (Pres.pure _)
  · exact Pres.at_of_pres (Pres.pure _) hs

macro_rules | `(tactic| pres_leaf) => `(tactic| with_reducible exact nextPick_og)

theorem shaHint_og : Pres (OutGrows o0) shaHint := by
  unfold shaHint; pres

macro_rules | `(tactic| pres_leaf) => `(tactic| with_reducible exact shaHint_og)


def SpecialOG (o0 : List (Nat × Reply)) (special : SpecialFn) : Prop :=
  ∀ mode c name args cis, Pres (OutGrows o0) (special mode c name args cis)

theorem runFromScript_og (special : SpecialFn) (hsp : SpecialOG o0 special) (mode : Mode) (c : Nat)
    (op : LuaVal) (args : List LuaVal) : Pres (OutGrows o0) (runFromScript special mode c op args) := by
  have hrun : ∀ sig raw, Pres (OutGrows o0) (runWith special mode c sig raw true) :=
    fun sig raw => runWith_og special mode c sig raw true (fun _ _ => hsp _ _ _ _ _)
  unfold runFromScript
  pres

theorem runTrace_og (special : SpecialFn) (hsp : SpecialOG o0 special) (mode : Mode) (c : Nat)
    (sha : Bytes) (fuel : Nat) : Pres (OutGrows o0) (runTrace special mode c sha fuel) := by
  have hcall := runFromScript_og special hsp mode c
  induction fuel with
  | zero => unfold runTrace; pres
  | succ fuel ih => unfold runTrace; pres

theorem evalBody_og (special : SpecialFn) (hsp : SpecialOG o0 special) (mode : Mode) (c : Nat)
    (script : Bytes) (numkeys : Int) (rest : List Bytes) :
    Pres (OutGrows o0) (evalBody special mode c script numkeys rest) := by
  have htrace := runTrace_og special hsp mode c
  unfold evalBody; pres

theorem scriptBody_og (special : SpecialFn) (hsp : SpecialOG o0 special) (mode : Mode) (c : Nat)
    (name : String) (args : List Arg) : Pres (OutGrows o0) (scriptBody special mode c name args) := by
  have heval := evalBody_og special hsp mode c
  unfold scriptBody; pres

theorem special_stub_og : SpecialOG o0 (special (fun _ _ => do fault "nested exec"; return none)) := by
  intro mode c name args cis
  apply special_og
  intro sig raw
  pres

theorem runScriptCmd_og (mode : Mode) (c : Nat) (sig : Sig) (raw : List Bytes) (fromScript : Bool) :
    Pres (OutGrows o0) (runScriptCmd mode c sig raw fromScript) := by
  have hbody := scriptBody_og (o0 := o0) _ special_stub_og mode c
  unfold runScriptCmd; pres

/-- the nested runner of EXEC (level 0) -/
theorem runInner_og (mode : Mode) (c : Nat) : InnerOG o0 (runInner mode c) := by
  intro sig raw
  refine runInner_cases (P := fun m => Pres (OutGrows o0) m) mode c sig raw
    (fun _ => runScriptCmd_og mode c sig raw false) (fun _ => ?_)
  apply runWith_og
  intro args cis
  exact special_stub_og _ _ _ _ _

/-- `_run_command` for a command issued by a client -/
theorem runCommand_og (mode : Mode) (c : Nat) (sig : Sig) (raw : List Bytes) (fromScript : Bool) :
    Pres (OutGrows o0) (runCommand mode c sig raw fromScript) := by
  unfold runCommand
  split
  · exact runScriptCmd_og _ _ _ _ _
  · apply runWith_og
    intro args cis
    exact special_og _ (runInner_og mode c) _ _ _ _ _



/-! ## "The reply list grows by exactly one error" -/

theorem cleanupClosed_out (s : Sys) : (cleanupClosed s).2.out = s.out := by
  have h : Pres (fun t : Sys => t.out = s.out) cleanupClosed := by
    unfold cleanupClosed
    refine Pres.get_bind (fun s1 hs => Pres.at_of_pres ?_ hs)
    refine Pres.bind (Pres.forIn (fun a b => ?_) _) (fun _ => fun _ h => h)
    exact Pres.bind (fun _ h => h) (fun _ => Pres.bind (fun _ h => h) (fun _ => Pres.pure _))
  exact h s rfl

theorem prologue_out (s : Sys) : s.prologue.out = s.out := by
  unfold Sys.prologue
  rw [Sys.refresh_out, cleanupClosed_out]

theorem pc_queued (mode : Mode) (c : Nat) (nameB : Bytes) (args : List Bytes) (s : Sys) {sig : Sig}
    (h : lookupSig nameB = some sig) (ha : sig.checkArity args.length = true)
    (hq : ((s.conn c).tx.isSome && !SigTable.notQueued.contains sig.name) = true)
    (hnm : SigTable.notInMulti.contains sig.name = false) :
    (processCommand mode c (nameB :: args) s).2 =
      (s.prologue.updConn c fun x => { x with tx := x.tx.map (· ++ [(sig.name, args)]) }).emitS c .queued := by
  rw [processCommand_known mode c nameB args s h]
  unfold knownTail
  simp only [ha, hq, hnm, Bool.not_true, ↓reduceIte, Bool.false_eq_true, bind, StateT.bind, modifyConn_run, emit_run]

/-- a command body never returns an error-shaped reply: it raises instead -/
def NoErrReply (body : Body) : Prop :=
  ∀ ctx args cis o, body ctx args cis = .ok o → o.reply.isErr = false

theorem missingReply_noErr (mr : MissingRet) : (Sig.missingReply mr).isErr = false := by
  cases mr <;> rfl

theorem pass1_short_noErr (l : List (Bytes × ArgTy)) (db : Db) (acc : List Arg) {db1 : Db} {r : Reply}
    (h : Sig.pass1 db l acc = (db1, .ok (.inl r))) : r.isErr = false := by
  induction l generalizing db acc with
  | nil => simp [Sig.pass1] at h
  | cons x rest ih =>
    obtain ⟨b, t⟩ := x
    cases t
    case key ty mr =>
      simp only [Sig.pass1] at h
      split at h
      · split at h
        · simp only [Prod.mk.injEq, Except.ok.injEq, Sum.inl.injEq] at h
          rw [← h.2]; exact missingReply_noErr mr
        · exact ih _ _ h
      · exact ih _ _ h
    all_goals
      simp only [Sig.pass1] at h
      split at h
      · cases h
      · exact ih _ _ h

theorem apply_short_noErr (sig : Sig) (raw : List Bytes) (db : Db) {db1 : Db} {r : Reply}
    (h : sig.apply raw db = (db1, .ok (.short r))) : r.isErr = false := by
  unfold Sig.apply at h
  split at h
  · cases h
  · split at h
    · cases h
    · simp only at h
      split at h
      · cases h
      · rename_i heq
        simp only [Prod.mk.injEq, Except.ok.injEq, Sig.Applied.short.injEq] at h
        rw [← h.2]; exact pass1_short_noErr _ _ _ heq
      · split at h <;> cases h

/-- for a body that never returns an error-shaped reply, an error reply of the generic runner means `failed` -/
theorem runRegular_err_failed (sig : Sig) {body : Body} (hb : NoErrReply body) (ctx : Ctx) (gate : Option Err)
    (raw : List Bytes) (db : Db) {e : Bytes} (h : (runRegular sig body ctx gate raw db).reply = .err e) :
    (runRegular sig body ctx gate raw db).failed = true := by
  unfold runRegular at h ⊢
  split
  · rfl
  · rename_i db1 r heq
    rw [heq] at h
    simp only at h
    have := apply_short_noErr sig raw db heq
    rw [h] at this; cases this
  · rename_i db1 args cis heq
    rw [heq] at h
    simp only at h
    split
    · rfl
    · split
      · rfl
      · rename_i o hbo
        rw [hbo] at h
        simp only at h
        have := hb _ _ _ _ hbo
        rw [h] at this; cases this



theorem cons_ne_self {α} (a : α) (l : List α) : a :: l ≠ l := by
  intro h
  have := congrArg List.length h
  simp at this

theorem afterRun_out (c : Nat) (r : Option Reply × Sys) :
    (afterRun c r).out = (match r.1 with | some x => r.2.emitS c x | none => r.2).out := by
  unfold afterRun
  obtain ⟨r1, s2⟩ := r
  cases r1 with
  | none => simp only; split <;> rfl
  | some x => simp only; split <;> rfl

/-- **"The reply list grows by exactly one error" ⇒ `ErrAnswered`.**  If processing the request makes the reply
list grow by exactly `(c, .err e)`, the request was answered with an error in the sense of `ErrAnswered`
(for a regular command this uses that its body never returns an error-shaped reply). -/
theorem errAnswered_of_out (mode : Mode) (c : Nat) (nameB : Bytes) (args : List Bytes) (s : Sys) (e : Bytes)
    (hout : (processCommand mode c (nameB :: args) s).2.out = (c, .err e) :: s.out)
    (hbody : ∀ sig body, lookupSig nameB = some sig → Cmd.regular sig.name = some body → NoErrReply body) :
    ErrAnswered mode c (nameB :: args) s := by
  unfold ErrAnswered
  cases hl : lookupSig nameB with
  | none => simp only [hl]
  | some sig =>
    simp only [hl]
    by_cases ha : sig.checkArity args.length = true
    · simp only [ha, Bool.not_true, Bool.false_eq_true, if_false]
      by_cases hq : ((s.conn c).tx.isSome && !SigTable.notQueued.contains sig.name) = true
      · simp only [hq, if_true]
        cases hnm : SigTable.notInMulti.contains sig.name with
        | true => rfl
        | false =>
        exfalso
        rw [pc_queued mode c nameB args s hl ha hq hnm, Sys.emitS_out] at hout
        have ho : (s.prologue.updConn c fun x => { x with tx := x.tx.map (· ++ [(sig.name, args)]) }).out = s.out :=
          prologue_out s
        rw [ho] at hout
        split at hout
        · exact cons_ne_self _ _ hout.symm
        · simp only [List.cons.injEq, Prod.mk.injEq, and_true, true_and] at hout
          cases hout
      · have hq' : ((s.conn c).tx.isSome && !SigTable.notQueued.contains sig.name) = false := by simpa using hq
        simp only [hq', Bool.false_eq_true, if_false]
        rw [pc_run mode c nameB args s hl ha hq'] at hout
        have hog := runCommand_og (o0 := s.out) mode c sig args false s.prologue ⟨[], by simp [prologue_out], by simp⟩
        obtain ⟨X, hX, hn⟩ := hog
        -- the reply `_run_command` returned is the error, and nothing else was emitted
        have key : (runCommand mode c sig args false s.prologue).1 = some (.err e) := by
          rw [afterRun_out] at hout
          revert hout hX
          generalize runCommand mode c sig args false s.prologue = r
          obtain ⟨r1, s2⟩ := r
          intro hout hX
          simp only at hout hX ⊢
          have hout' := hout
          have hXerr : X ≠ [(c, Reply.err e)] ∧ (∀ Y, X ≠ (c, Reply.err e) :: Y) := by
            refine ⟨fun h => ?_, fun Y h => ?_⟩
            · have := hn (c, .err e) (by rw [h]; exact List.mem_cons_self ..)
              cases this
            · have := hn (c, .err e) (by rw [h]; exact List.mem_cons_self ..)
              cases this
          cases r1 with
          | none =>
            simp only at hout'
            rw [hX] at hout'
            cases X with
            | nil => exact absurd hout'.symm (cons_ne_self _ _)
            | cons p Y =>
              simp only [List.cons_append, List.cons.injEq] at hout'
              exact absurd (by rw [hout'.1]) (hXerr.2 Y)
          | some x =>
            simp only at hout'
            rw [Sys.emitS_out] at hout'
            split at hout'
            · rw [hX] at hout'
              cases X with
              | nil => exact absurd hout'.symm (cons_ne_self _ _)
              | cons p Y =>
                simp only [List.cons_append, List.cons.injEq] at hout'
                exact absurd (by rw [hout'.1]) (hXerr.2 Y)
            · rw [hX] at hout'
              simp only [List.cons.injEq, Prod.mk.injEq, true_and] at hout'
              rw [hout'.1]
        cases hreg : Cmd.regular sig.name with
        | none => simp only; rw [key]; trivial
        | some body =>
          simp only
          have hrc : runCommand mode c sig args false = runWith (special (runInner mode c)) mode c sig args false := by
            unfold runCommand
            rw [not_script_of_regular hreg]; rfl
          cases hrf : s.prologue.refuses c sig with
          | true => exact .inl rfl
          | false =>
          rw [hrc, runWith_regular_run _ mode c sig args false hreg _ hrf] at key
          exact .inr (runRegular_err_failed sig (hbody sig body hl hreg) _ _ _ _ (Option.some.inj key))
    · simp only [ha, Bool.not_false, if_true]



/-! ## No regular body returns an error-shaped reply -/


theorem ofOptBulk_noErr (x : Option Bytes) : (Reply.ofOptBulk x).isErr = false := by cases x <;> rfl

/-- an `Except` computation of a body never succeeds with an error-shaped reply -/
def NoErrE (x : Except Err BodyOut) : Prop := ∀ o, x = .ok o → o.reply.isErr = false

theorem srandCore_noErr {ctx : Ctx} {s : List Bytes} {count : Option Int} {r : Reply} {u : Nat} {l : List Bytes}
    (h : Cmd.srandCore ctx s count = some (r, u, l)) : r.isErr = false := by
  unfold Cmd.srandCore at h
  repeat' first | (split at h) | (simp only [] at h; split at h)
  all_goals first
    | (cases h; done)
    | (simp only [Option.some.injEq, Prod.mk.injEq] at h; obtain ⟨rfl, _, _⟩ := h; rfl)

theorem ret_noErr {r : Reply} {cis : List CI} {o : BodyOut} (h : FR.ret r cis = .ok o) (hr : r.isErr = false) :
    o.reply.isErr = false := by
  simp only [FR.ret, Except.ok.injEq] at h
  subst h; exact hr

syntax "noerr_close" : tactic
macro_rules | `(tactic| noerr_close) => `(tactic| first
  | (cases ‹_ = _›; done)
  | (have hsr := srandCore_noErr ‹Cmd.srandCore _ _ _ = _›; subst_vars; exact hsr)
  | (exact ‹NoErrReply _› _ _ _ _ ‹_›)
  | (simp only [FR.ret, Except.ok.injEq] at *; subst_vars; first | rfl | exact ofOptBulk_noErr _)
  | (obtain ⟨xs, rfl⟩ := scanReply_arr ‹Cmd.scanReply _ _ _ _ _ _ _ = _›; subst_vars; rfl)
  | (simp_all [FR.ret, Reply.isErr, Reply.ofOptBulk, Reply.bulks, Reply.ok]; done))

syntax "noerr_split" : tactic
macro_rules | `(tactic| noerr_split) => `(tactic|
  repeat' first
    | (split at ‹_ = Except.ok _›)
    | (simp only [bind, Except.bind, pure, Except.pure, Except.map, Functor.map] at ‹_ = Except.ok _›; split at ‹_ = Except.ok _›))

theorem ne_incrbyCore {cis k a} : NoErrE (Cmd.incrbyCore cis k a) := by
  intro o h
  unfold Cmd.incrbyCore at h
  noerr_split
  all_goals noerr_close

theorem ne_expireatCore {ctx cis k ts} : NoErrE (Cmd.expireatCore ctx cis k ts) := by
  intro o h
  unfold Cmd.expireatCore at h
  noerr_split
  all_goals noerr_close

theorem ne_ttlCore {ctx cis k sc} : NoErrE (Cmd.ttlCore ctx cis k sc) := by
  intro o h
  unfold Cmd.ttlCore at h
  noerr_split
  all_goals noerr_close

theorem ne_moveCore {cis s d fl tl} : NoErrE (Cmd.moveCore cis s d fl tl) := by
  intro o h
  unfold Cmd.moveCore at h
  noerr_split
  all_goals noerr_close

theorem ne_zincrbyCore {ctx cis k incr m} : NoErrE (Cmd.zincrbyCore ctx cis k incr m) := by
  intro o h
  unfold Cmd.zincrbyCore at h
  noerr_split
  all_goals noerr_close

theorem ne_zremCore {cis k ms} : NoErrE (Cmd.zremCore cis k ms) := by
  intro o h
  unfold Cmd.zremCore at h
  noerr_split
  all_goals noerr_close

theorem ne_zrangebylexGen {rev mn mne mx mxe k opts cis} : NoErrE (Cmd.zrangebylexGen rev mn mne mx mxe k opts cis) := by
  intro o h
  unfold Cmd.zrangebylexGen at h
  noerr_split
  all_goals noerr_close

theorem ne_zrangebyscoreGen {rev ctx mn mne mx mxe k opts cis} : NoErrE (Cmd.zrangebyscoreGen rev ctx mn mne mx mxe k opts cis) := by
  intro o h
  unfold Cmd.zrangebyscoreGen at h
  noerr_split
  all_goals noerr_close

theorem ne_listPop (left) : NoErrReply (Cmd.listPop left) := by
  intro ctx args cis o h
  unfold Cmd.listPop at h
  noerr_split
  all_goals noerr_close

theorem ne_setopRead (op) : NoErrReply (Cmd.setopRead op) := by
  intro ctx args cis o h
  unfold Cmd.setopRead at h
  noerr_split
  all_goals noerr_close

theorem ne_setopStore (op) : NoErrReply (Cmd.setopStore op) := by
  intro ctx args cis o h
  unfold Cmd.setopStore at h
  noerr_split
  all_goals noerr_close

theorem ne_zrangeGen (rev) : NoErrReply (Cmd.zrangeGen rev) := by
  intro ctx args cis o h
  unfold Cmd.zrangeGen at h
  noerr_split
  all_goals noerr_close

theorem ne_append : NoErrReply Cmd.append := by
  intro ctx args cis o h
  unfold Cmd.append at h
  first | (first | exact ne_incrbyCore _ ‹_› | exact ne_expireatCore _ ‹_› | exact ne_ttlCore _ ‹_› | exact ne_moveCore _ ‹_› | exact ne_zincrbyCore _ ‹_› | exact ne_zremCore _ ‹_› | exact ne_zrangebylexGen _ ‹_› | exact ne_zrangebyscoreGen _ ‹_› | exact ne_listPop _ _ _ _ _ ‹_› | exact ne_setopRead _ _ _ _ _ ‹_› | exact ne_setopStore _ _ _ _ _ ‹_› | exact ne_zrangeGen _ _ _ _ _ ‹_›) | skip
  noerr_split
  all_goals first | (first | exact ne_incrbyCore _ ‹_› | exact ne_expireatCore _ ‹_› | exact ne_ttlCore _ ‹_› | exact ne_moveCore _ ‹_› | exact ne_zincrbyCore _ ‹_› | exact ne_zremCore _ ‹_› | exact ne_zrangebylexGen _ ‹_› | exact ne_zrangebyscoreGen _ ‹_› | exact ne_listPop _ _ _ _ _ ‹_› | exact ne_setopRead _ _ _ _ _ ‹_› | exact ne_setopStore _ _ _ _ _ ‹_› | exact ne_zrangeGen _ _ _ _ _ ‹_›) | noerr_close

theorem ne_bitcount : NoErrReply Cmd.bitcount := by
  intro ctx args cis o h
  unfold Cmd.bitcount at h
  first | (first | exact ne_incrbyCore _ ‹_› | exact ne_expireatCore _ ‹_› | exact ne_ttlCore _ ‹_› | exact ne_moveCore _ ‹_› | exact ne_zincrbyCore _ ‹_› | exact ne_zremCore _ ‹_› | exact ne_zrangebylexGen _ ‹_› | exact ne_zrangebyscoreGen _ ‹_› | exact ne_listPop _ _ _ _ _ ‹_› | exact ne_setopRead _ _ _ _ _ ‹_› | exact ne_setopStore _ _ _ _ _ ‹_› | exact ne_zrangeGen _ _ _ _ _ ‹_›) | skip
  noerr_split
  all_goals first | (first | exact ne_incrbyCore _ ‹_› | exact ne_expireatCore _ ‹_› | exact ne_ttlCore _ ‹_› | exact ne_moveCore _ ‹_› | exact ne_zincrbyCore _ ‹_› | exact ne_zremCore _ ‹_› | exact ne_zrangebylexGen _ ‹_› | exact ne_zrangebyscoreGen _ ‹_› | exact ne_listPop _ _ _ _ _ ‹_› | exact ne_setopRead _ _ _ _ _ ‹_› | exact ne_setopStore _ _ _ _ _ ‹_› | exact ne_zrangeGen _ _ _ _ _ ‹_›) | noerr_close

theorem ne_decr : NoErrReply Cmd.decr := by
  intro ctx args cis o h
  unfold Cmd.decr at h
  first | (first | exact ne_incrbyCore _ ‹_› | exact ne_expireatCore _ ‹_› | exact ne_ttlCore _ ‹_› | exact ne_moveCore _ ‹_› | exact ne_zincrbyCore _ ‹_› | exact ne_zremCore _ ‹_› | exact ne_zrangebylexGen _ ‹_› | exact ne_zrangebyscoreGen _ ‹_› | exact ne_listPop _ _ _ _ _ ‹_› | exact ne_setopRead _ _ _ _ _ ‹_› | exact ne_setopStore _ _ _ _ _ ‹_› | exact ne_zrangeGen _ _ _ _ _ ‹_›) | skip
  noerr_split
  all_goals first | (first | exact ne_incrbyCore _ ‹_› | exact ne_expireatCore _ ‹_› | exact ne_ttlCore _ ‹_› | exact ne_moveCore _ ‹_› | exact ne_zincrbyCore _ ‹_› | exact ne_zremCore _ ‹_› | exact ne_zrangebylexGen _ ‹_› | exact ne_zrangebyscoreGen _ ‹_› | exact ne_listPop _ _ _ _ _ ‹_› | exact ne_setopRead _ _ _ _ _ ‹_› | exact ne_setopStore _ _ _ _ _ ‹_› | exact ne_zrangeGen _ _ _ _ _ ‹_›) | noerr_close

theorem ne_decrby : NoErrReply Cmd.decrby := by
  intro ctx args cis o h
  unfold Cmd.decrby at h
  first | (first | exact ne_incrbyCore _ ‹_› | exact ne_expireatCore _ ‹_› | exact ne_ttlCore _ ‹_› | exact ne_moveCore _ ‹_› | exact ne_zincrbyCore _ ‹_› | exact ne_zremCore _ ‹_› | exact ne_zrangebylexGen _ ‹_› | exact ne_zrangebyscoreGen _ ‹_› | exact ne_listPop _ _ _ _ _ ‹_› | exact ne_setopRead _ _ _ _ _ ‹_› | exact ne_setopStore _ _ _ _ _ ‹_› | exact ne_zrangeGen _ _ _ _ _ ‹_›) | skip
  noerr_split
  all_goals first | (first | exact ne_incrbyCore _ ‹_› | exact ne_expireatCore _ ‹_› | exact ne_ttlCore _ ‹_› | exact ne_moveCore _ ‹_› | exact ne_zincrbyCore _ ‹_› | exact ne_zremCore _ ‹_› | exact ne_zrangebylexGen _ ‹_› | exact ne_zrangebyscoreGen _ ‹_› | exact ne_listPop _ _ _ _ _ ‹_› | exact ne_setopRead _ _ _ _ _ ‹_› | exact ne_setopStore _ _ _ _ _ ‹_› | exact ne_zrangeGen _ _ _ _ _ ‹_›) | noerr_close

theorem ne_del : NoErrReply Cmd.del := by
  intro ctx args cis o h
  unfold Cmd.del at h
  first | (first | exact ne_incrbyCore _ ‹_› | exact ne_expireatCore _ ‹_› | exact ne_ttlCore _ ‹_› | exact ne_moveCore _ ‹_› | exact ne_zincrbyCore _ ‹_› | exact ne_zremCore _ ‹_› | exact ne_zrangebylexGen _ ‹_› | exact ne_zrangebyscoreGen _ ‹_› | exact ne_listPop _ _ _ _ _ ‹_› | exact ne_setopRead _ _ _ _ _ ‹_› | exact ne_setopStore _ _ _ _ _ ‹_› | exact ne_zrangeGen _ _ _ _ _ ‹_›) | skip
  noerr_split
  all_goals first | (first | exact ne_incrbyCore _ ‹_› | exact ne_expireatCore _ ‹_› | exact ne_ttlCore _ ‹_› | exact ne_moveCore _ ‹_› | exact ne_zincrbyCore _ ‹_› | exact ne_zremCore _ ‹_› | exact ne_zrangebylexGen _ ‹_› | exact ne_zrangebyscoreGen _ ‹_› | exact ne_listPop _ _ _ _ _ ‹_› | exact ne_setopRead _ _ _ _ _ ‹_› | exact ne_setopStore _ _ _ _ _ ‹_› | exact ne_zrangeGen _ _ _ _ _ ‹_›) | noerr_close

theorem ne_dump : NoErrReply Cmd.dump := by
  intro ctx args cis o h
  unfold Cmd.dump at h
  first | (first | exact ne_incrbyCore _ ‹_› | exact ne_expireatCore _ ‹_› | exact ne_ttlCore _ ‹_› | exact ne_moveCore _ ‹_› | exact ne_zincrbyCore _ ‹_› | exact ne_zremCore _ ‹_› | exact ne_zrangebylexGen _ ‹_› | exact ne_zrangebyscoreGen _ ‹_› | exact ne_listPop _ _ _ _ _ ‹_› | exact ne_setopRead _ _ _ _ _ ‹_› | exact ne_setopStore _ _ _ _ _ ‹_› | exact ne_zrangeGen _ _ _ _ _ ‹_›) | skip
  noerr_split
  all_goals first | (first | exact ne_incrbyCore _ ‹_› | exact ne_expireatCore _ ‹_› | exact ne_ttlCore _ ‹_› | exact ne_moveCore _ ‹_› | exact ne_zincrbyCore _ ‹_› | exact ne_zremCore _ ‹_› | exact ne_zrangebylexGen _ ‹_› | exact ne_zrangebyscoreGen _ ‹_› | exact ne_listPop _ _ _ _ _ ‹_› | exact ne_setopRead _ _ _ _ _ ‹_› | exact ne_setopStore _ _ _ _ _ ‹_› | exact ne_zrangeGen _ _ _ _ _ ‹_›) | noerr_close

theorem ne_exists_ : NoErrReply Cmd.exists_ := by
  intro ctx args cis o h
  unfold Cmd.exists_ at h
  first | (first | exact ne_incrbyCore _ ‹_› | exact ne_expireatCore _ ‹_› | exact ne_ttlCore _ ‹_› | exact ne_moveCore _ ‹_› | exact ne_zincrbyCore _ ‹_› | exact ne_zremCore _ ‹_› | exact ne_zrangebylexGen _ ‹_› | exact ne_zrangebyscoreGen _ ‹_› | exact ne_listPop _ _ _ _ _ ‹_› | exact ne_setopRead _ _ _ _ _ ‹_› | exact ne_setopStore _ _ _ _ _ ‹_› | exact ne_zrangeGen _ _ _ _ _ ‹_›) | skip
  noerr_split
  all_goals first | (first | exact ne_incrbyCore _ ‹_› | exact ne_expireatCore _ ‹_› | exact ne_ttlCore _ ‹_› | exact ne_moveCore _ ‹_› | exact ne_zincrbyCore _ ‹_› | exact ne_zremCore _ ‹_› | exact ne_zrangebylexGen _ ‹_› | exact ne_zrangebyscoreGen _ ‹_› | exact ne_listPop _ _ _ _ _ ‹_› | exact ne_setopRead _ _ _ _ _ ‹_› | exact ne_setopStore _ _ _ _ _ ‹_› | exact ne_zrangeGen _ _ _ _ _ ‹_›) | noerr_close

theorem ne_expire : NoErrReply Cmd.expire := by
  intro ctx args cis o h
  unfold Cmd.expire at h
  first | (first | exact ne_incrbyCore _ ‹_› | exact ne_expireatCore _ ‹_› | exact ne_ttlCore _ ‹_› | exact ne_moveCore _ ‹_› | exact ne_zincrbyCore _ ‹_› | exact ne_zremCore _ ‹_› | exact ne_zrangebylexGen _ ‹_› | exact ne_zrangebyscoreGen _ ‹_› | exact ne_listPop _ _ _ _ _ ‹_› | exact ne_setopRead _ _ _ _ _ ‹_› | exact ne_setopStore _ _ _ _ _ ‹_› | exact ne_zrangeGen _ _ _ _ _ ‹_›) | skip
  noerr_split
  all_goals first | (first | exact ne_incrbyCore _ ‹_› | exact ne_expireatCore _ ‹_› | exact ne_ttlCore _ ‹_› | exact ne_moveCore _ ‹_› | exact ne_zincrbyCore _ ‹_› | exact ne_zremCore _ ‹_› | exact ne_zrangebylexGen _ ‹_› | exact ne_zrangebyscoreGen _ ‹_› | exact ne_listPop _ _ _ _ _ ‹_› | exact ne_setopRead _ _ _ _ _ ‹_› | exact ne_setopStore _ _ _ _ _ ‹_› | exact ne_zrangeGen _ _ _ _ _ ‹_›) | noerr_close

theorem ne_expireat : NoErrReply Cmd.expireat := by
  intro ctx args cis o h
  unfold Cmd.expireat at h
  first | (first | exact ne_incrbyCore _ ‹_› | exact ne_expireatCore _ ‹_› | exact ne_ttlCore _ ‹_› | exact ne_moveCore _ ‹_› | exact ne_zincrbyCore _ ‹_› | exact ne_zremCore _ ‹_› | exact ne_zrangebylexGen _ ‹_› | exact ne_zrangebyscoreGen _ ‹_› | exact ne_listPop _ _ _ _ _ ‹_› | exact ne_setopRead _ _ _ _ _ ‹_› | exact ne_setopStore _ _ _ _ _ ‹_› | exact ne_zrangeGen _ _ _ _ _ ‹_›) | skip
  noerr_split
  all_goals first | (first | exact ne_incrbyCore _ ‹_› | exact ne_expireatCore _ ‹_› | exact ne_ttlCore _ ‹_› | exact ne_moveCore _ ‹_› | exact ne_zincrbyCore _ ‹_› | exact ne_zremCore _ ‹_› | exact ne_zrangebylexGen _ ‹_› | exact ne_zrangebyscoreGen _ ‹_› | exact ne_listPop _ _ _ _ _ ‹_› | exact ne_setopRead _ _ _ _ _ ‹_› | exact ne_setopStore _ _ _ _ _ ‹_› | exact ne_zrangeGen _ _ _ _ _ ‹_›) | noerr_close

theorem ne_get : NoErrReply Cmd.get := by
  intro ctx args cis o h
  unfold Cmd.get at h
  first | (first | exact ne_incrbyCore _ ‹_› | exact ne_expireatCore _ ‹_› | exact ne_ttlCore _ ‹_› | exact ne_moveCore _ ‹_› | exact ne_zincrbyCore _ ‹_› | exact ne_zremCore _ ‹_› | exact ne_zrangebylexGen _ ‹_› | exact ne_zrangebyscoreGen _ ‹_› | exact ne_listPop _ _ _ _ _ ‹_› | exact ne_setopRead _ _ _ _ _ ‹_› | exact ne_setopStore _ _ _ _ _ ‹_› | exact ne_zrangeGen _ _ _ _ _ ‹_›) | skip
  noerr_split
  all_goals first | (first | exact ne_incrbyCore _ ‹_› | exact ne_expireatCore _ ‹_› | exact ne_ttlCore _ ‹_› | exact ne_moveCore _ ‹_› | exact ne_zincrbyCore _ ‹_› | exact ne_zremCore _ ‹_› | exact ne_zrangebylexGen _ ‹_› | exact ne_zrangebyscoreGen _ ‹_› | exact ne_listPop _ _ _ _ _ ‹_› | exact ne_setopRead _ _ _ _ _ ‹_› | exact ne_setopStore _ _ _ _ _ ‹_› | exact ne_zrangeGen _ _ _ _ _ ‹_›) | noerr_close

theorem ne_getbit : NoErrReply Cmd.getbit := by
  intro ctx args cis o h
  unfold Cmd.getbit at h
  first | (first | exact ne_incrbyCore _ ‹_› | exact ne_expireatCore _ ‹_› | exact ne_ttlCore _ ‹_› | exact ne_moveCore _ ‹_› | exact ne_zincrbyCore _ ‹_› | exact ne_zremCore _ ‹_› | exact ne_zrangebylexGen _ ‹_› | exact ne_zrangebyscoreGen _ ‹_› | exact ne_listPop _ _ _ _ _ ‹_› | exact ne_setopRead _ _ _ _ _ ‹_› | exact ne_setopStore _ _ _ _ _ ‹_› | exact ne_zrangeGen _ _ _ _ _ ‹_›) | skip
  noerr_split
  all_goals first | (first | exact ne_incrbyCore _ ‹_› | exact ne_expireatCore _ ‹_› | exact ne_ttlCore _ ‹_› | exact ne_moveCore _ ‹_› | exact ne_zincrbyCore _ ‹_› | exact ne_zremCore _ ‹_› | exact ne_zrangebylexGen _ ‹_› | exact ne_zrangebyscoreGen _ ‹_› | exact ne_listPop _ _ _ _ _ ‹_› | exact ne_setopRead _ _ _ _ _ ‹_› | exact ne_setopStore _ _ _ _ _ ‹_› | exact ne_zrangeGen _ _ _ _ _ ‹_›) | noerr_close

theorem ne_getrange : NoErrReply Cmd.getrange := by
  intro ctx args cis o h
  unfold Cmd.getrange at h
  first | (first | exact ne_incrbyCore _ ‹_› | exact ne_expireatCore _ ‹_› | exact ne_ttlCore _ ‹_› | exact ne_moveCore _ ‹_› | exact ne_zincrbyCore _ ‹_› | exact ne_zremCore _ ‹_› | exact ne_zrangebylexGen _ ‹_› | exact ne_zrangebyscoreGen _ ‹_› | exact ne_listPop _ _ _ _ _ ‹_› | exact ne_setopRead _ _ _ _ _ ‹_› | exact ne_setopStore _ _ _ _ _ ‹_› | exact ne_zrangeGen _ _ _ _ _ ‹_›) | skip
  noerr_split
  all_goals first | (first | exact ne_incrbyCore _ ‹_› | exact ne_expireatCore _ ‹_› | exact ne_ttlCore _ ‹_› | exact ne_moveCore _ ‹_› | exact ne_zincrbyCore _ ‹_› | exact ne_zremCore _ ‹_› | exact ne_zrangebylexGen _ ‹_› | exact ne_zrangebyscoreGen _ ‹_› | exact ne_listPop _ _ _ _ _ ‹_› | exact ne_setopRead _ _ _ _ _ ‹_› | exact ne_setopStore _ _ _ _ _ ‹_› | exact ne_zrangeGen _ _ _ _ _ ‹_›) | noerr_close

theorem ne_getset : NoErrReply Cmd.getset := by
  intro ctx args cis o h
  unfold Cmd.getset at h
  first | (first | exact ne_incrbyCore _ ‹_› | exact ne_expireatCore _ ‹_› | exact ne_ttlCore _ ‹_› | exact ne_moveCore _ ‹_› | exact ne_zincrbyCore _ ‹_› | exact ne_zremCore _ ‹_› | exact ne_zrangebylexGen _ ‹_› | exact ne_zrangebyscoreGen _ ‹_› | exact ne_listPop _ _ _ _ _ ‹_› | exact ne_setopRead _ _ _ _ _ ‹_› | exact ne_setopStore _ _ _ _ _ ‹_› | exact ne_zrangeGen _ _ _ _ _ ‹_›) | skip
  noerr_split
  all_goals first | (first | exact ne_incrbyCore _ ‹_› | exact ne_expireatCore _ ‹_› | exact ne_ttlCore _ ‹_› | exact ne_moveCore _ ‹_› | exact ne_zincrbyCore _ ‹_› | exact ne_zremCore _ ‹_› | exact ne_zrangebylexGen _ ‹_› | exact ne_zrangebyscoreGen _ ‹_› | exact ne_listPop _ _ _ _ _ ‹_› | exact ne_setopRead _ _ _ _ _ ‹_› | exact ne_setopStore _ _ _ _ _ ‹_› | exact ne_zrangeGen _ _ _ _ _ ‹_›) | noerr_close

theorem ne_hdel : NoErrReply Cmd.hdel := by
  intro ctx args cis o h
  unfold Cmd.hdel at h
  first | (first | exact ne_incrbyCore _ ‹_› | exact ne_expireatCore _ ‹_› | exact ne_ttlCore _ ‹_› | exact ne_moveCore _ ‹_› | exact ne_zincrbyCore _ ‹_› | exact ne_zremCore _ ‹_› | exact ne_zrangebylexGen _ ‹_› | exact ne_zrangebyscoreGen _ ‹_› | exact ne_listPop _ _ _ _ _ ‹_› | exact ne_setopRead _ _ _ _ _ ‹_› | exact ne_setopStore _ _ _ _ _ ‹_› | exact ne_zrangeGen _ _ _ _ _ ‹_›) | skip
  noerr_split
  all_goals first | (first | exact ne_incrbyCore _ ‹_› | exact ne_expireatCore _ ‹_› | exact ne_ttlCore _ ‹_› | exact ne_moveCore _ ‹_› | exact ne_zincrbyCore _ ‹_› | exact ne_zremCore _ ‹_› | exact ne_zrangebylexGen _ ‹_› | exact ne_zrangebyscoreGen _ ‹_› | exact ne_listPop _ _ _ _ _ ‹_› | exact ne_setopRead _ _ _ _ _ ‹_› | exact ne_setopStore _ _ _ _ _ ‹_› | exact ne_zrangeGen _ _ _ _ _ ‹_›) | noerr_close

theorem ne_hexists : NoErrReply Cmd.hexists := by
  intro ctx args cis o h
  unfold Cmd.hexists at h
  first | (first | exact ne_incrbyCore _ ‹_› | exact ne_expireatCore _ ‹_› | exact ne_ttlCore _ ‹_› | exact ne_moveCore _ ‹_› | exact ne_zincrbyCore _ ‹_› | exact ne_zremCore _ ‹_› | exact ne_zrangebylexGen _ ‹_› | exact ne_zrangebyscoreGen _ ‹_› | exact ne_listPop _ _ _ _ _ ‹_› | exact ne_setopRead _ _ _ _ _ ‹_› | exact ne_setopStore _ _ _ _ _ ‹_› | exact ne_zrangeGen _ _ _ _ _ ‹_›) | skip
  noerr_split
  all_goals first | (first | exact ne_incrbyCore _ ‹_› | exact ne_expireatCore _ ‹_› | exact ne_ttlCore _ ‹_› | exact ne_moveCore _ ‹_› | exact ne_zincrbyCore _ ‹_› | exact ne_zremCore _ ‹_› | exact ne_zrangebylexGen _ ‹_› | exact ne_zrangebyscoreGen _ ‹_› | exact ne_listPop _ _ _ _ _ ‹_› | exact ne_setopRead _ _ _ _ _ ‹_› | exact ne_setopStore _ _ _ _ _ ‹_› | exact ne_zrangeGen _ _ _ _ _ ‹_›) | noerr_close

theorem ne_hget : NoErrReply Cmd.hget := by
  intro ctx args cis o h
  unfold Cmd.hget at h
  first | (first | exact ne_incrbyCore _ ‹_› | exact ne_expireatCore _ ‹_› | exact ne_ttlCore _ ‹_› | exact ne_moveCore _ ‹_› | exact ne_zincrbyCore _ ‹_› | exact ne_zremCore _ ‹_› | exact ne_zrangebylexGen _ ‹_› | exact ne_zrangebyscoreGen _ ‹_› | exact ne_listPop _ _ _ _ _ ‹_› | exact ne_setopRead _ _ _ _ _ ‹_› | exact ne_setopStore _ _ _ _ _ ‹_› | exact ne_zrangeGen _ _ _ _ _ ‹_›) | skip
  noerr_split
  all_goals first | (first | exact ne_incrbyCore _ ‹_› | exact ne_expireatCore _ ‹_› | exact ne_ttlCore _ ‹_› | exact ne_moveCore _ ‹_› | exact ne_zincrbyCore _ ‹_› | exact ne_zremCore _ ‹_› | exact ne_zrangebylexGen _ ‹_› | exact ne_zrangebyscoreGen _ ‹_› | exact ne_listPop _ _ _ _ _ ‹_› | exact ne_setopRead _ _ _ _ _ ‹_› | exact ne_setopStore _ _ _ _ _ ‹_› | exact ne_zrangeGen _ _ _ _ _ ‹_›) | noerr_close

theorem ne_hgetall : NoErrReply Cmd.hgetall := by
  intro ctx args cis o h
  unfold Cmd.hgetall at h
  first | (first | exact ne_incrbyCore _ ‹_› | exact ne_expireatCore _ ‹_› | exact ne_ttlCore _ ‹_› | exact ne_moveCore _ ‹_› | exact ne_zincrbyCore _ ‹_› | exact ne_zremCore _ ‹_› | exact ne_zrangebylexGen _ ‹_› | exact ne_zrangebyscoreGen _ ‹_› | exact ne_listPop _ _ _ _ _ ‹_› | exact ne_setopRead _ _ _ _ _ ‹_› | exact ne_setopStore _ _ _ _ _ ‹_› | exact ne_zrangeGen _ _ _ _ _ ‹_›) | skip
  noerr_split
  all_goals first | (first | exact ne_incrbyCore _ ‹_› | exact ne_expireatCore _ ‹_› | exact ne_ttlCore _ ‹_› | exact ne_moveCore _ ‹_› | exact ne_zincrbyCore _ ‹_› | exact ne_zremCore _ ‹_› | exact ne_zrangebylexGen _ ‹_› | exact ne_zrangebyscoreGen _ ‹_› | exact ne_listPop _ _ _ _ _ ‹_› | exact ne_setopRead _ _ _ _ _ ‹_› | exact ne_setopStore _ _ _ _ _ ‹_› | exact ne_zrangeGen _ _ _ _ _ ‹_›) | noerr_close

theorem ne_hincrby : NoErrReply Cmd.hincrby := by
  intro ctx args cis o h
  unfold Cmd.hincrby at h
  first | (first | exact ne_incrbyCore _ ‹_› | exact ne_expireatCore _ ‹_› | exact ne_ttlCore _ ‹_› | exact ne_moveCore _ ‹_› | exact ne_zincrbyCore _ ‹_› | exact ne_zremCore _ ‹_› | exact ne_zrangebylexGen _ ‹_› | exact ne_zrangebyscoreGen _ ‹_› | exact ne_listPop _ _ _ _ _ ‹_› | exact ne_setopRead _ _ _ _ _ ‹_› | exact ne_setopStore _ _ _ _ _ ‹_› | exact ne_zrangeGen _ _ _ _ _ ‹_›) | skip
  noerr_split
  all_goals first | (first | exact ne_incrbyCore _ ‹_› | exact ne_expireatCore _ ‹_› | exact ne_ttlCore _ ‹_› | exact ne_moveCore _ ‹_› | exact ne_zincrbyCore _ ‹_› | exact ne_zremCore _ ‹_› | exact ne_zrangebylexGen _ ‹_› | exact ne_zrangebyscoreGen _ ‹_› | exact ne_listPop _ _ _ _ _ ‹_› | exact ne_setopRead _ _ _ _ _ ‹_› | exact ne_setopStore _ _ _ _ _ ‹_› | exact ne_zrangeGen _ _ _ _ _ ‹_›) | noerr_close

theorem ne_hincrbyfloat : NoErrReply Cmd.hincrbyfloat := by
  intro ctx args cis o h
  unfold Cmd.hincrbyfloat at h
  first | (first | exact ne_incrbyCore _ ‹_› | exact ne_expireatCore _ ‹_› | exact ne_ttlCore _ ‹_› | exact ne_moveCore _ ‹_› | exact ne_zincrbyCore _ ‹_› | exact ne_zremCore _ ‹_› | exact ne_zrangebylexGen _ ‹_› | exact ne_zrangebyscoreGen _ ‹_› | exact ne_listPop _ _ _ _ _ ‹_› | exact ne_setopRead _ _ _ _ _ ‹_› | exact ne_setopStore _ _ _ _ _ ‹_› | exact ne_zrangeGen _ _ _ _ _ ‹_›) | skip
  noerr_split
  all_goals first | (first | exact ne_incrbyCore _ ‹_› | exact ne_expireatCore _ ‹_› | exact ne_ttlCore _ ‹_› | exact ne_moveCore _ ‹_› | exact ne_zincrbyCore _ ‹_› | exact ne_zremCore _ ‹_› | exact ne_zrangebylexGen _ ‹_› | exact ne_zrangebyscoreGen _ ‹_› | exact ne_listPop _ _ _ _ _ ‹_› | exact ne_setopRead _ _ _ _ _ ‹_› | exact ne_setopStore _ _ _ _ _ ‹_› | exact ne_zrangeGen _ _ _ _ _ ‹_›) | noerr_close

theorem ne_hkeys : NoErrReply Cmd.hkeys := by
  intro ctx args cis o h
  unfold Cmd.hkeys at h
  first | (first | exact ne_incrbyCore _ ‹_› | exact ne_expireatCore _ ‹_› | exact ne_ttlCore _ ‹_› | exact ne_moveCore _ ‹_› | exact ne_zincrbyCore _ ‹_› | exact ne_zremCore _ ‹_› | exact ne_zrangebylexGen _ ‹_› | exact ne_zrangebyscoreGen _ ‹_› | exact ne_listPop _ _ _ _ _ ‹_› | exact ne_setopRead _ _ _ _ _ ‹_› | exact ne_setopStore _ _ _ _ _ ‹_› | exact ne_zrangeGen _ _ _ _ _ ‹_›) | skip
  noerr_split
  all_goals first | (first | exact ne_incrbyCore _ ‹_› | exact ne_expireatCore _ ‹_› | exact ne_ttlCore _ ‹_› | exact ne_moveCore _ ‹_› | exact ne_zincrbyCore _ ‹_› | exact ne_zremCore _ ‹_› | exact ne_zrangebylexGen _ ‹_› | exact ne_zrangebyscoreGen _ ‹_› | exact ne_listPop _ _ _ _ _ ‹_› | exact ne_setopRead _ _ _ _ _ ‹_› | exact ne_setopStore _ _ _ _ _ ‹_› | exact ne_zrangeGen _ _ _ _ _ ‹_›) | noerr_close

theorem ne_hlen : NoErrReply Cmd.hlen := by
  intro ctx args cis o h
  unfold Cmd.hlen at h
  first | (first | exact ne_incrbyCore _ ‹_› | exact ne_expireatCore _ ‹_› | exact ne_ttlCore _ ‹_› | exact ne_moveCore _ ‹_› | exact ne_zincrbyCore _ ‹_› | exact ne_zremCore _ ‹_› | exact ne_zrangebylexGen _ ‹_› | exact ne_zrangebyscoreGen _ ‹_› | exact ne_listPop _ _ _ _ _ ‹_› | exact ne_setopRead _ _ _ _ _ ‹_› | exact ne_setopStore _ _ _ _ _ ‹_› | exact ne_zrangeGen _ _ _ _ _ ‹_›) | skip
  noerr_split
  all_goals first | (first | exact ne_incrbyCore _ ‹_› | exact ne_expireatCore _ ‹_› | exact ne_ttlCore _ ‹_› | exact ne_moveCore _ ‹_› | exact ne_zincrbyCore _ ‹_› | exact ne_zremCore _ ‹_› | exact ne_zrangebylexGen _ ‹_› | exact ne_zrangebyscoreGen _ ‹_› | exact ne_listPop _ _ _ _ _ ‹_› | exact ne_setopRead _ _ _ _ _ ‹_› | exact ne_setopStore _ _ _ _ _ ‹_› | exact ne_zrangeGen _ _ _ _ _ ‹_›) | noerr_close

theorem ne_hmget : NoErrReply Cmd.hmget := by
  intro ctx args cis o h
  unfold Cmd.hmget at h
  first | (first | exact ne_incrbyCore _ ‹_› | exact ne_expireatCore _ ‹_› | exact ne_ttlCore _ ‹_› | exact ne_moveCore _ ‹_› | exact ne_zincrbyCore _ ‹_› | exact ne_zremCore _ ‹_› | exact ne_zrangebylexGen _ ‹_› | exact ne_zrangebyscoreGen _ ‹_› | exact ne_listPop _ _ _ _ _ ‹_› | exact ne_setopRead _ _ _ _ _ ‹_› | exact ne_setopStore _ _ _ _ _ ‹_› | exact ne_zrangeGen _ _ _ _ _ ‹_›) | skip
  noerr_split
  all_goals first | (first | exact ne_incrbyCore _ ‹_› | exact ne_expireatCore _ ‹_› | exact ne_ttlCore _ ‹_› | exact ne_moveCore _ ‹_› | exact ne_zincrbyCore _ ‹_› | exact ne_zremCore _ ‹_› | exact ne_zrangebylexGen _ ‹_› | exact ne_zrangebyscoreGen _ ‹_› | exact ne_listPop _ _ _ _ _ ‹_› | exact ne_setopRead _ _ _ _ _ ‹_› | exact ne_setopStore _ _ _ _ _ ‹_› | exact ne_zrangeGen _ _ _ _ _ ‹_›) | noerr_close

theorem ne_hmset : NoErrReply Cmd.hmset := by
  intro ctx args cis o h
  unfold Cmd.hmset at h
  first | (first | exact ne_incrbyCore _ ‹_› | exact ne_expireatCore _ ‹_› | exact ne_ttlCore _ ‹_› | exact ne_moveCore _ ‹_› | exact ne_zincrbyCore _ ‹_› | exact ne_zremCore _ ‹_› | exact ne_zrangebylexGen _ ‹_› | exact ne_zrangebyscoreGen _ ‹_› | exact ne_listPop _ _ _ _ _ ‹_› | exact ne_setopRead _ _ _ _ _ ‹_› | exact ne_setopStore _ _ _ _ _ ‹_› | exact ne_zrangeGen _ _ _ _ _ ‹_›) | skip
  noerr_split
  all_goals first | (first | exact ne_incrbyCore _ ‹_› | exact ne_expireatCore _ ‹_› | exact ne_ttlCore _ ‹_› | exact ne_moveCore _ ‹_› | exact ne_zincrbyCore _ ‹_› | exact ne_zremCore _ ‹_› | exact ne_zrangebylexGen _ ‹_› | exact ne_zrangebyscoreGen _ ‹_› | exact ne_listPop _ _ _ _ _ ‹_› | exact ne_setopRead _ _ _ _ _ ‹_› | exact ne_setopStore _ _ _ _ _ ‹_› | exact ne_zrangeGen _ _ _ _ _ ‹_›) | noerr_close

theorem ne_hscan : NoErrReply Cmd.hscan := by
  intro ctx args cis o h
  unfold Cmd.hscan at h
  split at h
  · simp only [] at h
    split at h
    · obtain ⟨xs, rfl⟩ := scanReply_arr ‹Cmd.scanReply _ _ _ _ _ _ _ = _›
      simp only [FR.ret, Except.ok.injEq] at h
      subst h
      rfl
    · cases h
  · cases h

theorem ne_hset : NoErrReply Cmd.hset := by
  intro ctx args cis o h
  unfold Cmd.hset at h
  first | (first | exact ne_incrbyCore _ ‹_› | exact ne_expireatCore _ ‹_› | exact ne_ttlCore _ ‹_› | exact ne_moveCore _ ‹_› | exact ne_zincrbyCore _ ‹_› | exact ne_zremCore _ ‹_› | exact ne_zrangebylexGen _ ‹_› | exact ne_zrangebyscoreGen _ ‹_› | exact ne_listPop _ _ _ _ _ ‹_› | exact ne_setopRead _ _ _ _ _ ‹_› | exact ne_setopStore _ _ _ _ _ ‹_› | exact ne_zrangeGen _ _ _ _ _ ‹_›) | skip
  noerr_split
  all_goals first | (first | exact ne_incrbyCore _ ‹_› | exact ne_expireatCore _ ‹_› | exact ne_ttlCore _ ‹_› | exact ne_moveCore _ ‹_› | exact ne_zincrbyCore _ ‹_› | exact ne_zremCore _ ‹_› | exact ne_zrangebylexGen _ ‹_› | exact ne_zrangebyscoreGen _ ‹_› | exact ne_listPop _ _ _ _ _ ‹_› | exact ne_setopRead _ _ _ _ _ ‹_› | exact ne_setopStore _ _ _ _ _ ‹_› | exact ne_zrangeGen _ _ _ _ _ ‹_›) | noerr_close

theorem ne_hsetnx : NoErrReply Cmd.hsetnx := by
  intro ctx args cis o h
  unfold Cmd.hsetnx at h
  have hprev := ne_hset
  first | (first | exact ne_incrbyCore _ ‹_› | exact ne_expireatCore _ ‹_› | exact ne_ttlCore _ ‹_› | exact ne_moveCore _ ‹_› | exact ne_zincrbyCore _ ‹_› | exact ne_zremCore _ ‹_› | exact ne_zrangebylexGen _ ‹_› | exact ne_zrangebyscoreGen _ ‹_› | exact ne_listPop _ _ _ _ _ ‹_› | exact ne_setopRead _ _ _ _ _ ‹_› | exact ne_setopStore _ _ _ _ _ ‹_› | exact ne_zrangeGen _ _ _ _ _ ‹_›) | skip
  noerr_split
  all_goals first | (first | exact ne_incrbyCore _ ‹_› | exact ne_expireatCore _ ‹_› | exact ne_ttlCore _ ‹_› | exact ne_moveCore _ ‹_› | exact ne_zincrbyCore _ ‹_› | exact ne_zremCore _ ‹_› | exact ne_zrangebylexGen _ ‹_› | exact ne_zrangebyscoreGen _ ‹_› | exact ne_listPop _ _ _ _ _ ‹_› | exact ne_setopRead _ _ _ _ _ ‹_› | exact ne_setopStore _ _ _ _ _ ‹_› | exact ne_zrangeGen _ _ _ _ _ ‹_›) | noerr_close

theorem ne_hstrlen : NoErrReply Cmd.hstrlen := by
  intro ctx args cis o h
  unfold Cmd.hstrlen at h
  first | (first | exact ne_incrbyCore _ ‹_› | exact ne_expireatCore _ ‹_› | exact ne_ttlCore _ ‹_› | exact ne_moveCore _ ‹_› | exact ne_zincrbyCore _ ‹_› | exact ne_zremCore _ ‹_› | exact ne_zrangebylexGen _ ‹_› | exact ne_zrangebyscoreGen _ ‹_› | exact ne_listPop _ _ _ _ _ ‹_› | exact ne_setopRead _ _ _ _ _ ‹_› | exact ne_setopStore _ _ _ _ _ ‹_› | exact ne_zrangeGen _ _ _ _ _ ‹_›) | skip
  noerr_split
  all_goals first | (first | exact ne_incrbyCore _ ‹_› | exact ne_expireatCore _ ‹_› | exact ne_ttlCore _ ‹_› | exact ne_moveCore _ ‹_› | exact ne_zincrbyCore _ ‹_› | exact ne_zremCore _ ‹_› | exact ne_zrangebylexGen _ ‹_› | exact ne_zrangebyscoreGen _ ‹_› | exact ne_listPop _ _ _ _ _ ‹_› | exact ne_setopRead _ _ _ _ _ ‹_› | exact ne_setopStore _ _ _ _ _ ‹_› | exact ne_zrangeGen _ _ _ _ _ ‹_›) | noerr_close

theorem ne_hvals : NoErrReply Cmd.hvals := by
  intro ctx args cis o h
  unfold Cmd.hvals at h
  first | (first | exact ne_incrbyCore _ ‹_› | exact ne_expireatCore _ ‹_› | exact ne_ttlCore _ ‹_› | exact ne_moveCore _ ‹_› | exact ne_zincrbyCore _ ‹_› | exact ne_zremCore _ ‹_› | exact ne_zrangebylexGen _ ‹_› | exact ne_zrangebyscoreGen _ ‹_› | exact ne_listPop _ _ _ _ _ ‹_› | exact ne_setopRead _ _ _ _ _ ‹_› | exact ne_setopStore _ _ _ _ _ ‹_› | exact ne_zrangeGen _ _ _ _ _ ‹_›) | skip
  noerr_split
  all_goals first | (first | exact ne_incrbyCore _ ‹_› | exact ne_expireatCore _ ‹_› | exact ne_ttlCore _ ‹_› | exact ne_moveCore _ ‹_› | exact ne_zincrbyCore _ ‹_› | exact ne_zremCore _ ‹_› | exact ne_zrangebylexGen _ ‹_› | exact ne_zrangebyscoreGen _ ‹_› | exact ne_listPop _ _ _ _ _ ‹_› | exact ne_setopRead _ _ _ _ _ ‹_› | exact ne_setopStore _ _ _ _ _ ‹_› | exact ne_zrangeGen _ _ _ _ _ ‹_›) | noerr_close

theorem ne_incr : NoErrReply Cmd.incr := by
  intro ctx args cis o h
  unfold Cmd.incr at h
  first | (first | exact ne_incrbyCore _ ‹_› | exact ne_expireatCore _ ‹_› | exact ne_ttlCore _ ‹_› | exact ne_moveCore _ ‹_› | exact ne_zincrbyCore _ ‹_› | exact ne_zremCore _ ‹_› | exact ne_zrangebylexGen _ ‹_› | exact ne_zrangebyscoreGen _ ‹_› | exact ne_listPop _ _ _ _ _ ‹_› | exact ne_setopRead _ _ _ _ _ ‹_› | exact ne_setopStore _ _ _ _ _ ‹_› | exact ne_zrangeGen _ _ _ _ _ ‹_›) | skip
  noerr_split
  all_goals first | (first | exact ne_incrbyCore _ ‹_› | exact ne_expireatCore _ ‹_› | exact ne_ttlCore _ ‹_› | exact ne_moveCore _ ‹_› | exact ne_zincrbyCore _ ‹_› | exact ne_zremCore _ ‹_› | exact ne_zrangebylexGen _ ‹_› | exact ne_zrangebyscoreGen _ ‹_› | exact ne_listPop _ _ _ _ _ ‹_› | exact ne_setopRead _ _ _ _ _ ‹_› | exact ne_setopStore _ _ _ _ _ ‹_› | exact ne_zrangeGen _ _ _ _ _ ‹_›) | noerr_close

theorem ne_incrby : NoErrReply Cmd.incrby := by
  intro ctx args cis o h
  unfold Cmd.incrby at h
  first | (first | exact ne_incrbyCore _ ‹_› | exact ne_expireatCore _ ‹_› | exact ne_ttlCore _ ‹_› | exact ne_moveCore _ ‹_› | exact ne_zincrbyCore _ ‹_› | exact ne_zremCore _ ‹_› | exact ne_zrangebylexGen _ ‹_› | exact ne_zrangebyscoreGen _ ‹_› | exact ne_listPop _ _ _ _ _ ‹_› | exact ne_setopRead _ _ _ _ _ ‹_› | exact ne_setopStore _ _ _ _ _ ‹_› | exact ne_zrangeGen _ _ _ _ _ ‹_›) | skip
  noerr_split
  all_goals first | (first | exact ne_incrbyCore _ ‹_› | exact ne_expireatCore _ ‹_› | exact ne_ttlCore _ ‹_› | exact ne_moveCore _ ‹_› | exact ne_zincrbyCore _ ‹_› | exact ne_zremCore _ ‹_› | exact ne_zrangebylexGen _ ‹_› | exact ne_zrangebyscoreGen _ ‹_› | exact ne_listPop _ _ _ _ _ ‹_› | exact ne_setopRead _ _ _ _ _ ‹_› | exact ne_setopStore _ _ _ _ _ ‹_› | exact ne_zrangeGen _ _ _ _ _ ‹_›) | noerr_close

theorem ne_incrbyfloat : NoErrReply Cmd.incrbyfloat := by
  intro ctx args cis o h
  unfold Cmd.incrbyfloat at h
  first | (first | exact ne_incrbyCore _ ‹_› | exact ne_expireatCore _ ‹_› | exact ne_ttlCore _ ‹_› | exact ne_moveCore _ ‹_› | exact ne_zincrbyCore _ ‹_› | exact ne_zremCore _ ‹_› | exact ne_zrangebylexGen _ ‹_› | exact ne_zrangebyscoreGen _ ‹_› | exact ne_listPop _ _ _ _ _ ‹_› | exact ne_setopRead _ _ _ _ _ ‹_› | exact ne_setopStore _ _ _ _ _ ‹_› | exact ne_zrangeGen _ _ _ _ _ ‹_›) | skip
  noerr_split
  all_goals first | (first | exact ne_incrbyCore _ ‹_› | exact ne_expireatCore _ ‹_› | exact ne_ttlCore _ ‹_› | exact ne_moveCore _ ‹_› | exact ne_zincrbyCore _ ‹_› | exact ne_zremCore _ ‹_› | exact ne_zrangebylexGen _ ‹_› | exact ne_zrangebyscoreGen _ ‹_› | exact ne_listPop _ _ _ _ _ ‹_› | exact ne_setopRead _ _ _ _ _ ‹_› | exact ne_setopStore _ _ _ _ _ ‹_› | exact ne_zrangeGen _ _ _ _ _ ‹_›) | noerr_close

theorem ne_lindex : NoErrReply Cmd.lindex := by
  intro ctx args cis o h
  unfold Cmd.lindex at h
  first | (first | exact ne_incrbyCore _ ‹_› | exact ne_expireatCore _ ‹_› | exact ne_ttlCore _ ‹_› | exact ne_moveCore _ ‹_› | exact ne_zincrbyCore _ ‹_› | exact ne_zremCore _ ‹_› | exact ne_zrangebylexGen _ ‹_› | exact ne_zrangebyscoreGen _ ‹_› | exact ne_listPop _ _ _ _ _ ‹_› | exact ne_setopRead _ _ _ _ _ ‹_› | exact ne_setopStore _ _ _ _ _ ‹_› | exact ne_zrangeGen _ _ _ _ _ ‹_›) | skip
  noerr_split
  all_goals first | (first | exact ne_incrbyCore _ ‹_› | exact ne_expireatCore _ ‹_› | exact ne_ttlCore _ ‹_› | exact ne_moveCore _ ‹_› | exact ne_zincrbyCore _ ‹_› | exact ne_zremCore _ ‹_› | exact ne_zrangebylexGen _ ‹_› | exact ne_zrangebyscoreGen _ ‹_› | exact ne_listPop _ _ _ _ _ ‹_› | exact ne_setopRead _ _ _ _ _ ‹_› | exact ne_setopStore _ _ _ _ _ ‹_› | exact ne_zrangeGen _ _ _ _ _ ‹_›) | noerr_close

theorem ne_linsert : NoErrReply Cmd.linsert := by
  intro ctx args cis o h
  unfold Cmd.linsert at h
  first | (first | exact ne_incrbyCore _ ‹_› | exact ne_expireatCore _ ‹_› | exact ne_ttlCore _ ‹_› | exact ne_moveCore _ ‹_› | exact ne_zincrbyCore _ ‹_› | exact ne_zremCore _ ‹_› | exact ne_zrangebylexGen _ ‹_› | exact ne_zrangebyscoreGen _ ‹_› | exact ne_listPop _ _ _ _ _ ‹_› | exact ne_setopRead _ _ _ _ _ ‹_› | exact ne_setopStore _ _ _ _ _ ‹_› | exact ne_zrangeGen _ _ _ _ _ ‹_›) | skip
  noerr_split
  all_goals first | (first | exact ne_incrbyCore _ ‹_› | exact ne_expireatCore _ ‹_› | exact ne_ttlCore _ ‹_› | exact ne_moveCore _ ‹_› | exact ne_zincrbyCore _ ‹_› | exact ne_zremCore _ ‹_› | exact ne_zrangebylexGen _ ‹_› | exact ne_zrangebyscoreGen _ ‹_› | exact ne_listPop _ _ _ _ _ ‹_› | exact ne_setopRead _ _ _ _ _ ‹_› | exact ne_setopStore _ _ _ _ _ ‹_› | exact ne_zrangeGen _ _ _ _ _ ‹_›) | noerr_close

theorem ne_llen : NoErrReply Cmd.llen := by
  intro ctx args cis o h
  unfold Cmd.llen at h
  first | (first | exact ne_incrbyCore _ ‹_› | exact ne_expireatCore _ ‹_› | exact ne_ttlCore _ ‹_› | exact ne_moveCore _ ‹_› | exact ne_zincrbyCore _ ‹_› | exact ne_zremCore _ ‹_› | exact ne_zrangebylexGen _ ‹_› | exact ne_zrangebyscoreGen _ ‹_› | exact ne_listPop _ _ _ _ _ ‹_› | exact ne_setopRead _ _ _ _ _ ‹_› | exact ne_setopStore _ _ _ _ _ ‹_› | exact ne_zrangeGen _ _ _ _ _ ‹_›) | skip
  noerr_split
  all_goals first | (first | exact ne_incrbyCore _ ‹_› | exact ne_expireatCore _ ‹_› | exact ne_ttlCore _ ‹_› | exact ne_moveCore _ ‹_› | exact ne_zincrbyCore _ ‹_› | exact ne_zremCore _ ‹_› | exact ne_zrangebylexGen _ ‹_› | exact ne_zrangebyscoreGen _ ‹_› | exact ne_listPop _ _ _ _ _ ‹_› | exact ne_setopRead _ _ _ _ _ ‹_› | exact ne_setopStore _ _ _ _ _ ‹_› | exact ne_zrangeGen _ _ _ _ _ ‹_›) | noerr_close

theorem ne_lmove : NoErrReply Cmd.lmove := by
  intro ctx args cis o h
  unfold Cmd.lmove at h
  first | (first | exact ne_incrbyCore _ ‹_› | exact ne_expireatCore _ ‹_› | exact ne_ttlCore _ ‹_› | exact ne_moveCore _ ‹_› | exact ne_zincrbyCore _ ‹_› | exact ne_zremCore _ ‹_› | exact ne_zrangebylexGen _ ‹_› | exact ne_zrangebyscoreGen _ ‹_› | exact ne_listPop _ _ _ _ _ ‹_› | exact ne_setopRead _ _ _ _ _ ‹_› | exact ne_setopStore _ _ _ _ _ ‹_› | exact ne_zrangeGen _ _ _ _ _ ‹_›) | skip
  noerr_split
  all_goals first | (first | exact ne_incrbyCore _ ‹_› | exact ne_expireatCore _ ‹_› | exact ne_ttlCore _ ‹_› | exact ne_moveCore _ ‹_› | exact ne_zincrbyCore _ ‹_› | exact ne_zremCore _ ‹_› | exact ne_zrangebylexGen _ ‹_› | exact ne_zrangebyscoreGen _ ‹_› | exact ne_listPop _ _ _ _ _ ‹_› | exact ne_setopRead _ _ _ _ _ ‹_› | exact ne_setopStore _ _ _ _ _ ‹_› | exact ne_zrangeGen _ _ _ _ _ ‹_›) | noerr_close

theorem ne_lpop : NoErrReply Cmd.lpop := by
  intro ctx args cis o h
  unfold Cmd.lpop at h
  first | (first | exact ne_incrbyCore _ ‹_› | exact ne_expireatCore _ ‹_› | exact ne_ttlCore _ ‹_› | exact ne_moveCore _ ‹_› | exact ne_zincrbyCore _ ‹_› | exact ne_zremCore _ ‹_› | exact ne_zrangebylexGen _ ‹_› | exact ne_zrangebyscoreGen _ ‹_› | exact ne_listPop _ _ _ _ _ ‹_› | exact ne_setopRead _ _ _ _ _ ‹_› | exact ne_setopStore _ _ _ _ _ ‹_› | exact ne_zrangeGen _ _ _ _ _ ‹_›) | skip
  noerr_split
  all_goals first | (first | exact ne_incrbyCore _ ‹_› | exact ne_expireatCore _ ‹_› | exact ne_ttlCore _ ‹_› | exact ne_moveCore _ ‹_› | exact ne_zincrbyCore _ ‹_› | exact ne_zremCore _ ‹_› | exact ne_zrangebylexGen _ ‹_› | exact ne_zrangebyscoreGen _ ‹_› | exact ne_listPop _ _ _ _ _ ‹_› | exact ne_setopRead _ _ _ _ _ ‹_› | exact ne_setopStore _ _ _ _ _ ‹_› | exact ne_zrangeGen _ _ _ _ _ ‹_›) | noerr_close

theorem ne_lpush : NoErrReply Cmd.lpush := by
  intro ctx args cis o h
  unfold Cmd.lpush at h
  first | (first | exact ne_incrbyCore _ ‹_› | exact ne_expireatCore _ ‹_› | exact ne_ttlCore _ ‹_› | exact ne_moveCore _ ‹_› | exact ne_zincrbyCore _ ‹_› | exact ne_zremCore _ ‹_› | exact ne_zrangebylexGen _ ‹_› | exact ne_zrangebyscoreGen _ ‹_› | exact ne_listPop _ _ _ _ _ ‹_› | exact ne_setopRead _ _ _ _ _ ‹_› | exact ne_setopStore _ _ _ _ _ ‹_› | exact ne_zrangeGen _ _ _ _ _ ‹_›) | skip
  noerr_split
  all_goals first | (first | exact ne_incrbyCore _ ‹_› | exact ne_expireatCore _ ‹_› | exact ne_ttlCore _ ‹_› | exact ne_moveCore _ ‹_› | exact ne_zincrbyCore _ ‹_› | exact ne_zremCore _ ‹_› | exact ne_zrangebylexGen _ ‹_› | exact ne_zrangebyscoreGen _ ‹_› | exact ne_listPop _ _ _ _ _ ‹_› | exact ne_setopRead _ _ _ _ _ ‹_› | exact ne_setopStore _ _ _ _ _ ‹_› | exact ne_zrangeGen _ _ _ _ _ ‹_›) | noerr_close

theorem ne_lpushx : NoErrReply Cmd.lpushx := by
  intro ctx args cis o h
  unfold Cmd.lpushx at h
  have hprev := ne_lpush
  first | (first | exact ne_incrbyCore _ ‹_› | exact ne_expireatCore _ ‹_› | exact ne_ttlCore _ ‹_› | exact ne_moveCore _ ‹_› | exact ne_zincrbyCore _ ‹_› | exact ne_zremCore _ ‹_› | exact ne_zrangebylexGen _ ‹_› | exact ne_zrangebyscoreGen _ ‹_› | exact ne_listPop _ _ _ _ _ ‹_› | exact ne_setopRead _ _ _ _ _ ‹_› | exact ne_setopStore _ _ _ _ _ ‹_› | exact ne_zrangeGen _ _ _ _ _ ‹_›) | skip
  noerr_split
  all_goals first | (first | exact ne_incrbyCore _ ‹_› | exact ne_expireatCore _ ‹_› | exact ne_ttlCore _ ‹_› | exact ne_moveCore _ ‹_› | exact ne_zincrbyCore _ ‹_› | exact ne_zremCore _ ‹_› | exact ne_zrangebylexGen _ ‹_› | exact ne_zrangebyscoreGen _ ‹_› | exact ne_listPop _ _ _ _ _ ‹_› | exact ne_setopRead _ _ _ _ _ ‹_› | exact ne_setopStore _ _ _ _ _ ‹_› | exact ne_zrangeGen _ _ _ _ _ ‹_›) | noerr_close

theorem ne_lrange : NoErrReply Cmd.lrange := by
  intro ctx args cis o h
  unfold Cmd.lrange at h
  first | (first | exact ne_incrbyCore _ ‹_› | exact ne_expireatCore _ ‹_› | exact ne_ttlCore _ ‹_› | exact ne_moveCore _ ‹_› | exact ne_zincrbyCore _ ‹_› | exact ne_zremCore _ ‹_› | exact ne_zrangebylexGen _ ‹_› | exact ne_zrangebyscoreGen _ ‹_› | exact ne_listPop _ _ _ _ _ ‹_› | exact ne_setopRead _ _ _ _ _ ‹_› | exact ne_setopStore _ _ _ _ _ ‹_› | exact ne_zrangeGen _ _ _ _ _ ‹_›) | skip
  noerr_split
  all_goals first | (first | exact ne_incrbyCore _ ‹_› | exact ne_expireatCore _ ‹_› | exact ne_ttlCore _ ‹_› | exact ne_moveCore _ ‹_› | exact ne_zincrbyCore _ ‹_› | exact ne_zremCore _ ‹_› | exact ne_zrangebylexGen _ ‹_› | exact ne_zrangebyscoreGen _ ‹_› | exact ne_listPop _ _ _ _ _ ‹_› | exact ne_setopRead _ _ _ _ _ ‹_› | exact ne_setopStore _ _ _ _ _ ‹_› | exact ne_zrangeGen _ _ _ _ _ ‹_›) | noerr_close

theorem ne_lrem : NoErrReply Cmd.lrem := by
  intro ctx args cis o h
  unfold Cmd.lrem at h
  first | (first | exact ne_incrbyCore _ ‹_› | exact ne_expireatCore _ ‹_› | exact ne_ttlCore _ ‹_› | exact ne_moveCore _ ‹_› | exact ne_zincrbyCore _ ‹_› | exact ne_zremCore _ ‹_› | exact ne_zrangebylexGen _ ‹_› | exact ne_zrangebyscoreGen _ ‹_› | exact ne_listPop _ _ _ _ _ ‹_› | exact ne_setopRead _ _ _ _ _ ‹_› | exact ne_setopStore _ _ _ _ _ ‹_› | exact ne_zrangeGen _ _ _ _ _ ‹_›) | skip
  noerr_split
  all_goals first | (first | exact ne_incrbyCore _ ‹_› | exact ne_expireatCore _ ‹_› | exact ne_ttlCore _ ‹_› | exact ne_moveCore _ ‹_› | exact ne_zincrbyCore _ ‹_› | exact ne_zremCore _ ‹_› | exact ne_zrangebylexGen _ ‹_› | exact ne_zrangebyscoreGen _ ‹_› | exact ne_listPop _ _ _ _ _ ‹_› | exact ne_setopRead _ _ _ _ _ ‹_› | exact ne_setopStore _ _ _ _ _ ‹_› | exact ne_zrangeGen _ _ _ _ _ ‹_›) | noerr_close

theorem ne_lset : NoErrReply Cmd.lset := by
  intro ctx args cis o h
  unfold Cmd.lset at h
  first | (first | exact ne_incrbyCore _ ‹_› | exact ne_expireatCore _ ‹_› | exact ne_ttlCore _ ‹_› | exact ne_moveCore _ ‹_› | exact ne_zincrbyCore _ ‹_› | exact ne_zremCore _ ‹_› | exact ne_zrangebylexGen _ ‹_› | exact ne_zrangebyscoreGen _ ‹_› | exact ne_listPop _ _ _ _ _ ‹_› | exact ne_setopRead _ _ _ _ _ ‹_› | exact ne_setopStore _ _ _ _ _ ‹_› | exact ne_zrangeGen _ _ _ _ _ ‹_›) | skip
  noerr_split
  all_goals first | (first | exact ne_incrbyCore _ ‹_› | exact ne_expireatCore _ ‹_› | exact ne_ttlCore _ ‹_› | exact ne_moveCore _ ‹_› | exact ne_zincrbyCore _ ‹_› | exact ne_zremCore _ ‹_› | exact ne_zrangebylexGen _ ‹_› | exact ne_zrangebyscoreGen _ ‹_› | exact ne_listPop _ _ _ _ _ ‹_› | exact ne_setopRead _ _ _ _ _ ‹_› | exact ne_setopStore _ _ _ _ _ ‹_› | exact ne_zrangeGen _ _ _ _ _ ‹_›) | noerr_close

theorem ne_ltrim : NoErrReply Cmd.ltrim := by
  intro ctx args cis o h
  unfold Cmd.ltrim at h
  first | (first | exact ne_incrbyCore _ ‹_› | exact ne_expireatCore _ ‹_› | exact ne_ttlCore _ ‹_› | exact ne_moveCore _ ‹_› | exact ne_zincrbyCore _ ‹_› | exact ne_zremCore _ ‹_› | exact ne_zrangebylexGen _ ‹_› | exact ne_zrangebyscoreGen _ ‹_› | exact ne_listPop _ _ _ _ _ ‹_› | exact ne_setopRead _ _ _ _ _ ‹_› | exact ne_setopStore _ _ _ _ _ ‹_› | exact ne_zrangeGen _ _ _ _ _ ‹_›) | skip
  noerr_split
  all_goals first | (first | exact ne_incrbyCore _ ‹_› | exact ne_expireatCore _ ‹_› | exact ne_ttlCore _ ‹_› | exact ne_moveCore _ ‹_› | exact ne_zincrbyCore _ ‹_› | exact ne_zremCore _ ‹_› | exact ne_zrangebylexGen _ ‹_› | exact ne_zrangebyscoreGen _ ‹_› | exact ne_listPop _ _ _ _ _ ‹_› | exact ne_setopRead _ _ _ _ _ ‹_› | exact ne_setopStore _ _ _ _ _ ‹_› | exact ne_zrangeGen _ _ _ _ _ ‹_›) | noerr_close

theorem ne_mget : NoErrReply Cmd.mget := by
  intro ctx args cis o h
  unfold Cmd.mget at h
  first | (first | exact ne_incrbyCore _ ‹_› | exact ne_expireatCore _ ‹_› | exact ne_ttlCore _ ‹_› | exact ne_moveCore _ ‹_› | exact ne_zincrbyCore _ ‹_› | exact ne_zremCore _ ‹_› | exact ne_zrangebylexGen _ ‹_› | exact ne_zrangebyscoreGen _ ‹_› | exact ne_listPop _ _ _ _ _ ‹_› | exact ne_setopRead _ _ _ _ _ ‹_› | exact ne_setopStore _ _ _ _ _ ‹_› | exact ne_zrangeGen _ _ _ _ _ ‹_›) | skip
  noerr_split
  all_goals first | (first | exact ne_incrbyCore _ ‹_› | exact ne_expireatCore _ ‹_› | exact ne_ttlCore _ ‹_› | exact ne_moveCore _ ‹_› | exact ne_zincrbyCore _ ‹_› | exact ne_zremCore _ ‹_› | exact ne_zrangebylexGen _ ‹_› | exact ne_zrangebyscoreGen _ ‹_› | exact ne_listPop _ _ _ _ _ ‹_› | exact ne_setopRead _ _ _ _ _ ‹_› | exact ne_setopStore _ _ _ _ _ ‹_› | exact ne_zrangeGen _ _ _ _ _ ‹_›) | noerr_close

theorem ne_mset : NoErrReply Cmd.mset := by
  intro ctx args cis o h
  unfold Cmd.mset at h
  first | (first | exact ne_incrbyCore _ ‹_› | exact ne_expireatCore _ ‹_› | exact ne_ttlCore _ ‹_› | exact ne_moveCore _ ‹_› | exact ne_zincrbyCore _ ‹_› | exact ne_zremCore _ ‹_› | exact ne_zrangebylexGen _ ‹_› | exact ne_zrangebyscoreGen _ ‹_› | exact ne_listPop _ _ _ _ _ ‹_› | exact ne_setopRead _ _ _ _ _ ‹_› | exact ne_setopStore _ _ _ _ _ ‹_› | exact ne_zrangeGen _ _ _ _ _ ‹_›) | skip
  noerr_split
  all_goals first | (first | exact ne_incrbyCore _ ‹_› | exact ne_expireatCore _ ‹_› | exact ne_ttlCore _ ‹_› | exact ne_moveCore _ ‹_› | exact ne_zincrbyCore _ ‹_› | exact ne_zremCore _ ‹_› | exact ne_zrangebylexGen _ ‹_› | exact ne_zrangebyscoreGen _ ‹_› | exact ne_listPop _ _ _ _ _ ‹_› | exact ne_setopRead _ _ _ _ _ ‹_› | exact ne_setopStore _ _ _ _ _ ‹_› | exact ne_zrangeGen _ _ _ _ _ ‹_›) | noerr_close

theorem ne_msetnx : NoErrReply Cmd.msetnx := by
  intro ctx args cis o h
  unfold Cmd.msetnx at h
  first | (first | exact ne_incrbyCore _ ‹_› | exact ne_expireatCore _ ‹_› | exact ne_ttlCore _ ‹_› | exact ne_moveCore _ ‹_› | exact ne_zincrbyCore _ ‹_› | exact ne_zremCore _ ‹_› | exact ne_zrangebylexGen _ ‹_› | exact ne_zrangebyscoreGen _ ‹_› | exact ne_listPop _ _ _ _ _ ‹_› | exact ne_setopRead _ _ _ _ _ ‹_› | exact ne_setopStore _ _ _ _ _ ‹_› | exact ne_zrangeGen _ _ _ _ _ ‹_›) | skip
  noerr_split
  all_goals first | (first | exact ne_incrbyCore _ ‹_› | exact ne_expireatCore _ ‹_› | exact ne_ttlCore _ ‹_› | exact ne_moveCore _ ‹_› | exact ne_zincrbyCore _ ‹_› | exact ne_zremCore _ ‹_› | exact ne_zrangebylexGen _ ‹_› | exact ne_zrangebyscoreGen _ ‹_› | exact ne_listPop _ _ _ _ _ ‹_› | exact ne_setopRead _ _ _ _ _ ‹_› | exact ne_setopStore _ _ _ _ _ ‹_› | exact ne_zrangeGen _ _ _ _ _ ‹_›) | noerr_close

theorem ne_persist : NoErrReply Cmd.persist := by
  intro ctx args cis o h
  unfold Cmd.persist at h
  first | (first | exact ne_incrbyCore _ ‹_› | exact ne_expireatCore _ ‹_› | exact ne_ttlCore _ ‹_› | exact ne_moveCore _ ‹_› | exact ne_zincrbyCore _ ‹_› | exact ne_zremCore _ ‹_› | exact ne_zrangebylexGen _ ‹_› | exact ne_zrangebyscoreGen _ ‹_› | exact ne_listPop _ _ _ _ _ ‹_› | exact ne_setopRead _ _ _ _ _ ‹_› | exact ne_setopStore _ _ _ _ _ ‹_› | exact ne_zrangeGen _ _ _ _ _ ‹_›) | skip
  noerr_split
  all_goals first | (first | exact ne_incrbyCore _ ‹_› | exact ne_expireatCore _ ‹_› | exact ne_ttlCore _ ‹_› | exact ne_moveCore _ ‹_› | exact ne_zincrbyCore _ ‹_› | exact ne_zremCore _ ‹_› | exact ne_zrangebylexGen _ ‹_› | exact ne_zrangebyscoreGen _ ‹_› | exact ne_listPop _ _ _ _ _ ‹_› | exact ne_setopRead _ _ _ _ _ ‹_› | exact ne_setopStore _ _ _ _ _ ‹_› | exact ne_zrangeGen _ _ _ _ _ ‹_›) | noerr_close

theorem ne_pexpire : NoErrReply Cmd.pexpire := by
  intro ctx args cis o h
  unfold Cmd.pexpire at h
  first | (first | exact ne_incrbyCore _ ‹_› | exact ne_expireatCore _ ‹_› | exact ne_ttlCore _ ‹_› | exact ne_moveCore _ ‹_› | exact ne_zincrbyCore _ ‹_› | exact ne_zremCore _ ‹_› | exact ne_zrangebylexGen _ ‹_› | exact ne_zrangebyscoreGen _ ‹_› | exact ne_listPop _ _ _ _ _ ‹_› | exact ne_setopRead _ _ _ _ _ ‹_› | exact ne_setopStore _ _ _ _ _ ‹_› | exact ne_zrangeGen _ _ _ _ _ ‹_›) | skip
  noerr_split
  all_goals first | (first | exact ne_incrbyCore _ ‹_› | exact ne_expireatCore _ ‹_› | exact ne_ttlCore _ ‹_› | exact ne_moveCore _ ‹_› | exact ne_zincrbyCore _ ‹_› | exact ne_zremCore _ ‹_› | exact ne_zrangebylexGen _ ‹_› | exact ne_zrangebyscoreGen _ ‹_› | exact ne_listPop _ _ _ _ _ ‹_› | exact ne_setopRead _ _ _ _ _ ‹_› | exact ne_setopStore _ _ _ _ _ ‹_› | exact ne_zrangeGen _ _ _ _ _ ‹_›) | noerr_close

theorem ne_pexpireat : NoErrReply Cmd.pexpireat := by
  intro ctx args cis o h
  unfold Cmd.pexpireat at h
  first | (first | exact ne_incrbyCore _ ‹_› | exact ne_expireatCore _ ‹_› | exact ne_ttlCore _ ‹_› | exact ne_moveCore _ ‹_› | exact ne_zincrbyCore _ ‹_› | exact ne_zremCore _ ‹_› | exact ne_zrangebylexGen _ ‹_› | exact ne_zrangebyscoreGen _ ‹_› | exact ne_listPop _ _ _ _ _ ‹_› | exact ne_setopRead _ _ _ _ _ ‹_› | exact ne_setopStore _ _ _ _ _ ‹_› | exact ne_zrangeGen _ _ _ _ _ ‹_›) | skip
  noerr_split
  all_goals first | (first | exact ne_incrbyCore _ ‹_› | exact ne_expireatCore _ ‹_› | exact ne_ttlCore _ ‹_› | exact ne_moveCore _ ‹_› | exact ne_zincrbyCore _ ‹_› | exact ne_zremCore _ ‹_› | exact ne_zrangebylexGen _ ‹_› | exact ne_zrangebyscoreGen _ ‹_› | exact ne_listPop _ _ _ _ _ ‹_› | exact ne_setopRead _ _ _ _ _ ‹_› | exact ne_setopStore _ _ _ _ _ ‹_› | exact ne_zrangeGen _ _ _ _ _ ‹_›) | noerr_close

theorem ne_pfadd : NoErrReply Cmd.pfadd := by
  intro ctx args cis o h
  unfold Cmd.pfadd at h
  first | (first | exact ne_incrbyCore _ ‹_› | exact ne_expireatCore _ ‹_› | exact ne_ttlCore _ ‹_› | exact ne_moveCore _ ‹_› | exact ne_zincrbyCore _ ‹_› | exact ne_zremCore _ ‹_› | exact ne_zrangebylexGen _ ‹_› | exact ne_zrangebyscoreGen _ ‹_› | exact ne_listPop _ _ _ _ _ ‹_› | exact ne_setopRead _ _ _ _ _ ‹_› | exact ne_setopStore _ _ _ _ _ ‹_› | exact ne_zrangeGen _ _ _ _ _ ‹_›) | skip
  noerr_split
  all_goals first | (first | exact ne_incrbyCore _ ‹_› | exact ne_expireatCore _ ‹_› | exact ne_ttlCore _ ‹_› | exact ne_moveCore _ ‹_› | exact ne_zincrbyCore _ ‹_› | exact ne_zremCore _ ‹_› | exact ne_zrangebylexGen _ ‹_› | exact ne_zrangebyscoreGen _ ‹_› | exact ne_listPop _ _ _ _ _ ‹_› | exact ne_setopRead _ _ _ _ _ ‹_› | exact ne_setopStore _ _ _ _ _ ‹_› | exact ne_zrangeGen _ _ _ _ _ ‹_›) | noerr_close

theorem ne_pfcount : NoErrReply Cmd.pfcount := by
  intro ctx args cis o h
  unfold Cmd.pfcount at h
  first | (first | exact ne_incrbyCore _ ‹_› | exact ne_expireatCore _ ‹_› | exact ne_ttlCore _ ‹_› | exact ne_moveCore _ ‹_› | exact ne_zincrbyCore _ ‹_› | exact ne_zremCore _ ‹_› | exact ne_zrangebylexGen _ ‹_› | exact ne_zrangebyscoreGen _ ‹_› | exact ne_listPop _ _ _ _ _ ‹_› | exact ne_setopRead _ _ _ _ _ ‹_› | exact ne_setopStore _ _ _ _ _ ‹_› | exact ne_zrangeGen _ _ _ _ _ ‹_›) | skip
  noerr_split
  all_goals first | (first | exact ne_incrbyCore _ ‹_› | exact ne_expireatCore _ ‹_› | exact ne_ttlCore _ ‹_› | exact ne_moveCore _ ‹_› | exact ne_zincrbyCore _ ‹_› | exact ne_zremCore _ ‹_› | exact ne_zrangebylexGen _ ‹_› | exact ne_zrangebyscoreGen _ ‹_› | exact ne_listPop _ _ _ _ _ ‹_› | exact ne_setopRead _ _ _ _ _ ‹_› | exact ne_setopStore _ _ _ _ _ ‹_› | exact ne_zrangeGen _ _ _ _ _ ‹_›) | noerr_close

theorem ne_pfmerge : NoErrReply Cmd.pfmerge := by
  intro ctx args cis o h
  unfold Cmd.pfmerge at h
  first | (first | exact ne_incrbyCore _ ‹_› | exact ne_expireatCore _ ‹_› | exact ne_ttlCore _ ‹_› | exact ne_moveCore _ ‹_› | exact ne_zincrbyCore _ ‹_› | exact ne_zremCore _ ‹_› | exact ne_zrangebylexGen _ ‹_› | exact ne_zrangebyscoreGen _ ‹_› | exact ne_listPop _ _ _ _ _ ‹_› | exact ne_setopRead _ _ _ _ _ ‹_› | exact ne_setopStore _ _ _ _ _ ‹_› | exact ne_zrangeGen _ _ _ _ _ ‹_›) | skip
  noerr_split
  all_goals first | (first | exact ne_incrbyCore _ ‹_› | exact ne_expireatCore _ ‹_› | exact ne_ttlCore _ ‹_› | exact ne_moveCore _ ‹_› | exact ne_zincrbyCore _ ‹_› | exact ne_zremCore _ ‹_› | exact ne_zrangebylexGen _ ‹_› | exact ne_zrangebyscoreGen _ ‹_› | exact ne_listPop _ _ _ _ _ ‹_› | exact ne_setopRead _ _ _ _ _ ‹_› | exact ne_setopStore _ _ _ _ _ ‹_› | exact ne_zrangeGen _ _ _ _ _ ‹_›) | noerr_close

theorem ne_psetex : NoErrReply Cmd.psetex := by
  intro ctx args cis o h
  unfold Cmd.psetex at h
  first | (first | exact ne_incrbyCore _ ‹_› | exact ne_expireatCore _ ‹_› | exact ne_ttlCore _ ‹_› | exact ne_moveCore _ ‹_› | exact ne_zincrbyCore _ ‹_› | exact ne_zremCore _ ‹_› | exact ne_zrangebylexGen _ ‹_› | exact ne_zrangebyscoreGen _ ‹_› | exact ne_listPop _ _ _ _ _ ‹_› | exact ne_setopRead _ _ _ _ _ ‹_› | exact ne_setopStore _ _ _ _ _ ‹_› | exact ne_zrangeGen _ _ _ _ _ ‹_›) | skip
  noerr_split
  all_goals first | (first | exact ne_incrbyCore _ ‹_› | exact ne_expireatCore _ ‹_› | exact ne_ttlCore _ ‹_› | exact ne_moveCore _ ‹_› | exact ne_zincrbyCore _ ‹_› | exact ne_zremCore _ ‹_› | exact ne_zrangebylexGen _ ‹_› | exact ne_zrangebyscoreGen _ ‹_› | exact ne_listPop _ _ _ _ _ ‹_› | exact ne_setopRead _ _ _ _ _ ‹_› | exact ne_setopStore _ _ _ _ _ ‹_› | exact ne_zrangeGen _ _ _ _ _ ‹_›) | noerr_close

theorem ne_pttl : NoErrReply Cmd.pttl := by
  intro ctx args cis o h
  unfold Cmd.pttl at h
  first | (first | exact ne_incrbyCore _ ‹_› | exact ne_expireatCore _ ‹_› | exact ne_ttlCore _ ‹_› | exact ne_moveCore _ ‹_› | exact ne_zincrbyCore _ ‹_› | exact ne_zremCore _ ‹_› | exact ne_zrangebylexGen _ ‹_› | exact ne_zrangebyscoreGen _ ‹_› | exact ne_listPop _ _ _ _ _ ‹_› | exact ne_setopRead _ _ _ _ _ ‹_› | exact ne_setopStore _ _ _ _ _ ‹_› | exact ne_zrangeGen _ _ _ _ _ ‹_›) | skip
  noerr_split
  all_goals first | (first | exact ne_incrbyCore _ ‹_› | exact ne_expireatCore _ ‹_› | exact ne_ttlCore _ ‹_› | exact ne_moveCore _ ‹_› | exact ne_zincrbyCore _ ‹_› | exact ne_zremCore _ ‹_› | exact ne_zrangebylexGen _ ‹_› | exact ne_zrangebyscoreGen _ ‹_› | exact ne_listPop _ _ _ _ _ ‹_› | exact ne_setopRead _ _ _ _ _ ‹_› | exact ne_setopStore _ _ _ _ _ ‹_› | exact ne_zrangeGen _ _ _ _ _ ‹_›) | noerr_close

theorem ne_rename : NoErrReply Cmd.rename := by
  intro ctx args cis o h
  unfold Cmd.rename at h
  first | (first | exact ne_incrbyCore _ ‹_› | exact ne_expireatCore _ ‹_› | exact ne_ttlCore _ ‹_› | exact ne_moveCore _ ‹_› | exact ne_zincrbyCore _ ‹_› | exact ne_zremCore _ ‹_› | exact ne_zrangebylexGen _ ‹_› | exact ne_zrangebyscoreGen _ ‹_› | exact ne_listPop _ _ _ _ _ ‹_› | exact ne_setopRead _ _ _ _ _ ‹_› | exact ne_setopStore _ _ _ _ _ ‹_› | exact ne_zrangeGen _ _ _ _ _ ‹_›) | skip
  noerr_split
  all_goals first | (first | exact ne_incrbyCore _ ‹_› | exact ne_expireatCore _ ‹_› | exact ne_ttlCore _ ‹_› | exact ne_moveCore _ ‹_› | exact ne_zincrbyCore _ ‹_› | exact ne_zremCore _ ‹_› | exact ne_zrangebylexGen _ ‹_› | exact ne_zrangebyscoreGen _ ‹_› | exact ne_listPop _ _ _ _ _ ‹_› | exact ne_setopRead _ _ _ _ _ ‹_› | exact ne_setopStore _ _ _ _ _ ‹_› | exact ne_zrangeGen _ _ _ _ _ ‹_›) | noerr_close

theorem ne_renamenx : NoErrReply Cmd.renamenx := by
  intro ctx args cis o h
  unfold Cmd.renamenx at h
  first | (first | exact ne_incrbyCore _ ‹_› | exact ne_expireatCore _ ‹_› | exact ne_ttlCore _ ‹_› | exact ne_moveCore _ ‹_› | exact ne_zincrbyCore _ ‹_› | exact ne_zremCore _ ‹_› | exact ne_zrangebylexGen _ ‹_› | exact ne_zrangebyscoreGen _ ‹_› | exact ne_listPop _ _ _ _ _ ‹_› | exact ne_setopRead _ _ _ _ _ ‹_› | exact ne_setopStore _ _ _ _ _ ‹_› | exact ne_zrangeGen _ _ _ _ _ ‹_›) | skip
  noerr_split
  all_goals first | (first | exact ne_incrbyCore _ ‹_› | exact ne_expireatCore _ ‹_› | exact ne_ttlCore _ ‹_› | exact ne_moveCore _ ‹_› | exact ne_zincrbyCore _ ‹_› | exact ne_zremCore _ ‹_› | exact ne_zrangebylexGen _ ‹_› | exact ne_zrangebyscoreGen _ ‹_› | exact ne_listPop _ _ _ _ _ ‹_› | exact ne_setopRead _ _ _ _ _ ‹_› | exact ne_setopStore _ _ _ _ _ ‹_› | exact ne_zrangeGen _ _ _ _ _ ‹_›) | noerr_close

theorem ne_restore : NoErrReply Cmd.restore := by
  intro ctx args cis o h
  unfold Cmd.restore at h
  first | (first | exact ne_incrbyCore _ ‹_› | exact ne_expireatCore _ ‹_› | exact ne_ttlCore _ ‹_› | exact ne_moveCore _ ‹_› | exact ne_zincrbyCore _ ‹_› | exact ne_zremCore _ ‹_› | exact ne_zrangebylexGen _ ‹_› | exact ne_zrangebyscoreGen _ ‹_› | exact ne_listPop _ _ _ _ _ ‹_› | exact ne_setopRead _ _ _ _ _ ‹_› | exact ne_setopStore _ _ _ _ _ ‹_› | exact ne_zrangeGen _ _ _ _ _ ‹_›) | skip
  noerr_split
  all_goals first | (first | exact ne_incrbyCore _ ‹_› | exact ne_expireatCore _ ‹_› | exact ne_ttlCore _ ‹_› | exact ne_moveCore _ ‹_› | exact ne_zincrbyCore _ ‹_› | exact ne_zremCore _ ‹_› | exact ne_zrangebylexGen _ ‹_› | exact ne_zrangebyscoreGen _ ‹_› | exact ne_listPop _ _ _ _ _ ‹_› | exact ne_setopRead _ _ _ _ _ ‹_› | exact ne_setopStore _ _ _ _ _ ‹_› | exact ne_zrangeGen _ _ _ _ _ ‹_›) | noerr_close

theorem ne_rpop : NoErrReply Cmd.rpop := by
  intro ctx args cis o h
  unfold Cmd.rpop at h
  first | (first | exact ne_incrbyCore _ ‹_› | exact ne_expireatCore _ ‹_› | exact ne_ttlCore _ ‹_› | exact ne_moveCore _ ‹_› | exact ne_zincrbyCore _ ‹_› | exact ne_zremCore _ ‹_› | exact ne_zrangebylexGen _ ‹_› | exact ne_zrangebyscoreGen _ ‹_› | exact ne_listPop _ _ _ _ _ ‹_› | exact ne_setopRead _ _ _ _ _ ‹_› | exact ne_setopStore _ _ _ _ _ ‹_› | exact ne_zrangeGen _ _ _ _ _ ‹_›) | skip
  noerr_split
  all_goals first | (first | exact ne_incrbyCore _ ‹_› | exact ne_expireatCore _ ‹_› | exact ne_ttlCore _ ‹_› | exact ne_moveCore _ ‹_› | exact ne_zincrbyCore _ ‹_› | exact ne_zremCore _ ‹_› | exact ne_zrangebylexGen _ ‹_› | exact ne_zrangebyscoreGen _ ‹_› | exact ne_listPop _ _ _ _ _ ‹_› | exact ne_setopRead _ _ _ _ _ ‹_› | exact ne_setopStore _ _ _ _ _ ‹_› | exact ne_zrangeGen _ _ _ _ _ ‹_›) | noerr_close

theorem ne_rpoplpush : NoErrReply Cmd.rpoplpush := by
  intro ctx args cis o h
  unfold Cmd.rpoplpush at h
  first | (first | exact ne_incrbyCore _ ‹_› | exact ne_expireatCore _ ‹_› | exact ne_ttlCore _ ‹_› | exact ne_moveCore _ ‹_› | exact ne_zincrbyCore _ ‹_› | exact ne_zremCore _ ‹_› | exact ne_zrangebylexGen _ ‹_› | exact ne_zrangebyscoreGen _ ‹_› | exact ne_listPop _ _ _ _ _ ‹_› | exact ne_setopRead _ _ _ _ _ ‹_› | exact ne_setopStore _ _ _ _ _ ‹_› | exact ne_zrangeGen _ _ _ _ _ ‹_›) | skip
  noerr_split
  all_goals first | (first | exact ne_incrbyCore _ ‹_› | exact ne_expireatCore _ ‹_› | exact ne_ttlCore _ ‹_› | exact ne_moveCore _ ‹_› | exact ne_zincrbyCore _ ‹_› | exact ne_zremCore _ ‹_› | exact ne_zrangebylexGen _ ‹_› | exact ne_zrangebyscoreGen _ ‹_› | exact ne_listPop _ _ _ _ _ ‹_› | exact ne_setopRead _ _ _ _ _ ‹_› | exact ne_setopStore _ _ _ _ _ ‹_› | exact ne_zrangeGen _ _ _ _ _ ‹_›) | noerr_close

theorem ne_rpush : NoErrReply Cmd.rpush := by
  intro ctx args cis o h
  unfold Cmd.rpush at h
  first | (first | exact ne_incrbyCore _ ‹_› | exact ne_expireatCore _ ‹_› | exact ne_ttlCore _ ‹_› | exact ne_moveCore _ ‹_› | exact ne_zincrbyCore _ ‹_› | exact ne_zremCore _ ‹_› | exact ne_zrangebylexGen _ ‹_› | exact ne_zrangebyscoreGen _ ‹_› | exact ne_listPop _ _ _ _ _ ‹_› | exact ne_setopRead _ _ _ _ _ ‹_› | exact ne_setopStore _ _ _ _ _ ‹_› | exact ne_zrangeGen _ _ _ _ _ ‹_›) | skip
  noerr_split
  all_goals first | (first | exact ne_incrbyCore _ ‹_› | exact ne_expireatCore _ ‹_› | exact ne_ttlCore _ ‹_› | exact ne_moveCore _ ‹_› | exact ne_zincrbyCore _ ‹_› | exact ne_zremCore _ ‹_› | exact ne_zrangebylexGen _ ‹_› | exact ne_zrangebyscoreGen _ ‹_› | exact ne_listPop _ _ _ _ _ ‹_› | exact ne_setopRead _ _ _ _ _ ‹_› | exact ne_setopStore _ _ _ _ _ ‹_› | exact ne_zrangeGen _ _ _ _ _ ‹_›) | noerr_close

theorem ne_rpushx : NoErrReply Cmd.rpushx := by
  intro ctx args cis o h
  unfold Cmd.rpushx at h
  have hprev := ne_rpush
  first | (first | exact ne_incrbyCore _ ‹_› | exact ne_expireatCore _ ‹_› | exact ne_ttlCore _ ‹_› | exact ne_moveCore _ ‹_› | exact ne_zincrbyCore _ ‹_› | exact ne_zremCore _ ‹_› | exact ne_zrangebylexGen _ ‹_› | exact ne_zrangebyscoreGen _ ‹_› | exact ne_listPop _ _ _ _ _ ‹_› | exact ne_setopRead _ _ _ _ _ ‹_› | exact ne_setopStore _ _ _ _ _ ‹_› | exact ne_zrangeGen _ _ _ _ _ ‹_›) | skip
  noerr_split
  all_goals first | (first | exact ne_incrbyCore _ ‹_› | exact ne_expireatCore _ ‹_› | exact ne_ttlCore _ ‹_› | exact ne_moveCore _ ‹_› | exact ne_zincrbyCore _ ‹_› | exact ne_zremCore _ ‹_› | exact ne_zrangebylexGen _ ‹_› | exact ne_zrangebyscoreGen _ ‹_› | exact ne_listPop _ _ _ _ _ ‹_› | exact ne_setopRead _ _ _ _ _ ‹_› | exact ne_setopStore _ _ _ _ _ ‹_› | exact ne_zrangeGen _ _ _ _ _ ‹_›) | noerr_close

theorem ne_sadd : NoErrReply Cmd.sadd := by
  intro ctx args cis o h
  unfold Cmd.sadd at h
  first | (first | exact ne_incrbyCore _ ‹_› | exact ne_expireatCore _ ‹_› | exact ne_ttlCore _ ‹_› | exact ne_moveCore _ ‹_› | exact ne_zincrbyCore _ ‹_› | exact ne_zremCore _ ‹_› | exact ne_zrangebylexGen _ ‹_› | exact ne_zrangebyscoreGen _ ‹_› | exact ne_listPop _ _ _ _ _ ‹_› | exact ne_setopRead _ _ _ _ _ ‹_› | exact ne_setopStore _ _ _ _ _ ‹_› | exact ne_zrangeGen _ _ _ _ _ ‹_›) | skip
  noerr_split
  all_goals first | (first | exact ne_incrbyCore _ ‹_› | exact ne_expireatCore _ ‹_› | exact ne_ttlCore _ ‹_› | exact ne_moveCore _ ‹_› | exact ne_zincrbyCore _ ‹_› | exact ne_zremCore _ ‹_› | exact ne_zrangebylexGen _ ‹_› | exact ne_zrangebyscoreGen _ ‹_› | exact ne_listPop _ _ _ _ _ ‹_› | exact ne_setopRead _ _ _ _ _ ‹_› | exact ne_setopStore _ _ _ _ _ ‹_› | exact ne_zrangeGen _ _ _ _ _ ‹_›) | noerr_close

theorem ne_scard : NoErrReply Cmd.scard := by
  intro ctx args cis o h
  unfold Cmd.scard at h
  first | (first | exact ne_incrbyCore _ ‹_› | exact ne_expireatCore _ ‹_› | exact ne_ttlCore _ ‹_› | exact ne_moveCore _ ‹_› | exact ne_zincrbyCore _ ‹_› | exact ne_zremCore _ ‹_› | exact ne_zrangebylexGen _ ‹_› | exact ne_zrangebyscoreGen _ ‹_› | exact ne_listPop _ _ _ _ _ ‹_› | exact ne_setopRead _ _ _ _ _ ‹_› | exact ne_setopStore _ _ _ _ _ ‹_› | exact ne_zrangeGen _ _ _ _ _ ‹_›) | skip
  noerr_split
  all_goals first | (first | exact ne_incrbyCore _ ‹_› | exact ne_expireatCore _ ‹_› | exact ne_ttlCore _ ‹_› | exact ne_moveCore _ ‹_› | exact ne_zincrbyCore _ ‹_› | exact ne_zremCore _ ‹_› | exact ne_zrangebylexGen _ ‹_› | exact ne_zrangebyscoreGen _ ‹_› | exact ne_listPop _ _ _ _ _ ‹_› | exact ne_setopRead _ _ _ _ _ ‹_› | exact ne_setopStore _ _ _ _ _ ‹_› | exact ne_zrangeGen _ _ _ _ _ ‹_›) | noerr_close

theorem ne_sdiff : NoErrReply Cmd.sdiff := by
  intro ctx args cis o h
  unfold Cmd.sdiff at h
  first | (first | exact ne_incrbyCore _ ‹_› | exact ne_expireatCore _ ‹_› | exact ne_ttlCore _ ‹_› | exact ne_moveCore _ ‹_› | exact ne_zincrbyCore _ ‹_› | exact ne_zremCore _ ‹_› | exact ne_zrangebylexGen _ ‹_› | exact ne_zrangebyscoreGen _ ‹_› | exact ne_listPop _ _ _ _ _ ‹_› | exact ne_setopRead _ _ _ _ _ ‹_› | exact ne_setopStore _ _ _ _ _ ‹_› | exact ne_zrangeGen _ _ _ _ _ ‹_›) | skip
  noerr_split
  all_goals first | (first | exact ne_incrbyCore _ ‹_› | exact ne_expireatCore _ ‹_› | exact ne_ttlCore _ ‹_› | exact ne_moveCore _ ‹_› | exact ne_zincrbyCore _ ‹_› | exact ne_zremCore _ ‹_› | exact ne_zrangebylexGen _ ‹_› | exact ne_zrangebyscoreGen _ ‹_› | exact ne_listPop _ _ _ _ _ ‹_› | exact ne_setopRead _ _ _ _ _ ‹_› | exact ne_setopStore _ _ _ _ _ ‹_› | exact ne_zrangeGen _ _ _ _ _ ‹_›) | noerr_close

theorem ne_sdiffstore : NoErrReply Cmd.sdiffstore := by
  intro ctx args cis o h
  unfold Cmd.sdiffstore at h
  first | (first | exact ne_incrbyCore _ ‹_› | exact ne_expireatCore _ ‹_› | exact ne_ttlCore _ ‹_› | exact ne_moveCore _ ‹_› | exact ne_zincrbyCore _ ‹_› | exact ne_zremCore _ ‹_› | exact ne_zrangebylexGen _ ‹_› | exact ne_zrangebyscoreGen _ ‹_› | exact ne_listPop _ _ _ _ _ ‹_› | exact ne_setopRead _ _ _ _ _ ‹_› | exact ne_setopStore _ _ _ _ _ ‹_› | exact ne_zrangeGen _ _ _ _ _ ‹_›) | skip
  noerr_split
  all_goals first | (first | exact ne_incrbyCore _ ‹_› | exact ne_expireatCore _ ‹_› | exact ne_ttlCore _ ‹_› | exact ne_moveCore _ ‹_› | exact ne_zincrbyCore _ ‹_› | exact ne_zremCore _ ‹_› | exact ne_zrangebylexGen _ ‹_› | exact ne_zrangebyscoreGen _ ‹_› | exact ne_listPop _ _ _ _ _ ‹_› | exact ne_setopRead _ _ _ _ _ ‹_› | exact ne_setopStore _ _ _ _ _ ‹_› | exact ne_zrangeGen _ _ _ _ _ ‹_›) | noerr_close

theorem ne_set : NoErrReply Cmd.set := by
  intro ctx args cis o h
  unfold Cmd.set at h
  split at h
  · split at h
    · cases h
    · simp only [] at h
      have hold : ∀ (g : Bool) (v : Option Value),
          (if g = true then (match v with | some (Value.str b) => Reply.bulk b | _ => Reply.nil) else Reply.nil).isErr
            = false := by
        intro g v
        split
        · split <;> rfl
        · rfl
      rename_i so _
      generalize ((if so.px.isSome = true then 1 else 0) + (if so.ex.isSome = true then 1 else 0) +
        (if so.keepttl = true then 1 else 0) : Nat) = nExp at h
      repeat' split at h
      all_goals first
        | (cases h; done)
        | exact ret_noErr h rfl
        | exact ret_noErr h (hold _ _)
        | (refine ret_noErr h ?_; split <;> first | exact hold _ _ | rfl)
  · cases h

theorem ne_setbit : NoErrReply Cmd.setbit := by
  intro ctx args cis o h
  unfold Cmd.setbit at h
  first | (first | exact ne_incrbyCore _ ‹_› | exact ne_expireatCore _ ‹_› | exact ne_ttlCore _ ‹_› | exact ne_moveCore _ ‹_› | exact ne_zincrbyCore _ ‹_› | exact ne_zremCore _ ‹_› | exact ne_zrangebylexGen _ ‹_› | exact ne_zrangebyscoreGen _ ‹_› | exact ne_listPop _ _ _ _ _ ‹_› | exact ne_setopRead _ _ _ _ _ ‹_› | exact ne_setopStore _ _ _ _ _ ‹_› | exact ne_zrangeGen _ _ _ _ _ ‹_›) | skip
  noerr_split
  all_goals first | (first | exact ne_incrbyCore _ ‹_› | exact ne_expireatCore _ ‹_› | exact ne_ttlCore _ ‹_› | exact ne_moveCore _ ‹_› | exact ne_zincrbyCore _ ‹_› | exact ne_zremCore _ ‹_› | exact ne_zrangebylexGen _ ‹_› | exact ne_zrangebyscoreGen _ ‹_› | exact ne_listPop _ _ _ _ _ ‹_› | exact ne_setopRead _ _ _ _ _ ‹_› | exact ne_setopStore _ _ _ _ _ ‹_› | exact ne_zrangeGen _ _ _ _ _ ‹_›) | noerr_close

theorem ne_setex : NoErrReply Cmd.setex := by
  intro ctx args cis o h
  unfold Cmd.setex at h
  first | (first | exact ne_incrbyCore _ ‹_› | exact ne_expireatCore _ ‹_› | exact ne_ttlCore _ ‹_› | exact ne_moveCore _ ‹_› | exact ne_zincrbyCore _ ‹_› | exact ne_zremCore _ ‹_› | exact ne_zrangebylexGen _ ‹_› | exact ne_zrangebyscoreGen _ ‹_› | exact ne_listPop _ _ _ _ _ ‹_› | exact ne_setopRead _ _ _ _ _ ‹_› | exact ne_setopStore _ _ _ _ _ ‹_› | exact ne_zrangeGen _ _ _ _ _ ‹_›) | skip
  noerr_split
  all_goals first | (first | exact ne_incrbyCore _ ‹_› | exact ne_expireatCore _ ‹_› | exact ne_ttlCore _ ‹_› | exact ne_moveCore _ ‹_› | exact ne_zincrbyCore _ ‹_› | exact ne_zremCore _ ‹_› | exact ne_zrangebylexGen _ ‹_› | exact ne_zrangebyscoreGen _ ‹_› | exact ne_listPop _ _ _ _ _ ‹_› | exact ne_setopRead _ _ _ _ _ ‹_› | exact ne_setopStore _ _ _ _ _ ‹_› | exact ne_zrangeGen _ _ _ _ _ ‹_›) | noerr_close

theorem ne_setnx : NoErrReply Cmd.setnx := by
  intro ctx args cis o h
  unfold Cmd.setnx at h
  first | (first | exact ne_incrbyCore _ ‹_› | exact ne_expireatCore _ ‹_› | exact ne_ttlCore _ ‹_› | exact ne_moveCore _ ‹_› | exact ne_zincrbyCore _ ‹_› | exact ne_zremCore _ ‹_› | exact ne_zrangebylexGen _ ‹_› | exact ne_zrangebyscoreGen _ ‹_› | exact ne_listPop _ _ _ _ _ ‹_› | exact ne_setopRead _ _ _ _ _ ‹_› | exact ne_setopStore _ _ _ _ _ ‹_› | exact ne_zrangeGen _ _ _ _ _ ‹_›) | skip
  noerr_split
  all_goals first | (first | exact ne_incrbyCore _ ‹_› | exact ne_expireatCore _ ‹_› | exact ne_ttlCore _ ‹_› | exact ne_moveCore _ ‹_› | exact ne_zincrbyCore _ ‹_› | exact ne_zremCore _ ‹_› | exact ne_zrangebylexGen _ ‹_› | exact ne_zrangebyscoreGen _ ‹_› | exact ne_listPop _ _ _ _ _ ‹_› | exact ne_setopRead _ _ _ _ _ ‹_› | exact ne_setopStore _ _ _ _ _ ‹_› | exact ne_zrangeGen _ _ _ _ _ ‹_›) | noerr_close

theorem ne_setrange : NoErrReply Cmd.setrange := by
  intro ctx args cis o h
  unfold Cmd.setrange at h
  first | (first | exact ne_incrbyCore _ ‹_› | exact ne_expireatCore _ ‹_› | exact ne_ttlCore _ ‹_› | exact ne_moveCore _ ‹_› | exact ne_zincrbyCore _ ‹_› | exact ne_zremCore _ ‹_› | exact ne_zrangebylexGen _ ‹_› | exact ne_zrangebyscoreGen _ ‹_› | exact ne_listPop _ _ _ _ _ ‹_› | exact ne_setopRead _ _ _ _ _ ‹_› | exact ne_setopStore _ _ _ _ _ ‹_› | exact ne_zrangeGen _ _ _ _ _ ‹_›) | skip
  noerr_split
  all_goals first | (first | exact ne_incrbyCore _ ‹_› | exact ne_expireatCore _ ‹_› | exact ne_ttlCore _ ‹_› | exact ne_moveCore _ ‹_› | exact ne_zincrbyCore _ ‹_› | exact ne_zremCore _ ‹_› | exact ne_zrangebylexGen _ ‹_› | exact ne_zrangebyscoreGen _ ‹_› | exact ne_listPop _ _ _ _ _ ‹_› | exact ne_setopRead _ _ _ _ _ ‹_› | exact ne_setopStore _ _ _ _ _ ‹_› | exact ne_zrangeGen _ _ _ _ _ ‹_›) | noerr_close

theorem ne_sinter : NoErrReply Cmd.sinter := by
  intro ctx args cis o h
  unfold Cmd.sinter at h
  first | (first | exact ne_incrbyCore _ ‹_› | exact ne_expireatCore _ ‹_› | exact ne_ttlCore _ ‹_› | exact ne_moveCore _ ‹_› | exact ne_zincrbyCore _ ‹_› | exact ne_zremCore _ ‹_› | exact ne_zrangebylexGen _ ‹_› | exact ne_zrangebyscoreGen _ ‹_› | exact ne_listPop _ _ _ _ _ ‹_› | exact ne_setopRead _ _ _ _ _ ‹_› | exact ne_setopStore _ _ _ _ _ ‹_› | exact ne_zrangeGen _ _ _ _ _ ‹_›) | skip
  noerr_split
  all_goals first | (first | exact ne_incrbyCore _ ‹_› | exact ne_expireatCore _ ‹_› | exact ne_ttlCore _ ‹_› | exact ne_moveCore _ ‹_› | exact ne_zincrbyCore _ ‹_› | exact ne_zremCore _ ‹_› | exact ne_zrangebylexGen _ ‹_› | exact ne_zrangebyscoreGen _ ‹_› | exact ne_listPop _ _ _ _ _ ‹_› | exact ne_setopRead _ _ _ _ _ ‹_› | exact ne_setopStore _ _ _ _ _ ‹_› | exact ne_zrangeGen _ _ _ _ _ ‹_›) | noerr_close

theorem ne_sinterstore : NoErrReply Cmd.sinterstore := by
  intro ctx args cis o h
  unfold Cmd.sinterstore at h
  first | (first | exact ne_incrbyCore _ ‹_› | exact ne_expireatCore _ ‹_› | exact ne_ttlCore _ ‹_› | exact ne_moveCore _ ‹_› | exact ne_zincrbyCore _ ‹_› | exact ne_zremCore _ ‹_› | exact ne_zrangebylexGen _ ‹_› | exact ne_zrangebyscoreGen _ ‹_› | exact ne_listPop _ _ _ _ _ ‹_› | exact ne_setopRead _ _ _ _ _ ‹_› | exact ne_setopStore _ _ _ _ _ ‹_› | exact ne_zrangeGen _ _ _ _ _ ‹_›) | skip
  noerr_split
  all_goals first | (first | exact ne_incrbyCore _ ‹_› | exact ne_expireatCore _ ‹_› | exact ne_ttlCore _ ‹_› | exact ne_moveCore _ ‹_› | exact ne_zincrbyCore _ ‹_› | exact ne_zremCore _ ‹_› | exact ne_zrangebylexGen _ ‹_› | exact ne_zrangebyscoreGen _ ‹_› | exact ne_listPop _ _ _ _ _ ‹_› | exact ne_setopRead _ _ _ _ _ ‹_› | exact ne_setopStore _ _ _ _ _ ‹_› | exact ne_zrangeGen _ _ _ _ _ ‹_›) | noerr_close

theorem ne_sismember : NoErrReply Cmd.sismember := by
  intro ctx args cis o h
  unfold Cmd.sismember at h
  first | (first | exact ne_incrbyCore _ ‹_› | exact ne_expireatCore _ ‹_› | exact ne_ttlCore _ ‹_› | exact ne_moveCore _ ‹_› | exact ne_zincrbyCore _ ‹_› | exact ne_zremCore _ ‹_› | exact ne_zrangebylexGen _ ‹_› | exact ne_zrangebyscoreGen _ ‹_› | exact ne_listPop _ _ _ _ _ ‹_› | exact ne_setopRead _ _ _ _ _ ‹_› | exact ne_setopStore _ _ _ _ _ ‹_› | exact ne_zrangeGen _ _ _ _ _ ‹_›) | skip
  noerr_split
  all_goals first | (first | exact ne_incrbyCore _ ‹_› | exact ne_expireatCore _ ‹_› | exact ne_ttlCore _ ‹_› | exact ne_moveCore _ ‹_› | exact ne_zincrbyCore _ ‹_› | exact ne_zremCore _ ‹_› | exact ne_zrangebylexGen _ ‹_› | exact ne_zrangebyscoreGen _ ‹_› | exact ne_listPop _ _ _ _ _ ‹_› | exact ne_setopRead _ _ _ _ _ ‹_› | exact ne_setopStore _ _ _ _ _ ‹_› | exact ne_zrangeGen _ _ _ _ _ ‹_›) | noerr_close

theorem ne_smembers : NoErrReply Cmd.smembers := by
  intro ctx args cis o h
  unfold Cmd.smembers at h
  first | (first | exact ne_incrbyCore _ ‹_› | exact ne_expireatCore _ ‹_› | exact ne_ttlCore _ ‹_› | exact ne_moveCore _ ‹_› | exact ne_zincrbyCore _ ‹_› | exact ne_zremCore _ ‹_› | exact ne_zrangebylexGen _ ‹_› | exact ne_zrangebyscoreGen _ ‹_› | exact ne_listPop _ _ _ _ _ ‹_› | exact ne_setopRead _ _ _ _ _ ‹_› | exact ne_setopStore _ _ _ _ _ ‹_› | exact ne_zrangeGen _ _ _ _ _ ‹_›) | skip
  noerr_split
  all_goals first | (first | exact ne_incrbyCore _ ‹_› | exact ne_expireatCore _ ‹_› | exact ne_ttlCore _ ‹_› | exact ne_moveCore _ ‹_› | exact ne_zincrbyCore _ ‹_› | exact ne_zremCore _ ‹_› | exact ne_zrangebylexGen _ ‹_› | exact ne_zrangebyscoreGen _ ‹_› | exact ne_listPop _ _ _ _ _ ‹_› | exact ne_setopRead _ _ _ _ _ ‹_› | exact ne_setopStore _ _ _ _ _ ‹_› | exact ne_zrangeGen _ _ _ _ _ ‹_›) | noerr_close

theorem ne_smismember : NoErrReply Cmd.smismember := by
  intro ctx args cis o h
  unfold Cmd.smismember at h
  first | (first | exact ne_incrbyCore _ ‹_› | exact ne_expireatCore _ ‹_› | exact ne_ttlCore _ ‹_› | exact ne_moveCore _ ‹_› | exact ne_zincrbyCore _ ‹_› | exact ne_zremCore _ ‹_› | exact ne_zrangebylexGen _ ‹_› | exact ne_zrangebyscoreGen _ ‹_› | exact ne_listPop _ _ _ _ _ ‹_› | exact ne_setopRead _ _ _ _ _ ‹_› | exact ne_setopStore _ _ _ _ _ ‹_› | exact ne_zrangeGen _ _ _ _ _ ‹_›) | skip
  noerr_split
  all_goals first | (first | exact ne_incrbyCore _ ‹_› | exact ne_expireatCore _ ‹_› | exact ne_ttlCore _ ‹_› | exact ne_moveCore _ ‹_› | exact ne_zincrbyCore _ ‹_› | exact ne_zremCore _ ‹_› | exact ne_zrangebylexGen _ ‹_› | exact ne_zrangebyscoreGen _ ‹_› | exact ne_listPop _ _ _ _ _ ‹_› | exact ne_setopRead _ _ _ _ _ ‹_› | exact ne_setopStore _ _ _ _ _ ‹_› | exact ne_zrangeGen _ _ _ _ _ ‹_›) | noerr_close

theorem ne_smove : NoErrReply Cmd.smove := by
  intro ctx args cis o h
  unfold Cmd.smove at h
  first | (first | exact ne_incrbyCore _ ‹_› | exact ne_expireatCore _ ‹_› | exact ne_ttlCore _ ‹_› | exact ne_moveCore _ ‹_› | exact ne_zincrbyCore _ ‹_› | exact ne_zremCore _ ‹_› | exact ne_zrangebylexGen _ ‹_› | exact ne_zrangebyscoreGen _ ‹_› | exact ne_listPop _ _ _ _ _ ‹_› | exact ne_setopRead _ _ _ _ _ ‹_› | exact ne_setopStore _ _ _ _ _ ‹_› | exact ne_zrangeGen _ _ _ _ _ ‹_›) | skip
  noerr_split
  all_goals first | (first | exact ne_incrbyCore _ ‹_› | exact ne_expireatCore _ ‹_› | exact ne_ttlCore _ ‹_› | exact ne_moveCore _ ‹_› | exact ne_zincrbyCore _ ‹_› | exact ne_zremCore _ ‹_› | exact ne_zrangebylexGen _ ‹_› | exact ne_zrangebyscoreGen _ ‹_› | exact ne_listPop _ _ _ _ _ ‹_› | exact ne_setopRead _ _ _ _ _ ‹_› | exact ne_setopStore _ _ _ _ _ ‹_› | exact ne_zrangeGen _ _ _ _ _ ‹_›) | noerr_close

theorem ne_spop : NoErrReply Cmd.spop := by
  intro ctx args cis o h
  unfold Cmd.spop at h
  noerr_split
  all_goals first
    | (cases h; done)
    | (have hsr := srandCore_noErr ‹Cmd.srandCore _ _ _ = _›
       simp only [Except.ok.injEq] at h
       subst h
       exact hsr)

theorem ne_srandmember : NoErrReply Cmd.srandmember := by
  intro ctx args cis o h
  unfold Cmd.srandmember at h
  noerr_split
  all_goals first
    | (cases h; done)
    | (have hsr := srandCore_noErr ‹Cmd.srandCore _ _ _ = _›
       simp only [Except.ok.injEq] at h
       subst h
       exact hsr)

theorem ne_srem : NoErrReply Cmd.srem := by
  intro ctx args cis o h
  unfold Cmd.srem at h
  first | (first | exact ne_incrbyCore _ ‹_› | exact ne_expireatCore _ ‹_› | exact ne_ttlCore _ ‹_› | exact ne_moveCore _ ‹_› | exact ne_zincrbyCore _ ‹_› | exact ne_zremCore _ ‹_› | exact ne_zrangebylexGen _ ‹_› | exact ne_zrangebyscoreGen _ ‹_› | exact ne_listPop _ _ _ _ _ ‹_› | exact ne_setopRead _ _ _ _ _ ‹_› | exact ne_setopStore _ _ _ _ _ ‹_› | exact ne_zrangeGen _ _ _ _ _ ‹_›) | skip
  noerr_split
  all_goals first | (first | exact ne_incrbyCore _ ‹_› | exact ne_expireatCore _ ‹_› | exact ne_ttlCore _ ‹_› | exact ne_moveCore _ ‹_› | exact ne_zincrbyCore _ ‹_› | exact ne_zremCore _ ‹_› | exact ne_zrangebylexGen _ ‹_› | exact ne_zrangebyscoreGen _ ‹_› | exact ne_listPop _ _ _ _ _ ‹_› | exact ne_setopRead _ _ _ _ _ ‹_› | exact ne_setopStore _ _ _ _ _ ‹_› | exact ne_zrangeGen _ _ _ _ _ ‹_›) | noerr_close

theorem ne_sscan : NoErrReply Cmd.sscan := by
  intro ctx args cis o h
  unfold Cmd.sscan at h
  split at h
  · simp only [] at h
    split at h
    · obtain ⟨xs, rfl⟩ := scanReply_arr ‹Cmd.scanReply _ _ _ _ _ _ _ = _›
      simp only [FR.ret, Except.ok.injEq] at h
      subst h
      rfl
    · cases h
  · cases h

theorem ne_strlen : NoErrReply Cmd.strlen := by
  intro ctx args cis o h
  unfold Cmd.strlen at h
  first | (first | exact ne_incrbyCore _ ‹_› | exact ne_expireatCore _ ‹_› | exact ne_ttlCore _ ‹_› | exact ne_moveCore _ ‹_› | exact ne_zincrbyCore _ ‹_› | exact ne_zremCore _ ‹_› | exact ne_zrangebylexGen _ ‹_› | exact ne_zrangebyscoreGen _ ‹_› | exact ne_listPop _ _ _ _ _ ‹_› | exact ne_setopRead _ _ _ _ _ ‹_› | exact ne_setopStore _ _ _ _ _ ‹_› | exact ne_zrangeGen _ _ _ _ _ ‹_›) | skip
  noerr_split
  all_goals first | (first | exact ne_incrbyCore _ ‹_› | exact ne_expireatCore _ ‹_› | exact ne_ttlCore _ ‹_› | exact ne_moveCore _ ‹_› | exact ne_zincrbyCore _ ‹_› | exact ne_zremCore _ ‹_› | exact ne_zrangebylexGen _ ‹_› | exact ne_zrangebyscoreGen _ ‹_› | exact ne_listPop _ _ _ _ _ ‹_› | exact ne_setopRead _ _ _ _ _ ‹_› | exact ne_setopStore _ _ _ _ _ ‹_› | exact ne_zrangeGen _ _ _ _ _ ‹_›) | noerr_close

theorem ne_sunion : NoErrReply Cmd.sunion := by
  intro ctx args cis o h
  unfold Cmd.sunion at h
  first | (first | exact ne_incrbyCore _ ‹_› | exact ne_expireatCore _ ‹_› | exact ne_ttlCore _ ‹_› | exact ne_moveCore _ ‹_› | exact ne_zincrbyCore _ ‹_› | exact ne_zremCore _ ‹_› | exact ne_zrangebylexGen _ ‹_› | exact ne_zrangebyscoreGen _ ‹_› | exact ne_listPop _ _ _ _ _ ‹_› | exact ne_setopRead _ _ _ _ _ ‹_› | exact ne_setopStore _ _ _ _ _ ‹_› | exact ne_zrangeGen _ _ _ _ _ ‹_›) | skip
  noerr_split
  all_goals first | (first | exact ne_incrbyCore _ ‹_› | exact ne_expireatCore _ ‹_› | exact ne_ttlCore _ ‹_› | exact ne_moveCore _ ‹_› | exact ne_zincrbyCore _ ‹_› | exact ne_zremCore _ ‹_› | exact ne_zrangebylexGen _ ‹_› | exact ne_zrangebyscoreGen _ ‹_› | exact ne_listPop _ _ _ _ _ ‹_› | exact ne_setopRead _ _ _ _ _ ‹_› | exact ne_setopStore _ _ _ _ _ ‹_› | exact ne_zrangeGen _ _ _ _ _ ‹_›) | noerr_close

theorem ne_sunionstore : NoErrReply Cmd.sunionstore := by
  intro ctx args cis o h
  unfold Cmd.sunionstore at h
  first | (first | exact ne_incrbyCore _ ‹_› | exact ne_expireatCore _ ‹_› | exact ne_ttlCore _ ‹_› | exact ne_moveCore _ ‹_› | exact ne_zincrbyCore _ ‹_› | exact ne_zremCore _ ‹_› | exact ne_zrangebylexGen _ ‹_› | exact ne_zrangebyscoreGen _ ‹_› | exact ne_listPop _ _ _ _ _ ‹_› | exact ne_setopRead _ _ _ _ _ ‹_› | exact ne_setopStore _ _ _ _ _ ‹_› | exact ne_zrangeGen _ _ _ _ _ ‹_›) | skip
  noerr_split
  all_goals first | (first | exact ne_incrbyCore _ ‹_› | exact ne_expireatCore _ ‹_› | exact ne_ttlCore _ ‹_› | exact ne_moveCore _ ‹_› | exact ne_zincrbyCore _ ‹_› | exact ne_zremCore _ ‹_› | exact ne_zrangebylexGen _ ‹_› | exact ne_zrangebyscoreGen _ ‹_› | exact ne_listPop _ _ _ _ _ ‹_› | exact ne_setopRead _ _ _ _ _ ‹_› | exact ne_setopStore _ _ _ _ _ ‹_› | exact ne_zrangeGen _ _ _ _ _ ‹_›) | noerr_close

theorem ne_ttl : NoErrReply Cmd.ttl := by
  intro ctx args cis o h
  unfold Cmd.ttl at h
  first | (first | exact ne_incrbyCore _ ‹_› | exact ne_expireatCore _ ‹_› | exact ne_ttlCore _ ‹_› | exact ne_moveCore _ ‹_› | exact ne_zincrbyCore _ ‹_› | exact ne_zremCore _ ‹_› | exact ne_zrangebylexGen _ ‹_› | exact ne_zrangebyscoreGen _ ‹_› | exact ne_listPop _ _ _ _ _ ‹_› | exact ne_setopRead _ _ _ _ _ ‹_› | exact ne_setopStore _ _ _ _ _ ‹_› | exact ne_zrangeGen _ _ _ _ _ ‹_›) | skip
  noerr_split
  all_goals first | (first | exact ne_incrbyCore _ ‹_› | exact ne_expireatCore _ ‹_› | exact ne_ttlCore _ ‹_› | exact ne_moveCore _ ‹_› | exact ne_zincrbyCore _ ‹_› | exact ne_zremCore _ ‹_› | exact ne_zrangebylexGen _ ‹_› | exact ne_zrangebyscoreGen _ ‹_› | exact ne_listPop _ _ _ _ _ ‹_› | exact ne_setopRead _ _ _ _ _ ‹_› | exact ne_setopStore _ _ _ _ _ ‹_› | exact ne_zrangeGen _ _ _ _ _ ‹_›) | noerr_close

theorem ne_type_ : NoErrReply Cmd.type_ := by
  intro ctx args cis o h
  unfold Cmd.type_ at h
  first | (first | exact ne_incrbyCore _ ‹_› | exact ne_expireatCore _ ‹_› | exact ne_ttlCore _ ‹_› | exact ne_moveCore _ ‹_› | exact ne_zincrbyCore _ ‹_› | exact ne_zremCore _ ‹_› | exact ne_zrangebylexGen _ ‹_› | exact ne_zrangebyscoreGen _ ‹_› | exact ne_listPop _ _ _ _ _ ‹_› | exact ne_setopRead _ _ _ _ _ ‹_› | exact ne_setopStore _ _ _ _ _ ‹_› | exact ne_zrangeGen _ _ _ _ _ ‹_›) | skip
  noerr_split
  all_goals first | (first | exact ne_incrbyCore _ ‹_› | exact ne_expireatCore _ ‹_› | exact ne_ttlCore _ ‹_› | exact ne_moveCore _ ‹_› | exact ne_zincrbyCore _ ‹_› | exact ne_zremCore _ ‹_› | exact ne_zrangebylexGen _ ‹_› | exact ne_zrangebyscoreGen _ ‹_› | exact ne_listPop _ _ _ _ _ ‹_› | exact ne_setopRead _ _ _ _ _ ‹_› | exact ne_setopStore _ _ _ _ _ ‹_› | exact ne_zrangeGen _ _ _ _ _ ‹_›) | noerr_close

theorem ne_zadd : NoErrReply Cmd.zadd := by
  intro ctx args cis o h
  unfold Cmd.zadd at h
  first | (first | exact ne_incrbyCore _ ‹_› | exact ne_expireatCore _ ‹_› | exact ne_ttlCore _ ‹_› | exact ne_moveCore _ ‹_› | exact ne_zincrbyCore _ ‹_› | exact ne_zremCore _ ‹_› | exact ne_zrangebylexGen _ ‹_› | exact ne_zrangebyscoreGen _ ‹_› | exact ne_listPop _ _ _ _ _ ‹_› | exact ne_setopRead _ _ _ _ _ ‹_› | exact ne_setopStore _ _ _ _ _ ‹_› | exact ne_zrangeGen _ _ _ _ _ ‹_›) | skip
  noerr_split
  all_goals first | (first | exact ne_incrbyCore _ ‹_› | exact ne_expireatCore _ ‹_› | exact ne_ttlCore _ ‹_› | exact ne_moveCore _ ‹_› | exact ne_zincrbyCore _ ‹_› | exact ne_zremCore _ ‹_› | exact ne_zrangebylexGen _ ‹_› | exact ne_zrangebyscoreGen _ ‹_› | exact ne_listPop _ _ _ _ _ ‹_› | exact ne_setopRead _ _ _ _ _ ‹_› | exact ne_setopStore _ _ _ _ _ ‹_› | exact ne_zrangeGen _ _ _ _ _ ‹_›) | noerr_close

theorem ne_zcard : NoErrReply Cmd.zcard := by
  intro ctx args cis o h
  unfold Cmd.zcard at h
  first | (first | exact ne_incrbyCore _ ‹_› | exact ne_expireatCore _ ‹_› | exact ne_ttlCore _ ‹_› | exact ne_moveCore _ ‹_› | exact ne_zincrbyCore _ ‹_› | exact ne_zremCore _ ‹_› | exact ne_zrangebylexGen _ ‹_› | exact ne_zrangebyscoreGen _ ‹_› | exact ne_listPop _ _ _ _ _ ‹_› | exact ne_setopRead _ _ _ _ _ ‹_› | exact ne_setopStore _ _ _ _ _ ‹_› | exact ne_zrangeGen _ _ _ _ _ ‹_›) | skip
  noerr_split
  all_goals first | (first | exact ne_incrbyCore _ ‹_› | exact ne_expireatCore _ ‹_› | exact ne_ttlCore _ ‹_› | exact ne_moveCore _ ‹_› | exact ne_zincrbyCore _ ‹_› | exact ne_zremCore _ ‹_› | exact ne_zrangebylexGen _ ‹_› | exact ne_zrangebyscoreGen _ ‹_› | exact ne_listPop _ _ _ _ _ ‹_› | exact ne_setopRead _ _ _ _ _ ‹_› | exact ne_setopStore _ _ _ _ _ ‹_› | exact ne_zrangeGen _ _ _ _ _ ‹_›) | noerr_close

theorem ne_zcount : NoErrReply Cmd.zcount := by
  intro ctx args cis o h
  unfold Cmd.zcount at h
  first | (first | exact ne_incrbyCore _ ‹_› | exact ne_expireatCore _ ‹_› | exact ne_ttlCore _ ‹_› | exact ne_moveCore _ ‹_› | exact ne_zincrbyCore _ ‹_› | exact ne_zremCore _ ‹_› | exact ne_zrangebylexGen _ ‹_› | exact ne_zrangebyscoreGen _ ‹_› | exact ne_listPop _ _ _ _ _ ‹_› | exact ne_setopRead _ _ _ _ _ ‹_› | exact ne_setopStore _ _ _ _ _ ‹_› | exact ne_zrangeGen _ _ _ _ _ ‹_›) | skip
  noerr_split
  all_goals first | (first | exact ne_incrbyCore _ ‹_› | exact ne_expireatCore _ ‹_› | exact ne_ttlCore _ ‹_› | exact ne_moveCore _ ‹_› | exact ne_zincrbyCore _ ‹_› | exact ne_zremCore _ ‹_› | exact ne_zrangebylexGen _ ‹_› | exact ne_zrangebyscoreGen _ ‹_› | exact ne_listPop _ _ _ _ _ ‹_› | exact ne_setopRead _ _ _ _ _ ‹_› | exact ne_setopStore _ _ _ _ _ ‹_› | exact ne_zrangeGen _ _ _ _ _ ‹_›) | noerr_close

theorem ne_zincrby : NoErrReply Cmd.zincrby := by
  intro ctx args cis o h
  unfold Cmd.zincrby at h
  first | (first | exact ne_incrbyCore _ ‹_› | exact ne_expireatCore _ ‹_› | exact ne_ttlCore _ ‹_› | exact ne_moveCore _ ‹_› | exact ne_zincrbyCore _ ‹_› | exact ne_zremCore _ ‹_› | exact ne_zrangebylexGen _ ‹_› | exact ne_zrangebyscoreGen _ ‹_› | exact ne_listPop _ _ _ _ _ ‹_› | exact ne_setopRead _ _ _ _ _ ‹_› | exact ne_setopStore _ _ _ _ _ ‹_› | exact ne_zrangeGen _ _ _ _ _ ‹_›) | skip
  noerr_split
  all_goals first | (first | exact ne_incrbyCore _ ‹_› | exact ne_expireatCore _ ‹_› | exact ne_ttlCore _ ‹_› | exact ne_moveCore _ ‹_› | exact ne_zincrbyCore _ ‹_› | exact ne_zremCore _ ‹_› | exact ne_zrangebylexGen _ ‹_› | exact ne_zrangebyscoreGen _ ‹_› | exact ne_listPop _ _ _ _ _ ‹_› | exact ne_setopRead _ _ _ _ _ ‹_› | exact ne_setopStore _ _ _ _ _ ‹_› | exact ne_zrangeGen _ _ _ _ _ ‹_›) | noerr_close

theorem ne_zlexcount : NoErrReply Cmd.zlexcount := by
  intro ctx args cis o h
  unfold Cmd.zlexcount at h
  first | (first | exact ne_incrbyCore _ ‹_› | exact ne_expireatCore _ ‹_› | exact ne_ttlCore _ ‹_› | exact ne_moveCore _ ‹_› | exact ne_zincrbyCore _ ‹_› | exact ne_zremCore _ ‹_› | exact ne_zrangebylexGen _ ‹_› | exact ne_zrangebyscoreGen _ ‹_› | exact ne_listPop _ _ _ _ _ ‹_› | exact ne_setopRead _ _ _ _ _ ‹_› | exact ne_setopStore _ _ _ _ _ ‹_› | exact ne_zrangeGen _ _ _ _ _ ‹_›) | skip
  noerr_split
  all_goals first | (first | exact ne_incrbyCore _ ‹_› | exact ne_expireatCore _ ‹_› | exact ne_ttlCore _ ‹_› | exact ne_moveCore _ ‹_› | exact ne_zincrbyCore _ ‹_› | exact ne_zremCore _ ‹_› | exact ne_zrangebylexGen _ ‹_› | exact ne_zrangebyscoreGen _ ‹_› | exact ne_listPop _ _ _ _ _ ‹_› | exact ne_setopRead _ _ _ _ _ ‹_› | exact ne_setopStore _ _ _ _ _ ‹_› | exact ne_zrangeGen _ _ _ _ _ ‹_›) | noerr_close

theorem ne_zrange : NoErrReply Cmd.zrange := by
  intro ctx args cis o h
  unfold Cmd.zrange at h
  first | (first | exact ne_incrbyCore _ ‹_› | exact ne_expireatCore _ ‹_› | exact ne_ttlCore _ ‹_› | exact ne_moveCore _ ‹_› | exact ne_zincrbyCore _ ‹_› | exact ne_zremCore _ ‹_› | exact ne_zrangebylexGen _ ‹_› | exact ne_zrangebyscoreGen _ ‹_› | exact ne_listPop _ _ _ _ _ ‹_› | exact ne_setopRead _ _ _ _ _ ‹_› | exact ne_setopStore _ _ _ _ _ ‹_› | exact ne_zrangeGen _ _ _ _ _ ‹_›) | skip
  noerr_split
  all_goals first | (first | exact ne_incrbyCore _ ‹_› | exact ne_expireatCore _ ‹_› | exact ne_ttlCore _ ‹_› | exact ne_moveCore _ ‹_› | exact ne_zincrbyCore _ ‹_› | exact ne_zremCore _ ‹_› | exact ne_zrangebylexGen _ ‹_› | exact ne_zrangebyscoreGen _ ‹_› | exact ne_listPop _ _ _ _ _ ‹_› | exact ne_setopRead _ _ _ _ _ ‹_› | exact ne_setopStore _ _ _ _ _ ‹_› | exact ne_zrangeGen _ _ _ _ _ ‹_›) | noerr_close

theorem ne_zrangebylex : NoErrReply Cmd.zrangebylex := by
  intro ctx args cis o h
  unfold Cmd.zrangebylex at h
  first | (first | exact ne_incrbyCore _ ‹_› | exact ne_expireatCore _ ‹_› | exact ne_ttlCore _ ‹_› | exact ne_moveCore _ ‹_› | exact ne_zincrbyCore _ ‹_› | exact ne_zremCore _ ‹_› | exact ne_zrangebylexGen _ ‹_› | exact ne_zrangebyscoreGen _ ‹_› | exact ne_listPop _ _ _ _ _ ‹_› | exact ne_setopRead _ _ _ _ _ ‹_› | exact ne_setopStore _ _ _ _ _ ‹_› | exact ne_zrangeGen _ _ _ _ _ ‹_›) | skip
  noerr_split
  all_goals first | (first | exact ne_incrbyCore _ ‹_› | exact ne_expireatCore _ ‹_› | exact ne_ttlCore _ ‹_› | exact ne_moveCore _ ‹_› | exact ne_zincrbyCore _ ‹_› | exact ne_zremCore _ ‹_› | exact ne_zrangebylexGen _ ‹_› | exact ne_zrangebyscoreGen _ ‹_› | exact ne_listPop _ _ _ _ _ ‹_› | exact ne_setopRead _ _ _ _ _ ‹_› | exact ne_setopStore _ _ _ _ _ ‹_› | exact ne_zrangeGen _ _ _ _ _ ‹_›) | noerr_close

theorem ne_zrangebyscore : NoErrReply Cmd.zrangebyscore := by
  intro ctx args cis o h
  unfold Cmd.zrangebyscore at h
  first | (first | exact ne_incrbyCore _ ‹_› | exact ne_expireatCore _ ‹_› | exact ne_ttlCore _ ‹_› | exact ne_moveCore _ ‹_› | exact ne_zincrbyCore _ ‹_› | exact ne_zremCore _ ‹_› | exact ne_zrangebylexGen _ ‹_› | exact ne_zrangebyscoreGen _ ‹_› | exact ne_listPop _ _ _ _ _ ‹_› | exact ne_setopRead _ _ _ _ _ ‹_› | exact ne_setopStore _ _ _ _ _ ‹_› | exact ne_zrangeGen _ _ _ _ _ ‹_›) | skip
  noerr_split
  all_goals first | (first | exact ne_incrbyCore _ ‹_› | exact ne_expireatCore _ ‹_› | exact ne_ttlCore _ ‹_› | exact ne_moveCore _ ‹_› | exact ne_zincrbyCore _ ‹_› | exact ne_zremCore _ ‹_› | exact ne_zrangebylexGen _ ‹_› | exact ne_zrangebyscoreGen _ ‹_› | exact ne_listPop _ _ _ _ _ ‹_› | exact ne_setopRead _ _ _ _ _ ‹_› | exact ne_setopStore _ _ _ _ _ ‹_› | exact ne_zrangeGen _ _ _ _ _ ‹_›) | noerr_close

theorem ne_zrank : NoErrReply Cmd.zrank := by
  intro ctx args cis o h
  unfold Cmd.zrank at h
  first | (first | exact ne_incrbyCore _ ‹_› | exact ne_expireatCore _ ‹_› | exact ne_ttlCore _ ‹_› | exact ne_moveCore _ ‹_› | exact ne_zincrbyCore _ ‹_› | exact ne_zremCore _ ‹_› | exact ne_zrangebylexGen _ ‹_› | exact ne_zrangebyscoreGen _ ‹_› | exact ne_listPop _ _ _ _ _ ‹_› | exact ne_setopRead _ _ _ _ _ ‹_› | exact ne_setopStore _ _ _ _ _ ‹_› | exact ne_zrangeGen _ _ _ _ _ ‹_›) | skip
  noerr_split
  all_goals first | (first | exact ne_incrbyCore _ ‹_› | exact ne_expireatCore _ ‹_› | exact ne_ttlCore _ ‹_› | exact ne_moveCore _ ‹_› | exact ne_zincrbyCore _ ‹_› | exact ne_zremCore _ ‹_› | exact ne_zrangebylexGen _ ‹_› | exact ne_zrangebyscoreGen _ ‹_› | exact ne_listPop _ _ _ _ _ ‹_› | exact ne_setopRead _ _ _ _ _ ‹_› | exact ne_setopStore _ _ _ _ _ ‹_› | exact ne_zrangeGen _ _ _ _ _ ‹_›) | noerr_close

theorem ne_zrem : NoErrReply Cmd.zrem := by
  intro ctx args cis o h
  unfold Cmd.zrem at h
  first | (first | exact ne_incrbyCore _ ‹_› | exact ne_expireatCore _ ‹_› | exact ne_ttlCore _ ‹_› | exact ne_moveCore _ ‹_› | exact ne_zincrbyCore _ ‹_› | exact ne_zremCore _ ‹_› | exact ne_zrangebylexGen _ ‹_› | exact ne_zrangebyscoreGen _ ‹_› | exact ne_listPop _ _ _ _ _ ‹_› | exact ne_setopRead _ _ _ _ _ ‹_› | exact ne_setopStore _ _ _ _ _ ‹_› | exact ne_zrangeGen _ _ _ _ _ ‹_›) | skip
  noerr_split
  all_goals first | (first | exact ne_incrbyCore _ ‹_› | exact ne_expireatCore _ ‹_› | exact ne_ttlCore _ ‹_› | exact ne_moveCore _ ‹_› | exact ne_zincrbyCore _ ‹_› | exact ne_zremCore _ ‹_› | exact ne_zrangebylexGen _ ‹_› | exact ne_zrangebyscoreGen _ ‹_› | exact ne_listPop _ _ _ _ _ ‹_› | exact ne_setopRead _ _ _ _ _ ‹_› | exact ne_setopStore _ _ _ _ _ ‹_› | exact ne_zrangeGen _ _ _ _ _ ‹_›) | noerr_close

theorem ne_zremrangebylex : NoErrReply Cmd.zremrangebylex := by
  intro ctx args cis o h
  unfold Cmd.zremrangebylex at h
  first | (first | exact ne_incrbyCore _ ‹_› | exact ne_expireatCore _ ‹_› | exact ne_ttlCore _ ‹_› | exact ne_moveCore _ ‹_› | exact ne_zincrbyCore _ ‹_› | exact ne_zremCore _ ‹_› | exact ne_zrangebylexGen _ ‹_› | exact ne_zrangebyscoreGen _ ‹_› | exact ne_listPop _ _ _ _ _ ‹_› | exact ne_setopRead _ _ _ _ _ ‹_› | exact ne_setopStore _ _ _ _ _ ‹_› | exact ne_zrangeGen _ _ _ _ _ ‹_›) | skip
  noerr_split
  all_goals first | (first | exact ne_incrbyCore _ ‹_› | exact ne_expireatCore _ ‹_› | exact ne_ttlCore _ ‹_› | exact ne_moveCore _ ‹_› | exact ne_zincrbyCore _ ‹_› | exact ne_zremCore _ ‹_› | exact ne_zrangebylexGen _ ‹_› | exact ne_zrangebyscoreGen _ ‹_› | exact ne_listPop _ _ _ _ _ ‹_› | exact ne_setopRead _ _ _ _ _ ‹_› | exact ne_setopStore _ _ _ _ _ ‹_› | exact ne_zrangeGen _ _ _ _ _ ‹_›) | noerr_close

theorem ne_zremrangebyrank : NoErrReply Cmd.zremrangebyrank := by
  intro ctx args cis o h
  unfold Cmd.zremrangebyrank at h
  first | (first | exact ne_incrbyCore _ ‹_› | exact ne_expireatCore _ ‹_› | exact ne_ttlCore _ ‹_› | exact ne_moveCore _ ‹_› | exact ne_zincrbyCore _ ‹_› | exact ne_zremCore _ ‹_› | exact ne_zrangebylexGen _ ‹_› | exact ne_zrangebyscoreGen _ ‹_› | exact ne_listPop _ _ _ _ _ ‹_› | exact ne_setopRead _ _ _ _ _ ‹_› | exact ne_setopStore _ _ _ _ _ ‹_› | exact ne_zrangeGen _ _ _ _ _ ‹_›) | skip
  noerr_split
  all_goals first | (first | exact ne_incrbyCore _ ‹_› | exact ne_expireatCore _ ‹_› | exact ne_ttlCore _ ‹_› | exact ne_moveCore _ ‹_› | exact ne_zincrbyCore _ ‹_› | exact ne_zremCore _ ‹_› | exact ne_zrangebylexGen _ ‹_› | exact ne_zrangebyscoreGen _ ‹_› | exact ne_listPop _ _ _ _ _ ‹_› | exact ne_setopRead _ _ _ _ _ ‹_› | exact ne_setopStore _ _ _ _ _ ‹_› | exact ne_zrangeGen _ _ _ _ _ ‹_›) | noerr_close

theorem ne_zremrangebyscore : NoErrReply Cmd.zremrangebyscore := by
  intro ctx args cis o h
  unfold Cmd.zremrangebyscore at h
  first | (first | exact ne_incrbyCore _ ‹_› | exact ne_expireatCore _ ‹_› | exact ne_ttlCore _ ‹_› | exact ne_moveCore _ ‹_› | exact ne_zincrbyCore _ ‹_› | exact ne_zremCore _ ‹_› | exact ne_zrangebylexGen _ ‹_› | exact ne_zrangebyscoreGen _ ‹_› | exact ne_listPop _ _ _ _ _ ‹_› | exact ne_setopRead _ _ _ _ _ ‹_› | exact ne_setopStore _ _ _ _ _ ‹_› | exact ne_zrangeGen _ _ _ _ _ ‹_›) | skip
  noerr_split
  all_goals first | (first | exact ne_incrbyCore _ ‹_› | exact ne_expireatCore _ ‹_› | exact ne_ttlCore _ ‹_› | exact ne_moveCore _ ‹_› | exact ne_zincrbyCore _ ‹_› | exact ne_zremCore _ ‹_› | exact ne_zrangebylexGen _ ‹_› | exact ne_zrangebyscoreGen _ ‹_› | exact ne_listPop _ _ _ _ _ ‹_› | exact ne_setopRead _ _ _ _ _ ‹_› | exact ne_setopStore _ _ _ _ _ ‹_› | exact ne_zrangeGen _ _ _ _ _ ‹_›) | noerr_close

theorem ne_zrevrange : NoErrReply Cmd.zrevrange := by
  intro ctx args cis o h
  unfold Cmd.zrevrange at h
  first | (first | exact ne_incrbyCore _ ‹_› | exact ne_expireatCore _ ‹_› | exact ne_ttlCore _ ‹_› | exact ne_moveCore _ ‹_› | exact ne_zincrbyCore _ ‹_› | exact ne_zremCore _ ‹_› | exact ne_zrangebylexGen _ ‹_› | exact ne_zrangebyscoreGen _ ‹_› | exact ne_listPop _ _ _ _ _ ‹_› | exact ne_setopRead _ _ _ _ _ ‹_› | exact ne_setopStore _ _ _ _ _ ‹_› | exact ne_zrangeGen _ _ _ _ _ ‹_›) | skip
  noerr_split
  all_goals first | (first | exact ne_incrbyCore _ ‹_› | exact ne_expireatCore _ ‹_› | exact ne_ttlCore _ ‹_› | exact ne_moveCore _ ‹_› | exact ne_zincrbyCore _ ‹_› | exact ne_zremCore _ ‹_› | exact ne_zrangebylexGen _ ‹_› | exact ne_zrangebyscoreGen _ ‹_› | exact ne_listPop _ _ _ _ _ ‹_› | exact ne_setopRead _ _ _ _ _ ‹_› | exact ne_setopStore _ _ _ _ _ ‹_› | exact ne_zrangeGen _ _ _ _ _ ‹_›) | noerr_close

theorem ne_zrevrangebylex : NoErrReply Cmd.zrevrangebylex := by
  intro ctx args cis o h
  unfold Cmd.zrevrangebylex at h
  first | (first | exact ne_incrbyCore _ ‹_› | exact ne_expireatCore _ ‹_› | exact ne_ttlCore _ ‹_› | exact ne_moveCore _ ‹_› | exact ne_zincrbyCore _ ‹_› | exact ne_zremCore _ ‹_› | exact ne_zrangebylexGen _ ‹_› | exact ne_zrangebyscoreGen _ ‹_› | exact ne_listPop _ _ _ _ _ ‹_› | exact ne_setopRead _ _ _ _ _ ‹_› | exact ne_setopStore _ _ _ _ _ ‹_› | exact ne_zrangeGen _ _ _ _ _ ‹_›) | skip
  noerr_split
  all_goals first | (first | exact ne_incrbyCore _ ‹_› | exact ne_expireatCore _ ‹_› | exact ne_ttlCore _ ‹_› | exact ne_moveCore _ ‹_› | exact ne_zincrbyCore _ ‹_› | exact ne_zremCore _ ‹_› | exact ne_zrangebylexGen _ ‹_› | exact ne_zrangebyscoreGen _ ‹_› | exact ne_listPop _ _ _ _ _ ‹_› | exact ne_setopRead _ _ _ _ _ ‹_› | exact ne_setopStore _ _ _ _ _ ‹_› | exact ne_zrangeGen _ _ _ _ _ ‹_›) | noerr_close

theorem ne_zrevrangebyscore : NoErrReply Cmd.zrevrangebyscore := by
  intro ctx args cis o h
  unfold Cmd.zrevrangebyscore at h
  first | (first | exact ne_incrbyCore _ ‹_› | exact ne_expireatCore _ ‹_› | exact ne_ttlCore _ ‹_› | exact ne_moveCore _ ‹_› | exact ne_zincrbyCore _ ‹_› | exact ne_zremCore _ ‹_› | exact ne_zrangebylexGen _ ‹_› | exact ne_zrangebyscoreGen _ ‹_› | exact ne_listPop _ _ _ _ _ ‹_› | exact ne_setopRead _ _ _ _ _ ‹_› | exact ne_setopStore _ _ _ _ _ ‹_› | exact ne_zrangeGen _ _ _ _ _ ‹_›) | skip
  noerr_split
  all_goals first | (first | exact ne_incrbyCore _ ‹_› | exact ne_expireatCore _ ‹_› | exact ne_ttlCore _ ‹_› | exact ne_moveCore _ ‹_› | exact ne_zincrbyCore _ ‹_› | exact ne_zremCore _ ‹_› | exact ne_zrangebylexGen _ ‹_› | exact ne_zrangebyscoreGen _ ‹_› | exact ne_listPop _ _ _ _ _ ‹_› | exact ne_setopRead _ _ _ _ _ ‹_› | exact ne_setopStore _ _ _ _ _ ‹_› | exact ne_zrangeGen _ _ _ _ _ ‹_›) | noerr_close

theorem ne_zrevrank : NoErrReply Cmd.zrevrank := by
  intro ctx args cis o h
  unfold Cmd.zrevrank at h
  first | (first | exact ne_incrbyCore _ ‹_› | exact ne_expireatCore _ ‹_› | exact ne_ttlCore _ ‹_› | exact ne_moveCore _ ‹_› | exact ne_zincrbyCore _ ‹_› | exact ne_zremCore _ ‹_› | exact ne_zrangebylexGen _ ‹_› | exact ne_zrangebyscoreGen _ ‹_› | exact ne_listPop _ _ _ _ _ ‹_› | exact ne_setopRead _ _ _ _ _ ‹_› | exact ne_setopStore _ _ _ _ _ ‹_› | exact ne_zrangeGen _ _ _ _ _ ‹_›) | skip
  noerr_split
  all_goals first | (first | exact ne_incrbyCore _ ‹_› | exact ne_expireatCore _ ‹_› | exact ne_ttlCore _ ‹_› | exact ne_moveCore _ ‹_› | exact ne_zincrbyCore _ ‹_› | exact ne_zremCore _ ‹_› | exact ne_zrangebylexGen _ ‹_› | exact ne_zrangebyscoreGen _ ‹_› | exact ne_listPop _ _ _ _ _ ‹_› | exact ne_setopRead _ _ _ _ _ ‹_› | exact ne_setopStore _ _ _ _ _ ‹_› | exact ne_zrangeGen _ _ _ _ _ ‹_›) | noerr_close

theorem ne_zscan : NoErrReply Cmd.zscan := by
  intro ctx args cis o h
  unfold Cmd.zscan at h
  split at h
  · simp only [] at h
    split at h
    · obtain ⟨xs, rfl⟩ := scanReply_arr ‹Cmd.scanReply _ _ _ _ _ _ _ = _›
      simp only [FR.ret, Except.ok.injEq] at h
      subst h
      rfl
    · cases h
  · cases h

theorem ne_zscore : NoErrReply Cmd.zscore := by
  intro ctx args cis o h
  unfold Cmd.zscore at h
  first | (first | exact ne_incrbyCore _ ‹_› | exact ne_expireatCore _ ‹_› | exact ne_ttlCore _ ‹_› | exact ne_moveCore _ ‹_› | exact ne_zincrbyCore _ ‹_› | exact ne_zremCore _ ‹_› | exact ne_zrangebylexGen _ ‹_› | exact ne_zrangebyscoreGen _ ‹_› | exact ne_listPop _ _ _ _ _ ‹_› | exact ne_setopRead _ _ _ _ _ ‹_› | exact ne_setopStore _ _ _ _ _ ‹_› | exact ne_zrangeGen _ _ _ _ _ ‹_›) | skip
  noerr_split
  all_goals first | (first | exact ne_incrbyCore _ ‹_› | exact ne_expireatCore _ ‹_› | exact ne_ttlCore _ ‹_› | exact ne_moveCore _ ‹_› | exact ne_zincrbyCore _ ‹_› | exact ne_zremCore _ ‹_› | exact ne_zrangebylexGen _ ‹_› | exact ne_zrangebyscoreGen _ ‹_› | exact ne_listPop _ _ _ _ _ ‹_› | exact ne_setopRead _ _ _ _ _ ‹_› | exact ne_setopStore _ _ _ _ _ ‹_› | exact ne_zrangeGen _ _ _ _ _ ‹_›) | noerr_close

set_option maxHeartbeats 400000 in
/-- **No command body returns an error-shaped reply**: the bodies of all regular commands raise their errors -/
theorem regular_noErrReply (name : String) (body : Body) (h : Cmd.regular name = some body) : NoErrReply body := by
  unfold Cmd.regular at h
  split at h
  all_goals first
    | (cases h; done)
    | skip
  all_goals (injection h with h; subst h)
  all_goals first
    | exact ne_append
    | exact ne_bitcount
    | exact ne_decr
    | exact ne_decrby
    | exact ne_del
    | exact ne_dump
    | exact ne_exists_
    | exact ne_expire
    | exact ne_expireat
    | exact ne_get
    | exact ne_getbit
    | exact ne_getrange
    | exact ne_getset
    | exact ne_hdel
    | exact ne_hexists
    | exact ne_hget
    | exact ne_hgetall
    | exact ne_hincrby
    | exact ne_hincrbyfloat
    | exact ne_hkeys
    | exact ne_hlen
    | exact ne_hmget
    | exact ne_hmset
    | exact ne_hscan
    | exact ne_hset
    | exact ne_hsetnx
    | exact ne_hstrlen
    | exact ne_hvals
    | exact ne_incr
    | exact ne_incrby
    | exact ne_incrbyfloat
    | exact ne_lindex
    | exact ne_linsert
    | exact ne_llen
    | exact ne_lmove
    | exact ne_lpop
    | exact ne_lpush
    | exact ne_lpushx
    | exact ne_lrange
    | exact ne_lrem
    | exact ne_lset
    | exact ne_ltrim
    | exact ne_mget
    | exact ne_mset
    | exact ne_msetnx
    | exact ne_persist
    | exact ne_pexpire
    | exact ne_pexpireat
    | exact ne_pfadd
    | exact ne_pfcount
    | exact ne_pfmerge
    | exact ne_psetex
    | exact ne_pttl
    | exact ne_rename
    | exact ne_renamenx
    | exact ne_restore
    | exact ne_rpop
    | exact ne_rpoplpush
    | exact ne_rpush
    | exact ne_rpushx
    | exact ne_sadd
    | exact ne_scard
    | exact ne_sdiff
    | exact ne_sdiffstore
    | exact ne_set
    | exact ne_setbit
    | exact ne_setex
    | exact ne_setnx
    | exact ne_setrange
    | exact ne_sinter
    | exact ne_sinterstore
    | exact ne_sismember
    | exact ne_smembers
    | exact ne_smismember
    | exact ne_smove
    | exact ne_spop
    | exact ne_srandmember
    | exact ne_srem
    | exact ne_sscan
    | exact ne_strlen
    | exact ne_sunion
    | exact ne_sunionstore
    | exact ne_ttl
    | exact ne_type_
    | exact ne_zadd
    | exact ne_zcard
    | exact ne_zcount
    | exact ne_zincrby
    | exact ne_zlexcount
    | exact ne_zrange
    | exact ne_zrangebylex
    | exact ne_zrangebyscore
    | exact ne_zrank
    | exact ne_zrem
    | exact ne_zremrangebylex
    | exact ne_zremrangebyrank
    | exact ne_zremrangebyscore
    | exact ne_zrevrange
    | exact ne_zrevrangebylex
    | exact ne_zrevrangebyscore
    | exact ne_zrevrank
    | exact ne_zscan
    | exact ne_zscore


/-! ## Readable consequences of `ErrStep`, decidability for examples -/

instance (r : Option Reply) : Decidable (badO r) := by
  cases r with
  | none => exact isFalse id
  | some r => cases r <;> first | exact isTrue trivial | exact isFalse id

instance (mode : Mode) (c : Nat) (fields : List Bytes) (s : Sys) : Decidable (ErrAnswered mode c fields s) := by
  unfold ErrAnswered
  cases fields with
  | nil => exact isFalse id
  | cons nameB args =>
    simp only
    cases lookupSig nameB with
    | none => exact isTrue trivial
    | some sig =>
      simp only
      cases Cmd.regular sig.name <;> simp only <;> infer_instance

theorem conn_of_conns_eq {s t : Sys} (h : s.srv.conns = t.srv.conns) (c : Nat) : s.conn c = t.conn c := by
  simp only [Sys.conn_def, h]

namespace ErrStep
variable {c : Nat} {r : Reply} {f : Conn → Conn} {s1 s' : Sys}

/-- the purged content of every database is the same -/
theorem purge_eq (h : ErrStep c r f s1 s') (i : Nat) : Db.purge (s'.dbAt i) = Db.purge (s1.dbAt i) := by
  have ht : s'.srv.time = s1.srv.time := by rw [h.srv]
  have := (h.dbs.2 i).eq
  unfold Sys.dbAt
  rw [ht]; exact this.symm

/-- every key has the same live value (hence the same TTL) in every database -/
theorem live_eq (h : ErrStep c r f s1 s') (i : Nat) (k : Bytes) : (s'.dbAt i).live k = (s1.dbAt i).live k := by
  unfold Db.live; rw [h.purge_eq]

theorem time (h : ErrStep c r f s1 s') : s'.srv.time = s1.srv.time := by rw [h.srv]
theorem subs (h : ErrStep c r f s1 s') : s'.srv.subs = s1.srv.subs := by rw [h.srv]
theorem psubs (h : ErrStep c r f s1 s') : s'.srv.psubs = s1.srv.psubs := by rw [h.srv]
theorem scripts (h : ErrStep c r f s1 s') : s'.srv.scripts = s1.srv.scripts := by rw [h.srv]
theorem closedSockets (h : ErrStep c r f s1 s') : s'.srv.closedSockets = s1.srv.closedSockets := by rw [h.srv]
theorem lastsave (h : ErrStep c r f s1 s') : s'.srv.lastsave = s1.srv.lastsave := by rw [h.srv]
theorem len (h : ErrStep c r f s1 s') : s'.srv.dbs.length = s1.srv.dbs.length := h.dbs.1.symm

/-- every other connection record is identical (transaction state, watches, parking, buffer, …) -/
theorem conn_other (h : ErrStep c r f s1 s') (hid : ∀ x, (f x).id = x.id) {c' : Nat} (hne : c' ≠ c) :
    s'.conn c' = s1.conn c' := by
  have : s'.srv.conns = (s1.updConn c f).srv.conns := h.conns
  rw [conn_of_conns_eq this, Sys.conn_updConn_ne f hne hid]

/-- the record of the issuing connection is changed by `f` -/
theorem conn_self (h : ErrStep c r f s1 s') (hid : ∀ x, (f x).id = x.id) (hc : s1.HasConn c) :
    s'.conn c = f (s1.conn c) := by
  have : s'.srv.conns = (s1.updConn c f).srv.conns := h.conns
  rw [conn_of_conns_eq this, Sys.conn_updConn_same f hc hid]

end ErrStep

namespace QuietUpTo
variable {c : Nat} {f : Conn → Conn} {s1 s' : Sys}

theorem purge_eq (h : QuietUpTo c f s1 s') (i : Nat) : Db.purge (s'.dbAt i) = Db.purge (s1.dbAt i) := by
  have ht : s'.srv.time = s1.srv.time := by rw [h.srv]
  have := (h.dbs.2 i).eq
  unfold Sys.dbAt
  rw [ht]; exact this.symm

theorem subs (h : QuietUpTo c f s1 s') : s'.srv.subs = s1.srv.subs := by rw [h.srv]
theorem psubs (h : QuietUpTo c f s1 s') : s'.srv.psubs = s1.srv.psubs := by rw [h.srv]
theorem scripts (h : QuietUpTo c f s1 s') : s'.srv.scripts = s1.srv.scripts := by rw [h.srv]

theorem conn_other (h : QuietUpTo c f s1 s') (hid : ∀ x, (f x).id = x.id) {c' : Nat} (hne : c' ≠ c) :
    s'.conn c' = s1.conn c' := by
  have : s'.srv.conns = (s1.updConn c f).srv.conns := h.conns
  rw [conn_of_conns_eq this, Sys.conn_updConn_ne f hne hid]

end QuietUpTo

/-- **C08, system level, stated on the reply list.**  If processing a request makes the reply list grow by exactly
one error reply to `c` and the command is not EXEC / EVAL / EVALSHA, nothing else has changed (`ErrStep`). -/
theorem processCommand_error_out (mode : Mode) (c : Nat) (nameB : Bytes) (args : List Bytes) (s : Sys) (e : Bytes)
    (hnd : NodupDbs s)
    (hout : (processCommand mode c (nameB :: args) s).2.out = (c, .err e) :: s.out)
    (hx : ∀ sig, lookupSig nameB = some sig → sig.name ≠ "exec" ∧ sig.name ≠ "eval" ∧ sig.name ≠ "evalsha")
    (hbody : ∀ sig body, lookupSig nameB = some sig → Cmd.regular sig.name = some body → NoErrReply body) :
    ∃ e' f, ErrStep c (.err e') f (if (lookupSig nameB).isSome then s.prologue else s)
        (processCommand mode c (nameB :: args) s).2 ∧
      (f = id ∨ (f = markTxFailed ∧ (s.conn c).tx.isSome = true) ∨
        (f = markDead ∧ (processCommand mode c (nameB :: args) s).2.crashed.isSome = true)) :=
  processCommand_error mode c nameB args s hnd (errAnswered_of_out mode c nameB args s e hout hbody) hx


/-- **C08, system level, stated on the reply list, without side condition.** -/
theorem processCommand_error_of_out (mode : Mode) (c : Nat) (nameB : Bytes) (args : List Bytes) (s : Sys) (e : Bytes)
    (hnd : NodupDbs s)
    (hout : (processCommand mode c (nameB :: args) s).2.out = (c, .err e) :: s.out)
    (hx : ∀ sig, lookupSig nameB = some sig → sig.name ≠ "exec" ∧ sig.name ≠ "eval" ∧ sig.name ≠ "evalsha") :
    ∃ e' f, ErrStep c (.err e') f (if (lookupSig nameB).isSome then s.prologue else s)
        (processCommand mode c (nameB :: args) s).2 ∧
      (f = id ∨ (f = markTxFailed ∧ (s.conn c).tx.isSome = true) ∨
        (f = markDead ∧ (processCommand mode c (nameB :: args) s).2.crashed.isSome = true)) :=
  processCommand_error_out mode c nameB args s e hnd hout hx
    (fun sig body _ hreg => regular_noErrReply sig.name body hreg)

end FR.ErrSys
