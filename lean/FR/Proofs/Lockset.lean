import FR.Sys.Lockset
/-!
# Lemmas about the lockset model (`FR.Sys.Lockset`), for property C12
-/
namespace FR.Lockset

/-! ## the association list -/

theorem cget_cdel (cur : Cur) (t t' : Tid) :
    cget (cdel cur t) t' = if t' = t then none else cget cur t' := by
  induction cur with
  | nil => simp [cget, cdel]
  | cons p cur ih =>
    obtain ⟨k, v⟩ := p
    simp only [cget, cdel] at ih ⊢
    by_cases hk : k = t
    · subst hk
      simp only [List.filter_cons, bne_self_eq_false, Bool.false_eq_true, if_false, ih]
      by_cases h : t' = k
      · simp [h]
      · simp [h, List.lookup_cons, beq_eq_false_iff_ne.mpr h]
    · have : (k != t) = true := by simp [hk]
      simp only [List.filter_cons, this, if_true, List.lookup_cons]
      by_cases h : t' = k
      · subst h; simp [hk]
      · simp only [beq_eq_false_iff_ne.mpr h, ih]

theorem cget_cset (cur : Cur) (t t' : Tid) (v : Cid × Bool) :
    cget (cset cur t v) t' = if t' = t then some v else cget cur t' := by
  by_cases h : t' = t
  · subst h; simp [cget, cset]
  · have := cget_cdel cur t t'
    simp only [cget, cset, List.lookup_cons, beq_eq_false_iff_ne.mpr h, if_neg h] at this ⊢
    exact this

/-! ## inversion of `ok` -/

theorem ok_call {st : St} {t c} :
    ok st (.call t c) = true ↔ cget st.cur t = none ∧ c ∉ st.seen := by
  simp only [ok, bad]
  cases h : cget st.cur t <;> by_cases h2 : c ∈ st.seen <;> simp [h2]

theorem cmdOf_eq_some {st : St} {t c} :
    cmdOf st t = some c ↔ ∃ b, cget st.cur t = some (c, b) := by
  simp only [cmdOf, Option.map_eq_some_iff]
  constructor
  · rintro ⟨⟨c', b⟩, h1, h2⟩
    simp only at h2; subst h2; exact ⟨b, h1⟩
  · rintro ⟨b, h⟩; exact ⟨(c, b), h, rfl⟩

theorem ok_ret {st : St} {t c} :
    ok st (.ret t c) = true ↔ st.holder ≠ some t ∧ ∃ b, cget st.cur t = some (c, b) := by
  simp only [ok, bad]
  by_cases h1 : st.holder = some t
  · simp [h1]
  · rw [if_neg h1, ← cmdOf_eq_some]
    by_cases h2 : cmdOf st t = some c
    · simp [h1, h2]
    · simp [h2]

theorem ok_acq {st : St} {t} :
    ok st (.acq t) = true ↔ st.holder = none ∧ ∃ c b, cget st.cur t = some (c, b) := by
  simp only [ok, bad]
  cases h1 : st.holder <;> cases h : cget st.cur t <;> simp
  rename_i v; exact ⟨v.1, by cases v.2 <;> simp [Prod.ext_iff]⟩

theorem ok_rel {st : St} {t} : ok st (.rel t) = true ↔ st.holder = some t := by
  simp only [ok, bad]; split <;> simp [*]

theorem ok_acc {st : St} {t o w} : ok st (.acc t o w) = true ↔ st.holder = some t := by
  simp only [ok, bad]; split <;> simp [*]

theorem wlFrom_cons {st : St} {e rest} :
    wlFrom st (e :: rest) = true ↔ ok st e = true ∧ wlFrom (next st e) rest = true := by
  simp [wlFrom]

/-! ## accesses are the concatenation of the sections -/

theorem accesses_sectionsFrom (tr : Trace) : ∀ (st : St), wlFrom st tr = true →
    (st.holder = none → accesses tr = (sectionsFrom st tr).flatMap (·.2.2)) ∧
    (∀ t, st.holder = some t →
      accesses tr = accsUntilRel tr ++ (sectionsFrom st tr).flatMap (·.2.2)) := by
  induction tr with
  | nil => intro st _; simp [accesses, accsUntilRel, sectionsFrom]
  | cons e rest ih =>
    intro st h
    rw [wlFrom_cons] at h
    obtain ⟨hok, hwl⟩ := h
    obtain ⟨ih1, ih2⟩ := ih _ hwl
    cases e with
    | call t c =>
      simp only [accesses, accsUntilRel, sectionsFrom]
      exact ⟨fun h => ih1 h, fun t' h => ih2 t' h⟩
    | ret t c =>
      simp only [accesses, accsUntilRel, sectionsFrom]
      exact ⟨fun h => ih1 h, fun t' h => ih2 t' h⟩
    | acq t =>
      rw [ok_acq] at hok
      simp only [accesses, accsUntilRel, sectionsFrom, List.flatMap_cons]
      refine ⟨fun _ => ih2 t rfl, fun t' h => ?_⟩
      rw [hok.1] at h; cases h
    | rel t =>
      rw [ok_rel] at hok
      simp only [accesses, accsUntilRel, sectionsFrom, List.nil_append]
      refine ⟨fun h => ?_, fun t' _ => ih1 rfl⟩
      rw [hok] at h; cases h
    | acc t o w =>
      rw [ok_acc] at hok
      simp only [accesses, accsUntilRel, sectionsFrom, List.cons_append]
      refine ⟨fun h => ?_, fun t' h => ?_⟩
      · rw [hok] at h; cases h
      · rw [ih2 t' h]

/-! ## the state invariant -/

structure Inv (st : St) : Prop where
  seen : ∀ t c b, cget st.cur t = some (c, b) → c ∈ st.seen
  inj : ∀ t1 t2 c b1 b2, cget st.cur t1 = some (c, b1) → cget st.cur t2 = some (c, b2) → t1 = t2
  hold : ∀ t, st.holder = some t → ∃ c b, cget st.cur t = some (c, b)

theorem inv_init : Inv St.init :=
  ⟨by simp [St.init, cget], by simp [St.init, cget], by simp [St.init]⟩

theorem inv_next {st : St} {e : Ev} (hi : Inv st) (hok : ok st e = true) : Inv (next st e) := by
  obtain ⟨h1, h2, h3⟩ := hi
  cases e with
  | call t c =>
    rw [ok_call] at hok
    obtain ⟨hn, hf⟩ := hok
    refine ⟨?_, ?_, ?_⟩
    · intro t' c' b
      simp only [next, cget_cset]
      split
      · intro h; cases h; simp
      · intro h; exact List.mem_cons_of_mem _ (h1 _ _ _ h)
    · intro t1 t2 c' b1 b2
      simp only [next, cget_cset]
      split <;> split
      · intros; simp [*]
      · intro h h'; cases h; exact absurd (h1 _ _ _ h') hf
      · intro h h'; cases h'; exact absurd (h1 _ _ _ h) hf
      · exact h2 _ _ _ _ _
    · intro t' h
      obtain ⟨c', b, h'⟩ := h3 t' h
      have : t' ≠ t := by intro e; subst e; rw [hn] at h'; cases h'
      exact ⟨c', b, by simp [next, cget_cset, this, h']⟩
  | ret t c =>
    rw [ok_ret] at hok
    obtain ⟨hh, b, hc⟩ := hok
    refine ⟨?_, ?_, ?_⟩
    · intro t' c' b
      simp only [next, cget_cdel]
      split
      · intro h; cases h
      · exact h1 _ _ _
    · intro t1 t2 c' b1 b2
      simp only [next, cget_cdel]
      split <;> split <;> first | (intro h; cases h; done) | (intro _ h; cases h; done) | skip
      exact h2 _ _ _ _ _
    · intro t' h
      have h : st.holder = some t' := h
      obtain ⟨c', b, h'⟩ := h3 t' h
      have : t' ≠ t := by intro e; subst e; exact hh h
      exact ⟨c', b, by simp [next, cget_cdel, this, h']⟩
  | acq t =>
    rw [ok_acq] at hok
    obtain ⟨hh, c, b, hc⟩ := hok
    refine ⟨?_, ?_, ?_⟩
    · intro t' c' b'
      simp only [next, hc, cget_cset]
      split
      · intro h; cases h; exact h1 _ _ _ hc
      · exact h1 _ _ _
    · intro t1 t2 c' b1 b2
      simp only [next, hc, cget_cset]
      split <;> split
      · intros; simp [*]
      · intro h h'; cases h; exact (h2 _ _ _ _ _ h' hc).symm ▸ ‹t1 = t›
      · intro h h'; cases h'; exact (h2 _ _ _ _ _ h hc).trans ‹t2 = t›.symm
      · exact h2 _ _ _ _ _
    · intro t' h
      have h : some t = some t' := h
      cases h
      exact ⟨c, true, by simp [next, hc, cget_cset]⟩
  | rel t =>
    exact ⟨h1, h2, by intro t' h; cases h⟩
  | acc t o w => exact ⟨h1, h2, h3⟩

/-! ## real-time precedence and the order of sections -/

theorem seen_next (st : St) (e : Ev) : ∀ c ∈ st.seen, c ∈ (next st e).seen := by
  intro c h
  cases e <;> simp [next, h]

theorem hasCall_cons (e : Ev) (rest : Trace) (c : Cid) :
    hasCall (e :: rest) c = (isCall c e || hasCall rest c) := by
  simp [hasCall]

theorem hasCall_fresh (tr : Trace) : ∀ (st : St) (c : Cid), wlFrom st tr = true →
    hasCall tr c = true → c ∉ st.seen := by
  induction tr with
  | nil => intro st c _ h; simp [hasCall] at h
  | cons e rest ih =>
    intro st c h hc
    rw [wlFrom_cons] at h
    rw [hasCall_cons, Bool.or_eq_true] at hc
    rcases hc with hc | hc
    · cases e with
      | call t c' =>
        simp only [isCall, beq_iff_eq] at hc
        subst hc
        exact (ok_call.mp h.1).2
      | _ => simp [isCall] at hc
    · exact fun hm => ih _ c h.2 hc (seen_next st e c hm)

theorem precedes_hasCall (tr : Trace) (c1 c2 : Cid) (h : precedes tr c1 c2 = true) :
    hasCall tr c2 = true := by
  induction tr with
  | nil => simp [precedes] at h
  | cons e rest ih =>
    simp only [precedes, Bool.or_eq_true, Bool.and_eq_true] at h
    rw [hasCall_cons, Bool.or_eq_true]
    rcases h with h | h
    · exact Or.inr h.2
    · exact Or.inr (ih h)

theorem sectionsFrom_cons_acq (st : St) (t : Tid) (rest : Trace) :
    sectionsFrom st (.acq t :: rest) =
      (t, (cmdOf st t).getD 0, accsUntilRel rest) :: sectionsFrom (next st (.acq t)) rest := rfl

theorem sectionsFrom_cons_of_not_acq (st : St) (e : Ev) (rest : Trace) (h : ∀ t, e ≠ .acq t) :
    sectionsFrom st (e :: rest) = sectionsFrom (next st e) rest := by
  cases e with
  | acq t => exact absurd rfl (h t)
  | _ => rfl

/-- a command that has been called and is no longer current has no further sections -/
theorem no_sections_of_done (tr : Trace) : ∀ (st : St) (c : Cid), wlFrom st tr = true →
    c ∈ st.seen → (∀ t b, cget st.cur t ≠ some (c, b)) →
    ∀ s ∈ sectionsFrom st tr, s.2.1 ≠ c := by
  induction tr with
  | nil => intro st c _ _ _ s hs; simp [sectionsFrom] at hs
  | cons e rest ih =>
    intro st c h hseen hcur
    rw [wlFrom_cons] at h
    obtain ⟨hok, hwl⟩ := h
    cases e with
    | call t c' =>
      rw [sectionsFrom_cons_of_not_acq _ _ _ (by intro t h; cases h)]
      refine ih _ c hwl (seen_next _ _ _ hseen) ?_
      intro t' b
      simp only [next, cget_cset]
      split
      · intro h; cases h; exact (ok_call.mp hok).2 hseen
      · exact hcur _ _
    | ret t c' =>
      rw [sectionsFrom_cons_of_not_acq _ _ _ (by intro t h; cases h)]
      refine ih _ c hwl (seen_next _ _ _ hseen) ?_
      intro t' b
      simp only [next, cget_cdel]
      split
      · intro h; cases h
      · exact hcur _ _
    | acq t =>
      obtain ⟨_, c', b', hc'⟩ := ok_acq.mp hok
      rw [sectionsFrom_cons_acq]
      intro s hs
      rw [List.mem_cons] at hs
      rcases hs with hs | hs
      · subst hs
        have : cmdOf st t = some c' := cmdOf_eq_some.mpr ⟨b', hc'⟩
        simp only [this, Option.getD_some]
        intro e; subst e; exact hcur _ _ hc'
      · refine ih _ c hwl (seen_next _ _ _ hseen) ?_ s hs
        intro t' b
        simp only [next, hc', cget_cset]
        split
        · intro h; cases h; exact hcur _ _ hc'
        · exact hcur _ _
    | rel t =>
      rw [sectionsFrom_cons_of_not_acq _ _ _ (by intro t h; cases h)]
      exact ih _ c hwl hseen hcur
    | acc t o w =>
      rw [sectionsFrom_cons_of_not_acq _ _ _ (by intro t h; cases h)]
      exact ih _ c hwl hseen hcur

theorem sections_split (tr : Trace) (c1 c2 : Cid) : ∀ (st : St), Inv st → wlFrom st tr = true →
    precedes tr c1 c2 = true →
    ∃ l1 l2, sectionsFrom st tr = l1 ++ l2 ∧ (∀ s ∈ l1, s.2.1 ≠ c2) ∧ (∀ s ∈ l2, s.2.1 ≠ c1) := by
  induction tr with
  | nil => intro st _ _ h; simp [precedes] at h
  | cons e rest ih =>
    intro st hinv h hp
    have h' := wlFrom_cons.mp h
    obtain ⟨hok, hwl⟩ := h'
    simp only [precedes, Bool.or_eq_true, Bool.and_eq_true] at hp
    rcases hp with ⟨hr, _⟩ | hp
    · -- `e` is the return of `c1`
      cases e with
      | ret t c =>
        simp only [isRet, beq_iff_eq] at hr
        subst hr
        obtain ⟨_, b, hc⟩ := ok_ret.mp hok
        refine ⟨[], _, rfl, by simp, ?_⟩
        show ∀ s ∈ sectionsFrom (next st (.ret t c)) rest, s.2.1 ≠ c
        refine no_sections_of_done rest _ c hwl (seen_next _ _ _ (hinv.seen _ _ _ hc)) ?_
        intro t' b'
        simp only [next, cget_cdel]
        split
        · intro h; cases h
        · intro h; exact ‹¬ t' = t› (hinv.inj _ _ _ _ _ h hc)
      | _ => simp [isRet] at hr
    · obtain ⟨l1, l2, hl, hl1, hl2⟩ := ih _ (inv_next hinv hok) hwl hp
      by_cases hacq : ∃ t, e = .acq t
      · obtain ⟨t, rfl⟩ := hacq
        obtain ⟨_, c', b', hc'⟩ := ok_acq.mp hok
        refine ⟨_ :: l1, l2, by rw [sectionsFrom_cons_acq, hl]; rfl, ?_, hl2⟩
        intro s hs
        rw [List.mem_cons] at hs
        rcases hs with hs | hs
        · subst hs
          have : cmdOf st t = some c' := cmdOf_eq_some.mpr ⟨b', hc'⟩
          simp only [this, Option.getD_some]
          intro e; subst e
          exact hasCall_fresh rest _ c' hwl (precedes_hasCall _ _ _ hp)
            (seen_next _ _ _ (hinv.seen _ _ _ hc'))
        · exact hl1 s hs
      · refine ⟨l1, l2, ?_, hl1, hl2⟩
        rw [sectionsFrom_cons_of_not_acq _ _ _ (fun t h => hacq ⟨t, h⟩), hl]

/-! ## program order -/

theorem precedes_cons (e : Ev) (rest : Trace) (c1 c2 : Cid) (h : precedes rest c1 c2 = true) :
    precedes (e :: rest) c1 c2 = true := by
  simp [precedes, h]

theorem hasCall_of_mem {tr : Trace} {t : Tid} {c : Cid} (h : Ev.call t c ∈ tr) :
    hasCall tr c = true := by
  simp only [hasCall, List.any_eq_true]
  exact ⟨_, h, by simp [isCall]⟩

/-- a thread inside command `c` returns from `c` before it calls anything else -/
theorem ret_before_next_call (tr : Trace) : ∀ (st : St) (t : Tid) (c c2 : Cid) (b : Bool),
    wlFrom st tr = true → cget st.cur t = some (c, b) → Ev.call t c2 ∈ tr →
    precedes tr c c2 = true := by
  induction tr with
  | nil => intro st t c c2 b _ _ h; cases h
  | cons e rest ih =>
    intro st t c c2 b h hc hm
    obtain ⟨hok, hwl⟩ := wlFrom_cons.mp h
    rw [List.mem_cons] at hm
    rcases hm with hm | hm
    · subst hm
      rw [(ok_call.mp hok).1] at hc; cases hc
    · cases e with
      | call t' c' =>
        have hne : t ≠ t' := by
          intro e; subst e; rw [(ok_call.mp hok).1] at hc; cases hc
        exact precedes_cons _ _ _ _ (ih _ t c c2 b hwl (by simp [next, cget_cset, hne, hc]) hm)
      | ret t' c' =>
        by_cases hne : t = t'
        · subst hne
          obtain ⟨_, b', hc'⟩ := ok_ret.mp hok
          rw [hc] at hc'
          cases hc'
          simp [precedes, isRet, hasCall_of_mem hm]
        · exact precedes_cons _ _ _ _ (ih _ t c c2 b hwl (by simp [next, cget_cdel, hne, hc]) hm)
      | acq t' =>
        obtain ⟨_, c', b', hc'⟩ := ok_acq.mp hok
        by_cases hne : t = t'
        · subst hne
          rw [hc] at hc'; cases hc'
          exact precedes_cons _ _ _ _ (ih _ t c c2 true hwl (by simp [next, cget_cset, hc]) hm)
        · exact precedes_cons _ _ _ _
            (ih _ t c c2 b hwl (by simp [next, hc', cget_cset, hne, hc]) hm)
      | rel t' => exact precedes_cons _ _ _ _ (ih _ t c c2 b hwl hc hm)
      | acc t' o w => exact precedes_cons _ _ _ _ (ih _ t c c2 b hwl hc hm)

theorem wlFrom_append_right (pre : Trace) : ∀ (st : St) (post : Trace),
    wlFrom st (pre ++ post) = true → ∃ st', wlFrom st' post = true := by
  induction pre with
  | nil => intro st post h; exact ⟨st, h⟩
  | cons e pre ih => intro st post h; exact ih _ post (wlFrom_cons.mp h).2

theorem precedes_append_left (pre post : Trace) (c1 c2 : Cid) (h : precedes post c1 c2 = true) :
    precedes (pre ++ post) c1 c2 = true := by
  induction pre with
  | nil => exact h
  | cons e pre ih => exact precedes_cons _ _ _ _ ih

theorem progBefore_precedes {st : St} {tr : Trace} {t : Tid} {c1 c2 : Cid}
    (h : wlFrom st tr = true) (hp : progBefore tr t c1 c2) : precedes tr c1 c2 = true := by
  obtain ⟨pre, post, rfl, hm⟩ := hp
  obtain ⟨st', h'⟩ := wlFrom_append_right pre st _ h
  refine precedes_append_left _ _ _ _ (precedes_cons _ _ _ _ ?_)
  exact ret_before_next_call post _ t c1 c2 false (wlFrom_cons.mp h').2
    (by simp [next, cget_cset]) hm

/-- two different calls of one thread are ordered one way or the other -/
theorem progBefore_total {tr : Trace} {t : Tid} {c1 c2 : Cid}
    (h1 : Ev.call t c1 ∈ tr) (h2 : Ev.call t c2 ∈ tr) (hne : c1 ≠ c2) :
    progBefore tr t c1 c2 ∨ progBefore tr t c2 c1 := by
  induction tr with
  | nil => cases h1
  | cons e rest ih =>
    rw [List.mem_cons] at h1 h2
    rcases h1 with h1 | h1 <;> rcases h2 with h2 | h2
    · rw [← h1] at h2; cases h2; exact absurd rfl hne
    · exact Or.inl ⟨[], rest, by simp [h1], h2⟩
    · exact Or.inr ⟨[], rest, by simp [h2], h1⟩
    · rcases ih h1 h2 with ⟨pre, post, rfl, hm⟩ | ⟨pre, post, rfl, hm⟩
      · exact Or.inl ⟨e :: pre, post, rfl, hm⟩
      · exact Or.inr ⟨e :: pre, post, rfl, hm⟩

/-! ## `lastOccs`, positions in lists -/

theorem mem_lastOccs (l : List Cid) (c : Cid) : c ∈ lastOccs l ↔ c ∈ l := by
  induction l with
  | nil => simp [lastOccs]
  | cons x l ih =>
    simp only [lastOccs, List.contains_eq_mem, decide_eq_true_eq]
    split
    · rw [ih, List.mem_cons]
      constructor
      · exact Or.inr
      · rintro (h | h)
        · subst h; assumption
        · exact h
    · simp [ih]

theorem nodup_lastOccs (l : List Cid) : (lastOccs l).Nodup := by
  induction l with
  | nil => simp [lastOccs]
  | cons x l ih =>
    simp only [lastOccs, List.contains_eq_mem, decide_eq_true_eq]
    split
    · exact ih
    · rw [List.nodup_cons, mem_lastOccs]; exact ⟨‹_›, ih⟩

theorem lastOccs_append (a b : List Cid) :
    lastOccs (a ++ b) = (lastOccs a).filter (fun x => !b.contains x) ++ lastOccs b := by
  induction a with
  | nil => simp [lastOccs]
  | cons x a ih =>
    simp only [List.cons_append, lastOccs, List.contains_eq_mem, decide_eq_true_eq, List.mem_append]
    by_cases h1 : x ∈ a
    · simp only [h1, true_or, if_true]; simpa using ih
    · by_cases h2 : x ∈ b
      · simp only [h1, h2, or_true, if_true, if_false, List.filter_cons]
        simpa [h2] using ih
      · simp only [h1, h2, or_self, if_false, List.filter_cons]
        simpa [h2] using ih

theorem lastOccs_of_nodup (l : List Cid) (h : l.Nodup) : lastOccs l = l := by
  induction l with
  | nil => rfl
  | cons x l ih =>
    rw [List.nodup_cons] at h
    simp [lastOccs, h.1, ih h.2]

theorem index_lt_of_split {α : Type} (P Q : α → Prop) (l l1 l2 : List α) (hl : l = l1 ++ l2)
    (h1 : ∀ s ∈ l1, ¬ Q s) (h2 : ∀ s ∈ l2, ¬ P s)
    (i j : Nat) (hi : i < l.length) (hj : j < l.length) (hP : P l[i]) (hQ : Q l[j]) : i < j := by
  subst hl
  have hi' : i < l1.length := by
    apply Decidable.byContradiction
    intro hge
    rw [List.getElem_append_right (Nat.le_of_not_lt hge)] at hP
    exact h2 _ (List.getElem_mem _) hP
  have hj' : l1.length ≤ j := by
    apply Decidable.byContradiction
    intro hlt
    rw [List.getElem_append_left (Nat.lt_of_not_le hlt)] at hQ
    exact h1 _ (List.getElem_mem _) hQ
  omega

theorem idxOf_lt_of_split (l m1 m2 : List Cid) (c1 c2 : Cid) (hl : l = m1 ++ m2)
    (hc1 : c1 ∈ l) (h1 : c2 ∉ m1) (h2 : c1 ∉ m2) : l.idxOf c1 < l.idxOf c2 := by
  subst hl
  have hm : c1 ∈ m1 := by
    rcases List.mem_append.mp hc1 with h | h
    · exact h
    · exact absurd h h2
  rw [List.idxOf_append, List.idxOf_append, if_pos hm, if_neg h1]
  have := List.idxOf_lt_length_iff.mpr hm
  omega

theorem cmdOrder_split {st : St} {tr : Trace} {c1 c2 : Cid} {l1 l2 : List Sec}
    (hl : sectionsFrom st tr = l1 ++ l2) (h1 : ∀ s ∈ l1, s.2.1 ≠ c2) (h2 : ∀ s ∈ l2, s.2.1 ≠ c1) :
    ∃ m1 m2, lastOccs ((sectionsFrom st tr).map (·.2.1)) = m1 ++ m2 ∧ c2 ∉ m1 ∧ c1 ∉ m2 := by
  rw [hl, List.map_append, lastOccs_append]
  refine ⟨_, _, rfl, ?_, ?_⟩
  · intro h
    have := (List.mem_filter.mp h).1
    rw [mem_lastOccs, List.mem_map] at this
    obtain ⟨s, hs, he⟩ := this
    exact h1 s hs he
  · intro h
    rw [mem_lastOccs, List.mem_map] at h
    obtain ⟨s, hs, he⟩ := h
    exact h2 s hs he

/-! ## mutual exclusion -/

theorem holder_next (st : St) (e : Ev) (p : Trace) :
    holderFrom st.holder (e :: p) = holderFrom (next st e).holder p := by
  cases e <;> rfl

theorem mutex_from (tr : Trace) : ∀ (st : St) (i : Nat), wlFrom st tr = true →
    (∀ t, acqCount t (tr.take i) + (if st.holder = some t then 1 else 0) =
      relCount t (tr.take i) + (if holderFrom st.holder (tr.take i) = some t then 1 else 0)) ∧
    (∀ t o w, tr[i]? = some (.acc t o w) → holderFrom st.holder (tr.take i) = some t) := by
  induction tr with
  | nil => intro st i _; simp [acqCount, relCount, holderFrom]
  | cons e rest ih =>
    intro st i h
    obtain ⟨hok, hwl⟩ := wlFrom_cons.mp h
    cases i with
    | zero =>
      refine ⟨by simp [acqCount, relCount, holderFrom], ?_⟩
      intro t o w he
      simp only [List.getElem?_cons_zero, Option.some.injEq] at he
      subst he
      simpa [holderFrom] using ok_acc.mp hok
    | succ i =>
      obtain ⟨ih1, ih2⟩ := ih _ i hwl
      simp only [List.take_succ_cons, List.getElem?_cons_succ, holder_next]
      refine ⟨?_, ih2⟩
      intro t
      have := ih1 t
      cases e with
      | call t' c => exact this
      | ret t' c => exact this
      | acc t' o w => exact this
      | acq t' =>
        have hh := (ok_acq.mp hok).1
        simp only [acqCount, relCount, next, hh, Option.some.injEq] at this ⊢
        simp only [reduceCtorEq, if_false]
        omega
      | rel t' =>
        have hh := ok_rel.mp hok
        simp only [acqCount, relCount, next, hh, Option.some.injEq] at this ⊢
        simp only [reduceCtorEq, if_false] at this
        omega

/-! ## the reporting checker agrees with `wlFrom` -/

theorem firstBad_eq_none (tr : Trace) : ∀ (st : St) (i : Nat),
    firstBad st i tr = none ↔ wlFrom st tr = true := by
  induction tr with
  | nil => intro st i; cases h : st.holder <;> simp [firstBad, wlFrom, h]
  | cons e rest ih =>
    intro st i
    simp only [firstBad, wlFrom, ok, Bool.and_eq_true]
    cases h : bad st e with
    | none => simp [ih]
    | some r => simp

/-! ## the serial schedule is well-locked: simulation -/

theorem cmdOf_eq_none {st : St} {t} : cmdOf st t = none ↔ cget st.cur t = none := by
  simp [cmdOf]

@[simp] theorem cmdOf_next_call (st : St) (t c t') :
    cmdOf (next st (.call t c)) t' = if t' = t then some c else cmdOf st t' := by
  simp only [cmdOf, next, cget_cset]; split <;> rfl

@[simp] theorem cmdOf_next_ret (st : St) (t c t') :
    cmdOf (next st (.ret t c)) t' = if t' = t then none else cmdOf st t' := by
  simp only [cmdOf, next, cget_cdel]; split <;> rfl

@[simp] theorem cmdOf_next_acq (st : St) (t t') : cmdOf (next st (.acq t)) t' = cmdOf st t' := by
  simp only [cmdOf, next]
  cases h : cget st.cur t with
  | none => rfl
  | some v =>
    simp only [cget_cset]
    split
    · rename_i e; subst e; simp [h]
    · rfl

@[simp] theorem cmdOf_next_rel (st : St) (t t') : cmdOf (next st (.rel t)) t' = cmdOf st t' := rfl
@[simp] theorem cmdOf_next_acc (st : St) (t o w t') :
    cmdOf (next st (.acc t o w)) t' = cmdOf st t' := rfl

theorem ok_call' {st : St} {t c} :
    ok st (.call t c) = true ↔ cmdOf st t = none ∧ c ∉ st.seen := by
  rw [ok_call, cmdOf_eq_none]

theorem ok_ret' {st : St} {t c} :
    ok st (.ret t c) = true ↔ st.holder ≠ some t ∧ cmdOf st t = some c := by
  rw [ok_ret, cmdOf_eq_some]

theorem ok_acq' {st : St} {t} :
    ok st (.acq t) = true ↔ st.holder = none ∧ ∃ c, cmdOf st t = some c := by
  rw [ok_acq]
  constructor
  · rintro ⟨h, c, b, hc⟩; exact ⟨h, c, cmdOf_eq_some.mpr ⟨b, hc⟩⟩
  · rintro ⟨h, c, hc⟩
    obtain ⟨b, hb⟩ := cmdOf_eq_some.mp hc
    exact ⟨h, c, b, hb⟩

theorem accsUntilRel_by_holder (tr : Trace) : ∀ (st : St) (t : Tid), wlFrom st tr = true →
    st.holder = some t → ∀ e ∈ accsUntilRel tr, ∃ o w, e = .acc t o w := by
  induction tr with
  | nil => intro st t _ _ e he; simp [accsUntilRel] at he
  | cons e rest ih =>
    intro st t h hh
    obtain ⟨hok, hwl⟩ := wlFrom_cons.mp h
    cases e with
    | call t' c => exact ih _ t hwl hh
    | ret t' c => exact ih _ t hwl hh
    | acq t' => rw [(ok_acq.mp hok).1] at hh; cases hh
    | rel t' => intro e he; simp [accsUntilRel] at he
    | acc t' o w =>
      have := ok_acc.mp hok
      rw [hh] at this; cases this
      intro e he
      simp only [accsUntilRel, List.mem_cons] at he
      rcases he with he | he
      · exact ⟨o, w, he⟩
      · exact ih _ t hwl hh e he

theorem wlFrom_accs (accs : List Ev) (t : Tid) (st : St) (X : Trace)
    (ha : ∀ e ∈ accs, ∃ o w, e = .acc t o w) (hh : st.holder = some t) :
    wlFrom st (accs ++ X) = wlFrom st X := by
  induction accs with
  | nil => rfl
  | cons e accs ih =>
    obtain ⟨o, w, rfl⟩ := ha e (List.mem_cons_self ..)
    have : ok st (.acc t o w) = true := ok_acc.mpr hh
    simp only [List.cons_append, wlFrom, this, Bool.true_and]
    exact ih (fun e he => ha e (List.mem_cons_of_mem _ he))

theorem accesses_of_accs (accs : List Ev) (t : Tid) (ha : ∀ e ∈ accs, ∃ o w, e = .acc t o w)
    (X : Trace) : accesses (accs ++ X) = accs ++ accesses X := by
  induction accs with
  | nil => rfl
  | cons e accs ih =>
    obtain ⟨o, w, rfl⟩ := ha e (List.mem_cons_self ..)
    simp only [List.cons_append, accesses]
    rw [ih (fun e he => ha e (List.mem_cons_of_mem _ he))]

theorem sectionsFrom_accs (accs : List Ev) (t : Tid) (st : St) (X : Trace)
    (ha : ∀ e ∈ accs, ∃ o w, e = .acc t o w) :
    sectionsFrom st (accs ++ X) = sectionsFrom st X := by
  induction accs with
  | nil => rfl
  | cons e accs ih =>
    obtain ⟨o, w, rfl⟩ := ha e (List.mem_cons_self ..)
    exact ih (fun e he => ha e (List.mem_cons_of_mem _ he))

theorem accsUntilRel_accs (accs : List Ev) (t t' : Tid) (X : Trace)
    (ha : ∀ e ∈ accs, ∃ o w, e = .acc t o w) :
    accsUntilRel (accs ++ .rel t' :: X) = accs := by
  induction accs with
  | nil => rfl
  | cons e accs ih =>
    obtain ⟨o, w, rfl⟩ := ha e (List.mem_cons_self ..)
    simp only [List.cons_append, accsUntilRel]
    rw [ih (fun e he => ha e (List.mem_cons_of_mem _ he))]

def serialIn : Bool → Nxt → Bool
  | false, .none => true
  | true, .acq => true
  | true, .none => true
  | _, _ => false

/-- `st` is the state of the scan of the recorded trace, `rest` what remains of it, `st'` the state of
the scan of the serial schedule emitted so far -/
structure Sim (st st' : St) (rest : Trace) : Prop where
  holder : st'.holder = none
  cur_none : ∀ t, cget st.cur t = none → cmdOf st' t = none
  cur_some : ∀ t c b, cget st.cur t = some (c, b) →
    cmdOf st' t = if serialIn b (nextOf t rest) then some c else none
  seen_sub : ∀ c ∈ st'.seen, c ∈ st.seen
  seen_pending : ∀ c ∈ st'.seen, ∀ t, cget st.cur t = some (c, false) → nextOf t rest ≠ .acq

/-- the critical section in the serial schedule -/
theorem serial_mid (st1 : St) (t : Tid) (c : Cid) (accs : List Ev)
    (hh : st1.holder = none) (hc : cmdOf st1 t = some c)
    (ha : ∀ e ∈ accs, ∃ o w, e = .acc t o w) :
    ∃ st3 : St, st3.holder = none ∧ (∀ t', cmdOf st3 t' = cmdOf st1 t') ∧ st3.seen = st1.seen ∧
      (∀ X, sectionsFrom st1 (.acq t :: (accs ++ .rel t :: X)) = (t, c, accs) :: sectionsFrom st3 X) ∧
      ∀ X, wlFrom st1 (.acq t :: (accs ++ .rel t :: X)) = wlFrom st3 X := by
  refine ⟨next (next st1 (.acq t)) (.rel t), rfl, by simp, rfl, ?_, ?_⟩
  · intro X
    rw [sectionsFrom_cons_acq, hc, accsUntilRel_accs accs t t X ha, sectionsFrom_accs accs t _ _ ha]
    rfl
  intro X
  have h1 : ok st1 (.acq t) = true := ok_acq'.mpr ⟨hh, c, hc⟩
  have h2 : (next st1 (.acq t)).holder = some t := rfl
  have h3 : ok (next st1 (.acq t)) (.rel t) = true := ok_rel.mpr h2
  rw [wlFrom, h1, Bool.true_and, wlFrom_accs accs t _ _ ha h2, wlFrom, h3, Bool.true_and]

/-- the block emitted for a critical section -/
theorem serial_block (st' : St) (t : Tid) (c : Cid) (b r : Bool) (accs : List Ev)
    (hh : st'.holder = none) (hc : cmdOf st' t = if b then some c else none)
    (hfresh : b = false → c ∉ st'.seen) (ha : ∀ e ∈ accs, ∃ o w, e = .acc t o w) :
    ∃ st'' : St, st''.holder = none ∧
      (∀ t', cmdOf st'' t' = if t' = t then (if r then none else some c) else cmdOf st' t') ∧
      (∀ c' ∈ st''.seen, c' = c ∨ c' ∈ st'.seen) ∧
      (∀ X, sectionsFrom st' ((if b then [] else [.call t c]) ++ .acq t :: accs ++ [.rel t]
          ++ (if r then [.ret t c] else []) ++ X) = (t, c, accs) :: sectionsFrom st'' X) ∧
      ∀ X, wlFrom st'' X = true →
        wlFrom st' ((if b then [] else [.call t c]) ++ .acq t :: accs ++ [.rel t]
          ++ (if r then [.ret t c] else []) ++ X) = true := by
  -- the `call`
  obtain ⟨st1, h1h, h1c, h1s, h1x, h1w⟩ : ∃ st1 : St, st1.holder = none ∧
      (∀ t', cmdOf st1 t' = if t' = t then some c else cmdOf st' t') ∧
      (∀ c' ∈ st1.seen, c' = c ∨ c' ∈ st'.seen) ∧
      (∀ X, sectionsFrom st' ((if b then [] else [.call t c]) ++ X) = sectionsFrom st1 X) ∧
      ∀ X, wlFrom st' ((if b then [] else [.call t c]) ++ X) = wlFrom st1 X := by
    cases b with
    | true =>
      refine ⟨st', hh, ?_, fun c' h => Or.inr h, fun X => rfl, fun X => rfl⟩
      intro t'; split
      · rename_i e; subst e; simpa using hc
      · rfl
    | false =>
      refine ⟨next st' (.call t c), hh, by simp, ?_, fun X => rfl, ?_⟩
      · intro c' h; simpa [next] using h
      · intro X
        have : ok st' (.call t c) = true := ok_call'.mpr ⟨by simpa using hc, hfresh rfl⟩
        simp [wlFrom, this]
  -- the section
  obtain ⟨st3, h3h, h3c, h3s, h3x, h3w⟩ := serial_mid st1 t c accs h1h (by simp [h1c]) ha
  -- the `ret`
  obtain ⟨st4, h4h, h4c, h4s, h4x, h4w⟩ : ∃ st4 : St, st4.holder = none ∧
      (∀ t', cmdOf st4 t' = if t' = t then (if r then none else some c) else cmdOf st3 t') ∧
      st4.seen = st3.seen ∧
      (∀ X, sectionsFrom st3 ((if r then [.ret t c] else []) ++ X) = sectionsFrom st4 X) ∧
      ∀ X, wlFrom st3 ((if r then [.ret t c] else []) ++ X) = wlFrom st4 X := by
    cases r with
    | false =>
      refine ⟨st3, h3h, ?_, rfl, fun X => rfl, fun X => rfl⟩
      intro t'; split
      · rename_i e; subst e; simp [h3c, h1c]
      · rfl
    | true =>
      refine ⟨next st3 (.ret t c), h3h, by simp, rfl, fun X => rfl, ?_⟩
      intro X
      have : ok st3 (.ret t c) = true := ok_ret'.mpr ⟨by simp [h3h], by simp [h3c, h1c]⟩
      simp [wlFrom, this]
  have e : ∀ X, (if b then [] else [Ev.call t c]) ++ Ev.acq t :: accs ++ [Ev.rel t]
          ++ (if r then [Ev.ret t c] else []) ++ X
        = (if b then [] else [Ev.call t c]) ++ (Ev.acq t :: (accs ++ Ev.rel t ::
            ((if r then [Ev.ret t c] else []) ++ X))) := by
    intro X; simp [List.append_assoc]
  refine ⟨st4, h4h, ?_, ?_, ?_, ?_⟩
  · intro t'
    rw [h4c, h3c, h1c]
    split <;> rfl
  · intro c' h; rw [h4s, h3s] at h; exact h1s c' h
  · intro X; rw [e, h1x, h3x, h4x]
  · intro X hX
    have e : (if b then [] else [Ev.call t c]) ++ Ev.acq t :: accs ++ [Ev.rel t]
          ++ (if r then [Ev.ret t c] else []) ++ X
        = (if b then [] else [Ev.call t c]) ++ (Ev.acq t :: (accs ++ Ev.rel t ::
            ((if r then [Ev.ret t c] else []) ++ X))) := by
      simp [List.append_assoc]
    rw [e, h1w, h3w, h4w]; exact hX

theorem sim_call {st st' st'' : St} {t : Tid} {c : Cid} {rest : Trace}
    (hinv : Inv st) (sim : Sim st st' (.call t c :: rest)) (hok : ok st (.call t c) = true)
    (hh : st''.holder = none)
    (hc : ∀ t', cmdOf st'' t' =
      if t' = t then (if nextOf t rest = .none then some c else none) else cmdOf st' t')
    (hs : ∀ c' ∈ st''.seen, (c' = c ∧ nextOf t rest ≠ .acq) ∨ c' ∈ st'.seen) :
    Sim (next st (.call t c)) st'' rest := by
  obtain ⟨hcn, hcf⟩ := ok_call.mp hok
  have hnx : ∀ t', nextOf t' (Ev.call t c :: rest) = nextOf t' rest := fun _ => rfl
  refine ⟨hh, ?_, ?_, ?_, ?_⟩
  · intro t' h
    simp only [next, cget_cset] at h
    split at h
    · cases h
    · rw [hc, if_neg ‹_›]; exact sim.cur_none t' h
  · intro t' c' b h
    simp only [next, cget_cset] at h
    split at h
    · cases h; rename_i e; subst e
      rw [hc, if_pos rfl]
      cases hn : nextOf t' rest <;> simp [serialIn]
    · rw [hc, if_neg ‹_›, ← hnx]; exact sim.cur_some t' c' b h
  · intro c' h
    show c' ∈ c :: st.seen
    rcases hs c' h with ⟨e, _⟩ | h
    · simp [e]
    · exact List.mem_cons_of_mem _ (sim.seen_sub c' h)
  · intro c' h t' hc'
    simp only [next, cget_cset] at hc'
    split at hc'
    · cases hc'; rename_i e; subst e
      rcases hs _ h with ⟨_, hn⟩ | h
      · exact hn
      · exact absurd (sim.seen_sub _ h) hcf
    · rcases hs c' h with ⟨e, _⟩ | h
      · subst e; exact absurd (hinv.seen _ _ _ hc') hcf
      · rw [← hnx]; exact sim.seen_pending c' h t' hc'

theorem sim_ret {st st' : St} {t : Tid} {c : Cid} {rest : Trace}
    (sim : Sim st st' (.ret t c :: rest)) (hok : ok st (.ret t c) = true) :
    Sim (next st (.ret t c)) st' rest := by
  obtain ⟨_, b, hcb⟩ := ok_ret.mp hok
  have hnx : ∀ t', t' ≠ t → nextOf t' (Ev.ret t c :: rest) = nextOf t' rest := by
    intro t' h; simp [nextOf, Ne.symm h]
  refine ⟨sim.holder, ?_, ?_, sim.seen_sub, ?_⟩
  · intro t' h
    simp only [next, cget_cdel] at h
    split at h
    · rename_i e; subst e
      have := sim.cur_some t' c b hcb
      simpa [nextOf, serialIn] using this
    · exact sim.cur_none t' h
  · intro t' c' b' h
    simp only [next, cget_cdel] at h
    split at h
    · cases h
    · rw [← hnx t' ‹_›]; exact sim.cur_some t' c' b' h
  · intro c' h t' hc'
    simp only [next, cget_cdel] at hc'
    split at hc'
    · cases hc'
    · rw [← hnx t' ‹_›]; exact sim.seen_pending c' h t' hc'

theorem sim_acq {st st' st'' : St} {t : Tid} {c : Cid} {b : Bool} {rest : Trace}
    (hinv : Inv st) (sim : Sim st st' (.acq t :: rest)) (hcb : cget st.cur t = some (c, b))
    (hh : st''.holder = none)
    (hc : ∀ t', cmdOf st'' t' =
      if t' = t then (if (decide (nextOf t rest = .ret)) then none else some c) else cmdOf st' t')
    (hs : ∀ c' ∈ st''.seen, c' = c ∨ c' ∈ st'.seen) :
    Sim (next st (.acq t)) st'' rest := by
  have hnx : ∀ t', t' ≠ t → nextOf t' (Ev.acq t :: rest) = nextOf t' rest := by
    intro t' h; simp [nextOf, Ne.symm h]
  refine ⟨hh, ?_, ?_, ?_, ?_⟩
  · intro t' h
    simp only [next, hcb, cget_cset] at h
    split at h
    · cases h
    · rw [hc, if_neg ‹_›]; exact sim.cur_none t' h
  · intro t' c' b' h
    simp only [next, hcb, cget_cset] at h
    split at h
    · cases h; rename_i e; subst e
      rw [hc, if_pos rfl]
      cases hn : nextOf t' rest <;> simp [serialIn]
    · rw [hc, if_neg ‹_›, ← hnx t' ‹_›]; exact sim.cur_some t' c' b' h
  · intro c' h
    show c' ∈ st.seen
    rcases hs c' h with e | h
    · subst e; exact hinv.seen _ _ _ hcb
    · exact sim.seen_sub c' h
  · intro c' h t' hc'
    simp only [next, hcb, cget_cset] at hc'
    split at hc'
    · cases hc'
    · rcases hs c' h with e | h
      · subst e; exact absurd (hinv.inj _ _ _ _ _ hc' hcb) ‹_›
      · rw [← hnx t' ‹_›]; exact sim.seen_pending c' h t' hc'

theorem serial_wl (tr : Trace) : ∀ (st st' : St), Inv st → Sim st st' tr → wlFrom st tr = true →
    wlFrom st' (serialFrom st tr) = true ∧
    sectionsFrom st' (serialFrom st tr) = sectionsFrom st tr := by
  induction tr with
  | nil => intro st st' _ sim _; simp [serialFrom, wlFrom, sim.holder, sectionsFrom]
  | cons e rest ih =>
    intro st st' hinv sim h
    obtain ⟨hok, hwl⟩ := wlFrom_cons.mp h
    have hinv' := inv_next hinv hok
    cases e with
    | call t c =>
      obtain ⟨hcn, hcf⟩ := ok_call.mp hok
      have hc0 : cmdOf st' t = none := sim.cur_none t hcn
      have hf0 : c ∉ st'.seen := fun h => hcf (sim.seen_sub c h)
      have hok' : ok st' (.call t c) = true := ok_call'.mpr ⟨hc0, hf0⟩
      rw [sectionsFrom_cons_of_not_acq st _ _ (by intro t h; cases h)]
      simp only [serialFrom]
      cases hn : nextOf t rest with
      | acq =>
        refine ih _ st' hinv' (sim_call hinv sim hok sim.holder ?_ ?_) hwl
        · intro t'; split
          · rename_i e; subst e; simp [hn, hc0]
          · rfl
        · intro c' h; exact Or.inr h
      | ret =>
        have hok2 : ok (next st' (.call t c)) (.ret t c) = true :=
          ok_ret'.mpr ⟨by show st'.holder ≠ some t; simp [sim.holder], by simp⟩
        simp only [List.cons_append, List.nil_append, wlFrom, hok', hok2, Bool.true_and]
        refine ih _ (next (next st' (.call t c)) (.ret t c)) hinv'
          (sim_call hinv sim hok sim.holder ?_ ?_) hwl
        · intro t'; simp only [cmdOf_next_ret, cmdOf_next_call, hn]
          split <;> simp
        · intro c' h
          have h : c' ∈ c :: st'.seen := h
          rcases List.mem_cons.mp h with e | h
          · exact Or.inl ⟨e, by simp [hn]⟩
          · exact Or.inr h
      | none =>
        simp only [List.cons_append, List.nil_append, wlFrom, hok', Bool.true_and]
        refine ih _ (next st' (.call t c)) hinv' (sim_call hinv sim hok sim.holder ?_ ?_) hwl
        · intro t'; simp only [cmdOf_next_call, hn]
          split <;> simp
        · intro c' h
          have h : c' ∈ c :: st'.seen := h
          rcases List.mem_cons.mp h with e | h
          · exact Or.inl ⟨e, by simp [hn]⟩
          · exact Or.inr h
    | ret t c => exact ih _ st' hinv' (sim_ret sim hok) hwl
    | acq t =>
      obtain ⟨hh, c, b, hcb⟩ := ok_acq.mp hok
      have ha := accsUntilRel_by_holder rest _ t hwl rfl
      have hc0 : cmdOf st' t = if b then some c else none := by
        have := sim.cur_some t c b hcb
        cases b <;> simpa [nextOf, serialIn] using this
      have hf0 : b = false → c ∉ st'.seen := by
        intro e h; subst e
        exact sim.seen_pending c h t hcb (by simp [nextOf])
      obtain ⟨st'', h1, h2, h3, h4, h5⟩ :=
        serial_block st' t c b (decide (nextOf t rest = .ret)) (accsUntilRel rest) sim.holder hc0 hf0 ha
      obtain ⟨ih1, ih2⟩ := ih _ st'' hinv' (sim_acq hinv sim hcb h1 h2 h3) hwl
      have hcm : cmdOf st t = some c := cmdOf_eq_some.mpr ⟨b, hcb⟩
      simp only [serialFrom, hcb, sectionsFrom_cons_acq, hcm, Option.getD_some]
      refine ⟨?_, ?_⟩
      · have := h5 _ ih1
        simpa using this
      · have := h4 (serialFrom (next st (Ev.acq t)) rest)
        rw [ih2] at this
        simpa using this
    | rel t =>
      exact ih _ st' hinv' ⟨sim.holder, sim.cur_none, sim.cur_some, sim.seen_sub, sim.seen_pending⟩ hwl
    | acc t o w =>
      exact ih _ st' hinv' ⟨sim.holder, sim.cur_none, sim.cur_some, sim.seen_sub, sim.seen_pending⟩ hwl

theorem sim_init (tr : Trace) : Sim St.init St.init tr :=
  ⟨rfl, by simp [St.init, cmdOf, cget], by simp [St.init, cget], by simp [St.init],
    by simp [St.init]⟩

/-! ## the serial schedule has the serial shape; its accesses -/

theorem accsUntilRel_all_acc (tr : Trace) : ∀ e ∈ accsUntilRel tr, ∃ t o w, e = .acc t o w := by
  induction tr with
  | nil => intro e he; simp [accsUntilRel] at he
  | cons x rest ih =>
    cases x with
    | acc t o w =>
      intro e he
      simp only [accsUntilRel, List.mem_cons] at he
      rcases he with he | he
      · exact ⟨t, o, w, he⟩
      · exact ih e he
    | rel t => intro e he; simp [accsUntilRel] at he
    | call t c => exact ih
    | ret t c => exact ih
    | acq t => exact ih

theorem isSerial_accs (accs : List Ev) (ha : ∀ e ∈ accs, ∃ t o w, e = Ev.acc t o w) (t : Tid)
    (X : Trace) : isSerialFrom true (accs ++ .rel t :: X) = isSerialFrom false X := by
  induction accs with
  | nil => rfl
  | cons e accs ih =>
    obtain ⟨t', o, w, rfl⟩ := ha e (List.mem_cons_self ..)
    exact ih (fun e he => ha e (List.mem_cons_of_mem _ he))

theorem serialFrom_isSerial (tr : Trace) : ∀ st, isSerialFrom false (serialFrom st tr) = true := by
  induction tr with
  | nil => intro st; rfl
  | cons e rest ih =>
    intro st
    cases e with
    | call t c =>
      simp only [serialFrom]
      cases nextOf t rest <;> simp [isSerialFrom, ih]
    | ret t c => exact ih _
    | rel t => exact ih _
    | acc t o w => exact ih _
    | acq t =>
      have hb := isSerial_accs (accsUntilRel rest) (accsUntilRel_all_acc rest) t
      simp only [serialFrom]
      cases cget st.cur t with
      | none => simp [isSerialFrom, hb, ih]
      | some v =>
        obtain ⟨c, b⟩ := v
        cases b <;> by_cases hr : nextOf t rest = .ret <;> simp [isSerialFrom, hb, hr, ih]

/-- every critical section belongs to a command called by its thread -/
theorem section_called (tr : Trace) : ∀ (st : St), wlFrom st tr = true →
    ∀ s ∈ sectionsFrom st tr, (∃ b, cget st.cur s.1 = some (s.2.1, b)) ∨ Ev.call s.1 s.2.1 ∈ tr := by
  induction tr with
  | nil => intro st _ s hs; simp [sectionsFrom] at hs
  | cons e rest ih =>
    intro st h s hs
    obtain ⟨hok, hwl⟩ := wlFrom_cons.mp h
    cases e with
    | call t c =>
      rcases ih _ hwl s hs with ⟨b, hb⟩ | hm
      · simp only [next, cget_cset] at hb
        split at hb
        · cases hb; rename_i e; right; rw [e]; exact List.mem_cons_self ..
        · exact Or.inl ⟨b, hb⟩
      · exact Or.inr (List.mem_cons_of_mem _ hm)
    | ret t c =>
      rcases ih _ hwl s hs with ⟨b, hb⟩ | hm
      · simp only [next, cget_cdel] at hb
        split at hb
        · cases hb
        · exact Or.inl ⟨b, hb⟩
      · exact Or.inr (List.mem_cons_of_mem _ hm)
    | acq t =>
      obtain ⟨_, c, b, hcb⟩ := ok_acq.mp hok
      rw [sectionsFrom_cons_acq, List.mem_cons] at hs
      rcases hs with hs | hs
      · subst hs
        have : cmdOf st t = some c := cmdOf_eq_some.mpr ⟨b, hcb⟩
        simp only [this, Option.getD_some]
        exact Or.inl ⟨b, hcb⟩
      · rcases ih _ hwl s hs with ⟨b', hb⟩ | hm
        · simp only [next, hcb, cget_cset] at hb
          split at hb
          · cases hb; rename_i e; rw [e]; exact Or.inl ⟨b, hcb⟩
          · exact Or.inl ⟨b', hb⟩
        · exact Or.inr (List.mem_cons_of_mem _ hm)
    | rel t =>
      rcases ih _ hwl s hs with hb | hm
      · exact Or.inl hb
      · exact Or.inr (List.mem_cons_of_mem _ hm)
    | acc t o w =>
      rcases ih _ hwl s hs with hb | hm
      · exact Or.inl hb
      · exact Or.inr (List.mem_cons_of_mem _ hm)

/-- the accesses of a critical section are performed by the thread that owns the section -/
theorem section_accs_owner (tr : Trace) : ∀ (st : St), wlFrom st tr = true →
    ∀ s ∈ sectionsFrom st tr, ∀ e ∈ s.2.2, ∃ o w, e = Ev.acc s.1 o w := by
  induction tr with
  | nil => intro st _ s hs; simp [sectionsFrom] at hs
  | cons e rest ih =>
    intro st h s hs
    obtain ⟨hok, hwl⟩ := wlFrom_cons.mp h
    by_cases hacq : ∃ t, e = .acq t
    · obtain ⟨t, rfl⟩ := hacq
      rw [sectionsFrom_cons_acq, List.mem_cons] at hs
      rcases hs with hs | hs
      · subst hs; exact accsUntilRel_by_holder rest _ t hwl rfl
      · exact ih _ hwl s hs
    · rw [sectionsFrom_cons_of_not_acq _ _ _ (fun t h => hacq ⟨t, h⟩)] at hs
      exact ih _ hwl s hs

end FR.Lockset
