import FR.Proofs.ErrSys
import FR.Proofs.BufIndep
/-!
# After the fix of KF-1: transaction queues are clean, EXEC does not take the assertion path

The traversal of the command layer (`runCommand` and everything below it) for ONE relation, `Small s0 s`:
"`s` is `s0` after steps that keep every connection's id and `dead` flag, leave each transaction queue as it is or
reset it (to `none` / `some []`), never clear the `fault` marker, leave `crashed` alone and push only pub/sub
messages on the reply list".  Everything below `processCommand` is such a step except (i) the append to the queue
(done by `processCommand` itself), (ii) the reply of the command (emitted by `processCommand` itself), (iii) EXEC
(treated by hand: `execCmd_spec`) and (iv) (P)SUBSCRIBE / (P)UNSUBSCRIBE (whose acknowledgements are replies, not
messages; treated by hand).  The descent re-uses the `pres` tactic of `History.lean`.
-/
namespace FR.C04k
open FR FR.M FR.ErrSys

/-! ## 1. connection records: what a small step may do -/

/-- one connection record across a small step: same id, same `dead` and `closed` flags, the queue kept or reset -/
def ConnStep (x x' : Conn) : Prop :=
  x'.id = x.id ∧ x'.dead = x.dead ∧ x'.closed = x.closed ∧ (x'.tx = x.tx ∨ x'.tx = none ∨ x'.tx = some [])

theorem ConnStep.refl (x : Conn) : ConnStep x x := ⟨rfl, rfl, rfl, .inl rfl⟩

theorem ConnStep.trans {x y z : Conn} (h1 : ConnStep x y) (h2 : ConnStep y z) : ConnStep x z := by
  obtain ⟨a1, a2, a4, a3⟩ := h1
  obtain ⟨b1, b2, b4, b3⟩ := h2
  refine ⟨b1.trans a1, b2.trans a2, b4.trans a4, ?_⟩
  rcases b3 with b3 | b3 | b3
  · rw [b3]; exact a3
  · exact .inr (.inl b3)
  · exact .inr (.inr b3)

/-- two lists of the same length, pointwise related -/
inductive Forall₂ {α : Type} (R : α → α → Prop) : List α → List α → Prop
  | nil : Forall₂ R [] []
  | cons {a b : α} {l l' : List α} : R a b → Forall₂ R l l' → Forall₂ R (a :: l) (b :: l')

/-- the connection lists of two states: same length, pointwise `ConnStep` -/
def ConnsLe (s s' : Sys) : Prop := Forall₂ ConnStep s.srv.conns s'.srv.conns

theorem forall₂_refl {α} {R : α → α → Prop} (h : ∀ a, R a a) : ∀ l : List α, Forall₂ R l l
  | [] => .nil
  | a :: l => .cons (h a) (forall₂_refl h l)

theorem forall₂_trans {α} {R : α → α → Prop} (h : ∀ a b c, R a b → R b c → R a c) :
    ∀ {l1 l2 l3 : List α}, Forall₂ R l1 l2 → Forall₂ R l2 l3 → Forall₂ R l1 l3
  | _, _, _, .nil, .nil => .nil
  | _, _, _, .cons h1 t1, .cons h2 t2 => .cons (h _ _ _ h1 h2) (forall₂_trans h t1 t2)

theorem forall₂_map_right {α} {R : α → α → Prop} (g : α → α) (h : ∀ a, R a (g a)) :
    ∀ l : List α, Forall₂ R l (l.map g)
  | [] => .nil
  | a :: l => .cons (h a) (forall₂_map_right g h l)

theorem ConnsLe.refl (s : Sys) : ConnsLe s s := forall₂_refl ConnStep.refl _

theorem ConnsLe.trans {a b c : Sys} (h1 : ConnsLe a b) (h2 : ConnsLe b c) : ConnsLe a c :=
  forall₂_trans (R := ConnStep) (fun _ _ _ => ConnStep.trans) h1 h2

theorem ConnsLe.of_eq {s s' : Sys} (h : s'.srv.conns = s.srv.conns) : ConnsLe s s' := by
  unfold ConnsLe; rw [h]; exact forall₂_refl ConnStep.refl _

theorem ConnsLe.mapConns (s : Sys) (g : Conn → Conn) (h : ∀ x, ConnStep x (g x)) : ConnsLe s (s.mapConns g) :=
  forall₂_map_right g h _

theorem ConnsLe.updConn (s : Sys) (c : Nat) (f : Conn → Conn) (h : ∀ x, ConnStep x (f x)) :
    ConnsLe s (s.updConn c f) := by
  rw [Sys.updConn_eq_mapConns]
  refine ConnsLe.mapConns s _ (fun x => ?_)
  split
  · exact h x
  · exact ConnStep.refl x

/-- the record found for `c` moves by a `ConnStep`, and registration is kept -/
theorem forall₂_find {l l' : List Conn} (h : Forall₂ ConnStep l l') (c : Nat) :
    (l.find? (·.id == c) = none ∧ l'.find? (·.id == c) = none) ∨
      ∃ x x', l.find? (·.id == c) = some x ∧ l'.find? (·.id == c) = some x' ∧ ConnStep x x' := by
  induction h with
  | nil => exact .inl ⟨rfl, rfl⟩
  | @cons a b l l' hab _ ih =>
    simp only [List.find?_cons, hab.1]
    cases hc : (a.id == c) with
    | true => exact .inr ⟨a, b, rfl, rfl, hab⟩
    | false => exact ih

theorem ConnsLe.conn {s s' : Sys} (h : ConnsLe s s') (c : Nat) : ConnStep (s.conn c) (s'.conn c) := by
  rcases forall₂_find h c with ⟨h1, h2⟩ | ⟨x, x', h1, h2, hs⟩
  · simp only [Sys.conn_def, h1, h2]; exact ConnStep.refl _
  · simp only [Sys.conn_def, h1, h2, Option.getD_some]; exact hs

theorem ConnsLe.hasConn {s s' : Sys} (h : ConnsLe s s') (c : Nat) : s'.HasConn c ↔ s.HasConn c := by
  rw [Sys.hasConn_iff, Sys.hasConn_iff]
  rcases forall₂_find h c with ⟨h1, h2⟩ | ⟨x, x', h1, h2, _⟩ <;> simp [h1, h2]

theorem forall₂_mem_right {α} {R : α → α → Prop} {l l' : List α} (h : Forall₂ R l l') :
    ∀ b ∈ l', ∃ a ∈ l, R a b := by
  induction h with
  | nil => intro b hb; cases hb
  | @cons a b l l' hab _ ih =>
    intro y hy
    rcases List.mem_cons.1 hy with rfl | hy
    · exact ⟨a, List.mem_cons_self .., hab⟩
    · obtain ⟨x, hx, hr⟩ := ih y hy
      exact ⟨x, List.mem_cons_of_mem _ hx, hr⟩

/-! ## 2. the invariants on connection records -/

/-- no connection's transaction queue holds a command whose name is in `L` -/
def TxAvoid (L : List String) (s : Sys) : Prop :=
  ∀ x ∈ s.srv.conns, ∀ q, x.tx = some q → ∀ a ∈ q, a.1 ∉ L

/-- **`TxClean`**: no queue holds (P)SUBSCRIBE / (P)UNSUBSCRIBE -/
def TxClean (s : Sys) : Prop := TxAvoid SigTable.notInMulti s

/-- no queue holds EXEC / DISCARD / MULTI / WATCH (they are never queued) -/
def TxNoCtl (s : Sys) : Prop := TxAvoid SigTable.notQueued s

/-- every queued name is a command of the table -/
def TxKnown (s : Sys) : Prop :=
  ∀ x ∈ s.srv.conns, ∀ q, x.tx = some q → ∀ a ∈ q, ∃ sig, SigTable.find a.1 = some sig

/-- a property of all queued names -/
def TxAll (P : String → Prop) (s : Sys) : Prop :=
  ∀ x ∈ s.srv.conns, ∀ q, x.tx = some q → ∀ a ∈ q, P a.1

theorem TxAll.le {P : String → Prop} {s s' : Sys} (h : TxAll P s) (hle : ConnsLe s s') : TxAll P s' := by
  intro x' hx' q hq a ha
  obtain ⟨x, hx, _, _, _, htx⟩ := forall₂_mem_right hle x' hx'
  rcases htx with e | e | e
  · exact h x hx q (by rw [← e]; exact hq) a ha
  · rw [e] at hq; cases hq
  · rw [e] at hq; cases hq; cases ha

theorem txAvoid_iff (L : List String) (s : Sys) : TxAvoid L s ↔ TxAll (· ∉ L) s := Iff.rfl
theorem txKnown_iff (s : Sys) : TxKnown s ↔ TxAll (fun n => ∃ sig, SigTable.find n = some sig) s := Iff.rfl

/-- the queue of the record `getConn` returns belongs to a registered connection -/
theorem TxAll.conn {P : String → Prop} {s : Sys} (h : TxAll P s) (c : Nat) {q} (hq : (s.conn c).tx = some q) :
    ∀ a ∈ q, P a.1 := by
  rw [Sys.conn_def] at hq
  cases hf : s.srv.conns.find? (·.id == c) with
  | none => rw [hf] at hq; cases hq
  | some x =>
    rw [hf] at hq
    exact h x (List.mem_of_find?_eq_some hf) q hq

/-- no connection is dead -/
def AllAlive (s : Sys) : Prop := ∀ x ∈ s.srv.conns, x.dead = false

theorem AllAlive.le {s s' : Sys} (h : AllAlive s) (hle : ConnsLe s s') : AllAlive s' := by
  intro x' hx'
  obtain ⟨x, hx, _, hd, _, _⟩ := forall₂_mem_right hle x' hx'
  rw [hd]; exact h x hx

/-! ## 3. small steps -/

/-- a pub/sub message pushed to a subscriber (`message` / `pmessage`) -/
def IsMsg (r : Reply) : Prop :=
  (∃ ch m, r = .arr [.bulk (strBytes "message"), .bulk ch, .bulk m]) ∨
  (∃ pat ch m, r = .arr [.bulk (strBytes "pmessage"), .bulk pat, .bulk ch, .bulk m])

/-- the reply list grew by pub/sub messages only -/
def OutLe (s s' : Sys) : Prop := ∃ X, s'.out = X ++ s.out ∧ ∀ p ∈ X, IsMsg p.2

theorem OutLe.refl (s : Sys) : OutLe s s := ⟨[], rfl, fun _ h => by cases h⟩
theorem OutLe.of_eq {s s' : Sys} (h : s'.out = s.out) : OutLe s s' := ⟨[], h, fun _ h => by cases h⟩
theorem OutLe.trans {a b c : Sys} (h1 : OutLe a b) (h2 : OutLe b c) : OutLe a c := by
  obtain ⟨X, hX, hx⟩ := h1
  obtain ⟨Y, hY, hy⟩ := h2
  refine ⟨Y ++ X, by rw [hY, hX, List.append_assoc], fun p hp => ?_⟩
  rcases List.mem_append.1 hp with hp | hp
  · exact hy p hp
  · exact hx p hp

/-- `s'` is `s` after small steps -/
structure Small (s s' : Sys) : Prop where
  conns : ConnsLe s s'
  fault : s.fault.isSome = true → s'.fault.isSome = true
  crashed : s'.crashed = s.crashed
  out : OutLe s s'

theorem Small.refl (s : Sys) : Small s s := ⟨ConnsLe.refl s, id, rfl, OutLe.refl s⟩

theorem Small.trans {a b c : Sys} (h1 : Small a b) (h2 : Small b c) : Small a c :=
  ⟨h1.conns.trans h2.conns, fun h => h2.fault (h1.fault h), h2.crashed.trans h1.crashed, h1.out.trans h2.out⟩

/-- a step that touches neither the connection list nor `fault`, `crashed`, `out` -/
theorem Small.frame {s0 s s' : Sys} (h : Small s0 s) (h1 : s'.srv.conns = s.srv.conns) (h2 : s'.fault = s.fault)
    (h3 : s'.crashed = s.crashed) (h4 : s'.out = s.out) : Small s0 s' :=
  h.trans ⟨ConnsLe.of_eq h1, fun h => by rw [h2]; exact h, h3, OutLe.of_eq h4⟩

variable {s0 : Sys}

theorem sm_getConn (c : Nat) : Pres (Small s0) (getConn c) := fun _ h => h
theorem sm_get : Pres (Small s0) (get : M Sys) := fun _ h => h
theorem sm_getDb (i : Nat) : Pres (Small s0) (getDb i) := fun _ h => h
theorem sm_setDb (i : Nat) (db : Db) : Pres (Small s0) (setDb i db) := fun _ h => h.frame rfl rfl rfl rfl

theorem sm_modifyConn (c : Nat) (f : Conn → Conn) (hf : ∀ x, ConnStep x (f x)) : Pres (Small s0) (modifyConn c f) := by
  intro s h
  rw [modifyConn_run]
  exact h.trans ⟨ConnsLe.updConn s c f hf, id, rfl, OutLe.refl _⟩

theorem sm_clearWatches (c : Nat) : Pres (Small s0) (clearWatches c) :=
  sm_modifyConn c _ (fun _ => ⟨rfl, rfl, rfl, .inl rfl⟩)

theorem notifyFn_step (d : Nat) (key : Bytes) (x : Conn) : ConnStep x (notifyFn d key x) := by
  refine ⟨notifyFn_id d key x, ?_, ?_, .inl ?_⟩ <;>
  · unfold notifyFn; simp only; split <;> split <;> (try split) <;> rfl

theorem sm_notifyWatch (d : Nat) (k : Bytes) : Pres (Small s0) (notifyWatch d k) := by
  intro s h
  rw [notifyWatch_run]
  exact h.trans ⟨ConnsLe.mapConns s _ (notifyFn_step d k), id, rfl, OutLe.refl _⟩

theorem sm_fault (msg : String) : Pres (Small s0) (M.fault msg) := by
  intro s h
  show Small s0 (if s.fault.isNone then { s with fault := some msg } else s)
  split
  · exact h.trans ⟨ConnsLe.refl _, fun _ => rfl, rfl, OutLe.refl _⟩
  · exact h

theorem sm_nextClock : Pres (Small s0) nextClock := by
  intro s h
  rw [nextClock_run]
  split
  · exact h.frame rfl rfl rfl rfl
  · exact sm_fault _ s h

theorem sm_modify_frame (g : Sys → Sys)
    (hg : ∀ s, (g s).srv.conns = s.srv.conns ∧ (g s).fault = s.fault ∧ (g s).crashed = s.crashed ∧ (g s).out = s.out) :
    Pres (Small s0) (modify g) :=
  fun s h => h.frame (hg s).1 (hg s).2.1 (hg s).2.2.1 (hg s).2.2.2

theorem sm_okR (r : Reply) (cis : List CI) : Pres (Small s0) (okR r cis) := Pres.pure _

theorem sm_writebackAll (d : Nat) (cis : List CI) : Pres (Small s0) (writebackAll d cis) := by
  unfold writebackAll
  refine Pres.forM (fun ci => ?_)
  refine Pres.bind (sm_getDb d) (fun db => ?_)
  split
  refine Pres.bind (sm_setDb d _) (fun _ => ?_)
  split
  · exact sm_notifyWatch d ci.key
  · exact Pres.pure _

theorem sm_liveKeys (d : Nat) : Pres (Small s0) (liveKeys d) := by
  unfold liveKeys
  refine Pres.bind (sm_getDb d) (fun db => ?_)
  split
  exact Pres.bind (sm_setDb d _) (fun _ => Pres.pure _)

theorem sm_clearDb (d : Nat) : Pres (Small s0) (clearDb d) := by
  unfold clearDb
  refine Pres.bind (sm_liveKeys d) (fun ks => ?_)
  refine Pres.bind (Pres.forM (fun k => sm_notifyWatch d k)) (fun _ => ?_)
  exact sm_setDb d _

/-- side goals `∀ x, ConnStep x (f x)` for the record updates of the command layer -/
syntax "sm_side" : tactic
macro_rules | `(tactic| sm_side) => `(tactic| first
  | exact fun _ => ⟨rfl, rfl, rfl, .inl rfl⟩
  | exact fun _ => ⟨rfl, rfl, rfl, .inr (.inl rfl)⟩
  | exact fun _ => ⟨rfl, rfl, rfl, .inr (.inr rfl)⟩)

macro_rules | `(tactic| pres_leaf) => `(tactic| first
  | with_reducible exact sm_getConn _
  | with_reducible exact sm_fault _
  | with_reducible exact sm_nextClock
  | with_reducible exact sm_clearWatches _
  | with_reducible exact sm_notifyWatch _ _
  | with_reducible exact sm_writebackAll _ _
  | with_reducible exact sm_liveKeys _
  | with_reducible exact sm_clearDb _
  | with_reducible exact sm_getDb _
  | with_reducible exact sm_okR _ _
  | with_reducible exact sm_get
  | ((with_reducible refine sm_modifyConn _ _ ?_); sm_side)
  | with_reducible exact sm_setDb _ _
  | ((with_reducible refine sm_modify_frame _ ?_); first
      | exact fun _ => ⟨rfl, rfl, rfl, rfl⟩ | (intro _; split <;> exact ⟨rfl, rfl, rfl, rfl⟩)))

/-- `set` of a state that differs only in the hints -/
theorem sm_at_set {β : Type} {s s' : Sys} {g : PUnit → M β} (hs : Small s0 s) (h1 : s'.srv.conns = s.srv.conns)
    (h2 : s'.fault = s.fault) (h3 : s'.crashed = s.crashed) (h4 : s'.out = s.out)
    (hg : Pres (Small s0) (g ⟨⟩)) : PresAt (Small s0) s (set s' >>= g) :=
  Pres.at_set_bind (hs.frame h1 h2 h3 h4) hg

/-! ## 4. the special bodies -/

theorem selectCmd_sm (c : Nat) (args : List Arg) (cis : List CI) : Pres (Small s0) (selectCmd c args cis) := by
  unfold selectCmd; pres

theorem swapdbCmd_sm (args : List Arg) (cis : List CI) : Pres (Small s0) (swapdbCmd args cis) := by
  unfold swapdbCmd okR; pres

theorem moveCmd_sm (d : Nat) (args : List Arg) (cis : List CI) : Pres (Small s0) (moveCmd d args cis) := by
  unfold moveCmd
  pres

theorem randomkeyCmd_sm (d : Nat) (cis : List CI) : Pres (Small s0) (randomkeyCmd d cis) := by
  unfold randomkeyCmd okR
  refine Pres.bind (sm_liveKeys d) (fun ks => ?_)
  split
  · pres
  · refine Pres.get_bind (fun s hs => ?_)
    split
    · split
      · exact sm_at_set hs rfl rfl rfl rfl (Pres.pure _)
      · refine Pres.at_of_pres ?_ hs; pres
    · refine Pres.at_of_pres ?_ hs; pres

theorem scanCmd_sm (d : Nat) (args : List Arg) (cis : List CI) : Pres (Small s0) (scanCmd d args cis) := by
  unfold scanCmd; pres

theorem multiCmd_sm (c : Nat) (cis : List CI) : Pres (Small s0) (multiCmd c cis) := by
  unfold multiCmd; pres

theorem discardCmd_sm (c : Nat) (cis : List CI) : Pres (Small s0) (discardCmd c cis) := by
  unfold discardCmd; pres

theorem watchCmd_sm (c d : Nat) (args : List Arg) (cis : List CI) : Pres (Small s0) (watchCmd c d args cis) := by
  unfold watchCmd; pres

theorem publish_sm (ch msg : Bytes) : Pres (Small s0) (publish ch msg) := by
  intro s h
  rw [publish_run]
  have hD : ∀ p ∈ ((deliveries s.srv ch msg).filter fun d => !(s.conn d.1).closed).reverse, IsMsg p.2 := by
    intro p hp
    have hp' := (List.mem_filter.1 (List.mem_reverse.1 hp)).1
    obtain ⟨pc, pr⟩ := p
    rcases (mem_deliveries s.srv ch msg pc pr).1 hp' with ⟨_, rfl⟩ | ⟨pat, _, _, _, _, rfl⟩
    · exact .inl ⟨ch, msg, rfl⟩
    · exact .inr ⟨pat, ch, msg, rfl⟩
  revert hD
  generalize ((deliveries s.srv ch msg).filter fun d => !(s.conn d.1).closed).reverse = D
  intro hD
  exact h.trans ⟨ConnsLe.of_eq rfl, id, rfl, ⟨D, rfl, hD⟩⟩

theorem bpopPass_sm (d : Nat) (left first : Bool) (keys : List Bytes) :
    Pres (Small s0) (bpopPass d left first keys) := by
  induction keys with
  | nil => unfold bpopPass; pres
  | cons k rest ih => unfold bpopPass; pres

theorem brpoplpushPass_sm (d : Nat) (src dst : Bytes) (first : Bool) :
    Pres (Small s0) (brpoplpushPass d src dst first) := by
  unfold brpoplpushPass; pres

theorem blocking_sm (c : Nat) (park : Bool) (kind : String) (keys : List Bytes) (timeout : Int)
    (pass : Bool → M (Except Err (Option Reply))) (hpass : ∀ first, Pres (Small s0) (pass first)) :
    Pres (Small s0) (blocking c park kind keys timeout pass) := by
  have h1 := hpass true
  unfold blocking; pres

theorem blockingAsync_sm (c : Nat) (kind : String) (keys : List Bytes)
    (pass : Bool → M (Except Err (Option Reply))) (hpass : ∀ first, Pres (Small s0) (pass first)) :
    Pres (Small s0) (blockingAsync c kind keys pass) := by
  have h1 := hpass true
  unfold blockingAsync; pres

theorem lookupKey_sm (d : Nat) (key pattern : Bytes) : Pres (Small s0) (lookupKey d key pattern) := by
  unfold lookupKey; pres

macro_rules | `(tactic| pres_leaf) => `(tactic| with_reducible exact lookupKey_sm _ _ _)

theorem sortCmd_sm (c d : Nat) (args : List Arg) (cis : List CI) : Pres (Small s0) (sortCmd c d args cis) := by
  unfold sortCmd
  split
  · extract_lets key wrong out x keyed err le jp
    split
    · pres
    · have hjp : ∀ x, Pres (Small s0) (jp x) := by
        intro items?
        simp -zeta only [jp]
        split
        · pres
        · split
          · pres
          · extract_lets n start stop stop' gets sortby jp2
            have hjp2 : ∀ x, Pres (Small s0) (jp2 x) := by
              intro sorted?
              simp -zeta only [jp2]
              pres
            clear_value jp2
            pres
      clear_value jp
      simp only []
      split
      · pres
      · pres
      · pres
      · refine Pres.get_bind (fun st hs => ?_)
        split
        · split
          · exact sm_at_set hs rfl rfl rfl rfl (by pres)
          · refine Pres.at_of_pres ?_ hs; pres
        · refine Pres.at_of_pres ?_ hs; pres
      · pres
  · pres

theorem zunioninter_sm (u : Bool) (d : Nat) (args : List Arg) (cis : List CI) :
    Pres (Small s0) (zunioninter u d args cis) := by
  unfold zunioninter
  split
  · pres
    all_goals
      refine Pres.loop_pure (fun b => b.2.2.2.2) _ (fun b => ?_) _
      repeat' split
      all_goals
        refine ⟨_, rfl, fun b' h => ?_⟩
        first
          | (cases h; done)
          | (have h := ForInStep.yield.inj h; subst h; simp_all <;> omega)
  · pres

theorem scriptCmd_sm (inner : Inner) (c : Nat) (name : String) (args : List Arg) (cis : List CI) :
    Pres (Small s0) (scriptCmd inner c name args cis) := by
  unfold scriptCmd; pres

/-! ## 5. `special`, `_run_command` -/

macro_rules | `(tactic| pres_leaf) => `(tactic| first
  | with_reducible exact selectCmd_sm _ _ _
  | with_reducible exact swapdbCmd_sm _ _
  | with_reducible exact moveCmd_sm _ _ _
  | with_reducible exact randomkeyCmd_sm _ _
  | with_reducible exact scanCmd_sm _ _ _
  | with_reducible exact sortCmd_sm _ _ _ _
  | with_reducible exact zunioninter_sm _ _ _ _
  | with_reducible exact multiCmd_sm _ _
  | with_reducible exact discardCmd_sm _ _
  | with_reducible exact watchCmd_sm _ _ _ _
  | with_reducible exact publish_sm _ _
  | with_reducible exact scriptCmd_sm _ _ _ _ _
  | with_reducible exact blocking_sm _ _ _ _ _ _ (fun _ => bpopPass_sm _ _ _ _)
  | with_reducible exact blockingAsync_sm _ _ _ _ (fun _ => bpopPass_sm _ _ _ _)
  | with_reducible exact blocking_sm _ _ _ _ _ _ (fun _ => brpoplpushPass_sm _ _ _ _)
  | with_reducible exact blockingAsync_sm _ _ _ _ (fun _ => brpoplpushPass_sm _ _ _ _))

/-- the commands the traversal does not enter: EXEC (treated by `execCmd_spec`) and the four commands whose
acknowledgements are replies to the caller.  All five are `noScript`, all but EXEC are refused inside MULTI, and EXEC is
never queued. -/
def gated : List String := "exec" :: SigTable.notInMulti

/-- every special body except the gated ones is a small step -/
theorem special_sm (inner : Inner) (mode : Mode) (c : Nat) (name : String) (args : List Arg) (cis : List CI)
    (hne : name ∉ gated) : Pres (Small s0) (special inner mode c name args cis) := by
  unfold special
  simp only []
  refine Pres.bind (sm_getConn c) (fun conn => ?_)
  split
  all_goals first
    | exact absurd (by decide) hne
    | pres

theorem runGate_none {sig : Sig} {fs sub : Bool} (h : runGate sig fs sub = none) : fs = true → sig.noScript = false := by
  intro hfs
  unfold runGate at h
  cases hn : sig.noScript with
  | false => rfl
  | true => simp [hfs, hn] at h

/-- `_run_command` is a small step when the special body it may dispatch to is one; the body is only reached through
the gate (`from_script` commands flagged `no_script` are refused before) -/
theorem runWith_sm (special : Mode → Nat → String → List Arg → List CI → M (Except Err (Option Reply × List CI)))
    (mode : Mode) (c : Nat) (sig : Sig) (raw : List Bytes) (fromScript : Bool)
    (hsp : (fromScript = true → sig.noScript = false) → ∀ args cis, Pres (Small s0) (special mode c sig.name args cis)) :
    Pres (Small s0) (runWith special mode c sig raw fromScript) := by
  unfold runWith
  refine Pres.bind (sm_getConn c) (fun conn => ?_)
  split
  · exact Pres.pure _
  refine Pres.bind (sm_getDb _) (fun db => ?_)
  extract_lets gate
  split
  · -- regular command
    clear_value gate
    refine Pres.bind sm_get (fun s => ?_)
    extract_lets ctx o jp
    have hjp : ∀ x, Pres (Small s0) (jp x) := by intro x; simp -zeta only [jp]; pres
    clear_value jp
    clear_value o
    pres
  · split
    refine Pres.bind (sm_setDb _ _) (fun _ => ?_)
    split
    · exact Pres.pure _
    · exact Pres.pure _
    · have hgdef : gate = runGate sig fromScript (decide (conn.pubsub > 0)) := rfl
      clear_value gate
      cases hg : gate with
      | some e => exact Pres.pure _
      | none =>
        have hsp' := hsp (runGate_none (hgdef ▸ hg))
        simp only []
        pres

/-! ## 6. scripts -/

theorem nextPick_sm : Pres (Small s0) nextPick := by
  unfold nextPick
  refine Pres.get_bind (fun s hs => ?_)
  split
  · exact sm_at_set hs rfl rfl rfl rfl (Pres.pure _)
  · exact Pres.at_of_pres (Pres.pure _) hs

macro_rules | `(tactic| pres_leaf) => `(tactic| with_reducible exact nextPick_sm)

theorem shaHint_sm : Pres (Small s0) shaHint := by
  unfold shaHint; pres

macro_rules | `(tactic| pres_leaf) => `(tactic| with_reducible exact shaHint_sm)

/-- the gated commands are flagged `no_script` in the table -/
theorem gated_noScript {n : String} {sig : Sig} (hf : SigTable.find n = some sig) (hg : sig.name ∈ gated) :
    sig.noScript = true := by
  have hn := SigTable.find_name hf
  rw [hn] at hg
  have key : ∀ m ∈ gated, (SigTable.find m).all (·.noScript) = true := by decide +kernel
  have := key n hg
  rw [hf] at this
  exact this

/-- a dispatcher whose every non-gated body is a small step -/
def SpecialSm (s0 : Sys) (special : SpecialFn) : Prop :=
  ∀ mode c name args cis, name ∉ gated → Pres (Small s0) (special mode c name args cis)

theorem runFromScript_sm (special : SpecialFn) (hsp : SpecialSm s0 special) (mode : Mode) (c : Nat)
    (op : LuaVal) (args : List LuaVal) : Pres (Small s0) (runFromScript special mode c op args) := by
  have hrun : ∀ n sig raw, SigTable.find n = some sig → Pres (Small s0) (runWith special mode c sig raw true) := by
    intro n sig raw hf
    refine runWith_sm special mode c sig raw true (fun hns args cis => hsp _ _ _ _ _ (fun hg => ?_))
    have := gated_noScript hf hg
    rw [hns rfl] at this
    cases this
  unfold runFromScript
  refine Pres.bind sm_get (fun st => ?_)
  split
  · extract_lets version sig?
    have hsig : ∀ sig, sig? = some sig → ∃ n, SigTable.find n = some sig := by
      intro sig h
      simp only [sig?] at h
      split at h
      · split at h
        · cases h
        · exact ⟨_, h⟩
      · cases h
    clear_value sig? version
    cases hs : sig? with
    | none => exact Pres.pure _
    | some sig =>
      obtain ⟨n, hn⟩ := hsig sig hs
      have hrun' : ∀ raw, Pres (Small s0) (runWith special mode c sig raw true) := fun raw => hrun n sig raw hn
      simp only []
      pres
  · pres

theorem runTrace_sm (special : SpecialFn) (hsp : SpecialSm s0 special) (mode : Mode) (c : Nat)
    (sha : Bytes) (fuel : Nat) : Pres (Small s0) (runTrace special mode c sha fuel) := by
  have hcall := runFromScript_sm special hsp mode c
  induction fuel with
  | zero => unfold runTrace; pres
  | succ fuel ih => unfold runTrace; pres

theorem evalBody_sm (special : SpecialFn) (hsp : SpecialSm s0 special) (mode : Mode) (c : Nat)
    (script : Bytes) (numkeys : Int) (rest : List Bytes) :
    Pres (Small s0) (evalBody special mode c script numkeys rest) := by
  have htrace := runTrace_sm special hsp mode c
  unfold evalBody; pres

theorem scriptBody_sm (special : SpecialFn) (hsp : SpecialSm s0 special) (mode : Mode) (c : Nat)
    (name : String) (args : List Arg) : Pres (Small s0) (scriptBody special mode c name args) := by
  have heval := evalBody_sm special hsp mode c
  unfold scriptBody; pres

theorem special_stub_sm : SpecialSm s0 (special (fun _ _ => do fault "nested exec"; return none)) :=
  fun mode c name args cis hne => special_sm _ mode c name args cis hne

theorem runScriptCmd_sm (mode : Mode) (c : Nat) (sig : Sig) (raw : List Bytes) (fromScript : Bool) :
    Pres (Small s0) (runScriptCmd mode c sig raw fromScript) := by
  have hbody := scriptBody_sm (s0 := s0) _ special_stub_sm mode c
  unfold runScriptCmd; pres

/-- the nested runner of EXEC, for a queued command that is not gated -/
theorem runInner_sm (mode : Mode) (c : Nat) (sig : Sig) (raw : List Bytes) (hne : sig.name ∉ gated) :
    Pres (Small s0) (runInner mode c sig raw) := by
  refine runInner_cases (P := fun m => Pres (Small s0) m) mode c sig raw
    (fun _ => runScriptCmd_sm mode c sig raw false) (fun _ => ?_)
  exact runWith_sm _ mode c sig raw false (fun _ args cis => special_sm _ mode c sig.name args cis hne)

/-- **`_run_command` of a client command other than EXEC / (P)SUBSCRIBE / (P)UNSUBSCRIBE is a small step**: every
connection keeps its id and `dead` flag, queues are kept or reset, `crashed` is untouched, `fault` is never cleared,
and what is pushed on the reply list are pub/sub messages -/
theorem runCommand_sm (mode : Mode) (c : Nat) (sig : Sig) (raw : List Bytes) (fromScript : Bool)
    (hne : sig.name ∉ gated) : Pres (Small s0) (runCommand mode c sig raw fromScript) := by
  unfold runCommand
  split
  · exact runScriptCmd_sm _ _ _ _ _
  · exact runWith_sm _ mode c sig raw fromScript (fun _ args cis => special_sm _ mode c sig.name args cis hne)

end FR.C04k
