import FR.Proofs.C17cText
/-!
# `_decode` over nested replies: vocabulary and the induction lemmas

* `subReply r p` / `subVal v p` — the sub-term at position `p` (child indices from the root);
* `leaves r` — the payloads of all `bulk` and `status` nodes of `r`, in depth-first, left-to-right order;
* `Rel leaf r v` — `v` has the shape of `r`: `nil ↦ nil`, `int n ↦ int n`, an error reply ↦ its exception object, an
  array ↦ a list of the same length related element-wise, and every `bulk b` / `status b` ↦ some `w` with `leaf b w`;
* `seen r` — `r` as far as the client can tell: status replies are bulks, an error message has lost its known code;
* `encodeBack enc v` — re-encode every text of `v` (`str.encode(enc)`), giving a reply again.
-/
namespace FR.Client
open FR

/-! ## decidable equality of replies (for kernel-checked witnesses) -/

mutual
def replyDecEq : (a b : Reply) → Decidable (a = b)
  | .nil, .nil => isTrue rfl
  | .nil, .int _ => isFalse nofun
  | .nil, .bulk _ => isFalse nofun
  | .nil, .status _ => isFalse nofun
  | .nil, .err _ => isFalse nofun
  | .nil, .arr _ => isFalse nofun
  | .int _, .nil => isFalse nofun
  | .int n₁, .int n₂ => if h : n₁ = n₂ then isTrue (h ▸ rfl) else isFalse fun e => h (Reply.int.inj e)
  | .int _, .bulk _ => isFalse nofun
  | .int _, .status _ => isFalse nofun
  | .int _, .err _ => isFalse nofun
  | .int _, .arr _ => isFalse nofun
  | .bulk _, .nil => isFalse nofun
  | .bulk _, .int _ => isFalse nofun
  | .bulk b₁, .bulk b₂ => if h : b₁ = b₂ then isTrue (h ▸ rfl) else isFalse fun e => h (Reply.bulk.inj e)
  | .bulk _, .status _ => isFalse nofun
  | .bulk _, .err _ => isFalse nofun
  | .bulk _, .arr _ => isFalse nofun
  | .status _, .nil => isFalse nofun
  | .status _, .int _ => isFalse nofun
  | .status _, .bulk _ => isFalse nofun
  | .status b₁, .status b₂ => if h : b₁ = b₂ then isTrue (h ▸ rfl) else isFalse fun e => h (Reply.status.inj e)
  | .status _, .err _ => isFalse nofun
  | .status _, .arr _ => isFalse nofun
  | .err _, .nil => isFalse nofun
  | .err _, .int _ => isFalse nofun
  | .err _, .bulk _ => isFalse nofun
  | .err _, .status _ => isFalse nofun
  | .err m₁, .err m₂ => if h : m₁ = m₂ then isTrue (h ▸ rfl) else isFalse fun e => h (Reply.err.inj e)
  | .err _, .arr _ => isFalse nofun
  | .arr _, .nil => isFalse nofun
  | .arr _, .int _ => isFalse nofun
  | .arr _, .bulk _ => isFalse nofun
  | .arr _, .status _ => isFalse nofun
  | .arr _, .err _ => isFalse nofun
  | .arr xs₁, .arr xs₂ =>
    match replyDecEqL xs₁ xs₂ with
    | isTrue h => isTrue (h ▸ rfl)
    | isFalse h => isFalse fun e => h (Reply.arr.inj e)
def replyDecEqL : (a b : List Reply) → Decidable (a = b)
  | [], [] => isTrue rfl
  | [], _ :: _ => isFalse nofun
  | _ :: _, [] => isFalse nofun
  | x :: xs, y :: ys =>
    match replyDecEq x y, replyDecEqL xs ys with
    | isTrue h₁, isTrue h₂ => isTrue (by rw [h₁, h₂])
    | isFalse h, _ => isFalse fun e => h (List.cons.inj e).1
    | _, isFalse h => isFalse fun e => h (List.cons.inj e).2
end

instance : DecidableEq Reply := replyDecEq

theorem reply_err_or (r : Reply) : (∃ m, r = .err m) ∨ (∀ m, r ≠ .err m) := by
  cases r with
  | err m => exact Or.inl ⟨m, rfl⟩
  | _ => exact Or.inr nofun

/-! ## positions -/

def subReply : Reply → List Nat → Option Reply
  | r, [] => some r
  | .arr xs, i :: p =>
    match xs[i]? with
    | some x => subReply x p
    | none => none
  | _, _ :: _ => none

def subVal : CVal → List Nat → Option CVal
  | v, [] => some v
  | .list vs, i :: p =>
    match vs[i]? with
    | some x => subVal x p
    | none => none
  | _, _ :: _ => none

mutual
def leaves : Reply → List Bytes
  | .bulk b => [b]
  | .status b => [b]
  | .arr xs => leavesL xs
  | _ => []
def leavesL : List Reply → List Bytes
  | [] => []
  | x :: xs => leaves x ++ leavesL xs
end

theorem leavesL_eq_flatMap : ∀ xs : List Reply, leavesL xs = xs.flatMap leaves
  | [] => rfl
  | x :: xs => by rw [leavesL, List.flatMap_cons, leavesL_eq_flatMap xs]

/-- a byte string is a leaf iff some position holds it as a bulk or as a status reply -/
theorem mem_leaves_iff : ∀ (r : Reply) (b : Bytes),
    b ∈ leaves r ↔ ∃ p, subReply r p = some (.bulk b) ∨ subReply r p = some (.status b) := by
  intro r b
  constructor
  · exact mem_leaves_path r b
  · rintro ⟨p, h⟩
    exact path_mem_leaves p r b h
where
  mem_leaves_path : ∀ (r : Reply) (b : Bytes), b ∈ leaves r →
      ∃ p, subReply r p = some (.bulk b) ∨ subReply r p = some (.status b)
    | .nil, b, h => by simp [leaves] at h
    | .int _, b, h => by simp [leaves] at h
    | .err _, b, h => by simp [leaves] at h
    | .bulk c, b, h => by
      simp only [leaves, List.mem_singleton] at h
      exact ⟨[], Or.inl (by rw [h]; rfl)⟩
    | .status c, b, h => by
      simp only [leaves, List.mem_singleton] at h
      exact ⟨[], Or.inr (by rw [h]; rfl)⟩
    | .arr xs, b, h => by
      simp only [leaves] at h
      obtain ⟨i, x, hx, p, hp⟩ := mem_leavesL_path xs b h
      refine ⟨i :: p, ?_⟩
      simp only [subReply]
      rw [hx]
      exact hp
  mem_leavesL_path : ∀ (xs : List Reply) (b : Bytes), b ∈ leavesL xs →
      ∃ i x, xs[i]? = some x ∧ ∃ p, subReply x p = some (.bulk b) ∨ subReply x p = some (.status b)
    | [], b, h => by simp [leavesL] at h
    | x :: xs, b, h => by
      simp only [leavesL, List.mem_append] at h
      rcases h with h | h
      · exact ⟨0, x, rfl, mem_leaves_path x b h⟩
      · obtain ⟨i, y, hy, hp⟩ := mem_leavesL_path xs b h
        exact ⟨i + 1, y, by simpa using hy, hp⟩
  path_mem_leaves : ∀ (p : List Nat) (r : Reply) (b : Bytes),
      (subReply r p = some (.bulk b) ∨ subReply r p = some (.status b)) → b ∈ leaves r
    | [], r, b, h => by
      simp only [subReply, Option.some.injEq] at h
      rcases h with h | h <;> subst h <;> simp [leaves]
    | i :: p, r, b, h => by
      cases r with
      | arr xs =>
        simp only [subReply] at h
        cases hx : xs[i]? with
        | none => simp [hx] at h
        | some x =>
          simp only [hx] at h
          have := path_mem_leaves p x b h
          simp only [leaves, leavesL_eq_flatMap, List.mem_flatMap]
          exact ⟨x, List.mem_of_getElem? hx, this⟩
      | _ => simp [subReply] at h

/-! ## the shape relation -/

mutual
def Rel (leaf : Bytes → CVal → Prop) : Reply → CVal → Prop
  | .nil, v => v = .nil
  | .int n, v => v = .int n
  | .bulk b, v => leaf b v
  | .status b, v => leaf b v
  | .err m, v => v = errObj m
  | .arr xs, v => ∃ vs, v = .list vs ∧ RelL leaf xs vs
def RelL (leaf : Bytes → CVal → Prop) : List Reply → List CVal → Prop
  | [], vs => vs = []
  | x :: xs, vs => ∃ v vs', vs = v :: vs' ∧ Rel leaf x v ∧ RelL leaf xs vs'
end

theorem relL_length (leaf : Bytes → CVal → Prop) : ∀ (xs : List Reply) (vs : List CVal),
    RelL leaf xs vs → vs.length = xs.length
  | [], vs, h => by simp only [RelL] at h; subst h; rfl
  | x :: xs, vs, h => by
    simp only [RelL] at h
    obtain ⟨v, vs', rfl, _, h2⟩ := h
    simp [relL_length leaf xs vs' h2]

theorem relL_getElem? (leaf : Bytes → CVal → Prop) : ∀ (xs : List Reply) (vs : List CVal) (i : Nat) (x : Reply),
    RelL leaf xs vs → xs[i]? = some x → ∃ v, vs[i]? = some v ∧ Rel leaf x v
  | [], vs, i, x, _, hx => by simp at hx
  | y :: xs, vs, i, x, h, hx => by
    simp only [RelL] at h
    obtain ⟨v, vs', rfl, h1, h2⟩ := h
    cases i with
    | zero =>
      simp only [List.getElem?_cons_zero, Option.some.injEq] at hx
      subst hx
      exact ⟨v, rfl, h1⟩
    | succ j =>
      simp only [List.getElem?_cons_succ] at hx ⊢
      exact relL_getElem? leaf xs vs' j x h2 hx

/-- `RelL` is: same length and related element by element -/
theorem relL_iff_pointwise (leaf : Bytes → CVal → Prop) : ∀ (xs : List Reply) (vs : List CVal),
    RelL leaf xs vs ↔ vs.length = xs.length ∧ ∀ (i : Nat) x v, xs[i]? = some x → vs[i]? = some v → Rel leaf x v
  | [], vs => by
    simp only [RelL]
    constructor
    · rintro rfl; exact ⟨rfl, fun i x v hx => by simp at hx⟩
    · rintro ⟨h, _⟩; exact List.eq_nil_of_length_eq_zero h
  | x :: xs, vs => by
    simp only [RelL]
    constructor
    · rintro ⟨v, vs', rfl, h1, h2⟩
      have ih := (relL_iff_pointwise leaf xs vs').1 h2
      refine ⟨by simp [ih.1], fun i y w hy hw => ?_⟩
      cases i with
      | zero =>
        simp only [List.getElem?_cons_zero, Option.some.injEq] at hy hw
        subst hy; subst hw; exact h1
      | succ j =>
        simp only [List.getElem?_cons_succ] at hy hw
        exact ih.2 j y w hy hw
    · rintro ⟨hlen, hp⟩
      cases vs with
      | nil => simp at hlen
      | cons v vs' =>
        refine ⟨v, vs', rfl, hp 0 x v rfl rfl, (relL_iff_pointwise leaf xs vs').2 ⟨by simpa using hlen, ?_⟩⟩
        intro i y w hy hw
        exact hp (i + 1) y w (by simpa using hy) (by simpa using hw)

/-- the relation descends to every position -/
theorem rel_path (leaf : Bytes → CVal → Prop) : ∀ (p : List Nat) (r r' : Reply) (v : CVal),
    Rel leaf r v → subReply r p = some r' → ∃ v', subVal v p = some v' ∧ Rel leaf r' v'
  | [], r, r', v, h, hp => by
    simp only [subReply, Option.some.injEq] at hp
    subst hp
    exact ⟨v, rfl, h⟩
  | i :: p, r, r', v, h, hp => by
    cases r with
    | arr xs =>
      simp only [Rel] at h
      obtain ⟨vs, rfl, hl⟩ := h
      simp only [subReply] at hp
      cases hx : xs[i]? with
      | none => simp [hx] at hp
      | some x =>
        simp only [hx] at hp
        obtain ⟨w, hw, hr⟩ := relL_getElem? leaf xs vs i x hl hx
        obtain ⟨v', hv', hr'⟩ := rel_path leaf p x r' w hr hp
        exact ⟨v', by simp only [subVal, hw, hv'], hr'⟩
    | _ => simp [subReply] at hp

/-- … and the value has no position the reply has not -/
theorem rel_path_back (leaf : Bytes → CVal → Prop) (hleaf : ∀ b w, leaf b w → ∀ vs, w ≠ .list vs) :
    ∀ (p : List Nat) (r : Reply) (v v' : CVal),
    Rel leaf r v → subVal v p = some v' → ∃ r', subReply r p = some r'
  | [], r, v, v', _, _ => ⟨r, rfl⟩
  | i :: p, r, v, v', h, hp => by
    cases r with
    | arr xs =>
      simp only [Rel] at h
      obtain ⟨vs, rfl, hl⟩ := h
      simp only [subVal] at hp
      cases hw : vs[i]? with
      | none => simp [hw] at hp
      | some w =>
        simp only [hw] at hp
        have hi : i < xs.length := by
          have := (List.getElem?_eq_some_iff.1 hw).1
          rw [relL_length leaf xs vs hl] at this
          exact this
        have hx : xs[i]? = some xs[i] := List.getElem?_eq_getElem hi
        obtain ⟨w', hw', hr⟩ := relL_getElem? leaf xs vs i _ hl hx
        rw [hw] at hw'
        cases hw'
        obtain ⟨r', hr'⟩ := rel_path_back leaf hleaf p xs[i] w v' hr hp
        exact ⟨r', by simp only [subReply, hx, hr']⟩
    | nil => simp only [Rel] at h; subst h; simp [subVal] at hp
    | int n => simp only [Rel] at h; subst h; simp [subVal] at hp
    | err m => simp only [Rel] at h; subst h; simp [subVal, errObj] at hp
    | bulk b =>
      simp only [Rel] at h
      cases v with
      | list vs => exact absurd rfl (hleaf b _ h vs)
      | _ => simp [subVal] at hp
    | status b =>
      simp only [Rel] at h
      cases v with
      | list vs => exact absurd rfl (hleaf b _ h vs)
      | _ => simp [subVal] at hp

mutual
theorem rel_mono {leaf leaf' : Bytes → CVal → Prop} : ∀ (r : Reply) (v : CVal),
    (∀ b ∈ leaves r, ∀ w, leaf b w → leaf' b w) → Rel leaf r v → Rel leaf' r v
  | .nil, _, _, h => h
  | .int _, _, _, h => h
  | .err _, _, _, h => h
  | .bulk b, v, hm, h => hm b (by simp [leaves]) v h
  | .status b, v, hm, h => hm b (by simp [leaves]) v h
  | .arr xs, v, hm, h => by
    simp only [Rel] at h ⊢
    obtain ⟨vs, rfl, hl⟩ := h
    exact ⟨vs, rfl, relL_mono xs vs (by simpa [leaves] using hm) hl⟩
theorem relL_mono {leaf leaf' : Bytes → CVal → Prop} : ∀ (xs : List Reply) (vs : List CVal),
    (∀ b ∈ leavesL xs, ∀ w, leaf b w → leaf' b w) → RelL leaf xs vs → RelL leaf' xs vs
  | [], _, _, h => h
  | x :: xs, vs, hm, h => by
    simp only [RelL] at h ⊢
    obtain ⟨v, vs', rfl, h1, h2⟩ := h
    refine ⟨v, vs', rfl, rel_mono x v (fun b hb => hm b ?_) h1, relL_mono xs vs' (fun b hb => hm b ?_) h2⟩
    · simp only [leavesL, List.mem_append]; exact Or.inl hb
    · simp only [leavesL, List.mem_append]; exact Or.inr hb
end

/-! ## `_decode` is the element-wise map of `Encoder.decode` -/

mutual
/-- **`decodeVal` succeeds with `v` iff `v` is `r` with every bulk / status payload replaced by what
`Encoder.decode` returns for it — and nothing else changed.** -/
theorem decodeVal_ok_iff (cfg : Cfg) : ∀ (r : Reply) (v : CVal),
    decodeVal cfg r = .ok v ↔ Rel (fun b w => decodeBytes cfg b = .ok w) r v
  | .nil, v => by simp only [decodeVal, Rel, Except.ok.injEq]; exact eq_comm
  | .int n, v => by simp only [decodeVal, Rel, Except.ok.injEq]; exact eq_comm
  | .err m, v => by simp only [decodeVal, Rel, Except.ok.injEq]; exact eq_comm
  | .bulk b, v => by simp only [decodeVal, Rel]
  | .status b, v => by simp only [decodeVal, Rel]
  | .arr xs, v => by
    simp only [decodeVal, Rel]
    cases hl : decodeList cfg xs with
    | error e =>
      simp only [Except.map]
      constructor
      · intro h; cases h
      · rintro ⟨vs, _, hr⟩
        rw [← decodeList_ok_iff cfg xs vs, hl] at hr
        cases hr
    | ok vs =>
      simp only [Except.map, Except.ok.injEq]
      constructor
      · rintro rfl
        exact ⟨vs, rfl, (decodeList_ok_iff cfg xs vs).1 hl⟩
      · rintro ⟨vs', rfl, hr⟩
        rw [← decodeList_ok_iff cfg xs vs', hl] at hr
        cases hr; rfl
theorem decodeList_ok_iff (cfg : Cfg) : ∀ (xs : List Reply) (vs : List CVal),
    decodeList cfg xs = .ok vs ↔ RelL (fun b w => decodeBytes cfg b = .ok w) xs vs
  | [], vs => by simp only [decodeList, RelL, Except.ok.injEq]; exact eq_comm
  | x :: xs, vs => by
    simp only [decodeList, RelL]
    cases hx : decodeVal cfg x with
    | error e =>
      simp only
      constructor
      · intro h; cases h
      · rintro ⟨v, vs', _, h1, _⟩
        rw [← decodeVal_ok_iff cfg x v, hx] at h1
        cases h1
    | ok v =>
      cases hl : decodeList cfg xs with
      | error e =>
        simp only
        constructor
        · intro h; cases h
        · rintro ⟨_, vs', _, _, h2⟩
          rw [← decodeList_ok_iff cfg xs vs', hl] at h2
          cases h2
      | ok vs0 =>
        simp only [Except.ok.injEq]
        constructor
        · rintro rfl
          exact ⟨v, vs0, rfl, (decodeVal_ok_iff cfg x v).1 hx, (decodeList_ok_iff cfg xs vs0).1 hl⟩
        · rintro ⟨v', vs', rfl, h1, h2⟩
          rw [← decodeVal_ok_iff cfg x v', hx] at h1
          rw [← decodeList_ok_iff cfg xs vs', hl] at h2
          cases h1; cases h2; rfl
end

/-! ## which exception surfaces: the first failing leaf in depth-first order -/

def errOf {α} : Except DecodeErr α → Option DecodeErr
  | .error e => some e
  | .ok _ => none

/-- the exception of the first leaf (in order) whose decoding fails -/
def firstErr (cfg : Cfg) (bs : List Bytes) : Option DecodeErr := bs.findSome? fun b => errOf (decodeBytes cfg b)

theorem firstErr_append (cfg : Cfg) (a b : List Bytes) :
    firstErr cfg (a ++ b) = (firstErr cfg a).or (firstErr cfg b) := by
  unfold firstErr
  rw [List.findSome?_append]

mutual
theorem errOf_decodeVal (cfg : Cfg) : ∀ r : Reply, errOf (decodeVal cfg r) = firstErr cfg (leaves r)
  | .nil => rfl
  | .int _ => rfl
  | .err _ => rfl
  | .bulk b => by
    simp only [decodeVal, leaves, firstErr, List.findSome?_cons, List.findSome?_nil]
    cases errOf (decodeBytes cfg b) <;> rfl
  | .status b => by
    simp only [decodeVal, leaves, firstErr, List.findSome?_cons, List.findSome?_nil]
    cases errOf (decodeBytes cfg b) <;> rfl
  | .arr xs => by
    simp only [decodeVal, leaves]
    rw [← errOf_decodeList cfg xs]
    cases decodeList cfg xs <;> rfl
theorem errOf_decodeList (cfg : Cfg) : ∀ xs : List Reply, errOf (decodeList cfg xs) = firstErr cfg (leavesL xs)
  | [] => rfl
  | x :: xs => by
    simp only [decodeList, leavesL]
    rw [firstErr_append, ← errOf_decodeVal cfg x, ← errOf_decodeList cfg xs]
    cases decodeVal cfg x with
    | error e => rfl
    | ok v =>
      cases decodeList cfg xs <;> rfl
end

theorem errOf_eq_none_iff {α} (x : Except DecodeErr α) : errOf x = none ↔ ∃ a, x = .ok a := by
  cases x with
  | error e => simp [errOf]
  | ok a => simp [errOf]

theorem errOf_eq_some_iff {α} (x : Except DecodeErr α) (e : DecodeErr) : errOf x = some e ↔ x = .error e := by
  cases x with
  | error e' => simp [errOf]
  | ok a => simp [errOf]

/-! ## no decoding: the queue object itself -/

mutual
theorem decodeVal_off (cfg : Cfg) (h : cfg.decodeResponses = false) : ∀ r : Reply, decodeVal cfg r = .ok (rawVal r)
  | .nil => rfl
  | .int _ => rfl
  | .err _ => rfl
  | .bulk b => by simp only [decodeVal, decodeBytes, h, rawVal]; rfl
  | .status b => by simp only [decodeVal, decodeBytes, h, rawVal]; rfl
  | .arr xs => by simp only [decodeVal, decodeList_off cfg h xs, rawVal]; rfl
theorem decodeList_off (cfg : Cfg) (h : cfg.decodeResponses = false) :
    ∀ xs : List Reply, decodeList cfg xs = .ok (rawList xs)
  | [] => rfl
  | x :: xs => by simp only [decodeList, decodeVal_off cfg h x, decodeList_off cfg h xs, rawList]
end

mutual
theorem rawVal_rel : ∀ r : Reply, Rel (fun b w => w = .bytes b) r (rawVal r)
  | .nil => rfl
  | .int _ => rfl
  | .err _ => rfl
  | .bulk _ => rfl
  | .status _ => rfl
  | .arr xs => ⟨rawList xs, rfl, rawList_rel xs⟩
theorem rawList_rel : ∀ xs : List Reply, RelL (fun b w => w = .bytes b) xs (rawList xs)
  | [] => rfl
  | x :: xs => ⟨rawVal x, rawList xs, rfl, rawVal_rel x, rawList_rel xs⟩
end

/-! ## encoding back -/

mutual
/-- what the client can tell about a reply: a status reply is a bulk, an error message has lost a known code -/
def seen : Reply → Reply
  | .status b => .bulk b
  | .err m => .err (parseError m).2
  | .arr xs => .arr (seenL xs)
  | r => r
def seenL : List Reply → List Reply
  | [] => []
  | x :: xs => seen x :: seenL xs
end

mutual
/-- every text re-encoded with `str.encode(enc)`; bytes and the rest as they are -/
def encodeBack (enc : Encoding) : CVal → Option Reply
  | .nil => some .nil
  | .int n => some (.int n)
  | .bytes b => some (.bulk b)
  | .text s => (encodeText enc s).map .bulk
  | .err _ m => some (.err m)
  | .list vs => (encodeBackL enc vs).map .arr
def encodeBackL (enc : Encoding) : List CVal → Option (List Reply)
  | [] => some []
  | v :: vs =>
    match encodeBack enc v, encodeBackL enc vs with
    | some r, some rs => some (r :: rs)
    | _, _ => none
end

mutual
theorem encodeBack_of_rel (enc : Encoding) (leaf : Bytes → CVal → Prop)
    (hleaf : ∀ b w, leaf b w → encodeBack enc w = some (.bulk b)) : ∀ (r : Reply) (v : CVal),
    Rel leaf r v → encodeBack enc v = some (seen r)
  | .nil, v, h => by simp only [Rel] at h; subst h; rfl
  | .int _, v, h => by simp only [Rel] at h; subst h; rfl
  | .err _, v, h => by simp only [Rel] at h; subst h; rfl
  | .bulk b, v, h => hleaf b v h
  | .status b, v, h => hleaf b v h
  | .arr xs, v, h => by
    simp only [Rel] at h
    obtain ⟨vs, rfl, hl⟩ := h
    simp only [encodeBack, encodeBackL_of_rel enc leaf hleaf xs vs hl, seen]
    rfl
theorem encodeBackL_of_rel (enc : Encoding) (leaf : Bytes → CVal → Prop)
    (hleaf : ∀ b w, leaf b w → encodeBack enc w = some (.bulk b)) : ∀ (xs : List Reply) (vs : List CVal),
    RelL leaf xs vs → encodeBackL enc vs = some (seenL xs)
  | [], vs, h => by simp only [RelL] at h; subst h; rfl
  | x :: xs, vs, h => by
    simp only [RelL] at h
    obtain ⟨v, vs', rfl, h1, h2⟩ := h
    simp only [encodeBackL, encodeBack_of_rel enc leaf hleaf x v h1, encodeBackL_of_rel enc leaf hleaf xs vs' h2, seenL]
end

/-- replies without status replies and without error replies are seen as they are -/
def Plain (r : Reply) : Prop := ∀ p r', subReply r p = some r' → (∀ b, r' ≠ .status b) ∧ (∀ m, r' ≠ .err m)

mutual
theorem seen_eq_self_aux : ∀ r : Reply, (∀ p r', subReply r p = some r' → (∀ b, r' ≠ .status b) ∧ (∀ m, r' ≠ .err m)) →
    seen r = r
  | .nil, _ => rfl
  | .int _, _ => rfl
  | .bulk _, _ => rfl
  | .status b, h => absurd rfl ((h [] _ rfl).1 b)
  | .err m, h => absurd rfl ((h [] _ rfl).2 m)
  | .arr xs, h => by
    simp only [seen]
    rw [seenL_eq_self_aux xs fun i x hx p r' hp => h (i :: p) r' (by simp only [subReply, hx, hp])]
theorem seenL_eq_self_aux : ∀ xs : List Reply,
    (∀ (i : Nat) x, xs[i]? = some x → ∀ p r', subReply x p = some r' → (∀ b, r' ≠ .status b) ∧ (∀ m, r' ≠ .err m)) →
    seenL xs = xs
  | [], _ => rfl
  | x :: xs, h => by
    simp only [seenL]
    rw [seen_eq_self_aux x (h 0 x rfl), seenL_eq_self_aux xs fun i y hy => h (i + 1) y (by simpa using hy)]
end

theorem seen_eq_self (r : Reply) (h : Plain r) : seen r = r := seen_eq_self_aux r h

end FR.Client
