import FR.Proofs.C18fRound
import Mathlib.Tactic.Ring
import Mathlib.Tactic.Linarith
import Mathlib.Tactic.Positivity
import Mathlib.Tactic.FieldSimp
import Mathlib.Tactic.NormNum
import Mathlib.Algebra.Order.Field.Rat
/-!
# C18a helper — the soft-float arithmetic is IEEE-754 round-to-nearest-even arithmetic

* `Dbl.WF` — the canonical representation (`= DumpRound.Canon`), closed under every operation;
* `Dbl.val` / `Dbl.toRat` — the rational value of a finite double;
* `Dbl.RN zneg q` — the rounding specification: `roundAbs` of `q` with the sign of `q`; the zero of sign `zneg` when `q = 0`;
* `add_fin_eq_RN`, `mul_fin_eq_RN` — `add` / `mul` of two finite doubles is the rounding of the exact sum / product.
-/
namespace FR.C18a
open FR FR.C18f FR.DumpRound

/-- canonical representation: what `roundPos` produces -/
def _root_.FR.Dbl.WF : Dbl → Prop
  | .fin _ m e => m < 2 ^ 53 ∧ -1074 ≤ e ∧ e ≤ 971 ∧ (2 ^ 52 ≤ m ∨ e = -1074) ∧ (m = 0 → e = -1074)
  | _ => True

instance (d : Dbl) : Decidable (Dbl.WF d) := by
  unfold Dbl.WF; split <;> infer_instance

theorem wf_iff_canon (d : Dbl) : Dbl.WF d ↔ Canon d := by
  cases d with
  | nan => exact Iff.rfl
  | inf _ => exact Iff.rfl
  | fin n m e =>
    unfold Dbl.WF Canon
    constructor
    · rintro ⟨h1, h2, h3, h4, h5⟩
      rcases h4 with h4 | h4
      · by_cases c : m < 2 ^ 52
        · omega
        · exact Or.inr ⟨h4, h1, h2, h3⟩
      · by_cases c : m < 2 ^ 52
        · exact Or.inl ⟨c, h4⟩
        · exact Or.inr ⟨by omega, h1, h2, h3⟩
    · rintro (⟨h1, h2⟩ | ⟨h1, h2, h3, h4⟩)
      · exact ⟨by omega, by omega, by omega, Or.inr h2, fun _ => h2⟩
      · exact ⟨h2, h3, h4, Or.inl h1, fun h => by omega⟩

/-- sign bit -/
def _root_.FR.Dbl.signBit : Dbl → Bool
  | .fin n _ _ => n
  | .inf n => n
  | .nan => false

/-- the rational value of a finite double (0 for the others) -/
def _root_.FR.Dbl.val : Dbl → ℚ
  | .fin neg m e => (if neg then -1 else 1) * (m : ℚ) * (2 : ℚ) ^ e
  | _ => 0

/-- the value of a finite double; `none` for the infinities and the NaN -/
def _root_.FR.Dbl.toRat : Dbl → Option ℚ
  | .fin neg m e => some (Dbl.val (.fin neg m e))
  | _ => none

/-- ROUNDING SPECIFICATION: the double nearest to `q` (ties to even, overflow to the infinity of the sign of `q`);
an exact zero gets the sign bit `zneg` -/
def _root_.FR.Dbl.RN (zneg : Bool) (q : ℚ) : Dbl :=
  if q = 0 then .fin zneg 0 (-1074) else roundAbs (decide (q < 0)) q

theorem abs_eq_natAbs_div (q : ℚ) : |q| = (q.num.natAbs : ℚ) / (q.den : ℚ) := by
  conv_lhs => rw [← Rat.num_div_den q]
  rw [abs_div, Nat.abs_cast, ← Int.cast_abs, Int.abs_eq_natAbs, Int.cast_natCast]

/-- `roundAbs` depends on `|q|` only, and may be computed from any fraction equal to it -/
theorem roundAbs_of_abs (neg : Bool) (q : ℚ) (a b : Nat) (hb : 0 < b) (h : |q| = (a : ℚ) / (b : ℚ)) :
    roundAbs neg q = Dbl.roundPos neg a b := by
  unfold roundAbs
  apply roundPos_congr neg q.den_pos hb
  rw [abs_eq_natAbs_div, div_eq_div_iff (by exact_mod_cast q.den_pos.ne') (by exact_mod_cast hb.ne')] at h
  exact_mod_cast h

/-- the common tail of `addFin` and `mul`: rounding `mag · 2^e` -/
theorem roundPos_pow_eq (neg : Bool) (mag : Nat) (e : Int) (q : ℚ) (h : |q| = (mag : ℚ) * (2 : ℚ) ^ e) :
    (if e ≥ 0 then Dbl.roundPos neg (mag * Dbl.pow2 e.toNat) 1 else Dbl.roundPos neg mag (Dbl.pow2 (-e).toNat)) =
      roundAbs neg q := by
  simp only [pow2_eq]
  split
  · rename_i he
    symm
    apply roundAbs_of_abs _ _ _ _ (by decide)
    rw [h]
    have : e = (e.toNat : Int) := by omega
    conv_lhs => rw [this, zpow_natCast]
    push_cast
    ring
  · rename_i he
    symm
    apply roundAbs_of_abs _ _ _ _ (Nat.pow_pos (by decide))
    rw [h]
    have : e = -((-e).toNat : Int) := by omega
    conv_lhs => rw [this, zpow_neg, zpow_natCast]
    push_cast
    ring

theorem sgn_ne_zero (n : Bool) : ((if n then -1 else 1 : ℚ)) ≠ 0 := by cases n <;> norm_num

theorem abs_sgn (n : Bool) : |(if n then -1 else 1 : ℚ)| = 1 := by cases n <;> norm_num

theorem two_zpow_pos (e : Int) : (0 : ℚ) < (2 : ℚ) ^ e := zpow_pos (by norm_num) e

theorem val_fin (n : Bool) (m : Nat) (e : Int) :
    Dbl.val (.fin n m e) = (if n then -1 else 1) * (m : ℚ) * (2 : ℚ) ^ e := rfl

theorem zpow_split (e : Int) (k : Nat) : (2 : ℚ) ^ (e + (k : Int)) = (2 : ℚ) ^ k * (2 : ℚ) ^ e := by
  rw [zpow_add₀ (by norm_num), zpow_natCast, mul_comm]

/-- `a + b` of two finite doubles (canonical or not) is the rounding of the exact sum; an exact zero sum is `-0` iff both
operands carry the sign bit -/
theorem addFin_eq_RN (n1 : Bool) (m1 : Nat) (e1 : Int) (n2 : Bool) (m2 : Nat) (e2 : Int) :
    Dbl.addFin n1 m1 e1 n2 m2 e2 = Dbl.RN (n1 && n2) (Dbl.val (.fin n1 m1 e1) + Dbl.val (.fin n2 m2 e2)) := by
  have hp : (0 : ℚ) < (2 : ℚ) ^ (min e1 e2) := two_zpow_pos _
  have hsum : Dbl.val (.fin n1 m1 e1) + Dbl.val (.fin n2 m2 e2) =
      ((((if n1 then -1 else 1) * (m1 * Dbl.pow2 (e1 - min e1 e2).toNat : Nat) +
        (if n2 then -1 else 1) * (m2 * Dbl.pow2 (e2 - min e1 e2).toNat : Nat) : Int)) : ℚ) * (2 : ℚ) ^ (min e1 e2) := by
    rw [val_fin, val_fin]
    have h1 : e1 = min e1 e2 + ((e1 - min e1 e2).toNat : Int) := by omega
    have h2 : e2 = min e1 e2 + ((e2 - min e1 e2).toNat : Int) := by omega
    generalize (e1 - min e1 e2).toNat = k1 at *
    generalize (e2 - min e1 e2).toNat = k2 at *
    generalize min e1 e2 = e at *
    subst h1 h2
    rw [zpow_split, zpow_split]
    simp only [pow2_eq]
    push_cast
    cases n1 <;> cases n2 <;> simp <;> ring
  unfold Dbl.addFin Dbl.RN
  simp only []
  rw [hsum]
  generalize ((if n1 then -1 else 1) * (m1 * Dbl.pow2 (e1 - min e1 e2).toNat : Nat) +
        (if n2 then -1 else 1) * (m2 * Dbl.pow2 (e2 - min e1 e2).toNat : Nat) : Int) = s
  generalize min e1 e2 = e at *
  by_cases hs : s = 0
  · subst hs
    simp
  · have hb : (s == 0) = false := by simpa using hs
    have hq : ((s : ℚ) * (2 : ℚ) ^ e) ≠ 0 := mul_ne_zero (by exact_mod_cast hs) hp.ne'
    rw [hb, if_neg hq]
    simp only [Bool.false_eq_true, if_false]
    have hneg : decide (s < 0) = decide ((s : ℚ) * (2 : ℚ) ^ e < 0) := by
      congr 1
      rw [eq_iff_iff, mul_neg_iff]
      constructor
      · intro h; right; exact ⟨by exact_mod_cast h, hp⟩
      · rintro (⟨_, h⟩ | ⟨h, _⟩)
        · exact absurd h (not_lt.mpr hp.le)
        · exact_mod_cast h
    rw [hneg]
    apply roundPos_pow_eq
    rw [abs_mul, abs_of_pos hp, ← Int.cast_abs, Int.abs_eq_natAbs, Int.cast_natCast]

theorem add_fin_eq_RN (n1 : Bool) (m1 : Nat) (e1 : Int) (n2 : Bool) (m2 : Nat) (e2 : Int) :
    Dbl.add (.fin n1 m1 e1) (.fin n2 m2 e2) =
      Dbl.RN (n1 && n2) (Dbl.val (.fin n1 m1 e1) + Dbl.val (.fin n2 m2 e2)) :=
  addFin_eq_RN _ _ _ _ _ _

/-- `a * b` of two finite doubles (canonical or not) is the rounding of the exact product; the sign bit of a zero
product is the xor of the sign bits -/
theorem mul_fin_eq_RN (n1 : Bool) (m1 : Nat) (e1 : Int) (n2 : Bool) (m2 : Nat) (e2 : Int) :
    Dbl.mul (.fin n1 m1 e1) (.fin n2 m2 e2) =
      Dbl.RN (n1 != n2) (Dbl.val (.fin n1 m1 e1) * Dbl.val (.fin n2 m2 e2)) := by
  have hp : (0 : ℚ) < (2 : ℚ) ^ (e1 + e2) := two_zpow_pos _
  have hprod : Dbl.val (.fin n1 m1 e1) * Dbl.val (.fin n2 m2 e2) =
      (if (n1 != n2) then -1 else 1) * ((m1 * m2 : Nat) : ℚ) * (2 : ℚ) ^ (e1 + e2) := by
    rw [val_fin, val_fin, zpow_add₀ (by norm_num)]
    push_cast
    cases n1 <;> cases n2 <;> simp <;> ring
  show (if (m1 * m2 == 0) then Dbl.fin (n1 != n2) 0 (-1074)
    else if e1 + e2 ≥ 0 then Dbl.roundPos (n1 != n2) (m1 * m2 * Dbl.pow2 (e1 + e2).toNat) 1
      else Dbl.roundPos (n1 != n2) (m1 * m2) (Dbl.pow2 (-(e1 + e2)).toNat)) = _
  unfold Dbl.RN
  rw [hprod]
  generalize m1 * m2 = m
  generalize e1 + e2 = e at *
  generalize (n1 != n2) = n
  by_cases hm : m = 0
  · subst hm; simp
  · have hb : (m == 0) = false := by simpa using hm
    have hmq : (0 : ℚ) < (m : ℚ) := by exact_mod_cast Nat.pos_of_ne_zero hm
    have hq : (if n then -1 else 1 : ℚ) * (m : ℚ) * (2 : ℚ) ^ e ≠ 0 :=
      mul_ne_zero (mul_ne_zero (sgn_ne_zero n) hmq.ne') hp.ne'
    have hpos : (0 : ℚ) < (m : ℚ) * (2 : ℚ) ^ e := mul_pos hmq hp
    rw [hb, if_neg hq]
    simp only [Bool.false_eq_true, if_false]
    have hneg : n = decide ((if n then -1 else 1 : ℚ) * (m : ℚ) * (2 : ℚ) ^ e < 0) := by
      cases n
      · simp only [Bool.false_eq_true, if_false, one_mul]
        symm; rw [decide_eq_false_iff_not]; exact not_lt.mpr hpos.le
      · simp only [if_true]
        symm; rw [decide_eq_true_eq]
        linarith
    conv_rhs => rw [← hneg]
    apply roundPos_pow_eq
    rw [abs_mul, abs_mul, abs_sgn, abs_of_pos hp, Nat.abs_cast, one_mul]

end FR.C18a
